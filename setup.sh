#!/bin/sh
# MANIFEST.setup_cmd: build the Coq development (full .vo) and warm the Go build cache. Offline.
set -e
cd "$(dirname "$0")"
export GOFLAGS=-mod=mod GOPROXY=off GOSUMDB=off GOTOOLCHAIN=local
( cd coq && coq_makefile -f _CoqProject -o Makefile.coq >/dev/null && timeout 3600 make -f Makefile.coq -j16 )
cp /repo/go.sum harness/go.sum
( cd harness && timeout 1800 go build -tags verif -o /dev/null ./cmd/vh )
echo setup-ok
