(* LedgerCheck.v — what a generated case file evaluates for property C18: the implementation's
   observations against the abstract versioned store (the property itself) and against the
   concrete ledger model (the tie), including the tree-operation order of commits. *)
From stdpp Require Import gmap.
From Rigo Require Import Ledger LedgerSpec LedgerRun.

Definition check_case_spec (ops : list lop) (observed : list lout) : option nat :=
  first_diff 0 (outs (spec_run ops)) (outs observed).

(* (case, first op where the implementation departs from the abstract store,
          first op where it departs from the concrete model incl. tree-op order) *)
Fixpoint check_c18_from (i : nat) (cases : list (list lop * list lout))
  : list (nat * option nat * option nat) :=
  match cases with
  | [] => []
  | (ops, obs) :: r =>
    match check_case_spec ops obs, check_case_full ops obs with
    | None, None => check_c18_from (S i) r
    | a, b => (i, a, b) :: check_c18_from (S i) r
    end
  end.
Definition check_c18 := check_c18_from 0.
