(* Node.v — the node as consensus sees it plus what mempool checks and queries can touch.
   Spec.v models the consensus side (BeginBlock/DeliverTx/EndBlock/Commit).  Here it is paired
   with the mempool-side state that CheckTx works on, and with Query, to state the isolation
   properties C06 and C19.  Definitions and their (short) proofs. *)
From Rigo Require Import Base.
From stdpp Require Import gmap sorting.
From Rigo Require Import Spec SpecProps AppRun.
Local Open Scope Z_scope.

(* mempool-side state: the check overlay of every ledger, seen as "last committed state plus the
   pending effects of the CheckTx calls since" (reset at Commit), and the check-side stake limiter
   (since fix cef0175 a separate object; reset at BeginBlock) *)
Record node := { cons : state; chk : ledgers; chk_lim : limiter }.

(* the state CheckTx validates against: the overlay, the consensus side's in-memory parameters and
   validator set, height = last committed height + 1 *)
Definition check_view (n : node) : state :=
  let s := cons n in
  {| committed := committed s; work := chk n; gparams := gparams s; newparams := None;
     alldels := alldels s; lastvals := lastvals s; lim := chk_lim n;
     bctx := {| b_height := last_height s + 1; b_proposer := None; b_feesum := 0; b_txs := 0 |};
     last_height := last_height s |}.

(* CheckTx: the signature is not verified on this path, contract transactions are validated but
   not executed (ExecuteTrx returns at once when Exec is false) and pay no fee here *)
Definition check_tx (n : node) (t : tx) : node * res Z :=
  let v := check_view n in
  let t' := mk_tx (t_type t) (t_from t) (t_to t) (t_from_ok t) (t_to_ok t) (t_amount t) (t_price t)
                  (t_gas t) (t_nonce t) (t_payload t) (t_hash t) true None in
  let evm := (t_type t =? TRX_CONTRACT) ||
             ((t_type t =? TRX_TRANSFER) && a_code (default acct0 (accts (chk n) !! t_to t))) in
  if evm then
    match accts (chk n) !! t_from t with
    | None => (n, Err E_NOACCT)
    | Some sender =>
        let '(l0, receiver) := find_or_new (chk n) (t_to t) in
        let n0 := {| cons := cons n; chk := l0; chk_lim := chk_lim n |} in
        match common_validation0 (gparams (cons n)) t' with Some e => (n0, Err e) | None =>
        match common_validation1 sender t' with Some e => (n0, Err e) | None =>
        match evm_validate receiver t' with Some e => (n0, Err e) | None => (n0, Ok 0) end end end
    end
  else
    let '(v', r) := deliver v t' in
    ({| cons := cons n; chk := work v'; chk_lim := lim v' |}, r).

(* Query: a function of the committed versions only *)
Definition query_snapshot (n : node) (wa : list addr) (wh : list hash) (height : Z) : option snapshot :=
  let s := cons n in
  let h := if height =? 0 then last_height s else height in
  if (h <? 1) || (Z.of_nat (length (committed s)) <? h) then None
  else snapshot_of wa wh <$> (committed s !! Z.to_nat (h - 1)).

Inductive nop :=
| NCons (o : sop)                 (* a consensus call *)
| NCheck (t : tx)                 (* a mempool check *)
| NQuery (wa : list addr) (wh : list hash) (height : Z).

Definition limiter_of_begin (s : state) (hd : header) : limiter := lim (begin_block s hd).1.

Definition nstep (n : node) (o : nop) : node :=
  match o with
  | NCons (SCommit) =>
      let s' := commit (cons n) in {| cons := s'; chk := work s'; chk_lim := chk_lim n |}
  | NCons (SBegin hd) =>
      let s' := (begin_block (cons n) hd).1 in {| cons := s'; chk := chk n; chk_lim := lim s' |}
  | NCons o => {| cons := sstep (cons n) o; chk := chk n; chk_lim := chk_lim n |}
  | NCheck t => (check_tx n t).1
  | NQuery _ _ _ => n
  end.
Definition nrun (n : node) (ops : list nop) : node := foldl nstep n ops.

(* the consensus calls of a schedule, in order *)
Definition cons_ops (ops : list nop) : list sop :=
  omap (λ o, match o with NCons c => Some c | _ => None end) ops.

(* ------------------------------------------------------------------ C06: isolation *)
Lemma check_tx_cons n t : cons (check_tx n t).1 = cons n.
Proof.
  unfold check_tx.
  destruct ((t_type t =? TRX_CONTRACT) || _).
  - destruct (accts (chk n) !! t_from t) as [sender|]; [|reflexivity].
    destruct (find_or_new (chk n) (t_to t)) as [l0 receiver].
    destruct (common_validation0 _ _); [reflexivity|].
    destruct (common_validation1 _ _); [reflexivity|].
    destruct (evm_validate _ _); reflexivity.
  - destruct (deliver (check_view n) _) as [v' r]. reflexivity.
Qed.

Lemma nstep_cons n o :
  cons (nstep n o) = match o with NCons c => sstep (cons n) c | _ => cons n end.
Proof.
  destruct o as [c|t|wa wh h]; simpl.
  - destruct c; reflexivity.
  - apply check_tx_cons.
  - reflexivity.
Qed.

(* Whatever CheckTx and Query calls are interleaved with the consensus calls, at ABCI-call
   granularity, the consensus-side state after the schedule is the one the consensus calls alone
   produce: every answer to a consensus call and every committed version is unchanged. *)
Theorem checks_and_queries_do_not_interfere : ∀ ops n,
  cons (nrun n ops) = srun (cons n) (cons_ops ops).
Proof.
  induction ops as [|o ops IH]; intros n; [reflexivity|].
  unfold nrun, srun in *. cbn [foldl]. rewrite IH, nstep_cons.
  destruct o as [c|t|wa wh h]; reflexivity.
Qed.

(* the answers of the consensus calls along a schedule *)
Inductive cres :=
| RBegin (r : res Z) | RDeliver (r : res Z) | REnd (r : res (list (addr * Z))) | RCommit (l : ledgers).
Definition cons_answer (s : state) (o : sop) : cres :=
  match o with
  | SBegin hd => RBegin (begin_block s hd).2
  | SDeliver t => RDeliver (deliver s t).2
  | SEnd => REnd (end_block s).2
  | SCommit => RCommit (work (commit s))
  end.
Fixpoint cons_answers (s : state) (ops : list sop) : list cres :=
  match ops with [] => [] | o :: r => cons_answer s o :: cons_answers (sstep s o) r end.
Fixpoint node_answers (n : node) (ops : list nop) : list cres :=
  match ops with
  | [] => []
  | NCons c :: r => cons_answer (cons n) c :: node_answers (nstep n (NCons c)) r
  | o :: r => node_answers (nstep n o) r
  end.

Theorem interleaving_invisible : ∀ ops n,
  node_answers n ops = cons_answers (cons n) (cons_ops ops).
Proof.
  induction ops as [|o ops IH]; intros n; [reflexivity|].
  destruct o as [c|t|wa wh h]; cbn [node_answers cons_ops omap list_omap cons_answers].
  - rewrite IH. f_equal. f_equal. apply (nstep_cons n (NCons c)).
  - rewrite IH. f_equal. apply (nstep_cons n (NCheck t)).
  - rewrite IH. reflexivity.
Qed.

(* ------------------------------------------------------------------ C19: queries *)
(* committed versions are only ever appended *)
Lemma sstep_committed_prefix s o : committed s `prefix_of` committed (sstep s o).
Proof.
  destruct o as [hd|t| |]; simpl.
  - unfold begin_block.
    destruct (negb (h_height hd =? last_height s + 1)); [reflexivity|].
    destruct (h_votes hd) as [|v vs]; [reflexivity|].
    destruct (process_votes _ _ _ _) as [[l3 iss]|e|p]; reflexivity.
  - pose proof (f_equal committed (eq_refl (deliver s t).1)) as _.
    assert (H : committed (deliver s t).1 = committed s).
    { unfold deliver.
      destruct (accts (work s) !! t_from t) as [sender|]; [|reflexivity].
      destruct (find_or_new _ _) as [l0 receiver].
      destruct (common_validation0 _ _); [reflexivity|].
      destruct (common_validation1 _ _); [reflexivity|].
      repeat match goal with
      | |- context [match ?x with _ => _ end] => destruct x; try reflexivity
      | |- context [if ?x then _ else _] => destruct x; try reflexivity
      end. }
    rewrite H. reflexivity.
  - unfold end_block.
    repeat match goal with
    | |- context [match ?x with _ => _ end] => destruct x; try reflexivity
    | |- context [if ?x then _ else _] => destruct x; try reflexivity
    end.
  - simpl. apply prefix_app_r. reflexivity.
Qed.

Lemma srun_committed_prefix ops : ∀ s, committed s `prefix_of` committed (srun s ops).
Proof.
  induction ops as [|o ops IH]; intros s; [reflexivity|].
  unfold srun in *; simpl. etrans; [apply sstep_committed_prefix|apply IH].
Qed.

(* The answer for a height that is already committed never changes, whatever happens later:
   further blocks, transactions of a block in progress, mempool checks, other queries. *)
Theorem past_heights_are_immutable : ∀ n ops wa wh h,
  1 ≤ h ≤ Z.of_nat (length (committed (cons n))) →
  query_snapshot (nrun n ops) wa wh h = query_snapshot n wa wh h.
Proof.
  intros n ops wa wh h Hh.
  unfold query_snapshot.
  rewrite checks_and_queries_do_not_interfere.
  pose proof (srun_committed_prefix (cons_ops ops) (cons n)) as [ext Hext].
  assert (Hz : (h =? 0) = false) by (apply Z.eqb_neq; lia). rewrite Hz.
  assert (Hl : Z.of_nat (length (committed (cons n))) ≤ Z.of_nat (length (committed (srun (cons n) (cons_ops ops))))).
  { rewrite Hext, app_length. lia. }
  assert (H1 : ((h <? 1) || (Z.of_nat (length (committed (srun (cons n) (cons_ops ops)))) <? h)) = false).
  { apply orb_false_iff; split; [apply Z.ltb_ge; lia|apply Z.ltb_ge; lia]. }
  assert (H2 : ((h <? 1) || (Z.of_nat (length (committed (cons n))) <? h)) = false).
  { apply orb_false_iff; split; [apply Z.ltb_ge; lia|apply Z.ltb_ge; lia]. }
  rewrite H1, H2, Hext.
  rewrite lookup_app_l; [reflexivity|]. lia.
Qed.

(* serving a query changes nothing at all *)
Theorem query_is_pure : ∀ n wa wh h, nstep n (NQuery wa wh h) = n.
Proof. reflexivity. Qed.

(* a height beyond the latest committed one is refused *)
Theorem query_beyond_latest : ∀ n wa wh h,
  Z.of_nat (length (committed (cons n))) < h → query_snapshot n wa wh h = None.
Proof.
  intros n wa wh h Hh. unfold query_snapshot.
  assert (Hz : (h =? 0) = false) by (apply Z.eqb_neq; lia). rewrite Hz.
  assert (H : (Z.of_nat (length (committed (cons n))) <? h) = true) by (apply Z.ltb_lt; lia).
  rewrite H, orb_true_r. reflexivity.
Qed.
