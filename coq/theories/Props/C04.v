(* C04 — Per-account nonces give exactly-once, in-order execution.  Statements about Spec.v,
   closed by lemmas of InvNonce.v / InvFail.v. *)
From Rigo Require Import Base.
From stdpp Require Import gmap sorting.
From Rigo Require Import Spec SpecProps InvFail InvNonce.
Local Open Scope Z_scope.

(* success only with the sender's current nonce; the nonce then moves by exactly one and nobody
   else's nonce moves (native execution path) *)
Theorem C04_step : forall s t s' g,
  t_type t <> TRX_CONTRACT -> a_code (acct_of (work s) (t_to t)) = false ->
  deliver s t = (s', Ok g) ->
  nonce_of (work s) (t_from t) = t_nonce t /\
  nonce_of (work s') (t_from t) = (t_nonce t + 1) mod two64 /\
  forall a, a <> t_from t -> nonce_of (work s') a = nonce_of (work s) a.
Proof. exact deliver_ok_nonce_step. Qed.
Print Assumptions C04_step.

(* EVM execution path: the nonces afterwards are those of the observed effect; with the effect's
   contract "the sender's nonce is bumped by one" the step is the same *)
Theorem C04_step_evm : forall s t s' g,
  evm_path s t = true -> evm_effect_nonce_ok t -> deliver s t = (s', Ok g) ->
  nonce_of (work s) (t_from t) = t_nonce t /\
  nonce_of (work s') (t_from t) = (t_nonce t + 1) mod two64 /\
  exists e, t_evm t = Some e /\
    forall a, nonce_of (work s') a = default (nonce_of (work s) a) (eff_nonce (e_accts e) a).
Proof. exact deliver_ok_nonce_step_evm. Qed.
Print Assumptions C04_step_evm.

(* failed transactions and block-level processing leave every nonce unchanged *)
Theorem C04_fail : forall s t s' e, deliver s t = (s', Err e) -> forall a, nonce_of (work s') a = nonce_of (work s) a.
Proof. exact deliver_fail_nonce. Qed.
Theorem C04_begin : forall s hd a, nonce_of (work (begin_block s hd).1) a = nonce_of (work s) a.
Proof. exact begin_block_nonce. Qed.
Theorem C04_end : forall s a, nonce_of (work (end_block s).1) a = nonce_of (work s) a.
Proof. exact end_block_nonce. Qed.
Theorem C04_commit : forall s a, nonce_of (work (commit s)) a = nonce_of (work s) a.
Proof. exact commit_nonce. Qed.
Print Assumptions C04_fail.
Print Assumptions C04_end.

(* consequently: in ANY history (any start state, any sequence of blocks, deliveries, replays) a
   given (sender, nonce) takes effect at most once, as long as nonces stay below 2^64 - 1 *)
Theorem C04_holds : forall s0 ops i j t1 t2,
  run_ok (hist_ok (t_from t1)) s0 ops -> (i < j)%nat ->
  ops !! i = Some (SDeliver t1) -> ops !! j = Some (SDeliver t2) ->
  delivered (srun s0 (take i ops)) t1 -> delivered (srun s0 (take j ops)) t2 ->
  t_from t2 = t_from t1 -> t_nonce t2 = t_nonce t1 -> False.
Proof. exact nonce_used_once. Qed.
Print Assumptions C04_holds.

Theorem C04_holds_native : forall s0 ops i j t1 t2,
  no_code (work s0) -> Forall (native_op (t_from t1)) ops -> (i < j)%nat ->
  ops !! i = Some (SDeliver t1) -> ops !! j = Some (SDeliver t2) ->
  delivered (srun s0 (take i ops)) t1 -> delivered (srun s0 (take j ops)) t2 ->
  t_from t2 = t_from t1 -> t_nonce t2 = t_nonce t1 -> False.
Proof. exact nonce_used_once_native. Qed.
Print Assumptions C04_holds_native.

(* ---- the EVM nonce contract replaced by the CHECKED boolean (EffectCheck.v).  The correspondence
   check evaluates [check_effects c] on every recorded history c; "it returned []" is
   [effects_hold senders state0 (c_ops c)] (check_effects_sound).  The operations after the
   InitChain, as a sop list: [InvEvmClosed.sops_of]; [no_init]: no further InitChain. *)
From Rigo Require AppRun EffectCheck InvEvmClosed.

(* the history theorem under the weaker per-step hypothesis [hist_ok']: the EVM nonce contract is
   demanded of the SUCCESSFUL EVM-path deliveries only (a failing delivery changes no nonce
   whatever effect record it carries) *)
Theorem C04_holds' : forall s0 ops i j t1 t2,
  run_ok (InvEvmClosed.hist_ok' (t_from t1)) s0 ops -> (i < j)%nat ->
  ops !! i = Some (SDeliver t1) -> ops !! j = Some (SDeliver t2) ->
  delivered (srun s0 (take i ops)) t1 -> delivered (srun s0 (take j ops)) t2 ->
  t_from t2 = t_from t1 -> t_nonce t2 = t_nonce t1 -> False.
Proof. exact InvEvmClosed.nonce_used_once'. Qed.
Print Assumptions C04_holds'.

(* in a history on which the check passed, for a sender the check watches, with no successful
   transaction of that sender carrying the last nonce 2^64 - 1 ([no_wrap], the second clause of
   [hist_ok]): the per-step hypothesis holds along the run ... *)
Theorem C04_checked_run_ok' : forall g rest senders a,
  InvEvmClosed.no_init rest ->
  EffectCheck.effects_hold senders AppRun.state0 (AppRun.AInit g :: rest) ->
  a ∈ senders ->
  run_ok (InvEvmClosed.no_wrap a) (init_chain g) (InvEvmClosed.sops_of rest) ->
  run_ok (InvEvmClosed.hist_ok' a) (init_chain g) (InvEvmClosed.sops_of rest).
Proof. exact InvEvmClosed.C04_checked_run_ok'. Qed.
Print Assumptions C04_checked_run_ok'.

(* ... hence no two deliveries with its address and the same nonce both succeed *)
Theorem C04_checked : forall g rest senders i j t1 t2,
  InvEvmClosed.no_init rest ->
  EffectCheck.effects_hold senders AppRun.state0 (AppRun.AInit g :: rest) ->
  t_from t1 ∈ senders ->
  run_ok (InvEvmClosed.no_wrap (t_from t1)) (init_chain g) (InvEvmClosed.sops_of rest) ->
  (i < j)%nat ->
  InvEvmClosed.sops_of rest !! i = Some (SDeliver t1) -> InvEvmClosed.sops_of rest !! j = Some (SDeliver t2) ->
  delivered (srun (init_chain g) (take i (InvEvmClosed.sops_of rest))) t1 ->
  delivered (srun (init_chain g) (take j (InvEvmClosed.sops_of rest))) t2 ->
  t_from t2 = t_from t1 -> t_nonce t2 = t_nonce t1 -> False.
Proof. exact InvEvmClosed.C04_checked. Qed.
Print Assumptions C04_checked.

(* the same from the verdict on a recorded case: the check watches every sender of the case *)
Theorem C04_checked_case : forall c g rest i j t1 t2,
  AppRun.c_ops c = AppRun.AInit g :: rest -> InvEvmClosed.no_init rest ->
  EffectCheck.check_effects c = [] ->
  run_ok (InvEvmClosed.no_wrap (t_from t1)) (init_chain g) (InvEvmClosed.sops_of rest) ->
  (i < j)%nat ->
  InvEvmClosed.sops_of rest !! i = Some (SDeliver t1) -> InvEvmClosed.sops_of rest !! j = Some (SDeliver t2) ->
  delivered (srun (init_chain g) (take i (InvEvmClosed.sops_of rest))) t1 ->
  delivered (srun (init_chain g) (take j (InvEvmClosed.sops_of rest))) t2 ->
  t_from t2 = t_from t1 -> t_nonce t2 = t_nonce t1 -> False.
Proof. exact InvEvmClosed.C04_checked_case. Qed.
Print Assumptions C04_checked_case.

(* [hist_ok] itself (the hypothesis of C04_holds) does NOT follow from the check: it asks for the
   nonce contract of failing EVM-path deliveries too, which the check does not look at.  Witness: a
   contract transaction with a stale nonce whose effect record disagrees with its nonce *)
Theorem C04_checked_hist_ok_refuted : exists g rest senders t1,
  InvEvmClosed.no_init rest /\
  EffectCheck.effects_hold senders AppRun.state0 (AppRun.AInit g :: rest) /\
  t_from t1 ∈ senders /\
  run_ok (InvEvmClosed.no_wrap (t_from t1)) (init_chain g) (InvEvmClosed.sops_of rest) /\
  ~ run_ok (hist_ok (t_from t1)) (init_chain g) (InvEvmClosed.sops_of rest).
Proof. exact InvEvmClosed.C04_checked_hist_ok_refuted. Qed.
Print Assumptions C04_checked_hist_ok_refuted.
