(* C03 — Only the key holder of the sender address can cause a transaction's effects.
   Byte-level part: the signing preimage determines the chain id and every executed field;
   with idealised signatures, a signature verifies only for exactly what was signed.
   (That a transaction failing verification has no effect is C05; that verification runs on the
   deliver path is part of the application model and its correspondence.) *)
From Coq Require Import List NArith ZArith.
From Rigo Require Import Rlp Preimage SigModel.

Theorem C03_rlp_injective : forall a b, item_ok a -> item_ok b -> rlp_encode a = rlp_encode b -> a = b.
Proof. exact rlp_encode_inj. Qed.
Print Assumptions C03_rlp_injective.

(* equal RLP encodings of two decoded transactions: all signed fields equal (transfer/staking
   payload objects, which encode to nothing, are identified with the absent payload) *)
Theorem C03_trx_injective : forall t1 t2, trx_wf t1 -> trx_wf t2 -> trx_rlp t1 = trx_rlp t2 -> trx_norm t1 = trx_norm t2.
Proof. exact trx_rlp_inj. Qed.
Print Assumptions C03_trx_injective.

(* equal preimages: same chain id and same signed fields, for chain ids that do not contain the
   text ") Signed Message:\n" — in particular for every chain id without a newline *)
Theorem C03_preimage_injective : forall c1 c2 t1 t2,
  no_sub pre_mid c1 -> no_sub pre_mid c2 -> trx_wf t1 -> trx_wf t2 ->
  preimage c1 t1 = preimage c2 t2 -> c1 = c2 /\ trx_norm t1 = trx_norm t2.
Proof. exact preimage_inj. Qed.
Print Assumptions C03_preimage_injective.

Theorem C03_preimage_injective_printable : forall c1 c2 t1 t2,
  ~ In (n2b 10) c1 -> ~ In (n2b 10) c2 -> trx_wf t1 -> trx_wf t2 ->
  preimage c1 t1 = preimage c2 t2 -> c1 = c2 /\ trx_norm t1 = trx_norm t2.
Proof. exact preimage_inj_no_newline. Qed.
Print Assumptions C03_preimage_injective_printable.

(* the hypothesis on chain ids is needed: without it two different (chain id, transaction)
   pairs have one preimage (witness: a 93-byte chain id, above Tendermint's 50-byte limit) *)
Theorem C03_chainid_hypothesis_needed : exists c1 c2 t1 t2,
  (c1 <> c2 \/ t1 <> t2) /\ trx_wf t1 /\ trx_wf t2 /\
  payload_canonical (t_payload t1) /\ payload_canonical (t_payload t2) /\
  preimage c1 t1 = preimage c2 t2.
Proof. exact preimage_ambiguous. Qed.
Print Assumptions C03_chainid_hypothesis_needed.

(* with idealised signing/recovery and a collision-free hash (hypotheses of the statement):
   a signature made for (c0,t0) by key k verifies for (chain,t) only if chain = c0, all signed
   fields agree and t.From is k's address; any alteration is rejected *)
Theorem C03_holds : forall (digest key sigT : Type) (hash : list byte -> digest)
    (sign : key -> digest -> sigT) (addr_of : key -> list byte)
    (recover : digest -> sigT -> option (list byte)),
  (forall k d d' a, recover d' (sign k d) = Some a -> d' = d /\ a = addr_of k) ->
  (forall m1 m2, hash m1 = hash m2 -> m1 = m2) ->
  forall c0 chain t0 t k,
  no_sub pre_mid c0 -> no_sub pre_mid chain -> trx_wf t0 -> trx_wf t ->
  (chain <> c0 \/ trx_norm t <> trx_norm t0 \/ t_from t <> addr_of k) ->
  verify digest sigT hash recover chain t (sign k (hash (preimage c0 t0))) = false.
Proof. exact tampered_rejected. Qed.
Print Assumptions C03_holds.
