(* C08 — Crash recovery.  The full statement ("a crash at any point never bricks the node") is
   FALSE of the code: Commit makes its durable writes one store after the other and nothing rolls a
   store back on start.  What holds (the C08_partial theorems), and the refutation for every other crash point
   of every block (C08_refuted), over the version-vector model Crash.v. *)
From Rigo Require Import Base Crash.
From stdpp Require Import list.
Local Open Scope Z_scope.

(* crash anywhere before the first durable write of Commit (inside BeginBlock, DeliverTx, EndBlock:
   nothing is durable yet): the node reports the last committed block and replays the interrupted one *)
Theorem C08_partial_before : forall v, recover (crash_after v 0) = Recovers v.
Proof. exact crash_before_commit_recovers. Qed.
Print Assumptions C08_partial_before.

(* crash after the block context has been written: the node reports the interrupted block *)
Theorem C08_partial_after : forall v, recover (crash_after v (length write_order)) = Recovers (v + 1).
Proof. exact crash_after_commit_recovers. Qed.
Print Assumptions C08_partial_after.

(* every crash point strictly between the first ledger save and the block-context record, for every
   block: on restart the replay of the interrupted block panics (version mismatch / height check) *)
Theorem C08_refuted : forall v k, (0 < k < length write_order)%nat -> recovers (crash_after v k) = false.
Proof. exact crash_inside_commit_bricks. Qed.
Print Assumptions C08_refuted.
