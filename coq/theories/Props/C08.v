(* C08 — Crash recovery: a crash at any point never bricks or forks the node.
   Statements about Crash.v: the durable writes of a Commit, in the order the verif hooks record on
   every run, a crash keeping any prefix of them, and the start-up of the application, which brings
   every store back to the height the meta store reports (ledger.RollbackTo / evm.RollbackTo in
   NewRigoApp — the repair of the defect this property exposed: before it the stores were opened at
   their own latest versions and C08_without_rollback_refuted was the truth about the code). *)
From Rigo Require Import Base Crash.
From stdpp Require Import list.
Local Open Scope Z_scope.

(* for EVERY block and EVERY crash point (k = number of version-bearing durable writes that
   completed; k = 0 covers a crash inside BeginBlock, DeliverTx and EndBlock, where nothing is
   durable yet): after the start the version checks of BeginBlock and Commit pass, and the node
   reports the last fully committed block — or the interrupted one, when its block context had
   already been written *)
Theorem C08_holds : forall v k, start (crash_after v k) = Recovers (if (9 <=? k)%nat then v + 1 else v).
Proof. exact start_recovers. Qed.
Print Assumptions C08_holds.

(* contents, not only versions.  A store is the list of contents it saved; block h computes the new
   content of every store from the contents of ALL stores at the previous version ([step], any
   function that reads its argument pointwise).  A crash before the block context is written, then
   a start: the disk is exactly what it was before the interrupted commit ... *)
Theorem C08_start_undoes_partial_commit : forall (C : Type) (g : store -> C) (step : Z -> (store -> C) -> store -> C) d n k,
  level d n -> (k < 9)%nat -> forall s, rollback (commit_prefix g step d k) s = d s.
Proof. exact @rollback_undoes_partial_commit. Qed.
Print Assumptions C08_start_undoes_partial_commit.

(* ... a crash after it: the start keeps the completed commit *)
Theorem C08_start_keeps_full_commit : forall (C : Type) (g : store -> C) (step : Z -> (store -> C) -> store -> C) d n k,
  level d n -> (9 <= k)%nat -> forall s, rollback (commit_prefix g step d k) s = commit g step d s.
Proof. exact @rollback_keeps_full_commit. Qed.
Print Assumptions C08_start_keeps_full_commit.

(* the height Info reports after the start is the number of completed commits *)
Theorem C08_reported_height : forall (C : Type) (g : store -> C) (step : Z -> (store -> C) -> store -> C) d n k,
  level d n ->
  ver (rollback (commit_prefix g step d k)) SMetaCtx = Z.of_nat n + (if (9 <=? k)%nat then 1 else 0).
Proof. exact @reported_height. Qed.
Print Assumptions C08_reported_height.

(* one block, any number of crashes in a row (crash, start, replay, crash again, ...) before its
   commit completes: the resulting disk is the one a single uninterrupted commit writes *)
Theorem C08_replay_succeeds : forall (C : Type) (g : store -> C) (step : Z -> (store -> C) -> store -> C),
  step_ext step -> forall crashes d n,
  level d n -> Forall (fun k => (k < 9)%nat) crashes ->
  disk_eq (attempts g step d crashes) (commit g step d).
Proof. exact @attempts_same_as_uncrashed. Qed.
Print Assumptions C08_replay_succeeds.

(* whole histories: whatever the crash points of whatever blocks, the node ends with exactly the
   stores — hence exactly the application hashes from then on — of a node that executed the same
   blocks and never crashed *)
Theorem C08_history : forall (C : Type) (g : store -> C) (step : Z -> (store -> C) -> store -> C),
  step_ext step -> forall blocks d n,
  level d n -> Forall (Forall (fun k => (k < 9)%nat)) blocks ->
  disk_eq (run g step d blocks) (uncrashed g step d (length blocks)).
Proof. exact @run_same_as_uncrashed. Qed.
Print Assumptions C08_history.

(* the roll-back is needed: with stores opened at their own latest versions (the code before the
   repair) every crash point strictly between the first ledger save and the block-context record,
   of every block, makes the replay of the interrupted block panic (version mismatch / height check) *)
Theorem C08_without_rollback_refuted : forall v k, (0 < k < length write_order)%nat -> recovers (crash_after v k) = false.
Proof. exact crash_inside_commit_bricks_without_rollback. Qed.
Print Assumptions C08_without_rollback_refuted.
