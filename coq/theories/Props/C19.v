(* C19 — Queries return the state committed at the requested height, read-only. *)
From Rigo Require Import Base.
From stdpp Require Import gmap sorting.
From Rigo Require Import Spec SpecProps AppRun Node.
Local Open Scope Z_scope.

(* the answer for an already committed height never changes: not by later blocks, not by a block
   in progress, not by mempool checks or other queries *)
Theorem C19_holds : forall n ops wa wh h,
  1 <= h <= Z.of_nat (length (committed (cons n))) ->
  query_snapshot (nrun n ops) wa wh h = query_snapshot n wa wh h.
Proof. exact past_heights_are_immutable. Qed.
Print Assumptions C19_holds.

(* serving a query alters nothing, hence nothing that is subsequently committed *)
Theorem C19_pure : forall n wa wh h, nstep n (NQuery wa wh h) = n.
Proof. exact query_is_pure. Qed.
Print Assumptions C19_pure.

Theorem C19_beyond_latest : forall n wa wh h,
  Z.of_nat (length (committed (cons n))) < h -> query_snapshot n wa wh h = None.
Proof. exact query_beyond_latest. Qed.
Print Assumptions C19_beyond_latest.
