(* C05 — A failed transaction has no effect (atomicity).  Statements about Spec.v, closed by
   lemmas of InvFail.v. *)
From Rigo Require Import Base.
From stdpp Require Import gmap sorting.
From Rigo Require Import Spec SpecProps InvFail.
Local Open Scope Z_scope.

(* For every state and transaction: if delivery fails, every balance, nonce, name/document, code
   marker, bonded and unbonding stake, reward, proposal, vote and parameter is what it was, no fee
   is added to the block's fee sum, and the stake limiter, validator set and all other control
   state are unchanged (an empty account may have been created for the receiver; it is
   indistinguishable from an absent one in every query).  Hypotheses: the Go types' ranges, a
   governance gas price below 2^192, and for withdrawals that balance + withdrawable reward does
   not exceed 2^256 (for the states of a run from a genesis none of the three is needed: see
   C05_holds_closed below, which assumes only what the environment supplies). *)
Theorem C05_holds : forall s t s' e,
  tx_wf t -> payload_wf t -> params_ok (gparams s) -> ranges_ok (work s) ->
  reward_headroom (work s) (t_from t) ->
  deliver s t = (s', Err e) -> same_obs (work s) (work s') /\ same_ctl s s'.
Proof. exact deliver_fail_no_effect_wf. Qed.
Print Assumptions C05_holds.

(* the same with the minimal hypotheses *)
Theorem C05_holds_minimal : forall s t s' e,
  0 <= t_amount t -> 0 <= t_gas t -> 0 <= g_gasPrice (gparams s) < 2 ^ 192 ->
  sender_bal_ok s t -> withdraw_ok s t ->
  deliver s t = (s', Err e) -> same_obs (work s) (work s') /\ same_ctl s s'.
Proof. exact deliver_fail_no_effect. Qed.
Print Assumptions C05_holds_minimal.

(* a delivery that the model answers with a panic site changes nothing either *)
Theorem C05_panic : forall s t s' p,
  deliver s t = (s', Panic p) -> same_obs (work s) (work s') /\ same_ctl s s'.
Proof. exact deliver_panic_no_effect. Qed.
Print Assumptions C05_panic.

(* the two non-trivial hypotheses are needed: outside them a failed delivery leaves changes behind *)
Theorem C05_price_bound_needed :
  exists s t s' e, tx_wf t /\ payload_wf t /\ ranges_ok (work s) /\ reward_headroom (work s) (t_from t) /\
    0 <= g_gasPrice (gparams s) < two255 /\
    deliver s t = (s', Err e) /\ ~ same_obs (work s) (work s').
Proof. exact deliver_fail_no_effect_refuted_price. Qed.
Print Assumptions C05_price_bound_needed.

Theorem C05_headroom_needed :
  exists s t s' e, tx_wf t /\ payload_wf t /\ params_ok (gparams s) /\ ranges_ok (work s) /\
    deliver s t = (s', Err e) /\ ~ same_obs (work s) (work s').
Proof. exact deliver_fail_no_effect_refuted_headroom. Qed.
Print Assumptions C05_headroom_needed.

(* the history form: in EVERY state of a run from a well-formed genesis document (parameters in
   range, at most one validator, powers in the int64 range, balances in the uint256 range) over a
   well-bracketed operation list ([bracketed] carries tx_wf, payload kind, parse flag and parameter
   documents that keep parameters well formed) whose staking transactions carry pairwise distinct
   non-zero hashes, whose withdrawal requests are uint256 with no EVM execution ([txs_ok]), and
   whose genesis supply + requested withdrawals stay below 2^63 RIGO, a failed delivery of ANY
   transaction in the Go ranges has no effect.  Nothing is assumed about the state: params_ok and
   ranges_ok are proved for it, and [reward_headroom] is not needed at all -- an executed
   withdrawal has a request below 2^255 (AddBalance refuses amounts with bit 255 set and the
   reward update is then cancelled) and every balance of such a state is below 2^63 RIGO. *)
From Rigo Require InvStake InvSupply InvPanic InvReach InvClosed.
Theorem C05_holds_closed : forall g ops pre post t s' e,
  (params_ok (gen_params g) /\ (length (gen_validators g) <= 1)%nat /\
   Forall (fun v : addr * Z => 0 <= v.2 < two63) (gen_validators g) /\
   Forall (fun h : addr * Z => 0 <= h.2 < two256) (gen_holders g)) ->
  InvPanic.bracketed InvPanic.Idle 0 ops ->
  NoDup (0%N :: InvReach.stake_hashes ops) ->
  InvSupply.txs_ok ops ->
  supply (work (init_chain g)) + InvReach.requested ops < InvSupply.supply_bound ->
  ops = pre ++ post ->
  tx_wf t -> payload_wf t ->
  let s := srun (init_chain g) pre in
  deliver s t = (s', Err e) -> same_obs (work s) (work s') /\ same_ctl s s'.
Proof. exact InvClosed.C05_closed_along. Qed.
Print Assumptions C05_holds_closed.

(* the same for the state after the whole list *)
Theorem C05_holds_closed_end : forall g ops t s' e,
  (params_ok (gen_params g) /\ (length (gen_validators g) <= 1)%nat /\
   Forall (fun v : addr * Z => 0 <= v.2 < two63) (gen_validators g) /\
   Forall (fun h : addr * Z => 0 <= h.2 < two256) (gen_holders g)) ->
  InvPanic.bracketed InvPanic.Idle 0 ops ->
  NoDup (0%N :: InvReach.stake_hashes ops) ->
  InvSupply.txs_ok ops ->
  supply (work (init_chain g)) + InvReach.requested ops < InvSupply.supply_bound ->
  tx_wf t -> payload_wf t ->
  let s := srun (init_chain g) ops in
  deliver s t = (s', Err e) -> same_obs (work s) (work s') /\ same_ctl s s'.
Proof. exact InvClosed.C05_closed. Qed.
Print Assumptions C05_holds_closed_end.

(* the per-state statement it rests on: C05_holds with [reward_headroom] replaced by "the sender's
   balance is below 2^255" *)
Theorem C05_holds_small_balance : forall s t s' e,
  0 <= t_amount t -> 0 <= t_gas t -> 0 <= g_gasPrice (gparams s) < 2 ^ 192 ->
  (forall x, accts (work s) !! t_from t = Some x -> a_bal x < two255) ->
  payload_wf t ->
  deliver s t = (s', Err e) -> same_obs (work s) (work s') /\ same_ctl s s'.
Proof. exact InvClosed.deliver_fail_no_effect_small. Qed.
Print Assumptions C05_holds_small_balance.
