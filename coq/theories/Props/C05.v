(* C05 — A failed transaction has no effect (atomicity).  Statements about Spec.v, closed by
   lemmas of InvFail.v. *)
From Rigo Require Import Base.
From stdpp Require Import gmap sorting.
From Rigo Require Import Spec SpecProps InvFail.
Local Open Scope Z_scope.

(* For every state and transaction: if delivery fails, every balance, nonce, name/document, code
   marker, bonded and unbonding stake, reward, proposal, vote and parameter is what it was, no fee
   is added to the block's fee sum, and the stake limiter, validator set and all other control
   state are unchanged (an empty account may have been created for the receiver; it is
   indistinguishable from an absent one in every query).  Hypotheses: the Go types' ranges, a
   governance gas price below 2^192, and for withdrawals that balance + withdrawable reward does
   not exceed 2^256 (discharged by the supply bound of C02). *)
Theorem C05_holds : forall s t s' e,
  tx_wf t -> payload_wf t -> params_ok (gparams s) -> ranges_ok (work s) ->
  reward_headroom (work s) (t_from t) ->
  deliver s t = (s', Err e) -> same_obs (work s) (work s') /\ same_ctl s s'.
Proof. exact deliver_fail_no_effect_wf. Qed.
Print Assumptions C05_holds.

(* the same with the minimal hypotheses *)
Theorem C05_holds_minimal : forall s t s' e,
  0 <= t_amount t -> 0 <= t_gas t -> 0 <= g_gasPrice (gparams s) < 2 ^ 192 ->
  sender_bal_ok s t -> withdraw_ok s t ->
  deliver s t = (s', Err e) -> same_obs (work s) (work s') /\ same_ctl s s'.
Proof. exact deliver_fail_no_effect. Qed.
Print Assumptions C05_holds_minimal.

(* a delivery that the model answers with a panic site changes nothing either *)
Theorem C05_panic : forall s t s' p,
  deliver s t = (s', Panic p) -> same_obs (work s) (work s') /\ same_ctl s s'.
Proof. exact deliver_panic_no_effect. Qed.
Print Assumptions C05_panic.

(* the two non-trivial hypotheses are needed: outside them a failed delivery leaves changes behind *)
Theorem C05_price_bound_needed :
  exists s t s' e, tx_wf t /\ payload_wf t /\ ranges_ok (work s) /\ reward_headroom (work s) (t_from t) /\
    0 <= g_gasPrice (gparams s) < two255 /\
    deliver s t = (s', Err e) /\ ~ same_obs (work s) (work s').
Proof. exact deliver_fail_no_effect_refuted_price. Qed.
Print Assumptions C05_price_bound_needed.

Theorem C05_headroom_needed :
  exists s t s' e, tx_wf t /\ payload_wf t /\ params_ok (gparams s) /\ ranges_ok (work s) /\
    deliver s t = (s', Err e) /\ ~ same_obs (work s) (work s').
Proof. exact deliver_fail_no_effect_refuted_headroom. Qed.
Print Assumptions C05_headroom_needed.
