(* Props/C18.v — property C18 (versioned ledger store): the theorems, re-exported.
   Model: Ledger.v; specification: LedgerSpec.v; proofs: LedgerRefine.v. *)
From stdpp Require Import gmap.
From Rigo Require Import Ledger LedgerSpec LedgerRefine.

(* Every finite sequence of set/get/delete/cancel/iterate/commit/historical read/reopen
   operations on both overlays gives the same observations on the ledger model (with the
   repaired get) and on the abstract versioned store. *)
Theorem C18_ledger_refines {V : Type} (ops : list (op V)) :
  outs (run ops) = outs (spec_run ops).
Proof. exact (ledger_refines ops). Qed.
Print Assumptions C18_ledger_refines.

Theorem C18_step_sim {V : Type} (c : fledger V) (s : sstate V) (o : op V) :
  R c s →
  let '(c', oc) := step c o in
  let '(s', os) := spec_step s o in
  erase_treeops oc = os ∧ R c' s'.
Proof. exact (step_sim_let c s o). Qed.
Print Assumptions C18_step_sim.

(* the ledger as it was before the "fix:" commit (removed-key check before the cache) does
   not refine the specification *)
Theorem C18_ledger_buggy_refuted :
  ∃ ops : list (op N), outs (run_buggy ops) ≠ outs (run_spec ops).
Proof. exact ledger_buggy_refuted. Qed.
Print Assumptions C18_ledger_buggy_refuted.

(* (1) mempool-overlay operations never change the result of any other operation, and a
   commit discards the mempool overlay *)
Theorem C18_mempool_invisible {V : Type} (ops : list (op V)) :
  cons_outs ops (run ops) = run (drop_mempool_ops ops).
Proof. exact (mempool_invisible ops). Qed.
Print Assumptions C18_mempool_invisible.

Theorem C18_mempool_discarded_by_commit {V : Type} (ops : list (op V)) (k : N) :
  chk (final (ops ++ [Commit])) = mem_empty ∧
  run (ops ++ [Commit; GetM k]) = run (ops ++ [Commit; Read k]).
Proof. exact (mempool_discarded_by_commit ops k). Qed.
Print Assumptions C18_mempool_discarded_by_commit.

(* (2) a commit persists exactly the consensus overlay's net effect as version + 1 *)
Theorem C18_commit_net_effect {V : Type} (c : fledger V) :
  let c' := (step c Commit).1 in
  hist c' = hist c ++ [tree c'] ∧
  (∃ tops, (step c Commit).2 = OCommitted (N.of_nat (S (length (hist c)))) tops) ∧
  ∀ k, tree c' !! k =
       match upd (fin c) !! k with
       | Some v => Some v
       | None => if decide (k ∈ removed (fin c)) then None else tree c !! k
       end.
Proof. exact (commit_net_effect c). Qed.
Print Assumptions C18_commit_net_effect.

Theorem C18_commit_persists_consensus_view {V : Type} (ops : list (op V)) (k : N) :
  let c := final ops in
  let c' := (step c Commit).1 in
  length (hist c') = S (length (hist c)) ∧
  (step c' (ReadAt (Z.of_nat (S (length (hist c)))) k)).2 = (step c (GetF k)).2.
Proof. exact (commit_persists_consensus_view ops k). Qed.
Print Assumptions C18_commit_persists_consensus_view.

(* (3) history is immutable *)
Theorem C18_history_immutable {V : Type} (ops ops' : list (op V)) (n : Z) :
  (1 ≤ n ≤ Z.of_nat (length (hist (final ops))))%Z →
  (∀ k, (step (final (ops ++ ops')) (ReadAt n k)).2 = (step (final ops) (ReadAt n k)).2) ∧
  (step (final (ops ++ ops')) (IterAt n)).2 = (step (final ops) (IterAt n)).2.
Proof. exact (history_immutable ops ops' n). Qed.
Print Assumptions C18_history_immutable.

Theorem C18_history_immutable_trace {V : Type} (ops ops' : list (op V)) (n : Z) (k : N) :
  (1 ≤ n ≤ Z.of_nat (length (hist (final ops))))%Z →
  last (run (ops ++ ops' ++ [ReadAt n k])) = last (run (ops ++ [ReadAt n k])).
Proof. exact (history_immutable_trace ops ops' n k). Qed.
Print Assumptions C18_history_immutable_trace.

(* (4) the tree operations of a commit do not depend on Go's map iteration order *)
Theorem C18_commit_treeops_order_irrelevant (rem l1 l2 : list N) :
  l1 ≡ₚ l2 → commit_treeops rem l1 = commit_treeops rem l2.
Proof. exact (commit_treeops_order_irrelevant rem l1 l2). Qed.
Print Assumptions C18_commit_treeops_order_irrelevant.

Theorem C18_commit_output_order_irrelevant {V : Type} (c : fledger V) (iter_keys : list N) :
  iter_keys ≡ₚ upd_keys (fin c) →
  (step c Commit).2 =
    OCommitted (N.of_nat (S (length (hist c)))) (commit_treeops (removed (fin c)) iter_keys) ∧
  tree (step c Commit).1 =
    foldl (apply_treeop (upd (fin c))) (tree c) (commit_treeops (removed (fin c)) iter_keys).
Proof. exact (commit_output_order_irrelevant c iter_keys). Qed.
Print Assumptions C18_commit_output_order_irrelevant.

(* aliasing (outside the C18 statement) *)
Theorem C18_alias_inv_reachable {V : Type} (ops : list (xop V)) :
  alias_inv (chk (xfinal ops)) ∧ alias_inv (fin (xfinal ops)).
Proof. exact (alias_inv_reachable ops). Qed.
Print Assumptions C18_alias_inv_reachable.

Theorem C18_set_after_mutate {V : Type} (k : N) (f : V → V) (v : V) (m : mem V) :
  got m !! k = Some v → mem_set k (f v) (mem_mutate_got k f m) = mem_set k (f v) m.
Proof. exact (set_after_mutate k f v m). Qed.
Print Assumptions C18_set_after_mutate.

(* the premises are inhabited *)
Theorem C18_example_history_premise :
  (1 ≤ 2 ≤ Z.of_nat (length (hist (final (take 16 c18_example)))))%Z ∧
  c18_example = take 16 c18_example ++ drop 16 c18_example.
Proof. exact c18_example_history_premise. Qed.
Print Assumptions C18_example_history_premise.
