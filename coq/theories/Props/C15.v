(* C15 — Governance: validators only, 2/3 of snapshot power, timed application.
   Statements about Spec.v, closed by lemmas of InvGov.v. *)
From Rigo Require Import Base.
From stdpp Require Import gmap sorting.
From Rigo Require Import Spec SpecProps InvGov.
Local Open Scope Z_scope.

(* Over every run from a genesis: whenever a commit changes the active parameters, the new set is the
   merge of the old one with the parameter document of the major option of a governance proposal
   whose major option held the most votes and at least floor(2/3) of the proposal's recorded total,
   those votes being the summed powers of recorded voters whose current choice it is; and the stored
   (queried) parameters are the new active ones. *)
Theorem C15_holds : forall g ops,
  let s := srun (init_chain g) ops in
  gparams (commit s) <> gparams s ->
  exists p o newp,
    p_major p = Some o /\ p_opttype p = PROPOSAL_GOVPARAMS /\ o_params o = Some newp /\
    gparams (commit s) = merge_params (gparams s) newp /\
    o ∈ p_options p /\ (forall o', o' ∈ p_options p -> o_votes o' <= o_votes o) /\
    (p_total p * 2) `quot` 3 <= o_votes o /\ (exists i : Z, o_votes o = votes_for (p_voters p) i) /\
    lparams (work s) = gparams (commit s).
Proof. exact c15_parameter_change. Qed.
Print Assumptions C15_holds.

(* parameters change at no other moment *)
Theorem C15_only_at_commit : forall s o,
  gparams (sstep s o) <> gparams s -> o = SCommit /\ newparams s = Some (gparams (sstep s o)).
Proof. exact params_change_only_at_commit. Qed.
Print Assumptions C15_only_at_commit.

(* pending parameters arise only in EndBlock, from a frozen proposal of the committed tree whose
   applying height has come (not earlier) *)
Theorem C15_not_before_applying_height : forall s,
  let s' := (end_block s).1 in
  gparams s' = gparams s /\ committed s' = committed s /\
  ((newparams s' = newparams s /\ lparams (work s') = lparams (work s)) \/
   exists k p o newp,
     fprops (base_of s) !! k = Some p /\ p_apply p <= b_height (bctx s) /\
     p_opttype p = PROPOSAL_GOVPARAMS /\ p_major p = Some o /\ o_params o = Some newp /\
     newparams s' = Some (merge_params (gparams s) newp) /\
     lparams (work s') = merge_params (gparams s) newp).
Proof. exact end_block_params. Qed.
Print Assumptions C15_not_before_applying_height.

(* a proposal is created only by a current validator; its voter table is the validator set of that
   moment with those powers, nobody has voted, total and majority are as prescribed *)
Theorem C15_submission : forall g ops t s' gas,
  let s := srun (init_chain g) ops in
  deliver s t = (s', Ok gas) -> t_type t = TRX_PROPOSAL ->
  exists p, props (work s') !! t_hash t = Some p /\
       (forall a v, p_voters p !! a = Some v <-> v_choice v = -1 /\ (a, v_power v) ∈ lastvals s) /\
       total_ok p /\ maj_ok p /\ tally_ok p /\ p_major p = None.
Proof. exact proposal_submission_voters. Qed.
Print Assumptions C15_submission.
Theorem C15_submitter_is_validator : forall s t s' gas, deliver s t = (s', Ok gas) -> t_type t = TRX_PROPOSAL ->
  is_validator s (t_from t) = true.
Proof. intros s t s' gas H1 H2. exact (proj1 (proposal_submission s t s' gas H1 H2)). Qed.
Print Assumptions C15_submitter_is_validator.

(* a vote counts only from a recorded voter, for an existing option, inside the voting window; it
   replaces the voter's previous choice and touches nothing else of the proposal *)
Theorem C15_voting : forall s t s' gas,
  deliver s t = (s', Ok gas) -> t_type t = TRX_VOTING ->
  exists ph choice p v p',
    t_payload t = PVoting ph choice /\ props (work s) !! ph = Some p /\
    p_voters p !! t_from t = Some v /\ 0 <= choice < Z.of_nat (length (p_options p)) /\
    p_start p <= b_height (bctx s) <= p_end p /\
    props (work s') = <[ph := p']> (props (work s)) /\
    p_voters p' = <[t_from t := {| v_power := v_power v; v_choice := choice |}]> (p_voters p) /\
    length (p_options p') = length (p_options p) /\
    (forall i : nat, p_options p' !! i =
       (fun o => set_votes (o_votes o - (if v_choice v =? Z.of_nat i then v_power v else 0)
                                  + (if choice =? Z.of_nat i then v_power v else 0)) o) <$> p_options p !! i) /\
    p_hash p' = p_hash p /\ p_start p' = p_start p /\ p_end p' = p_end p /\ p_apply p' = p_apply p /\
    p_total p' = p_total p /\ p_majority p' = p_majority p /\ p_opttype p' = p_opttype p /\
    p_major p' = p_major p /\
    (tally_ok p -> tally_ok p').
Proof. exact voting. Qed.
Print Assumptions C15_voting.

(* every open proposal's tally is consistent (each voter counted once, for its latest choice) and
   every frozen proposal's major option held at least two thirds — over all runs *)
Theorem C15_tallies : forall g ops,
  let s := srun (init_chain g) ops in
  (forall k p, props (work s) !! k = Some p -> tally_ok p /\ maj_ok p /\ p_major p = None) /\
  (forall k p, props (base_of s) !! k = Some p -> tally_ok p /\ maj_ok p /\ p_major p = None) /\
  (forall k p, fprops (work s) !! k = Some p -> frozen_ok p) /\
  (forall k p, fprops (base_of s) !! k = Some p -> frozen_ok p).
Proof. exact proposals_invariant. Qed.
Print Assumptions C15_tallies.

(* fields the option leaves unset keep their previous values (all 19 fields) *)
Theorem C15_merge : forall old new,
  Forall (fun f : params -> Z => f (merge_params old new) = if f new =? 0 then f old else f new) param_fields.
Proof. exact merge_params_fields. Qed.
Print Assumptions C15_merge.

(* the active parameters always equal the stored ones (what the governance query returns) *)
Theorem C15_active_equals_stored : forall g ops,
  let s := srun (init_chain g) ops in
  lparams (base_of s) = gparams s /\
  match newparams s with
  | Some m => lparams (work s) = m
  | None => lparams (work s) = gparams s
  end.
Proof. exact active_params_are_stored. Qed.
Print Assumptions C15_active_equals_stored.
