(* C20 — The validator signing key never double-signs, across restarts.
   Only statements, closed by lemmas of SignerProofs.v, and their assumptions. *)
From Rigo Require Import Base Signer SignerProofs.

(* Over every sequence of signing requests, answers lost in a crash after the state was saved,
   and reloads from the state file: released signatures at one height/round/step all cover the
   same message (content and timestamp), and the height/round/step of successive released
   signatures never decreases. *)
Theorem C20_holds : forall ops, P_C20 ops (souts ops) = true.
Proof. exact signer_never_double_signs. Qed.
Print Assumptions C20_holds.

(* The last-signed record is durable whenever control is outside the signer. *)
Theorem C20_durable : forall ops, let p := snd (srun pv0 ops) in vol p = dur p.
Proof. exact signer_state_durable. Qed.
Print Assumptions C20_durable.

(* Asked again for the same height/round/step and content (any timestamp), the signer hands
   out the original signature (the message with the original timestamp). *)
Theorem C20_replay : forall p q q' m,
  snd (sign p q) = RFresh m \/ snd (sign p q) = RReplay m ->
  wf_sb (vol p) ->
  q_h q' = q_h q -> q_r q' = q_r q -> q_step q' = q_step q -> q_content q' = q_content q ->
  snd (sign (fst (sign p q)) q') = RReplay m.
Proof. exact signer_replays_original. Qed.
Print Assumptions C20_replay.

(* Over every such sequence: a request for the message the signer signed last (same height, round,
   step and content, any timestamp) is answered with the original signature — the one covering the
   original timestamp — as long as no lost answer may have moved the state in between. *)
Theorem C20_resign : forall ops, P_C20_resign ops (souts ops) = true.
Proof. exact signer_resigns_original. Qed.
Print Assumptions C20_resign.
