(* C01 — Replica determinism.  The model (Spec.v, Ledger.v) is a function of the genesis and the
   block history; what could make two real replicas differ is node-local choice that the model
   abstracts: the order in which Go iterates maps, and which of the admissible results an unstable
   sort returns.  These theorems show that neither can reach an observable. *)
From stdpp Require Import gmap.
From Rigo Require Import Ledger LedgerRefine Sorting ValSet.

(* the tree operations of a ledger commit, hence the new tree and its version, do not depend on the
   order in which the map of updated items is iterated: the keys are sorted first *)
Theorem C01_commit_order_irrelevant : forall {V : Type} (c : fledger V) (iter_keys : list N),
  iter_keys ≡ₚ upd_keys (fin c) ->
  (step c Commit).2 =
    OCommitted (N.of_nat (S (length (hist c)))) (commit_treeops (removed (fin c)) iter_keys) /\
  tree (step c Commit).1 =
    foldl (apply_treeop (upd (fin c))) (tree c) (commit_treeops (removed (fin c)) iter_keys).
Proof. intros V c k H. exact (commit_output_order_irrelevant c k H). Qed.
Print Assumptions C01_commit_order_irrelevant.

(* whatever (correct) sorting algorithm orders the delegatees by power, stake count and address —
   Go's unstable sort.Sort included — the result is the model's: the order is strict and total on
   delegatees with distinct addresses, so the sorted listing is unique *)
Theorem C01_selection_unique : forall l l' : list dg,
  distinct l -> Permutation.Permutation l' l -> go_sorted dg power_lt l' -> l' = sort_power l.
Proof. exact select_unique. Qed.
Print Assumptions C01_selection_unique.
