(* C16 — Fee and gas rules: exact charge, proposer credited, price fixed by governance.
   Statements about Spec.v, closed by lemmas of InvFee.v. *)
From Rigo Require Import Base.
From stdpp Require Import gmap sorting.
From Rigo Require Import Spec SpecProps InvFee.
Local Open Scope Z_scope.

(* a transaction is admitted only at the governance gas price, with gas*price at least the minimum fee
   and, for contract transactions, gas covering the intrinsic gas *)
Theorem C16_admission : forall s t s' g,
  deliver s t = (s', Ok g) ->
  t_price t = g_gasPrice (gparams s) /\
  mul256 (g_minTrxGas (gparams s)) (g_gasPrice (gparams s)) <= fee_of t /\
  (t_type t = TRX_CONTRACT -> intrinsic_of t <= t_gas t).
Proof. exact deliver_ok_admission. Qed.
Print Assumptions C16_admission.

(* a successful native transaction uses exactly its gas limit, costs its sender exactly gas*price beyond
   what the transaction itself moves, credits exactly the moved amount, and touches no other balance
   (stated per account; [room_for] is the explicit no-overflow condition of a credited account) *)
Theorem C16_native_cost : forall s t s' g,
  deliver s t = (s', Ok g) -> native s t -> tx_wf t -> payload_wf t -> bal_range (work s) ->
  g = t_gas t /\ bal_range (work s') /\
  forall a, room_for (work s) t a ->
    bal_of (work s') a = bal_of (work s) a + tx_in t a - (if decide (a = t_from t) then fee_of t + tx_out t else 0).
Proof. exact deliver_native_balances. Qed.
Print Assumptions C16_native_cost.

(* the block's fee sum grows by gasUsed*price on success (both execution paths), not at all on failure *)
Theorem C16_fee_sum : forall s t s' r,
  deliver s t = (s', r) ->
  b_feesum (bctx s') = match r with
                       | Ok g => add256 (b_feesum (bctx s)) (mul256 g (g_gasPrice (gparams s)))
                       | _ => b_feesum (bctx s) end.
Proof. exact deliver_feesum. Qed.
Print Assumptions C16_fee_sum.

(* contract transactions: gas used is the interpreter's, never above the limit (under the effect's
   contract), and the fee sum grows by gasUsed*price *)
Theorem C16_evm_cost : forall s t s' g,
  deliver s t = (s', Ok g) -> ~ native s t ->
  exists e, t_evm t = Some e /\ e_ok e = true /\ g = e_gas e /\
    b_feesum (bctx s') = add256 (b_feesum (bctx s)) (mul256 (e_gas e) (g_gasPrice (gparams s))) /\
    (forall burn, evm_effect_fee_ok (work s) t (g_gasPrice (gparams s)) e burn -> 0 <= g <= t_gas t).
Proof. exact deliver_evm_gas. Qed.
Print Assumptions C16_evm_cost.

(* over a block: the fee sum at EndBlock is the sum of gasUsed*price of the successful deliveries *)
Theorem C16_block_fee_sum : forall s hd txs,
  h_height hd = last_height s + 1 ->
  let s1 := (begin_block s hd).1 in
  let '(s2, rs) := deliver_all s1 txs in
  s2 = srun s ([SBegin hd] ++ map SDeliver txs) /\
  b_proposer (bctx s2) = h_proposer hd /\
  b_feesum (bctx s2) = wrap256 (block_fees (g_gasPrice (gparams s)) rs) /\
  (block_fees (g_gasPrice (gparams s)) rs < two256 -> b_feesum (bctx s2) = block_fees (g_gasPrice (gparams s)) rs).
Proof. exact block_feesum. Qed.
Print Assumptions C16_block_fee_sum.

(* EndBlock: every balance afterwards = balance + (fee sum, if the account is the proposer) + refunds of
   its matured unbonding stakes; nobody is credited fees when there is no proposer *)
Theorem C16_proposer_credit : forall s s' ups,
  end_block s = (s', Ok ups) -> bal_range (work s) -> 0 <= b_feesum (bctx s) < two256 ->
  let h := b_height (bctx s) in
  let items := sorted_items (frozen (base_of s)) in
  bal_range (work s') /\
  forall a, bal_of (work s) a + end_fee (bctx s) a + refunds_to items h a < two256 ->
    bal_of (work s') a = bal_of (work s) a + end_fee (bctx s) a + refunds_to items h a.
Proof. exact end_block_balances. Qed.
Print Assumptions C16_proposer_credit.

(* ---- the effect contract replaced by the CHECKED boolean (EffectCheck.v): in a history on which
   [check_effects] passed ([effects_hold], by check_effects_sound), a delivery that takes the EVM
   path and succeeds with gas [gas]: gas used is within the limit, the fee sum grows by gas x price,
   the touched accounts (each listed once) lose in total exactly gas x price + burn with burn >= 0,
   and no other balance moves *)
From Rigo Require AppRun EffectCheck InvEvmClosed.
Theorem C16_evm_cost_checked : forall g rest senders pre t post s s' gas,
  InvEvmClosed.no_init rest ->
  EffectCheck.effects_hold senders AppRun.state0 (AppRun.AInit g :: rest) ->
  InvEvmClosed.sops_of rest = pre ++ SDeliver t :: post -> s = srun (init_chain g) pre ->
  deliver s t = (s', Ok gas) -> ~ native s t ->
  exists e burn,
    t_evm t = Some e /\ e_ok e = true /\ gas = e_gas e /\ 0 <= gas <= t_gas t /\
    b_feesum (bctx s') = add256 (b_feesum (bctx s)) (mul256 gas (g_gasPrice (gparams s))) /\
    0 <= burn /\ NoDup (InvEvmClosed.eff_addr <$> e_accts e) /\
    sumZ_with (fun a => bal_of (work s) a - bal_of (work s') a) (InvEvmClosed.eff_addr <$> e_accts e)
      = gas * g_gasPrice (gparams s) + burn /\
    (forall a, a ∉ InvEvmClosed.eff_addr <$> e_accts e -> bal_of (work s') a = bal_of (work s) a).
Proof. exact InvEvmClosed.C16_evm_cost_checked. Qed.
Print Assumptions C16_evm_cost_checked.
