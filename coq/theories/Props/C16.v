(* C16 — Fee and gas rules: exact charge, proposer credited, price fixed by governance.
   Statements about Spec.v, closed by lemmas of InvFee.v. *)
From Rigo Require Import Base.
From stdpp Require Import gmap sorting.
From Rigo Require Import Spec SpecProps InvFee.
Local Open Scope Z_scope.

(* a transaction is admitted only at the governance gas price, with gas*price at least the minimum fee
   and, for contract transactions, gas covering the intrinsic gas *)
Theorem C16_admission : forall s t s' g,
  deliver s t = (s', Ok g) ->
  t_price t = g_gasPrice (gparams s) /\
  mul256 (g_minTrxGas (gparams s)) (g_gasPrice (gparams s)) <= fee_of t /\
  (t_type t = TRX_CONTRACT -> intrinsic_of t <= t_gas t).
Proof. exact deliver_ok_admission. Qed.
Print Assumptions C16_admission.

(* a successful native transaction uses exactly its gas limit, costs its sender exactly gas*price beyond
   what the transaction itself moves, credits exactly the moved amount, and touches no other balance
   (stated per account; [room_for] is the explicit no-overflow condition of a credited account) *)
Theorem C16_native_cost : forall s t s' g,
  deliver s t = (s', Ok g) -> native s t -> tx_wf t -> payload_wf t -> bal_range (work s) ->
  g = t_gas t /\ bal_range (work s') /\
  forall a, room_for (work s) t a ->
    bal_of (work s') a = bal_of (work s) a + tx_in t a - (if decide (a = t_from t) then fee_of t + tx_out t else 0).
Proof. exact deliver_native_balances. Qed.
Print Assumptions C16_native_cost.

(* the block's fee sum grows by gasUsed*price on success (both execution paths), not at all on failure *)
Theorem C16_fee_sum : forall s t s' r,
  deliver s t = (s', r) ->
  b_feesum (bctx s') = match r with
                       | Ok g => add256 (b_feesum (bctx s)) (mul256 g (g_gasPrice (gparams s)))
                       | _ => b_feesum (bctx s) end.
Proof. exact deliver_feesum. Qed.
Print Assumptions C16_fee_sum.

(* contract transactions: gas used is the interpreter's, never above the limit (under the effect's
   contract), and the fee sum grows by gasUsed*price *)
Theorem C16_evm_cost : forall s t s' g,
  deliver s t = (s', Ok g) -> ~ native s t ->
  exists e, t_evm t = Some e /\ e_ok e = true /\ g = e_gas e /\
    b_feesum (bctx s') = add256 (b_feesum (bctx s)) (mul256 (e_gas e) (g_gasPrice (gparams s))) /\
    (forall burn, evm_effect_fee_ok (work s) t (g_gasPrice (gparams s)) e burn -> 0 <= g <= t_gas t).
Proof. exact deliver_evm_gas. Qed.
Print Assumptions C16_evm_cost.

(* over a block: the fee sum at EndBlock is the sum of gasUsed*price of the successful deliveries *)
Theorem C16_block_fee_sum : forall s hd txs,
  h_height hd = last_height s + 1 ->
  let s1 := (begin_block s hd).1 in
  let '(s2, rs) := deliver_all s1 txs in
  s2 = srun s ([SBegin hd] ++ map SDeliver txs) /\
  b_proposer (bctx s2) = h_proposer hd /\
  b_feesum (bctx s2) = wrap256 (block_fees (g_gasPrice (gparams s)) rs) /\
  (block_fees (g_gasPrice (gparams s)) rs < two256 -> b_feesum (bctx s2) = block_fees (g_gasPrice (gparams s)) rs).
Proof. exact block_feesum. Qed.
Print Assumptions C16_block_fee_sum.

(* EndBlock: every balance afterwards = balance + (fee sum, if the account is the proposer) + refunds of
   its matured unbonding stakes; nobody is credited fees when there is no proposer *)
Theorem C16_proposer_credit : forall s s' ups,
  end_block s = (s', Ok ups) -> bal_range (work s) -> 0 <= b_feesum (bctx s) < two256 ->
  let h := b_height (bctx s) in
  let items := sorted_items (frozen (base_of s)) in
  bal_range (work s') /\
  forall a, bal_of (work s) a + end_fee (bctx s) a + refunds_to items h a < two256 ->
    bal_of (work s') a = bal_of (work s) a + end_fee (bctx s) a + refunds_to items h a.
Proof. exact end_block_balances. Qed.
Print Assumptions C16_proposer_credit.

(* ---- the effect contract replaced by the CHECKED boolean (EffectCheck.v): in a history on which
   [check_effects] passed ([effects_hold], by check_effects_sound), a delivery that takes the EVM
   path and succeeds with gas [gas]: gas used is within the limit, the fee sum grows by gas x price,
   the touched accounts (each listed once) lose in total exactly gas x price + burn with burn >= 0,
   and no other balance moves *)
From Rigo Require AppRun EffectCheck InvEvmClosed.
Theorem C16_evm_cost_checked : forall g rest senders pre t post s s' gas,
  InvEvmClosed.no_init rest ->
  EffectCheck.effects_hold senders AppRun.state0 (AppRun.AInit g :: rest) ->
  InvEvmClosed.sops_of rest = pre ++ SDeliver t :: post -> s = srun (init_chain g) pre ->
  deliver s t = (s', Ok gas) -> ~ native s t ->
  exists e burn,
    t_evm t = Some e /\ e_ok e = true /\ gas = e_gas e /\ 0 <= gas <= t_gas t /\
    b_feesum (bctx s') = add256 (b_feesum (bctx s)) (mul256 gas (g_gasPrice (gparams s))) /\
    0 <= burn /\ NoDup (InvEvmClosed.eff_addr <$> e_accts e) /\
    sumZ_with (fun a => bal_of (work s) a - bal_of (work s') a) (InvEvmClosed.eff_addr <$> e_accts e)
      = gas * g_gasPrice (gparams s) + burn /\
    (forall a, a ∉ InvEvmClosed.eff_addr <$> e_accts e -> bal_of (work s') a = bal_of (work s) a).
Proof. exact InvEvmClosed.C16_evm_cost_checked. Qed.
Print Assumptions C16_evm_cost_checked.

(* ================================================================== whole runs, hypotheses on the inputs only
   (InvFeeClosed.v): which price a transaction is checked against (the one handed over at the last
   Commit), what every successful and every failed delivery of a run does to balances and to the block's
   fee sum, what EndBlock credits to the proposer, and the whole-run ledger of fees: paid = credited to
   proposers + burned in proposer-less blocks + still open *)
From Rigo Require Import InvPanic InvSupply InvReach InvClosed InvUnbond InvFeeClosed.
(* C16, price: every successful delivery of every run -- no hypothesis on the run -- was accepted at
   the gas price of the parameter set in force in the state it was delivered in, with gas x price at
   least the minimum fee (and gas covering the intrinsic gas, for contract transactions); that set is
   [in_force] of the prefix: the genesis set if the prefix has no Commit, otherwise what the last
   Commit of the prefix handed over, and nothing after that Commit changed it.  In particular the
   price is constant between two Commits, hence within a block. *)
Theorem C16_run_price_in_force : forall g ops pre t post s' gas,
  ops = pre ++ SDeliver t :: post →
  let s := srun (init_chain g) pre in
  deliver s t = (s', Ok gas) →
  t_price t = g_gasPrice (gparams s) ∧
  mul256 (g_minTrxGas (gparams s)) (g_gasPrice (gparams s)) ≤ fee_of t ∧
  (t_type t = TRX_CONTRACT → intrinsic_of t ≤ t_gas t) ∧
  gparams s = in_force (init_chain g) (gen_params g) pre ∧
  (no_commit pre → gparams s = gen_params g) ∧
  (∀ pre0 mid, pre = pre0 ++ mid → no_commit mid → gparams s = gparams (srun (init_chain g) pre0)) ∧
  (∀ pre0 mid, pre = pre0 ++ SCommit :: mid → no_commit mid →
     let sc := srun (init_chain g) pre0 in gparams s = default (gparams sc) (newparams sc)).
Proof. exact InvFeeClosed.C16_run_price_in_force. Qed.
Print Assumptions C16_run_price_in_force.

(* C16 "across governance changes": the parameter set in force (hence the gas price and the minimum
   gas) changes at a Commit and nowhere else, and what the Commit switches in is the set an EndBlock
   of the run computed from a passed parameter proposal whose applying height had been reached *)
Theorem C16_run_price_hand_over : forall g pre o,
  let s := srun (init_chain g) pre in
  gparams (sstep s o) ≠ gparams s →
  o = SCommit ∧ newparams s = Some (gparams (sstep s o)) ∧
  ∃ pre0 mid, pre = pre0 ++ SEnd :: mid ∧ no_commit mid ∧
    let se := srun (init_chain g) pre0 in
    ∃ k p w newp,
      fprops (base_of se) !! k = Some p ∧ p_apply p ≤ b_height (bctx se) ∧
      p_opttype p = PROPOSAL_GOVPARAMS ∧ p_major p = Some w ∧ o_params w = Some newp ∧
      gparams (sstep s o) = merge_params (gparams se) newp.
Proof. exact InvFeeClosed.C16_run_price_hand_over. Qed.
Print Assumptions C16_run_price_hand_over.

(* with well-formed genesis parameters and parameter documents that keep parameters well formed
   ([opts_ok], input-only: the submission check enforces no range, InvReach.params_ok_needs_opts_ok),
   the two fee bounds are products over Z *)
Theorem C16_run_admission_exact : forall g ops pre t post s' gas,
  params_ok (gen_params g) → opts_ok ops → 0 ≤ t_gas t < two64 →
  ops = pre ++ SDeliver t :: post →
  let s := srun (init_chain g) pre in
  deliver s t = (s', Ok gas) →
  params_ok (gparams s) ∧
  t_price t = g_gasPrice (gparams s) ∧
  g_minTrxGas (gparams s) * g_gasPrice (gparams s) ≤ t_gas t * t_price t ∧
  (t_type t = TRX_CONTRACT → intrinsic_of t ≤ t_gas t).
Proof. exact InvFeeClosed.C16_run_admission_exact. Qed.
Print Assumptions C16_run_admission_exact.

(* C16, a block of a well-bracketed run -- any transactions, EVM path included, no hypothesis on
   states: the block context at EndBlock carries the header's height and proposer, every delivery
   of the block was priced at the ONE gas price in force when the block began, and the fee sum
   EndBlock will pay is the sum of gas x price over the successful deliveries, modulo 2^256.
   [fees_of_block] lists that block right after the blocks of the prefix. *)
Theorem C16_run_block_fee_sum_mod : forall g ops pre hd txs post,
  InvPanic.bracketed InvPanic.Idle 0 ops →
  ops = pre ++ SBegin hd :: map SDeliver txs ++ SEnd :: post →
  let s0 := srun (init_chain g) pre in
  let s1 := (begin_block s0 hd).1 in
  let s2 := srun s1 (map SDeliver txs) in
  s2 = srun (init_chain g) (pre ++ SBegin hd :: map SDeliver txs) ∧
  b_height (bctx s2) = h_height hd ∧ b_proposer (bctx s2) = h_proposer hd ∧ gparams s2 = gparams s0 ∧
  fees_of_txs s1 txs = concat (zip_with (fee_at (g_gasPrice (gparams s0))) txs (deliver_all s1 txs).2) ∧
  b_feesum (bctx s2) = wrap256 (fee_total (fees_of_txs s1 txs)) ∧
  fees_of_block g ops =
    fees_of_block g pre ++
    {| fb_height := h_height hd; fb_proposer := h_proposer hd; fb_fees := fees_of_txs s1 txs |}
      :: fees_from (end_block s2).1 [] post.
Proof. exact InvFeeClosed.C16_run_block_fee_sum_mod. Qed.
Print Assumptions C16_run_block_fee_sum_mod.

(* C16 for one successful delivery of a run *)
Theorem C16_run_sender_charge : forall g ops pre t post s' gas,
  genesis_ok g → InvPanic.bracketed InvPanic.Idle 0 ops → hashes_fresh ops → txs_ok ops →
  supply (work (init_chain g)) + requested ops < supply_bound →
  ops = pre ++ SDeliver t :: post →
  let s := srun (init_chain g) pre in
  deliver s t = (s', Ok gas) →
  let fee := t_gas t * g_gasPrice (gparams s) in
  native s t ∧ gas = t_gas t ∧ t_price t = g_gasPrice (gparams s) ∧
  fee1 s t = [(t_from t, fee)] ∧ fee_of t = fee ∧ 0 ≤ fee ∧
  fee + t_amount t ≤ bal_of (work s) (t_from t) ∧
  b_feesum (bctx s') = b_feesum (bctx s) + fee ∧
  (∀ a, bal_of (work s') a =
        bal_of (work s) a + tx_in t a - (if decide (a = t_from t) then fee + tx_out t else 0)).
Proof. exact InvFeeClosed.C16_run_sender_charge. Qed.
Print Assumptions C16_run_sender_charge.

(* a delivery of the run that does not succeed (Err or Panic) charges nothing *)
Theorem C16_run_failed_no_charge : forall g ops pre t post s' r,
  genesis_ok g → InvPanic.bracketed InvPanic.Idle 0 ops → hashes_fresh ops → txs_ok ops →
  supply (work (init_chain g)) + requested ops < supply_bound →
  ops = pre ++ SDeliver t :: post →
  let s := srun (init_chain g) pre in
  deliver s t = (s', r) → (∀ gas, r ≠ Ok gas) →
  fee1 s t = [] ∧ b_feesum (bctx s') = b_feesum (bctx s) ∧ (∀ a, bal_of (work s') a = bal_of (work s) a).
Proof. exact InvFeeClosed.C16_run_failed_no_charge. Qed.
Print Assumptions C16_run_failed_no_charge.

(* C16 for one complete block of a run *)
Theorem C16_run_block_credit : forall g ops pre hd txs post,
  genesis_ok g → InvPanic.bracketed InvPanic.Idle 0 ops → hashes_fresh ops → txs_ok ops →
  supply (work (init_chain g)) + requested ops < supply_bound →
  ops = pre ++ SBegin hd :: map SDeliver txs ++ SEnd :: post →
  let s0 := srun (init_chain g) pre in
  let s1 := (begin_block s0 hd).1 in
  let s2 := srun s1 (map SDeliver txs) in
  let s3 := (end_block s2).1 in
  let fees := fees_of_txs s1 txs in
  let refunds a := sumZ (payout_amount <$> owned_by a (payouts1 s2 SEnd)) in
  fees = concat (zip_with (fee_native (g_gasPrice (gparams s0))) txs (deliver_all s1 txs).2) ∧
  Forall (λ x : addr * Z, 0 ≤ x.2) fees ∧
  b_feesum (bctx s2) = fee_total fees ∧ 0 ≤ fee_total fees < supply_bound ∧
  b_proposer (bctx s2) = h_proposer hd ∧ b_height (bctx s2) = h_height hd ∧
  (∃ ups, end_block s2 = (s3, Ok ups)) ∧
  (∀ a, bal_of (work s3) a =
        bal_of (work s2) a + (if decide (h_proposer hd = Some a) then fee_total fees else 0) + refunds a) ∧
  (∀ pa, h_proposer hd = Some pa → bal_of (work s3) pa = bal_of (work s2) pa + fee_total fees + refunds pa) ∧
  (h_proposer hd = None → ∀ a, bal_of (work s3) a = bal_of (work s2) a + refunds a).
Proof. exact InvFeeClosed.C16_run_block_credit. Qed.
Print Assumptions C16_run_block_credit.

(* C16 over the whole run: fees are moved, never created.
   - per account, what the fee steps of the EndBlocks credit is the sum of the fee totals of the
     blocks that account proposed;
   - the credits of the run add up to the fees of the blocks that had a proposer;
   - every fee a sender was charged ([fees_flat]) is in exactly one block, so:
       charged = credited to proposers + fees of proposer-less blocks (paid to nobody: burned)
                 + fees of the block still open;
   - all of these are non-negative. *)
Theorem C16_run_total_fees : forall g ops,
  genesis_ok g → InvPanic.bracketed InvPanic.Idle 0 ops → hashes_fresh ops → txs_ok ops →
  supply (work (init_chain g)) + requested ops < supply_bound →
  let s0 := init_chain g in
  (∀ a, fee_gain a s0 ops = credited_to a (fees_of_block g ops)) ∧
  credit_total (credits s0 ops) = fees_with_proposer (fees_of_block g ops) ∧
  fee_total (fees_flat s0 ops) =
    credit_total (credits s0 ops) + fees_without_proposer (fees_of_block g ops) + fee_total (open_fees s0 [] ops) ∧
  Forall (λ x : addr * Z, 0 ≤ x.2) (fees_flat s0 ops).
Proof. exact InvFeeClosed.C16_run_total_fees. Qed.
Print Assumptions C16_run_total_fees.

(* C16 and C12 together, per account, over the whole run: the balance at the end is the genesis
   balance, plus what the transactions moved in and out, minus the fees the account was charged as a
   sender, plus the fees of the blocks it proposed, plus its unbonding refunds (characterised by
   InvUnbond.C12_history).  Over Z. *)
Theorem C16_run_account_ledger : forall g ops a,
  genesis_ok g → InvPanic.bracketed InvPanic.Idle 0 ops → hashes_fresh ops → txs_ok ops →
  supply (work (init_chain g)) + requested ops < supply_bound →
  let s0 := init_chain g in
  bal_of (work (srun s0 ops)) a =
    bal_of (work s0) a + moved a s0 ops - charged_to a (fees_flat s0 ops)
    + credited_to a (fees_of_block g ops) + unbond_gain a s0 ops.
Proof. exact InvFeeClosed.C16_run_account_ledger. Qed.
Print Assumptions C16_run_account_ledger.

Theorem C16_run_evm_charge_checked : forall g rest senders pre t post s' gas,
  InvEvmClosed.no_init rest →
  EffectCheck.effects_hold senders AppRun.state0 (AppRun.AInit g :: rest) →
  InvEvmClosed.sops_of rest = pre ++ SDeliver t :: post →
  let s := srun (init_chain g) pre in
  deliver s t = (s', Ok gas) → ¬ native s t →
  ∃ e burn,
    t_evm t = Some e ∧ e_ok e = true ∧ gas = e_gas e ∧ 0 ≤ gas ≤ t_gas t ∧
    t_price t = g_gasPrice (gparams s) ∧
    fee1 s t = [(t_from t, gas * g_gasPrice (gparams s))] ∧
    b_feesum (bctx s') = add256 (b_feesum (bctx s)) (mul256 gas (g_gasPrice (gparams s))) ∧
    0 ≤ burn ∧ NoDup (InvEvmClosed.eff_addr <$> e_accts e) ∧
    sumZ_with (λ a, bal_of (work s) a - bal_of (work s') a) (InvEvmClosed.eff_addr <$> e_accts e)
      = gas * g_gasPrice (gparams s) + burn ∧
    (∀ a, a ∉ InvEvmClosed.eff_addr <$> e_accts e → bal_of (work s') a = bal_of (work s) a).
Proof. exact InvFeeClosed.C16_run_evm_charge_checked. Qed.
Print Assumptions C16_run_evm_charge_checked.

Theorem C16_total_fees_needs_bracketed : 
 ∃ g ops,
  genesis_ok g ∧ hashes_fresh ops ∧ txs_ok ops ∧
  supply (work (init_chain g)) + requested ops < supply_bound ∧
  ¬ InvPanic.bracketed InvPanic.Idle 0 ops ∧
  fees_flat (init_chain g) ops = [(2%N, 1000)] ∧
  credits (init_chain g) ops = [(1, 2%N, 1000); (1, 2%N, 1000)] ∧
  credit_total (credits (init_chain g) ops) ≠ fees_with_proposer (fees_of_block g ops).
Proof. exact InvFeeClosed.C16_total_fees_needs_bracketed. Qed.
Print Assumptions C16_total_fees_needs_bracketed.
