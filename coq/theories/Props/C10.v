(* C10 — Validator-set updates sent to consensus mirror the staking ledger.
   Statements about Spec.v (InvValSet.v) over the pure validator-set theory of ValSet.v. *)
From Rigo Require Import Base.
From stdpp Require Import gmap sorting.
From Rigo Require Import Spec SpecProps InvValSet.
From Rigo Require ValSet.
Local Open Scope Z_scope.

(* one block: the node's new record of the announced set is the selection the previously committed
   ledger prescribes under the parameters in force; the returned updates turn the old record into
   the new one under Tendermint's rules (accepted: no duplicate, no removal of a non-member, no
   negative power) *)
Theorem C10_block : forall s hd txs s' ups,
  boundary_ok s -> sel_positive s -> do_block s hd txs = Some (s', ups) ->
  lastvals s' = sel_vals (gparams s) (base_of s) /\
  ValSet.tm_apply_updates (sort_addr (lastvals s)) ups = Some (sort_addr (lastvals s')) /\
  ValSet.apply_updates (sort_addr (lastvals s)) ups = sort_addr (lastvals s') /\
  NoDup ups.*1 /\ (forall a, (a, 0) ∈ ups -> a ∈ (lastvals s).*1) /\ (forall a p, (a, p) ∈ ups -> 0 <= p).
Proof. exact InvValSet.C10_block. Qed.
Print Assumptions C10_block.

(* the selection: exactly the delegatees whose own stake meets the minimum, ranked by (total power,
   stake count, address), truncated to the maximum count, with voting power = total power; any correct
   sort gives this listing (the order is strict and total) *)
Theorem C10_selection : forall g l,
  dels_key_ok l -> 0 <= g_maxValidatorCnt g ->
  (forall d, d ∈ selection g l -> dels l !! d_addr d = Some d /\ min_power g <= d_self d) /\
  distinct_addrs (selection g l) /\
  StronglySorted power_ltP (selection g l) /\
  Z.of_nat (length (selection g l)) = Z.min (Z.of_nat (length (eligible g l))) (g_maxValidatorCnt g) /\
  (forall d e, d ∈ selection g l -> dels l !! d_addr e = Some e -> min_power g <= d_self e ->
          e ∉ selection g l -> power_less d e = true) /\
  sel_vals g l = map (fun d => (d_addr d, d_total d)) (selection g l).
Proof. exact selection_spec. Qed.
Print Assumptions C10_selection.

(* every history of blocks from a genesis: folding all returned updates, from the empty set, gives
   the node's record, which is the selection from the state committed by the previous block *)
Theorem C10_fold : forall g bs sf upss,
  run_blocks (init_chain g) bs = Some (sf, upss) ->
  Forall sel_positive (block_starts (init_chain g) bs) ->
  srun (init_chain g) (ops_of bs) = sf /\
  length (committed sf) = length bs /\
  lastvals sf = announced sf /\
  ValSet.tm_run [] upss = Some (sort_addr (lastvals sf)) /\
  fold_left ValSet.apply_updates upss [] = sort_addr (lastvals sf).
Proof. exact C10_history. Qed.
Print Assumptions C10_fold.

Theorem C10_selection_at_height : forall g bs sf upss,
  run_blocks (init_chain g) bs = Some (sf, upss) ->
  Forall sel_positive (block_starts (init_chain g) bs) ->
  ((length bs < 2)%nat -> lastvals sf = []) /\
  (forall prev, (2 <= length bs)%nat -> committed sf !! (length bs - 2)%nat = Some prev ->
     lastvals sf = map (fun d => (d_addr d, d_total d)) (selection (lparams prev) prev)).
Proof. exact C10_selection_at. Qed.
Print Assumptions C10_selection_at_height.

(* the property as worded — the fold over the GENESIS validator set — holds when every genesis
   validator is still selected at block 2 ... *)
Theorem C10_holds : forall g b1 b2 rest s2 u12 sf upss,
  NoDup (gen_validators g).*1 ->
  run_blocks (init_chain g) [b1; b2] = Some (s2, u12) ->
  (forall a, a ∈ (gen_validators g).*1 -> a ∈ (lastvals s2).*1) ->
  run_blocks (init_chain g) (b1 :: b2 :: rest) = Some (sf, upss) ->
  Forall sel_positive (block_starts (init_chain g) (b1 :: b2 :: rest)) ->
  fold_left ValSet.apply_updates upss (sort_addr (gen_validators g)) = sort_addr (lastvals sf).
Proof. exact C10_history_genesis. Qed.
Print Assumptions C10_holds.

(* ... and is false otherwise: a genesis validator that withdraws in block 1 is never removed
   (known finding; the node never diffs against the genesis set) *)
Theorem C10_genesis_leaver_refuted :
  exists g bs sf upss,
    NoDup (gen_validators g).*1 /\
    run_blocks (init_chain g) bs = Some (sf, upss) /\
    Forall sel_positive (block_starts (init_chain g) bs) /\
    upss = [[]; [(2%N, 20)]; []] /\
    sort_addr (lastvals sf) = [(2%N, 20)] /\
    fold_left ValSet.apply_updates upss (sort_addr (gen_validators g)) = [(1%N, 10); (2%N, 20)] /\
    fold_left ValSet.apply_updates upss (sort_addr (gen_validators g)) <> sort_addr (lastvals sf).
Proof. exact InvValSet.C10_genesis_leaver_refuted. Qed.
Print Assumptions C10_genesis_leaver_refuted.

(* the history theorems with the hypothesis about intermediate states ([sel_positive] at every
   block start) discharged from the inputs: genesis parameters in range (amountPerPower <=
   minValidatorStake, so every selected validator has own power >= 1), genesis powers in the int64
   range, and parameter documents of submitted proposals that keep parameters well formed
   ([opts_ok], a condition on the transactions of the blocks). *)
From Rigo Require InvReach InvClosed.
Theorem C10_fold_closed : forall g bs sf upss,
  params_ok (gen_params g) -> Forall (fun v : addr * Z => 0 <= v.2 < two63) (gen_validators g) ->
  InvReach.opts_ok (ops_of bs) ->
  run_blocks (init_chain g) bs = Some (sf, upss) ->
  srun (init_chain g) (ops_of bs) = sf /\
  length (committed sf) = length bs /\
  lastvals sf = announced sf /\
  ValSet.tm_run [] upss = Some (sort_addr (lastvals sf)) /\
  fold_left ValSet.apply_updates upss [] = sort_addr (lastvals sf).
Proof. exact InvClosed.C10_history_closed. Qed.
Print Assumptions C10_fold_closed.

(* [opts_ok] on the operations of a block list is a condition on the transactions *)
Theorem C10_opts_ok_inputs : forall bs,
  InvReach.opts_ok (ops_of bs) <-> Forall (fun b : header * list tx => Forall InvReach.tx_opts_ok b.2) bs.
Proof. exact InvClosed.opts_ok_ops_of. Qed.

(* C10_holds: the covering hypothesis (the known finding C10_genesis_leaver_refuted) stays *)
Theorem C10_holds_closed : forall g b1 b2 rest s2 u12 sf upss,
  params_ok (gen_params g) -> Forall (fun v : addr * Z => 0 <= v.2 < two63) (gen_validators g) ->
  InvReach.opts_ok (ops_of (b1 :: b2 :: rest)) ->
  NoDup (gen_validators g).*1 ->
  run_blocks (init_chain g) [b1; b2] = Some (s2, u12) ->
  (forall a, a ∈ (gen_validators g).*1 -> a ∈ (lastvals s2).*1) ->
  run_blocks (init_chain g) (b1 :: b2 :: rest) = Some (sf, upss) ->
  fold_left ValSet.apply_updates upss (sort_addr (gen_validators g)) = sort_addr (lastvals sf).
Proof. exact InvClosed.C10_closed. Qed.
Print Assumptions C10_holds_closed.

(* ... and in input terms: the selection announced at block 2 is made from the ledger block 1
   committed, so it covers the genesis set when block 1 carries no evidence, no votes and no
   staking / unstaking transaction, the genesis powers meet the minimum validator power and the
   genesis set fits the maximum validator count.  Every hypothesis is on the inputs. *)
Theorem C10_holds_inputs : forall g b1 b2 rest sf upss,
  params_ok (gen_params g) -> Forall (fun v : addr * Z => 0 <= v.2 < two63) (gen_validators g) ->
  InvReach.opts_ok (ops_of (b1 :: b2 :: rest)) ->
  NoDup (gen_validators g).*1 ->
  Forall (fun v : addr * Z => min_power (gen_params g) <= v.2) (gen_validators g) ->
  Z.of_nat (length (gen_validators g)) <= g_maxValidatorCnt (gen_params g) ->
  h_evidence b1.1 = [] -> h_votes b1.1 = [] ->
  Forall (fun t => t_type t <> TRX_STAKING /\ t_type t <> TRX_UNSTAKING) b1.2 ->
  run_blocks (init_chain g) (b1 :: b2 :: rest) = Some (sf, upss) ->
  fold_left ValSet.apply_updates upss (sort_addr (gen_validators g)) = sort_addr (lastvals sf).
Proof. exact InvClosed.C10_closed_inputs. Qed.
Print Assumptions C10_holds_inputs.
