(* C02 — Conservation of value across accounts, stakes, unbonding and rewards.
   Statements about Spec.v, closed by lemmas of InvSupply.v.  supply = sum of balances +
   10^18 * (bonded power + unbonding power). *)
From Rigo Require Import Base.
From stdpp Require Import gmap sorting.
From Rigo Require Import Spec SpecProps InvFee InvSupply.
Local Open Scope Z_scope.

(* per operation *)
Theorem C02_deliver_ok : forall s t s' g,
  deliver s t = (s', Ok g) -> native s t -> tx_wf t -> payload_wf t -> bal_range (work s) ->
  room_for (work s) t (t_to t) -> room_for (work s) t (t_from t) ->
  stake_amount_ok t -> unstake_ok (work s) t ->
  supply (work s') = supply (work s) - fee_of t + withdrawn_of t.
Proof. exact deliver_native_supply. Qed.
Print Assumptions C02_deliver_ok.

Theorem C02_deliver_fail : forall s t s' r,
  deliver s t = (s', r) -> (forall g, r <> Ok g) ->
  tx_wf t -> payload_wf t -> params_ok (gparams s) -> bal_range (work s) ->
  bal_of (work s) (t_from t) < two255 ->
  supply (work s') = supply (work s) /\ bal_range (work s') /\ frozen (work s') = frozen (work s).
Proof. exact deliver_fail_supply. Qed.
Print Assumptions C02_deliver_fail.

Theorem C02_begin_block : forall s hd s' r,
  begin_block s hd = (s', r) -> h_height hd = last_height s + 1 ->
  0 <= g_slashRatio (gparams s) <= 100 -> hashes_unique (work s) -> bonded_nonneg (work s) ->
  supply (work s') = supply (work s) - amountPerPower * slashed_power s hd /\ 0 <= slashed_power s hd /\
  accts (work s') = accts (work s) /\ hashes_unique (work s') /\ frozen (work s) ⊆ frozen (work s').
Proof. exact begin_block_supply. Qed.
Print Assumptions C02_begin_block.

Theorem C02_end_block : forall s s' ups,
  end_block s = (s', Ok ups) -> bal_range (work s) -> 0 <= b_feesum (bctx s) < two256 -> frozen_synced s ->
  (forall a, bal_of (work s) a + end_fee (bctx s) a +
             refunds_to (sorted_items (frozen (base_of s))) (b_height (bctx s)) a < two256) ->
  supply (work s') = supply (work s) + paid_fees (bctx s).
Proof. exact end_block_supply. Qed.
Print Assumptions C02_end_block.

(* over every history of blocks from a genesis (BeginBlock/EndBlock answering Ok, deliveries free to
   fail), with the stake invariants of C11 along the run and the genesis total plus withdrawn rewards
   below 2^63 RIGO: supply + the open block's pending fee sum = genesis supply + rewards withdrawn
   - 10^18 * power destroyed by slashing - fees of proposer-less blocks; no balance ever wraps *)
Theorem C02_holds : forall g ops s p gh,
  hrun (init_chain g, PIdle, ghost0) ops = Some (s, p, gh) ->
  (forall pre, pre `prefix_of` ops -> run_ok (srun (init_chain g) pre)) ->
  txs_ok ops ->
  bal_range (work (init_chain g)) ->
  supply (work (init_chain g)) + gh_withdrawn gh < supply_bound ->
  s = srun (init_chain g) ops /\
  C02_equation g s p gh /\
  bal_range (work s) /\
  (forall a, 0 <= bal_of (work s) a < supply_bound) /\
  0 <= gh_withdrawn gh /\ 0 <= gh_slashed gh /\ 0 <= gh_burned gh.
Proof. exact C02_history. Qed.
Print Assumptions C02_holds.

(* without unique stake hashes the equation is false (known finding): two genesis validators unstake
   their genesis stakes (both hash 0) in one block; 100 units of power vanish although nothing was
   slashed, burned or withdrawn *)
Theorem C02_collision_refuted :
  exists g ops s p gh,
    hrun (init_chain g, PIdle, ghost0) ops = Some (s, p, gh) /\
    gh = ghost0 /\ p = PIdle /\
    Forall (fun o => match o with SDeliver t => tx_wf t /\ payload_wf t /\ t_evm t = None | _ => True end) ops /\
    params_ok (gen_params g) /\
    supply (work s) = supply (work (init_chain g)) - 100 * amountPerPower /\
    ~ C02_equation g s p gh /\
    ~ hashes_unique (work (init_chain g)).
Proof. exact InvSupply.C02_collision_refuted. Qed.
Print Assumptions C02_collision_refuted.

(* the history theorem with its hypothesis about the run ([run_ok] at every prefix) discharged:
   every assumption is about what the environment supplies -- the genesis document (parameters in
   range, at most one validator [with two the genesis stakes collide, see C02_collision_refuted],
   validator powers in the int64 range, holder balances in the uint256 range), the operation list
   (executed staking transactions carry fresh hashes; transactions carry Go-typed fields and no EVM
   execution; the parameter documents of submitted parameter proposals keep well-formed parameters
   well formed when merged, which the submission check does not enforce) -- plus the bound on the
   total ever minted (genesis supply + rewards withdrawn during the history) *)
From Rigo Require InvStake InvReach.
Theorem C02_holds_closed : forall g ops s p gh,
  hrun (init_chain g, PIdle, ghost0) ops = Some (s, p, gh) ->
  (params_ok (gen_params g) /\ (length (gen_validators g) <= 1)%nat /\
   Forall (fun v : addr * Z => 0 <= v.2 < two63) (gen_validators g) /\
   Forall (fun h : addr * Z => 0 <= h.2 < two256) (gen_holders g)) ->
  InvStake.fresh_run (init_chain g) ops ->
  txs_ok ops ->
  Forall (fun o => match o with SDeliver t => InvReach.tx_opts_ok t | _ => True end) ops ->
  supply (work (init_chain g)) + gh_withdrawn gh < supply_bound ->
  s = srun (init_chain g) ops /\
  C02_equation g s p gh /\
  bal_range (work s) /\
  (forall a, 0 <= bal_of (work s) a < supply_bound) /\
  0 <= gh_withdrawn gh /\ 0 <= gh_slashed gh /\ 0 <= gh_burned gh.
Proof. exact InvReach.C02_closed. Qed.
Print Assumptions C02_holds_closed.

(* the run-level hypothesis of C02_holds, from the same input-only hypotheses (no history, no bound) *)
Theorem C02_run_ok_reachable : forall g ops,
  (params_ok (gen_params g) /\ (length (gen_validators g) <= 1)%nat /\
   Forall (fun v : addr * Z => 0 <= v.2 < two63) (gen_validators g) /\
   Forall (fun h : addr * Z => 0 <= h.2 < two256) (gen_holders g)) ->
  InvStake.fresh_run (init_chain g) ops ->
  Forall (fun o => match o with SDeliver t => InvReach.tx_opts_ok t | _ => True end) ops ->
  forall pre, pre `prefix_of` ops -> run_ok (srun (init_chain g) pre).
Proof. exact InvReach.run_ok_reachable. Qed.
Print Assumptions C02_run_ok_reachable.

(* every hypothesis on the inputs, nothing presupposed about the run: a well-formed genesis document,
   a well-bracketed operation list (ABCI order, consecutive heights, no votes in block 1, transactions
   as in C09), staking transactions with pairwise distinct non-zero hashes, Go-typed fields and no EVM
   execution, and genesis supply + everything the list's withdrawals REQUEST below 2^63 RIGO.  Then
   the list is a history (every BeginBlock / EndBlock answers Ok) and its end state satisfies the
   C02 equation; no balance wraps *)
From Rigo Require InvPanic.
Theorem C02_holds_inputs : forall g ops,
  (params_ok (gen_params g) /\ (length (gen_validators g) <= 1)%nat /\
   Forall (fun v : addr * Z => 0 <= v.2 < two63) (gen_validators g) /\
   Forall (fun h : addr * Z => 0 <= h.2 < two256) (gen_holders g)) ->
  InvPanic.bracketed InvPanic.Idle 0 ops ->
  NoDup (0%N :: InvReach.stake_hashes ops) ->
  txs_ok ops ->
  supply (work (init_chain g)) + InvReach.requested ops < supply_bound ->
  exists s p gh,
    hrun (init_chain g, PIdle, ghost0) ops = Some (s, p, gh) /\
    s = srun (init_chain g) ops /\
    C02_equation g s p gh /\
    bal_range (work s) /\
    (forall a, 0 <= bal_of (work s) a < supply_bound) /\
    0 <= gh_withdrawn gh <= InvReach.requested ops /\ 0 <= gh_slashed gh /\ 0 <= gh_burned gh.
Proof. exact InvReach.C02_closed_total. Qed.
Print Assumptions C02_holds_inputs.

(* ---- histories with contract calls, the effect contract replaced by the CHECKED boolean
   (EffectCheck.v).  InvSupply.C02_history_evm assumes [covered]: every EVM-path delivery carries an
   effect satisfying [evm_effect_fee_ok ... (evm_burn s t)].  Here that part is derived from
   [effects_hold] (= [check_effects c = []], check_effects_sound); what remains of [covered] is that
   delivered transactions carry Go-typed fields ([txs_typed]: tx_wf and payload_wf, nothing about
   t_evm).  [hrunE] is the history relation that accounts [evm_burn] under gh_burned. *)
From Rigo Require AppRun EffectCheck InvEvmClosed.
Theorem C02_checked_run : forall g rest senders s p gh,
  InvEvmClosed.no_init rest ->
  EffectCheck.effects_hold senders AppRun.state0 (AppRun.AInit g :: rest) ->
  hrunE (init_chain g, PIdle, ghost0) (InvEvmClosed.sops_of rest) = Some (s, p, gh) ->
  (forall pre, pre `prefix_of` InvEvmClosed.sops_of rest -> run_ok (srun (init_chain g) pre)) ->
  Forall (fun o => match o with SDeliver t => tx_wf t /\ payload_wf t | _ => True end) (InvEvmClosed.sops_of rest) ->
  bal_range (work (init_chain g)) ->
  supply (work (init_chain g)) + gh_withdrawn gh < supply_bound ->
  s = srun (init_chain g) (InvEvmClosed.sops_of rest) /\
  C02_equation g s p gh /\
  bal_range (work s) /\
  (forall a, 0 <= bal_of (work s) a < supply_bound) /\
  0 <= gh_withdrawn gh /\ 0 <= gh_slashed gh /\ 0 <= gh_burned gh.
Proof. exact InvEvmClosed.C02_checked_run. Qed.
Print Assumptions C02_checked_run.

(* ... and with [run_ok] at the prefixes discharged as in C02_holds_closed (run_ok_reachable asks
   nothing of t_evm): hypotheses on the inputs, the verdict of the check, the minted bound *)
Theorem C02_checked : forall g rest senders s p gh,
  InvEvmClosed.no_init rest ->
  EffectCheck.effects_hold senders AppRun.state0 (AppRun.AInit g :: rest) ->
  hrunE (init_chain g, PIdle, ghost0) (InvEvmClosed.sops_of rest) = Some (s, p, gh) ->
  (params_ok (gen_params g) /\ (length (gen_validators g) <= 1)%nat /\
   Forall (fun v : addr * Z => 0 <= v.2 < two63) (gen_validators g) /\
   Forall (fun h : addr * Z => 0 <= h.2 < two256) (gen_holders g)) ->
  NoDup (0%N :: InvReach.stake_hashes (InvEvmClosed.sops_of rest)) ->
  Forall (fun o => match o with SDeliver t => InvReach.tx_opts_ok t | _ => True end) (InvEvmClosed.sops_of rest) ->
  Forall (fun o => match o with SDeliver t => tx_wf t /\ payload_wf t | _ => True end) (InvEvmClosed.sops_of rest) ->
  supply (work (init_chain g)) + gh_withdrawn gh < supply_bound ->
  s = srun (init_chain g) (InvEvmClosed.sops_of rest) /\
  C02_equation g s p gh /\
  bal_range (work s) /\
  (forall a, 0 <= bal_of (work s) a < supply_bound) /\
  0 <= gh_withdrawn gh /\ 0 <= gh_slashed gh /\ 0 <= gh_burned gh.
Proof. exact InvEvmClosed.C02_checked. Qed.
Print Assumptions C02_checked.
