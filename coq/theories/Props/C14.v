(* C14 — Slashing and downtime jailing hit exactly the offending validator, exactly once.
   Statements about Spec.v, closed by lemmas of InvSlash.v. *)
From Rigo Require Import Base.
From stdpp Require Import gmap sorting.
From Rigo Require InvFee.
From Rigo Require Import Spec SpecProps InvReward InvSlash InvPanic InvSupply InvReach InvSlashClosed.
Local Open Scope Z_scope.

(* one evidence item against a delegatee: every stake with floor(power*ratio/100) >= 1 keeps
   power - floor(power*ratio/100), every other stake is forfeited; totals are recomputed; order,
   owner, target, hash and start height of the remaining stakes are unchanged (stake hashes within
   the delegatee pairwise distinct) *)
Theorem C14_slash : forall d ratio,
  0 <= ratio -> Forall (fun s => 0 <= s_power s) (d_stakes d) -> NoDup (s_hash <$> d_stakes d) ->
  slash_all d ratio =
    ({| d_addr := d_addr d;
        d_self := sum_power_of (d_addr d) (slash_kept ratio (d_stakes d));
        d_total := sum_power (slash_kept ratio (d_stakes d));
        d_stakes := slash_kept ratio (d_stakes d);
        d_marks := d_marks d |},
     sumZ_with (cut ratio) (List.filter (survives ratio) (d_stakes d))).
Proof. exact slash_all_spec. Qed.
Print Assumptions C14_slash.

(* the evidence of a block on the staking side: each named delegatee is slashed once per item that
   names it; unknown addresses change nothing; every other delegatee, every account, unbonding stake,
   reward, proposal and parameter is untouched *)
Theorem C14_stake_frame : forall l ratio evi,
  (forall a, dels (stake_punish l ratio evi) !! a = Nat.iter (times a evi) (slash1 ratio) <$> dels l !! a) /\
  (forall a, a ∉ evi -> dels (stake_punish l ratio evi) !! a = dels l !! a) /\
  accts (stake_punish l ratio evi) = accts l /\ frozen (stake_punish l ratio evi) = frozen l /\
  rewards (stake_punish l ratio evi) = rewards l /\ props (stake_punish l ratio evi) = props l /\
  fprops (stake_punish l ratio evi) = fprops l /\ lparams (stake_punish l ratio evi) = lparams l.
Proof. exact stake_punish_spec. Qed.
Print Assumptions C14_stake_frame.

(* ... and on the governance side: in every open proposal that records the offender as a voter its
   weight shrinks by floor(power*ratio/100) (removed at <= 0), an existing choice is re-cast with the
   new weight, total and majority follow; nothing else changes *)
Theorem C14_voter : forall p a ratio v,
  p_voters p !! a = Some v -> 0 <= v_power v < two63 -> 0 <= ratio <= 100 ->
  prop_punish p a ratio = (punished_prop p a v (v_power v * ratio / 100), v_power v * ratio / 100).
Proof. exact prop_punish_spec. Qed.
Print Assumptions C14_voter.

Theorem C14_gov_frame : forall l ratio evi,
  (forall h, props (gov_punish l ratio evi) !! h = (fun p => foldl (fun p a => punish1 ratio a p) p evi) <$> props l !! h) /\
  accts (gov_punish l ratio evi) = accts l /\ dels (gov_punish l ratio evi) = dels l /\
  frozen (gov_punish l ratio evi) = frozen l /\ rewards (gov_punish l ratio evi) = rewards l /\
  fprops (gov_punish l ratio evi) = fprops l /\ lparams (gov_punish l ratio evi) = lparams l.
Proof. exact gov_punish_spec. Qed.
Print Assumptions C14_gov_frame.

(* downtime: for a validator that did not sign block h-1, the miss is recorded and IFF the signed
   blocks inside the window fall below the minimum all stake bonded to it moves to unbonding (refund
   height h + period) and it leaves the delegatee ledger; otherwise only its miss record changes *)
Theorem C14_jail : forall g h l a d,
  dels l !! a = Some d -> incr (d_marks d) -> 0 <= g_signedBlocksWindow g -> 1 <= h ->
  let sh := h - 1 in
  let m1 := mark (d_marks d) sh in
  let s0 := Z.max 0 (sh - g_signedBlocksWindow g) in
  let cnt := Z.of_nat (length (List.filter (in_window s0 sh) m1)) in
  let m2 := if (2 <=? length (List.filter (before_window s0) m1))%nat
            then List.filter (fun x => negb (before_window s0 x)) m1 else m1 in
  jail_step g h l a =
    if g_signedBlocksWindow g - cnt <? g_minSignedBlocks g
    then set_frozen (set_dels l (delete a (dels l))) (freeze_all (frozen l) (h + g_lazyRewardBlocks g) (d_stakes d))
    else set_dels l (<[a := with_marks d m2]> (dels l)).
Proof. exact jail_step_spec. Qed.
Print Assumptions C14_jail.

(* the miss records are strictly increasing in every reachable state (hypothesis of C14_jail) *)
Theorem C14_marks_increasing : forall g ops, marks_incr (work (srun (init_chain g) ops)).
Proof. exact marks_incr_run. Qed.
Print Assumptions C14_marks_increasing.

(* BeginBlock as a whole: accounts, frozen proposals, parameters and all control state unchanged;
   proposals change only by the governance-side punishment, delegatees and unbonding stakes only by
   the staking-side punishment and by jailing *)
Theorem C14_holds : forall s hd s' r,
  begin_block s hd = (s', r) ->
  let ratio := g_slashRatio (gparams s) in
  let evi := h_evidence hd in
  let h := h_height hd in
  let l2 := stake_punish (gov_punish (work s) ratio evi) ratio evi in
  (h <> last_height s + 1 -> s' = s /\ r = Panic P_BEGINBLOCK) /\
  (h = last_height s + 1 ->
     committed s' = committed s /\ gparams s' = gparams s /\ newparams s' = newparams s /\
     lastvals s' = lastvals s /\ last_height s' = last_height s /\
     bctx s' = {| b_height := h; b_proposer := h_proposer hd; b_feesum := 0; b_txs := 0 |} /\
     accts (work s') = accts (work s) /\ fprops (work s') = fprops (work s) /\ lparams (work s') = lparams (work s) /\
     props (work s') = punish_props ratio (props (work s)) evi /\
     dels l2 = punish_dels ratio (dels (work s)) evi /\ frozen l2 = frozen (work s) /\
     match r with
     | Ok _ => dels (work s') = dels (jail_votes (gparams s) h l2 (h_votes hd)) /\
               frozen (work s') = frozen (jail_votes (gparams s) h l2 (h_votes hd))
     | _ => dels (work s') = dels l2 /\ frozen (work s') = frozen l2 /\ rewards (work s') = rewards (work s)
     end).
Proof. exact begin_block_frame. Qed.
Print Assumptions C14_holds.

(* the distinct-hash hypothesis of C14_slash is needed: with two stakes of one hash in one delegatee the
   wrong one is forfeited *)
Theorem C14_dup_hash_refuted :
  exists d ratio, 0 <= ratio <= 100 /\ Forall (fun s => 0 <= s_power s) (d_stakes d) /\
    d_stakes (slash_all d ratio).1 = [dup_small] /\ slash_kept ratio (d_stakes d) = [with_power 900 dup_big].
Proof. exact slash_dup_hash_refuted. Qed.
Print Assumptions C14_dup_hash_refuted.

(* ================================================================== whole runs, hypotheses on the inputs only
   (InvSlashClosed.v): the hypotheses of the per-step theorems above — distinct stake hashes inside a
   delegatee, slash ratio in 0..100, increasing miss marks, window parameter, voter powers in range —
   are discharged from reachability; what is assumed is a well-formed genesis document, fresh staking
   hashes, parameter documents in range and a BeginBlock that carries the next height *)
(* For each piece of evidence in a block, every stake bonded to the named validator loses the
   governance slash percentage of its power, rounded down; a stake too small to be reduced is
   forfeited; repeated evidence cuts repeatedly; unknown addresses change nothing.
   In every state [s] reachable by a list [pre], for the BeginBlock that continues the list:
   - the slash percentage in force is between 0 and 100;
   - after the punishment phase (the ledgers the vote loop starts from) the entry of EVERY address [a]
     is its old entry with the stake list passed [times a evi] times through [slash_kept], self and
     total power recomputed as sums over the remaining stakes, miss marks untouched;
   - the same is true of the state BeginBlock leaves behind for every delegatee that is not
     reported as a non-signer (those are the subject of C14_run_jail_iff), whatever BeginBlock answers;
   - no delegatee is created. *)
Theorem C14_run_slash_exact : forall g pre hd,
  genesis_ok g → hashes_fresh pre → opts_ok pre → blocks InvPanic.Idle 0 (pre ++ [SBegin hd]) →
  let s := srun (init_chain g) pre in
  let s' := sstep s (SBegin hd) in
  let ratio := g_slashRatio (gparams s) in
  let evi := h_evidence hd in
  0 ≤ ratio ≤ 100 ∧
  (∀ a, dels (punished s hd) !! a = slashed_n ratio (times a evi) a <$> dels (work s) !! a) ∧
  (∀ a d, dels (work s) !! a = Some d → a ∉ nonsigners (h_votes hd) →
     dels (work s') !! a = Some (slashed_n ratio (times a evi) a d)) ∧
  (∀ a, dels (work s) !! a = None → dels (work s') !! a = None).
Proof. exact InvSlashClosed.C14_run_slash_exact. Qed.
Print Assumptions C14_run_slash_exact.

(* one evidence item, spelled out stake by stake: a stake of the named validator with
   floor(power*ratio/100) >= 1 keeps its owner, target, hash, start and refund height and has
   power - floor(power*ratio/100); the others are gone; the order is kept *)
Theorem C14_run_slash_once : forall g pre hd a d,
  genesis_ok g → hashes_fresh pre → opts_ok pre → blocks InvPanic.Idle 0 (pre ++ [SBegin hd]) →
  let s := srun (init_chain g) pre in
  let ratio := g_slashRatio (gparams s) in
  dels (work s) !! a = Some d → times a (h_evidence hd) = 1%nat →
  ∃ d', dels (punished s hd) !! a = Some d' ∧ d_addr d' = a ∧ d_marks d' = d_marks d ∧
        d_stakes d' = slash_kept ratio (d_stakes d) ∧
        d_total d' = sum_power (d_stakes d') ∧ d_self d' = sum_power_of a (d_stakes d') ∧
        (∀ st', st' ∈ d_stakes d' ↔
           ∃ st, st ∈ d_stakes d ∧ 1 ≤ s_power st * ratio / 100 ∧
                 st' = with_power (s_power st - s_power st * ratio / 100) st) ∧
        (∀ st, st ∈ d_stakes d → s_power st * ratio / 100 < 1 → s_hash st ∉ s_hash <$> d_stakes d') ∧
        sublist (s_hash <$> d_stakes d') (s_hash <$> d_stakes d).
Proof. exact InvSlashClosed.C14_run_slash_once. Qed.
Print Assumptions C14_run_slash_once.

(* ... while no other validator, stake or account changes.  In every reachable state, for the
   BeginBlock that continues the list, whatever it answers:
   - a delegatee that is neither named by the evidence nor reported as a non-signer keeps its entry
     (and no entry appears for an address that had none);
   - a delegatee that is not named keeps address, self power, total power and stake list as long as it
     has an entry: only its miss marks may differ;
   - accounts, frozen proposals, the parameter ledger, the committed versions, the active and the
     pending parameters, the validator set and the last height are unchanged;
   - an open proposal in which no named address is a voter is unchanged, and no proposal appears;
   - the unbonding ledger is unchanged when no vote is marked "did not sign" (otherwise see C14_run_jail_iff);
   - the reward ledger is unchanged when no vote is marked "signed" (otherwise see C13). *)
Theorem C14_run_others_untouched : forall g pre hd,
  genesis_ok g → hashes_fresh pre → opts_ok pre → blocks InvPanic.Idle 0 (pre ++ [SBegin hd]) →
  let s := srun (init_chain g) pre in
  let s' := sstep s (SBegin hd) in
  let evi := h_evidence hd in
  (∀ a, a ∉ evi → a ∉ nonsigners (h_votes hd) → dels (work s') !! a = dels (work s) !! a) ∧
  (∀ a d d', a ∉ evi → dels (work s) !! a = Some d → dels (work s') !! a = Some d' → same_but_marks d d') ∧
  accts (work s') = accts (work s) ∧ fprops (work s') = fprops (work s) ∧ lparams (work s') = lparams (work s) ∧
  committed s' = committed s ∧ gparams s' = gparams s ∧ newparams s' = newparams s ∧
  lastvals s' = lastvals s ∧ last_height s' = last_height s ∧
  (∀ k p, props (work s) !! k = Some p → (∀ a, a ∈ evi → p_voters p !! a = None) → props (work s') !! k = Some p) ∧
  (∀ k, props (work s) !! k = None → props (work s') !! k = None) ∧
  (nonsigners (h_votes hd) = [] → frozen (work s') = frozen (work s)) ∧
  (Forall (λ v : addr * Z * bool, v.2 = false) (h_votes hd) → rewards (work s') = rewards (work s)).
Proof. exact InvSlashClosed.C14_run_others_untouched. Qed.
Print Assumptions C14_run_others_untouched.

(* the same with the answer Ok derived: votes are carried only from height 2 on *)
Theorem C14_run_jail_iff : forall g pre hd,
  genesis_ok g → hashes_fresh pre → opts_ok pre → blocks InvPanic.Idle 0 (pre ++ [SBegin hd]) →
  NoDup (nonsigners (h_votes hd)) → (h_votes hd = [] ∨ 2 ≤ h_height hd) →
  (∃ iss, (begin_block (srun (init_chain g) pre) hd).2 = Ok iss) ∧
  jailing_exact (srun (init_chain g) pre) hd.
Proof. exact InvSlashClosed.C14_run_jail_iff. Qed.
Print Assumptions C14_run_jail_iff.

(* ... and the validator's voting weight in open proposals shrinks by the same percentage.
   In every state [s] reachable by a list [pre], for the BeginBlock that continues the list
   ([voters_punished], written out above):
   - every recorded voter of every open proposal has a power in [0, 2^63) and the slash percentage is in
     0..100: the hypotheses of C14_voter hold, and keep holding item after item;
   - every open proposal [p] is replaced by [p] punished for each evidence item in order; no proposal
     appears or disappears;
   - item by item: with [q] the proposal as the items before left it, an item naming a recorded voter
     [v] of [q] turns [q] into [punished_prop q a v (floor(power*ratio/100))] (the voter's weight, the
     option it had chosen and the total lose exactly that amount, the majority threshold is recomputed,
     the voter is removed when nothing is left); an item naming nobody recorded leaves [q] as it is;
   - overall a voter named n times has its weight cut n times ([punish_voter] iterated), voters not named
     keep their record; hash, voting window, apply height, option type, number of options and major
     option of the proposal are unchanged. *)
Theorem C14_run_voters : forall g pre hd,
  genesis_ok g → hashes_fresh pre → opts_ok pre → blocks InvPanic.Idle 0 (pre ++ [SBegin hd]) →
  voters_punished (srun (init_chain g) pre) hd.
Proof. exact InvSlashClosed.C14_run_voters. Qed.
Print Assumptions C14_run_voters.

(* a voter named by exactly one evidence item: floor(power*ratio/100) less, removed at <= 0 *)
Theorem C14_run_voter_once : forall g pre hd k p a v,
  genesis_ok g → hashes_fresh pre → opts_ok pre → blocks InvPanic.Idle 0 (pre ++ [SBegin hd]) →
  let s := srun (init_chain g) pre in
  let ratio := g_slashRatio (gparams s) in
  props (work s) !! k = Some p → p_voters p !! a = Some v → times a (h_evidence hd) = 1%nat →
  0 ≤ v_power v < two63 ∧ 0 ≤ ratio ≤ 100 ∧
  ∃ p', props (work (sstep s (SBegin hd))) !! k = Some p' ∧
        p_voters p' !! a =
          if v_power v - v_power v * ratio / 100 <=? 0 then None
          else Some {| v_power := v_power v - v_power v * ratio / 100; v_choice := v_choice v |}.
Proof. exact InvSlashClosed.C14_run_voter_once. Qed.
Print Assumptions C14_run_voter_once.

(* "leaves the validator set" is not immediate: the eligible set of a block is built from the
   COMMITTED tree before stakes are punished and non-signers jailed, so the validator jailed (and
   slashed) in BeginBlock of block 4 is still announced, with its old power 120, by EndBlock of
   block 4; it is dropped by EndBlock of block 5 *)
Theorem C14_jailed_same_block_set_refuted : 
  ∃ g pre hd,
    genesis_ok g ∧ InvPanic.bracketed InvPanic.Idle 0 (pre ++ [SBegin hd]) ∧ hashes_fresh (pre ++ [SBegin hd]) ∧
    txs_ok (pre ++ [SBegin hd]) ∧ supply (work (init_chain g)) + requested (pre ++ [SBegin hd]) < supply_bound ∧
    let s' := srun (init_chain g) (pre ++ [SBegin hd]) in
    dels (work s') !! 11%N = None ∧
    lastvals (srun s' [SEnd]) = [(11%N, 120)] ∧
    (end_block s').2 = Ok [] ∧
    lastvals (srun s' [SEnd; SCommit; SBegin (InvFee.demo_hdr 5 (Some 11%N)); SEnd]) = [].
Proof. exact InvSlashClosed.C14_jailed_same_block_set_refuted. Qed.
Print Assumptions C14_jailed_same_block_set_refuted.

(* ================================================================== the jailing decision from the block HEADERS
   (InvJailHistory.v).  [reported_misses a g ops]: the heights h-1 at which a BeginBlock of height h
   reported a as a non-signer, collected while a stays a delegatee.  As long as no operation of the run
   ENLARGES the signing window (window_nonincr), the miss marks the node keeps agree with them inside every
   window (trimming only removes what no later window needs), so the decision "leaves in BeginBlock" can be
   read off the headers alone — which is what the trace predicate P_C14_jail_history does on the real node.
   When governance enlarges the window, already trimmed heights come back into view: the claim is then false
   of the model (and of the code), witness C14_window_growth_refuted; the predicate stays silent for one
   window length after such a change. *)
From Rigo Require Import InvJailHistory.
Theorem C14_marks_window_agree : forall g ops hd a d,
  genesis_ok g → opts_ok ops → blocks InvPanic.Idle 0 (ops ++ [SBegin hd]) → votes_from_2 ops → window_nonincr g ops →
  let s := srun (init_chain g) ops in
  let h := h_height hd in
  let s0 := win_start (gparams s) h in
  let R := reported_misses a g ops in
  dels (work s) !! a = Some d →
  List.filter (in_window s0 (h - 1)) (d_marks d) = List.filter (in_window s0 (h - 1)) R ∧
  List.filter (in_window s0 (h - 1)) (missed_marks h d) = List.filter (in_window s0 (h - 1)) (R ++ [h - 1]) ∧
  (∀ x, x ∈ d_marks d → x ∈ R) ∧
  incr R ∧ Forall (λ x, x < h - 1) R.
Proof. exact InvJailHistory.marks_window_agree. Qed.
Print Assumptions C14_marks_window_agree.

Theorem C14_jail_iff_headers : forall g pre hd,
  genesis_ok g → hashes_fresh pre → opts_ok pre → blocks InvPanic.Idle 0 (pre ++ [SBegin hd]) →
  NoDup (nonsigners (h_votes hd)) → votes_from_2 (pre ++ [SBegin hd]) → window_nonincr g pre →
  let s := srun (init_chain g) pre in
  ∀ a d, dels (work s) !! a = Some d →
    (dels (work (sstep s (SBegin hd))) !! a = None ↔
     a ∈ nonsigners (h_votes hd) ∧
     header_decision (gparams s) (h_height hd) (reported_misses a g pre) = true).
Proof. exact InvJailHistory.C14_jail_iff_headers. Qed.
Print Assumptions C14_jail_iff_headers.

Theorem C14_window_growth_refuted : 
  let g := jr_genesis in let ops := jr_pre in let hd := jr_hdr 9 true in let a := 11%N in
  let s := srun (init_chain g) ops in
  genesis_ok g ∧ hashes_fresh ops ∧ opts_ok ops ∧ blocks InvPanic.Idle 0 (ops ++ [SBegin hd]) ∧
  NoDup (nonsigners (h_votes hd)) ∧ votes_from_2 (ops ++ [SBegin hd]) ∧
  g_signedBlocksWindow (gen_params g) = 2 ∧ g_signedBlocksWindow (gparams s) = 100 ∧
  ¬ window_const g ops ∧ ¬ window_nonincr g ops ∧
  ∃ d, dels (work s) !! a = Some d ∧ d_marks d = [5] ∧ reported_misses a g ops = [1; 2; 5] ∧
       win_start (gparams s) 9 = 0 ∧
       List.filter (in_window 0 8) (d_marks d) ≠ List.filter (in_window 0 8) (reported_misses a g ops) ∧
       jailed (gparams s) 9 (after_evidence s hd a d) = false ∧
       header_decision (gparams s) 9 (reported_misses a g ops) = true ∧
       is_Some (dels (work (sstep s (SBegin hd))) !! a).
Proof. exact InvJailHistory.window_growth_refuted. Qed.
Print Assumptions C14_window_growth_refuted.
