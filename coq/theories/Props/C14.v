(* C14 — Slashing and downtime jailing hit exactly the offending validator, exactly once.
   Statements about Spec.v, closed by lemmas of InvSlash.v. *)
From Rigo Require Import Base.
From stdpp Require Import gmap sorting.
From Rigo Require Import Spec SpecProps InvReward InvSlash.
Local Open Scope Z_scope.

(* one evidence item against a delegatee: every stake with floor(power*ratio/100) >= 1 keeps
   power - floor(power*ratio/100), every other stake is forfeited; totals are recomputed; order,
   owner, target, hash and start height of the remaining stakes are unchanged (stake hashes within
   the delegatee pairwise distinct) *)
Theorem C14_slash : forall d ratio,
  0 <= ratio -> Forall (fun s => 0 <= s_power s) (d_stakes d) -> NoDup (s_hash <$> d_stakes d) ->
  slash_all d ratio =
    ({| d_addr := d_addr d;
        d_self := sum_power_of (d_addr d) (slash_kept ratio (d_stakes d));
        d_total := sum_power (slash_kept ratio (d_stakes d));
        d_stakes := slash_kept ratio (d_stakes d);
        d_marks := d_marks d |},
     sumZ_with (cut ratio) (List.filter (survives ratio) (d_stakes d))).
Proof. exact slash_all_spec. Qed.
Print Assumptions C14_slash.

(* the evidence of a block on the staking side: each named delegatee is slashed once per item that
   names it; unknown addresses change nothing; every other delegatee, every account, unbonding stake,
   reward, proposal and parameter is untouched *)
Theorem C14_stake_frame : forall l ratio evi,
  (forall a, dels (stake_punish l ratio evi) !! a = Nat.iter (times a evi) (slash1 ratio) <$> dels l !! a) /\
  (forall a, a ∉ evi -> dels (stake_punish l ratio evi) !! a = dels l !! a) /\
  accts (stake_punish l ratio evi) = accts l /\ frozen (stake_punish l ratio evi) = frozen l /\
  rewards (stake_punish l ratio evi) = rewards l /\ props (stake_punish l ratio evi) = props l /\
  fprops (stake_punish l ratio evi) = fprops l /\ lparams (stake_punish l ratio evi) = lparams l.
Proof. exact stake_punish_spec. Qed.
Print Assumptions C14_stake_frame.

(* ... and on the governance side: in every open proposal that records the offender as a voter its
   weight shrinks by floor(power*ratio/100) (removed at <= 0), an existing choice is re-cast with the
   new weight, total and majority follow; nothing else changes *)
Theorem C14_voter : forall p a ratio v,
  p_voters p !! a = Some v -> 0 <= v_power v < two63 -> 0 <= ratio <= 100 ->
  prop_punish p a ratio = (punished_prop p a v (v_power v * ratio / 100), v_power v * ratio / 100).
Proof. exact prop_punish_spec. Qed.
Print Assumptions C14_voter.

Theorem C14_gov_frame : forall l ratio evi,
  (forall h, props (gov_punish l ratio evi) !! h = (fun p => foldl (fun p a => punish1 ratio a p) p evi) <$> props l !! h) /\
  accts (gov_punish l ratio evi) = accts l /\ dels (gov_punish l ratio evi) = dels l /\
  frozen (gov_punish l ratio evi) = frozen l /\ rewards (gov_punish l ratio evi) = rewards l /\
  fprops (gov_punish l ratio evi) = fprops l /\ lparams (gov_punish l ratio evi) = lparams l.
Proof. exact gov_punish_spec. Qed.
Print Assumptions C14_gov_frame.

(* downtime: for a validator that did not sign block h-1, the miss is recorded and IFF the signed
   blocks inside the window fall below the minimum all stake bonded to it moves to unbonding (refund
   height h + period) and it leaves the delegatee ledger; otherwise only its miss record changes *)
Theorem C14_jail : forall g h l a d,
  dels l !! a = Some d -> incr (d_marks d) -> 0 <= g_signedBlocksWindow g -> 1 <= h ->
  let sh := h - 1 in
  let m1 := mark (d_marks d) sh in
  let s0 := Z.max 0 (sh - g_signedBlocksWindow g) in
  let cnt := Z.of_nat (length (List.filter (in_window s0 sh) m1)) in
  let m2 := if (2 <=? length (List.filter (before_window s0) m1))%nat
            then List.filter (fun x => negb (before_window s0 x)) m1 else m1 in
  jail_step g h l a =
    if g_signedBlocksWindow g - cnt <? g_minSignedBlocks g
    then set_frozen (set_dels l (delete a (dels l))) (freeze_all (frozen l) (h + g_lazyRewardBlocks g) (d_stakes d))
    else set_dels l (<[a := with_marks d m2]> (dels l)).
Proof. exact jail_step_spec. Qed.
Print Assumptions C14_jail.

(* the miss records are strictly increasing in every reachable state (hypothesis of C14_jail) *)
Theorem C14_marks_increasing : forall g ops, marks_incr (work (srun (init_chain g) ops)).
Proof. exact marks_incr_run. Qed.
Print Assumptions C14_marks_increasing.

(* BeginBlock as a whole: accounts, frozen proposals, parameters and all control state unchanged;
   proposals change only by the governance-side punishment, delegatees and unbonding stakes only by
   the staking-side punishment and by jailing *)
Theorem C14_holds : forall s hd s' r,
  begin_block s hd = (s', r) ->
  let ratio := g_slashRatio (gparams s) in
  let evi := h_evidence hd in
  let h := h_height hd in
  let l2 := stake_punish (gov_punish (work s) ratio evi) ratio evi in
  (h <> last_height s + 1 -> s' = s /\ r = Panic P_BEGINBLOCK) /\
  (h = last_height s + 1 ->
     committed s' = committed s /\ gparams s' = gparams s /\ newparams s' = newparams s /\
     lastvals s' = lastvals s /\ last_height s' = last_height s /\
     bctx s' = {| b_height := h; b_proposer := h_proposer hd; b_feesum := 0; b_txs := 0 |} /\
     accts (work s') = accts (work s) /\ fprops (work s') = fprops (work s) /\ lparams (work s') = lparams (work s) /\
     props (work s') = punish_props ratio (props (work s)) evi /\
     dels l2 = punish_dels ratio (dels (work s)) evi /\ frozen l2 = frozen (work s) /\
     match r with
     | Ok _ => dels (work s') = dels (jail_votes (gparams s) h l2 (h_votes hd)) /\
               frozen (work s') = frozen (jail_votes (gparams s) h l2 (h_votes hd))
     | _ => dels (work s') = dels l2 /\ frozen (work s') = frozen l2 /\ rewards (work s') = rewards (work s)
     end).
Proof. exact begin_block_frame. Qed.
Print Assumptions C14_holds.

(* the distinct-hash hypothesis of C14_slash is needed: with two stakes of one hash in one delegatee the
   wrong one is forfeited *)
Theorem C14_dup_hash_refuted :
  exists d ratio, 0 <= ratio <= 100 /\ Forall (fun s => 0 <= s_power s) (d_stakes d) /\
    d_stakes (slash_all d ratio).1 = [dup_small] /\ slash_kept ratio (d_stakes d) = [with_power 900 dup_big].
Proof. exact slash_dup_hash_refuted. Qed.
Print Assumptions C14_dup_hash_refuted.
