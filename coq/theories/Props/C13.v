(* C13 — Rewards: only for signed blocks, proportional to stake; withdrawals exact.
   Statements about Spec.v, closed by lemmas of InvReward.v. *)
From Rigo Require Import Base.
From stdpp Require Import gmap sorting.
From Rigo Require Import Spec SpecProps InvFail InvReward.
Local Open Scope Z_scope.

(* Issuance of one block.  [old] is the delegatee ledger of the version consensus derived the voting
   powers from (max(1, height-4)); [rewarded_stakes old votes] are the stakes of the validators that
   signed and are recorded there with the power they voted with.  Every owner of such a stake gets
   power * rewardPerPower per stake added to its record; every other record is untouched; the
   block's issued total is the sum. *)
Theorem C13_issuance : forall s hd s' issued old,
  begin_block s hd = (s', Ok issued) ->
  ledgers_at s (hgt_of_power (h_height hd)) = Some old ->
  let g := gparams s in let h := h_height hd in
  let sts := rewarded_stakes old (h_votes hd) in
  issued = total_issue g sts mod two256 /\
  forall a, rewards (work s') !! a =
         if has_stake a sts
         then Some (issued_record (default reward0 (rewards (work s) !! a)) (issue_to g sts a) h)
         else rewards (work s) !! a.
Proof. exact begin_block_rewards. Qed.
Print Assumptions C13_issuance.

(* the same without modular arithmetic, for powers and reward-per-power in range *)
Theorem C13_issuance_exact : forall s hd s' issued old a,
  begin_block s hd = (s', Ok issued) ->
  ledgers_at s (hgt_of_power (h_height hd)) = Some old ->
  0 <= g_rewardPerPower (gparams s) < 2 ^ 192 ->
  (forall st, st ∈ bonded_stakes old -> 0 <= s_power st < two63) ->
  let r := default reward0 (rewards (work s) !! a) in
  let sts := rewarded_stakes old (h_votes hd) in
  let E := sumZ_with (fun st => s_power st * g_rewardPerPower (gparams s)) (List.filter (fun st => (s_from st =? a)%N) sts) in
  0 <= r_cumulated r -> r_cumulated r + E < two256 -> has_stake a sts = true ->
  exists r', rewards (work s') !! a = Some r' /\ r_cumulated r' = r_cumulated r + E /\ r_height r' = h_height hd /\
        r_issued r' = (if r_height r <? h_height hd then E else r_issued r + E) mod two256 /\
        r_withdrawn r' = r_withdrawn r /\ r_slashed r' = r_slashed r.
Proof. exact begin_block_rewards_exact. Qed.
Print Assumptions C13_issuance_exact.

(* a withdrawal succeeds only up to the withdrawable amount ... *)
Theorem C13_withdraw_bounded : forall s t s' g,
  deliver s t = (s', Ok g) -> t_type t = TRX_WITHDRAW ->
  exists req r, t_payload t = PWithdraw req /\ rewards (work s) !! t_from t = Some r /\
           req <= r_cumulated r /\ t_amount t = 0.
Proof. exact withdraw_only_up_to. Qed.
Print Assumptions C13_withdraw_bounded.

(* ... and credits the balance by exactly the requested amount (minus the fee), reducing the
   withdrawable amount by exactly that; nothing else changes *)
Theorem C13_withdraw_exact : forall s t s' g,
  deliver s t = (s', Ok g) -> t_type t = TRX_WITHDRAW -> payload_wf t -> ranges_ok (work s) ->
  exists req r r',
    t_payload t = PWithdraw req /\
    rewards (work s) !! t_from t = Some r /\ 0 <= req <= r_cumulated r /\
    rewards (work s') !! t_from t = Some r' /\
    r_cumulated r' = r_cumulated r - req /\
    r_withdrawn r' = (if r_height r <? b_height (bctx s) then req else add256 (r_withdrawn r) req) /\
    r_issued r' = r_issued r /\ r_slashed r' = r_slashed r /\ r_height r' = b_height (bctx s) /\
    (forall b, b <> t_from t -> rewards (work s') !! b = rewards (work s) !! b) /\
    bal_of (work s') (t_from t) = sub256 (add256 (bal_of (work s) (t_from t)) req) (fee_of t) /\
    (bal_of (work s) (t_from t) + req < two256 ->
       bal_of (work s') (t_from t) = bal_of (work s) (t_from t) + req - fee_of t) /\
    (forall b, b <> t_from t -> acct_of (work s') b = acct_of (work s) b) /\
    dels (work s') = dels (work s) /\ frozen (work s') = frozen (work s) /\ props (work s') = props (work s) /\
    fprops (work s') = fprops (work s) /\ lparams (work s') = lparams (work s).
Proof. exact withdraw_ok. Qed.
Print Assumptions C13_withdraw_exact.

(* nothing but issuance and successful withdrawals touches the reward ledger *)
Theorem C13_other_tx : forall s t, t_type t <> TRX_WITHDRAW -> rewards (work (deliver s t).1) = rewards (work s).
Proof. exact deliver_rewards_other. Qed.
Theorem C13_end_block : forall s, rewards (work (end_block s).1) = rewards (work s).
Proof. exact end_block_rewards. Qed.
Theorem C13_commit : forall s, rewards (work (commit s)) = rewards (work s).
Proof. exact commit_rewards. Qed.
Print Assumptions C13_other_tx.
Print Assumptions C13_end_block.

(* over every run from a genesis: withdrawable = everything issued minus everything withdrawn *)
Theorem C13_holds : forall g ops a,
  run_wf (init_chain g) ops -> issued_to (init_chain g) ops a < two256 ->
  cum_of (srun (init_chain g) ops) a = issued_to (init_chain g) ops a - withdrawn_by (init_chain g) ops a /\
  0 <= withdrawn_by (init_chain g) ops a <= issued_to (init_chain g) ops a.
Proof. exact reward_identity_genesis. Qed.
Print Assumptions C13_holds.

(* the history theorem with [run_wf] discharged from the inputs (hypotheses of C09_holds_inputs:
   well-formed genesis document, well-bracketed list, staking transactions with pairwise distinct
   non-zero hashes, transactions in the Go ranges, genesis supply + requested withdrawals below
   2^63 RIGO).  What remains is the no-wrap condition of the statement itself. *)
From Rigo Require InvStake InvSupply InvPanic InvReach InvClosed.
Theorem C13_holds_closed : forall g ops a,
  (params_ok (gen_params g) /\ (length (gen_validators g) <= 1)%nat /\
   Forall (fun v : addr * Z => 0 <= v.2 < two63) (gen_validators g) /\
   Forall (fun h : addr * Z => 0 <= h.2 < two256) (gen_holders g)) ->
  InvPanic.bracketed InvPanic.Idle 0 ops ->
  NoDup (0%N :: InvReach.stake_hashes ops) ->
  InvSupply.txs_ok ops ->
  supply (work (init_chain g)) + InvReach.requested ops < InvSupply.supply_bound ->
  issued_to (init_chain g) ops a < two256 ->
  cum_of (srun (init_chain g) ops) a = issued_to (init_chain g) ops a - withdrawn_by (init_chain g) ops a /\
  0 <= withdrawn_by (init_chain g) ops a <= issued_to (init_chain g) ops a.
Proof. exact InvClosed.C13_closed. Qed.
Print Assumptions C13_holds_closed.

(* with no hypothesis beyond the inputs: the identity modulo 2^256 *)
Theorem C13_holds_closed_mod : forall g ops a,
  (params_ok (gen_params g) /\ (length (gen_validators g) <= 1)%nat /\
   Forall (fun v : addr * Z => 0 <= v.2 < two63) (gen_validators g) /\
   Forall (fun h : addr * Z => 0 <= h.2 < two256) (gen_holders g)) ->
  InvPanic.bracketed InvPanic.Idle 0 ops ->
  NoDup (0%N :: InvReach.stake_hashes ops) ->
  InvSupply.txs_ok ops ->
  supply (work (init_chain g)) + InvReach.requested ops < InvSupply.supply_bound ->
  cum_of (srun (init_chain g) ops) a
    = (issued_to (init_chain g) ops a - withdrawn_by (init_chain g) ops a) mod two256.
Proof. exact InvClosed.C13_closed_mod. Qed.
Print Assumptions C13_holds_closed_mod.

(* [run_wf] itself, from the inputs *)
Theorem C13_run_wf_reachable : forall g ops,
  (params_ok (gen_params g) /\ (length (gen_validators g) <= 1)%nat /\
   Forall (fun v : addr * Z => 0 <= v.2 < two63) (gen_validators g) /\
   Forall (fun h : addr * Z => 0 <= h.2 < two256) (gen_holders g)) ->
  InvPanic.bracketed InvPanic.Idle 0 ops ->
  NoDup (0%N :: InvReach.stake_hashes ops) ->
  InvSupply.txs_ok ops ->
  supply (work (init_chain g)) + InvReach.requested ops < InvSupply.supply_bound ->
  run_wf (init_chain g) ops.
Proof. exact InvClosed.run_wf_reachable. Qed.
Print Assumptions C13_run_wf_reachable.
