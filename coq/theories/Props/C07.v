(* C07 — Restart equivalence at block boundaries.  Statements about Spec.v with the restart model
   of InvRestart.v (all caches and in-memory fields dropped; governance parameters reloaded from the
   params ledger; the last validator set rebuilt as RestoreValidators does, fix 90bd59f). *)
From Rigo Require Import Base.
From stdpp Require Import gmap sorting.
From Rigo Require Import Spec SpecProps InvValSet InvRestart.
Local Open Scope Z_scope.

(* For every history of blocks from a genesis and a restart after ANY of its commits: the restarted
   node is a function of the data directory alone, reports that block's height and committed state,
   and every continuation (the next block's header must carry the next height, as BeginBlock itself
   requires) yields the same states and the same answers — BeginBlock, every DeliverTx, EndBlock
   (validator updates) and the committed ledgers — as the node that kept running. *)
Theorem C07_holds : forall g bs sf upss,
  bs <> [] -> run_blocks (init_chain g) bs = Some (sf, upss) ->
  recover (committed sf) = Some (restart sf) /\
  last_height (restart sf) = Z.of_nat (length bs) /\
  last (committed (restart sf)) = Some (work sf) /\
  forall hd ops, h_height hd = Z.of_nat (length bs) + 1 ->
            srun (restart sf) (SBegin hd :: ops) = srun sf (SBegin hd :: ops) /\
            strace (restart sf) (SBegin hd :: ops) = strace sf (SBegin hd :: ops).
Proof. exact C07_restart. Qed.
Print Assumptions C07_holds.

(* the invariant that makes it work: right after a commit everything execution reads from memory is
   determined by what is persisted *)
Theorem C07_after_commit_invariant : forall g bs sf upss,
  bs <> [] -> run_blocks (init_chain g) bs = Some (sf, upss) -> after_commit_ok sf.
Proof. exact after_commit_ok_run. Qed.
Print Assumptions C07_after_commit_invariant.

Theorem C07_equiv : forall s, after_commit_ok s -> forall hd ops,
  h_height hd = last_height s + 1 ->
  srun (restart s) (SBegin hd :: ops) = srun s (SBegin hd :: ops) /\
  strace (restart s) (SBegin hd :: ops) = strace s (SBegin hd :: ops).
Proof. exact restart_equiv. Qed.
Print Assumptions C07_equiv.

(* without rebuilding the last validator set (the code before the repair) the next EndBlock announces
   the whole set instead of the difference *)
Theorem C07_without_rebuild_refuted :
  exists s hd, after_commit_ok s /\
    (end_block (begin_block s hd).1).2 = Ok [(1%N, 0)] /\
    (end_block (begin_block (restart s) hd).1).2 = Ok [(1%N, 0)] /\
    (end_block (begin_block (restart_norebuild s) hd).1).2 = Ok [(2%N, 20); (3%N, 5)] /\
    (end_block (begin_block (restart_norebuild s) hd).1).2 <> (end_block (begin_block s hd).1).2.
Proof. exact restart_without_rebuild_refuted. Qed.
Print Assumptions C07_without_rebuild_refuted.
