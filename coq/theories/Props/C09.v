(* C09 — No externally supplied input can crash the node (model part).
   PARTIAL by nature: byte-level decoding, go-ethereum and IAVL are outside the model; every explicit
   panic, unchecked type assertion, slice expression and division of the Go code that is reachable
   from a decoded transaction or from block processing is a `Panic site` result of Spec.v, and these
   theorems show none of them can be reached.  Statements closed by lemmas of InvPanic.v. *)
From Rigo Require Import Base.
From stdpp Require Import gmap sorting.
From Rigo Require Import Spec SpecProps InvFail InvPanic.
Local Open Scope Z_scope.

(* no transaction can make DeliverTx panic: for every state satisfying state_ok (well-formed
   governance parameters, supply below 2^63 RIGO, non-negative delegatee totals, a consistent stake
   limiter, reward heights not above the block height) and every decoded transaction within the Go
   types' ranges whose payload kind matches its type (both wire decoders guarantee that) *)
Theorem C09_deliver_never_panics : forall s t,
  state_ok s -> tx_wf t -> payload_kind_ok t -> forall s' p, deliver s t <> (s', Panic p).
Proof. exact deliver_never_panics. Qed.
Print Assumptions C09_deliver_never_panics.

Theorem C09_begin_never_panics : forall s hd,
  reward_heights_ok s -> heights_ok s -> h_height hd = last_height s + 1 ->
  (h_votes hd <> [] -> committed s <> []) -> forall s' p, begin_block s hd <> (s', Panic p).
Proof. exact begin_block_never_panics. Qed.
Print Assumptions C09_begin_never_panics.

Theorem C09_end_never_panics : forall s,
  0 <= g_maxValidatorCnt (gparams s) -> keys_ok s -> gov_ok (fun _ => True) (base_of s) ->
  frozen_owned (accts (work s)) (base_of s) -> forall s' p, end_block s <> (s', Panic p).
Proof. exact end_block_never_panics. Qed.
Print Assumptions C09_end_never_panics.

(* over whole histories: for every well-bracketed sequence of blocks from a genesis with well-formed
   parameters, transactions as above whose governance options keep the parameters well-formed, no
   votes in block 1, and the bookkeeping / supply facts of C11 and C02 along the run: every
   BeginBlock and EndBlock answers Ok and no DeliverTx panics *)
Theorem C09_holds : forall g ops,
  params_ok (gen_params g) -> bracketed Idle 0 ops ->
  (forall pre post, ops = pre ++ post -> let l := work (srun (init_chain g) pre) in
     (forall a d, dels l !! a = Some d -> delegatee_ok a d) /\ ranges_ok l /\ supply l < two63 * amountPerPower) ->
  run_answers (init_chain g) ops.
Proof. exact run_never_panics_C02_C11. Qed.
Print Assumptions C09_holds.

(* the supply hypothesis is needed: a genesis holder owning 2^63 RIGO or more that self-stakes that
   amount makes DeliverTx panic (AmountToPower), reachable from init_chain under params_ok *)
Theorem C09_supply_bound_needed : exists g ops t,
  params_ok (gen_params g) /\ tx_wf t /\ payload_kind_ok t /\
  (deliver (srun (init_chain g) ops) t).2 = Panic P_AMOUNT_TO_POWER.
Proof. exact deliver_panics_reachable. Qed.
Print Assumptions C09_supply_bound_needed.

(* the history theorem with its hypothesis about the run discharged: a well-formed genesis document
   (parameters in range, at most one validator, powers in the int64 range, balances in the uint256
   range), a well-bracketed operation list whose transactions are as in C09_holds ([bracketed]
   carries tx_wf, payload kind, parse flag and parameter documents that keep parameters well formed),
   executed staking transactions with fresh hashes, withdrawal requests in the uint256 range and no
   EVM execution ([txs_ok]), and genesis supply + rewards withdrawn during the run below 2^63 RIGO.
   Nothing is assumed about intermediate states, and BeginBlock / EndBlock answering Ok is proved. *)
From Rigo Require InvStake InvSupply InvReach.
Theorem C09_holds_closed : forall g ops,
  (params_ok (gen_params g) /\ (length (gen_validators g) <= 1)%nat /\
   Forall (fun v : addr * Z => 0 <= v.2 < two63) (gen_validators g) /\
   Forall (fun h : addr * Z => 0 <= h.2 < two256) (gen_holders g)) ->
  bracketed Idle 0 ops ->
  InvStake.fresh_run (init_chain g) ops ->
  InvSupply.txs_ok ops ->
  supply (work (init_chain g)) + InvReach.minted (init_chain g) ops < InvSupply.supply_bound ->
  run_answers (init_chain g) ops.
Proof. exact InvReach.C09_closed. Qed.
Print Assumptions C09_holds_closed.

(* the same with every hypothesis on the inputs: staking transactions carry pairwise distinct
   non-zero hashes (instead of fresh_run), and the bound is on what the withdrawals of the list
   request (instead of what the run withdrew) *)
Theorem C09_holds_inputs : forall g ops,
  (params_ok (gen_params g) /\ (length (gen_validators g) <= 1)%nat /\
   Forall (fun v : addr * Z => 0 <= v.2 < two63) (gen_validators g) /\
   Forall (fun h : addr * Z => 0 <= h.2 < two256) (gen_holders g)) ->
  bracketed Idle 0 ops ->
  NoDup (0%N :: InvReach.stake_hashes ops) ->
  InvSupply.txs_ok ops ->
  supply (work (init_chain g)) + InvReach.requested ops < InvSupply.supply_bound ->
  run_answers (init_chain g) ops.
Proof. exact InvReach.C09_closed_inputs. Qed.
Print Assumptions C09_holds_inputs.

(* and the run-level hypothesis of C09_holds itself holds at every point of such a run *)
Theorem C09_run_facts_reachable : forall g ops,
  (params_ok (gen_params g) /\ (length (gen_validators g) <= 1)%nat /\
   Forall (fun v : addr * Z => 0 <= v.2 < two63) (gen_validators g) /\
   Forall (fun h : addr * Z => 0 <= h.2 < two256) (gen_holders g)) ->
  bracketed Idle 0 ops ->
  InvStake.fresh_run (init_chain g) ops ->
  InvSupply.txs_ok ops ->
  supply (work (init_chain g)) + InvReach.minted (init_chain g) ops < InvSupply.supply_bound ->
  forall pre post, ops = pre ++ post -> let l := work (srun (init_chain g) pre) in
     (forall a d, dels l !! a = Some d -> delegatee_ok a d) /\ ranges_ok l /\ supply l < two63 * amountPerPower.
Proof. exact InvReach.reach_facts. Qed.
Print Assumptions C09_run_facts_reachable.
