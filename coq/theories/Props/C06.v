(* C06 — Block execution is isolated from mempool checks and queries. *)
From Rigo Require Import Base.
From stdpp Require Import gmap sorting.
From Rigo Require Import Spec SpecProps AppRun Node.

(* For every schedule that interleaves arbitrary CheckTx and Query calls with the consensus calls at
   ABCI-call granularity: the consensus-side state is the one the consensus calls alone produce ... *)
Theorem C06_state : forall ops n, cons (nrun n ops) = srun (cons n) (cons_ops ops).
Proof. exact checks_and_queries_do_not_interfere. Qed.
Print Assumptions C06_state.

(* ... and so is every answer to a consensus call (BeginBlock, DeliverTx, EndBlock results and the
   ledgers written by Commit) *)
Theorem C06_holds : forall ops n, node_answers n ops = cons_answers (cons n) (cons_ops ops).
Proof. exact interleaving_invisible. Qed.
Print Assumptions C06_holds.
