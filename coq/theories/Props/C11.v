(* C11 — Stake bookkeeping: a validator's power is the sum of the stakes bonded to it.
   Statements about Spec.v, closed by lemmas of InvStake.v. *)
From Rigo Require Import Base.
From stdpp Require Import gmap sorting.
From Rigo Require Import Spec SpecProps InvStake.
Local Open Scope Z_scope.

(* over EVERY sequence of operations from a genesis, in the working state and in every committed
   version: each delegatee's total power is the sum of its stakes' powers, its self power the sum of
   its owner's own stakes, and every stake recorded under it is bonded to it *)
Theorem C11_holds : forall g ops,
  dels_ok (work (srun (init_chain g) ops)) /\ Forall dels_ok (committed (srun (init_chain g) ops)).
Proof. exact dels_ok_reachable. Qed.
Print Assumptions C11_holds.

(* the total-power query equals the sum over all bonded stakes *)
Theorem C11_total_power_query : forall l, dels_ok l ->
  sumZ_with (fun kv : addr * delegatee => d_total kv.2) (map_to_list (dels l)) = bonded_power l.
Proof. exact total_power_query. Qed.
Print Assumptions C11_total_power_query.

(* "recorded in exactly one place": every stake hash occurs once among bonded and unbonding stakes,
   as long as staking transactions carry fresh hashes — and the genesis has at most one validator,
   because ALL genesis stakes carry hash 0 *)
Theorem C11_hashes_unique : forall g ops,
  (length (gen_validators g) <= 1)%nat -> fresh_run (init_chain g) ops ->
  hashes_unique (work (srun (init_chain g) ops)).
Proof. exact hashes_unique_reachable. Qed.
Print Assumptions C11_hashes_unique.

(* under unique hashes a bonded stake is never lost by a transaction: it stays bonded or is recorded as
   unbonding under its own hash, unchanged but for the refund height *)
Theorem C11_never_lost : forall s t st,
  hashes_unique (work s) -> dels_ok (work s) -> (forall x, x ∈ bonded_stakes (work s) -> 0 <= s_power x) ->
  st ∈ bonded_stakes (work s) ->
  st ∈ bonded_stakes (work (deliver s t).1) \/
  frozen (work (deliver s t).1) !! s_hash st
    = Some (with_refund (b_height (bctx s) + g_lazyRewardBlocks (gparams s)) st).
Proof. exact deliver_never_loses. Qed.
Print Assumptions C11_never_lost.

(* owner, target, hash, start height and power of a stake do not change except by slashing *)
Theorem C11_identity_preserved : forall s o st,
  hashes_unique (work s) ->
  match o with SBegin hd => h_evidence hd = [] | SDeliver t => fresh_tx s t | _ => True end ->
  st ∈ bonded_stakes (work s) ->
  (forall st', st' ∈ bonded_stakes (work (sstep s o)) -> s_hash st' = s_hash st -> st' = st) /\
  (forall st', st' ∈ frozen_stakes (work (sstep s o)) -> s_hash st' = s_hash st -> st' = with_refund (s_refund st') st).
Proof. exact stake_unchanged_step. Qed.
Print Assumptions C11_identity_preserved.

(* with two genesis validators the unique-placement part is FALSE (known finding): both unstake their
   genesis stake (hash 0) in one block, every call succeeds, and one stake is afterwards in neither
   place and is never refunded *)
Theorem C11_collision_refuted : exists g ops1 ops2,
  let s0 := init_chain g in let s1 := srun s0 ops1 in let s2 := srun s1 ops2 in
  length (gen_validators g) = 2%nat /\
  all_ok s0 (ops1 ++ ops2) = true /\
  ~ hashes_unique (work s0) /\
  bonded_power (work s0) + frozen_power (work s0) = 20 /\
  bonded_power (work s1) + frozen_power (work s1) = 10 /\
  total_balance (work s1) = total_balance (work s0) /\
  bal_of (work s1) 1%N = 1000 + 10 /\ bal_of (work s1) 2%N = 1000 - 10 /\
  bonded_stakes (work s1) = [] /\
  frozen_stakes (work s1) = [with_refund 3 (genesis_stake (2%N, 10))] /\
  supply (work s1) = supply (work s0) - 10 * amountPerPower /\
  bonded_power (work s2) + frozen_power (work s2) = 0 /\
  bal_of (work s2) 1%N = 1000 + 10 /\
  bal_of (work s2) 2%N = 1000 - 10 + 10 * amountPerPower /\
  supply (work s2) = supply (work s0) - 10 * amountPerPower.
Proof. exact InvStake.C11_collision_refuted. Qed.
Print Assumptions C11_collision_refuted.

(* the same with the hypotheses on the inputs: [fresh_run] follows from the staking transactions of
   the list carrying pairwise distinct non-zero hashes *)
From Rigo Require InvSupply InvReach InvClosed.
Theorem C11_hashes_unique_inputs : forall g ops,
  (length (gen_validators g) <= 1)%nat -> NoDup (0%N :: InvReach.stake_hashes ops) ->
  hashes_unique (work (srun (init_chain g) ops)).
Proof. exact InvClosed.C11_hashes_unique_inputs. Qed.
Print Assumptions C11_hashes_unique_inputs.

(* C11_never_lost in every state reached from a well-formed genesis document by such a list whose
   parameter documents keep parameters well formed *)
Theorem C11_never_lost_inputs : forall g ops t st,
  (params_ok (gen_params g) /\ (length (gen_validators g) <= 1)%nat /\
   Forall (fun v : addr * Z => 0 <= v.2 < two63) (gen_validators g) /\
   Forall (fun h : addr * Z => 0 <= h.2 < two256) (gen_holders g)) ->
  NoDup (0%N :: InvReach.stake_hashes ops) -> InvReach.opts_ok ops ->
  let s := srun (init_chain g) ops in
  st ∈ bonded_stakes (work s) ->
  st ∈ bonded_stakes (work (deliver s t).1) \/
  frozen (work (deliver s t).1) !! s_hash st
    = Some (with_refund (b_height (bctx s) + g_lazyRewardBlocks (gparams s)) st).
Proof. exact InvClosed.C11_never_lost_inputs. Qed.
Print Assumptions C11_never_lost_inputs.

(* C11_identity_preserved for the next operation of such a list *)
Theorem C11_identity_preserved_inputs : forall g ops o st,
  (length (gen_validators g) <= 1)%nat -> NoDup (0%N :: InvReach.stake_hashes (ops ++ [o])) ->
  match o with SBegin hd => h_evidence hd = [] | _ => True end ->
  let s := srun (init_chain g) ops in
  st ∈ bonded_stakes (work s) ->
  (forall st', st' ∈ bonded_stakes (work (sstep s o)) -> s_hash st' = s_hash st -> st' = st) /\
  (forall st', st' ∈ frozen_stakes (work (sstep s o)) -> s_hash st' = s_hash st -> st' = with_refund (s_refund st') st).
Proof. exact InvClosed.C11_identity_preserved_inputs. Qed.
Print Assumptions C11_identity_preserved_inputs.
