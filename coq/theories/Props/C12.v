(* C12 — Unbonding: owner-only, full waiting period, refunded exactly once.
   Statements about Spec.v, closed by lemmas of InvStake.v. *)
From Rigo Require Import Base.
From stdpp Require Import gmap sorting.
From Rigo Require Import Spec SpecProps InvStake.
Local Open Scope Z_scope.

(* a bonded stake leaves the bonded set through a transaction only if that transaction is a correctly
   signed unstaking transaction naming a stake owned by its sender, and the stake is that one — or the
   delegatee thereby lost all its own stake (forced release of everything bonded to it) *)
Theorem C12_release_only_by_owner : forall s t s' g st,
  dels_ok (work s) -> (forall x, x ∈ bonded_stakes (work s) -> 0 <= s_power x) ->
  deliver s t = (s', Ok g) -> st ∈ bonded_stakes (work s) -> st ∉ bonded_stakes (work s') ->
  t_type t = TRX_UNSTAKING /\ t_sigok t = true /\
  exists d hs b s0,
    dels (work s) !! t_to t = Some d /\ t_payload t = PUnstake hs b /\ s_to st = t_to t /\
    find_stake hs (d_stakes d) = Some s0 /\ s_from s0 = t_from t /\
    (st = s0 \/ sum_power_of (t_to t) (remove_stake hs (d_stakes d)) = 0).
Proof. exact unstake_only_owner. Qed.
Print Assumptions C12_release_only_by_owner.

(* a newly unbonding stake carries refund height = height of release + the period in force then *)
Theorem C12_refund_height : forall s t s' r k x,
  deliver s t = (s', r) -> frozen (work s') !! k = Some x ->
  frozen (work s) !! k = Some x \/
  exists st, st ∈ bonded_stakes (work s) /\ k = s_hash st /\
        x = with_refund (b_height (bctx s) + g_lazyRewardBlocks (gparams s)) st.
Proof. exact release_stamps_refund_height. Qed.
Print Assumptions C12_refund_height.

(* nothing but the refund scan of EndBlock touches an unbonding stake: later parameter changes do not
   reach it (unique hashes: the known collision is exactly an overwrite of such an entry) *)
Theorem C12_frozen_untouched : forall s o k x,
  hashes_unique (work s) -> o <> SEnd -> frozen (work s) !! k = Some x -> frozen (work (sstep s o)) !! k = Some x.
Proof. exact frozen_untouched. Qed.
Print Assumptions C12_frozen_untouched.

(* EndBlock at height h: exactly the committed unbonding stakes with refund height <= h leave the
   ledger, nothing that has not matured is touched (never earlier), every account receives exactly
   the amounts power x 10^18 of the matured stakes it owns, once per entry (nobody else), bonded
   stakes are not involved *)
Theorem C12_unfreeze : forall s s' ups,
  end_block s = (s', Ok ups) ->
  let h := b_height (bctx s) in let base := base_of s in
  (forall k st, frozen base !! k = Some st -> s_refund st <= h -> frozen (work s') !! k = None) /\
  (forall k, (forall st, frozen base !! k = Some st -> h < s_refund st) -> frozen (work s') !! k = frozen (work s) !! k) /\
  (forall a, acct_of (work s') a = foldl credit (fee_credited s a) (refunds_to h a (sorted_items (frozen base)))) /\
  dels (work s') = dels (work s).
Proof. exact unfreeze_exact. Qed.
Print Assumptions C12_unfreeze.

Theorem C12_only_to_owner : forall s s' ups a,
  end_block s = (s', Ok ups) ->
  (forall k st, frozen (base_of s) !! k = Some st -> s_refund st <= b_height (bctx s) -> s_from st <> a) ->
  acct_of (work s') a = fee_credited s a.
Proof. exact refund_only_to_owner. Qed.
Print Assumptions C12_only_to_owner.

(* once: after the commit that follows, the refunded entry is gone from the committed ledger, so the
   next scan cannot pay it again *)
Theorem C12_once : forall s s' ups k st,
  end_block s = (s', Ok ups) -> frozen (base_of s) !! k = Some st -> s_refund st <= b_height (bctx s) ->
  frozen (base_of (commit s')) !! k = None.
Proof. exact refunded_entry_gone. Qed.
Print Assumptions C12_once.
