(* C12 — Unbonding: owner-only, full waiting period, refunded exactly once.
   Statements about Spec.v, closed by lemmas of InvStake.v. *)
From Rigo Require Import Base.
From stdpp Require Import gmap sorting.
From Rigo Require Import Spec SpecProps InvStake.
Local Open Scope Z_scope.

(* a bonded stake leaves the bonded set through a transaction only if that transaction is a correctly
   signed unstaking transaction naming a stake owned by its sender, and the stake is that one — or the
   delegatee thereby lost all its own stake (forced release of everything bonded to it) *)
Theorem C12_release_only_by_owner : forall s t s' g st,
  dels_ok (work s) -> (forall x, x ∈ bonded_stakes (work s) -> 0 <= s_power x) ->
  deliver s t = (s', Ok g) -> st ∈ bonded_stakes (work s) -> st ∉ bonded_stakes (work s') ->
  t_type t = TRX_UNSTAKING /\ t_sigok t = true /\
  exists d hs b s0,
    dels (work s) !! t_to t = Some d /\ t_payload t = PUnstake hs b /\ s_to st = t_to t /\
    find_stake hs (d_stakes d) = Some s0 /\ s_from s0 = t_from t /\
    (st = s0 \/ sum_power_of (t_to t) (remove_stake hs (d_stakes d)) = 0).
Proof. exact unstake_only_owner. Qed.
Print Assumptions C12_release_only_by_owner.

(* a newly unbonding stake carries refund height = height of release + the period in force then *)
Theorem C12_refund_height : forall s t s' r k x,
  deliver s t = (s', r) -> frozen (work s') !! k = Some x ->
  frozen (work s) !! k = Some x \/
  exists st, st ∈ bonded_stakes (work s) /\ k = s_hash st /\
        x = with_refund (b_height (bctx s) + g_lazyRewardBlocks (gparams s)) st.
Proof. exact release_stamps_refund_height. Qed.
Print Assumptions C12_refund_height.

(* nothing but the refund scan of EndBlock touches an unbonding stake: later parameter changes do not
   reach it (unique hashes: the known collision is exactly an overwrite of such an entry) *)
Theorem C12_frozen_untouched : forall s o k x,
  hashes_unique (work s) -> o <> SEnd -> frozen (work s) !! k = Some x -> frozen (work (sstep s o)) !! k = Some x.
Proof. exact frozen_untouched. Qed.
Print Assumptions C12_frozen_untouched.

(* EndBlock at height h: exactly the committed unbonding stakes with refund height <= h leave the
   ledger, nothing that has not matured is touched (never earlier), every account receives exactly
   the amounts power x 10^18 of the matured stakes it owns, once per entry (nobody else), bonded
   stakes are not involved *)
Theorem C12_unfreeze : forall s s' ups,
  end_block s = (s', Ok ups) ->
  let h := b_height (bctx s) in let base := base_of s in
  (forall k st, frozen base !! k = Some st -> s_refund st <= h -> frozen (work s') !! k = None) /\
  (forall k, (forall st, frozen base !! k = Some st -> h < s_refund st) -> frozen (work s') !! k = frozen (work s) !! k) /\
  (forall a, acct_of (work s') a = foldl credit (fee_credited s a) (refunds_to h a (sorted_items (frozen base)))) /\
  dels (work s') = dels (work s).
Proof. exact unfreeze_exact. Qed.
Print Assumptions C12_unfreeze.

Theorem C12_only_to_owner : forall s s' ups a,
  end_block s = (s', Ok ups) ->
  (forall k st, frozen (base_of s) !! k = Some st -> s_refund st <= b_height (bctx s) -> s_from st <> a) ->
  acct_of (work s') a = fee_credited s a.
Proof. exact refund_only_to_owner. Qed.
Print Assumptions C12_only_to_owner.

(* once: after the commit that follows, the refunded entry is gone from the committed ledger, so the
   next scan cannot pay it again *)
Theorem C12_once : forall s s' ups k st,
  end_block s = (s', Ok ups) -> frozen (base_of s) !! k = Some st -> s_refund st <= b_height (bctx s) ->
  frozen (base_of (commit s')) !! k = None.
Proof. exact refunded_entry_gone. Qed.
Print Assumptions C12_once.

(* ================================================================== over whole histories (InvUnbond.v)
   "refunded exactly once, in full, never earlier, to nobody else" along runs from a genesis, under
   hypotheses on the inputs only (those of C02_holds_inputs): a well-formed genesis document with at
   most one validator, operations in Begin / Deliver* / End / Commit brackets with Go-typed
   transactions, pairwise distinct non-zero hashes on the staking transactions, and the supply bound.
   [InvUnbond.payouts s ops] lists the (height, stake) pairs the EndBlocks of the run pay:
   for every EndBlock that answers Ok in a state s', the stakes of the committed unbonding ledger of s'
   whose refund height is <= the height of s'. *)
From Rigo Require InvReach InvClosed InvUnbond.

(* the link between the list and the balances: an EndBlock that answers credits the account [a] with
   the proposer's fees (if it is the proposer) and then exactly the amounts of its payouts owned by [a] *)
Theorem C12_payout_link : forall s s' ups a,
  end_block s = (s', Ok ups) ->
  InvUnbond.payouts1 s SEnd =
    (fun kp : hash * stake => (b_height (bctx s), kp.2)) <$> InvUnbond.paid_items s /\
  (forall kp, kp ∈ InvUnbond.paid_items s <->
     frozen (base_of s) !! kp.1 = Some kp.2 /\ s_refund kp.2 <= b_height (bctx s)) /\
  acct_of (work s') a = foldl credit (fee_credited s a) (InvUnbond.paid_to a (InvUnbond.payouts1 s SEnd)).
Proof. exact InvUnbond.payout_link. Qed.
Print Assumptions C12_payout_link.

Theorem C12_payout_link_balance : forall s s' ups a,
  end_block s = (s', Ok ups) ->
  (forall k st, frozen (base_of s) !! k = Some st -> 0 <= s_power st < two63) ->
  0 <= a_bal (fee_credited s a) < two256 ->
  bal_of (work s') a =
    (a_bal (fee_credited s a) +
     sumZ ((fun p : Z * stake => amountPerPower * s_power p.2) <$>
           InvUnbond.owned_by a (InvUnbond.payouts1 s SEnd))) mod two256.
Proof. exact InvUnbond.payout_link_balance. Qed.
Print Assumptions C12_payout_link_balance.

(* exactly once: no stake hash is paid twice in a run *)
Theorem C12_payout_at_most_once : forall g ops,
  InvReach.genesis_ok g -> InvPanic.bracketed InvPanic.Idle 0 ops -> InvReach.hashes_fresh ops ->
  InvSupply.txs_ok ops ->
  supply (work (init_chain g)) + InvReach.requested ops < InvSupply.supply_bound ->
  NoDup ((fun p : Z * stake => s_hash p.2) <$> InvUnbond.payouts (init_chain g) ops).
Proof. exact InvUnbond.payout_at_most_once. Qed.
Print Assumptions C12_payout_at_most_once.

(* what is actually used: one genesis validator at most, the brackets, the fresh hashes *)
Theorem C12_payout_at_most_once_gen : forall g ops,
  (length (gen_validators g) <= 1)%nat -> InvPanic.bracketed InvPanic.Idle 0 ops -> InvReach.hashes_fresh ops ->
  NoDup (InvUnbond.payout_hash <$> InvUnbond.payouts (init_chain g) ops).
Proof. exact InvUnbond.payout_at_most_once_gen. Qed.
Print Assumptions C12_payout_at_most_once_gen.

(* never earlier, in full: a paid stake has matured; it was released earlier in the run, by a
   delivery (a signed unstaking transaction of the owner of the stake it names, which is this stake
   or whose delegatee thereby lost all its own power) or by a BeginBlock (forced release), at a
   height hr with refund height = hr + the period in force at that point; the full period lies
   between release and payout; the paid power is the power at release and the amount is
   amountPerPower x that power *)
Theorem C12_payout_never_early_and_in_full : forall g ops h st,
  InvReach.genesis_ok g -> InvPanic.bracketed InvPanic.Idle 0 ops -> InvReach.hashes_fresh ops ->
  InvSupply.txs_ok ops ->
  supply (work (init_chain g)) + InvReach.requested ops < InvSupply.supply_bound ->
  (h, st) ∈ InvUnbond.payouts (init_chain g) ops ->
  s_refund st <= h /\
  exists pre o mid post,
    ops = pre ++ o :: mid ++ SEnd :: post /\
    let s := srun (init_chain g) pre in
    let s1 := srun (init_chain g) (pre ++ o :: mid) in
    InvUnbond.released_by s o st /\
    s_refund st = InvUnbond.release_height_of s o + g_lazyRewardBlocks (gparams s) /\
    0 <= g_lazyRewardBlocks (gparams s) /\ InvUnbond.release_height_of s o <= h /\
    h = b_height (bctx s1) /\ (exists ups, (end_block s1).2 = Ok ups) /\
    0 <= s_power st < two63 /\ power_to_amount (s_power st) = amountPerPower * s_power st.
Proof. exact InvUnbond.payout_never_early_and_in_full. Qed.
Print Assumptions C12_payout_never_early_and_in_full.

(* to nobody else: the EndBlock that pays (h, st) credits it to [s_from st] only, and that owner is
   the sender of the correctly signed staking transaction of the run that created the stake with this
   hash -- or the genesis validator, for the genesis stake -- before it was released *)
Theorem C12_payout_only_to_owner : forall g ops h st,
  InvReach.genesis_ok g -> InvPanic.bracketed InvPanic.Idle 0 ops -> InvReach.hashes_fresh ops ->
  InvSupply.txs_ok ops ->
  supply (work (init_chain g)) + InvReach.requested ops < InvSupply.supply_bound ->
  (h, st) ∈ InvUnbond.payouts (init_chain g) ops ->
  exists pre o mid post,
    ops = pre ++ o :: mid ++ SEnd :: post /\
    let s0 := srun (init_chain g) pre in
    let s := srun (init_chain g) (pre ++ o :: mid) in
    (h, st) ∈ InvUnbond.payouts1 s SEnd /\
    (exists ups, (end_block s).2 = Ok ups) /\
    (forall a, acct_of (work (end_block s).1) a =
               foldl credit (fee_credited s a) (InvUnbond.paid_to a (InvUnbond.payouts1 s SEnd))) /\
    (forall a, (h, st) ∈ InvUnbond.owned_by a (InvUnbond.payouts1 s SEnd) <-> a = s_from st) /\
    InvUnbond.released_by s0 o st /\
    InvUnbond.born g pre st.
Proof. exact InvUnbond.payout_only_to_owner. Qed.
Print Assumptions C12_payout_only_to_owner.

(* balance side: for every account, what the unbonding ledger adds to its balance along the run
   ([InvUnbond.unbond_gain]: at every EndBlock that answers, balance after minus the balance the refund
   loop starts from) is exactly amountPerPower x power summed over the DISTINCT matured stake hashes
   it owns, each counted once -- over Z, nothing wraps *)
Theorem C12_history : forall g ops a,
  InvReach.genesis_ok g -> InvPanic.bracketed InvPanic.Idle 0 ops -> InvReach.hashes_fresh ops ->
  InvSupply.txs_ok ops ->
  supply (work (init_chain g)) + InvReach.requested ops < InvSupply.supply_bound ->
  let P := InvUnbond.owned_by a (InvUnbond.payouts (init_chain g) ops) in
  NoDup ((fun p : Z * stake => s_hash p.2) <$> P) /\
  (forall p, p ∈ P -> s_from p.2 = a /\ s_refund p.2 <= p.1) /\
  InvUnbond.unbond_gain a (init_chain g) ops = sumZ ((fun p : Z * stake => amountPerPower * s_power p.2) <$> P) /\
  exists M : gmap hash stake,
    (forall k st, M !! k = Some st <-> s_hash st = k /\ exists h, (h, st) ∈ P) /\
    InvUnbond.unbond_gain a (init_chain g) ops =
      sumZ ((fun kv : hash * stake => amountPerPower * s_power kv.2) <$> map_to_list M).
Proof. exact InvUnbond.C12_history. Qed.
Print Assumptions C12_history.

(* why "at most one genesis validator": all genesis stakes carry hash 0; two validators releasing
   their genesis stakes one after the other are both paid (each once, to its owner) under the same
   hash, so "no stake hash is paid twice" fails while every other hypothesis holds *)
Theorem C12_payout_two_validators_refuted : exists g ops,
  length (gen_validators g) = 2%nat /\ params_ok (gen_params g) /\
  Forall (fun v : addr * Z => 0 <= v.2 < two63) (gen_validators g) /\
  Forall (fun h : addr * Z => 0 <= h.2 < two256) (gen_holders g) /\
  InvPanic.bracketed InvPanic.Idle 0 ops /\ InvReach.hashes_fresh ops /\ InvSupply.txs_ok ops /\
  supply (work (init_chain g)) + InvReach.requested ops < InvSupply.supply_bound /\
  all_ok (init_chain g) ops = true /\
  InvUnbond.payouts (init_chain g) ops =
    [(3, with_refund 3 (genesis_stake (1%N, 10))); (6, with_refund 6 (genesis_stake (2%N, 10)))] /\
  ~ NoDup ((fun p : Z * stake => s_hash p.2) <$> InvUnbond.payouts (init_chain g) ops).
Proof. exact InvUnbond.payout_at_most_once_two_validators_refuted. Qed.
Print Assumptions C12_payout_two_validators_refuted.
