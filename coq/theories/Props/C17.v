(* Props/C17.v — property C17 (contract transactions = the reference EVM run on the native
   balances and nonces): the theorems about the state wrapper, re-exported.
   Model: EvmWrap.v (StateDBWrapper over geth's journaled StateDB, and the reference world: geth
   alone on the native ledger's balances and nonces); proofs: EvmWrapProofs.v. *)
From Coq Require Import ZArith NArith.
From Rigo Require Import EvmWrap EvmWrapProofs.
From stdpp Require Import gmap.

(* W1, general: from related states, every disciplined call sequence is answered identically by
   the wrapper and by the reference world, and the states stay related *)
Theorem C17_wrapper_refines_reference (E : Prop) (w : wstate) (g : gstate) (ops : list wop) :
  Inv E w g → disciplined ops g →
  (wrun ops w).1 = (rrun ops g).1 ∧ Inv E (wrun ops w).2 (rrun ops g).2.
Proof. exact (wrapper_refines_reference E w g ops). Qed.
Print Assumptions C17_wrapper_refines_reference.

(* W1 for ExecuteTrx: Snapshot; Prepare(snap, from, to); body — on a wrapper with nothing recorded
   and no open revision, with ARBITRARY stale geth balances, nonces, access list, journal and
   s.snapshot; the reference world starts from the native ledger *)
Theorem C17_wrapper_refines_reference_tx (w : wstate) (f : addr) (t : option addr) (body : list wop) :
  wacc w = ∅ → grevs (wg w) = [] →
  let ops := OSnapshot :: OPrepare (gnext (wg w)) f t :: body in
  disciplined ops (ref_init w) →
  (wrun ops w).1 = (rrun ops (ref_init w)).1 ∧
  Inv False (wrun ops w).2 (rrun ops (ref_init w)).2.
Proof. exact (wrapper_refines_reference_tx w f t body). Qed.
Print Assumptions C17_wrapper_refines_reference_tx.

(* recorded addresses = geth's access list = the reference's access list (empty list at start) *)
Theorem C17_acl_agree (w : wstate) (f : addr) (t : option addr) (body : list wop) :
  wacc w = ∅ → grevs (wg w) = [] → sacl (gs (wg w)) = ∅ →
  let ops := OSnapshot :: OPrepare (gnext (wg w)) f t :: body in
  disciplined ops (ref_init w) →
  sacl (gs (wg (wrun ops w).2)) = sacl (gs (rrun ops (ref_init w)).2) ∧
  ∀ a, is_Some (wacc (wrun ops w).2 !! a) ↔ in_acl (gs (wg (wrun ops w).2)) a = true.
Proof. exact (acl_agree w f t body). Qed.
Print Assumptions C17_acl_agree.

(* refuted: Prepare with a stale snapshot id (no Snapshot() first: the code before issue #69;
   callVM in query.go still does it, harmlessly) — a read differs from the reference *)
Theorem C17_wrapper_refuted_without_snapshot :
  ∃ (w : wstate) (ops : list wop),
    wacc w = ∅ ∧ grevs (wg w) = [] ∧ sacl (gs (wg w)) = ∅ ∧
    disciplined_nosnap ops (ref_init w) ∧
    (wrun ops w).1 ≠ (rrun ops (ref_init w)).1.
Proof. exact wrapper_refuted_without_snapshot. Qed.
Print Assumptions C17_wrapper_refuted_without_snapshot.

Theorem C17_finish_refuted_without_snapshot :
  ∃ (w : wstate) (ops : list wop),
    wacc w = ∅ ∧ grevs (wg w) = [] ∧ sacl (gs (wg w)) = ∅ ∧
    disciplined_nosnap ops (ref_init w) ∧
    nb (wnat (wrun (ops ++ [OFinish]) w).2) 1%N ≠ gb (gs (rrun ops (ref_init w)).2) 1%N.
Proof. exact finish_refuted_without_snapshot. Qed.
Print Assumptions C17_finish_refuted_without_snapshot.

(* W2: Finish *)
Theorem C17_finish_syncs_out (w : wstate) :
  let w' := (wstep OFinish w).2 in
  wacc w' = ∅ ∧ wg w' = wg w ∧
  (∀ a, is_Some (wacc w !! a) →
        wnat w' !! a = Some (gb (gs (wg w)) a, gn (gs (wg w)) a)) ∧
  (∀ a, wacc w !! a = None → wnat w' !! a = wnat w !! a).
Proof. exact (finish_syncs_out w). Qed.
Print Assumptions C17_finish_syncs_out.

Theorem C17_finish_order_irrelevant (w : wstate) (l : list addr) :
  l ≡ₚ acc_addrs (wacc w) →
  finish_list l (gs (wg w)) (wnat w) = wnat (wstep OFinish w).2.
Proof. exact (finish_order_irrelevant w l). Qed.
Print Assumptions C17_finish_order_irrelevant.

Theorem C17_finish_matches_reference (E : Prop) (w : wstate) (g : gstate) :
  Inv E w g →
  ∀ a, nb (wnat (wstep OFinish w).2) a = gb (gs g) a ∧
       nn (wnat (wstep OFinish w).2) a = gn (gs g) a.
Proof. exact (finish_matches_reference E w g). Qed.
Print Assumptions C17_finish_matches_reference.

(* the success path of ExecuteTrx end to end: same answers, and afterwards the native ledger
   equals the reference world's balances and nonces on EVERY address *)
Theorem C17_tx_success (w : wstate) (f : addr) (t : option addr) (body : list wop) :
  wacc w = ∅ → grevs (wg w) = [] →
  let ops := OSnapshot :: OPrepare (gnext (wg w)) f t :: body in
  disciplined ops (ref_init w) →
  let w' := (wrun (ops ++ [OFinish]) w).2 in
  let g' := (rrun ops (ref_init w)).2 in
  (wrun ops w).1 = (rrun ops (ref_init w)).1 ∧
  wacc w' = ∅ ∧
  ∀ a, nb (wnat w') a = gb (gs g') a ∧ nn (wnat w') a = gn (gs g') a.
Proof. exact (tx_success w f t body). Qed.
Print Assumptions C17_tx_success.

(* native transfers between two contract transactions are visible to the second one *)
Theorem C17_native_changes_visible (w : wstate) (m' : gmap addr (Z * Z)) (f : addr)
    (t : option addr) (body : list wop) :
  wacc w = ∅ →
  let w' := w_set_native m' (w_finalise w) in
  let ops := OSnapshot :: OPrepare (gnext (wg w)) f t :: body in
  disciplined ops (ref_init w') →
  gs (ref_init w') = JS (fst <$> m') (snd <$> m') ∅ [] ∧
  (wrun ops w').1 = (rrun ops (ref_init w')).1 ∧
  ∀ a, nb (wnat (wrun (ops ++ [OFinish]) w').2) a = gb (gs (rrun ops (ref_init w')).2) a ∧
       nn (wnat (wrun (ops ++ [OFinish]) w').2) a = gn (gs (rrun ops (ref_init w')).2) a.
Proof. exact (native_changes_visible w m' f t body). Qed.
Print Assumptions C17_native_changes_visible.

(* W3: the failure path of ExecuteTrx writes nothing into the native ledger *)
Theorem C17_top_level_revert_no_effect (w : wstate) (f : addr) (t : option addr) (body : list wop) :
  wacc w = ∅ → Forall body_op body →
  let n := gnext (wg w) in
  let w1 := (wrun (OSnapshot :: OPrepare n f t :: body) w).2 in
  (wstep (ORevert n) w1).1 = OutUnit →
  let w2 := (wrun [ORevert n; OFinish] w1).2 in
  wacc (wstep (ORevert n) w1).2 = ∅ ∧ wacc w2 = ∅ ∧ wnat w2 = wnat w.
Proof. exact (top_level_revert_no_effect w f t body). Qed.
Print Assumptions C17_top_level_revert_no_effect.

(* a run without Finish (a read-only call: callVM never calls Finish) never writes the ledger *)
Theorem C17_no_finish_native_unchanged (ops : list wop) (w : wstate) :
  OFinish ∉ ops → wnat (wrun ops w).2 = wnat w.
Proof. exact (no_finish_native_unchanged ops w). Qed.
Print Assumptions C17_no_finish_native_unchanged.

(* W4: examples (nested call reverting after touching a third address which is then touched
   again; top-level failure; create; self-destruct, also rolled back) *)
Theorem C17_examples :
  agree ex_native ex_stale (ex_nested_body ++ [OFinish]) = true ∧
  agree ex_native ex_stale (ex_fail_body ++ [OFinish]) = true ∧
  agree ex_native ex_stale (ex_create_body ++ [OFinish]) = true ∧
  agree ex_native ex_stale (ex_suicide_body ++ [OFinish]) = true ∧
  agree ex_native ex_stale (ex_suicide_reverted_body ++ [OFinish]) = true.
Proof.
  exact (conj ex_nested_agree (conj ex_fail_agree (conj ex_create_agree
          (conj ex_suicide_agree ex_suicide_reverted_agree)))).
Qed.
Print Assumptions C17_examples.

Theorem C17_disciplinedb_sound (ops : list wop) (g : gstate) :
  disciplinedb ops g = true → disciplined ops g.
Proof. exact (disciplinedb_sound ops g). Qed.
Print Assumptions C17_disciplinedb_sound.
