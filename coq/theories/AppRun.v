(* AppRun.v — histories, observations and the comparison of the abstract application (Spec.v)
   with what the harness observed on the real node.  Definitions only. *)
From Rigo Require Import Base.
From stdpp Require Import gmap sorting.
From Rigo Require Import Spec.
Local Open Scope Z_scope.

Inductive aop :=
| AInit (g : genesis)
| ABegin (h : header)
| ADeliver (t : tx)
| AEnd
| ACommit.

(* projected state after a commit, for fixed watch lists of addresses and proposal hashes *)
Definition acct_view := (Z * Z * bool * N * N)%type.          (* nonce, balance, code?, name, doc *)
Definition stake_view := (addr * addr * hash * Z * Z * Z)%type. (* from, to, hash, start, refund, power *)
Definition del_view := (Z * Z * list stake_view * list Z)%type.  (* self, total, stakes, not-signed marks *)
Definition reward_view := (Z * Z * Z * Z * Z)%type.            (* issued, withdrawn, slashed, cumulated, height *)
Definition opt_view := (N * Z)%type.                            (* option id, votes *)
Definition prop_view := (bool * (Z * Z * Z * Z * Z) * list (addr * Z * Z) * Z * list opt_view * option N)%type.
   (* frozen?, (start, end, apply, total, majority), voters (addr, power, choice) ascending, opttype,
      options in stored order, major option id *)

Record snapshot := {
  sn_accts : list (addr * acct_view);
  sn_dels : list (addr * option del_view);
  sn_frozen : list stake_view;                 (* ascending by hash *)
  sn_rewards : list (addr * option reward_view);
  sn_props : list (hash * option prop_view);
  sn_params : params;
  sn_total_power : Z }.

Definition view_acct (a : account) : acct_view := (a_nonce a, a_bal a, a_code a, a_name a, a_doc a).
Definition view_stake (s : stake) : stake_view := (s_from s, s_to s, s_hash s, s_start s, s_refund s, s_power s).
Definition view_del (d : delegatee) : del_view := (d_self d, d_total d, view_stake <$> d_stakes d, d_marks d).
Definition view_reward (r : reward) : reward_view := (r_issued r, r_withdrawn r, r_slashed r, r_cumulated r, r_height r).
Definition view_prop (fr : bool) (p : proposal) : prop_view :=
  (fr, (p_start p, p_end p, p_apply p, p_total p, p_majority p),
   (λ kv : addr * voter, (kv.1, v_power kv.2, v_choice kv.2)) <$> sorted_items (p_voters p),
   p_opttype p, (λ o, (o_id o, o_votes o)) <$> p_options p, o_id <$> p_major p).

Definition snapshot_of (wa : list addr) (wh : list hash) (l : ledgers) : snapshot := {|
  sn_accts := (λ a, (a, view_acct (default acct0 (accts l !! a)))) <$> wa;
  sn_dels := (λ a, (a, view_del <$> dels l !! a)) <$> wa;
  sn_frozen := (λ kv : hash * stake, view_stake kv.2) <$> sorted_items (frozen l);
  sn_rewards := (λ a, (a, view_reward <$> rewards l !! a)) <$> wa;
  sn_props := (λ h, (h, match props l !! h with
                        | Some p => Some (view_prop false p)
                        | None => view_prop true <$> fprops l !! h end)) <$> wh;
  sn_params := lparams l;
  sn_total_power := sumZ_with (λ kv : addr * delegatee, d_total kv.2) (map_to_list (dels l)) |}.

Inductive aobs :=
| OInit
| OBegin (r : res Z)                   (* issued reward of the block *)
| ODeliver (r : res Z)                 (* gas used | failure reason | panic *)
| OEnd (r : res (list (addr * Z)))     (* validator updates *)
| OCommit (sn : snapshot).

Definition astep (wa : list addr) (wh : list hash) (s : state) (o : aop) : state * aobs :=
  match o with
  | AInit g => (init_chain g, OInit)
  | ABegin h => let '(s', r) := begin_block s h in (s', OBegin r)
  | ADeliver t => let '(s', r) := deliver s t in (s', ODeliver r)
  | AEnd => let '(s', r) := end_block s in (s', OEnd r)
  | ACommit => let s' := commit s in (s', OCommit (snapshot_of wa wh (work s')))
  end.

Definition state0 : state := init_chain {| gen_params := {|
  g_version := 0; g_maxValidatorCnt := 0; g_minValidatorStake := 0; g_minDelegatorStake := 0; g_rewardPerPower := 0;
  g_lazyRewardBlocks := 0; g_lazyApplyingBlocks := 0; g_gasPrice := 0; g_minTrxGas := 0; g_maxTrxGas := 0;
  g_maxBlockGas := 0; g_minVotingPeriodBlocks := 0; g_maxVotingPeriodBlocks := 0; g_minSelfStakeRatio := 0;
  g_maxUpdatableStakeRatio := 0; g_maxIndividualStakeRatio := 0; g_slashRatio := 0; g_signedBlocksWindow := 0;
  g_minSignedBlocks := 0 |}; gen_holders := []; gen_validators := [] |}.

Fixpoint arun_from (wa : list addr) (wh : list hash) (s : state) (ops : list aop) : list aobs * state :=
  match ops with
  | [] => ([], s)
  | o :: r => let '(s', x) := astep wa wh s o in let '(xs, sf) := arun_from wa wh s' r in (x :: xs, sf)
  end.
Definition arun (wa : list addr) (wh : list hash) (ops : list aop) : list aobs := (arun_from wa wh state0 ops).1.

(* ------------------------------------------------------------------ comparison *)
(* boolean equalities (vm_compute on `decide (x = y)` would normalise equality proofs) *)
Fixpoint eqb_list {A} (e : A → A → bool) (a b : list A) : bool :=
  match a, b with
  | [], [] => true
  | x :: a', y :: b' => e x y && eqb_list e a' b'
  | _, _ => false
  end.
Definition eqb_opt {A} (e : A → A → bool) (a b : option A) : bool :=
  match a, b with Some x, Some y => e x y | None, None => true | _, _ => false end.
Definition eqb_pair {A B} (ea : A → A → bool) (eb : B → B → bool) (a b : A * B) : bool := ea a.1 b.1 && eb a.2 b.2.

Definition eqb_acct_view (a b : acct_view) : bool :=
  let '(n1, b1, c1, nm1, d1) := a in let '(n2, b2, c2, nm2, d2) := b in
  (n1 =? n2) && (b1 =? b2) && Bool.eqb c1 c2 && (nm1 =? nm2)%N && (d1 =? d2)%N.
Definition eqb_stake_view (a b : stake_view) : bool :=
  let '(f1, t1, h1, s1, r1, p1) := a in let '(f2, t2, h2, s2, r2, p2) := b in
  (f1 =? f2)%N && (t1 =? t2)%N && (h1 =? h2)%N && (s1 =? s2) && (r1 =? r2) && (p1 =? p2).
Definition eqb_del_view (a b : del_view) : bool :=
  let '(s1, t1, st1, m1) := a in let '(s2, t2, st2, m2) := b in
  (s1 =? s2) && (t1 =? t2) && eqb_list eqb_stake_view st1 st2 && eqb_list Z.eqb m1 m2.
Definition eqb_reward_view (a b : reward_view) : bool :=
  let '(i1, w1, s1, c1, h1) := a in let '(i2, w2, s2, c2, h2) := b in
  (i1 =? i2) && (w1 =? w2) && (s1 =? s2) && (c1 =? c2) && (h1 =? h2).
Definition eqb_prop_view (a b : prop_view) : bool :=
  let '(f1, (s1, e1, a1, t1, m1), v1, ot1, o1, mj1) := a in
  let '(f2, (s2, e2, a2, t2, m2), v2, ot2, o2, mj2) := b in
  Bool.eqb f1 f2 && (s1 =? s2) && (e1 =? e2) && (a1 =? a2) && (t1 =? t2) && (m1 =? m2)
  && eqb_list (λ x y : addr * Z * Z, (x.1.1 =? y.1.1)%N && (x.1.2 =? y.1.2) && (x.2 =? y.2)) v1 v2
  && (ot1 =? ot2) && eqb_list (eqb_pair N.eqb Z.eqb) o1 o2 && eqb_opt N.eqb mj1 mj2.
Definition eqb_params (a b : params) : bool :=
  (g_version a =? g_version b) && (g_maxValidatorCnt a =? g_maxValidatorCnt b)
  && (g_minValidatorStake a =? g_minValidatorStake b) && (g_minDelegatorStake a =? g_minDelegatorStake b)
  && (g_rewardPerPower a =? g_rewardPerPower b) && (g_lazyRewardBlocks a =? g_lazyRewardBlocks b)
  && (g_lazyApplyingBlocks a =? g_lazyApplyingBlocks b) && (g_gasPrice a =? g_gasPrice b)
  && (g_minTrxGas a =? g_minTrxGas b) && (g_maxTrxGas a =? g_maxTrxGas b) && (g_maxBlockGas a =? g_maxBlockGas b)
  && (g_minVotingPeriodBlocks a =? g_minVotingPeriodBlocks b) && (g_maxVotingPeriodBlocks a =? g_maxVotingPeriodBlocks b)
  && (g_minSelfStakeRatio a =? g_minSelfStakeRatio b) && (g_maxUpdatableStakeRatio a =? g_maxUpdatableStakeRatio b)
  && (g_maxIndividualStakeRatio a =? g_maxIndividualStakeRatio b) && (g_slashRatio a =? g_slashRatio b)
  && (g_signedBlocksWindow a =? g_signedBlocksWindow b) && (g_minSignedBlocks a =? g_minSignedBlocks b).

(* how an observation of the implementation is compared with the model's:
   - deliver: success/failure and gas used; the failure reason (parsed from the log text by the
     harness) is compared separately as a note;
   - begin: issued reward; end: validator updates; commit: the whole projected state *)
Definition res_class {A} (eqb : A → A → bool) (a b : res A) : bool :=
  match a, b with
  | Ok x, Ok y => eqb x y
  | Err _, Err _ => true
  | Panic _, Panic _ => true
  | _, _ => false
  end.
Definition res_strict {A} (eqb : A → A → bool) (a b : res A) : bool :=
  match a, b with
  | Ok x, Ok y => eqb x y
  | Err x, Err y => (x =? y) || (y =? 0)   (* 0: the harness could not classify the log text *)
  | Panic _, Panic _ => true
  | _, _ => false
  end.

Definition snap_diff (a b : snapshot) : Z :=
  if negb (eqb_list (eqb_pair N.eqb eqb_acct_view) (sn_accts a) (sn_accts b)) then 1
  else if negb (eqb_list (eqb_pair N.eqb (eqb_opt eqb_del_view)) (sn_dels a) (sn_dels b)) then 2
  else if negb (eqb_list eqb_stake_view (sn_frozen a) (sn_frozen b)) then 3
  else if negb (eqb_list (eqb_pair N.eqb (eqb_opt eqb_reward_view)) (sn_rewards a) (sn_rewards b)) then 4
  else if negb (eqb_list (eqb_pair N.eqb (eqb_opt eqb_prop_view)) (sn_props a) (sn_props b)) then 5
  else if negb (eqb_params (sn_params a) (sn_params b)) then 6
  else if negb (sn_total_power a =? sn_total_power b) then 7
  else 0.

(* 0 = equal on the compared projection; otherwise a code saying what differs *)
Definition obs_diff (strict : bool) (m i : aobs) : Z :=
  match m, i with
  | OInit, OInit => 0
  | OBegin a, OBegin b => if (if strict then res_strict else res_class) Z.eqb a b then 0 else 10
  | ODeliver a, ODeliver b => if (if strict then res_strict else res_class) Z.eqb a b then 0 else 11
  | OEnd a, OEnd b => if res_class (eqb_list (eqb_pair N.eqb Z.eqb)) a b then 0 else 12
  | OCommit a, OCommit b => snap_diff a b
  | _, _ => 99
  end.

Fixpoint first_obs_diff (strict : bool) (n : nat) (m i : list aobs) : option (nat * Z) :=
  match m, i with
  | [], [] => None
  | x :: m', y :: i' => let d := obs_diff strict x y in if d =? 0 then first_obs_diff strict (S n) m' i' else Some (n, d)
  | _, _ => Some (n, 98)
  end.

Record acase := { c_wa : list addr; c_wh : list hash; c_ops : list aop; c_obs : list aobs }.

(* constructor shorthands for generated case files *)
Definition mk_params (v mvc mvs mds rpp lrb lab gp mintg maxtg maxbg minv maxv mssr musr misr sr sbw msb : Z) : params :=
  {| g_version := v; g_maxValidatorCnt := mvc; g_minValidatorStake := mvs; g_minDelegatorStake := mds;
     g_rewardPerPower := rpp; g_lazyRewardBlocks := lrb; g_lazyApplyingBlocks := lab; g_gasPrice := gp;
     g_minTrxGas := mintg; g_maxTrxGas := maxtg; g_maxBlockGas := maxbg; g_minVotingPeriodBlocks := minv;
     g_maxVotingPeriodBlocks := maxv; g_minSelfStakeRatio := mssr; g_maxUpdatableStakeRatio := musr;
     g_maxIndividualStakeRatio := misr; g_slashRatio := sr; g_signedBlocksWindow := sbw; g_minSignedBlocks := msb |}.
Definition mk_tx (ty : Z) (from to : addr) (from_ok to_ok : bool) (amount price gas nonce : Z) (pl : payload)
    (h : hash) (sigok : bool) (evm : option evm_effect) : tx :=
  {| t_type := ty; t_from := from; t_to := to; t_from_ok := from_ok; t_to_ok := to_ok; t_amount := amount;
     t_price := price; t_gas := gas; t_nonce := nonce; t_payload := pl; t_hash := h; t_sigok := sigok; t_evm := evm |}.
Definition mk_evm (ok : bool) (gas : Z) (created : option addr) (accts : list (addr * Z * Z)) : evm_effect :=
  {| e_ok := ok; e_gas := gas; e_created := created; e_accts := accts |}.
Definition mk_hdr (h : Z) (prop : option addr) (votes : list (addr * Z * bool)) (evi : list addr) : header :=
  {| h_height := h; h_proposer := prop; h_votes := votes; h_evidence := evi |}.
Definition mk_gen (p : params) (holders vals : list (addr * Z)) : genesis :=
  {| gen_params := p; gen_holders := holders; gen_validators := vals |}.
Definition mk_snap (a : list (addr * acct_view)) (d : list (addr * option del_view)) (f : list stake_view)
    (r : list (addr * option reward_view)) (p : list (hash * option prop_view)) (g : params) (tp : Z) : snapshot :=
  {| sn_accts := a; sn_dels := d; sn_frozen := f; sn_rewards := r; sn_props := p; sn_params := g; sn_total_power := tp |}.
Definition mk_case (wa : list addr) (wh : list hash) (ops : list aop) (obs : list aobs) : acase :=
  {| c_wa := wa; c_wh := wh; c_ops := ops; c_obs := obs |}.

Definition model_obs (c : acase) : list aobs := arun (c_wa c) (c_wh c) (c_ops c).

(* per case: first difference on the compared projection, first difference when failure reasons
   are compared too (a note) *)
Definition check_acase (c : acase) : option (nat * Z) * option (nat * Z) :=
  let m := model_obs c in
  (first_obs_diff false 0 m (c_obs c), first_obs_diff true 0 m (c_obs c)).

Fixpoint check_acases_from (i : nat) (cs : list acase) : list (nat * option (nat * Z) * option (nat * Z)) :=
  match cs with
  | [] => []
  | c :: r =>
      let '(d, ds) := check_acase c in
      match d, ds with
      | None, None => check_acases_from (S i) r
      | _, _ => (i, d, ds) :: check_acases_from (S i) r
      end
  end.
Definition check_acases := check_acases_from 0.

(* for diagnosis: the model's observation at a position *)
Definition model_at (c : acase) (n : nat) : option aobs := model_obs c !! n.
Definition impl_at (c : acase) (n : nat) : option aobs := c_obs c !! n.
