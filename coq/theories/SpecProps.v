(* SpecProps.v — vocabulary shared by the invariants and property statements about Spec.v.
   Definitions only. *)
From Rigo Require Import Base.
From stdpp Require Import gmap sorting.
From Rigo Require Import Spec.
Local Open Scope Z_scope.

(* an address that has no ledger entry is indistinguishable from the empty account (the account
   query answers with an empty account; NewTrxContext creates one for any receiver) *)
Definition acct_of (l : ledgers) (a : addr) : account := default acct0 (accts l !! a).
Definition nonce_of (l : ledgers) (a : addr) : Z := a_nonce (acct_of l a).
Definition bal_of (l : ledgers) (a : addr) : Z := a_bal (acct_of l a).

(* observable equality of two ledger states *)
Definition same_obs (l l' : ledgers) : Prop :=
  (∀ a, acct_of l a = acct_of l' a) ∧ dels l = dels l' ∧ frozen l = frozen l' ∧
  rewards l = rewards l' ∧ props l = props l' ∧ fprops l = fprops l' ∧ lparams l = lparams l'.

(* everything of the application state except the working ledgers and the tx counter *)
Definition same_ctl (s s' : state) : Prop :=
  committed s' = committed s ∧ gparams s' = gparams s ∧ newparams s' = newparams s ∧
  alldels s' = alldels s ∧ lastvals s' = lastvals s ∧ lim s' = lim s ∧
  b_height (bctx s') = b_height (bctx s) ∧ b_proposer (bctx s') = b_proposer (bctx s) ∧
  b_feesum (bctx s') = b_feesum (bctx s) ∧ last_height s' = last_height s.

(* ranges of the Go types *)
Definition tx_wf (t : tx) : Prop :=
  0 ≤ t_amount t < two256 ∧ 0 ≤ t_price t < two256 ∧ 0 ≤ t_gas t < two64 ∧ 0 ≤ t_nonce t < two64.

(* governance parameter sets for which the code's arithmetic stays in range (DESIGN 3.3 cfg_ok) *)
Definition params_ok (g : params) : Prop :=
  0 ≤ g_gasPrice g < 2 ^ 192 ∧ 0 ≤ g_minTrxGas g < two64 ∧ 0 ≤ g_rewardPerPower g < 2 ^ 192 ∧
  0 ≤ g_slashRatio g ≤ 100 ∧ 0 < g_maxValidatorCnt g ∧ amountPerPower ≤ g_minValidatorStake g < two63 * amountPerPower ∧
  0 ≤ g_minDelegatorStake g < two63 * amountPerPower ∧ 0 ≤ g_lazyRewardBlocks g < two63 ∧
  0 ≤ g_signedBlocksWindow g ∧ 0 ≤ g_minSignedBlocks g ∧ 0 ≤ g_minSelfStakeRatio g ≤ 100.

(* all stakes of a ledger state: bonded ones, then unbonding ones *)
Definition bonded_stakes (l : ledgers) : list stake :=
  concat ((λ kv : addr * delegatee, d_stakes kv.2) <$> map_to_list (dels l)).
Definition frozen_stakes (l : ledgers) : list stake := (λ kv : hash * stake, kv.2) <$> map_to_list (frozen l).

Definition total_balance (l : ledgers) : Z := map_fold (λ _ (a : account) acc, a_bal a + acc) 0 (accts l).
Definition bonded_power (l : ledgers) : Z := sum_power (bonded_stakes l).
Definition frozen_power (l : ledgers) : Z := sum_power (frozen_stakes l).

(* the quantity of property C02: balances + bonded + unbonding, in base units *)
Definition supply (l : ledgers) : Z := total_balance l + amountPerPower * (bonded_power l + frozen_power l).

(* stake bookkeeping of one delegatee (property C11) *)
Definition delegatee_ok (a : addr) (d : delegatee) : Prop :=
  d_addr d = a ∧ d_total d = sum_power (d_stakes d) ∧ d_self d = sum_power_of a (d_stakes d) ∧
  Forall (λ s, s_to s = a) (d_stakes d).

(* every stake hash occurs once among bonded and unbonding stakes *)
Definition hashes_unique (l : ledgers) : Prop :=
  NoDup (s_hash <$> (bonded_stakes l ++ frozen_stakes l)) ∧
  (∀ h s, frozen l !! h = Some s → s_hash s = h).

(* balances, powers and rewards stay inside the machine ranges *)
Definition ranges_ok (l : ledgers) : Prop :=
  (∀ a x, accts l !! a = Some x → 0 ≤ a_bal x < two256 ∧ 0 ≤ a_nonce x < two64) ∧
  (∀ s, s ∈ bonded_stakes l ++ frozen_stakes l → 0 ≤ s_power s < two63) ∧
  (∀ a r, rewards l !! a = Some r → 0 ≤ r_cumulated r < two256).

(* runs of the abstract application *)
Inductive sop :=
| SBegin (h : header)
| SDeliver (t : tx)
| SEnd
| SCommit.

Definition sstep (s : state) (o : sop) : state :=
  match o with
  | SBegin h => (begin_block s h).1
  | SDeliver t => (deliver s t).1
  | SEnd => (end_block s).1
  | SCommit => commit s
  end.
Definition srun (s : state) (ops : list sop) : state := foldl sstep s ops.

(* did an operation answer without error / panic *)
Definition sstep_ok (s : state) (o : sop) : bool :=
  match o with
  | SBegin h => match (begin_block s h).2 with Ok _ => true | _ => false end
  | SDeliver t => true
  | SEnd => match (end_block s).2 with Ok _ => true | _ => false end
  | SCommit => true
  end.
