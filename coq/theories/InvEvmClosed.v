(* InvEvmClosed.v — the EVM-path theorems (C04, C16, C02) with the abstract contract about the
   observed effect replaced by the CHECKED boolean of EffectCheck.v.

   The harness evaluates [check_effects c] on every recorded history; [check_effects_sound] turns
   "the check returned []" into [effects_hold senders state0 (c_ops c)].  Here that fact is
   connected to the hypotheses under which the EVM-path theorems are stated:

   1  bridge                [sops_of]: the harness's operation list ([aop], AppRun.v) after its AInit
                            is a [sop] list; [arun_srun], [effects_hold_sops], [effects_hold_split]
   2  C04_checked           no (sender, nonce) pair succeeds twice in a checked history.
                            [hist_ok] of InvNonce.v asks for the nonce contract on EVERY EVM-path
                            delivery, also the failing ones, which the check does not look at
                            ([C04_checked_hist_ok_refuted]); [hist_ok'] asks for it on the successful
                            ones only and [nonce_used_once'] is the history theorem under it
   4  C16_evm_cost_checked  gas used, fee sum and the exact loss of the touched accounts
   3  C02_checked           C02_history_evm with [covered] derived from the check and [run_ok]
                            discharged by InvReach.run_ok_reachable
   5  examples              a one-block history with a contract creation on which the boolean check
                            evaluates to [] and the conclusions are instantiated *)
From Rigo Require Import Base.
From stdpp Require Import gmap sorting.
From Rigo Require Import Spec SpecProps AppRun InvFail InvNonce EffectCheck.
From Rigo Require InvFee InvSupply InvStake InvReach.
Local Open Scope Z_scope.

(* ================================================================== 1. aop lists and sop lists *)
Definition sop_of (o : aop) : option sop :=
  match o with
  | AInit _ => None
  | ABegin h => Some (SBegin h)
  | ADeliver t => Some (SDeliver t)
  | AEnd => Some SEnd
  | ACommit => Some SCommit
  end.
Definition sops_of (ops : list aop) : list sop := omap sop_of ops.

Definition not_init (o : aop) : bool := match o with AInit _ => false | _ => true end.
(* no (further) InitChain in the list *)
Definition no_init (ops : list aop) : Prop := forallb not_init ops = true.

Lemma no_init_cons o r : no_init (o :: r) ↔ not_init o = true ∧ no_init r.
Proof. unfold no_init. cbn [forallb]. rewrite andb_true_iff. reflexivity. Qed.

Lemma sops_of_cons o r : sops_of (o :: r) = match sop_of o with Some x => x :: sops_of r | None => sops_of r end.
Proof. reflexivity. Qed.

Lemma astate_sstep s o : not_init o = true → ∃ x, sop_of o = Some x ∧ astate s o = sstep s x.
Proof. destruct o as [g|h|t| |]; intros H; [discriminate H|..]; eexists; split; reflexivity. Qed.

Lemma arun_srun_from rest : no_init rest → ∀ s, foldl astate s rest = srun s (sops_of rest).
Proof.
  induction rest as [|o rest IH]; intros Hn s; [reflexivity|].
  apply no_init_cons in Hn as [Ho Hn]. destruct (astate_sstep s o Ho) as (x & Hx & Hs).
  rewrite sops_of_cons, Hx. cbn [foldl]. rewrite Hs. unfold srun. cbn [foldl]. apply (IH Hn).
Qed.

(* the state the model reaches on a case = the run of the sop list from the genesis state *)
Theorem arun_srun g rest :
  no_init rest → foldl astate state0 (AInit g :: rest) = srun (init_chain g) (sops_of rest).
Proof. intros Hn. cbn [foldl astate]. apply arun_srun_from. exact Hn. Qed.

(* the contract, as a condition on the steps of a sop run *)
Definition eff_ok (senders : list addr) (s : state) (o : sop) : Prop :=
  match o with SDeliver t => effect_contract senders s t | _ => True end.

Lemma effects_hold_sops_from senders rest : no_init rest → ∀ s,
  effects_hold senders s rest → run_ok (eff_ok senders) s (sops_of rest).
Proof.
  induction rest as [|o rest IH]; intros Hn s H; [exact I|].
  apply no_init_cons in Hn as [Ho Hn]. cbn [effects_hold] in H. destruct H as [H1 H2].
  destruct (astate_sstep s o Ho) as (x & Hx & Hs).
  rewrite sops_of_cons, Hx. cbn [run_ok]. split.
  - destruct o as [g|h|t| |]; [discriminate Ho|..]; injection Hx as <-; first [exact I | exact H1].
  - rewrite <- Hs. apply (IH Hn). exact H2.
Qed.

Theorem effects_hold_sops senders g rest :
  no_init rest → effects_hold senders state0 (AInit g :: rest) →
  run_ok (eff_ok senders) (init_chain g) (sops_of rest).
Proof. intros Hn [_ H]. apply effects_hold_sops_from; [exact Hn|exact H]. Qed.

Lemma run_ok_split P s pre o post : run_ok P s (pre ++ o :: post) → P (srun s pre) o.
Proof. intros H. apply run_ok_app in H as [_ H]. cbn [run_ok] in H. apply H. Qed.

(* every delivery of a checked history obeys the contract in the state it starts from *)
Theorem effects_hold_split senders g rest :
  no_init rest → effects_hold senders state0 (AInit g :: rest) →
  ∀ pre t post, sops_of rest = pre ++ SDeliver t :: post →
                effect_contract senders (srun (init_chain g) pre) t.
Proof.
  intros Hn H pre t post E. pose proof (effects_hold_sops senders g rest Hn H) as Hr.
  rewrite E in Hr. apply (run_ok_split _ _ _ _ _ Hr).
Qed.

(* the senders the check watches: every sender of a delivery of the list *)
Lemma senders_of_sops rest i t : sops_of rest !! i = Some (SDeliver t) → t_from t ∈ senders_of rest.
Proof.
  revert i. induction rest as [|o rest IH]; intros i H; [discriminate H|].
  unfold senders_of. cbn [omap]. fold (senders_of rest). rewrite sops_of_cons in H.
  destruct o as [g|h|t'| |]; cbn [sop_of] in H.
  - apply (IH i H).
  - destruct i as [|i]; [discriminate H|]. apply (IH i H).
  - destruct i as [|i]; [injection H as ->; apply elem_of_list_here|].
    apply elem_of_list_further. apply (IH i H).
  - destruct i as [|i]; [discriminate H|]. apply (IH i H).
  - destruct i as [|i]; [discriminate H|]. apply (IH i H).
Qed.

Lemma senders_of_init g rest : senders_of (AInit g :: rest) = senders_of rest.
Proof. reflexivity. Qed.

Lemma is_ok_delivered s t : is_ok (deliver s t).2 = true ↔ delivered s t.
Proof.
  unfold delivered. destruct (deliver s t).2 as [g|e|p]; cbn; split.
  - intros _. exists g. reflexivity.
  - reflexivity.
  - discriminate.
  - intros [g H]. discriminate.
  - discriminate.
  - intros [g H]. discriminate.
Qed.

Lemma run_ok_impl2 (P Q R : state → sop → Prop) :
  (∀ s o, P s o → Q s o → R s o) → ∀ ops s, run_ok P s ops → run_ok Q s ops → run_ok R s ops.
Proof.
  intros HPQ. induction ops as [|o ops IH]; intros s HP HQ; [exact I|].
  destruct HP as [HP1 HP2]. destruct HQ as [HQ1 HQ2]. split; [apply HPQ; assumption|].
  apply IH; assumption.
Qed.

(* ================================================================== 2. C04 on a checked history *)
(* no successful transaction of [a] carries the last nonce 2^64 - 1 (second clause of [hist_ok]) *)
Definition no_wrap (a : addr) (s : state) (o : sop) : Prop :=
  match o with
  | SDeliver t => t_from t = a → delivered s t → t_nonce t < two64 - 1
  | _ => True
  end.

(* [hist_ok] with the EVM nonce contract demanded of the SUCCESSFUL EVM-path deliveries only: a
   delivery that does not succeed changes no nonce whatever effect it carries
   (deliver_fail_nonce / deliver_panic_nonce need no hypothesis) *)
Definition hist_ok' (a : addr) (s : state) (o : sop) : Prop :=
  match o with
  | SDeliver t =>
      (evm_path s t = true → delivered s t → evm_effect_nonce_ok t ∧ evm_effect_mono_at a s t) ∧
      (t_from t = a → delivered s t → t_nonce t < two64 - 1)
  | _ => True
  end.

Lemma hist_ok_weaken a s o : hist_ok a s o → hist_ok' a s o.
Proof.
  destruct o as [hd|t| |]; try (intros _; exact I).
  intros [H1 H2]. split; [intros Hp _; apply H1; exact Hp|exact H2].
Qed.

Local Opaque two256 two255 two64 two63.

Lemma deliver_step_nonce' a s t :
  hist_ok' a s (SDeliver t) →
  nonce_of (work s) a ≤ nonce_of (work (deliver s t).1) a ∧
  (t_from t = a → delivered s t →
   nonce_of (work s) a = t_nonce t ∧ t_nonce t < nonce_of (work (deliver s t).1) a).
Proof.
  intros [Hevm Hwrap]. unfold delivered in *.
  destruct (deliver s t) as [s' r] eqn:Hd. cbn [fst snd] in *.
  destruct r as [g|e|p].
  2:{ rewrite (deliver_fail_nonce _ _ _ _ Hd). split; [lia|]. intros _ [g Hg]. discriminate. }
  2:{ rewrite (deliver_panic_nonce _ _ _ _ Hd). split; [lia|]. intros _ [g Hg]. discriminate. }
  destruct (evm_path s t) eqn:Hp.
  - destruct (Hevm eq_refl (ex_intro _ g eq_refl)) as [Hok Hmono].
    destruct (deliver_ok_nonce_step_evm _ _ _ _ Hp Hok Hd) as (Hn & Hn' & e & He & Hall).
    split.
    + rewrite Hall. destruct (eff_nonce (e_accts e) a) as [n|] eqn:En; cbn; [|lia].
      eapply Hmono; eassumption.
    + intros <- Hdel. split; [exact Hn|]. rewrite Hn'. apply nonce_succ_gt. apply Hwrap; [reflexivity|exact Hdel].
  - pose proof (deliver_ok_nonce _ _ _ _ Hd) as Hn.
    pose proof (deliver_native_ok_nc _ _ _ _ Hp Hd a) as Hnc.
    destruct (decide (a = t_from t)) as [->|Hne].
    + assert (Hn' : nonce_of (work s') (t_from t) = (t_nonce t + 1) mod two64)
        by (unfold nc_of, nc in Hnc; unfold nonce_of; congruence).
      assert (Hlt : t_nonce t < (t_nonce t + 1) mod two64)
        by (apply nonce_succ_gt, Hwrap; [reflexivity|exists g; reflexivity]).
      split; [lia|]. intros _ _. split; [exact Hn|lia].
    + assert (Hn' : nonce_of (work s') a = nonce_of (work s) a)
        by (unfold nc_of, nc in Hnc; unfold nonce_of; congruence).
      split; [lia|]. intros E. congruence.
Qed.

Lemma step_mono' a s o : hist_ok' a s o → nonce_of (work s) a ≤ nonce_of (work (sstep s o)) a.
Proof.
  intros H. destruct o as [hd|t| |].
  - cbn [sstep]. rewrite begin_block_nonce. lia.
  - apply deliver_step_nonce'. exact H.
  - cbn [sstep]. rewrite end_block_nonce. lia.
  - cbn [sstep]. rewrite commit_nonce. lia.
Qed.

Lemma run_mono' a ops : ∀ s, run_ok (hist_ok' a) s ops → nonce_of (work s) a ≤ nonce_of (work (srun s ops)) a.
Proof.
  induction ops as [|o ops IH]; intros s H; [unfold srun; cbn; lia|].
  destruct H as [Ho Hr]. apply step_mono' in Ho. specialize (IH _ Hr).
  unfold srun in *. cbn [foldl]. lia.
Qed.

(* [nonce_used_once] under the weaker per-step hypothesis *)
Theorem nonce_used_once' s0 ops i j t1 t2 :
  run_ok (hist_ok' (t_from t1)) s0 ops →
  (i < j)%nat → ops !! i = Some (SDeliver t1) → ops !! j = Some (SDeliver t2) →
  delivered (srun s0 (take i ops)) t1 → delivered (srun s0 (take j ops)) t2 →
  t_from t2 = t_from t1 → t_nonce t2 = t_nonce t1 → False.
Proof.
  intros Hrun Hij Hi Hj Hd1 Hd2 Hfrom Hnonce.
  set (a := t_from t1) in *.
  assert (Hsplit : take j ops = take i ops ++ SDeliver t1 :: drop (S i) (take j ops)).
  { assert (Hl : take j ops !! i = Some (SDeliver t1)) by (rewrite lookup_take by exact Hij; exact Hi).
    rewrite <- (take_drop_middle _ _ _ Hl) at 1. rewrite take_take. rewrite Nat.min_l by lia. reflexivity. }
  set (mid := drop (S i) (take j ops)) in *.
  assert (Hops : ops = take i ops ++ SDeliver t1 :: mid ++ SDeliver t2 :: drop (S j) ops).
  { rewrite <- (take_drop_middle _ _ _ Hj) at 1. rewrite Hsplit. rewrite <- app_assoc. reflexivity. }
  rewrite Hops in Hrun.
  apply run_ok_app in Hrun as [_ Hrun]. set (si := srun s0 (take i ops)) in *.
  cbn [run_ok] in Hrun. destruct Hrun as [H1 Hrun].
  apply run_ok_app in Hrun as [Hmid Hrun]. cbn [run_ok] in Hrun. destruct Hrun as [H2 _].
  assert (Hsj : srun s0 (take j ops) = srun (sstep si (SDeliver t1)) mid).
  { rewrite Hsplit, srun_app. reflexivity. }
  rewrite Hsj in Hd2. set (sj := srun (sstep si (SDeliver t1)) mid) in *.
  destruct (deliver_step_nonce' a si t1 H1) as [_ Hs1]. destruct (Hs1 eq_refl Hd1) as [Hn1 Hgt].
  apply run_mono' in Hmid. fold sj in Hmid.
  destruct (deliver_step_nonce' a sj t2 H2) as [_ Hs2]. destruct (Hs2 Hfrom Hd2) as [Hn2 _].
  cbn [sstep] in Hmid. lia.
Qed.
Print Assumptions nonce_used_once'.

(* the checked contract gives [hist_ok'] for every watched sender *)
Lemma eff_ok_hist_ok' senders a s o : a ∈ senders → eff_ok senders s o → no_wrap a s o → hist_ok' a s o.
Proof.
  intros Ha. destruct o as [hd|t| |]; try (intros _ _; exact I).
  cbn [eff_ok no_wrap hist_ok']. intros Hc Hw. split; [|exact Hw].
  intros Hp Hd. apply is_ok_delivered in Hd. destruct (Hc Hp Hd) as (_ & Hn & Hm).
  split; [exact Hn|apply Hm; exact Ha].
Qed.

Theorem C04_checked_run_ok' g rest senders a :
  no_init rest → effects_hold senders state0 (AInit g :: rest) →
  a ∈ senders → run_ok (no_wrap a) (init_chain g) (sops_of rest) →
  run_ok (hist_ok' a) (init_chain g) (sops_of rest).
Proof.
  intros Hn He Ha Hw.
  apply (run_ok_impl2 (eff_ok senders) (no_wrap a)); [|apply effects_hold_sops; assumption|exact Hw].
  intros s o. apply eff_ok_hist_ok'. exact Ha.
Qed.

(* C04 on a checked history: the check passed ([effects_hold], from [check_effects c = []]), the
   sender is one the check watches, no successful transaction of that sender carries the last
   nonce: then no two deliveries with its address and the same nonce both succeed *)
Theorem C04_checked g rest senders i j t1 t2 :
  no_init rest → effects_hold senders state0 (AInit g :: rest) →
  t_from t1 ∈ senders →
  run_ok (no_wrap (t_from t1)) (init_chain g) (sops_of rest) →
  (i < j)%nat → sops_of rest !! i = Some (SDeliver t1) → sops_of rest !! j = Some (SDeliver t2) →
  delivered (srun (init_chain g) (take i (sops_of rest))) t1 →
  delivered (srun (init_chain g) (take j (sops_of rest))) t2 →
  t_from t2 = t_from t1 → t_nonce t2 = t_nonce t1 → False.
Proof.
  intros Hn He Ha Hw. apply nonce_used_once'. apply (C04_checked_run_ok' g rest senders); assumption.
Qed.
Print Assumptions C04_checked.

(* the same from the verdict of the check on a recorded case: the watched senders are all senders
   of the case, so nothing is asked about them *)
Theorem C04_checked_case c g rest i j t1 t2 :
  c_ops c = AInit g :: rest → no_init rest → check_effects c = [] →
  run_ok (no_wrap (t_from t1)) (init_chain g) (sops_of rest) →
  (i < j)%nat → sops_of rest !! i = Some (SDeliver t1) → sops_of rest !! j = Some (SDeliver t2) →
  delivered (srun (init_chain g) (take i (sops_of rest))) t1 →
  delivered (srun (init_chain g) (take j (sops_of rest))) t2 →
  t_from t2 = t_from t1 → t_nonce t2 = t_nonce t1 → False.
Proof.
  intros Hc Hn Hchk Hw Hij Hi. apply check_effects_sound in Hchk. rewrite Hc in Hchk.
  apply (C04_checked g rest (senders_of (AInit g :: rest)) i j t1 t2 Hn Hchk); [|exact Hw|exact Hij|exact Hi].
  rewrite senders_of_init. apply (senders_of_sops rest i t1 Hi).
Qed.
Print Assumptions C04_checked_case.

(* an input-only form of the no-wrap hypothesis *)
Definition nonce_below_last (a : addr) (o : sop) : Prop :=
  match o with SDeliver t => t_from t = a → t_nonce t < two64 - 1 | _ => True end.
Lemma no_wrap_inputs a ops : Forall (nonce_below_last a) ops → ∀ s, run_ok (no_wrap a) s ops.
Proof.
  induction 1 as [|o ops Ho _ IH]; intros s; [exact I|]. split; [|apply IH].
  destruct o as [hd|t| |]; try exact I. intros E _. apply Ho. exact E.
Qed.

(* ================================================================== 4. C16 on a checked history *)
Lemma evm_path_of_eq s t : InvFee.evm_path_of t (acct_of (work s) (t_to t)) = evm_path s t.
Proof. unfold InvFee.evm_path_of. rewrite evm_path_spec. reflexivity. Qed.

Lemma native_evm_path s t : InvFee.native s t ↔ evm_path s t = false.
Proof. unfold InvFee.native. rewrite evm_path_of_eq. reflexivity. Qed.

Lemma not_native_evm_path s t : ¬ InvFee.native s t ↔ evm_path s t = true.
Proof. rewrite native_evm_path. destruct (evm_path s t); split; congruence. Qed.

Definition eff_addr (x : addr * Z * Z) : addr := x.1.1.

(* balances after writing an effect whose addresses are listed once *)
Lemma evm_fold_bal xs : ∀ l, NoDup (eff_addr <$> xs) →
  (∀ x, x ∈ xs → bal_of (foldl InvSupply.evm_write l xs) (eff_addr x) = x.1.2) ∧
  (∀ a, a ∉ eff_addr <$> xs → bal_of (foldl InvSupply.evm_write l xs) a = bal_of l a).
Proof.
  induction xs as [|[[a0 b0] n0] xs IH]; intros l Hnd.
  - split; [intros x Hx; inversion Hx|reflexivity].
  - rewrite fmap_cons in Hnd. apply NoDup_cons in Hnd as [Hnotin Hnd]. cbn [eff_addr fst snd] in Hnotin.
    cbn [foldl]. destruct (IH (InvSupply.evm_write l (a0, b0, n0)) Hnd) as [IH1 IH2]. split.
    + intros x Hx. apply elem_of_cons in Hx as [->|Hx]; [|apply IH1; exact Hx].
      cbn [eff_addr fst snd]. rewrite IH2 by exact Hnotin.
      unfold InvSupply.evm_write. rewrite InvFee.bal_of_set_acct. rewrite decide_True by reflexivity. reflexivity.
    + intros a Ha. rewrite fmap_cons in Ha. apply not_elem_of_cons in Ha as [Hne Ha]. cbn [eff_addr fst snd] in Hne.
      rewrite IH2 by exact Ha. unfold InvSupply.evm_write. rewrite InvFee.bal_of_set_acct.
      rewrite decide_False by congruence. reflexivity.
Qed.

(* every balance after a successful EVM-path delivery: the touched accounts hold what the effect
   says, nobody else's balance moves *)
Lemma deliver_evm_balances s t s' g e :
  deliver s t = (s', Ok g) → ¬ InvFee.native s t → t_evm t = Some e → NoDup (eff_addr <$> e_accts e) →
  (∀ x, x ∈ e_accts e → bal_of (work s') (eff_addr x) = x.1.2) ∧
  (∀ a, a ∉ eff_addr <$> e_accts e → bal_of (work s') a = bal_of (work s) a).
Proof.
  intros Hd Hn Hevm Hnd.
  apply InvFee.deliver_ok_inv in Hd as (sender & lim' & _ & _ & _ & _ & Hd). cbv zeta in Hd.
  rewrite InvFee.receiver_of_eq in Hd. unfold InvFee.native in Hn.
  destruct (InvFee.evm_path_of t (acct_of (work s) (t_to t))); [|contradiction Hn; reflexivity].
  destruct Hd as (l' & He & ->). cbn [work with_bctx with_work] in *.
  change (work (with_lim (InvFee.pre_state s t) lim')) with ((find_or_new (work s) (t_to t)).1) in He.
  unfold evm_execute in He. rewrite Hevm in He. destruct (e_ok e); [|discriminate]. cbn [negb] in He.
  set (l0 := (find_or_new (work s) (t_to t)).1) in *.
  change (foldl _ l0 (e_accts e)) with (foldl InvSupply.evm_write l0 (e_accts e)) in He.
  destruct (evm_fold_bal (e_accts e) l0 Hnd) as (H1 & H2).
  set (l1 := foldl InvSupply.evm_write l0 (e_accts e)) in *.
  assert (Hc : ∀ a, bal_of l' a = bal_of l1 a).
  { destruct (e_created e) as [c|]; injection He as <- _; intros a; [|reflexivity].
    rewrite InvFee.bal_of_set_acct. destruct (decide (c = a)) as [->|_]; reflexivity. }
  split.
  - intros x Hx. rewrite Hc. apply H1. exact Hx.
  - intros a Ha. rewrite Hc, (H2 a Ha). unfold l0. apply InvFee.bal_of_find_or_new.
Qed.

Lemma sumZ_with_fmap {A B} (f : B → Z) (h : A → B) l : sumZ_with f (h <$> l) = sumZ_with (λ x, f (h x)) l.
Proof.
  induction l as [|x l IH]; [reflexivity|]. rewrite fmap_cons. cbn [sumZ_with foldr].
  fold (sumZ_with f (h <$> l)). fold (sumZ_with (λ x, f (h x)) l). rewrite IH. reflexivity.
Qed.

(* C16 on the EVM path of a checked history.  A delivery of the history that takes the EVM path
   and succeeds with gas [gas]: gas used is within the limit, the fee sum grows by gas x price, and
   the touched accounts (listed once) lose in total exactly gas x price + burn with burn >= 0;
   no other balance moves *)
Theorem C16_evm_cost_checked g rest senders pre t post s s' gas :
  no_init rest → effects_hold senders state0 (AInit g :: rest) →
  sops_of rest = pre ++ SDeliver t :: post → s = srun (init_chain g) pre →
  deliver s t = (s', Ok gas) → ¬ InvFee.native s t →
  ∃ e burn,
    t_evm t = Some e ∧ e_ok e = true ∧ gas = e_gas e ∧ 0 ≤ gas ≤ t_gas t ∧
    b_feesum (bctx s') = add256 (b_feesum (bctx s)) (mul256 gas (g_gasPrice (gparams s))) ∧
    0 ≤ burn ∧ NoDup (eff_addr <$> e_accts e) ∧
    sumZ_with (λ a, bal_of (work s) a - bal_of (work s') a) (eff_addr <$> e_accts e)
      = gas * g_gasPrice (gparams s) + burn ∧
    (∀ a, a ∉ eff_addr <$> e_accts e → bal_of (work s') a = bal_of (work s) a).
Proof.
  intros Hn Heff Hsplit -> Hd Hnat.
  pose proof (effects_hold_split senders g rest Hn Heff pre t post Hsplit) as Hc.
  set (s := srun (init_chain g) pre) in *.
  assert (Hok : is_ok (deliver s t).2 = true) by (rewrite Hd; reflexivity).
  destruct (Hc (proj1 (not_native_evm_path s t) Hnat) Hok) as ((e & burn & He & Hfee) & _ & _).
  destruct (InvFee.deliver_evm_gas _ _ _ _ Hd Hnat) as (e' & He' & Heok & Hg & Hfs & Hrange).
  rewrite He in He'. injection He' as <-.
  pose proof (Hrange burn Hfee) as Hgr.
  destruct Hfee as (Hnd & _ & _ & Hburn & Hsum).
  change (NoDup (eff_addr <$> e_accts e)) in Hnd.
  destruct (deliver_evm_balances _ _ _ _ _ Hd Hnat He Hnd) as (Hb1 & Hb2).
  exists e, burn. split; [exact He|]. split; [exact Heok|]. split; [exact Hg|]. split; [exact Hgr|].
  split; [rewrite Hg; exact Hfs|]. split; [exact Hburn|]. split; [exact Hnd|]. split; [|exact Hb2].
  rewrite sumZ_with_fmap.
  rewrite (InvSupply.sumZ_with_ext _ (λ x : addr * Z * Z, (-1) * (x.1.2 - bal_of (work s) x.1.1))).
  - rewrite InvSupply.sumZ_with_scale, Hsum, Hg. lia.
  - intros x Hx. rewrite (Hb1 x Hx). unfold eff_addr. lia.
Qed.
Print Assumptions C16_evm_cost_checked.

(* ================================================================== 3. C02 on a checked history *)
(* delivered transactions carry Go-typed fields (the [tx_wf] / [payload_wf] part of [covered]);
   unlike [txs_ok] nothing is asked about [t_evm] *)
Definition tx_typed (o : sop) : Prop :=
  match o with SDeliver t => tx_wf t ∧ InvFee.payload_wf t | _ => True end.
Definition txs_typed (ops : list sop) : Prop := Forall tx_typed ops.

(* the burn the boolean contract finds is the one the history theorem accounts *)
Lemma checked_burn s t e burn :
  evm_path s t = true → t_evm t = Some e →
  InvFee.evm_effect_fee_ok (work s) t (g_gasPrice (gparams s)) e burn → burn = InvSupply.evm_burn s t.
Proof.
  intros Hp He (_ & _ & _ & _ & Hsum). unfold InvSupply.evm_burn. rewrite evm_path_of_eq, Hp, He. lia.
Qed.

(* a SUCCESSFUL delivery that obeys the checked contract is covered by the history theorem *)
Lemma checked_covered senders s t :
  tx_wf t → InvFee.payload_wf t → effect_contract senders s t → delivered s t → InvSupply.deliver_covered s t.
Proof.
  intros Hwf Hpl Hc Hd. split; [exact Hwf|]. split; [exact Hpl|].
  destruct (evm_path s t) eqn:Hp.
  - right. right. apply is_ok_delivered in Hd. destruct (Hc Hp Hd) as ((e & burn & He & Hfee) & _ & _).
    exists e. split; [exact He|]. rewrite <- (checked_burn s t e burn Hp He Hfee). exact Hfee.
  - left. apply native_evm_path. exact Hp.
Qed.

Lemma hist_stepE_checked S0 senders s p gh o s' p' gh' :
  InvSupply.hstepE (s, p, gh) o = Some (s', p', gh') → InvSupply.run_ok s →
  tx_typed o → eff_ok senders s o →
  InvSupply.hist_inv S0 (s, p, gh) → S0 + InvSupply.gh_withdrawn gh' < InvSupply.supply_bound →
  InvSupply.hist_inv S0 (s', p', gh').
Proof.
  intros Hst Hok Hty Hc Hinv Hb.
  destruct o as [hd|t| |].
  1,3,4: apply (InvSupply.hist_stepE S0 _ _ _ _ _ _ _ Hst Hok I Hinv Hb).
  destruct Hty as [Hwf Hpl]. cbn [eff_ok] in Hc.
  destruct (deliver s t) as [s1 r] eqn:Ed. destruct r as [x|e|pp].
  - apply (InvSupply.hist_stepE S0 _ _ _ _ _ _ _ Hst Hok); [|exact Hinv|exact Hb].
    apply (checked_covered senders); try assumption. exists x. rewrite Ed. reflexivity.
  - destruct p; try discriminate Hst. unfold InvSupply.hstepE in Hst. rewrite Ed in Hst.
    injection Hst as <- <- <-.
    apply (InvSupply.hist_step_deliver_fail _ _ _ _ _ _ Ed); try assumption. intros g0; discriminate.
  - destruct p; try discriminate Hst. unfold InvSupply.hstepE in Hst. rewrite Ed in Hst.
    injection Hst as <- <- <-.
    apply (InvSupply.hist_step_deliver_fail _ _ _ _ _ _ Ed); try assumption. intros g0; discriminate.
Qed.

Lemma hrunE_withdrawn_mono' ops : ∀ s p gh s' p' gh',
  InvSupply.hrunE (s, p, gh) ops = Some (s', p', gh') → txs_typed ops →
  InvSupply.gh_withdrawn gh ≤ InvSupply.gh_withdrawn gh'.
Proof.
  induction ops as [|o ops IH]; intros s p gh s' p' gh'; cbn [InvSupply.hrunE].
  - intros [= _ _ <-] _. lia.
  - destruct (InvSupply.hstepE (s, p, gh) o) as [[[s1 p1] gh1]|] eqn:E; [|discriminate].
    intros H Htx. apply Forall_cons in Htx as (Ho & Htx).
    assert (H1 : InvSupply.gh_withdrawn gh ≤ InvSupply.gh_withdrawn gh1).
    { apply (InvSupply.hstepE_withdrawn_mono _ _ _ _ _ _ _ E). destruct o; try exact I. apply Ho. }
    pose proof (IH _ _ _ _ _ _ H Htx) as H2. lia.
Qed.

Lemma hist_runE_checked S0 senders ops : ∀ s p gh s' p' gh',
  InvSupply.hrunE (s, p, gh) ops = Some (s', p', gh') → InvSupply.along InvSupply.run_ok s ops →
  txs_typed ops → run_ok (eff_ok senders) s ops →
  InvSupply.hist_inv S0 (s, p, gh) → S0 + InvSupply.gh_withdrawn gh' < InvSupply.supply_bound →
  InvSupply.hist_inv S0 (s', p', gh').
Proof.
  induction ops as [|o ops IH]; intros s p gh s' p' gh'; cbn [InvSupply.hrunE InvSupply.along run_ok].
  - intros [= <- <- <-] _ _ _ Hinv _. exact Hinv.
  - destruct (InvSupply.hstepE (s, p, gh) o) as [[[s1 p1] gh1]|] eqn:E; [|discriminate].
    intros H (Hok & Hal) Htx (Hc & Hcs) Hinv Hbound. apply Forall_cons in Htx as (Ho & Htx).
    pose proof (InvSupply.hstepE_sstep _ _ _ _ _ _ _ E) as Hs1. subst s1.
    pose proof (hrunE_withdrawn_mono' _ _ _ _ _ _ _ H Htx) as Hmono.
    apply (IH _ _ _ _ _ _ H Hal Htx Hcs); [|exact Hbound].
    apply (hist_stepE_checked S0 senders _ _ _ _ _ _ _ E Hok Ho Hc Hinv). lia.
Qed.

(* C02_history_evm with [covered] replaced by: the check passed on this history, and the delivered
   transactions carry Go-typed fields.  [run_ok] at the prefixes is kept here; [C02_checked] below
   discharges it. *)
Theorem C02_checked_run g rest senders s p gh :
  no_init rest → effects_hold senders state0 (AInit g :: rest) →
  InvSupply.hrunE (init_chain g, InvSupply.PIdle, InvSupply.ghost0) (sops_of rest) = Some (s, p, gh) →
  (∀ pre, pre `prefix_of` sops_of rest → InvSupply.run_ok (srun (init_chain g) pre)) →
  txs_typed (sops_of rest) →
  InvFee.bal_range (work (init_chain g)) →
  supply (work (init_chain g)) + InvSupply.gh_withdrawn gh < InvSupply.supply_bound →
  s = srun (init_chain g) (sops_of rest) ∧
  InvSupply.C02_equation g s p gh ∧
  InvFee.bal_range (work s) ∧
  (∀ a, 0 ≤ bal_of (work s) a < InvSupply.supply_bound) ∧
  0 ≤ InvSupply.gh_withdrawn gh ∧ 0 ≤ InvSupply.gh_slashed gh ∧ 0 ≤ InvSupply.gh_burned gh.
Proof.
  intros Hn Heff Hrun Hok Htx Hr0 Hbound.
  pose proof (effects_hold_sops senders g rest Hn Heff) as Hc.
  set (ops := sops_of rest) in *.
  split; [apply (InvSupply.hrunE_srun _ _ _ _ _ _ _ Hrun)|].
  assert (Hinv0 : InvSupply.hist_inv (supply (work (init_chain g))) (init_chain g, InvSupply.PIdle, InvSupply.ghost0)).
  { cbn [InvSupply.hist_inv InvSupply.pending InvSupply.ghost0 InvSupply.gh_withdrawn InvSupply.gh_slashed InvSupply.gh_burned].
    split; [lia|]. split; [exact Hr0|]. split; [lia|]. split; [lia|]. split; [lia|]. split; [discriminate|].
    destruct (InvSupply.init_chain_frozen g) as (Hf & Hcm). unfold base_of. rewrite Hcm, Hf. reflexivity. }
  pose proof (hist_runE_checked _ senders _ _ _ _ _ _ _ Hrun (InvSupply.along_prefixes _ _ _ Hok) Htx Hc Hinv0 Hbound) as Hinv.
  assert (Hpw : InvSupply.powers_ok (work s)).
  { pose proof (InvSupply.hrunE_srun _ _ _ _ _ _ _ Hrun) as ->. apply (Hok ops). reflexivity. }
  destruct (InvSupply.hist_inv_bal _ _ _ _ (InvSupply.gh_withdrawn gh) Hinv Hpw ltac:(lia)) as (_ & _ & _ & Hbal).
  destruct Hinv as (Heq & Hr & Hw & Hsl & Hbn & _).
  split; [exact Heq|]. split; [exact Hr|]. split; [intros a; specialize (Hbal a); lia|]. auto.
Qed.
Print Assumptions C02_checked_run.

(* ... and with the hypothesis about the run discharged (InvReach.run_ok_reachable needs nothing of
   [t_evm]): every remaining hypothesis is about the inputs -- the genesis document, the staking
   hashes, the parameter documents, Go-typed transaction fields -- plus the verdict of the check and
   the bound on the total ever minted *)
Theorem C02_checked g rest senders s p gh :
  no_init rest → effects_hold senders state0 (AInit g :: rest) →
  InvSupply.hrunE (init_chain g, InvSupply.PIdle, InvSupply.ghost0) (sops_of rest) = Some (s, p, gh) →
  InvReach.genesis_ok g → InvReach.hashes_fresh (sops_of rest) → InvReach.opts_ok (sops_of rest) →
  txs_typed (sops_of rest) →
  supply (work (init_chain g)) + InvSupply.gh_withdrawn gh < InvSupply.supply_bound →
  s = srun (init_chain g) (sops_of rest) ∧
  InvSupply.C02_equation g s p gh ∧
  InvFee.bal_range (work s) ∧
  (∀ a, 0 ≤ bal_of (work s) a < InvSupply.supply_bound) ∧
  0 ≤ InvSupply.gh_withdrawn gh ∧ 0 ≤ InvSupply.gh_slashed gh ∧ 0 ≤ InvSupply.gh_burned gh.
Proof.
  intros Hn Heff Hrun Hg Hh Ho Htx Hbound.
  apply (C02_checked_run g rest senders s p gh Hn Heff Hrun); [|exact Htx| |exact Hbound].
  - apply InvReach.run_ok_reachable; [exact Hg| |exact Ho]. apply InvReach.fresh_run_reachable. exact Hh.
  - apply InvReach.init_chain_bal_range. apply Hg.
Qed.
Print Assumptions C02_checked.

(* ================================================================== 5. examples: the hypotheses are satisfiable *)
(* a recorded case of one block: a contract creation (InvNonce.tx_evm: 60000 gas at price 10, the
   sender's nonce 0 -> 1, contract account 99 created), the same transaction replayed, EndBlock, Commit *)
Definition ex_hd1 : header := {| h_height := 1; h_proposer := Some 1%N; h_votes := []; h_evidence := [] |}.
Definition ex_rest : list aop := [ABegin ex_hd1; ADeliver tx_evm; ADeliver tx_evm; AEnd; ACommit].
Definition ex_case : acase := {| c_wa := []; c_wh := []; c_ops := AInit gen0 :: ex_rest; c_obs := [] |}.
Definition ex_s1 : state := srun (init_chain gen0) [SBegin ex_hd1].

Lemma ex_check : check_effects ex_case = [].
Proof. vm_compute. reflexivity. Qed.

(* the check does look at an effect in this case: one successful EVM-path delivery *)
Lemma ex_count : count_effects [ex_case] = 1.
Proof. vm_compute. reflexivity. Qed.

Lemma ex_effects_hold : effects_hold (senders_of (AInit gen0 :: ex_rest)) state0 (AInit gen0 :: ex_rest).
Proof. apply (check_effects_sound ex_case). exact ex_check. Qed.

Lemma ex_no_init : no_init ex_rest.
Proof. reflexivity. Qed.

Lemma ex_sops : sops_of ex_rest = [SBegin ex_hd1; SDeliver tx_evm; SDeliver tx_evm; SEnd; SCommit].
Proof. reflexivity. Qed.

Lemma ex_evm_path : evm_path ex_s1 tx_evm = true.
Proof. reflexivity. Qed.

(* C04: the first delivery succeeds, hence (by the theorem) the replay does not *)
Example C04_checked_example :
  check_effects ex_case = [] ∧
  evm_path (srun (init_chain gen0) (take 1 (sops_of ex_rest))) tx_evm = true ∧
  delivered (srun (init_chain gen0) (take 1 (sops_of ex_rest))) tx_evm ∧
  ¬ delivered (srun (init_chain gen0) (take 2 (sops_of ex_rest))) tx_evm.
Proof.
  split; [exact ex_check|]. split; [reflexivity|].
  assert (Hd1 : delivered (srun (init_chain gen0) (take 1 (sops_of ex_rest))) tx_evm).
  { exists 60000. vm_compute. reflexivity. }
  split; [exact Hd1|]. intros Hd2.
  apply (C04_checked_case ex_case gen0 ex_rest 1 2 tx_evm tx_evm eq_refl ex_no_init ex_check); try reflexivity;
    try assumption; [|lia].
  apply no_wrap_inputs. rewrite ex_sops.
  repeat (apply Forall_cons; split; [first [exact I | intros _; vm_compute; reflexivity]|]). apply Forall_nil. exact I.
Qed.

(* C16: the conclusion of the theorem for the contract creation *)
Example C16_evm_cost_checked_example :
  check_effects ex_case = [] ∧
  ∃ s' e burn,
    deliver ex_s1 tx_evm = (s', Ok 60000) ∧ ¬ InvFee.native ex_s1 tx_evm ∧
    t_evm tx_evm = Some e ∧ 0 ≤ 60000 ≤ t_gas tx_evm ∧
    b_feesum (bctx s') = add256 (b_feesum (bctx ex_s1)) (mul256 60000 (g_gasPrice (gparams ex_s1))) ∧
    0 ≤ burn ∧
    sumZ_with (λ a, bal_of (work ex_s1) a - bal_of (work s') a) (eff_addr <$> e_accts e)
      = 60000 * g_gasPrice (gparams ex_s1) + burn.
Proof.
  split; [exact ex_check|].
  assert (Hr : (deliver ex_s1 tx_evm).2 = Ok 60000) by (vm_compute; reflexivity).
  destruct (deliver ex_s1 tx_evm) as [s' r] eqn:Ed. cbn [snd] in Hr. subst r.
  assert (Hnat : ¬ InvFee.native ex_s1 tx_evm) by (apply not_native_evm_path; exact ex_evm_path).
  destruct (C16_evm_cost_checked gen0 ex_rest _ [SBegin ex_hd1] tx_evm [SDeliver tx_evm; SEnd; SCommit] ex_s1 s' 60000
              ex_no_init ex_effects_hold eq_refl eq_refl Ed Hnat)
    as (e & burn & He & _ & _ & Hg & Hfs & Hb & _ & Hsum & _).
  exists s', e, burn. auto 10.
Qed.

(* C02: the list is a history, it ends idle with nothing withdrawn, slashed or burnt, and the
   theorem gives: the supply after the block is the genesis supply *)
Lemma ex_genesis_ok : InvReach.genesis_ok gen0.
Proof.
  split; [exact pr0_ok|]. split; [cbn; lia|].
  split; repeat (apply Forall_cons; split; [InvFee.zclosed|]); apply Forall_nil; exact I.
Qed.

Lemma ex_tx_wf : tx_wf tx_evm.
Proof. InvFee.zclosed. Qed.

Example C02_checked_example :
  check_effects ex_case = [] ∧
  ∃ s, InvSupply.hrunE (init_chain gen0, InvSupply.PIdle, InvSupply.ghost0) (sops_of ex_rest)
         = Some (s, InvSupply.PIdle, InvSupply.ghost0) ∧
       s = srun (init_chain gen0) (sops_of ex_rest) ∧
       supply (work s) = supply (work (init_chain gen0)) ∧
       (∀ a, 0 ≤ bal_of (work s) a < InvSupply.supply_bound).
Proof.
  split; [exact ex_check|].
  assert (H : match InvSupply.hrunE (init_chain gen0, InvSupply.PIdle, InvSupply.ghost0) (sops_of ex_rest) with
              | Some (_, p, gh) => Some (p, gh) | None => None end = Some (InvSupply.PIdle, InvSupply.ghost0))
    by (vm_compute; reflexivity).
  destruct (InvSupply.hrunE _ (sops_of ex_rest)) as [[[s p] gh]|] eqn:E; [|discriminate H].
  injection H as -> ->. exists s. split; [reflexivity|].
  destruct (C02_checked gen0 ex_rest _ s InvSupply.PIdle InvSupply.ghost0 ex_no_init ex_effects_hold E ex_genesis_ok)
    as (Hs & Heq & _ & Hbal & _).
  - rewrite ex_sops. unfold InvReach.hashes_fresh. cbn. apply NoDup_singleton.
  - rewrite ex_sops.
    repeat (apply Forall_cons; split; [first [exact I | intros Hty; discriminate Hty]|]). apply Forall_nil. exact I.
  - rewrite ex_sops.
    repeat (apply Forall_cons; split;
            [first [exact I | split; [exact ex_tx_wf|intros req Hty; discriminate Hty]]|]).
    apply Forall_nil. exact I.
  - vm_compute. reflexivity.
  - split; [exact Hs|]. split; [|exact Hbal].
    unfold InvSupply.C02_equation in Heq.
    cbn [InvSupply.pending InvSupply.ghost0 InvSupply.gh_withdrawn InvSupply.gh_slashed InvSupply.gh_burned] in Heq. lia.
Qed.

(* ================================================================== the literal target of item 2 is false *)
(* "the check passed, so [run_ok (hist_ok a)] holds" fails: [hist_ok] asks for the nonce contract
   of every EVM-path delivery, the check (rightly) looks at the successful ones only.  A contract
   transaction with a stale nonce fails at validation and changes nothing, whatever effect record
   it carries; here the record says "sender's nonce := 1" for a transaction of nonce 5. *)
Definition tx_evm_stale : tx := {|
  t_type := TRX_CONTRACT; t_from := 2%N; t_to := 0%N; t_from_ok := true; t_to_ok := true; t_amount := 0;
  t_price := 10; t_gas := 100000; t_nonce := 5; t_payload := PContract 53000; t_hash := 79%N; t_sigok := true;
  t_evm := Some {| e_ok := true; e_gas := 60000; e_created := Some 99%N;
                   e_accts := [(2%N, 500 * amountPerPower - 600000, 1); (99%N, 0, 1)] |} |}.

Theorem C04_checked_hist_ok_refuted : ∃ g rest senders t1,
  no_init rest ∧ effects_hold senders state0 (AInit g :: rest) ∧ t_from t1 ∈ senders ∧
  run_ok (no_wrap (t_from t1)) (init_chain g) (sops_of rest) ∧
  ¬ run_ok (hist_ok (t_from t1)) (init_chain g) (sops_of rest).
Proof.
  exists gen0, [ABegin ex_hd1; ADeliver tx_evm_stale], [2%N], tx_evm_stale.
  split; [reflexivity|]. split.
  { apply (check_effects_from_sound [2%N] _ state0 0%nat). vm_compute. reflexivity. }
  split; [apply elem_of_list_here|]. split.
  { apply no_wrap_inputs. repeat (apply Forall_cons; split; [first [exact I | intros _; vm_compute; reflexivity]|]).
    apply Forall_nil. exact I. }
  intros [_ [[H _] _]]. destruct (H eq_refl) as [Hn _].
  specialize (Hn _ eq_refl). vm_compute in Hn. discriminate Hn.
Qed.
Print Assumptions C04_checked_hist_ok_refuted.

Print Assumptions C04_checked_example.
Print Assumptions C16_evm_cost_checked_example.
Print Assumptions C02_checked_example.
