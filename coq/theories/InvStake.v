(* InvStake.v — properties C11 (stake bookkeeping) and C12 (release / refund rules) of Spec.v.

   C11 (A)  dels_ok_reachable, C11_sums_at_every_height, total_power_query: every delegatee of every
            reachable working state and of every committed version has total = sum of its stakes,
            self = sum of its owner's stakes, all stakes pointing to it; the query equals the sum.
       (B1) hashes_unique_run / hashes_unique_reachable: stake hashes stay unique as long as executed
            staking transactions carry fresh hashes; true from genesis with at most one validator.
       (B2) C11_collision_refuted: with two genesis validators (both stakes carry hash 0) both
            releasing in one block, one stake ends in neither ledger and is never refunded.
       (B3) stake_unchanged_step, stake_begin_block_fields, stake_begin_block_power: a stake keeps
            owner, target, hash, start; power only cut by BeginBlock slashing; deliver_never_loses,
            begin_block_never_loses: it is bonded or unbonding until refunded.
   C12 (C1) release_only_by_owner, unstake_only_owner, begin_block_release_cases.
       (C2) release_stamps_refund_height, force_release_stamps_refund_height, frozen_untouched,
            end_block_frozen_only_deletes.
       (C3) unfreeze_exact, refund_only_to_owner, refund_balance, power_to_amount_exact,
            refunded_entry_gone. *)
From Rigo Require Import Base.
From stdpp Require Import gmap sorting.
From Rigo Require Import Spec SpecProps.
Local Open Scope Z_scope.
Local Opaque two256 two255 two64 two63.

(* ================================================================== 0. projections *)
Lemma dels_set_acct l a x : dels (set_acct l a x) = dels l. Proof. reflexivity. Qed.
Lemma frozen_set_acct l a x : frozen (set_acct l a x) = frozen l. Proof. reflexivity. Qed.
Lemma dels_set_dels l m : dels (set_dels l m) = m. Proof. reflexivity. Qed.
Lemma frozen_set_dels l m : frozen (set_dels l m) = frozen l. Proof. reflexivity. Qed.
Lemma accts_set_dels l m : accts (set_dels l m) = accts l. Proof. reflexivity. Qed.
Lemma dels_set_frozen l m : dels (set_frozen l m) = dels l. Proof. reflexivity. Qed.
Lemma frozen_set_frozen l m : frozen (set_frozen l m) = m. Proof. reflexivity. Qed.
Lemma accts_set_frozen l m : accts (set_frozen l m) = accts l. Proof. reflexivity. Qed.
Lemma dels_set_rewards l m : dels (set_rewards l m) = dels l. Proof. reflexivity. Qed.
Lemma frozen_set_rewards l m : frozen (set_rewards l m) = frozen l. Proof. reflexivity. Qed.
Lemma dels_set_props l m : dels (set_props l m) = dels l. Proof. reflexivity. Qed.
Lemma frozen_set_props l m : frozen (set_props l m) = frozen l. Proof. reflexivity. Qed.
Lemma accts_set_props l m : accts (set_props l m) = accts l. Proof. reflexivity. Qed.
Lemma dels_set_fprops l m : dels (set_fprops l m) = dels l. Proof. reflexivity. Qed.
Lemma frozen_set_fprops l m : frozen (set_fprops l m) = frozen l. Proof. reflexivity. Qed.
Lemma accts_set_fprops l m : accts (set_fprops l m) = accts l. Proof. reflexivity. Qed.
Lemma dels_set_lparams l m : dels (set_lparams l m) = dels l. Proof. reflexivity. Qed.
Lemma frozen_set_lparams l m : frozen (set_lparams l m) = frozen l. Proof. reflexivity. Qed.
Lemma accts_set_lparams l m : accts (set_lparams l m) = accts l. Proof. reflexivity. Qed.
Global Hint Rewrite dels_set_acct frozen_set_acct dels_set_dels frozen_set_dels accts_set_dels
  dels_set_frozen frozen_set_frozen accts_set_frozen dels_set_rewards frozen_set_rewards
  dels_set_props frozen_set_props accts_set_props dels_set_fprops frozen_set_fprops accts_set_fprops
  dels_set_lparams frozen_set_lparams accts_set_lparams : proj.

(* the part of a ledger state the stake properties talk about *)
Definition same_sf (l l' : ledgers) : Prop := dels l' = dels l ∧ frozen l' = frozen l.
Lemma same_sf_refl l : same_sf l l. Proof. split; reflexivity. Qed.
Lemma same_sf_trans l1 l2 l3 : same_sf l1 l2 → same_sf l2 l3 → same_sf l1 l3.
Proof. intros [H1 H2] [H3 H4]; split; congruence. Qed.

(* ================================================================== 1. sums and stake lists *)
Lemma sum_power_app a b : sum_power (a ++ b) = sum_power a + sum_power b.
Proof. induction a as [|x a IH]; simpl; lia. Qed.
Lemma sum_power_of_app x a b : sum_power_of x (a ++ b) = sum_power_of x a + sum_power_of x b.
Proof. induction a as [|y a IH]; simpl; lia. Qed.

Lemma find_stake_spec h l s0 : find_stake h l = Some s0 → s0 ∈ l ∧ s_hash s0 = h.
Proof.
  induction l as [|s r IH]; simpl; [discriminate|].
  destruct (s_hash s =? h)%N eqn:E.
  - intros [= <-]. split; [left | apply N.eqb_eq, E].
  - intros H. destruct (IH H) as [H1 H2]. split; [right; exact H1 | exact H2].
Qed.

Lemma find_stake_none h l : find_stake h l = None → ∀ s, s ∈ l → s_hash s ≠ h.
Proof.
  induction l as [|s r IH]; simpl; intros Hf x Hx.
  - inversion Hx.
  - destruct (s_hash s =? h)%N eqn:E; [discriminate|].
    apply elem_of_cons in Hx as [-> | Hx]; [apply N.eqb_neq, E | apply IH; assumption].
Qed.

Lemma find_stake_some_of_elem h l s : s ∈ l → s_hash s = h → ∃ s0, find_stake h l = Some s0.
Proof.
  intros Hs Hh. destruct (find_stake h l) as [s0|] eqn:E; [eauto|].
  exfalso. eapply find_stake_none; eauto.
Qed.

Lemma find_remove_sum h l s0 : find_stake h l = Some s0 →
  sum_power (remove_stake h l) = sum_power l - s_power s0.
Proof.
  induction l as [|s r IH]; simpl; [discriminate|].
  destruct (s_hash s =? h)%N.
  - intros [= <-]. lia.
  - intros H. simpl. rewrite (IH H). lia.
Qed.

Lemma find_remove_sum_of x h l s0 : find_stake h l = Some s0 →
  sum_power_of x (remove_stake h l) = sum_power_of x l - (if (s_from s0 =? x)%N then s_power s0 else 0).
Proof.
  induction l as [|s r IH]; simpl; [discriminate|].
  destruct (s_hash s =? h)%N.
  - intros [= <-]. lia.
  - intros H. simpl. rewrite (IH H). lia.
Qed.

Lemma remove_stake_sublist h l : remove_stake h l `sublist_of` l.
Proof.
  induction l as [|s r IH]; simpl; [constructor|].
  destruct (s_hash s =? h)%N; [apply sublist_cons, reflexivity | apply sublist_skip, IH].
Qed.

Lemma sublist_elem {A} (l k : list A) x : l `sublist_of` k → x ∈ l → x ∈ k.
Proof. intros H; induction H; intros Hx; [assumption| |right; auto].
  apply elem_of_cons in Hx as [-> | Hx]; [left | right; auto]. Qed.

Lemma sublist_Forall' {A} (P : A → Prop) (l k : list A) : l `sublist_of` k → Forall P k → Forall P l.
Proof. intros H Hk. rewrite Forall_forall in *. intros x Hx. apply Hk. eapply sublist_elem; eauto. Qed.

Lemma foldl_remove_sublist (rm l : list stake) :
  foldl (λ l s, remove_stake (s_hash s) l) l rm `sublist_of` l.
Proof.
  revert l; induction rm as [|s rm IH]; intros l; simpl; [reflexivity|].
  etrans; [apply IH | apply remove_stake_sublist].
Qed.

(* membership in the concatenation of all delegatees' stakes *)
Lemma elem_of_concat {A} (x : A) (ls : list (list A)) : x ∈ concat ls ↔ ∃ l, l ∈ ls ∧ x ∈ l.
Proof.
  induction ls as [|l ls IH]; simpl.
  - split; [intros H; inversion H | intros (l & H & _); inversion H].
  - rewrite elem_of_app, IH. split.
    + intros [H | (l' & H1 & H2)]; [exists l; split; [left|assumption] | exists l'; split; [right|]; assumption].
    + intros (l' & H1 & H2). apply elem_of_cons in H1 as [-> | H1]; [left; assumption | right; eauto].
Qed.

Lemma elem_of_bonded l st : st ∈ bonded_stakes l ↔ ∃ a d, dels l !! a = Some d ∧ st ∈ d_stakes d.
Proof.
  unfold bonded_stakes. rewrite elem_of_concat. split.
  - intros (ss & H1 & H2). apply elem_of_list_fmap in H1 as ([a d] & -> & H1).
    apply elem_of_map_to_list in H1. eauto.
  - intros (a & d & H1 & H2). exists (d_stakes d). split; [|assumption].
    apply elem_of_list_fmap. exists (a, d). split; [reflexivity|]. apply elem_of_map_to_list; assumption.
Qed.

Lemma elem_of_frozen l st : st ∈ frozen_stakes l ↔ ∃ h, frozen l !! h = Some st.
Proof.
  unfold frozen_stakes. rewrite elem_of_list_fmap. split.
  - intros ([h s] & -> & H). apply elem_of_map_to_list in H. eauto.
  - intros (h & H). exists (h, st). split; [reflexivity | apply elem_of_map_to_list; assumption].
Qed.

(* ================================================================== 2. (A) delegatee bookkeeping *)
Definition dels_ok (l : ledgers) : Prop := ∀ a d, dels l !! a = Some d → delegatee_ok a d.

Lemma dels_ok_same l l' : dels l' = dels l → dels_ok l → dels_ok l'.
Proof. unfold dels_ok; intros -> H; exact H. Qed.

Lemma dels_ok_insert l a d : dels_ok l → delegatee_ok a d → dels_ok (set_dels l (<[a := d]> (dels l))).
Proof.
  intros H Hd b e. rewrite dels_set_dels. destruct (decide (a = b)) as [<-|Hne].
  - rewrite lookup_insert. intros [= <-]. exact Hd.
  - rewrite lookup_insert_ne by assumption. apply H.
Qed.

Lemma dels_ok_delete l a : dels_ok l → dels_ok (set_dels l (delete a (dels l))).
Proof.
  intros H b e. rewrite dels_set_dels. intros Hl. apply lookup_delete_Some in Hl as [_ Hl]. eapply H; eauto.
Qed.

Lemma new_delegatee_ok a : delegatee_ok a (new_delegatee a).
Proof. repeat split; constructor. Qed.

Lemma add_stake_ok a d s : delegatee_ok a d → s_to s = a → delegatee_ok a (add_stake d s).
Proof.
  intros (H1 & H2 & H3 & H4) Hs. unfold delegatee_ok, add_stake; simpl.
  split; [assumption|]. split; [rewrite sum_power_app; simpl; lia|]. split.
  - rewrite sum_power_of_app; simpl. unfold is_self. rewrite Hs. lia.
  - apply Forall_app; split; [assumption | constructor; [assumption | constructor]].
Qed.

Lemma del_stake_ok a d h : delegatee_ok a d → delegatee_ok a (del_stake d h).
Proof.
  intros (H1 & H2 & H3 & H4). unfold del_stake.
  destruct (find_stake h (d_stakes d)) as [s0|] eqn:E; [|repeat split; assumption].
  destruct (find_stake_spec _ _ _ E) as [Hin Hh].
  assert (Hto : s_to s0 = a) by (rewrite Forall_forall in H4; apply H4; assumption).
  unfold delegatee_ok; simpl. split; [assumption|]. split; [rewrite (find_remove_sum _ _ _ E); lia|]. split.
  - rewrite (find_remove_sum_of a _ _ _ E). unfold is_self. rewrite Hto. lia.
  - eapply sublist_Forall'; [apply remove_stake_sublist | assumption].
Qed.

(* DelAllStakes leaves d_self as it was: the result is consistent only if the self power was 0 *)
Lemma del_all_stakes_ok a d : delegatee_ok a d → d_self d = 0 → delegatee_ok a (del_all_stakes d).1.
Proof.
  intros (H1 & H2 & H3 & H4) H0. unfold delegatee_ok, del_all_stakes; simpl.
  split; [assumption|]. split; [lia|]. split; [assumption | constructor].
Qed.
Lemma del_all_stakes_total d : d_total d = sum_power (d_stakes d) → d_total (del_all_stakes d).1 = 0.
Proof. unfold del_all_stakes; simpl; lia. Qed.

Lemma slash_all_ok a d ratio : delegatee_ok a d → delegatee_ok a (slash_all d ratio).1.
Proof.
  intros (H1 & H2 & H3 & H4). unfold delegatee_ok, slash_all; simpl.
  split; [assumption|]. split; [reflexivity|]. split; [rewrite H1; reflexivity|].
  eapply sublist_Forall'; [apply foldl_remove_sublist|].
  apply Forall_fmap. eapply Forall_impl; [exact H4|].
  intros s Hs; simpl. destruct (_ <? _); [exact Hs | exact Hs].
Qed.

Definition with_marks (d : delegatee) (m : list Z) : delegatee :=
  {| d_addr := d_addr d; d_self := d_self d; d_total := d_total d; d_stakes := d_stakes d; d_marks := m |}.
Lemma with_marks_ok a d m : delegatee_ok a d → delegatee_ok a (with_marks d m).
Proof. intros H; exact H. Qed.

(* ------------------------------------------------------------------ stake_execute, inverted *)
Definition unstake_result (D : gmap addr delegatee) (F : gmap hash stake) (a : addr) (d : delegatee)
    (hs : hash) (s0 : stake) (R : Z) : gmap addr delegatee * gmap hash stake :=
  let d1 := del_stake d hs in
  let fr1 := <[s_hash s0 := with_refund R s0]> F in
  let d2 := if d_self d1 =? 0 then (del_all_stakes d1).1 else d1 in
  let fr2 := if d_self d1 =? 0 then freeze_all fr1 R (d_stakes d1) else fr1 in
  (if d_total d2 =? 0 then delete a D else <[a := d2]> D, fr2).

Definition release_height (s : state) : Z := b_height (bctx s) + g_lazyRewardBlocks (gparams s).

Lemma stake_execute_inv s l t l' : stake_execute s l t = Ok l' →
  (t_type t = TRX_STAKING ∧ ∃ d,
      (dels l !! t_to t = Some d ∨ (dels l !! t_to t = None ∧ t_from t = t_to t ∧ d = new_delegatee (t_to t))) ∧
      dels l' = <[t_to t := add_stake d (stake_of_tx t (b_height (bctx s)) (power_of (t_amount t)))]> (dels l) ∧
      frozen l' = frozen l)
  ∨ (t_type t = TRX_UNSTAKING ∧ ∃ d hs b s0,
      dels l !! t_to t = Some d ∧ t_payload t = PUnstake hs b ∧ find_stake hs (d_stakes d) = Some s0 ∧
      s_from s0 = t_from t ∧
      dels l' = (unstake_result (dels l) (frozen l) (t_to t) d hs s0 (release_height s)).1 ∧
      frozen l' = (unstake_result (dels l) (frozen l) (t_to t) d hs s0 (release_height s)).2)
  ∨ (t_type t ≠ TRX_STAKING ∧ t_type t ≠ TRX_UNSTAKING ∧ same_sf l l').
Proof.
  unfold stake_execute.
  destruct (t_type t =? TRX_STAKING) eqn:E1.
  { apply Z.eqb_eq in E1. intros H. left. split; [assumption|].
    destruct (dels l !! t_to t) as [d|] eqn:Ed.
    - destruct (accts l !! t_from t) as [sender|] eqn:Ea; [|discriminate].
      destruct (sub_balance sender (t_amount t)) as [sender'|] eqn:Eb; [|discriminate].
      injection H as <-. exists d. split; [left; reflexivity|]. split; reflexivity.
    - destruct (t_from t =? t_to t)%N eqn:Eft; [|discriminate].
      apply N.eqb_eq in Eft.
      destruct (accts l !! t_from t) as [sender|] eqn:Ea; [|discriminate].
      destruct (sub_balance sender (t_amount t)) as [sender'|] eqn:Eb; [|discriminate].
      injection H as <-. exists (new_delegatee (t_from t)). rewrite Eft at 3.
      split; [right; auto|]. split; reflexivity. }
  apply Z.eqb_neq in E1.
  destruct (t_type t =? TRX_UNSTAKING) eqn:E2.
  { apply Z.eqb_eq in E2. intros H. right; left. split; [assumption|].
    destruct (dels l !! t_to t) as [d|] eqn:Ed; [|discriminate].
    destruct (t_payload t) as [|hs b| | | | |] eqn:Ep; try discriminate.
    destruct (find_stake hs (d_stakes d)) as [s0|] eqn:Ef; [|discriminate].
    destruct (negb (s_from s0 =? t_from t)%N) eqn:Eo; [discriminate|].
    apply negb_false_iff, N.eqb_eq in Eo.
    exists d, hs, b, s0. do 4 (split; [reflexivity || assumption|]).
    unfold unstake_result, release_height.
    destruct (d_self (del_stake d hs) =? 0) eqn:Es; simpl in H |- *.
    - destruct (_ =? 0) in H |- *; injection H as <-; split; reflexivity.
    - destruct (_ =? 0) in H |- *; injection H as <-; split; reflexivity. }
  apply Z.eqb_neq in E2. intros H. right; right. split; [assumption|]. split; [assumption|].
  destruct (t_payload t) as [| |req| | | |] eqn:Ep; try discriminate.
  destruct (rewards l !! t_from t) as [r|] eqn:Er; [|discriminate].
  destruct (r_height r >? b_height (bctx s)); [discriminate|].
  match type of H with match ?x with _ => _ end = _ => destruct x as [l2|] eqn:Ew end; [|discriminate].
  injection H as <-. unfold acct_reward in Ew.
  destruct (accts _ !! t_from t) as [x|]; simpl in Ew; [|discriminate].
  destruct (add_balance x req) as [x'|]; simpl in Ew; [|discriminate].
  injection Ew as <-. split; reflexivity.
Qed.

(* ------------------------------------------------------------------ the other executors leave stakes alone *)
Lemma find_or_new_sf l a : same_sf l (find_or_new l a).1.
Proof. unfold find_or_new. destruct (accts l !! a); split; reflexivity. Qed.

Lemma evm_fold_sf (xs : list (addr * Z * Z)) l :
  same_sf l (foldl (λ l x, let '(a, bal, nonce) := x in
       let old := default acct0 (accts l !! a) in
       set_acct l a {| a_nonce := nonce; a_bal := bal; a_code := a_code old; a_name := a_name old; a_doc := a_doc old |}) l xs).
Proof.
  revert l; induction xs as [|[[a bal] nonce] xs IH]; intros l; simpl; [apply same_sf_refl|].
  eapply same_sf_trans; [|apply IH]. split; reflexivity.
Qed.

Lemma evm_execute_sf l t l' g : evm_execute l t = Ok (l', g) → same_sf l l'.
Proof.
  unfold evm_execute. destruct (t_evm t) as [e|]; [|discriminate].
  destruct (negb (e_ok e)); [discriminate|]. intros [= <- _].
  destruct (e_created e) as [c|].
  - eapply same_sf_trans; [apply evm_fold_sf | split; reflexivity].
  - apply evm_fold_sf.
Qed.

Lemma gov_execute_sf s l t l' : gov_execute s l t = Ok l' → same_sf l l'.
Proof.
  unfold gov_execute. destruct (t_type t =? TRX_PROPOSAL).
  - destruct (t_payload t); try discriminate. intros [= <-]. split; reflexivity.
  - destruct (t_payload t) as [| | | |ph choice| |]; try discriminate.
    destruct (props l !! ph) as [p|]; [|discriminate].
    destruct (prop_vote p (t_from t) choice); [|discriminate]. intros [= <-]. split; reflexivity.
Qed.

Lemma acct_execute_sf l t l' : acct_execute l t = Ok l' → same_sf l l'.
Proof.
  unfold acct_execute. destruct (accts l !! t_from t) as [sender|]; [|discriminate].
  destruct (accts l !! t_to t) as [receiver|]; [|discriminate].
  destruct (t_type t =? TRX_TRANSFER).
  - destruct (sub_balance sender (t_amount t)) as [sender'|]; [|discriminate].
    destruct (add_balance _ (t_amount t)) as [recv'|]; [|discriminate].
    intros [= <-]. split; reflexivity.
  - destruct (t_payload t); try discriminate. intros [= <-]. split; reflexivity.
Qed.

Lemma cv0_sigok g t : common_validation0 g t = None → t_sigok t = true.
Proof.
  unfold common_validation0.
  repeat match goal with |- (if ?c then _ else _) = None → _ => destruct c eqn:?; [discriminate|] end.
  intros _. match goal with H : negb (t_sigok t) = false |- _ => apply negb_false_iff in H; exact H end.
Qed.

(* what a delivery can do to the stake ledgers: nothing, or what stake_execute did on a state
   with the same height and parameters; execution is reached only with a valid signature *)
Lemma deliver_frame s t s' r : deliver s t = (s', r) →
  committed s' = committed s ∧ gparams s' = gparams s ∧ newparams s' = newparams s ∧
  b_height (bctx s') = b_height (bctx s) ∧ last_height s' = last_height s ∧
  (same_sf (work s) (work s') ∨
   ∃ s2 l l', t_sigok t = true ∧ gparams s2 = gparams s ∧ b_height (bctx s2) = b_height (bctx s) ∧
      same_sf (work s) l ∧ stake_execute s2 l t = Ok l' ∧ same_sf l' (work s')).
Proof.
  unfold deliver.
  destruct (accts (work s) !! t_from t) as [sender|] eqn:Es.
  2:{ intros [= <- <-]. repeat (split; [reflexivity|]). left; apply same_sf_refl. }
  cbv zeta.
  destruct (find_or_new (work (with_bctx s _)) (t_to t)) as [l0 receiver] eqn:Ef.
  assert (Hl0 : same_sf (work s) l0).
  { pose proof (find_or_new_sf (work s) (t_to t)) as H. simpl in Ef. rewrite Ef in H. exact H. }
  destruct (common_validation0 (gparams s) t) as [e|] eqn:Ev0.
  { intros [= <- <-]. repeat (split; [reflexivity|]). left; exact Hl0. }
  destruct (common_validation1 sender t) as [e|] eqn:Ev1.
  { intros [= <- <-]. repeat (split; [reflexivity|]). left; exact Hl0. }
  pose proof (cv0_sigok _ _ Ev0) as Hsig.
  match goal with |- match ?v with Ok _ => _ | Err _ => _ | Panic _ => _ end = _ → _ =>
    destruct v as [lim'|e|p] eqn:Eval end.
  2:{ intros [= <- <-]. repeat (split; [reflexivity|]). left; exact Hl0. }
  2:{ intros [= <- <-]. repeat (split; [reflexivity|]). left; exact Hl0. }
  clear Eval.
  match goal with |- (if ?c then _ else _) = _ → _ => destruct c eqn:Epath end.
  { (* EVM path *)
    match goal with |- match ?v with Ok _ => _ | Err _ => _ | Panic _ => _ end = _ → _ =>
      destruct v as [[l' gas]|e|p] eqn:Eevm end.
    - intros [= <- <-]. repeat (split; [reflexivity|]). left.
      eapply same_sf_trans; [exact Hl0 | eapply evm_execute_sf; exact Eevm].
    - intros [= <- <-]. repeat (split; [reflexivity|]). left; exact Hl0.
    - intros [= <- <-]. repeat (split; [reflexivity|]). left; exact Hl0. }
  match goal with |- match ?v with Ok _ => _ | Err _ => _ | Panic _ => _ end = _ → _ =>
    destruct v as [l'|e|p] eqn:Eexec end.
  2:{ intros [= <- <-]. repeat (split; [reflexivity|]). left; exact Hl0. }
  2:{ intros [= <- <-]. repeat (split; [reflexivity|]). left; exact Hl0. }
  (* the executor's effect *)
  assert (Hexec : same_sf (work s) l' ∨
     ∃ s2 l, gparams s2 = gparams s ∧ b_height (bctx s2) = b_height (bctx s) ∧
             same_sf (work s) l ∧ stake_execute s2 l t = Ok l').
  { destruct ((t_type t =? TRX_PROPOSAL) || (t_type t =? TRX_VOTING)).
    - left. eapply same_sf_trans; [exact Hl0 | eapply gov_execute_sf; exact Eexec].
    - destruct ((t_type t =? TRX_TRANSFER) || (t_type t =? TRX_SETDOC)).
      + left. eapply same_sf_trans; [exact Hl0 | eapply acct_execute_sf; exact Eexec].
      + right. eexists _, _. split; [|split; [|split; [exact Hl0 | exact Eexec]]]; reflexivity. }
  clear Eexec.
  assert (Hfin : ∀ lf, same_sf l' lf →
     same_sf (work s) lf ∨ ∃ s2 l l', t_sigok t = true ∧ gparams s2 = gparams s ∧
        b_height (bctx s2) = b_height (bctx s) ∧ same_sf (work s) l ∧ stake_execute s2 l t = Ok l' ∧ same_sf l' lf).
  { intros lf Hlf. destruct Hexec as [H | (s2 & l & H1 & H2 & H3 & H4)].
    - left. eapply same_sf_trans; eassumption.
    - right. exists s2, l, l'. auto 10. }
  destruct (accts l' !! t_from t) as [snd'|] eqn:Esnd.
  2:{ intros [= <- <-]. repeat (split; [reflexivity|]). left; exact Hl0. }
  destruct (sub_balance snd' (fee_of t)) as [snd''|] eqn:Efee.
  - intros [= <- <-]. repeat (split; [reflexivity|]). apply Hfin. split; reflexivity.
  - intros [= <- <-]. repeat (split; [reflexivity|]). apply Hfin. split; reflexivity.
Qed.

(* ------------------------------------------------------------------ dels_ok is preserved *)
Definition dmap_ok (D : gmap addr delegatee) : Prop := ∀ a d, D !! a = Some d → delegatee_ok a d.

Lemma dmap_ok_insert D a d : dmap_ok D → delegatee_ok a d → dmap_ok (<[a := d]> D).
Proof.
  intros H Hd b e. destruct (decide (a = b)) as [<-|Hne].
  - rewrite lookup_insert. intros [= <-]. exact Hd.
  - rewrite lookup_insert_ne by assumption. apply H.
Qed.
Lemma dmap_ok_delete D a : dmap_ok D → dmap_ok (delete a D).
Proof. intros H b e Hl. apply lookup_delete_Some in Hl as [_ Hl]. eapply H; eauto. Qed.

Lemma unstake_result_ok D F a d hs s0 R :
  dmap_ok D → D !! a = Some d → dmap_ok (unstake_result D F a d hs s0 R).1.
Proof.
  intros HD Hd. unfold unstake_result; cbv zeta; simpl.
  pose proof (del_stake_ok a d hs (HD _ _ Hd)) as H1.
  destruct (d_total _ =? 0); [apply dmap_ok_delete; assumption|].
  apply dmap_ok_insert; [assumption|].
  destruct (d_self (del_stake d hs) =? 0) eqn:Es; [|assumption].
  apply Z.eqb_eq in Es. apply del_all_stakes_ok; assumption.
Qed.

(* the call-site fact asked about: after a forced release the emptied delegatee has total 0
   and is therefore deleted, so the stale self power never survives *)
Lemma unstake_forced_deleted D F a d hs s0 R :
  delegatee_ok a d → d_self (del_stake d hs) = 0 →
  (unstake_result D F a d hs s0 R).1 = delete a D.
Proof.
  intros Hd Hs. unfold unstake_result; cbv zeta; simpl.
  rewrite Hs; simpl.
  destruct (del_stake_ok a d hs Hd) as (_ & Ht & _).
  replace (d_total (del_stake d hs) - sum_power (d_stakes (del_stake d hs))) with 0 by lia.
  reflexivity.
Qed.

Lemma stake_execute_ok s l t l' : stake_execute s l t = Ok l' → dels_ok l → dels_ok l'.
Proof.
  intros H Hok. apply stake_execute_inv in H as [(Hty & d & Hd & HD & _) | [(Hty & d & hs & b & s0 & Hd & _ & _ & _ & HD & _) | (_ & _ & HD & _)]].
  - unfold dels_ok. rewrite HD. apply dmap_ok_insert; [exact Hok|].
    apply add_stake_ok; [|reflexivity].
    destruct Hd as [Hd | (_ & _ & ->)]; [eapply Hok; eassumption | apply new_delegatee_ok].
  - unfold dels_ok. rewrite HD. apply unstake_result_ok; assumption.
  - eapply dels_ok_same; eassumption.
Qed.

Lemma deliver_dels_ok s t : dels_ok (work s) → dels_ok (work (deliver s t).1).
Proof.
  intros Hok. destruct (deliver s t) as [s' r] eqn:E. simpl.
  apply deliver_frame in E as (_ & _ & _ & _ & _ & [[HD _] | (s2 & l & l' & _ & _ & _ & [HD _] & Hex & [HD' _])]).
  - eapply dels_ok_same; eassumption.
  - eapply dels_ok_same; [exact HD'|]. eapply stake_execute_ok; [exact Hex|]. eapply dels_ok_same; eassumption.
Qed.

(* ------------------------------------------------------------------ begin_block, as a closure principle *)
Lemma gov_punish_inner_sf a ratio (targets : list (hash * proposal)) l :
  same_sf l (foldl (λ l kp, match props l !! kp.1 with
                   | Some p => set_props l (<[kp.1 := (prop_punish p a ratio).1]> (props l))
                   | None => l end) l targets).
Proof.
  revert l. induction targets as [|kp targets IH2]; intros l1; simpl; [apply same_sf_refl|].
  eapply same_sf_trans; [|apply IH2].
  destruct (props l1 !! kp.1); [split; reflexivity | apply same_sf_refl].
Qed.

Lemma gov_punish_sf l ratio evi : same_sf l (gov_punish l ratio evi).
Proof.
  unfold gov_punish. revert l. induction evi as [|a evi IH]; intros l; simpl; [apply same_sf_refl|].
  eapply same_sf_trans; [|apply IH]. apply gov_punish_inner_sf.
Qed.

Lemma stake_punish_ind (P : ledgers → Prop) l ratio evi :
  P l →
  (∀ l a d, a ∈ evi → P l → dels l !! a = Some d → P (set_dels l (<[a := (slash_all d ratio).1]> (dels l)))) →
  P (stake_punish l ratio evi).
Proof.
  intros Hl Hstep. unfold stake_punish.
  assert (Hgen : ∀ evi' l, (∀ a, a ∈ evi' → a ∈ evi) → P l →
     P (foldl (λ l a, match dels l !! a with
                      | Some d => set_dels l (<[a := (slash_all d ratio).1]> (dels l))
                      | None => l end) l evi')).
  { induction evi' as [|a evi' IH]; intros l1 Hsub Hl1; simpl; [exact Hl1|].
    apply IH; [intros x Hx; apply Hsub; right; exact Hx|].
    destruct (dels l1 !! a) as [d|] eqn:E; [apply Hstep; [apply Hsub; left | assumption | assumption] | exact Hl1]. }
  apply Hgen; auto.
Qed.

Definition jail (l : ledgers) (a : addr) (d : delegatee) (R : Z) : ledgers :=
  set_dels (set_frozen l (freeze_all (frozen l) R (d_stakes d))) (delete a (dels l)).

Lemma foldl_res_stuck_err {A B} (f : res A → B → res A) (xs : list B) e :
  (∀ b, f (Err e) b = Err e) → foldl f (Err e) xs = Err e.
Proof. intros H. induction xs as [|x xs IH]; simpl; [reflexivity | rewrite H; exact IH]. Qed.
Lemma foldl_res_stuck_panic {A B} (f : res A → B → res A) (xs : list B) p :
  (∀ b, f (Panic p) b = Panic p) → foldl f (Panic p) xs = Panic p.
Proof. intros H. induction xs as [|x xs IH]; simpl; [reflexivity | rewrite H; exact IH]. Qed.

Lemma process_votes_ind (P : ledgers → Prop) s l h votes l' iss :
  process_votes s l h votes = Ok (l', iss) → P l →
  (∀ l rw, P l → P (set_rewards l rw)) →
  (∀ l a d m, P l → dels l !! a = Some d → P (set_dels l (<[a := with_marks d m]> (dels l)))) →
  (∀ l a d, (∃ pw, (a, pw, false) ∈ votes) → P l → dels l !! a = Some d →
     P (jail l a d (h + g_lazyRewardBlocks (gparams s)))) →
  P l'.
Proof.
  intros Hpv Hl Hrw Hmk Hjl. unfold process_votes in Hpv.
  destruct (ledgers_at s (hgt_of_power h)) as [old|]; [|discriminate].
  match type of Hpv with foldl ?f _ _ = _ => set (step := f) in * end.
  assert (Hgen : ∀ votes' l i0, (∀ v, v ∈ votes' → v ∈ votes) →
     foldl step (Ok (l, i0)) votes' = Ok (l', iss) → P l → P l').
  2:{ eapply Hgen; [|exact Hpv|exact Hl]. auto. }
  clear Hpv Hl l.
  induction votes' as [|[[a pw] signed] votes' IH]; intros l i0 Hsub.
  { simpl. intros [= <- _] Hl; exact Hl. }
  assert (IH' : ∀ l i0, foldl step (Ok (l, i0)) votes' = Ok (l', iss) → P l → P l').
  { intros l1 i1. apply IH. intros v Hv; apply Hsub; right; exact Hv. }
  clear IH.
  change (foldl step (step (Ok (l, i0)) (a, pw, signed)) votes' = Ok (l', iss) → P l → P l').
  assert (Hstuck : ∀ r : res (ledgers * Z), (∀ x, r ≠ Ok x) → foldl step r votes' = Ok (l', iss) → False).
  { intros [x|e|p] Hx; [destruct (Hx x); reflexivity| |].
    - rewrite foldl_res_stuck_err by reflexivity. discriminate.
    - rewrite foldl_res_stuck_panic by reflexivity. discriminate. }
  unfold step at 2.
  destruct signed.
  - destruct (dels old !! a) as [d|]; [|apply IH'].
    destruct (negb (d_total d =? pw)); [apply IH'|].
    destruct (reward_to (gparams s) h (rewards l) d) as [[rw iss']|e|p].
    + intros H Hl. eapply IH'; [exact H | apply Hrw, Hl].
    + intros H. exfalso. eapply Hstuck; [|exact H]. discriminate.
    + intros H. exfalso. eapply Hstuck; [|exact H]. discriminate.
  - destruct (dels l !! a) as [d|] eqn:Ed; [|apply IH'].
    destruct (count_in_window _ _ _) as [cnt m2] eqn:Ec.
    destruct (_ <? g_minSignedBlocks (gparams s)).
    + intros H Hl. eapply IH'; [exact H|].
      pose proof (Hmk l a d m2 Hl Ed) as H1.
      apply (Hjl _ a (with_marks d m2)) in H1; [exact H1 | exists pw; apply Hsub; left|].
      rewrite dels_set_dels, lookup_insert; reflexivity.
    + intros H Hl. eapply IH'; [exact H|]. apply Hmk; assumption.
Qed.

(* [P] must only look at the stake ledgers *)
Lemma begin_block_ind (P : ledgers → Prop) s hd :
  (∀ l l', same_sf l l' → P l → P l') →
  P (work s) →
  (∀ l a d, a ∈ h_evidence hd → P l → dels l !! a = Some d →
     P (set_dels l (<[a := (slash_all d (g_slashRatio (gparams s))).1]> (dels l)))) →
  (∀ l a d m, P l → dels l !! a = Some d → P (set_dels l (<[a := with_marks d m]> (dels l)))) →
  (∀ l a d, (∃ pw, (a, pw, false) ∈ h_votes hd) → P l → dels l !! a = Some d →
     P (jail l a d (h_height hd + g_lazyRewardBlocks (gparams s)))) →
  P (work (begin_block s hd).1).
Proof.
  intros Hsf Hl Hsl Hmk Hjl. unfold begin_block.
  destruct (negb (h_height hd =? last_height s + 1)); [exact Hl|]. cbv zeta.
  assert (H2 : P (stake_punish (gov_punish (work s) (g_slashRatio (gparams s)) (h_evidence hd))
                  (g_slashRatio (gparams s)) (h_evidence hd))).
  { apply stake_punish_ind; [|exact Hsl]. eapply Hsf; [apply gov_punish_sf | exact Hl]. }
  destruct (h_votes hd) as [|v votes] eqn:Ev; [exact H2|].
  match goal with |- context [process_votes ?s1 ?l2 ?h ?vs] => destruct (process_votes s1 l2 h vs) as [[l3 iss]|e|pn] eqn:Epv end;
    [|exact H2|exact H2].
  simpl. eapply process_votes_ind; [exact Epv | exact H2 | | exact Hmk | exact Hjl].
  intros l rw Hp. eapply Hsf; [|exact Hp]. split; reflexivity.
Qed.

Lemma begin_block_ctl s hd : committed (begin_block s hd).1 = committed s ∧ gparams (begin_block s hd).1 = gparams s.
Proof.
  unfold begin_block. destruct (negb _); [split; reflexivity|]. cbv zeta.
  destruct (h_votes hd); [split; reflexivity|].
  destruct (process_votes _ _ _ _) as [[l3 iss]|e|pn]; split; reflexivity.
Qed.

Lemma jail_dels_ok l a d R : dels_ok l → dels_ok (jail l a d R).
Proof. intros H. unfold jail. apply (dmap_ok_delete (dels l) a H). Qed.

Lemma begin_block_dels_ok s hd : dels_ok (work s) → dels_ok (work (begin_block s hd).1).
Proof.
  intros Hok. apply begin_block_ind.
  - intros l l' [HD _]. apply dels_ok_same; assumption.
  - exact Hok.
  - intros l a d _ Hl Hd. apply dels_ok_insert; [exact Hl|]. apply slash_all_ok. eapply Hl; eassumption.
  - intros l a d m Hl Hd. apply dels_ok_insert; [exact Hl|]. apply with_marks_ok. eapply Hl; eassumption.
  - intros l a d _ Hl _. apply jail_dels_ok; assumption.
Qed.

(* ------------------------------------------------------------------ end_block *)
Definition same_asf (l l' : ledgers) : Prop := accts l' = accts l ∧ dels l' = dels l ∧ frozen l' = frozen l.
Lemma same_asf_refl l : same_asf l l. Proof. repeat split. Qed.
Lemma same_asf_trans l1 l2 l3 : same_asf l1 l2 → same_asf l2 l3 → same_asf l1 l3.
Proof. intros (?&?&?) (?&?&?); repeat split; congruence. Qed.

Lemma freeze_proposals_asf base l h l' : freeze_proposals base l h = Ok l' → same_asf l l'.
Proof.
  unfold freeze_proposals. generalize (sorted_items (props base)) as items.
  intros items. revert l. induction items as [|kp items IH]; intros l; simpl.
  { intros [= <-]; apply same_asf_refl. }
  destruct (p_end kp.2 <? h); [|apply IH].
  destruct (props l !! kp.1); [|rewrite foldl_res_stuck_panic by reflexivity; discriminate].
  destruct (update_major kp.2) as [p'|e|pn].
  - destruct (p_major p'); intros H; apply IH in H; (eapply same_asf_trans; [|exact H]); repeat split.
  - rewrite foldl_res_stuck_err by reflexivity; discriminate.
  - rewrite foldl_res_stuck_panic by reflexivity; discriminate.
Qed.

Lemma apply_proposals_asf s base l h l' np : apply_proposals s base l h = Ok (l', np) → same_asf l l'.
Proof.
  unfold apply_proposals. generalize (sorted_items (fprops base)) as items. generalize (newparams s) as np0.
  intros np0 items. revert l np0. induction items as [|kp items IH]; intros l np0; simpl.
  { intros [= <- _]; apply same_asf_refl. }
  destruct (p_apply kp.2 <=? h); [|apply IH].
  destruct (fprops l !! kp.1); [|rewrite foldl_res_stuck_panic by reflexivity; discriminate].
  destruct (p_major kp.2) as [o|].
  - destruct (p_opttype kp.2 =? PROPOSAL_GOVPARAMS).
    + destruct (o_params o) as [newp|]; [|rewrite foldl_res_stuck_panic by reflexivity; discriminate].
      intros H; apply IH in H; (eapply same_asf_trans; [|exact H]); repeat split.
    + intros H; apply IH in H; (eapply same_asf_trans; [|exact H]); repeat split.
  - intros H; apply IH in H; (eapply same_asf_trans; [|exact H]); repeat split.
Qed.

(* Account.AddBalance's effect *)
Definition credit (x : account) (amt : Z) : account :=
  {| a_nonce := a_nonce x; a_bal := add256 (a_bal x) amt; a_code := a_code x; a_name := a_name x; a_doc := a_doc x |}.
Lemma add_balance_credit x amt x' : add_balance x amt = Some x' → x' = credit x amt.
Proof. unfold add_balance. destruct (sign256 amt <? 0); [discriminate|]. intros [= <-]; reflexivity. Qed.

Lemma acct_of_set_acct l a x b : acct_of (set_acct l a x) b = if decide (a = b) then x else acct_of l b.
Proof.
  unfold acct_of; simpl. destruct (decide (a = b)) as [<-|Hne].
  - rewrite lookup_insert; reflexivity.
  - rewrite lookup_insert_ne by assumption; reflexivity.
Qed.

Lemma end_block_inv s s' r : end_block s = (s', r) →
  (s' = s ∧ ∀ ups, r ≠ Ok ups) ∨
  ∃ ups l3, r = Ok ups ∧ same_sf (work s) l3 ∧
    (∀ a, b_proposer (bctx s) ≠ Some a → acct_of l3 a = acct_of (work s) a) ∧
    (∀ pa, b_proposer (bctx s) = Some pa →
       acct_of l3 pa = if 0 <? sign256 (b_feesum (bctx s)) then credit (acct_of (work s) pa) (b_feesum (bctx s))
                       else acct_of (work s) pa) ∧
    unfreeze (base_of s) l3 (b_height (bctx s)) = Ok (work s') ∧
    committed s' = committed s ∧ gparams s' = gparams s ∧ bctx s' = bctx s ∧ last_height s' = last_height s.
Proof.
  unfold end_block.
  destruct (freeze_proposals (base_of s) (work s) (b_height (bctx s))) as [l1|e|pn] eqn:E1;
    [|intros [= <- <-]; left; split; [reflexivity | discriminate]|intros [= <- <-]; left; split; [reflexivity | discriminate]].
  destruct (apply_proposals s (base_of s) l1 (b_height (bctx s))) as [[l2 np]|e|pn] eqn:E2;
    [|intros [= <- <-]; left; split; [reflexivity | discriminate]|intros [= <- <-]; left; split; [reflexivity | discriminate]].
  assert (H2 : same_asf (work s) l2).
  { eapply same_asf_trans; [eapply freeze_proposals_asf; exact E1 | eapply apply_proposals_asf; exact E2]. }
  destruct H2 as (HA & HD & HF).
  match goal with |- match ?x with Some _ => _ | None => _ end = _ → _ => destruct x as [l3|] eqn:E3 end;
    [|intros [= <- <-]; left; split; [reflexivity | discriminate]].
  destruct (unfreeze (base_of s) l3 (b_height (bctx s))) as [l4|e|pn] eqn:E4;
    [|intros [= <- <-]; left; split; [reflexivity | discriminate]|intros [= <- <-]; left; split; [reflexivity | discriminate]].
  destruct (g_maxValidatorCnt (gparams s) <? 0); [intros [= <- <-]; left; split; [reflexivity | discriminate]|].
  intros [= <- <-]. right. eexists _, l3. split; [reflexivity|].
  assert (Hacct : ∀ a, acct_of l2 a = acct_of (work s) a) by (intros a; unfold acct_of; rewrite HA; reflexivity).
  destruct (b_proposer (bctx s)) as [pa|] eqn:Ep.
  - destruct (0 <? sign256 (b_feesum (bctx s))) eqn:Efee.
    + destruct (add_balance _ _) as [x|] eqn:Ex in E3; [|discriminate]. injection E3 as <-.
      apply add_balance_credit in Ex. split; [split; simpl; assumption|]. split; [|split].
      * intros a Ha. rewrite acct_of_set_acct. destruct (decide (pa = a)) as [->|]; [congruence|apply Hacct].
      * intros pa' [= <-]. rewrite acct_of_set_acct. destruct (decide (pa = pa)); [|congruence].
        rewrite Ex. unfold acct_of. rewrite HA. reflexivity.
      * simpl. auto.
    + injection E3 as <-. split; [split; assumption|]. split; [|split].
      * intros a _; apply Hacct.
      * intros pa' _; apply Hacct.
      * simpl; auto.
  - injection E3 as <-. split; [split; assumption|]. split; [|split].
    + intros a _; apply Hacct.
    + intros pa' [=].
    + simpl; auto.
Qed.

(* ------------------------------------------------------------------ unfreeze (C12: the refund) *)
Definition matured (h : Z) (kp : hash * stake) : bool := s_refund kp.2 <=? h.
(* the amounts credited to [a], in iteration order *)
Definition refunds_to (h : Z) (a : addr) (items : list (hash * stake)) : list Z :=
  (λ kp : hash * stake, power_to_amount (s_power kp.2)) <$>
    List.filter (λ kp : hash * stake, matured h kp && (s_from kp.2 =? a)%N) items.

Definition unfreeze_step (h : Z) (acc : res ledgers) (kp : hash * stake) : res ledgers :=
  match acc with
  | Ok l =>
      let s0 := kp.2 in
      if s_refund s0 <=? h then
        match acct_reward l (s_from s0) (power_to_amount (s_power s0)) with
        | None => Panic P_ENDBLOCK
        | Some l1 => Ok (set_frozen l1 (delete kp.1 (frozen l1)))
        end
      else Ok l
  | x => x end.
Lemma unfreeze_unfold base l h : unfreeze base l h = foldl (unfreeze_step h) (Ok l) (sorted_items (frozen base)).
Proof. reflexivity. Qed.

Lemma unfreeze_list_spec h items : ∀ l l', foldl (unfreeze_step h) (Ok l) items = Ok l' →
  dels l' = dels l ∧
  (∀ k, frozen l' !! k =
        if existsb (λ kp : hash * stake, (kp.1 =? k)%N && matured h kp) items then None else frozen l !! k) ∧
  (∀ a, acct_of l' a = foldl credit (acct_of l a) (refunds_to h a items)).
Proof.
  induction items as [|kp items IH]; intros l l'; simpl.
  { intros [= <-]. split; [reflexivity|]. split; reflexivity. }
  unfold refunds_to; simpl. fold (matured h kp).
  destruct (matured h kp) eqn:Em; simpl.
  2:{ intros H. destruct (IH _ _ H) as (H1 & H2 & H3). split; [exact H1|]. split.
      - intros k. rewrite andb_false_r; simpl. apply H2.
      - exact H3. }
  unfold acct_reward.
  destruct (accts l !! s_from kp.2) as [x|] eqn:Ex; simpl;
    [|rewrite foldl_res_stuck_panic by reflexivity; discriminate].
  destruct (add_balance x _) as [x'|] eqn:Eadd; simpl;
    [|rewrite foldl_res_stuck_panic by reflexivity; discriminate].
  apply add_balance_credit in Eadd.
  intros H. destruct (IH _ _ H) as (H1 & H2 & H3). clear IH H.
  split; [exact H1|]. split.
  - intros k. rewrite H2; simpl. rewrite andb_true_r.
    destruct (kp.1 =? k)%N eqn:Ek; simpl.
    + apply N.eqb_eq in Ek. subst k. destruct (existsb _ items); [reflexivity | apply lookup_delete].
    + apply N.eqb_neq in Ek. rewrite lookup_delete_ne by assumption. reflexivity.
  - intros a. rewrite H3. fold (refunds_to h a items).
    replace (acct_of (set_frozen (set_acct l (s_from kp.2) x') _) a) with (acct_of (set_acct l (s_from kp.2) x') a) by reflexivity.
    rewrite acct_of_set_acct.
    destruct (s_from kp.2 =? a)%N eqn:Ea; simpl.
    + apply N.eqb_eq in Ea. destruct (decide (s_from kp.2 = a)); [|contradiction].
      subst a. unfold acct_of. rewrite Ex; simpl. rewrite Eadd. reflexivity.
    + apply N.eqb_neq in Ea. destruct (decide (s_from kp.2 = a)); [contradiction|]. reflexivity.
Qed.

(* ------------------------------------------------------------------ (A) the invariant on every reachable state *)
Lemma end_block_dels_ok s : dels_ok (work s) → dels_ok (work (end_block s).1).
Proof.
  intros Hok. destruct (end_block s) as [s' r] eqn:E; simpl.
  apply end_block_inv in E as [[-> _] | (ups & l3 & _ & [HD _] & _ & _ & Hun & _)]; [exact Hok|].
  rewrite unfreeze_unfold in Hun. apply unfreeze_list_spec in Hun as (HD' & _).
  eapply dels_ok_same; [exact HD'|]. eapply dels_ok_same; eassumption.
Qed.

Lemma commit_work s : work (commit s) = work s. Proof. reflexivity. Qed.

Definition genesis_stake (v : addr * Z) : stake :=
  {| s_from := v.1; s_to := v.1; s_hash := 0%N; s_start := 1; s_refund := 0; s_power := v.2 |}.

Lemma init_holders_sf (hs : list (addr * Z)) l :
  same_sf l (foldl (λ l h, set_acct l h.1 {| a_nonce := 0; a_bal := h.2; a_code := false; a_name := 0%N; a_doc := 0%N |}) l hs).
Proof.
  revert l; induction hs as [|h hs IH]; intros l; simpl; [apply same_sf_refl|].
  eapply same_sf_trans; [|apply IH]. split; reflexivity.
Qed.
Lemma init_valaccts_sf (vs : list (addr * Z)) l : same_sf l (foldl (λ l v, (find_or_new l v.1).1) l vs).
Proof.
  revert l; induction vs as [|v vs IH]; intros l; simpl; [apply same_sf_refl|].
  eapply same_sf_trans; [apply find_or_new_sf | apply IH].
Qed.

Lemma init_chain_pre_sf g : ∃ l2, same_sf (empty_ledgers (gen_params g)) l2 ∧
  work (init_chain g) =
    foldl (λ l v, set_dels l (<[v.1 := add_stake (new_delegatee v.1) (genesis_stake v)]> (dels l))) l2 (gen_validators g).
Proof.
  eexists. split; [|reflexivity].
  eapply same_sf_trans; [apply init_holders_sf | apply init_valaccts_sf].
Qed.

Lemma genesis_delegatee_ok v : delegatee_ok v.1 (add_stake (new_delegatee v.1) (genesis_stake v)).
Proof. apply add_stake_ok; [apply new_delegatee_ok | reflexivity]. Qed.

Lemma init_chain_dels_ok g : dels_ok (work (init_chain g)).
Proof.
  destruct (init_chain_pre_sf g) as (l2 & [HD _] & ->).
  assert (H2 : dels_ok l2) by (intros a d; rewrite HD; simpl; rewrite lookup_empty; discriminate).
  clear HD. revert l2 H2. induction (gen_validators g) as [|v vs IH]; intros l2 H2; simpl; [exact H2|].
  apply IH. apply dels_ok_insert; [exact H2 | apply genesis_delegatee_ok].
Qed.

Lemma sstep_dels_ok s o : dels_ok (work s) → dels_ok (work (sstep s o)).
Proof.
  destruct o as [hd|t| |]; simpl.
  - apply begin_block_dels_ok.
  - apply deliver_dels_ok.
  - apply end_block_dels_ok.
  - intros H; exact H.
Qed.

Lemma sstep_committed s o :
  committed (sstep s o) = committed s ∨ (o = SCommit ∧ committed (sstep s o) = committed s ++ [work s]).
Proof.
  destruct o as [hd|t| |]; simpl.
  - left. apply begin_block_ctl.
  - left. destruct (deliver s t) as [s' r] eqn:E. apply deliver_frame in E as (H & _). exact H.
  - left. destruct (end_block s) as [s' r] eqn:E.
    apply end_block_inv in E as [[-> _] | (ups & l3 & _ & _ & _ & _ & _ & H & _)]; [reflexivity | exact H].
  - right. split; reflexivity.
Qed.

Theorem dels_ok_reachable g ops :
  dels_ok (work (srun (init_chain g) ops)) ∧ Forall dels_ok (committed (srun (init_chain g) ops)).
Proof.
  unfold srun.
  assert (H0 : dels_ok (work (init_chain g)) ∧ Forall dels_ok (committed (init_chain g))).
  { split; [apply init_chain_dels_ok | constructor]. }
  revert H0. generalize (init_chain g) as s. induction ops as [|o ops IH]; intros s [Hw Hc]; simpl; [split; assumption|].
  apply IH. split; [apply sstep_dels_ok; assumption|].
  destruct (sstep_committed s o) as [-> | [_ ->]]; [assumption|].
  apply Forall_app; split; [assumption | constructor; [assumption | constructor]].
Qed.
Print Assumptions dels_ok_reachable.

(* C11, first sentence, spelled out at every committed height *)
Corollary C11_sums_at_every_height g ops v l a d :
  committed (srun (init_chain g) ops) !! v = Some l → dels l !! a = Some d →
  d_total d = sum_power (d_stakes d) ∧ d_self d = sum_power_of a (d_stakes d) ∧
  d_addr d = a ∧ Forall (λ s, s_to s = a) (d_stakes d).
Proof.
  intros Hv Hd. destruct (dels_ok_reachable g ops) as [_ Hc].
  rewrite Forall_forall in Hc. pose proof (Hc l (elem_of_list_lookup_2 _ _ _ Hv) a d Hd) as (H1 & H2 & H3 & H4).
  auto.
Qed.

(* the total-power query is the sum of all bonded powers *)
Lemma total_power_list (L : list (addr * delegatee)) :
  Forall (λ kv, d_total kv.2 = sum_power (d_stakes kv.2)) L →
  sumZ_with (λ kv : addr * delegatee, d_total kv.2) L
  = sum_power (concat ((λ kv : addr * delegatee, d_stakes kv.2) <$> L)).
Proof.
  induction 1 as [|kv L Hkv _ IH]; simpl; [reflexivity|].
  rewrite sum_power_app. f_equal; [exact Hkv | exact IH].
Qed.

Theorem total_power_query l : dels_ok l →
  sumZ_with (λ kv : addr * delegatee, d_total kv.2) (map_to_list (dels l)) = bonded_power l.
Proof.
  intros Hok. unfold bonded_power, bonded_stakes. apply total_power_list.
  apply Forall_forall. intros [a d] Hin. apply elem_of_map_to_list in Hin.
  destruct (Hok a d Hin) as (_ & H & _). exact H.
Qed.
Print Assumptions total_power_query.

Corollary total_power_query_reachable g ops :
  let l := work (srun (init_chain g) ops) in
  sumZ_with (λ kv : addr * delegatee, d_total kv.2) (map_to_list (dels l)) = bonded_power l.
Proof. apply total_power_query, dels_ok_reachable. Qed.

(* ================================================================== 3. (B2) the genesis-hash collision *)
Definition ex_params : params := {|
  g_version := 1; g_maxValidatorCnt := 10; g_minValidatorStake := 1000000000000000000; g_minDelegatorStake := 0;
  g_rewardPerPower := 1; g_lazyRewardBlocks := 2; g_lazyApplyingBlocks := 1; g_gasPrice := 1;
  g_minTrxGas := 10; g_maxTrxGas := 1000; g_maxBlockGas := 100000; g_minVotingPeriodBlocks := 1;
  g_maxVotingPeriodBlocks := 100; g_minSelfStakeRatio := 50; g_maxUpdatableStakeRatio := 30;
  g_maxIndividualStakeRatio := 100; g_slashRatio := 50; g_signedBlocksWindow := 100; g_minSignedBlocks := 10 |}.

Definition ex_unstake (from : addr) (h : hash) (nonce : Z) (txh : hash) : tx := {|
  t_type := TRX_UNSTAKING; t_from := from; t_to := from; t_from_ok := true; t_to_ok := true;
  t_amount := 0; t_price := 1; t_gas := 10; t_nonce := nonce; t_payload := PUnstake h true; t_hash := txh;
  t_sigok := true; t_evm := None |}.

Definition ex_header (h : Z) : header :=
  {| h_height := h; h_proposer := Some 1%N; h_votes := []; h_evidence := [] |}.

Definition collision_genesis : genesis :=
  {| gen_params := ex_params; gen_holders := [(1%N, 1000); (2%N, 1000)]; gen_validators := [(1%N, 10); (2%N, 10)] |}.
(* block 1: both validators release their genesis stake (hash 0) *)
Definition collision_block1 : list sop :=
  [SBegin (ex_header 1); SDeliver (ex_unstake 1%N 0%N 0 101%N); SDeliver (ex_unstake 2%N 0%N 0 102%N); SEnd; SCommit].
(* blocks 2 and 3: empty; the unbonding period (2 blocks) ends at height 3 *)
Definition collision_block23 : list sop :=
  [SBegin (ex_header 2); SEnd; SCommit; SBegin (ex_header 3); SEnd; SCommit].

Definition all_ok (s : state) (ops : list sop) : bool :=
  (fix go s ops := match ops with [] => true | o :: r =>
     match o with
     | SDeliver t => match (deliver s t).2 with Ok _ => true | _ => false end
     | _ => sstep_ok s o end && go (sstep s o) r end) s ops.

(* split conjunctions only: [split] on an equation would try [eq_refl] with the lazy machine *)
Ltac vm_conj := repeat (match goal with |- _ ∧ _ => split end); vm_compute; reflexivity.

Theorem C11_collision_refuted : ∃ g ops1 ops2,
  let s0 := init_chain g in let s1 := srun s0 ops1 in let s2 := srun s1 ops2 in
  length (gen_validators g) = 2%nat ∧
  (* every operation, every transaction included, succeeds; no evidence, no missed votes *)
  all_ok s0 (ops1 ++ ops2) = true ∧
  ¬ hashes_unique (work s0) ∧
  (* after block 1 one of the two stakes is in neither place although nothing was refunded *)
  bonded_power (work s0) + frozen_power (work s0) = 20 ∧
  bonded_power (work s1) + frozen_power (work s1) = 10 ∧
  total_balance (work s1) = total_balance (work s0) ∧
  bal_of (work s1) 1%N = 1000 + 10 ∧ bal_of (work s1) 2%N = 1000 - 10 ∧
  bonded_stakes (work s1) = [] ∧
  frozen_stakes (work s1) = [with_refund 3 (genesis_stake (2%N, 10))] ∧
  supply (work s1) = supply (work s0) - 10 * amountPerPower ∧
  (* after the unbonding period only validator 2 is paid back *)
  bonded_power (work s2) + frozen_power (work s2) = 0 ∧
  bal_of (work s2) 1%N = 1000 + 10 ∧
  bal_of (work s2) 2%N = 1000 - 10 + 10 * amountPerPower ∧
  supply (work s2) = supply (work s0) - 10 * amountPerPower.
Proof.
  exists collision_genesis, collision_block1, collision_block23.
  cbv zeta. split; [reflexivity|]. split; [vm_compute; reflexivity|]. split.
  { intros [H _]. vm_compute in H. inversion H as [|x xs Hnin _]. apply Hnin. left. }
  vm_conj.
Qed.
Print Assumptions C11_collision_refuted.

(* ================================================================== 4. hash uniqueness, pointwise *)
Definition hu_pt (l : ledgers) : Prop :=
  (∀ a d, dels l !! a = Some d → NoDup (s_hash <$> d_stakes d)) ∧
  (∀ a1 a2 d1 d2 s1 s2, dels l !! a1 = Some d1 → dels l !! a2 = Some d2 →
     s1 ∈ d_stakes d1 → s2 ∈ d_stakes d2 → s_hash s1 = s_hash s2 → a1 = a2) ∧
  (∀ a d s k x, dels l !! a = Some d → s ∈ d_stakes d → frozen l !! k = Some x → s_hash s ≠ k) ∧
  (∀ k x, frozen l !! k = Some x → s_hash x = k).

Lemma elem_of_hashes_concat (L : list (addr * delegatee)) h :
  h ∈ s_hash <$> concat ((λ kv : addr * delegatee, d_stakes kv.2) <$> L) ↔
  ∃ kv s, kv ∈ L ∧ s ∈ d_stakes kv.2 ∧ s_hash s = h.
Proof.
  rewrite elem_of_list_fmap. split.
  - intros (s & -> & Hs). apply elem_of_concat in Hs as (ss & Hss & Hs).
    apply elem_of_list_fmap in Hss as (kv & -> & Hkv). eauto.
  - intros (kv & s & Hkv & Hs & <-). exists s. split; [reflexivity|].
    apply elem_of_concat. exists (d_stakes kv.2). split; [|assumption].
    apply elem_of_list_fmap. eauto.
Qed.

Lemma NoDup_hashes_concat (L : list (addr * delegatee)) : NoDup L.*1 →
  (NoDup (s_hash <$> concat ((λ kv : addr * delegatee, d_stakes kv.2) <$> L)) ↔
   (∀ kv, kv ∈ L → NoDup (s_hash <$> d_stakes kv.2)) ∧
   (∀ kv1 kv2 s1 s2, kv1 ∈ L → kv2 ∈ L → s1 ∈ d_stakes kv1.2 → s2 ∈ d_stakes kv2.2 →
      s_hash s1 = s_hash s2 → kv1.1 = kv2.1)).
Proof.
  induction L as [|kv L IH]; intros Hnd.
  { simpl. split; [intros _; split; [intros ? H; inversion H | intros ? ? ? ? H; inversion H] | intros _; constructor]. }
  rewrite fmap_cons in Hnd. apply NoDup_cons in Hnd as [Hkv Hnd]. specialize (IH Hnd).
  rewrite fmap_cons. simpl concat. rewrite fmap_app, NoDup_app, IH. clear IH. split.
  - intros (H1 & H2 & H3 & H4). split.
    + intros kv' Hin. apply elem_of_cons in Hin as [-> | Hin]; [exact H1 | apply H3, Hin].
    + intros kv1 kv2 s1 s2 Hin1 Hin2 Hs1 Hs2 Heq.
      apply elem_of_cons in Hin1 as [-> | Hin1]; apply elem_of_cons in Hin2 as [-> | Hin2].
      * reflexivity.
      * exfalso. apply (H2 (s_hash s1)); [apply elem_of_list_fmap; eauto|].
        apply elem_of_hashes_concat. exists kv2, s2. auto.
      * exfalso. apply (H2 (s_hash s2)); [apply elem_of_list_fmap; eauto|].
        apply elem_of_hashes_concat. exists kv1, s1. auto.
      * eapply H4; eassumption.
  - intros (H1 & H2). split; [apply H1; left|]. split; [|split].
    + intros h Hh Hh'. apply elem_of_list_fmap in Hh as (s1 & -> & Hs1).
      apply elem_of_hashes_concat in Hh' as (kv2 & s2 & Hin2 & Hs2 & Heq).
      apply Hkv. apply elem_of_list_fmap. exists kv2. split; [|assumption].
      eapply (H2 kv kv2 s1 s2); [left | right; assumption | assumption | assumption | symmetry; assumption].
    + intros kv' Hin. apply H1. right; assumption.
    + intros kv1 kv2 s1 s2 Hin1 Hin2. apply H2; right; assumption.
Qed.

Lemma frozen_hashes_keys l : (∀ k x, frozen l !! k = Some x → s_hash x = k) →
  s_hash <$> frozen_stakes l = (map_to_list (frozen l)).*1.
Proof.
  intros H. unfold frozen_stakes. rewrite <- list_fmap_compose. apply Forall_fmap_ext, Forall_forall.
  intros [k x] Hin. apply elem_of_map_to_list in Hin. simpl. apply H; assumption.
Qed.

Lemma hashes_unique_pt l : hashes_unique l ↔ hu_pt l.
Proof.
  unfold hashes_unique, hu_pt. rewrite fmap_app, NoDup_app. unfold bonded_stakes.
  rewrite (NoDup_hashes_concat _ (NoDup_fst_map_to_list (dels l))). split.
  - intros (((H1 & H2) & H3 & _) & H4). split; [|split; [|split]].
    + intros a d Hd. apply (H1 (a, d)). apply elem_of_map_to_list; assumption.
    + intros a1 a2 d1 d2 s1 s2 Hd1 Hd2 Hs1 Hs2 Heq.
      apply (H2 (a1, d1) (a2, d2) s1 s2); try assumption; apply elem_of_map_to_list; assumption.
    + intros a d s k x Hd Hs Hf Heq. apply (H3 (s_hash s)).
      * apply elem_of_hashes_concat. exists (a, d), s. split; [apply elem_of_map_to_list; assumption | auto].
      * rewrite (frozen_hashes_keys l H4). apply elem_of_list_fmap. exists (k, x).
        split; [simpl; congruence | apply elem_of_map_to_list; assumption].
    + exact H4.
  - intros (H1 & H2 & H3 & H4). split; [|exact H4]. split; [split|split].
    + intros [a d] Hin. apply elem_of_map_to_list in Hin. eapply H1; eassumption.
    + intros [a1 d1] [a2 d2] s1 s2 Hin1 Hin2. apply elem_of_map_to_list in Hin1, Hin2. simpl.
      eapply H2; eassumption.
    + intros h Hh Hh'. apply elem_of_hashes_concat in Hh as ([a d] & s & Hin & Hs & <-).
      apply elem_of_map_to_list in Hin.
      rewrite (frozen_hashes_keys l H4) in Hh'. apply elem_of_list_fmap in Hh' as ([k x] & Hk & Hin').
      apply elem_of_map_to_list in Hin'. simpl in Hk. eapply H3; eauto.
    + rewrite (frozen_hashes_keys l H4). apply NoDup_fst_map_to_list.
Qed.

(* ================================================================== 5. (C1) who can release a bonded stake *)
Lemma remove_stake_elem_ne h l s0 st :
  find_stake h l = Some s0 → st ∈ l → st ≠ s0 → st ∈ remove_stake h l.
Proof.
  induction l as [|s r IH]; simpl; [discriminate|].
  destruct (s_hash s =? h)%N.
  - intros [= <-] Hin Hne. apply elem_of_cons in Hin as [-> | Hin]; [contradiction | assumption].
  - intros Hf Hin Hne. apply elem_of_cons in Hin as [-> | Hin]; [left | right; apply IH; assumption].
Qed.

Lemma sum_power_of_bounds a l : (∀ s, s ∈ l → 0 ≤ s_power s) → 0 ≤ sum_power_of a l ≤ sum_power l.
Proof.
  induction l as [|s r IH]; intros H; simpl; [lia|].
  assert (0 ≤ s_power s) by (apply H; left).
  assert (0 ≤ sum_power_of a r ≤ sum_power r) by (apply IH; intros x Hx; apply H; right; assumption).
  destruct (s_from s =? a)%N; lia.
Qed.

(* the exact rule of the model, for any outcome of the delivery *)
Theorem release_only_by_owner s t s' r st :
  deliver s t = (s', r) → st ∈ bonded_stakes (work s) → st ∉ bonded_stakes (work s') →
  t_type t = TRX_UNSTAKING ∧ t_sigok t = true ∧
  ∃ d hs b s0,
    dels (work s) !! t_to t = Some d ∧ t_payload t = PUnstake hs b ∧
    find_stake hs (d_stakes d) = Some s0 ∧ s_from s0 = t_from t ∧ st ∈ d_stakes d ∧
    (st = s0 ∨ d_self (del_stake d hs) = 0 ∨ d_total (del_stake d hs) = 0).
Proof.
  intros Hdel Hin Hout.
  apply deliver_frame in Hdel as (_ & _ & _ & _ & _ & [[HD _] | (s2 & l & l' & Hsig & _ & _ & [HD _] & Hex & [HD' _])]).
  { exfalso. apply Hout. apply elem_of_bonded. rewrite HD. apply elem_of_bonded. exact Hin. }
  apply elem_of_bonded in Hin as (a & d & Hd & Hst). rewrite <- HD in Hd.
  assert (Hout' : ∀ d', dels l' !! a = Some d' → st ∉ d_stakes d').
  { intros d' Hd' Hst'. apply Hout, elem_of_bonded. exists a, d'. rewrite HD'. auto. }
  apply stake_execute_inv in Hex as [(Hty & d0 & Hd0 & HDl & _) | [(Hty & d0 & hs & b & s0 & Hd0 & Hp & Hf & Hown & HDl & _) | (_ & _ & HDl & _)]].
  - (* staking only adds *)
    exfalso. destruct (decide (t_to t = a)) as [Ha|Ha].
    + apply (Hout' (add_stake d0 (stake_of_tx t (b_height (bctx s2)) (power_of (t_amount t))))).
      * rewrite HDl, Ha. apply lookup_insert.
      * destruct Hd0 as [Hd0 | (Hd0 & _)]; rewrite Ha in Hd0; [|congruence].
        assert (d0 = d) by congruence. subst d0. simpl. apply elem_of_app. left; assumption.
    + apply (Hout' d); [|assumption]. rewrite HDl, lookup_insert_ne by assumption. assumption.
  - split; [assumption|]. split; [assumption|]. exists d0, hs, b, s0. rewrite <- HD.
    destruct (decide (t_to t = a)) as [Ha|Ha].
    2:{ exfalso. apply (Hout' d); [|assumption]. rewrite HDl. unfold unstake_result; cbv zeta; simpl.
        destruct (_ =? 0); [rewrite lookup_delete_ne by assumption | rewrite lookup_insert_ne by assumption]; assumption. }
    rewrite Ha in Hd0. assert (d0 = d) by congruence. subst d0. rewrite Ha.
    do 5 (split; [assumption|]).
    destruct (decide (st = s0)) as [|Hne]; [left; assumption|]. right.
    destruct (Z.eq_dec (d_self (del_stake d hs)) 0) as [Hs0|Hs0]; [left; assumption|]. right.
    destruct (Z.eq_dec (d_total (del_stake d hs)) 0) as [Ht0|Ht0]; [assumption|]. exfalso.
    apply (Hout' (del_stake d hs)).
    + rewrite HDl. unfold unstake_result; cbv zeta; simpl.
      apply Z.eqb_neq in Hs0, Ht0. rewrite Hs0, Ht0, Ha. apply lookup_insert.
    + unfold del_stake. rewrite Hf. simpl. apply (remove_stake_elem_ne hs _ s0); assumption.
  - exfalso. apply (Hout' d); [|assumption]. rewrite HDl. assumption.
Qed.
Print Assumptions release_only_by_owner.

(* the intended reading: the named stake belongs to the signer; other stakes go only when the
   delegatee thereby lost all its own power (force release) *)
Corollary unstake_only_owner s t s' g st :
  dels_ok (work s) → (∀ x, x ∈ bonded_stakes (work s) → 0 ≤ s_power x) →
  deliver s t = (s', Ok g) → st ∈ bonded_stakes (work s) → st ∉ bonded_stakes (work s') →
  t_type t = TRX_UNSTAKING ∧ t_sigok t = true ∧
  ∃ d hs b s0,
    dels (work s) !! t_to t = Some d ∧ t_payload t = PUnstake hs b ∧ s_to st = t_to t ∧
    find_stake hs (d_stakes d) = Some s0 ∧ s_from s0 = t_from t ∧
    (st = s0 ∨ sum_power_of (t_to t) (remove_stake hs (d_stakes d)) = 0).
Proof.
  intros Hok Hpos Hdel Hin Hout.
  destruct (release_only_by_owner _ _ _ _ _ Hdel Hin Hout) as (Hty & Hsig & d & hs & b & s0 & Hd & Hp & Hf & Hown & Hst & Hcase).
  split; [assumption|]. split; [assumption|]. exists d, hs, b, s0.
  pose proof (Hok _ _ Hd) as Hdok. destruct Hdok as (_ & _ & _ & Hto).
  rewrite Forall_forall in Hto.
  do 2 (split; [assumption|]). split; [apply Hto; assumption|]. do 2 (split; [assumption|]).
  destruct Hcase as [-> | Hcase]; [left; reflexivity|]. right.
  destruct (del_stake_ok _ _ hs (Hok _ _ Hd)) as (_ & Ht & Hs & _).
  unfold del_stake in *. rewrite Hf in *. simpl in *.
  destruct Hcase as [H0 | H0]; [congruence|].
  assert (Hb : 0 ≤ sum_power_of (t_to t) (remove_stake hs (d_stakes d)) ≤ sum_power (remove_stake hs (d_stakes d))).
  { apply sum_power_of_bounds. intros x Hx. apply Hpos, elem_of_bonded. exists (t_to t), d. split; [assumption|].
    eapply sublist_elem; [apply remove_stake_sublist | exact Hx]. }
  lia.
Qed.
Print Assumptions unstake_only_owner.

(* ================================================================== 6. how stakes move: one relation for C11/C12 *)
Lemma sublist_NoDup' {A} (l k : list A) : l `sublist_of` k → NoDup k → NoDup l.
Proof.
  induction 1 as [|x l k H IH|x l k H IH]; intros Hk; [constructor| |].
  - apply NoDup_cons in Hk as [Hx Hk]. apply NoDup_cons. split; [|auto].
    intros Hin. apply Hx. eapply sublist_elem; eassumption.
  - apply NoDup_cons in Hk as [_ Hk]. auto.
Qed.

Lemma remove_stake_hash_notin h l : NoDup (s_hash <$> l) → h ∉ s_hash <$> remove_stake h l.
Proof.
  induction l as [|s r IH]; simpl; [intros _ H; inversion H|].
  intros Hnd. apply NoDup_cons in Hnd as [Hs Hnd].
  destruct (s_hash s =? h)%N eqn:E.
  - apply N.eqb_eq in E. subst h. exact Hs.
  - apply N.eqb_neq in E. simpl. intros Hin. apply elem_of_cons in Hin as [Hin | Hin]; [congruence | apply IH; assumption].
Qed.

Lemma elem_hash_fmap (l : list stake) s : s ∈ l → s_hash s ∈ s_hash <$> l.
Proof. intros H. apply elem_of_list_fmap. eauto. Qed.

Lemma NoDup_hash_inj (l : list stake) x y : NoDup (s_hash <$> l) → x ∈ l → y ∈ l → s_hash x = s_hash y → x = y.
Proof.
  induction l as [|s r IH]; simpl; intros Hnd Hx Hy Heq; [inversion Hx|].
  apply NoDup_cons in Hnd as [Hs Hnd].
  apply elem_of_cons in Hx as [-> | Hx]; apply elem_of_cons in Hy as [-> | Hy].
  - reflexivity.
  - exfalso. apply Hs. rewrite Heq. apply elem_hash_fmap; assumption.
  - exfalso. apply Hs. rewrite <- Heq. apply elem_hash_fmap; assumption.
  - apply IH; assumption.
Qed.

Lemma with_refund_hash R s : s_hash (with_refund R s) = s_hash s. Proof. reflexivity. Qed.

Lemma freeze_all_lookup ss : ∀ F R k x, freeze_all F R ss !! k = Some x →
  F !! k = Some x ∨ ∃ st, st ∈ ss ∧ k = s_hash st ∧ x = with_refund R st.
Proof.
  unfold freeze_all. induction ss as [|s ss IH]; intros F R k x; simpl; [auto|].
  intros H. apply IH in H as [H | (st & H1 & H2 & H3)].
  - apply lookup_insert_Some in H as [[<- <-] | [_ H]]; [|auto].
    right. exists s. split; [left|]. auto.
  - right. exists st. split; [right; assumption | auto].
Qed.

Lemma freeze_all_keep ss : ∀ F R k, (∀ st, st ∈ ss → s_hash st ≠ k) → freeze_all F R ss !! k = F !! k.
Proof.
  unfold freeze_all. induction ss as [|s ss IH]; intros F R k H; simpl; [reflexivity|].
  rewrite IH by (intros st Hst; apply H; right; assumption).
  apply lookup_insert_ne. apply H; left.
Qed.

Lemma freeze_all_new ss : ∀ F R st, NoDup (s_hash <$> ss) → st ∈ ss →
  freeze_all F R ss !! s_hash st = Some (with_refund R st).
Proof.
  unfold freeze_all. induction ss as [|s ss IH]; intros F R st Hnd Hin; simpl; [inversion Hin|].
  simpl in Hnd. apply NoDup_cons in Hnd as [Hs Hnd].
  apply elem_of_cons in Hin as [-> | Hin]; [|apply IH; assumption].
  change (freeze_all (<[s_hash s:=with_refund R s]> F) R ss !! s_hash s = Some (with_refund R s)).
  rewrite freeze_all_keep; [apply lookup_insert|].
  intros st Hst Heq. apply Hs. rewrite <- Heq. apply elem_hash_fmap; assumption.
Qed.

(* the relation [Q] says what may happen to a stake that stays: nothing (eq), or a power cut *)
Definition stake_sim (x y : stake) : Prop :=
  s_from x = s_from y ∧ s_to x = s_to y ∧ s_hash x = s_hash y ∧ s_start x = s_start y ∧ s_refund x = s_refund y.
Record Qok (Q : stake → stake → Prop) : Prop := {
  Q_refl : ∀ x, Q x x;
  Q_trans : ∀ x y z, Q x y → Q y z → Q x z;
  Q_hash : ∀ x y, Q x y → s_hash x = s_hash y }.
Lemma Qok_eq : Qok eq.
Proof. split; [reflexivity | intros; congruence | intros ? ? ->; reflexivity]. Qed.
Lemma Qok_sim : Qok stake_sim.
Proof.
  split.
  - intros x; repeat split.
  - intros x y z (?&?&?&?&?) (?&?&?&?&?); repeat split; congruence.
  - intros x y (_&_&H&_); exact H.
Qed.

Definition evolves (Q : stake → stake → Prop) (R : Z) (l l' : ledgers) : Prop :=
  (∀ a d', dels l' !! a = Some d' → ∃ d, dels l !! a = Some d ∧
      (s_hash <$> d_stakes d') `sublist_of` (s_hash <$> d_stakes d) ∧
      ∀ s', s' ∈ d_stakes d' → ∃ s, s ∈ d_stakes d ∧ Q s s') ∧
  (∀ k x, frozen l' !! k = Some x → frozen l !! k = Some x ∨
      ∃ a d s0 s, dels l !! a = Some d ∧ s0 ∈ d_stakes d ∧ Q s0 s ∧ x = with_refund R s ∧ k = s_hash s0 ∧
        (NoDup (s_hash <$> d_stakes d) → ∀ d', dels l' !! a = Some d' → k ∉ s_hash <$> d_stakes d')).

Lemma evolves_refl Q R l : Qok Q → evolves Q R l l.
Proof.
  intros HQ. split.
  - intros a d Hd. exists d. split; [assumption|]. split; [reflexivity|].
    intros s Hs. exists s. split; [assumption | apply (Q_refl _ HQ)].
  - intros k x H; left; exact H.
Qed.

Lemma evolves_sf Q R l1 l1' l2 l2' : same_sf l1 l1' → same_sf l2 l2' → evolves Q R l1 l2 → evolves Q R l1' l2'.
Proof. intros [H1 H2] [H3 H4]. unfold evolves. rewrite H1, H2, H3, H4. auto. Qed.

Lemma evolves_trans Q R l1 l2 l3 : Qok Q → evolves Q R l1 l2 → evolves Q R l2 l3 → evolves Q R l1 l3.
Proof.
  intros HQ [A1 B1] [A2 B2]. split.
  - intros a d3 Hd3. destruct (A2 _ _ Hd3) as (d2 & Hd2 & Hsub2 & Hq2).
    destruct (A1 _ _ Hd2) as (d1 & Hd1 & Hsub1 & Hq1). exists d1. split; [assumption|]. split; [etrans; eassumption|].
    intros s3 Hs3. destruct (Hq2 _ Hs3) as (s2 & Hs2 & Hq). destruct (Hq1 _ Hs2) as (s1 & Hs1 & Hq').
    exists s1. split; [assumption | eapply (Q_trans _ HQ); eassumption].
  - intros k x H3. destruct (B2 _ _ H3) as [H2 | (a & d2 & s0 & s & Hd2 & Hs0 & Hq & -> & -> & Hnot)].
    + destruct (B1 _ _ H2) as [H1 | (a & d1 & s0 & s & Hd1 & Hs0 & Hq & -> & -> & Hnot)]; [left; assumption|].
      right. exists a, d1, s0, s. do 5 (split; [assumption || reflexivity|]).
      intros Hnd d3 Hd3 Hin. destruct (A2 _ _ Hd3) as (d2 & Hd2 & Hsub2 & _).
      apply (Hnot Hnd d2 Hd2). eapply sublist_elem; eassumption.
    + destruct (A1 _ _ Hd2) as (d1 & Hd1 & Hsub1 & Hq1). destruct (Hq1 _ Hs0) as (s1 & Hs1 & Hq').
      right. exists a, d1, s1, s. split; [assumption|]. split; [assumption|].
      split; [eapply (Q_trans _ HQ); eassumption|]. split; [reflexivity|].
      split; [symmetry; apply (Q_hash _ HQ); assumption|].
      intros Hnd. apply Hnot. eapply sublist_NoDup'; eassumption.
Qed.

Lemma evolves_weaken (Q Q' : stake → stake → Prop) R l l' :
  (∀ x y, Q x y → Q' x y) → evolves Q R l l' → evolves Q' R l l'.
Proof.
  intros HQ [A B]. split.
  - intros a d' Hd'. destruct (A _ _ Hd') as (d & Hd & Hsub & Hq). exists d. split; [assumption|]. split; [assumption|].
    intros s' Hs'. destruct (Hq _ Hs') as (s & Hs & Hqs). eauto.
  - intros k x H. destruct (B _ _ H) as [H' | (a & d & s0 & s & H1 & H2 & H3 & H4)]; [left; assumption|].
    right. exists a, d, s0, s. auto.
Qed.

(* ------------------------------------------------------------------ every stake-moving step is an evolution *)
Lemma unstake_result_lookup_ne D F a d hs s0 R a' : a' ≠ a → (unstake_result D F a d hs s0 R).1 !! a' = D !! a'.
Proof.
  intros Hne. unfold unstake_result; cbv zeta; simpl.
  destruct (_ =? 0); [apply lookup_delete_ne | apply lookup_insert_ne]; congruence.
Qed.

Lemma unstake_result_lookup_eq D F a d hs s0 R d' :
  find_stake hs (d_stakes d) = Some s0 → (unstake_result D F a d hs s0 R).1 !! a = Some d' →
  d_stakes d' `sublist_of` remove_stake hs (d_stakes d) ∧ (d_self (del_stake d hs) = 0 → d_stakes d' = []).
Proof.
  intros Hf. unfold unstake_result; cbv zeta; simpl.
  destruct (_ =? 0) eqn:Et; [rewrite lookup_delete; discriminate|].
  rewrite lookup_insert. intros [= <-].
  destruct (d_self (del_stake d hs) =? 0) eqn:Es.
  - simpl. split; [apply sublist_nil_l | reflexivity].
  - apply Z.eqb_neq in Es. unfold del_stake in *. rewrite Hf in *. simpl in *. split; [reflexivity | contradiction].
Qed.

Lemma unstake_result_frozen D F a d hs s0 R k x :
  find_stake hs (d_stakes d) = Some s0 → (unstake_result D F a d hs s0 R).2 !! k = Some x →
  F !! k = Some x ∨ (k = s_hash s0 ∧ x = with_refund R s0) ∨
  (d_self (del_stake d hs) = 0 ∧ ∃ st, st ∈ remove_stake hs (d_stakes d) ∧ k = s_hash st ∧ x = with_refund R st).
Proof.
  intros Hf. unfold unstake_result; cbv zeta; simpl.
  assert (H1 : ∀ k x, <[s_hash s0 := with_refund R s0]> F !! k = Some x → F !! k = Some x ∨ (k = s_hash s0 ∧ x = with_refund R s0)).
  { intros k' x' H. apply lookup_insert_Some in H as [[<- <-] | [_ H]]; auto. }
  destruct (d_self (del_stake d hs) =? 0) eqn:Es.
  - intros H. apply freeze_all_lookup in H as [H | (st & Hst & -> & ->)].
    + destruct (H1 _ _ H) as [H' | H']; auto.
    + right; right. apply Z.eqb_eq in Es. split; [assumption|]. exists st.
      unfold del_stake in Hst. rewrite Hf in Hst. simpl in Hst. auto.
  - intros H. destruct (H1 _ _ H) as [H' | H']; auto.
Qed.

Lemma ev_unstake Q R l l' a d hs s0 : Qok Q →
  dels l !! a = Some d → find_stake hs (d_stakes d) = Some s0 →
  dels l' = (unstake_result (dels l) (frozen l) a d hs s0 R).1 →
  frozen l' = (unstake_result (dels l) (frozen l) a d hs s0 R).2 →
  evolves Q R l l'.
Proof.
  intros HQ Hd Hf HD HF. destruct (find_stake_spec _ _ _ Hf) as [Hin0 Hh0].
  assert (Hsame : ∀ (d0 : delegatee), ∀ s', s' ∈ d_stakes d0 → ∃ s, s ∈ d_stakes d0 ∧ Q s s').
  { intros d0 s' Hs'. exists s'. split; [assumption | apply (Q_refl _ HQ)]. }
  split.
  - intros a' d' Hd'. rewrite HD in Hd'. destruct (decide (a' = a)) as [->|Hne].
    + apply unstake_result_lookup_eq in Hd' as [Hsub _]; [|assumption].
      exists d. split; [assumption|].
      assert (Hsub' : d_stakes d' `sublist_of` d_stakes d) by (etrans; [exact Hsub | apply remove_stake_sublist]).
      split; [apply fmap_sublist; assumption|].
      intros s' Hs'. exists s'. split; [eapply sublist_elem; eassumption | apply (Q_refl _ HQ)].
    + rewrite unstake_result_lookup_ne in Hd' by assumption. exists d'. split; [assumption|]. split; [reflexivity | apply Hsame].
  - intros k x Hk. rewrite HF in Hk. apply unstake_result_frozen in Hk as [Hk | [[-> ->] | (Hs & st & Hst & -> & ->)]]; [left; assumption| | |assumption].
    + right. exists a, d, s0, s0. do 2 (split; [assumption|]). split; [apply (Q_refl _ HQ)|]. do 2 (split; [reflexivity|]).
      intros Hnd d' Hd'. rewrite HD in Hd'. apply unstake_result_lookup_eq in Hd' as [Hsub _]; [|assumption].
      intros Hin. apply (remove_stake_hash_notin hs _ Hnd). rewrite Hh0 in Hin.
      eapply sublist_elem; [apply fmap_sublist; exact Hsub | exact Hin].
    + right. exists a, d, st, st. split; [assumption|].
      split; [eapply sublist_elem; [apply remove_stake_sublist | exact Hst]|].
      split; [apply (Q_refl _ HQ)|]. do 2 (split; [reflexivity|]).
      intros _ d' Hd'. rewrite HD in Hd'. apply unstake_result_lookup_eq in Hd' as [_ Hnil]; [|assumption].
      rewrite (Hnil Hs). simpl. intros Hin; inversion Hin.
Qed.

Lemma ev_insert_sub Q R l a d d' : Qok Q → dels l !! a = Some d →
  (s_hash <$> d_stakes d') `sublist_of` (s_hash <$> d_stakes d) →
  (∀ s', s' ∈ d_stakes d' → ∃ s, s ∈ d_stakes d ∧ Q s s') →
  evolves Q R l (set_dels l (<[a := d']> (dels l))).
Proof.
  intros HQ Hd Hsub Hq. split.
  - intros a' d'' Hd''. rewrite dels_set_dels in Hd''. destruct (decide (a' = a)) as [->|Hne].
    + rewrite lookup_insert in Hd''. injection Hd'' as <-. exists d. auto.
    + rewrite lookup_insert_ne in Hd'' by congruence. exists d''. split; [assumption|]. split; [reflexivity|].
      intros s' Hs'. exists s'. split; [assumption | apply (Q_refl _ HQ)].
  - intros k x H. left; exact H.
Qed.

Lemma ev_marks Q R l a d m : Qok Q → dels l !! a = Some d → evolves Q R l (set_dels l (<[a := with_marks d m]> (dels l))).
Proof.
  intros HQ Hd. apply (ev_insert_sub Q R l a d); [assumption|assumption|reflexivity|].
  intros s' Hs'. exists s'. split; [assumption | apply (Q_refl _ HQ)].
Qed.

Lemma ev_slash Q R l a d ratio : Qok Q →
  (∀ s, Q s (with_power (s_power s - (s_power s * ratio) `quot` 100) s)) → dels l !! a = Some d →
  evolves Q R l (set_dels l (<[a := (slash_all d ratio).1]> (dels l))).
Proof.
  intros HQ Hp Hd. apply (ev_insert_sub Q R l a d); [assumption|assumption| |].
  - unfold slash_all; simpl.
    etrans; [apply fmap_sublist, foldl_remove_sublist|].
    rewrite <- list_fmap_compose. erewrite list_fmap_ext; [reflexivity|].
    intros i s _. simpl. destruct (_ <? 1); reflexivity.
  - unfold slash_all; simpl. intros s' Hs'.
    apply (sublist_elem _ _ _ (foldl_remove_sublist _ _)) in Hs'.
    apply elem_of_list_fmap in Hs' as (s & -> & Hs). exists s. split; [assumption|].
    destruct (_ <? 1); [apply (Q_refl _ HQ) | apply Hp].
Qed.

Lemma ev_jail Q R l a d : Qok Q → dels l !! a = Some d → evolves Q R l (jail l a d R).
Proof.
  intros HQ Hd. unfold jail. split.
  - intros a' d' Hd'. rewrite dels_set_dels in Hd'. apply lookup_delete_Some in Hd' as [_ Hd'].
    exists d'. split; [assumption|]. split; [reflexivity|].
    intros s' Hs'. exists s'. split; [assumption | apply (Q_refl _ HQ)].
  - intros k x H. rewrite frozen_set_dels, frozen_set_frozen in H.
    apply freeze_all_lookup in H as [H | (st & Hst & -> & ->)]; [left; assumption|].
    right. exists a, d, st, st. do 2 (split; [assumption|]). split; [apply (Q_refl _ HQ)|]. do 2 (split; [reflexivity|]).
    intros _ d' Hd'. rewrite dels_set_dels, lookup_delete in Hd'. discriminate.
Qed.

Lemma ev_shrink Q R l l' : Qok Q → dels l' = dels l → (∀ k x, frozen l' !! k = Some x → frozen l !! k = Some x) →
  evolves Q R l l'.
Proof.
  intros HQ HD HF. split.
  - intros a d Hd. rewrite HD in Hd. exists d. split; [assumption|]. split; [reflexivity|].
    intros s' Hs'. exists s'. split; [assumption | apply (Q_refl _ HQ)].
  - intros k x H. left. apply HF; assumption.
Qed.

(* ------------------------------------------------------------------ consequences of an evolution *)
Lemma hash_in_sub (l k : list stake) s : (s_hash <$> l) `sublist_of` (s_hash <$> k) → s ∈ l → ∃ sz, sz ∈ k ∧ s_hash sz = s_hash s.
Proof.
  intros Hsub Hs. apply elem_hash_fmap in Hs. apply (sublist_elem _ _ _ Hsub) in Hs.
  apply elem_of_list_fmap in Hs as (sz & Heq & Hin). eauto.
Qed.

Lemma hu_pt_evolves Q R l l' : Qok Q → hu_pt l → evolves Q R l l' → hu_pt l'.
Proof.
  intros HQ (U1 & U2 & U3 & U4) [A B]. split; [|split; [|split]].
  - intros a d' Hd'. destruct (A _ _ Hd') as (d & Hd & Hsub & _).
    eapply sublist_NoDup'; [exact Hsub | eapply U1; exact Hd].
  - intros a1 a2 d1' d2' s1 s2 Hd1' Hd2' Hs1 Hs2 Heq.
    destruct (A _ _ Hd1') as (d1 & Hd1 & Hsub1 & _). destruct (A _ _ Hd2') as (d2 & Hd2 & Hsub2 & _).
    destruct (hash_in_sub _ _ _ Hsub1 Hs1) as (s1z & Hin1 & Hh1).
    destruct (hash_in_sub _ _ _ Hsub2 Hs2) as (s2z & Hin2 & Hh2).
    eapply (U2 a1 a2 d1 d2 s1z s2z); try eassumption. congruence.
  - intros a' d' s' k x Hd' Hs' Hk Heq.
    destruct (A _ _ Hd') as (dz & Hdz & Hsub & _). destruct (hash_in_sub _ _ _ Hsub Hs') as (sz & Hinz & Hhz).
    destruct (B _ _ Hk) as [Hold | (a & d & s0 & s & Hd & Hs0 & Hq & -> & -> & Hnot)].
    + eapply (U3 a' dz sz k x); try eassumption. congruence.
    + assert (a' = a) by (eapply (U2 a' a dz d sz s0); try eassumption; congruence). subst a'.
      assert (dz = d) by congruence. subst dz.
      apply (Hnot (U1 _ _ Hd) d' Hd'). rewrite <- Heq. apply elem_hash_fmap; assumption.
  - intros k x Hk. destruct (B _ _ Hk) as [Hold | (a & d & s0 & s & Hd & Hs0 & Hq & -> & -> & _)]; [eapply U4; eassumption|].
    rewrite with_refund_hash. symmetry. apply (Q_hash _ HQ); assumption.
Qed.

(* where a bonded stake can be found afterwards (by hash): under its own delegatee, related by Q,
   or unbonding as a Q-related copy with the refund height R *)
Lemma evolves_fate Q R l l' a d st : Qok Q → hu_pt l → evolves Q R l l' →
  dels l !! a = Some d → st ∈ d_stakes d →
  (∀ a' d' st', dels l' !! a' = Some d' → st' ∈ d_stakes d' → s_hash st' = s_hash st → a' = a ∧ Q st st') ∧
  (∀ k x, frozen l' !! k = Some x → k = s_hash st → ∃ s, Q st s ∧ x = with_refund R s).
Proof.
  intros HQ (U1 & U2 & U3 & U4) [A B] Hd Hst. split.
  - intros a' d' st' Hd' Hst' Heq. destruct (A _ _ Hd') as (dz & Hdz & _ & Hq). destruct (Hq _ Hst') as (sz & Hsz & Hqs).
    pose proof (Q_hash _ HQ _ _ Hqs) as Hh.
    assert (a' = a) by (eapply (U2 a' a dz d sz st); try eassumption; congruence). subst a'.
    assert (dz = d) by congruence. subst dz.
    assert (sz = st) by (eapply NoDup_hash_inj; [eapply U1; exact Hd | assumption | assumption | congruence]). subst sz.
    auto.
  - intros k x Hk ->. destruct (B _ _ Hk) as [Hold | (a' & d' & s0 & s & Hd' & Hs0 & Hq & -> & Hh & _)].
    + exfalso. eapply (U3 a d st); [exact Hd | exact Hst | exact Hold | reflexivity].
    + assert (a' = a) by (eapply (U2 a' a d' d s0 st); try eassumption; congruence). subst a'.
      assert (d' = d) by congruence. subst d'.
      assert (s0 = st) by (eapply NoDup_hash_inj; [eapply U1; exact Hd | assumption | assumption | congruence]). subst s0.
      eauto.
Qed.

(* ------------------------------------------------------------------ the operations as evolutions *)
Lemma hu_pt_sf l l' : same_sf l l' → hu_pt l → hu_pt l'.
Proof. intros [H1 H2]. unfold hu_pt. rewrite H1, H2. auto. Qed.

Lemma deliver_moves s t s' r : deliver s t = (s', r) →
  evolves eq (release_height s) (work s) (work s') ∨
  (t_type t = TRX_STAKING ∧ ∃ d,
     (dels (work s) !! t_to t = Some d ∨
      (dels (work s) !! t_to t = None ∧ t_from t = t_to t ∧ d = new_delegatee (t_to t))) ∧
     dels (work s') = <[t_to t := add_stake d (stake_of_tx t (b_height (bctx s)) (power_of (t_amount t)))]> (dels (work s)) ∧
     frozen (work s') = frozen (work s)).
Proof.
  intros Hdel.
  apply deliver_frame in Hdel as (_ & _ & _ & _ & _ & [Hsf | (s2 & l & l' & _ & Hg & Hh & Hsf & Hex & Hsf')]).
  { left. eapply evolves_sf; [apply same_sf_refl | exact Hsf | apply evolves_refl, Qok_eq]. }
  assert (HR : release_height s2 = release_height s) by (unfold release_height; congruence).
  destruct Hsf as [HD HF]. destruct Hsf' as [HD' HF'].
  apply stake_execute_inv in Hex as [(Hty & d & Hd & HDl & HFl) | [(Hty & d & hs & b & s0 & Hd & _ & Hf & _ & HDl & HFl) | (_ & _ & Hsame)]].
  - right. split; [assumption|]. exists d. rewrite HD in Hd, HDl. rewrite HF in HFl. rewrite Hh in HDl.
    split; [assumption|]. split; congruence.
  - left. rewrite HR in HDl, HFl.
    apply (evolves_sf eq _ l (work s) l' (work s')); [split; congruence | split; assumption |].
    eapply ev_unstake; [apply Qok_eq | exact Hd | exact Hf | exact HDl | exact HFl].
  - left. eapply evolves_sf; [apply same_sf_refl | | apply evolves_refl, Qok_eq].
    eapply same_sf_trans; [split; [exact HD | exact HF]|]. eapply same_sf_trans; [exact Hsame | split; assumption].
Qed.

Definition block_release_height (s : state) (hd : header) : Z := h_height hd + g_lazyRewardBlocks (gparams s).

Lemma begin_block_evolves s hd :
  evolves stake_sim (block_release_height s hd) (work s) (work (begin_block s hd).1).
Proof.
  apply (begin_block_ind (λ l, evolves stake_sim (block_release_height s hd) (work s) l)).
  - intros l l' Hsf H. eapply evolves_sf; [apply same_sf_refl | exact Hsf | exact H].
  - apply evolves_refl, Qok_sim.
  - intros l a d _ H Hd. eapply evolves_trans; [apply Qok_sim | exact H |].
    apply ev_slash; [apply Qok_sim | | assumption]. intros x; repeat split.
  - intros l a d m H Hd. eapply evolves_trans; [apply Qok_sim | exact H | apply ev_marks; [apply Qok_sim | assumption]].
  - intros l a d _ H Hd. eapply evolves_trans; [apply Qok_sim | exact H | apply ev_jail; [apply Qok_sim | assumption]].
Qed.

(* without evidence in the header nothing is slashed: stakes stay exactly as they are *)
Lemma begin_block_evolves_noevidence s hd : h_evidence hd = [] →
  evolves eq (block_release_height s hd) (work s) (work (begin_block s hd).1).
Proof.
  intros Hev. apply (begin_block_ind (λ l, evolves eq (block_release_height s hd) (work s) l)).
  - intros l l' Hsf H. eapply evolves_sf; [apply same_sf_refl | exact Hsf | exact H].
  - apply evolves_refl, Qok_eq.
  - intros l a d Hin. rewrite Hev in Hin. inversion Hin.
  - intros l a d m H Hd. eapply evolves_trans; [apply Qok_eq | exact H | apply ev_marks; [apply Qok_eq | assumption]].
  - intros l a d _ H Hd. eapply evolves_trans; [apply Qok_eq | exact H | apply ev_jail; [apply Qok_eq | assumption]].
Qed.

Lemma end_block_evolves s R : evolves eq R (work s) (work (end_block s).1).
Proof.
  destruct (end_block s) as [s' r] eqn:E; simpl.
  apply end_block_inv in E as [[-> _] | (ups & l3 & _ & [HD HF] & _ & _ & Hun & _)]; [apply evolves_refl, Qok_eq|].
  rewrite unfreeze_unfold in Hun. apply unfreeze_list_spec in Hun as (HD' & HF' & _).
  apply ev_shrink; [apply Qok_eq | congruence|].
  intros k x. rewrite HF'. destruct (existsb _ _); [discriminate | rewrite HF; auto].
Qed.

(* ================================================================== 7. (B1) uniqueness of hashes under fresh staking hashes *)
Lemma hu_pt_add l l' a d st :
  hu_pt l →
  (dels l !! a = Some d ∨ (dels l !! a = None ∧ d_stakes d = [])) →
  (∀ a0 d0 s0, dels l !! a0 = Some d0 → s0 ∈ d_stakes d0 → s_hash s0 ≠ s_hash st) →
  (∀ k x, frozen l !! k = Some x → k ≠ s_hash st) →
  dels l' = <[a := add_stake d st]> (dels l) → frozen l' = frozen l → hu_pt l'.
Proof.
  intros (U1 & U2 & U3 & U4) Hd F1 F2 HD HF.
  assert (Hel : ∀ a' d' s', dels l' !! a' = Some d' → s' ∈ d_stakes d' →
            (s' = st ∧ a' = a) ∨ (∃ dz, dels l !! a' = Some dz ∧ s' ∈ d_stakes dz)).
  { intros a' d' s' Hd' Hs'. rewrite HD in Hd'. destruct (decide (a' = a)) as [->|Hne].
    - rewrite lookup_insert in Hd'. injection Hd' as <-. simpl in Hs'.
      apply elem_of_app in Hs' as [Hs' | Hs'].
      + destruct Hd as [Hd | [_ Hd]]; [right; eauto | rewrite Hd in Hs'; inversion Hs'].
      + apply elem_of_list_singleton in Hs'. left; auto.
    - rewrite lookup_insert_ne in Hd' by congruence. right; eauto. }
  split; [|split; [|split]].
  - intros a' d' Hd'. rewrite HD in Hd'. destruct (decide (a' = a)) as [->|Hne].
    + rewrite lookup_insert in Hd'. injection Hd' as <-. simpl. rewrite fmap_app. apply NoDup_app. split; [|split].
      * destruct Hd as [Hd | [_ Hd]]; [eapply U1; exact Hd | rewrite Hd; constructor].
      * intros h Hh Hh'. simpl in Hh'. apply elem_of_list_singleton in Hh'. subst h.
        apply elem_of_list_fmap in Hh as (s0 & Heq & Hs0).
        destruct Hd as [Hd | [_ Hd]]; [eapply F1; eauto | rewrite Hd in Hs0; inversion Hs0].
      * simpl. apply NoDup_singleton.
    + rewrite lookup_insert_ne in Hd' by congruence. eapply U1; exact Hd'.
  - intros a1 a2 d1 d2 s1 s2 Hd1 Hd2 Hs1 Hs2 Heq.
    destruct (Hel _ _ _ Hd1 Hs1) as [[-> ->] | (dz1 & Hz1 & Hin1)];
      destruct (Hel _ _ _ Hd2 Hs2) as [[-> ->] | (dz2 & Hz2 & Hin2)].
    + reflexivity.
    + exfalso. eapply F1; [exact Hz2 | exact Hin2 | congruence].
    + exfalso. eapply F1; [exact Hz1 | exact Hin1 | congruence].
    + eapply (U2 a1 a2 dz1 dz2 s1 s2); eassumption.
  - intros a' d' s' k x Hd' Hs' Hk. rewrite HF in Hk.
    destruct (Hel _ _ _ Hd' Hs') as [[-> ->] | (dz & Hz & Hin)].
    + intros Heq. eapply F2; [exact Hk | congruence].
    + eapply U3; eassumption.
  - intros k x Hk. rewrite HF in Hk. eapply U4; exact Hk.
Qed.

(* the hypothesis on a run: a staking transaction that gets executed carries a hash no bonded
   or unbonding stake has (transaction hashes cover sender and nonce) *)
Definition fresh_tx (s : state) (t : tx) : Prop :=
  t_type t = TRX_STAKING → dels (work (deliver s t).1) ≠ dels (work s) →
  ∀ st, st ∈ bonded_stakes (work s) ++ frozen_stakes (work s) → s_hash st ≠ t_hash t.

Fixpoint fresh_run (s : state) (ops : list sop) : Prop :=
  match ops with
  | [] => True
  | o :: r => match o with SDeliver t => fresh_tx s t | _ => True end ∧ fresh_run (sstep s o) r
  end.

(* executable check, for the examples *)
Definition fresh_txb (s : state) (t : tx) : bool :=
  forallb (λ st, negb (s_hash st =? t_hash t)%N) (bonded_stakes (work s) ++ frozen_stakes (work s)).
Fixpoint fresh_runb (s : state) (ops : list sop) : bool :=
  match ops with
  | [] => true
  | o :: r => match o with SDeliver t => fresh_txb s t | _ => true end && fresh_runb (sstep s o) r
  end.
Lemma fresh_txb_ok s t : fresh_txb s t = true → fresh_tx s t.
Proof.
  unfold fresh_txb, fresh_tx. intros H _ _ st Hin. rewrite forallb_forall in H.
  apply elem_of_list_In, H in Hin. apply negb_true_iff, N.eqb_neq in Hin. exact Hin.
Qed.
Lemma fresh_runb_ok ops : ∀ s, fresh_runb s ops = true → fresh_run s ops.
Proof.
  induction ops as [|o ops IH]; intros s; simpl; [auto|].
  intros H. apply andb_true_iff in H as [H1 H2]. split; [|apply IH; assumption].
  destruct o; auto. apply fresh_txb_ok; assumption.
Qed.

Lemma deliver_hashes_unique s t : hashes_unique (work s) → fresh_tx s t → hashes_unique (work (deliver s t).1).
Proof.
  rewrite !hashes_unique_pt. intros Hu Hfresh. unfold fresh_tx in Hfresh.
  assert (E : deliver s t = ((deliver s t).1, (deliver s t).2)) by (destruct (deliver s t); reflexivity).
  set (s' := (deliver s t).1) in *. set (r := (deliver s t).2) in *. clearbody s' r.
  apply deliver_moves in E as [Hev | (Hty & d & Hd & HD & HF)].
  { eapply hu_pt_evolves; [apply Qok_eq | exact Hu | exact Hev]. }
  assert (Hne : dels (work s') ≠ dels (work s)).
  { rewrite HD. intros Heq.
    assert (Hl : dels (work s) !! t_to t = Some (add_stake d (stake_of_tx t (b_height (bctx s)) (power_of (t_amount t)))))
      by (rewrite <- Heq; apply lookup_insert).
    destruct Hd as [Hd | (Hd & _)]; [|congruence].
    rewrite Hd in Hl. injection Hl as Hl. apply (f_equal (λ x, length (d_stakes x))) in Hl.
    simpl in Hl. rewrite app_length in Hl. simpl in Hl. lia. }
  specialize (Hfresh Hty Hne).
  eapply (hu_pt_add (work s) (work s') (t_to t) d); [exact Hu | | | | exact HD | exact HF].
  - destruct Hd as [Hd | (Hd & _ & ->)]; [left; assumption | right; split; [assumption | reflexivity]].
  - intros a0 d0 s0 Hd0 Hs0. apply Hfresh. apply elem_of_app. left. apply elem_of_bonded. eauto.
  - intros k x Hk Heq. destruct Hu as (_ & _ & _ & U4). apply (Hfresh x).
    + apply elem_of_app. right. apply elem_of_frozen. eauto.
    + rewrite (U4 _ _ Hk). exact Heq.
Qed.

Lemma sstep_hashes_unique s o : hashes_unique (work s) →
  match o with SDeliver t => fresh_tx s t | _ => True end → hashes_unique (work (sstep s o)).
Proof.
  intros Hu Hf. destruct o as [hd|t| |]; simpl.
  - apply hashes_unique_pt. eapply hu_pt_evolves; [apply Qok_sim | apply hashes_unique_pt, Hu | apply begin_block_evolves].
  - apply deliver_hashes_unique; assumption.
  - apply hashes_unique_pt. eapply hu_pt_evolves; [apply Qok_eq | apply hashes_unique_pt, Hu | apply (end_block_evolves s 0)].
  - exact Hu.
Qed.

Theorem hashes_unique_run ops : ∀ s, hashes_unique (work s) → fresh_run s ops → hashes_unique (work (srun s ops)).
Proof.
  unfold srun. induction ops as [|o ops IH]; intros s Hu Hf; simpl; [exact Hu|].
  destruct Hf as [Hf1 Hf2]. apply IH; [apply sstep_hashes_unique; assumption | exact Hf2].
Qed.
Print Assumptions hashes_unique_run.

(* it holds from genesis when there is at most one genesis validator (all genesis stakes carry hash 0) *)
Lemma init_chain_hashes_unique g : (length (gen_validators g) ≤ 1)%nat → hashes_unique (work (init_chain g)).
Proof.
  intros Hlen. apply hashes_unique_pt.
  destruct (init_chain_pre_sf g) as (l2 & [HD HF] & ->).
  assert (H2 : hu_pt l2).
  { unfold hu_pt. rewrite HD, HF. simpl. repeat split; intros *; rewrite lookup_empty; discriminate. }
  destruct (gen_validators g) as [|v [|v' vs]]; simpl in *; [exact H2 | | lia].
  eapply (hu_pt_add l2 _ v.1 (new_delegatee v.1) (genesis_stake v)); [exact H2 | | | | reflexivity | reflexivity].
  - right. split; [rewrite HD; apply lookup_empty | reflexivity].
  - intros a0 d0 s0 Hd0. rewrite HD in Hd0. simpl in Hd0. rewrite lookup_empty in Hd0. discriminate.
  - intros k x Hk. rewrite HF in Hk. simpl in Hk. rewrite lookup_empty in Hk. discriminate.
Qed.

Theorem hashes_unique_reachable g ops :
  (length (gen_validators g) ≤ 1)%nat → fresh_run (init_chain g) ops →
  hashes_unique (work (srun (init_chain g) ops)).
Proof. intros Hlen Hf. apply hashes_unique_run; [apply init_chain_hashes_unique; assumption | exact Hf]. Qed.
Print Assumptions hashes_unique_reachable.

(* ================================================================== 8. (B3) a stake's fields while it stays *)
Lemma hu_pt_same_hash l x y : hu_pt l → x ∈ bonded_stakes l → y ∈ bonded_stakes l → s_hash x = s_hash y → x = y.
Proof.
  intros (U1 & U2 & _) Hx Hy Heq.
  apply elem_of_bonded in Hx as (a1 & d1 & Hd1 & Hx). apply elem_of_bonded in Hy as (a2 & d2 & Hd2 & Hy).
  assert (a1 = a2) by (eapply (U2 a1 a2 d1 d2 x y); eassumption). subst a2.
  assert (d1 = d2) by congruence. subst d2.
  eapply NoDup_hash_inj; [eapply U1; exact Hd1 | assumption | assumption | assumption].
Qed.

Lemma evolves_fate_lists Q R l l' st : Qok Q → hu_pt l → evolves Q R l l' → st ∈ bonded_stakes l →
  (∀ st', st' ∈ bonded_stakes l' → s_hash st' = s_hash st → Q st st') ∧
  (∀ st', st' ∈ frozen_stakes l' → s_hash st' = s_hash st → ∃ s1, Q st s1 ∧ st' = with_refund R s1).
Proof.
  intros HQ Hu Hev Hst. pose proof (hu_pt_evolves _ _ _ _ HQ Hu Hev) as (_ & _ & _ & U4').
  apply elem_of_bonded in Hst as (a & d & Hd & Hst).
  destruct (evolves_fate Q R l l' a d st HQ Hu Hev Hd Hst) as [F1 F2]. split.
  - intros st' Hin Heq. apply elem_of_bonded in Hin as (a' & d' & Hd' & Hin). eapply F1; eassumption.
  - intros st' Hin Heq. apply elem_of_frozen in Hin as (k & Hk). apply (F2 k st' Hk).
    rewrite <- (U4' _ _ Hk). exact Heq.
Qed.

(* every operation except a BeginBlock carrying evidence leaves all fields but the refund height *)
Theorem stake_unchanged_step s o st :
  hashes_unique (work s) →
  match o with SBegin hd => h_evidence hd = [] | SDeliver t => fresh_tx s t | _ => True end →
  st ∈ bonded_stakes (work s) →
  (∀ st', st' ∈ bonded_stakes (work (sstep s o)) → s_hash st' = s_hash st → st' = st) ∧
  (∀ st', st' ∈ frozen_stakes (work (sstep s o)) → s_hash st' = s_hash st → st' = with_refund (s_refund st') st).
Proof.
  intros Hu Ho Hst. apply hashes_unique_pt in Hu.
  assert (Hfrom_ev : ∀ R l', evolves eq R (work s) l' →
     (∀ st', st' ∈ bonded_stakes l' → s_hash st' = s_hash st → st' = st) ∧
     (∀ st', st' ∈ frozen_stakes l' → s_hash st' = s_hash st → st' = with_refund (s_refund st') st)).
  { intros R l' Hev. destruct (evolves_fate_lists eq R _ _ st Qok_eq Hu Hev Hst) as [F1 F2]. split.
    - intros st' Hin Heq. symmetry. apply F1; assumption.
    - intros st' Hin Heq. destruct (F2 st' Hin Heq) as (s1 & <- & ->). reflexivity. }
  destruct o as [hd|t| |]; simpl.
  - eapply Hfrom_ev. apply begin_block_evolves_noevidence; assumption.
  - unfold fresh_tx in Ho.
    assert (E : deliver s t = ((deliver s t).1, (deliver s t).2)) by (destruct (deliver s t); reflexivity).
    set (s' := (deliver s t).1) in *. set (r := (deliver s t).2) in *. clearbody s' r.
    apply deliver_moves in E as [Hev | (Hty & d & Hd & HD & HF)]; [eapply Hfrom_ev; exact Hev|].
    split.
    + intros st' Hin Heq. apply elem_of_bonded in Hin as (a' & d' & Hd' & Hin). rewrite HD in Hd'.
      assert (Hold : st' ∈ bonded_stakes (work s) → st' = st).
      { intros Hb. eapply hu_pt_same_hash; eassumption. }
      destruct (decide (a' = t_to t)) as [->|Hne].
      * rewrite lookup_insert in Hd'. injection Hd' as <-. simpl in Hin.
        apply elem_of_app in Hin as [Hin | Hin].
        -- destruct Hd as [Hd | (_ & _ & ->)]; [|inversion Hin]. apply Hold, elem_of_bonded. eauto.
        -- apply elem_of_list_singleton in Hin. subst st'. exfalso.
           assert (Hne : dels (work s') ≠ dels (work s)).
           { intros Heq'. apply elem_of_bonded in Hst as (a0 & d0 & Hd0 & Hst0).
             rewrite HD in Heq'.
             assert (Hl : dels (work s) !! t_to t = Some (add_stake d (stake_of_tx t (b_height (bctx s)) (power_of (t_amount t)))))
               by (rewrite <- Heq'; apply lookup_insert).
             destruct Hd as [Hd | (Hd & _)]; [|congruence].
             rewrite Hd in Hl. injection Hl as Hl. apply (f_equal (λ x, length (d_stakes x))) in Hl.
             simpl in Hl. rewrite app_length in Hl. simpl in Hl. lia. }
           apply (Ho Hty Hne st); [apply elem_of_app; left; assumption | symmetry; exact Heq].
      * rewrite lookup_insert_ne in Hd' by congruence. apply Hold, elem_of_bonded. eauto.
    + intros st' Hin Heq. exfalso. apply elem_of_frozen in Hin as (k & Hk). rewrite HF in Hk.
      destruct Hu as (_ & _ & U3 & U4). apply elem_of_bonded in Hst as (a0 & d0 & Hd0 & Hst0).
      apply (U3 a0 d0 st k st' Hd0 Hst0 Hk). rewrite <- Heq. apply U4; assumption.
  - eapply Hfrom_ev. apply (end_block_evolves s 0).
  - eapply Hfrom_ev. apply (evolves_refl eq 0), Qok_eq.
Qed.
Print Assumptions stake_unchanged_step.

(* BeginBlock in general: owner, target, hash and start height stay; only the power may be cut
   (slashing of the delegatees named in the evidence) *)
Theorem stake_begin_block_fields s hd st :
  hashes_unique (work s) → st ∈ bonded_stakes (work s) →
  (∀ st', st' ∈ bonded_stakes (work (begin_block s hd).1) → s_hash st' = s_hash st → stake_sim st st') ∧
  (∀ st', st' ∈ frozen_stakes (work (begin_block s hd).1) → s_hash st' = s_hash st →
     s_from st' = s_from st ∧ s_to st' = s_to st ∧ s_start st' = s_start st ∧
     s_refund st' = h_height hd + g_lazyRewardBlocks (gparams s)).
Proof.
  intros Hu Hst. apply hashes_unique_pt in Hu.
  destruct (evolves_fate_lists stake_sim _ _ _ st Qok_sim Hu (begin_block_evolves s hd) Hst) as [F1 F2]. split.
  - exact F1.
  - intros st' Hin Heq. destruct (F2 st' Hin Heq) as (s1 & (H1 & H2 & H3 & H4 & H5) & ->). simpl.
    unfold block_release_height. auto.
Qed.
Print Assumptions stake_begin_block_fields.

(* slashing only lowers a power (ratio between 0 and 100, as params_ok demands) *)
Definition stake_cut (x y : stake) : Prop := stake_sim x y ∧ (0 ≤ s_power x → 0 ≤ s_power y ≤ s_power x).
Lemma Qok_cut : Qok stake_cut.
Proof.
  split.
  - intros x. split; [apply (Q_refl _ Qok_sim) | lia].
  - intros x y z [H1 H2] [H3 H4]. split; [eapply (Q_trans _ Qok_sim); eassumption | lia].
  - intros x y [H _]. apply (Q_hash _ Qok_sim); assumption.
Qed.

Lemma slash_amount_bounds p ratio : 0 ≤ ratio ≤ 100 → 0 ≤ p → 0 ≤ p - (p * ratio) `quot` 100 ≤ p.
Proof.
  intros Hr Hp. rewrite Z.quot_div_nonneg by nia.
  assert (0 ≤ p * ratio / 100) by (apply Z.div_pos; nia).
  assert (p * ratio / 100 ≤ p) by (apply Z.div_le_upper_bound; nia). lia.
Qed.

Lemma begin_block_evolves_cut s hd : 0 ≤ g_slashRatio (gparams s) ≤ 100 →
  evolves stake_cut (block_release_height s hd) (work s) (work (begin_block s hd).1).
Proof.
  intros Hr. apply (begin_block_ind (λ l, evolves stake_cut (block_release_height s hd) (work s) l)).
  - intros l l' Hsf H. eapply evolves_sf; [apply same_sf_refl | exact Hsf | exact H].
  - apply evolves_refl, Qok_cut.
  - intros l a d _ H Hd. eapply evolves_trans; [apply Qok_cut | exact H |].
    apply ev_slash; [apply Qok_cut | | assumption].
    intros x. split; [repeat split | simpl; apply slash_amount_bounds; assumption].
  - intros l a d m H Hd. eapply evolves_trans; [apply Qok_cut | exact H | apply ev_marks; [apply Qok_cut | assumption]].
  - intros l a d _ H Hd. eapply evolves_trans; [apply Qok_cut | exact H | apply ev_jail; [apply Qok_cut | assumption]].
Qed.

Theorem stake_begin_block_power s hd st :
  hashes_unique (work s) → 0 ≤ g_slashRatio (gparams s) ≤ 100 → st ∈ bonded_stakes (work s) → 0 ≤ s_power st →
  ∀ st', st' ∈ bonded_stakes (work (begin_block s hd).1) ++ frozen_stakes (work (begin_block s hd).1) →
    s_hash st' = s_hash st → 0 ≤ s_power st' ≤ s_power st.
Proof.
  intros Hu Hr Hst Hp st' Hin Heq. apply hashes_unique_pt in Hu.
  destruct (evolves_fate_lists stake_cut _ _ _ st Qok_cut Hu (begin_block_evolves_cut s hd Hr) Hst) as [F1 F2].
  apply elem_of_app in Hin as [Hin | Hin].
  - destruct (F1 st' Hin Heq) as [_ H]. auto.
  - destruct (F2 st' Hin Heq) as (s1 & [_ H] & ->). simpl. auto.
Qed.
Print Assumptions stake_begin_block_power.

(* ================================================================== 9. (C2) the unbonding period is fixed at release *)
(* where an unbonding entry comes from: it was there before, or it is a bonded stake released by this
   very operation, stamped with [current height + lazyRewardBlocks] of the parameters in force *)
Theorem release_stamps_refund_height s t s' r k x :
  deliver s t = (s', r) → frozen (work s') !! k = Some x →
  frozen (work s) !! k = Some x ∨
  ∃ st, st ∈ bonded_stakes (work s) ∧ k = s_hash st ∧
        x = with_refund (b_height (bctx s) + g_lazyRewardBlocks (gparams s)) st.
Proof.
  intros Hdel Hk. apply deliver_moves in Hdel as [[_ B] | (_ & _ & _ & _ & HF)].
  - destruct (B _ _ Hk) as [Hold | (a & d & s0 & s1 & Hd & Hs0 & <- & -> & -> & _)]; [left; assumption|].
    right. exists s0. split; [apply elem_of_bonded; eauto | split; reflexivity].
  - left. rewrite <- HF. exact Hk.
Qed.
Print Assumptions release_stamps_refund_height.

Theorem force_release_stamps_refund_height s hd k x :
  frozen (work (begin_block s hd).1) !! k = Some x →
  frozen (work s) !! k = Some x ∨
  ∃ st s1, st ∈ bonded_stakes (work s) ∧ k = s_hash st ∧ stake_sim st s1 ∧
           x = with_refund (h_height hd + g_lazyRewardBlocks (gparams s)) s1.
Proof.
  intros Hk. destruct (begin_block_evolves s hd) as [_ B].
  destruct (B _ _ Hk) as [Hold | (a & d & s0 & s1 & Hd & Hs0 & Hq & -> & -> & _)]; [left; assumption|].
  right. exists s0, s1. split; [apply elem_of_bonded; eauto|]. auto.
Qed.
Print Assumptions force_release_stamps_refund_height.

(* an entry of the unbonding ledger is not touched by deliveries and BeginBlock; an entry can be
   lost only by a collision of hashes, which [hashes_unique] excludes *)
Definition keeps (l l' : ledgers) : Prop :=
  ∀ k x, frozen l !! k = Some x → frozen l' !! k = Some x ∨ ∃ a d s0, dels l !! a = Some d ∧ s0 ∈ d_stakes d ∧ s_hash s0 = k.

Lemma freeze_all_keeps F R ss k x : F !! k = Some x → freeze_all F R ss !! k = Some x ∨ ∃ s0, s0 ∈ ss ∧ s_hash s0 = k.
Proof.
  intros HF. destruct (decide (k ∈ s_hash <$> ss)) as [Hin | Hnin].
  - right. apply elem_of_list_fmap in Hin as (s0 & -> & Hin). eauto.
  - left. rewrite freeze_all_keep; [assumption|]. intros st Hst Heq. apply Hnin. rewrite <- Heq. apply elem_hash_fmap; assumption.
Qed.

Lemma unstake_result_keeps D F a d hs s0 R k x : find_stake hs (d_stakes d) = Some s0 → F !! k = Some x →
  (unstake_result D F a d hs s0 R).2 !! k = Some x ∨ ∃ s1, s1 ∈ d_stakes d ∧ s_hash s1 = k.
Proof.
  intros Hf HF. destruct (find_stake_spec _ _ _ Hf) as [Hin0 Hh0].
  destruct (decide (k = s_hash s0)) as [->|Hne]; [right; eauto|].
  assert (H1 : <[s_hash s0 := with_refund R s0]> F !! k = Some x) by (rewrite lookup_insert_ne by congruence; assumption).
  unfold unstake_result; cbv zeta; simpl. destruct (_ =? 0); [|left; assumption].
  destruct (freeze_all_keeps _ R (d_stakes (del_stake d hs)) _ _ H1) as [H | (s1 & Hs1 & Hh1)]; [left; assumption|].
  right. exists s1. split; [|assumption]. unfold del_stake in Hs1. rewrite Hf in Hs1. simpl in Hs1.
  eapply sublist_elem; [apply remove_stake_sublist | exact Hs1].
Qed.

Lemma deliver_keeps s t : keeps (work s) (work (deliver s t).1).
Proof.
  destruct (deliver s t) as [s' r] eqn:E. simpl. intros k x Hk.
  apply deliver_frame in E as (_ & _ & _ & _ & _ & [[_ HF] | (s2 & l & l' & _ & _ & _ & [HD HF] & Hex & [_ HF'])]).
  { left. rewrite HF. assumption. }
  apply stake_execute_inv in Hex as [(_ & _ & _ & _ & HFl) | [(_ & d & hs & b & s0 & Hd & _ & Hf & _ & _ & HFl) | (_ & _ & _ & HFl)]].
  - left. rewrite HF', HFl, HF. assumption.
  - rewrite HF', HFl. rewrite <- HF in Hk.
    destruct (unstake_result_keeps (dels l) (frozen l) (t_to t) d hs s0 (release_height s2) k x Hf Hk) as [H | (s1 & Hs1 & Hh1)];
      [left; assumption|].
    right. exists (t_to t), d, s1. rewrite <- HD. auto.
  - left. rewrite HF', HFl, HF. assumption.
Qed.

Lemma begin_block_keeps s hd : keeps (work s) (work (begin_block s hd).1).
Proof.
  pose (P := λ l, evolves stake_sim (block_release_height s hd) (work s) l ∧ keeps (work s) l).
  assert (Htrans : ∀ l l', P l → evolves stake_sim (block_release_height s hd) l l' →
     (∀ k x, frozen l !! k = Some x → frozen l' !! k = Some x ∨ ∃ a d s0, dels l !! a = Some d ∧ s0 ∈ d_stakes d ∧ s_hash s0 = k) → P l').
  { intros l l' [Hev Hk] Hev' Hk'. split; [eapply evolves_trans; [apply Qok_sim | exact Hev | exact Hev']|].
    intros k x H0. destruct (Hk _ _ H0) as [H1 | H1]; [|right; assumption].
    destruct (Hk' _ _ H1) as [H2 | (a & d & s0 & Hd & Hs0 & Hh)]; [left; assumption|].
    right. destruct Hev as [A _]. destruct (A _ _ Hd) as (dz & Hdz & Hsub & _).
    destruct (hash_in_sub _ _ _ Hsub Hs0) as (sz & Hsz & Hhz). exists a, dz, sz. split; [assumption|]. split; [assumption | congruence]. }
  enough (HP : P (work (begin_block s hd).1)) by (exact (proj2 HP)).
  apply (begin_block_ind P).
  - intros l l' [HD HF] [Hev Hk]. split; [eapply evolves_sf; [apply same_sf_refl | split; eassumption | exact Hev]|].
    intros k x H0. rewrite HF. auto.
  - split; [apply evolves_refl, Qok_sim | intros k x H; left; exact H].
  - intros l a d _ HP Hd. eapply Htrans; [exact HP | | intros k x H; left; exact H].
    apply ev_slash; [apply Qok_sim | intros x; repeat split | assumption].
  - intros l a d m HP Hd. eapply Htrans; [exact HP | apply ev_marks; [apply Qok_sim | assumption] | intros k x H; left; exact H].
  - intros l a d _ HP Hd. eapply Htrans; [exact HP | apply ev_jail; [apply Qok_sim | assumption] |].
    intros k x H. unfold jail. rewrite frozen_set_dels, frozen_set_frozen.
    destruct (freeze_all_keeps _ (block_release_height s hd) (d_stakes d) _ _ H) as [H' | (s0 & Hs0 & Hh)]; [left; assumption|].
    right. exists a, d, s0. auto.
Qed.

Theorem frozen_untouched s o k x :
  hashes_unique (work s) → o ≠ SEnd → frozen (work s) !! k = Some x → frozen (work (sstep s o)) !! k = Some x.
Proof.
  intros Hu Ho Hk. apply hashes_unique_pt in Hu. destruct Hu as (_ & _ & U3 & _).
  assert (Hfrom : ∀ l', keeps (work s) l' → frozen l' !! k = Some x).
  { intros l' Hkeep. destruct (Hkeep _ _ Hk) as [H | (a & d & s0 & Hd & Hs0 & Hh)]; [assumption|].
    exfalso. eapply U3; eassumption. }
  destruct o as [hd|t| |]; simpl.
  - apply Hfrom, begin_block_keeps.
  - apply Hfrom, deliver_keeps.
  - contradiction.
  - assumption.
Qed.
Print Assumptions frozen_untouched.

(* EndBlock only deletes from the unbonding ledger; parameters changing later cannot reach an entry *)
Theorem end_block_frozen_only_deletes s k x :
  frozen (work (end_block s).1) !! k = Some x → frozen (work s) !! k = Some x.
Proof.
  intros Hk. destruct (end_block s) as [s' r] eqn:E; simpl in *.
  apply end_block_inv in E as [[-> _] | (ups & l3 & _ & [HD HF] & _ & _ & Hun & _)]; [assumption|].
  rewrite unfreeze_unfold in Hun. apply unfreeze_list_spec in Hun as (_ & HF' & _).
  rewrite HF' in Hk. destruct (existsb _ _); [discriminate | rewrite HF in Hk; assumption].
Qed.

(* ================================================================== 10. (C3) the refund *)
Lemma credit_fields x amt :
  a_nonce (credit x amt) = a_nonce x ∧ a_code (credit x amt) = a_code x ∧
  a_name (credit x amt) = a_name x ∧ a_doc (credit x amt) = a_doc x.
Proof. repeat split. Qed.

Lemma foldl_credit_fields amts : ∀ x,
  a_nonce (foldl credit x amts) = a_nonce x ∧ a_code (foldl credit x amts) = a_code x ∧
  a_name (foldl credit x amts) = a_name x ∧ a_doc (foldl credit x amts) = a_doc x.
Proof.
  induction amts as [|a amts IH]; intros x; simpl; [repeat split|].
  destruct (IH (credit x a)) as (H1 & H2 & H3 & H4). simpl in *. auto.
Qed.

Lemma two256_pos : 0 < two256.
Proof. Local Transparent two256. unfold two256. Local Opaque two256. apply Z.pow_pos_nonneg; lia. Qed.

Lemma foldl_credit_bal_mod amts : ∀ x,
  a_bal (foldl credit x amts) mod two256 = (a_bal x + sumZ amts) mod two256.
Proof.
  induction amts as [|a amts IH]; intros x; simpl; [f_equal; lia|].
  rewrite IH. simpl. unfold add256, wrap256.
  rewrite Zplus_mod_idemp_l. f_equal. lia.
Qed.

Lemma foldl_credit_bal amts x : 0 ≤ a_bal x < two256 →
  a_bal (foldl credit x amts) = (a_bal x + sumZ amts) mod two256.
Proof.
  revert x. induction amts as [|a amts IH]; intros x Hx; simpl.
  - rewrite Z.add_0_r, Z.mod_small by assumption. reflexivity.
  - rewrite IH by (simpl; apply wrap256_range). simpl. unfold add256, wrap256.
    rewrite Zplus_mod_idemp_l. f_equal. lia.
Qed.

Lemma refunds_to_perm h a (l k : list (hash * stake)) : l ≡ₚ k → sumZ (refunds_to h a l) = sumZ (refunds_to h a k).
Proof.
  assert (Hcons : ∀ x l, sumZ (refunds_to h a (x :: l)) =
     (if matured h x && (s_from x.2 =? a)%N then power_to_amount (s_power x.2) else 0) + sumZ (refunds_to h a l)).
  { intros x l0. unfold refunds_to. simpl. destruct (matured h x && _); reflexivity. }
  induction 1 as [|x l k _ IH|x y l|l k m _ IH1 _ IH2].
  - reflexivity.
  - rewrite !Hcons, IH. reflexivity.
  - rewrite !Hcons. lia.
  - congruence.
Qed.

Lemma elem_of_sorted_items {A} (m : gmap N A) k x : (k, x) ∈ sorted_items m ↔ m !! k = Some x.
Proof.
  unfold sorted_items. rewrite merge_sort_Permutation. apply elem_of_map_to_list.
Qed.

Lemma matured_exists h (m : gmap hash stake) k :
  existsb (λ kp : hash * stake, (kp.1 =? k)%N && matured h kp) (sorted_items m) = true ↔
  ∃ st, m !! k = Some st ∧ s_refund st ≤ h.
Proof.
  rewrite existsb_exists. split.
  - intros ([k' st] & Hin & Hb). apply andb_true_iff in Hb as [Hk Hm]. simpl in Hk. apply N.eqb_eq in Hk. subst k'.
    apply elem_of_list_In, elem_of_sorted_items in Hin. exists st. split; [assumption|].
    unfold matured in Hm. simpl in Hm. lia.
  - intros (st & Hst & Hle). exists (k, st). split; [apply elem_of_list_In, elem_of_sorted_items; assumption|].
    apply andb_true_iff. split; [apply N.eqb_refl | unfold matured; simpl; lia].
Qed.

(* the account EndBlock's refund loop starts from: the proposer has just received the block's fees *)
Definition fee_credited (s : state) (a : addr) : account :=
  match b_proposer (bctx s) with
  | Some pa => if decide (pa = a) then
                 if 0 <? sign256 (b_feesum (bctx s)) then credit (acct_of (work s) a) (b_feesum (bctx s))
                 else acct_of (work s) a
               else acct_of (work s) a
  | None => acct_of (work s) a
  end.

(* total refunded to [a] at height [h] out of the committed unbonding ledger *)
Definition refund_total (base : ledgers) (h : Z) (a : addr) : Z := sumZ (refunds_to h a (map_to_list (frozen base))).

Theorem unfreeze_exact s s' ups :
  end_block s = (s', Ok ups) →
  let h := b_height (bctx s) in let base := base_of s in
  (* matured entries of the committed ledger leave the unbonding ledger *)
  (∀ k st, frozen base !! k = Some st → s_refund st ≤ h → frozen (work s') !! k = None) ∧
  (* everything else stays, in particular what has not matured: never earlier *)
  (∀ k, (∀ st, frozen base !! k = Some st → h < s_refund st) → frozen (work s') !! k = frozen (work s) !! k) ∧
  (* each account receives exactly the amounts of the matured stakes it owns, once per entry *)
  (∀ a, acct_of (work s') a = foldl credit (fee_credited s a) (refunds_to h a (sorted_items (frozen base)))) ∧
  (* bonded stakes are not involved *)
  dels (work s') = dels (work s).
Proof.
  intros E. cbv zeta.
  apply end_block_inv in E as [[_ Hno] | (ups' & l3 & _ & [HD HF] & Hoth & Hprop & Hun & _)].
  { destruct (Hno ups); reflexivity. }
  rewrite unfreeze_unfold in Hun. apply unfreeze_list_spec in Hun as (HD' & HF' & HA').
  split; [|split; [|split]].
  - intros k st Hst Hle. rewrite HF'.
    destruct (existsb _ _) eqn:Ex; [reflexivity|].
    assert (Ht : existsb (λ kp : hash * stake, (kp.1 =? k)%N && matured (b_height (bctx s)) kp)
                   (sorted_items (frozen (base_of s))) = true) by (apply matured_exists; eauto).
    congruence.
  - intros k Hk. rewrite HF'. destruct (existsb _ _) eqn:Ex; [|rewrite HF; reflexivity].
    apply matured_exists in Ex as (st & Hst & Hle). specialize (Hk _ Hst). lia.
  - intros a. rewrite HA'. f_equal. unfold fee_credited.
    destruct (b_proposer (bctx s)) as [pa|] eqn:Ep.
    + destruct (decide (pa = a)) as [->|Hne]; [apply Hprop; reflexivity | apply Hoth; congruence].
    + apply Hoth. discriminate.
  - congruence.
Qed.
Print Assumptions unfreeze_exact.

(* never to anyone else: an account that owns no matured entry is not touched by the refund loop *)
Corollary refund_only_to_owner s s' ups a :
  end_block s = (s', Ok ups) →
  (∀ k st, frozen (base_of s) !! k = Some st → s_refund st ≤ b_height (bctx s) → s_from st ≠ a) →
  acct_of (work s') a = fee_credited s a.
Proof.
  intros E Hno. destruct (unfreeze_exact _ _ _ E) as (_ & _ & HA & _). rewrite HA.
  replace (refunds_to (b_height (bctx s)) a (sorted_items (frozen (base_of s)))) with (@nil Z); [reflexivity|].
  symmetry. unfold refunds_to.
  assert (Hall : Forall (λ kp : hash * stake, matured (b_height (bctx s)) kp && (s_from kp.2 =? a)%N = false)
                   (sorted_items (frozen (base_of s)))).
  { apply Forall_forall. intros [k st] Hin. apply elem_of_sorted_items in Hin. simpl.
    destruct (matured _ _) eqn:Em; [|reflexivity]. simpl.
    apply N.eqb_neq. eapply Hno; [exact Hin|]. unfold matured in Em; simpl in Em; lia. }
  clear HA. induction Hall as [|kp l Hkp _ IH]; simpl; [reflexivity|]. rewrite Hkp. exact IH.
Qed.

(* in full: the balance grows by the sum of power x 10^18 over the owner's matured entries *)
Corollary refund_balance s s' ups a :
  end_block s = (s', Ok ups) → 0 ≤ a_bal (fee_credited s a) < two256 →
  bal_of (work s') a = (a_bal (fee_credited s a) + refund_total (base_of s) (b_height (bctx s)) a) mod two256.
Proof.
  intros E Hr. destruct (unfreeze_exact _ _ _ E) as (_ & _ & HA & _). unfold bal_of. rewrite HA.
  rewrite foldl_credit_bal by assumption. unfold refund_total.
  rewrite (refunds_to_perm _ _ (sorted_items (frozen (base_of s))) (map_to_list (frozen (base_of s)))); [reflexivity|].
  unfold sorted_items. apply merge_sort_Permutation.
Qed.

Print Assumptions refund_only_to_owner.
Print Assumptions refund_balance.

Lemma fee_credited_other s a : b_proposer (bctx s) ≠ Some a → fee_credited s a = acct_of (work s) a.
Proof.
  unfold fee_credited. destruct (b_proposer (bctx s)) as [pa|]; [|reflexivity].
  destruct (decide (pa = a)) as [->|]; [intros H; destruct H; reflexivity | reflexivity].
Qed.

Lemma power_to_amount_exact p : 0 ≤ p < two63 → power_to_amount p = p * amountPerPower.
Proof.
  Local Transparent two63 two64 two256.
  unfold power_to_amount, mul256, wrap256, two63, two64, two256, amountPerPower. intros Hp.
  rewrite (Z.mod_small p) by lia. apply Z.mod_small. lia.
  Local Opaque two63 two64 two256.
Qed.

(* exactly once: after the Commit that follows, the refunded keys are gone from the committed
   unbonding ledger, which is what the next EndBlock iterates *)
Corollary refunded_entry_gone s s' ups k st :
  end_block s = (s', Ok ups) → frozen (base_of s) !! k = Some st → s_refund st ≤ b_height (bctx s) →
  frozen (base_of (commit s')) !! k = None.
Proof.
  intros E Hst Hle. destruct (unfreeze_exact _ _ _ E) as (H1 & _).
  unfold base_of, commit. simpl. rewrite last_snoc. simpl. eapply H1; eassumption.
Qed.
Print Assumptions refunded_entry_gone.

(* ================================================================== 10b. (C11) a stake is never lost: bonded or unbonding *)
Lemma unstake_result_no_loss D F a d hs s0 R st :
  delegatee_ok a d → NoDup (s_hash <$> d_stakes d) → (∀ x, x ∈ d_stakes d → 0 ≤ s_power x) →
  find_stake hs (d_stakes d) = Some s0 → st ∈ d_stakes d →
  (∃ d', (unstake_result D F a d hs s0 R).1 !! a = Some d' ∧ st ∈ d_stakes d') ∨
  (unstake_result D F a d hs s0 R).2 !! s_hash st = Some (with_refund R st).
Proof.
  intros Hok Hnd Hpos Hf Hst. destruct (find_stake_spec _ _ _ Hf) as [Hin0 Hh0].
  pose proof (del_stake_ok a d hs Hok) as (_ & Ht1 & Hs1 & _).
  assert (Hst1 : d_stakes (del_stake d hs) = remove_stake hs (d_stakes d)) by (unfold del_stake; rewrite Hf; reflexivity).
  assert (Hnd1 : NoDup (s_hash <$> remove_stake hs (d_stakes d))).
  { eapply sublist_NoDup'; [apply fmap_sublist, remove_stake_sublist | exact Hnd]. }
  unfold unstake_result; cbv zeta; simpl.
  destruct (decide (st = s0)) as [->|Hne].
  - right. destruct (d_self (del_stake d hs) =? 0).
    + rewrite freeze_all_keep; [apply lookup_insert|].
      intros x Hx Heq. rewrite Hst1 in Hx. apply (remove_stake_hash_notin hs _ Hnd).
      apply elem_of_list_fmap. exists x. split; [congruence | assumption].
    + apply lookup_insert.
  - assert (Hin1 : st ∈ remove_stake hs (d_stakes d)) by (eapply remove_stake_elem_ne; eassumption).
    destruct (d_self (del_stake d hs) =? 0) eqn:Es.
    + right. rewrite Hst1. apply freeze_all_new; assumption.
    + apply Z.eqb_neq in Es. destruct (d_total (del_stake d hs) =? 0) eqn:Et.
      * exfalso. apply Z.eqb_eq in Et. rewrite Hst1 in Ht1, Hs1.
        assert (Hb : 0 ≤ sum_power_of a (remove_stake hs (d_stakes d)) ≤ sum_power (remove_stake hs (d_stakes d))).
        { apply sum_power_of_bounds. intros x Hx. apply Hpos. eapply sublist_elem; [apply remove_stake_sublist | exact Hx]. }
        lia.
      * left. exists (del_stake d hs). split; [apply lookup_insert | rewrite Hst1; assumption].
Qed.

Theorem deliver_never_loses s t st :
  hashes_unique (work s) → dels_ok (work s) → (∀ x, x ∈ bonded_stakes (work s) → 0 ≤ s_power x) →
  st ∈ bonded_stakes (work s) →
  st ∈ bonded_stakes (work (deliver s t).1) ∨
  frozen (work (deliver s t).1) !! s_hash st
    = Some (with_refund (b_height (bctx s) + g_lazyRewardBlocks (gparams s)) st).
Proof.
  intros Hu Hok Hpos Hst. apply hashes_unique_pt in Hu. destruct Hu as (U1 & _).
  destruct (deliver s t) as [s' r] eqn:E. simpl.
  apply elem_of_bonded in Hst as (a & d & Hd & Hst).
  apply deliver_frame in E as (_ & _ & _ & _ & _ & [[HD _] | (s2 & l & l' & _ & Hg & Hh & [HD HF] & Hex & [HD' HF'])]).
  { left. apply elem_of_bonded. exists a, d. rewrite HD. auto. }
  assert (HR : release_height s2 = b_height (bctx s) + g_lazyRewardBlocks (gparams s)) by (unfold release_height; congruence).
  apply stake_execute_inv in Hex as [(_ & d0 & Hd0 & HDl & _) | [(_ & d0 & hs & b & s0 & Hd0 & _ & Hf & _ & HDl & HFl) | (_ & _ & HDl & _)]].
  - left. apply elem_of_bonded. rewrite HD', HDl. destruct (decide (a = t_to t)) as [->|Hne].
    + eexists _, _. split; [apply lookup_insert|]. simpl. apply elem_of_app. left.
      destruct Hd0 as [Hd0 | (Hd0 & _)]; rewrite HD in Hd0; [|congruence].
      assert (d0 = d) by congruence. subst d0. assumption.
    + exists a, d. split; [|assumption]. rewrite lookup_insert_ne by congruence. rewrite HD. assumption.
  - destruct (decide (a = t_to t)) as [->|Hne].
    + rewrite HD in Hd0. assert (d0 = d) by congruence. subst d0.
      destruct (unstake_result_no_loss (dels l) (frozen l) (t_to t) d hs s0 (release_height s2) st) as [(d' & Hd' & Hin') | Hfr];
        [apply Hok; assumption | eapply U1; eassumption | | assumption | assumption | |].
      * intros x Hx. apply Hpos, elem_of_bonded. eauto.
      * left. apply elem_of_bonded. exists (t_to t), d'. rewrite HD', HDl. auto.
      * right. rewrite HF', HFl, <- HR. exact Hfr.
    + left. apply elem_of_bonded. exists a, d. rewrite HD', HDl, unstake_result_lookup_ne by assumption.
      rewrite HD. auto.
  - left. apply elem_of_bonded. exists a, d. rewrite HD', HDl, HD. auto.
Qed.
Print Assumptions deliver_never_loses.

(* BeginBlock without evidence: a stake stays bonded or, when its validator is jailed for missed
   blocks, starts unbonding *)
Theorem begin_block_never_loses s hd st :
  hashes_unique (work s) → h_evidence hd = [] → st ∈ bonded_stakes (work s) →
  st ∈ bonded_stakes (work (begin_block s hd).1) ∨
  frozen (work (begin_block s hd).1) !! s_hash st
    = Some (with_refund (h_height hd + g_lazyRewardBlocks (gparams s)) st).
Proof.
  intros Hu Hev Hst. apply hashes_unique_pt in Hu.
  pose (R := h_height hd + g_lazyRewardBlocks (gparams s)).
  pose (P := λ l, hu_pt l ∧ (st ∈ bonded_stakes l ∨ frozen l !! s_hash st = Some (with_refund R st))).
  enough (HP : P (work (begin_block s hd).1)) by (exact (proj2 HP)).
  apply (begin_block_ind P).
  - intros l l' Hsf [H1 H2]. split; [eapply hu_pt_sf; eassumption|].
    destruct Hsf as [HD HF]. rewrite HF. destruct H2 as [H2 | H2]; [left | right; assumption].
    apply elem_of_bonded in H2 as (a & d & Hd & Hin). apply elem_of_bonded. exists a, d. rewrite HD. auto.
  - split; [assumption | left; assumption].
  - intros l a d Hin. rewrite Hev in Hin. inversion Hin.
  - intros l a d m [H1 H2] Hd. split.
    + eapply hu_pt_evolves; [apply Qok_eq | exact H1 | apply (ev_marks eq 0); [apply Qok_eq | assumption]].
    + destruct H2 as [H2 | H2]; [left | right; assumption].
      apply elem_of_bonded in H2 as (a' & d' & Hd' & Hin'). apply elem_of_bonded. rewrite dels_set_dels.
      destruct (decide (a' = a)) as [->|Hne].
      * exists a, (with_marks d m). split; [apply lookup_insert|]. simpl. congruence.
      * exists a', d'. split; [rewrite lookup_insert_ne by congruence; assumption | assumption].
  - intros l a d _ [H1 H2] Hd. split.
    + eapply hu_pt_evolves; [apply Qok_eq | exact H1 | apply (ev_jail eq); [apply Qok_eq | assumption]].
    + destruct H1 as (U1 & U2 & U3 & U4). unfold jail. rewrite frozen_set_dels, frozen_set_frozen.
      destruct H2 as [H2 | H2].
      * apply elem_of_bonded in H2 as (a' & d' & Hd' & Hin'). destruct (decide (a' = a)) as [->|Hne].
        -- right. assert (d' = d) by congruence. subst d'. apply freeze_all_new; [eapply U1; eassumption | assumption].
        -- left. apply elem_of_bonded. exists a', d'. rewrite dels_set_dels, lookup_delete_ne by congruence. auto.
      * right. rewrite freeze_all_keep; [assumption|]. intros x Hx. eapply U3; eassumption.
Qed.
Print Assumptions begin_block_never_loses.

(* which bonded stakes BeginBlock can take away: those of a delegatee named in the evidence (a stake
   whose slash would be less than 1 is removed by doSlashAll) or of a validator that missed a block
   (force release); all others keep a stake with their hash under the same delegatee *)
Theorem begin_block_release_cases s hd a d st :
  dels (work s) !! a = Some d → st ∈ d_stakes d →
  (∃ d' st', dels (work (begin_block s hd).1) !! a = Some d' ∧ st' ∈ d_stakes d' ∧ s_hash st' = s_hash st) ∨
  a ∈ h_evidence hd ∨ (∃ pw, (a, pw, false) ∈ h_votes hd).
Proof.
  intros Hd Hst.
  pose (P := λ l, (∃ d' st', dels l !! a = Some d' ∧ st' ∈ d_stakes d' ∧ s_hash st' = s_hash st) ∨
                  a ∈ h_evidence hd ∨ (∃ pw, (a, pw, false) ∈ h_votes hd)).
  apply (begin_block_ind P).
  - intros l l' [HD _] [H | H]; [left | right; exact H]. rewrite HD. exact H.
  - left. eauto.
  - intros l a0 d0 Hev [(d' & st' & Hd' & Hin' & Hh) | H] Hd0; [|right; exact H].
    destruct (decide (a0 = a)) as [->|Hne]; [right; left; exact Hev|].
    left. exists d', st'. rewrite dels_set_dels, lookup_insert_ne by assumption. auto.
  - intros l a0 d0 m [(d' & st' & Hd' & Hin' & Hh) | H] Hd0; [|right; exact H]. left.
    destruct (decide (a0 = a)) as [->|Hne].
    + assert (d0 = d') by congruence. subst d0. exists (with_marks d' m), st'.
      rewrite dels_set_dels, lookup_insert. auto.
    + exists d', st'. rewrite dels_set_dels, lookup_insert_ne by assumption. auto.
  - intros l a0 d0 Hmiss [(d' & st' & Hd' & Hin' & Hh) | H] Hd0; [|right; exact H].
    destruct (decide (a0 = a)) as [->|Hne]; [right; right; exact Hmiss|].
    left. exists d', st'. unfold jail. rewrite dels_set_dels, lookup_delete_ne by assumption. auto.
Qed.
Print Assumptions begin_block_release_cases.

(* EndBlock and Commit never touch bonded stakes *)
Lemma end_block_dels s : dels (work (end_block s).1) = dels (work s).
Proof.
  destruct (end_block s) as [s' r] eqn:E; simpl.
  apply end_block_inv in E as [[-> _] | (ups & l3 & _ & [HD _] & _ & _ & Hun & _)]; [reflexivity|].
  rewrite unfreeze_unfold in Hun. apply unfreeze_list_spec in Hun as (HD' & _). congruence.
Qed.

(* ================================================================== 11. examples: the hypotheses are satisfiable *)
Definition ex_genesis : genesis :=
  {| gen_params := ex_params; gen_holders := [(1%N, 1000); (3%N, 5000000000000001000)]; gen_validators := [(1%N, 10)] |}.
Definition ex_stake (from to : addr) (amt nonce : Z) (txh : hash) : tx := {|
  t_type := TRX_STAKING; t_from := from; t_to := to; t_from_ok := true; t_to_ok := true;
  t_amount := amt; t_price := 1; t_gas := 10; t_nonce := nonce; t_payload := PNone; t_hash := txh;
  t_sigok := true; t_evm := None |}.
Definition ex_unstake2 (from to : addr) (h : hash) (nonce : Z) (txh : hash) : tx := {|
  t_type := TRX_UNSTAKING; t_from := from; t_to := to; t_from_ok := true; t_to_ok := true;
  t_amount := 0; t_price := 1; t_gas := 10; t_nonce := nonce; t_payload := PUnstake h true; t_hash := txh;
  t_sigok := true; t_evm := None |}.
(* block 1: account 3 delegates power 2 to validator 1; block 2: it releases that stake *)
Definition ex_b1 : list sop := [SBegin (ex_header 1); SDeliver (ex_stake 3%N 1%N 2000000000000000000 0 201%N); SEnd; SCommit].
Definition ex_tx_un : tx := ex_unstake2 3%N 1%N 201%N 1 202%N.
Definition ex_b2 : list sop := [SBegin (ex_header 2); SDeliver ex_tx_un; SEnd; SCommit].
Definition ex_b3 : list sop := [SBegin (ex_header 3); SEnd; SCommit].
Definition ex_delegation : stake :=
  {| s_from := 3%N; s_to := 1%N; s_hash := 201%N; s_start := 2; s_refund := 0; s_power := 2 |}.

Definition ex_s1 : state := srun (init_chain ex_genesis) ex_b1.                           (* after block 1 *)
Definition ex_s2 : state := srun (init_chain ex_genesis) (ex_b1 ++ [SBegin (ex_header 2)]). (* inside block 2 *)
Definition ex_s4 : state :=                                                              (* inside block 4 *)
  srun (init_chain ex_genesis) (ex_b1 ++ ex_b2 ++ ex_b3 ++ [SBegin (ex_header 4)]).

Lemma ex_fresh ops : fresh_runb (init_chain ex_genesis) ops = true →
  hashes_unique (work (srun (init_chain ex_genesis) ops)).
Proof. intros H. apply hashes_unique_reachable; [simpl; lia | apply fresh_runb_ok, H]. Qed.

(* (A): a reachable state with a delegation; the query equals the sum *)
Example ex_dels_ok :
  dels_ok (work ex_s1) ∧ bonded_stakes (work ex_s1) = [genesis_stake (1%N, 10); ex_delegation] ∧
  sumZ_with (λ kv : addr * delegatee, d_total kv.2) (map_to_list (dels (work ex_s1))) = 12 ∧
  (d_self <$> dels (work ex_s1) !! 1%N) = Some 10.
Proof. split; [apply dels_ok_reachable|]. vm_conj. Qed.

(* (B1)/(B3)/(C1)/(C2): the hypotheses of the theorems hold in block 2, where account 3 releases its stake *)
Example ex_release :
  let s := ex_s2 in let s' := (deliver s ex_tx_un).1 in
  hashes_unique (work s) ∧ fresh_tx s ex_tx_un ∧ dels_ok (work s) ∧
  (∀ x, x ∈ bonded_stakes (work s) → 0 ≤ s_power x) ∧
  deliver s ex_tx_un = (s', Ok 10) ∧
  ex_delegation ∈ bonded_stakes (work s) ∧ ex_delegation ∉ bonded_stakes (work s') ∧
  frozen (work s') !! 201%N = Some (with_refund 4 ex_delegation) ∧
  genesis_stake (1%N, 10) ∈ bonded_stakes (work s').
Proof.
  cbv zeta.
  assert (Hb : bonded_stakes (work ex_s2) = [genesis_stake (1%N, 10); ex_delegation]) by (vm_compute; reflexivity).
  assert (Hb' : bonded_stakes (work (deliver ex_s2 ex_tx_un).1) = [genesis_stake (1%N, 10)]) by (vm_compute; reflexivity).
  split; [apply ex_fresh; vm_compute; reflexivity|].
  split; [apply fresh_txb_ok; vm_compute; reflexivity|].
  split; [apply dels_ok_reachable|].
  split. { intros x Hx. rewrite Hb in Hx. repeat (apply elem_of_cons in Hx as [-> | Hx]; [simpl; lia|]). inversion Hx. }
  split; [vm_compute; reflexivity|].
  split; [rewrite Hb; right; left|].
  split. { rewrite Hb'. intros Hx. repeat (apply elem_of_cons in Hx as [Hx | Hx]; [discriminate Hx|]). inversion Hx. }
  split; [vm_compute; reflexivity|].
  rewrite Hb'. left.
Qed.

(* slashing: evidence against validator 1 halves every stake bonded to it *)
Definition ex_header_evidence : header :=
  {| h_height := 2; h_proposer := Some 1%N; h_votes := []; h_evidence := [1%N] |}.
Example ex_slash :
  hashes_unique (work ex_s1) ∧ 0 ≤ g_slashRatio (gparams ex_s1) ≤ 100 ∧
  ex_delegation ∈ bonded_stakes (work ex_s1) ∧
  bonded_stakes (work (begin_block ex_s1 ex_header_evidence).1)
    = [with_power 5 (genesis_stake (1%N, 10)); with_power 1 ex_delegation].
Proof.
  split; [apply ex_fresh; vm_compute; reflexivity|].
  split; [vm_compute; split; discriminate|].
  assert (Hb : bonded_stakes (work ex_s1) = [genesis_stake (1%N, 10); ex_delegation]) by (vm_compute; reflexivity).
  split; [rewrite Hb; right; left | vm_compute; reflexivity].
Qed.

(* force release: with a window of 10 and 10 required signatures one missed block jails the validator;
   every stake bonded to it, the delegator's included, starts unbonding with refund height 2 + 2 *)
Definition ex_params_strict : params := {|
  g_version := 1; g_maxValidatorCnt := 10; g_minValidatorStake := 1000000000000000000; g_minDelegatorStake := 0;
  g_rewardPerPower := 1; g_lazyRewardBlocks := 2; g_lazyApplyingBlocks := 1; g_gasPrice := 1;
  g_minTrxGas := 10; g_maxTrxGas := 1000; g_maxBlockGas := 100000; g_minVotingPeriodBlocks := 1;
  g_maxVotingPeriodBlocks := 100; g_minSelfStakeRatio := 50; g_maxUpdatableStakeRatio := 30;
  g_maxIndividualStakeRatio := 100; g_slashRatio := 50; g_signedBlocksWindow := 10; g_minSignedBlocks := 10 |}.
Definition ex_genesis_strict : genesis :=
  {| gen_params := ex_params_strict; gen_holders := gen_holders ex_genesis; gen_validators := gen_validators ex_genesis |}.
Definition ex_header_missed : header :=
  {| h_height := 2; h_proposer := Some 1%N; h_votes := [(1%N, 12, false)]; h_evidence := [] |}.
Example ex_jail :
  let s := srun (init_chain ex_genesis_strict) ex_b1 in let s' := (begin_block s ex_header_missed).1 in
  (begin_block s ex_header_missed).2 = Ok 0 ∧
  bonded_stakes (work s) = [genesis_stake (1%N, 10); ex_delegation] ∧ bonded_stakes (work s') = [] ∧
  frozen (work s') !! 201%N = Some (with_refund 4 ex_delegation) ∧
  frozen (work s') !! 0%N = Some (with_refund 4 (genesis_stake (1%N, 10))).
Proof. cbv zeta. vm_conj. Qed.

(* (C3): block 4 is the refund height of the released stake; account 3 gets 2 x 10^18 back *)
Example ex_refund :
  let s := ex_s4 in let s' := (end_block s).1 in
  end_block s = (s', Ok []) ∧
  frozen (base_of s) !! 201%N = Some (with_refund 4 ex_delegation) ∧ b_height (bctx s) = 4 ∧
  0 ≤ a_bal (fee_credited s 3%N) < two256 ∧
  refund_total (base_of s) 4 3%N = 2 * amountPerPower ∧
  bal_of (work s') 3%N = bal_of (work s) 3%N + 2 * amountPerPower ∧
  frozen_stakes (work s') = [] ∧ bal_of (work s') 1%N = bal_of (work s) 1%N.
Proof.
  cbv zeta. split; [vm_compute; reflexivity|]. split; [vm_compute; reflexivity|]. split; [vm_compute; reflexivity|].
  split. { Local Transparent two256. vm_compute. split; [discriminate | reflexivity]. Local Opaque two256. }
  split; [vm_compute; reflexivity|]. split; [vm_compute; reflexivity|]. split; vm_compute; reflexivity.
Qed.

(* one block earlier nothing is paid: never earlier *)
Example ex_not_earlier :
  let s := srun (init_chain ex_genesis) (ex_b1 ++ ex_b2 ++ [SBegin (ex_header 3)]) in
  (end_block s).2 = Ok [(1%N, 10)] ∧ bal_of (work (end_block s).1) 3%N = bal_of (work s) 3%N ∧
  frozen (work (end_block s).1) !! 201%N = Some (with_refund 4 ex_delegation).
Proof. cbv zeta. vm_conj. Qed.
