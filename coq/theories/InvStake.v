(* InvStake.v — properties C11 (stake bookkeeping) and C12 (release / refund rules) of Spec.v *)
From Rigo Require Import Base.
From stdpp Require Import gmap sorting.
From Rigo Require Import Spec SpecProps.
Local Open Scope Z_scope.
Local Opaque two256 two255 two64 two63.

(* ================================================================== 0. projections *)
Lemma dels_set_acct l a x : dels (set_acct l a x) = dels l. Proof. reflexivity. Qed.
Lemma frozen_set_acct l a x : frozen (set_acct l a x) = frozen l. Proof. reflexivity. Qed.
Lemma dels_set_dels l m : dels (set_dels l m) = m. Proof. reflexivity. Qed.
Lemma frozen_set_dels l m : frozen (set_dels l m) = frozen l. Proof. reflexivity. Qed.
Lemma accts_set_dels l m : accts (set_dels l m) = accts l. Proof. reflexivity. Qed.
Lemma dels_set_frozen l m : dels (set_frozen l m) = dels l. Proof. reflexivity. Qed.
Lemma frozen_set_frozen l m : frozen (set_frozen l m) = m. Proof. reflexivity. Qed.
Lemma accts_set_frozen l m : accts (set_frozen l m) = accts l. Proof. reflexivity. Qed.
Lemma dels_set_rewards l m : dels (set_rewards l m) = dels l. Proof. reflexivity. Qed.
Lemma frozen_set_rewards l m : frozen (set_rewards l m) = frozen l. Proof. reflexivity. Qed.
Lemma dels_set_props l m : dels (set_props l m) = dels l. Proof. reflexivity. Qed.
Lemma frozen_set_props l m : frozen (set_props l m) = frozen l. Proof. reflexivity. Qed.
Lemma accts_set_props l m : accts (set_props l m) = accts l. Proof. reflexivity. Qed.
Lemma dels_set_fprops l m : dels (set_fprops l m) = dels l. Proof. reflexivity. Qed.
Lemma frozen_set_fprops l m : frozen (set_fprops l m) = frozen l. Proof. reflexivity. Qed.
Lemma accts_set_fprops l m : accts (set_fprops l m) = accts l. Proof. reflexivity. Qed.
Lemma dels_set_lparams l m : dels (set_lparams l m) = dels l. Proof. reflexivity. Qed.
Lemma frozen_set_lparams l m : frozen (set_lparams l m) = frozen l. Proof. reflexivity. Qed.
Lemma accts_set_lparams l m : accts (set_lparams l m) = accts l. Proof. reflexivity. Qed.
Global Hint Rewrite dels_set_acct frozen_set_acct dels_set_dels frozen_set_dels accts_set_dels
  dels_set_frozen frozen_set_frozen accts_set_frozen dels_set_rewards frozen_set_rewards
  dels_set_props frozen_set_props accts_set_props dels_set_fprops frozen_set_fprops accts_set_fprops
  dels_set_lparams frozen_set_lparams accts_set_lparams : proj.

(* the part of a ledger state the stake properties talk about *)
Definition same_sf (l l' : ledgers) : Prop := dels l' = dels l ∧ frozen l' = frozen l.
Lemma same_sf_refl l : same_sf l l. Proof. split; reflexivity. Qed.
Lemma same_sf_trans l1 l2 l3 : same_sf l1 l2 → same_sf l2 l3 → same_sf l1 l3.
Proof. intros [H1 H2] [H3 H4]; split; congruence. Qed.

(* ================================================================== 1. sums and stake lists *)
Lemma sum_power_app a b : sum_power (a ++ b) = sum_power a + sum_power b.
Proof. induction a as [|x a IH]; simpl; lia. Qed.
Lemma sum_power_of_app x a b : sum_power_of x (a ++ b) = sum_power_of x a + sum_power_of x b.
Proof. induction a as [|y a IH]; simpl; lia. Qed.

Lemma find_stake_spec h l s0 : find_stake h l = Some s0 → s0 ∈ l ∧ s_hash s0 = h.
Proof.
  induction l as [|s r IH]; simpl; [discriminate|].
  destruct (s_hash s =? h)%N eqn:E.
  - intros [= <-]. split; [left | apply N.eqb_eq, E].
  - intros H. destruct (IH H) as [H1 H2]. split; [right; exact H1 | exact H2].
Qed.

Lemma find_stake_none h l : find_stake h l = None → ∀ s, s ∈ l → s_hash s ≠ h.
Proof.
  induction l as [|s r IH]; simpl; intros Hf x Hx.
  - inversion Hx.
  - destruct (s_hash s =? h)%N eqn:E; [discriminate|].
    apply elem_of_cons in Hx as [-> | Hx]; [apply N.eqb_neq, E | apply IH; assumption].
Qed.

Lemma find_stake_some_of_elem h l s : s ∈ l → s_hash s = h → ∃ s0, find_stake h l = Some s0.
Proof.
  intros Hs Hh. destruct (find_stake h l) as [s0|] eqn:E; [eauto|].
  exfalso. eapply find_stake_none; eauto.
Qed.

Lemma find_remove_sum h l s0 : find_stake h l = Some s0 →
  sum_power (remove_stake h l) = sum_power l - s_power s0.
Proof.
  induction l as [|s r IH]; simpl; [discriminate|].
  destruct (s_hash s =? h)%N.
  - intros [= <-]. lia.
  - intros H. simpl. rewrite (IH H). lia.
Qed.

Lemma find_remove_sum_of x h l s0 : find_stake h l = Some s0 →
  sum_power_of x (remove_stake h l) = sum_power_of x l - (if (s_from s0 =? x)%N then s_power s0 else 0).
Proof.
  induction l as [|s r IH]; simpl; [discriminate|].
  destruct (s_hash s =? h)%N.
  - intros [= <-]. lia.
  - intros H. simpl. rewrite (IH H). lia.
Qed.

Lemma remove_stake_sublist h l : remove_stake h l `sublist_of` l.
Proof.
  induction l as [|s r IH]; simpl; [constructor|].
  destruct (s_hash s =? h)%N; [apply sublist_cons, reflexivity | apply sublist_skip, IH].
Qed.

Lemma sublist_elem {A} (l k : list A) x : l `sublist_of` k → x ∈ l → x ∈ k.
Proof. intros H; induction H; intros Hx; [assumption| |right; auto].
  apply elem_of_cons in Hx as [-> | Hx]; [left | right; auto]. Qed.

Lemma sublist_Forall' {A} (P : A → Prop) (l k : list A) : l `sublist_of` k → Forall P k → Forall P l.
Proof. intros H Hk. rewrite Forall_forall in *. intros x Hx. apply Hk. eapply sublist_elem; eauto. Qed.

Lemma foldl_remove_sublist (rm l : list stake) :
  foldl (λ l s, remove_stake (s_hash s) l) l rm `sublist_of` l.
Proof.
  revert l; induction rm as [|s rm IH]; intros l; simpl; [reflexivity|].
  etrans; [apply IH | apply remove_stake_sublist].
Qed.

(* membership in the concatenation of all delegatees' stakes *)
Lemma elem_of_concat {A} (x : A) (ls : list (list A)) : x ∈ concat ls ↔ ∃ l, l ∈ ls ∧ x ∈ l.
Proof.
  induction ls as [|l ls IH]; simpl.
  - split; [intros H; inversion H | intros (l & H & _); inversion H].
  - rewrite elem_of_app, IH. split.
    + intros [H | (l' & H1 & H2)]; [exists l; split; [left|assumption] | exists l'; split; [right|]; assumption].
    + intros (l' & H1 & H2). apply elem_of_cons in H1 as [-> | H1]; [left; assumption | right; eauto].
Qed.

Lemma elem_of_bonded l st : st ∈ bonded_stakes l ↔ ∃ a d, dels l !! a = Some d ∧ st ∈ d_stakes d.
Proof.
  unfold bonded_stakes. rewrite elem_of_concat. split.
  - intros (ss & H1 & H2). apply elem_of_list_fmap in H1 as ([a d] & -> & H1).
    apply elem_of_map_to_list in H1. eauto.
  - intros (a & d & H1 & H2). exists (d_stakes d). split; [|assumption].
    apply elem_of_list_fmap. exists (a, d). split; [reflexivity|]. apply elem_of_map_to_list; assumption.
Qed.

Lemma elem_of_frozen l st : st ∈ frozen_stakes l ↔ ∃ h, frozen l !! h = Some st.
Proof.
  unfold frozen_stakes. rewrite elem_of_list_fmap. split.
  - intros ([h s] & -> & H). apply elem_of_map_to_list in H. eauto.
  - intros (h & H). exists (h, st). split; [reflexivity | apply elem_of_map_to_list; assumption].
Qed.

(* ================================================================== 2. (A) delegatee bookkeeping *)
Definition dels_ok (l : ledgers) : Prop := ∀ a d, dels l !! a = Some d → delegatee_ok a d.

Lemma dels_ok_same l l' : dels l' = dels l → dels_ok l → dels_ok l'.
Proof. unfold dels_ok; intros -> H; exact H. Qed.

Lemma dels_ok_insert l a d : dels_ok l → delegatee_ok a d → dels_ok (set_dels l (<[a := d]> (dels l))).
Proof.
  intros H Hd b e. rewrite dels_set_dels. destruct (decide (a = b)) as [<-|Hne].
  - rewrite lookup_insert. intros [= <-]. exact Hd.
  - rewrite lookup_insert_ne by assumption. apply H.
Qed.

Lemma dels_ok_delete l a : dels_ok l → dels_ok (set_dels l (delete a (dels l))).
Proof.
  intros H b e. rewrite dels_set_dels. intros Hl. apply lookup_delete_Some in Hl as [_ Hl]. eapply H; eauto.
Qed.

Lemma new_delegatee_ok a : delegatee_ok a (new_delegatee a).
Proof. repeat split; constructor. Qed.

Lemma add_stake_ok a d s : delegatee_ok a d → s_to s = a → delegatee_ok a (add_stake d s).
Proof.
  intros (H1 & H2 & H3 & H4) Hs. unfold delegatee_ok, add_stake; simpl.
  split; [assumption|]. split; [rewrite sum_power_app; simpl; lia|]. split.
  - rewrite sum_power_of_app; simpl. unfold is_self. rewrite Hs. lia.
  - apply Forall_app; split; [assumption | constructor; [assumption | constructor]].
Qed.

Lemma del_stake_ok a d h : delegatee_ok a d → delegatee_ok a (del_stake d h).
Proof.
  intros (H1 & H2 & H3 & H4). unfold del_stake.
  destruct (find_stake h (d_stakes d)) as [s0|] eqn:E; [|repeat split; assumption].
  destruct (find_stake_spec _ _ _ E) as [Hin Hh].
  assert (Hto : s_to s0 = a) by (rewrite Forall_forall in H4; apply H4; assumption).
  unfold delegatee_ok; simpl. split; [assumption|]. split; [rewrite (find_remove_sum _ _ _ E); lia|]. split.
  - rewrite (find_remove_sum_of a _ _ _ E). unfold is_self. rewrite Hto. lia.
  - eapply sublist_Forall'; [apply remove_stake_sublist | assumption].
Qed.

(* DelAllStakes leaves d_self as it was: the result is consistent only if the self power was 0 *)
Lemma del_all_stakes_ok a d : delegatee_ok a d → d_self d = 0 → delegatee_ok a (del_all_stakes d).1.
Proof.
  intros (H1 & H2 & H3 & H4) H0. unfold delegatee_ok, del_all_stakes; simpl.
  split; [assumption|]. split; [lia|]. split; [assumption | constructor].
Qed.
Lemma del_all_stakes_total d : d_total d = sum_power (d_stakes d) → d_total (del_all_stakes d).1 = 0.
Proof. unfold del_all_stakes; simpl; lia. Qed.

Lemma slash_all_ok a d ratio : delegatee_ok a d → delegatee_ok a (slash_all d ratio).1.
Proof.
  intros (H1 & H2 & H3 & H4). unfold delegatee_ok, slash_all; simpl.
  split; [assumption|]. split; [reflexivity|]. split; [rewrite H1; reflexivity|].
  eapply sublist_Forall'; [apply foldl_remove_sublist|].
  apply Forall_fmap. eapply Forall_impl; [exact H4|].
  intros s Hs; simpl. destruct (_ <? _); [exact Hs | exact Hs].
Qed.

Definition with_marks (d : delegatee) (m : list Z) : delegatee :=
  {| d_addr := d_addr d; d_self := d_self d; d_total := d_total d; d_stakes := d_stakes d; d_marks := m |}.
Lemma with_marks_ok a d m : delegatee_ok a d → delegatee_ok a (with_marks d m).
Proof. intros H; exact H. Qed.

(* ------------------------------------------------------------------ stake_execute, inverted *)
Definition unstake_result (D : gmap addr delegatee) (F : gmap hash stake) (a : addr) (d : delegatee)
    (hs : hash) (s0 : stake) (R : Z) : gmap addr delegatee * gmap hash stake :=
  let d1 := del_stake d hs in
  let fr1 := <[s_hash s0 := with_refund R s0]> F in
  let d2 := if d_self d1 =? 0 then (del_all_stakes d1).1 else d1 in
  let fr2 := if d_self d1 =? 0 then freeze_all fr1 R (d_stakes d1) else fr1 in
  (if d_total d2 =? 0 then delete a D else <[a := d2]> D, fr2).

Definition release_height (s : state) : Z := b_height (bctx s) + g_lazyRewardBlocks (gparams s).

Lemma stake_execute_inv s l t l' : stake_execute s l t = Ok l' →
  (t_type t = TRX_STAKING ∧ ∃ d,
      (dels l !! t_to t = Some d ∨ (dels l !! t_to t = None ∧ t_from t = t_to t ∧ d = new_delegatee (t_to t))) ∧
      dels l' = <[t_to t := add_stake d (stake_of_tx t (b_height (bctx s)) (power_of (t_amount t)))]> (dels l) ∧
      frozen l' = frozen l)
  ∨ (t_type t = TRX_UNSTAKING ∧ ∃ d hs b s0,
      dels l !! t_to t = Some d ∧ t_payload t = PUnstake hs b ∧ find_stake hs (d_stakes d) = Some s0 ∧
      s_from s0 = t_from t ∧
      dels l' = (unstake_result (dels l) (frozen l) (t_to t) d hs s0 (release_height s)).1 ∧
      frozen l' = (unstake_result (dels l) (frozen l) (t_to t) d hs s0 (release_height s)).2)
  ∨ (t_type t ≠ TRX_STAKING ∧ t_type t ≠ TRX_UNSTAKING ∧ same_sf l l').
Proof.
  unfold stake_execute.
  destruct (t_type t =? TRX_STAKING) eqn:E1.
  { apply Z.eqb_eq in E1. intros H. left. split; [assumption|].
    destruct (dels l !! t_to t) as [d|] eqn:Ed.
    - destruct (accts l !! t_from t) as [sender|] eqn:Ea; [|discriminate].
      destruct (sub_balance sender (t_amount t)) as [sender'|] eqn:Eb; [|discriminate].
      injection H as <-. exists d. split; [left; reflexivity|]. split; reflexivity.
    - destruct (t_from t =? t_to t)%N eqn:Eft; [|discriminate].
      apply N.eqb_eq in Eft.
      destruct (accts l !! t_from t) as [sender|] eqn:Ea; [|discriminate].
      destruct (sub_balance sender (t_amount t)) as [sender'|] eqn:Eb; [|discriminate].
      injection H as <-. exists (new_delegatee (t_from t)). rewrite Eft at 3.
      split; [right; auto|]. split; reflexivity. }
  apply Z.eqb_neq in E1.
  destruct (t_type t =? TRX_UNSTAKING) eqn:E2.
  { apply Z.eqb_eq in E2. intros H. right; left. split; [assumption|].
    destruct (dels l !! t_to t) as [d|] eqn:Ed; [|discriminate].
    destruct (t_payload t) as [|hs b| | | | |] eqn:Ep; try discriminate.
    destruct (find_stake hs (d_stakes d)) as [s0|] eqn:Ef; [|discriminate].
    destruct (negb (s_from s0 =? t_from t)%N) eqn:Eo; [discriminate|].
    apply negb_false_iff, N.eqb_eq in Eo.
    exists d, hs, b, s0. do 4 (split; [reflexivity || assumption|]).
    unfold unstake_result, release_height.
    destruct (d_self (del_stake d hs) =? 0) eqn:Es; simpl in H |- *.
    - destruct (_ =? 0) in H |- *; injection H as <-; split; reflexivity.
    - destruct (_ =? 0) in H |- *; injection H as <-; split; reflexivity. }
  apply Z.eqb_neq in E2. intros H. right; right. split; [assumption|]. split; [assumption|].
  destruct (t_payload t) as [| |req| | | |] eqn:Ep; try discriminate.
  destruct (rewards l !! t_from t) as [r|] eqn:Er; [|discriminate].
  destruct (r_height r >? b_height (bctx s)); [discriminate|].
  match type of H with match ?x with _ => _ end = _ => destruct x as [l2|] eqn:Ew end; [|discriminate].
  injection H as <-. unfold acct_reward in Ew.
  destruct (accts _ !! t_from t) as [x|]; simpl in Ew; [|discriminate].
  destruct (add_balance x req) as [x'|]; simpl in Ew; [|discriminate].
  injection Ew as <-. split; reflexivity.
Qed.
