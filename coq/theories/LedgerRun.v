(* LedgerRun.v — executable entry points for the correspondence harness (V := N).
   Definitions only.  Evaluate with vm_compute.

   The Go side reports, per operation, one [out N]; for Commit it may report
   [OCommitted ver []] (tree operations are not observable without instrumenting iavl):
   [check_case] compares modulo [erase_treeops]; [check_case_full] compares everything. *)
From stdpp Require Import gmap.
From Rigo Require Import Ledger.

Definition lop := op N.
Definition lout := out N.

Definition run_outs (ops : list lop) : list lout := run ops.
Definition run_outs_buggy (ops : list lop) : list lout := run_buggy ops.
Definition xrun_outs (ops : list (xop N)) : list lout := xrun ops.

Definition out_eqb (a b : lout) : bool :=
  match a, b with
  | ONil, ONil => true
  | OVal v, OVal w => bool_decide (v = w)
  | ONotFound, ONotFound => true
  | OItems l, OItems l' => bool_decide (l = l')
  | OCommitted n l, OCommitted n' l' => bool_decide (n = n') && bool_decide (l = l')
  | OErr, OErr => true
  | _, _ => false
  end.

(* index of the first position where the two traces differ (a missing element differs
   from a present one); None if they are equal *)
Fixpoint first_diff (i : nat) (a b : list lout) : option nat :=
  match a, b with
  | [], [] => None
  | x :: a', y :: b' => if out_eqb x y then first_diff (S i) a' b' else Some i
  | _, _ => Some i
  end.

Definition check_case (ops : list lop) (observed : list lout) : option nat :=
  first_diff 0 (outs (run_outs ops)) (outs observed).
Definition check_case_full (ops : list lop) (observed : list lout) : option nat :=
  first_diff 0 (run_outs ops) observed.
(* the same against the unrepaired get/getFinality *)
Definition check_case_buggy (ops : list lop) (observed : list lout) : option nat :=
  first_diff 0 (outs (run_outs_buggy ops)) (outs observed).

Fixpoint check_cases_from (chk : list lop → list lout → option nat) (i : nat)
    (cases : list (list lop * list lout)) : list (nat * nat) :=
  match cases with
  | [] => []
  | (ops, obs) :: r =>
    match chk ops obs with
    | Some j => (i, j) :: check_cases_from chk (S i) r
    | None => check_cases_from chk (S i) r
    end
  end.

(* (case index, operation index) of every failing case; [] = all cases agree *)
Definition check_cases (cases : list (list lop * list lout)) : list (nat * nat) :=
  check_cases_from check_case 0 cases.
Definition check_cases_full (cases : list (list lop * list lout)) : list (nat * nat) :=
  check_cases_from check_case_full 0 cases.
Definition check_cases_buggy (cases : list (list lop * list lout)) : list (nat * nat) :=
  check_cases_from check_case_buggy 0 cases.
