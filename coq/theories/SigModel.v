(* SigModel.v — symbolic signatures over the byte-exact preimage of Preimage.v.
   ECDSA and SHA-256 are not modelled: they are Section variables with the idealised
   behaviour written as explicit hypotheses of the theorem (never axioms). *)
From Coq Require Import List NArith ZArith.
From Rigo Require Import Rlp Preimage.

Section SymbolicSignatures.
  Variables (digest key sigT : Type).
  Variable hash : list byte -> digest.            (* crypto.DefaultHash = sha256 *)
  Variable sign : key -> digest -> sigT.          (* secp256k1 signing *)
  Variable addr_of : key -> list byte.            (* address of a key pair *)
  Variable recover : digest -> sigT -> option (list byte).  (* crypto.Sig2Addr *)

  (* idealisation 1: a signature made by key k over digest d recovers, for a digest d', to
     some address only if d' = d, and then to k's address (no forgery, no malleability across
     messages) *)
  Hypothesis recover_sign : forall k d d' a,
    recover d' (sign k d) = Some a -> d' = d /\ a = addr_of k.
  (* idealisation 2: no hash collisions *)
  Hypothesis hash_inj : forall m1 m2, hash m1 = hash m2 -> m1 = m2.

  (* VerifyTrxRLP: recover the signer of the preimage and compare with tx.From *)
  Definition verify (chain : list byte) (t : trx) (s : sigT) : bool :=
    match recover (hash (preimage chain t)) s with
    | Some a => if list_eq_dec Byte.byte_eq_dec a (t_from t) then true else false
    | None => false
    end.

  (* A signature that key k made for transaction t0 on chain c0 verifies for (chain, t) only if
     the chain id is the same, every signed field is the same, and k is the key of t.From. *)
  Theorem verify_sound (c0 chain : list byte) (t0 t : trx) (k : key) :
    no_sub pre_mid c0 -> no_sub pre_mid chain -> trx_wf t0 -> trx_wf t ->
    verify chain t (sign k (hash (preimage c0 t0))) = true ->
    chain = c0 /\ trx_norm t = trx_norm t0 /\ t_from t = addr_of k.
  Proof.
    intros Nc0 Nc W0 W Hv. unfold verify in Hv.
    destruct (recover (hash (preimage chain t)) (sign k (hash (preimage c0 t0)))) as [a|] eqn:Hr;
      [|discriminate].
    destruct (list_eq_dec Byte.byte_eq_dec a (t_from t)) as [Ha|]; [|discriminate].
    apply recover_sign in Hr. destruct Hr as [Hd Hak].
    apply hash_inj in Hd.
    destruct (preimage_inj chain c0 t t0 Nc Nc0 W W0 Hd) as [Hc Ht].
    split; [exact Hc|]. split; [exact Ht|]. congruence.
  Qed.

  (* contrapositive, the form the property is phrased in: altering the chain id, any signed
     field, or the claimed sender makes verification fail *)
  Corollary tampered_rejected (c0 chain : list byte) (t0 t : trx) (k : key) :
    no_sub pre_mid c0 -> no_sub pre_mid chain -> trx_wf t0 -> trx_wf t ->
    (chain <> c0 \/ trx_norm t <> trx_norm t0 \/ t_from t <> addr_of k) ->
    verify chain t (sign k (hash (preimage c0 t0))) = false.
  Proof.
    intros Nc0 Nc W0 W Hd.
    destruct (verify chain t (sign k (hash (preimage c0 t0)))) eqn:Hv; [|reflexivity].
    destruct (verify_sound c0 chain t0 t k Nc0 Nc W0 W Hv) as (A & B & C).
    destruct Hd as [Hd|[Hd|Hd]]; contradiction.
  Qed.
End SymbolicSignatures.
