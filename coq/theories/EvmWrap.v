(* EvmWrap.v — executable model of the EVM state wrapper (property C17).
   DEFINITIONS ONLY (no proofs); everything runs under vm_compute.

   Code modelled:
     /repo/ctrlers/vm/evm/statedb.go   StateDBWrapper (Prepare, Finish, AddAddressToAccessList,
                                       addAccessedObjAddr, RevertToSnapshot, revertAccessedObjAddr,
                                       Snapshot, and the pass-through balance/nonce calls)
     /repo/ctrlers/vm/evm/ctrler.go    ExecuteTrx: Snapshot, Prepare, ApplyMessage,
                                       (RevertToSnapshot +) Finish
     go-ethereum v1.10.23 core/state/statedb.go, journal.go, access_list.go, state_object.go:
                                       the journaled part of StateDB that concerns balances, nonces
                                       and the address access list.

   What is in the model
     - addresses N, balances and nonces Z (big.Int arithmetic without bounds: SubBalance may go
       negative exactly as geth's big.Int does; uint64 nonce wrap-around is outside the model);
     - the NATIVE ledger  gmap N (Z*Z)  (balance, nonce), absent = (0,0)
       (so FindOrNewAccount creating an empty native account is invisible here);
     - the geth journaled state [jstate]: balances, nonces (absent = 0: no state object, or a
       deleted one), the address access list, the journal (newest entry first);  [gstate] adds
       validRevisions (newest first) and nextRevisionId;
     - the wrapper [wstate]: geth state + accessedObjAddrs (tags) + s.snapshot + native ledger.
   What is NOT in the model: code, storage, logs, refund counter, preimages, slot access lists
   (they live only in geth and the wrapper passes the calls through unchanged); Exist(addr)
   (sync-in creates the state object, see the report); the unjournaled reset of the access list
   at the start of geth's PrepareAccessList (statedb.go:1007).

   Journal entries keep the previous RAW map entry (option Z), so that undoing an entry restores
   the maps exactly (Leibniz equality), not just up to "absent = 0". *)
From Coq Require Import ZArith NArith Lia.
From stdpp Require Import gmap.

Definition addr := N.

(** * geth: journaled balances / nonces / access list *)

Inductive jentry :=
  | JBal   (a : addr) (old : option Z)    (* balanceChange{account, prev}; also suicideChange's prevbalance *)
  | JNonce (a : addr) (old : option Z)    (* nonceChange{account, prev}; also resetObjectChange (CreateAccount) *)
  | JAcl   (a : addr).                    (* accessListAddAccountChange{address} *)

Record jstate := JS {
  sbal   : gmap addr Z;
  snonce : gmap addr Z;
  sacl   : gmap addr unit;
  sj     : list jentry          (* newest first *)
}.

Definition gb (s : jstate) (a : addr) : Z := default 0%Z (sbal s !! a).      (* StateDB.GetBalance *)
Definition gn (s : jstate) (a : addr) : Z := default 0%Z (snonce s !! a).    (* StateDB.GetNonce *)
Definition in_acl (s : jstate) (a : addr) : bool :=                          (* AddressInAccessList *)
  match sacl s !! a with Some _ => true | None => false end.

(* stateObject.SetBalance: journal.append(balanceChange{prev}); setBalance *)
Definition set_bal (a : addr) (v : Z) (s : jstate) : jstate :=
  JS (<[a:=v]> (sbal s)) (snonce s) (sacl s) (JBal a (sbal s !! a) :: sj s).
(* stateObject.SetNonce *)
Definition set_nonce (a : addr) (v : Z) (s : jstate) : jstate :=
  JS (sbal s) (<[a:=v]> (snonce s)) (sacl s) (JNonce a (snonce s !! a) :: sj s).
(* StateDB.AddAddressToAccessList: journal only if the address was not present *)
Definition add_acl (a : addr) (s : jstate) : jstate :=
  if in_acl s a then s
  else JS (sbal s) (snonce s) (<[a:=()]> (sacl s)) (JAcl a :: sj s).

(* stateObject.AddBalance / SubBalance: amount 0 changes nothing we model (only a touch) *)
Definition j_add_balance (a : addr) (v : Z) (s : jstate) : jstate :=
  if Z.eqb v 0 then s else set_bal a (gb s a + v)%Z s.
Definition j_sub_balance (a : addr) (v : Z) (s : jstate) : jstate :=
  if Z.eqb v 0 then s else set_bal a (gb s a - v)%Z s.
(* StateDB.CreateAccount: a new object replaces the old one; the balance is carried over, the
   nonce starts at 0; the journal entry (resetObjectChange / createObjectChange) restores the
   previous object, i.e. here the previous nonce. *)
Definition j_create (a : addr) (s : jstate) : jstate := set_nonce a 0%Z s.
(* StateDB.Suicide: journal suicideChange{prevbalance}; balance := 0 (nothing if no object:
   then the balance reads 0 already) *)
Definition j_suicide (a : addr) (s : jstate) : jstate := set_bal a 0%Z s.

(* journalEntry.revert, the journal tail [j] becoming the new journal *)
Definition undo1 (e : jentry) (j : list jentry) (s : jstate) : jstate :=
  match e with
  | JBal a o   => JS (partial_alter (λ _, o) a (sbal s)) (snonce s) (sacl s) j
  | JNonce a o => JS (sbal s) (partial_alter (λ _, o) a (snonce s)) (sacl s) j
  | JAcl a     => JS (sbal s) (snonce s) (delete a (sacl s)) j
  end.

(* journal.revert: undo the [k] newest entries *)
Fixpoint undo (k : nat) (s : jstate) : jstate :=
  match k with
  | O => s
  | S k' => match sj s with
            | [] => s
            | e :: j => undo k' (undo1 e j s)
            end
  end.

Record gstate := GS {
  gs    : jstate;
  grevs : list (nat * nat);     (* validRevisions (id, journalIndex), newest first *)
  gnext : nat                   (* nextRevisionId *)
}.

Definition g_lift (f : jstate → jstate) (g : gstate) : gstate := GS (f (gs g)) (grevs g) (gnext g).

(* StateDB.Snapshot *)
Definition g_snapshot (g : gstate) : nat * gstate :=
  (gnext g, GS (gs g) ((gnext g, length (sj (gs g))) :: grevs g) (S (gnext g))).

(* the search of RevertToSnapshot: the revision with this id, and the older ones *)
Fixpoint find_rev (id : nat) (revs : list (nat * nat)) : option (nat * list (nat * nat)) :=
  match revs with
  | [] => None
  | (i, jl) :: rest => if Nat.eqb i id then Some (jl, rest) else find_rev id rest
  end.

(* StateDB.RevertToSnapshot; None = geth panics ("revision id cannot be reverted") *)
Definition g_revert (id : nat) (g : gstate) : option gstate :=
  match find_rev id (grevs g) with
  | None => None
  | Some (jl, rest) => Some (GS (undo (length (sj (gs g)) - jl) (gs g)) rest (gnext g))
  end.

(** * operations and outputs *)

Inductive wop :=
  | OSnapshot
  | ORevert (id : nat)
  | OAddAccess (a : addr)                   (* AddAddressToAccessList *)
  | OGetBalance (a : addr)
  | OGetNonce (a : addr)
  | OAddBalance (a : addr) (v : Z)
  | OSubBalance (a : addr) (v : Z)
  | OSetNonce (a : addr) (n : Z)
  | OCreate (a : addr)                      (* CreateAccount *)
  | OSuicide (a : addr)
  | OPrepare (snap : nat) (from : addr) (to : option addr)   (* StateDBWrapper.Prepare *)
  | OFinish.                                (* StateDBWrapper.Finish *)

Inductive wout := OutUnit | OutId (n : nat) | OutVal (v : Z) | OutErr.

(* the balance/nonce calls, which the wrapper passes straight to geth *)
Definition jstep (o : wop) (s : jstate) : option (wout * jstate) :=
  match o with
  | OGetBalance a   => Some (OutVal (gb s a), s)
  | OGetNonce a     => Some (OutVal (gn s a), s)
  | OAddBalance a v => Some (OutUnit, j_add_balance a v s)
  | OSubBalance a v => Some (OutUnit, j_sub_balance a v s)
  | OSetNonce a n   => Some (OutUnit, set_nonce a n s)
  | OCreate a       => Some (OutUnit, j_create a s)
  | OSuicide a      => Some (OutUnit, j_suicide a s)
  | _ => None
  end.

(** * the reference world: geth alone, on the native balances and nonces *)

Definition opt_acl (t : option addr) (s : jstate) : jstate :=
  match t with Some a => add_acl a s | None => s end.

Definition rstep (o : wop) (g : gstate) : wout * gstate :=
  match jstep o (gs g) with
  | Some (out, s') => (out, GS s' (grevs g) (gnext g))
  | None =>
    match o with
    | OSnapshot => let '(id, g') := g_snapshot g in (OutId id, g')
    | ORevert id => match g_revert id g with Some g' => (OutUnit, g') | None => (OutErr, g) end
    | OAddAccess a => (OutUnit, g_lift (add_acl a) g)
    | OPrepare _ f t => (OutUnit, g_lift (λ s, opt_acl t (add_acl f s)) g)
    | _ => (OutUnit, g)          (* OFinish: nothing to do, there is only one ledger *)
    end
  end.

Fixpoint rrun (ops : list wop) (g : gstate) : list wout * gstate :=
  match ops with
  | [] => ([], g)
  | o :: r => let '(out, g') := rstep o g in let '(outs, g'') := rrun r g' in (out :: outs, g'')
  end.

(** * the wrapper *)

Record wstate := WS {
  wg   : gstate;                 (* the embedded *state.StateDB *)
  wacc : gmap addr nat;          (* accessedObjAddrs *)
  wsnap : nat;                   (* s.snapshot *)
  wnat : gmap addr (Z * Z)       (* acctHandler: (balance, nonce) *)
}.

Definition nb (m : gmap addr (Z * Z)) (a : addr) : Z := fst (default (0%Z, 0%Z) (m !! a)).
Definition nn (m : gmap addr (Z * Z)) (a : addr) : Z := snd (default (0%Z, 0%Z) (m !! a)).

(* addAccessedObjAddr: first access in this transaction => overwrite geth's nonce and balance by
   the native ones (journaled writes!), record the address with tag s.snapshot+1 *)
Definition sync_in (a : addr) (w : wstate) : wstate :=
  match wacc w !! a with
  | Some _ => w
  | None =>
    let s1 := set_nonce a (nn (wnat w) a) (gs (wg w)) in
    let s2 := set_bal a (nb (wnat w) a) s1 in
    WS (GS s2 (grevs (wg w)) (gnext (wg w))) (<[a := S (wsnap w)]> (wacc w)) (wsnap w) (wnat w)
  end.

Definition w_lift (f : jstate → jstate) (w : wstate) : wstate :=
  WS (g_lift f (wg w)) (wacc w) (wsnap w) (wnat w).

(* StateDBWrapper.AddAddressToAccessList *)
Definition w_add_access (a : addr) (w : wstate) : wstate := w_lift (add_acl a) (sync_in a w).

Definition opt_access (t : option addr) (w : wstate) : wstate :=
  match t with Some a => w_add_access a w | None => w end.

(* revertAccessedObjAddr(revid): delete every entry with  revid < tag *)
Definition keep_tags (id : nat) (m : gmap addr nat) : gmap addr nat :=
  filter (λ p, p.2 ≤ id) m.

(* Finish over an explicit visiting order *)
Definition finish_list (l : list addr) (s : jstate) (m : gmap addr (Z * Z)) : gmap addr (Z * Z) :=
  foldr (λ a m, <[a := (gb s a, gn s a)]> m) m l.

Definition acc_addrs (m : gmap addr nat) : list addr := (map_to_list m).*1.

Definition w_finish (w : wstate) : wstate :=
  WS (wg w) ∅ (wsnap w) (finish_list (acc_addrs (wacc w)) (gs (wg w)) (wnat w)).

Definition wstep (o : wop) (w : wstate) : wout * wstate :=
  match jstep o (gs (wg w)) with
  | Some (out, s') => (out, WS (GS s' (grevs (wg w)) (gnext (wg w))) (wacc w) (wsnap w) (wnat w))
  | None =>
    match o with
    | OSnapshot =>
        let '(id, g') := g_snapshot (wg w) in (OutId id, WS g' (wacc w) id (wnat w))
    | ORevert id =>
        match g_revert id (wg w) with
        | Some g' => (OutUnit, WS g' (keep_tags id (wacc w)) (wsnap w) (wnat w))
        | None => (OutErr, w)
        end
    | OAddAccess a => (OutUnit, w_add_access a w)
    | OPrepare sn f t =>
        (OutUnit, opt_access t (w_add_access f (WS (wg w) (wacc w) sn (wnat w))))
    | OFinish => (OutUnit, w_finish w)
    | _ => (OutUnit, w)
    end
  end.

Fixpoint wrun (ops : list wop) (w : wstate) : list wout * wstate :=
  match ops with
  | [] => ([], w)
  | o :: r => let '(out, w') := wstep o w in let '(outs, w'') := wrun r w' in (out :: outs, w'')
  end.

(* between two transactions of a block: StateDB.Finalise (-> clearJournalAndRefund: new journal,
   validRevisions truncated; the access list is NOT cleared, nextRevisionId keeps counting), and
   whatever native transactions do to the native ledger *)
Definition w_finalise (w : wstate) : wstate :=
  WS (GS (JS (sbal (gs (wg w))) (snonce (gs (wg w))) (sacl (gs (wg w))) []) [] (gnext (wg w)))
     (wacc w) (wsnap w) (wnat w).
Definition w_set_native (m : gmap addr (Z * Z)) (w : wstate) : wstate :=
  WS (wg w) (wacc w) (wsnap w) m.

(** * the discipline (what the interpreter guarantees under Berlin rules), judged on the
      reference world *)

Definition op_ok (o : wop) (g : gstate) : Prop :=
  match o with
  | OGetBalance a | OGetNonce a | OAddBalance a _ | OSubBalance a _
  | OSetNonce a _ | OCreate a | OSuicide a => in_acl (gs g) a = true
  | ORevert id => is_Some (find_rev id (grevs g))
  | OPrepare sn _ _ => S sn = gnext g
  | OFinish => False
  | OSnapshot | OAddAccess _ => True
  end.

Fixpoint disciplined (ops : list wop) (g : gstate) : Prop :=
  match ops with
  | [] => True
  | o :: r => op_ok o g ∧ disciplined r (rstep o g).2
  end.

(* boolean version, for the harness *)
Definition op_okb (o : wop) (g : gstate) : bool :=
  match o with
  | OGetBalance a | OGetNonce a | OAddBalance a _ | OSubBalance a _
  | OSetNonce a _ | OCreate a | OSuicide a => in_acl (gs g) a
  | ORevert id => match find_rev id (grevs g) with Some _ => true | None => false end
  | OPrepare sn _ _ => Nat.eqb (S sn) (gnext g)
  | OFinish => false
  | OSnapshot | OAddAccess _ => true
  end.

Fixpoint disciplinedb (ops : list wop) (g : gstate) : bool :=
  match ops with
  | [] => true
  | o :: r => op_okb o g && disciplinedb r (rstep o g).2
  end.

(** * initial states *)

(* the reference world of a wrapper state: geth-style state whose balances and nonces are the
   native ledger's, empty access list, empty journal, no revisions *)
Definition ref_init (w : wstate) : gstate :=
  GS (JS (fst <$> wnat w) (snd <$> wnat w) ∅ []) [] (gnext (wg w)).

(* NewStateDBWrapper on a geth state with the given (stale) balances/nonces *)
Definition fresh_wrapper (stale_bal stale_nonce : gmap addr Z) (native : gmap addr (Z * Z)) : wstate :=
  WS (GS (JS stale_bal stale_nonce ∅ []) [] 0) ∅ 0 native.

(** * entry points for the Go differential harness *)

Definition acct := (N * Z * Z)%type.     (* address, balance, nonce *)

Definition native_of (l : list acct) : gmap addr (Z * Z) :=
  foldr (λ '(a, b, n) m, <[a := (b, n)]> m) ∅ l.
Definition bal_of (l : list acct) : gmap addr Z := foldr (λ '(a, b, _) m, <[a := b]> m) ∅ l.
Definition nonce_of (l : list acct) : gmap addr Z := foldr (λ '(a, _, n) m, <[a := n]> m) ∅ l.

Definition op_addrs (o : wop) : list addr :=
  match o with
  | OAddAccess a | OGetBalance a | OGetNonce a | OAddBalance a _ | OSubBalance a _
  | OSetNonce a _ | OCreate a | OSuicide a => [a]
  | OPrepare _ f (Some t) => [f; t]
  | OPrepare _ f None => [f]
  | _ => []
  end.

Fixpoint ins_sorted (a : N) (l : list N) : list N :=
  match l with
  | [] => [a]
  | x :: r => if N.eqb a x then l else if N.ltb a x then a :: l else x :: ins_sorted a r
  end.
Definition sort_dedup (l : list N) : list N := foldr ins_sorted [] l.

Definition case_addrs (native0 stale : list acct) (ops : list wop) : list addr :=
  sort_dedup ((native0.*1).*1 ++ (stale.*1).*1 ++ concat (map op_addrs ops)).

(* outputs, and the final native ledger on all addresses of the case (ascending) *)
Definition wrun_outs (native0 stale : list acct) (ops : list wop) : list wout * list acct :=
  let '(outs, w) := wrun ops (fresh_wrapper (bal_of stale) (nonce_of stale) (native_of native0)) in
  (outs, map (λ a, (a, nb (wnat w) a, nn (wnat w) a)) (case_addrs native0 stale ops)).

(* the reference machine: starts from the native ledger, ignores [stale]; its final balances
   and nonces are the expected native ledger *)
Definition rrun_outs (native0 stale : list acct) (ops : list wop) : list wout * list acct :=
  let w0 := fresh_wrapper (bal_of stale) (nonce_of stale) (native_of native0) in
  let '(outs, g) := rrun ops (ref_init w0) in
  (outs, map (λ a, (a, gb (gs g) a, gn (gs g) a)) (case_addrs native0 stale ops)).

Definition wout_eqb (x y : wout) : bool :=
  match x, y with
  | OutUnit, OutUnit => true
  | OutId n, OutId m => Nat.eqb n m
  | OutVal v, OutVal u => Z.eqb v u
  | OutErr, OutErr => true
  | _, _ => false
  end.

Fixpoint list_eqb {A} (eqb : A → A → bool) (l1 l2 : list A) : bool :=
  match l1, l2 with
  | [], [] => true
  | x :: r1, y :: r2 => eqb x y && list_eqb eqb r1 r2
  | _, _ => false
  end.

Definition acct_eqb (x y : acct) : bool :=
  let '(a, b, n) := x in let '(a', b', n') := y in N.eqb a a' && Z.eqb b b' && Z.eqb n n'.

Definition res_eqb (x y : list wout * list acct) : bool :=
  list_eqb wout_eqb x.1 y.1 && list_eqb acct_eqb x.2 y.2.

(* one case of the harness: initial native ledger, stale geth copies, the calls made, and what
   the real StateDBWrapper answered (outputs, final native ledger on [case_addrs]) *)
Record wcase := WCase {
  c_native : list acct;
  c_stale  : list acct;
  c_ops    : list wop;
  c_outs   : list wout;
  c_final  : list acct
}.

(* (the wrapper model reproduces the Go observations,
    the reference world gives the same observations) *)
Definition check_wcase (c : wcase) : bool * bool :=
  (res_eqb (wrun_outs (c_native c) (c_stale c) (c_ops c)) (c_outs c, c_final c),
   res_eqb (rrun_outs (c_native c) (c_stale c) (c_ops c)) (c_outs c, c_final c)).

Definition check_wcases (cs : list wcase) : bool :=
  forallb (λ c, let '(x, y) := check_wcase c in x && y) cs.

(* indices of the failing cases, with the two flags *)
Fixpoint check_wcases_detail_from (i : nat) (cs : list wcase) : list (nat * bool * bool) :=
  match cs with
  | [] => []
  | c :: r =>
    let '(x, y) := check_wcase c in
    if x && y then check_wcases_detail_from (S i) r
    else (i, x, y) :: check_wcases_detail_from (S i) r
  end.
Definition check_wcases_detail (cs : list wcase) : list (nat * bool * bool) :=
  check_wcases_detail_from 0 cs.

(* model against reference only (no Go observation needed): used by the examples *)
Definition agree (native0 stale : list acct) (ops : list wop) : bool :=
  res_eqb (wrun_outs native0 stale ops) (rrun_outs native0 stale ops).
