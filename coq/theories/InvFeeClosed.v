(* InvFeeClosed.v — property C16 over whole runs, with hypotheses on the inputs only.

   InvFee.v proves the per-step facts behind Props/C16.v (admission, exact cost of one delivery,
   growth of the fee sum, what one EndBlock credits).  This file puts them together along runs
   [srun (init_chain g) ops] from a genesis:

   0. vocabulary: [fee1], [fees_of_txs], [fees_of_block] (per block of a run: height, proposer, the
      (sender, fee) pairs of its successful deliveries), [in_force] (the parameter set a run hands
      over at its Commits), [fee_gain] / [credits] (what the fee step of the EndBlocks of a run
      credits), [fees_flat], [moved], [charged_to];
   1. shape: on a well-bracketed list (Begin, Deliver*, End, Commit, consecutive heights) every
      BeginBlock passes its height check -- no hypothesis on states ([bracketed_begin_height]);
   2. price: [C16_run_price_in_force] (every successful delivery of ANY run was accepted at the gas
      price of the set in force, which is constant between Commits), [C16_run_price_hand_over] (the
      set changes at a Commit only, to what an EndBlock computed from a passed parameter proposal
      whose applying height had come), [C16_run_admission_exact] (the bounds as products over Z);
   3. blocks: [C16_run_block_fee_sum_mod] (every block of every well-bracketed run, EVM path
      included: one price per block, fee sum = sum of gas x price modulo 2^256) and
      [C16_run_block_credit] (closed runs: the sum is exact, EndBlock answers, and every balance after
      EndBlock = balance before + the fee sum for the proposer + unbonding refunds);
   4. deliveries of closed runs: [C16_run_sender_charge] (+ [_types]), [C16_run_failed_no_charge],
      [C16_run_failed_no_effect], [C16_run_no_panic];
   5. totals of closed runs: [C16_run_total_fees] (credits = fees of the blocks with a proposer;
      charged = credited + fees of proposer-less blocks + open block; fees are moved, never created),
      [C16_run_account_ledger] (per account, the balance at the end of the run);
   the EVM path on checked histories: [C16_run_evm_charge_checked];
   6. an eight-block example with a governance change of gas price and minimum gas.

   "Closed run" = the input-only hypotheses of InvReach.C02_closed_total: [genesis_ok],
   [InvPanic.bracketed Idle 0], [hashes_fresh], [txs_ok], genesis supply + requested withdrawals
   below the supply bound. *)
From Rigo Require Import Base.
From stdpp Require Import gmap sorting.
From Coq Require Import ZifyBool ZifyNat ZifyN.
From Rigo Require Import Spec SpecProps.
From Rigo Require InvFail InvNonce InvReward InvGov InvPanic.
From Rigo Require Import InvFee InvSupply InvReach InvClosed InvStake InvUnbond.
Local Open Scope Z_scope.

Local Opaque two256 two255 two64 two63.

(* ================================================================== 0. vocabulary *)

(* the fee of one delivery, as a function of the run: the sender and gas x the gas price in force in
   the state the transaction is delivered in, where gas is what the delivery REPORTS ([Ok gas]: the
   gas limit on the native path, the interpreter's gas used on the EVM path); nothing for a failed
   or panicking delivery.  The product is over Z. *)
Definition fee1 (s : state) (t : tx) : list (addr * Z) :=
  match (deliver s t).2 with
  | Ok gas => [(t_from t, gas * g_gasPrice (gparams s))]
  | _ => []
  end.

Fixpoint fees_of_txs (s : state) (txs : list tx) : list (addr * Z) :=
  match txs with
  | [] => []
  | t :: r => fee1 s t ++ fees_of_txs (deliver s t).1 r
  end.

Definition fee_total (l : list (addr * Z)) : Z := sumZ_with snd l.

(* one block of a run: height and proposer of the block context at its EndBlock, and the fees of
   its successful deliveries in order *)
Record fblock := { fb_height : Z; fb_proposer : option addr; fb_fees : list (addr * Z) }.

(* the accumulator of the open block after one operation *)
Definition open_step (s : state) (cur : list (addr * Z)) (o : sop) : list (addr * Z) :=
  match o with
  | SBegin _ => []
  | SDeliver t => cur ++ fee1 s t
  | SEnd => []
  | SCommit => cur
  end.

(* walking the operation list from state [s] with the fees [cur] of the block that is open:
   one [fblock] per EndBlock *)
Fixpoint fees_from (s : state) (cur : list (addr * Z)) (ops : list sop) : list fblock :=
  match ops with
  | [] => []
  | o :: r =>
      match o with
      | SEnd => [{| fb_height := b_height (bctx s); fb_proposer := b_proposer (bctx s); fb_fees := cur |}]
      | _ => []
      end ++ fees_from (sstep s o) (open_step s cur o) r
  end.

Fixpoint open_fees (s : state) (cur : list (addr * Z)) (ops : list sop) : list (addr * Z) :=
  match ops with
  | [] => cur
  | o :: r => open_fees (sstep s o) (open_step s cur o) r
  end.

Definition fees_of_block (g : genesis) (ops : list sop) : list fblock := fees_from (init_chain g) [] ops.

Lemma fees_from_app pre : ∀ s cur post,
  fees_from s cur (pre ++ post) = fees_from s cur pre ++ fees_from (srun s pre) (open_fees s cur pre) post.
Proof.
  induction pre as [|o pre IH]; intros s cur post; cbn [app fees_from open_fees]; [reflexivity|].
  rewrite IH, app_assoc. reflexivity.
Qed.

Lemma open_fees_app pre : ∀ s cur post,
  open_fees s cur (pre ++ post) = open_fees (srun s pre) (open_fees s cur pre) post.
Proof. induction pre as [|o pre IH]; intros s cur post; cbn [app open_fees]; [reflexivity|]. apply IH. Qed.

Lemma fees_from_delivers txs : ∀ s cur,
  fees_from s cur (map SDeliver txs) = [] ∧ open_fees s cur (map SDeliver txs) = cur ++ fees_of_txs s txs.
Proof.
  induction txs as [|t txs IH]; intros s cur; cbn [map fees_from open_fees fees_of_txs].
  - rewrite app_nil_r. split; reflexivity.
  - destruct (IH (sstep s (SDeliver t)) (open_step s cur (SDeliver t))) as [I1 I2].
    rewrite I1, I2. cbn [open_step sstep]. rewrite app_assoc. split; reflexivity.
Qed.

(* the block of a run: the list [pre ++ Begin hd :: Deliver txs ++ End :: post] contributes, after the
   blocks of [pre], exactly one [fblock]: the fees of [txs] delivered from the state after Begin *)
Lemma fees_from_block s cur pre hd txs post :
  let s0 := srun s pre in
  let s1 := (begin_block s0 hd).1 in
  let s2 := srun s1 (map SDeliver txs) in
  fees_from s cur (pre ++ SBegin hd :: map SDeliver txs ++ SEnd :: post) =
    fees_from s cur pre ++
    {| fb_height := b_height (bctx s2); fb_proposer := b_proposer (bctx s2); fb_fees := fees_of_txs s1 txs |}
      :: fees_from (end_block s2).1 [] post.
Proof.
  cbv zeta. rewrite fees_from_app. f_equal. cbn [fees_from app sstep open_step].
  rewrite fees_from_app. destruct (fees_from_delivers txs (begin_block (srun s pre) hd).1 []) as [E1 E2].
  rewrite E1, E2. cbn [app fees_from sstep open_step]. reflexivity.
Qed.

(* ================================================================== 1. the shape of a run *)
(* On a well-bracketed list the heights take care of themselves: BeginBlock of block n+1 finds
   [last_height = n].  No hypothesis about states is needed for this (unlike InvPanic.phase_inv). *)
Definition shape_inv (ph : InvPanic.phase) (n : Z) (s : state) : Prop :=
  last_height s = n ∧
  match ph with
  | InvPanic.Idle => True
  | InvPanic.InBlock | InvPanic.Ended => b_height (bctx s) = n + 1
  end.

Lemma end_block_ctl s : bctx (end_block s).1 = bctx s ∧ last_height (end_block s).1 = last_height s ∧
  gparams (end_block s).1 = gparams s.
Proof.
  destruct (end_block s) as [s' r] eqn:E. cbn [fst].
  apply InvFee.end_block_inv in E. destruct r as [ups|e|p]; [|subst s'; auto..].
  destruct E as (l1 & l2 & np & l3 & _ & _ & _ & _ & Hb & _ & Hg & _ & Hl). auto.
Qed.

Lemma begin_block_last_height s hd : last_height (begin_block s hd).1 = last_height s.
Proof.
  unfold begin_block. destruct (negb _); [reflexivity|]. cbv zeta.
  destruct (h_votes hd); [reflexivity|]. destruct (process_votes _ _ _ _) as [[l3 i]|e|pp]; reflexivity.
Qed.

Lemma shape_step ph n s o r :
  shape_inv ph n s → InvPanic.bracketed ph n (o :: r) →
  shape_inv (InvPanic.next_phase ph n o).1 (InvPanic.next_phase ph n o).2 (sstep s o) ∧
  InvPanic.bracketed (InvPanic.next_phase ph n o).1 (InvPanic.next_phase ph n o).2 r.
Proof.
  intros [Hl Hph] Hbr.
  destruct ph, o as [hd|t| |]; cbn [InvPanic.bracketed] in Hbr; try contradiction;
    cbn [InvPanic.next_phase fst snd sstep].
  - destruct Hbr as (Hh & _ & Hbr). split; [|exact Hbr].
    pose proof (begin_block_last_height s hd) as Hlh.
    destruct (begin_block s hd) as [s' x] eqn:E. cbn [fst] in *.
    destruct (begin_block_feesum _ _ _ _ E ltac:(lia)) as (_ & _ & Hb). split; lia.
  - destruct Hbr as (_ & Hbr). split; [|exact Hbr].
    destruct (deliver s t) as [s' x] eqn:E. cbn [fst].
    destruct (deliver_bctx _ _ _ _ E) as (Hh & _ & _ & _ & _ & Hlh). split; lia.
  - split; [|exact Hbr]. destruct (end_block_ctl s) as (Hb & Hlh & _). unfold shape_inv. rewrite Hb, Hlh. split; lia.
  - split; [|exact Hbr]. split; [cbn; lia|exact I].
Qed.

Lemma shape_run pre : ∀ ph n s post,
  shape_inv ph n s → InvPanic.bracketed ph n (pre ++ post) →
  shape_inv (InvPanic.end_phase ph n pre).1 (InvPanic.end_phase ph n pre).2 (srun s pre) ∧
  InvPanic.bracketed (InvPanic.end_phase ph n pre).1 (InvPanic.end_phase ph n pre).2 post.
Proof.
  induction pre as [|o pre IH]; intros ph n s post Hs Hbr; [split; assumption|].
  cbn [app] in Hbr. destruct (shape_step ph n s o _ Hs Hbr) as [Hs' Hbr'].
  cbn [InvPanic.end_phase]. unfold srun. cbn [foldl]. apply IH; assumption.
Qed.

Lemma shape_init g : shape_inv InvPanic.Idle 0 (init_chain g).
Proof. split; [reflexivity|exact I]. Qed.

(* every BeginBlock of a well-bracketed run passes the height check, whatever the states are *)
Lemma bracketed_begin_height g pre hd post :
  InvPanic.bracketed InvPanic.Idle 0 (pre ++ SBegin hd :: post) →
  h_height hd = last_height (srun (init_chain g) pre) + 1.
Proof.
  intros Hbr. destruct (shape_run pre _ _ _ _ (shape_init g) Hbr) as [[Hl _] Hbr'].
  destruct (InvPanic.end_phase InvPanic.Idle 0 pre).1; cbn [InvPanic.bracketed] in Hbr'; try contradiction.
  destruct Hbr' as (Hh & _). lia.
Qed.

(* ================================================================== 2. the price in force *)
(* The parameter set in force after a run, computed along the list: the genesis set, replaced at
   every Commit by the set the preceding EndBlocks left pending ([newparams]), when there is one.
   No other operation touches it. *)
Definition hand_over (s : state) (cur : params) (o : sop) : params :=
  match o with SCommit => default cur (newparams s) | _ => cur end.

Fixpoint in_force (s : state) (cur : params) (ops : list sop) : params :=
  match ops with
  | [] => cur
  | o :: r => in_force (sstep s o) (hand_over s cur o) r
  end.

Lemma begin_block_gparams' s hd : gparams (begin_block s hd).1 = gparams s ∧ newparams (begin_block s hd).1 = newparams s.
Proof.
  destruct (begin_block s hd) as [s' r] eqn:E. cbn [fst].
  destruct (InvGov.begin_block_inv _ _ _ _ E) as (_ & A & B & _). auto.
Qed.

Lemma sstep_gparams s o : gparams (sstep s o) = hand_over s (gparams s) o.
Proof.
  destruct o as [hd|t| |]; cbn [sstep hand_over].
  - apply begin_block_gparams'.
  - apply (InvGov.deliver_params_unchanged s t).
  - apply end_block_ctl.
  - reflexivity.
Qed.

Lemma gparams_in_force ops : ∀ s, gparams (srun s ops) = in_force s (gparams s) ops.
Proof.
  unfold srun. induction ops as [|o ops IH]; intros s; cbn [foldl in_force]; [reflexivity|].
  rewrite IH, sstep_gparams. reflexivity.
Qed.

Definition no_commit (l : list sop) : Prop := Forall (λ o, o ≠ SCommit) l.

Lemma gparams_no_commit mid : no_commit mid → ∀ s, gparams (srun s mid) = gparams s.
Proof.
  unfold srun. induction 1 as [|o mid Ho _ IH]; intros s; cbn [foldl]; [reflexivity|].
  rewrite IH, sstep_gparams. destruct o; try reflexivity. contradiction.
Qed.

(* what the pending set is: BeginBlock and DeliverTx leave it alone, Commit clears it, and EndBlock
   either leaves it alone or sets it to the current parameters merged with the winning document of
   a parameter proposal of the committed tree whose applying height has come *)
Lemma sstep_newparams s o :
  match o with
  | SBegin _ | SDeliver _ => newparams (sstep s o) = newparams s
  | SCommit => newparams (sstep s o) = None
  | SEnd =>
      newparams (sstep s o) = newparams s ∨
      ∃ k p w newp,
        fprops (base_of s) !! k = Some p ∧ p_apply p ≤ b_height (bctx s) ∧
        p_opttype p = PROPOSAL_GOVPARAMS ∧ p_major p = Some w ∧ o_params w = Some newp ∧
        newparams (sstep s o) = Some (merge_params (gparams s) newp)
  end.
Proof.
  destruct o as [hd|t| |]; cbn [sstep].
  - apply begin_block_gparams'.
  - apply (InvGov.deliver_params_unchanged s t).
  - destruct (InvGov.end_block_params s) as (_ & _ & [[H _]|(k & p & w & newp & H1 & H2 & H3 & H4 & H5 & H6 & _)]).
    + left. exact H.
    + right. exists k, p, w, newp. auto 10.
  - reflexivity.
Qed.

(* C16, price: every successful delivery of every run -- no hypothesis on the run -- was accepted at
   the gas price of the parameter set in force in the state it was delivered in, with gas x price at
   least the minimum fee (and gas covering the intrinsic gas, for contract transactions); that set is
   [in_force] of the prefix: the genesis set if the prefix has no Commit, otherwise what the last
   Commit of the prefix handed over, and nothing after that Commit changed it.  In particular the
   price is constant between two Commits, hence within a block. *)
Theorem C16_run_price_in_force g ops pre t post s' gas :
  ops = pre ++ SDeliver t :: post →
  let s := srun (init_chain g) pre in
  deliver s t = (s', Ok gas) →
  t_price t = g_gasPrice (gparams s) ∧
  mul256 (g_minTrxGas (gparams s)) (g_gasPrice (gparams s)) ≤ fee_of t ∧
  (t_type t = TRX_CONTRACT → intrinsic_of t ≤ t_gas t) ∧
  gparams s = in_force (init_chain g) (gen_params g) pre ∧
  (no_commit pre → gparams s = gen_params g) ∧
  (∀ pre0 mid, pre = pre0 ++ mid → no_commit mid → gparams s = gparams (srun (init_chain g) pre0)) ∧
  (∀ pre0 mid, pre = pre0 ++ SCommit :: mid → no_commit mid →
     let sc := srun (init_chain g) pre0 in gparams s = default (gparams sc) (newparams sc)).
Proof.
  intros _ s Hd. destruct (deliver_ok_admission _ _ _ _ Hd) as (H1 & H2 & H3).
  split; [exact H1|]. split; [exact H2|]. split; [exact H3|].
  split; [apply (gparams_in_force pre (init_chain g))|].
  split; [intros Hn; apply (gparams_no_commit pre Hn (init_chain g))|]. split.
  - intros pre0 mid -> Hn. unfold s. rewrite srun_app. apply gparams_no_commit. exact Hn.
  - intros pre0 mid -> Hn sc. unfold s. rewrite srun_app. unfold srun at 1. cbn [foldl].
    fold (srun (sstep (srun (init_chain g) pre0) SCommit) mid). rewrite (gparams_no_commit mid Hn). reflexivity.
Qed.
Print Assumptions C16_run_price_in_force.

(* with well-formed genesis parameters and parameter documents that keep parameters well formed
   ([opts_ok], input-only: the submission check enforces no range, InvReach.params_ok_needs_opts_ok),
   the two fee bounds are products over Z *)
Theorem C16_run_admission_exact g ops pre t post s' gas :
  params_ok (gen_params g) → opts_ok ops → 0 ≤ t_gas t < two64 →
  ops = pre ++ SDeliver t :: post →
  let s := srun (init_chain g) pre in
  deliver s t = (s', Ok gas) →
  params_ok (gparams s) ∧
  t_price t = g_gasPrice (gparams s) ∧
  g_minTrxGas (gparams s) * g_gasPrice (gparams s) ≤ t_gas t * t_price t ∧
  (t_type t = TRX_CONTRACT → intrinsic_of t ≤ t_gas t).
Proof.
  intros Hg Hok Hgas E s Hd.
  assert (Hp : params_ok (gparams s)).
  { apply (params_ok_reachable g ops Hg Hok). exists (SDeliver t :: post). exact E. }
  destruct (deliver_ok_admission_exact _ _ _ _ Hd Hp Hgas) as [H1 H2].
  destruct (deliver_ok_admission _ _ _ _ Hd) as (_ & _ & H3). auto.
Qed.
Print Assumptions C16_run_admission_exact.

(* where a pending parameter set comes from: it was computed by an EndBlock of the run, no Commit
   since, from the winning document of a parameter proposal of the committed tree whose applying
   height had been reached *)
Lemma pending_origin g pre : ∀ m,
  newparams (srun (init_chain g) pre) = Some m →
  ∃ pre0 mid, pre = pre0 ++ SEnd :: mid ∧ no_commit mid ∧
    let se := srun (init_chain g) pre0 in
    ∃ k p w newp,
      fprops (base_of se) !! k = Some p ∧ p_apply p ≤ b_height (bctx se) ∧
      p_opttype p = PROPOSAL_GOVPARAMS ∧ p_major p = Some w ∧ o_params w = Some newp ∧
      m = merge_params (gparams se) newp.
Proof.
  induction pre as [|o pre IH] using rev_ind; intros m Hm; [discriminate Hm|].
  rewrite srun_snoc in Hm. pose proof (sstep_newparams (srun (init_chain g) pre) o) as Hn.
  assert (Hkeep : o ≠ SCommit → newparams (srun (init_chain g) pre) = Some m →
            ∃ pre0 mid, pre ++ [o] = pre0 ++ SEnd :: mid ∧ no_commit mid ∧
              let se := srun (init_chain g) pre0 in
              ∃ k p w newp, fprops (base_of se) !! k = Some p ∧ p_apply p ≤ b_height (bctx se) ∧
                p_opttype p = PROPOSAL_GOVPARAMS ∧ p_major p = Some w ∧ o_params w = Some newp ∧
                m = merge_params (gparams se) newp).
  { intros Ho Hm'. destruct (IH m Hm') as (pre0 & mid & -> & Hnc & Hx).
    exists pre0, (mid ++ [o]). split; [rewrite <- app_assoc; reflexivity|]. split; [|exact Hx].
    apply Forall_app. split; [exact Hnc|]. constructor; [exact Ho|constructor]. }
  destruct o as [hd|t| |].
  - apply Hkeep; [discriminate|]. rewrite <- Hn. exact Hm.
  - apply Hkeep; [discriminate|]. rewrite <- Hn. exact Hm.
  - destruct Hn as [Hn|(k & p & w & newp & H1 & H2 & H3 & H4 & H5 & H6)].
    + apply Hkeep; [discriminate|]. rewrite <- Hn. exact Hm.
    + exists pre, []. split; [reflexivity|]. split; [constructor|]. cbv zeta.
      exists k, p, w, newp. rewrite Hm in H6. injection H6 as ->. auto 10.
  - rewrite Hn in Hm. discriminate Hm.
Qed.

(* C16 "across governance changes": the parameter set in force (hence the gas price and the minimum
   gas) changes at a Commit and nowhere else, and what the Commit switches in is the set an EndBlock
   of the run computed from a passed parameter proposal whose applying height had been reached *)
Theorem C16_run_price_hand_over g pre o :
  let s := srun (init_chain g) pre in
  gparams (sstep s o) ≠ gparams s →
  o = SCommit ∧ newparams s = Some (gparams (sstep s o)) ∧
  ∃ pre0 mid, pre = pre0 ++ SEnd :: mid ∧ no_commit mid ∧
    let se := srun (init_chain g) pre0 in
    ∃ k p w newp,
      fprops (base_of se) !! k = Some p ∧ p_apply p ≤ b_height (bctx se) ∧
      p_opttype p = PROPOSAL_GOVPARAMS ∧ p_major p = Some w ∧ o_params w = Some newp ∧
      gparams (sstep s o) = merge_params (gparams se) newp.
Proof.
  intros s Hne. rewrite sstep_gparams in Hne. rewrite sstep_gparams.
  destruct o as [hd|t| |]; cbn [hand_over] in *; try (contradiction Hne; reflexivity).
  split; [reflexivity|]. destruct (newparams s) as [m|] eqn:Em; [|contradiction Hne; reflexivity].
  cbn [default from_option id]. split; [reflexivity|]. apply (pending_origin g pre m Em).
Qed.
Print Assumptions C16_run_price_hand_over.

(* ================================================================== 3a. the fee sum of a block, modulo 2^256 *)
Definition fee_at (price : Z) (t : tx) (r : res Z) : list (addr * Z) :=
  match r with Ok gas => [(t_from t, gas * price)] | _ => [] end.
(* the same on the native path, where gas used is the gas limit *)
Definition fee_native (price : Z) (t : tx) (r : res Z) : list (addr * Z) :=
  match r with Ok _ => [(t_from t, t_gas t * price)] | _ => [] end.

Lemma fee_total_app l k : fee_total (l ++ k) = fee_total l + fee_total k.
Proof. unfold fee_total. apply InvReward.sumZ_with_app. Qed.

Lemma fee1_result s t : fee1 s t = fee_at (g_gasPrice (gparams s)) t (deliver s t).2.
Proof. reflexivity. Qed.

Lemma add_wrap_mul acc g p : add256 (wrap256 acc) (mul256 g p) = wrap256 (acc + g * p).
Proof.
  unfold add256, mul256, wrap256. pose proof two256_pos.
  rewrite <- Z.add_mod by lia. reflexivity.
Qed.

(* deliveries from any state: the fee sum grows by the fees of the list (modulo 2^256), all priced
   at the one gas price of that state; height, proposer and parameters stay *)
Lemma delivers_fees txs : ∀ s acc,
  b_feesum (bctx s) = wrap256 acc →
  let s2 := srun s (map SDeliver txs) in
  b_feesum (bctx s2) = wrap256 (acc + fee_total (fees_of_txs s txs)) ∧
  gparams s2 = gparams s ∧ b_proposer (bctx s2) = b_proposer (bctx s) ∧ b_height (bctx s2) = b_height (bctx s) ∧
  fees_of_txs s txs = concat (zip_with (fee_at (g_gasPrice (gparams s))) txs (deliver_all s txs).2).
Proof.
  induction txs as [|t txs IH]; intros s acc Hacc; cbv zeta; cbn [map fees_of_txs deliver_all].
  - unfold srun, fee_total. cbn. rewrite Z.add_0_r. auto.
  - unfold srun. cbn [foldl sstep]. fold (srun (deliver s t).1 (map SDeliver txs)).
    rewrite fee1_result. destruct (deliver s t) as [s1 x] eqn:Ed. cbn [fst snd].
    destruct (deliver_bctx _ _ _ _ Ed) as (Hh & Hp & Hf & Hg & _).
    assert (Hacc1 : b_feesum (bctx s1) = wrap256 (acc + fee_total (fee_at (g_gasPrice (gparams s)) t x))).
    { rewrite Hf, Hacc. destruct x as [gas|e|pn]; unfold fee_total; cbn [fee_at sumZ_with foldr snd].
      - rewrite add_wrap_mul. f_equal. lia.
      - rewrite Z.add_0_r. reflexivity.
      - rewrite Z.add_0_r. reflexivity. }
    specialize (IH s1 _ Hacc1). cbv zeta in IH. destruct IH as (I1 & I2 & I3 & I4 & I5).
    destruct (deliver_all s1 txs) as [s2' xs] eqn:Ea. cbn [snd] in *.
    rewrite fee_total_app, I1. split; [f_equal; lia|]. split; [congruence|]. split; [congruence|]. split; [congruence|].
    cbn [zip_with concat]. rewrite I5, Hg. reflexivity.
Qed.

(* C16, a block of a well-bracketed run -- any transactions, EVM path included, no hypothesis on
   states: the block context at EndBlock carries the header's height and proposer, every delivery
   of the block was priced at the ONE gas price in force when the block began, and the fee sum
   EndBlock will pay is the sum of gas x price over the successful deliveries, modulo 2^256.
   [fees_of_block] lists that block right after the blocks of the prefix. *)
Theorem C16_run_block_fee_sum_mod g ops pre hd txs post :
  InvPanic.bracketed InvPanic.Idle 0 ops →
  ops = pre ++ SBegin hd :: map SDeliver txs ++ SEnd :: post →
  let s0 := srun (init_chain g) pre in
  let s1 := (begin_block s0 hd).1 in
  let s2 := srun s1 (map SDeliver txs) in
  s2 = srun (init_chain g) (pre ++ SBegin hd :: map SDeliver txs) ∧
  b_height (bctx s2) = h_height hd ∧ b_proposer (bctx s2) = h_proposer hd ∧ gparams s2 = gparams s0 ∧
  fees_of_txs s1 txs = concat (zip_with (fee_at (g_gasPrice (gparams s0))) txs (deliver_all s1 txs).2) ∧
  b_feesum (bctx s2) = wrap256 (fee_total (fees_of_txs s1 txs)) ∧
  fees_of_block g ops =
    fees_of_block g pre ++
    {| fb_height := h_height hd; fb_proposer := h_proposer hd; fb_fees := fees_of_txs s1 txs |}
      :: fees_from (end_block s2).1 [] post.
Proof.
  intros Hbr E s0 s1 s2.
  assert (Hh : h_height hd = last_height s0 + 1) by (rewrite E in Hbr; apply (bracketed_begin_height g pre hd _ Hbr)).
  assert (Eb : begin_block s0 hd = (s1, (begin_block s0 hd).2)) by (unfold s1; destruct (begin_block s0 hd); reflexivity).
  destruct (begin_block_feesum _ _ _ _ Eb Hh) as (Hf0 & Hp0 & Hh0).
  destruct (begin_block_gparams' s0 hd) as [Hg1 _]. fold s1 in Hg1.
  assert (Hacc : b_feesum (bctx s1) = wrap256 0) by (rewrite Hf0; reflexivity).
  destruct (delivers_fees txs s1 0 Hacc) as (I1 & I2 & I3 & I4 & I5). fold s2 in I1, I2, I3, I4.
  rewrite Z.add_0_l in I1.
  split.
  { unfold s2, s1, s0. rewrite srun_app. unfold srun at 3. cbn [foldl sstep]. reflexivity. }
  split; [congruence|]. split; [congruence|]. split; [congruence|].
  split; [rewrite I5, Hg1; reflexivity|]. split; [exact I1|].
  unfold fees_of_block. rewrite E. rewrite (fees_from_block (init_chain g) [] pre hd txs post).
  fold s0. fold s1. fold s2. rewrite I4, I3, Hh0, Hp0. reflexivity.
Qed.
Print Assumptions C16_run_block_fee_sum_mod.

(* ================================================================== 3b. closed runs: prefixes *)
(* the input hypotheses of the closed theorems (InvReach.C02_closed_total) pass to prefixes *)
Lemma bracketed_app_l pre : ∀ ph n post, InvPanic.bracketed ph n (pre ++ post) → InvPanic.bracketed ph n pre.
Proof.
  induction pre as [|o pre IH]; intros ph n post H; [exact I|].
  cbn [app] in H. destruct ph, o as [hd|t| |]; cbn [InvPanic.bracketed] in *; try contradiction.
  - destruct H as (H1 & H2 & H3). split; [exact H1|]. split; [exact H2|]. eapply IH; exact H3.
  - destruct H as (H1 & H2). split; [exact H1|]. eapply IH; exact H2.
  - eapply IH; exact H.
  - eapply IH; exact H.
Qed.

Lemma bracketed_app_r pre : ∀ ph n post, InvPanic.bracketed ph n (pre ++ post) →
  InvPanic.bracketed (InvPanic.end_phase ph n pre).1 (InvPanic.end_phase ph n pre).2 post.
Proof.
  induction pre as [|o pre IH]; intros ph n post H; [exact H|].
  cbn [app] in H. cbn [InvPanic.end_phase]. apply IH.
  destruct ph, o as [hd|t| |]; cbn [InvPanic.bracketed InvPanic.next_phase fst snd] in *; try contradiction; tauto.
Qed.

Lemma stake_hashes_app l k : stake_hashes (l ++ k) = stake_hashes l ++ stake_hashes k.
Proof.
  induction l as [|o l IH]; [reflexivity|]. cbn [app stake_hashes].
  destruct o as [hd|t| |]; try exact IH. destruct (t_type t =? TRX_STAKING); [cbn [app]; f_equal|]; exact IH.
Qed.

Lemma hashes_fresh_app_l pre post : hashes_fresh (pre ++ post) → hashes_fresh pre.
Proof.
  unfold hashes_fresh. rewrite stake_hashes_app. intros H. apply NoDup_cons in H as [H0 H].
  apply NoDup_app in H as (H1 & _ & _). apply NoDup_cons. split; [|exact H1].
  intros Hin. apply H0. apply elem_of_app. left. exact Hin.
Qed.

(* an operation that is only possible inside an open block *)
Definition in_block_op (o : sop) : Prop := match o with SDeliver _ | SEnd => True | _ => False end.

(* in a well-bracketed list a DeliverTx or EndBlock is not the first operation and follows a
   BeginBlock or a DeliverTx *)
Lemma bracketed_first o post : InvPanic.bracketed InvPanic.Idle 0 (o :: post) → in_block_op o → False.
Proof. destruct o; cbn; tauto. Qed.

Lemma bracketed_adjacent pre0 o0 o post :
  InvPanic.bracketed InvPanic.Idle 0 (pre0 ++ o0 :: o :: post) → in_block_op o →
  match o0 with SBegin _ | SDeliver _ => True | _ => False end.
Proof.
  intros H Ho. apply bracketed_app_r in H.
  destruct (InvPanic.end_phase InvPanic.Idle 0 pre0).1, o0 as [hd0|t0| |]; cbn [InvPanic.bracketed] in H; try contradiction;
    try exact I; destruct o; cbn in *; tauto.
Qed.

Lemma run_answers_at pre : ∀ s o post,
  InvPanic.run_answers s (pre ++ o :: post) → InvPanic.step_answers (srun s pre) o.
Proof.
  induction pre as [|x pre IH]; intros s o post H; cbn [app InvPanic.run_answers] in H.
  - apply H.
  - destruct H as [_ H]. unfold srun. cbn [foldl]. apply (IH _ _ _ H).
Qed.

Lemma hrun_app_inv pre : ∀ x post z, hrun x (pre ++ post) = Some z → ∃ y, hrun x pre = Some y ∧ hrun y post = Some z.
Proof.
  induction pre as [|o pre IH]; intros x post z H; cbn [app hrun] in *.
  - exists x. split; [reflexivity|exact H].
  - destruct (hstep x o) as [y|]; [|discriminate]. apply (IH _ _ _ H).
Qed.

Lemma hstep_in_block s p gh o y : hstep (s, p, gh) o = Some y → in_block_op o → p = POpen.
Proof. unfold hstep. destruct p, o; cbn; try discriminate; try tauto. Qed.

Lemma bal_of_small l B : 0 < B → (∀ a x, accts l !! a = Some x → 0 ≤ a_bal x < B) → ∀ a, 0 ≤ bal_of l a < B.
Proof.
  intros HB H a. unfold bal_of, acct_of. destruct (accts l !! a) as [x|] eqn:E; cbn [default from_option id].
  - apply (H a x E).
  - cbn. lia.
Qed.

Lemma supply_bound_pos : 0 < supply_bound.
Proof. vm_compute. reflexivity. Qed.

(* the account the refund loop of EndBlock starts from, in numbers *)
Lemma fee_credited_bal s a :
  0 ≤ bal_of (work s) a < supply_bound → 0 ≤ b_feesum (bctx s) < supply_bound →
  a_bal (fee_credited s a) = bal_of (work s) a + (if decide (b_proposer (bctx s) = Some a) then b_feesum (bctx s) else 0).
Proof.
  intros Hb Hf. pose proof room_numbers as Hroom. pose proof supply_bound_lt as [Hsb _]. pose proof two255_two256 as H25.
  unfold fee_credited. fold (bal_of (work s) a).
  destruct (b_proposer (bctx s)) as [pa|]; [|destruct (decide (None = Some a)); [discriminate|unfold bal_of; lia]].
  destruct (decide (pa = a)) as [->|Hne].
  - destruct (decide (Some a = Some a)); [|congruence].
    destruct (0 <? sign256 (b_feesum (bctx s))) eqn:Es.
    + cbn [credit a_bal]. fold (bal_of (work s) a). apply add256_small. lia.
    + assert (b_feesum (bctx s) = 0); [|unfold bal_of; lia].
      destruct (Z.eq_dec (b_feesum (bctx s)) 0) as [E0|Hn0]; [exact E0|].
      assert (Ht : (0 <? sign256 (b_feesum (bctx s))) = true) by (apply sign256_pos_iff; lia). congruence.
  - destruct (decide (Some pa = Some a)); [congruence|]. unfold bal_of. lia.
Qed.

(* ================================================================== 5. vocabulary of the totals *)
(* what the fee step of EndBlock adds to the balance of [a]: the balance the refund loop starts
   from ([fee_credited], InvStake.unfreeze_exact) minus the balance before EndBlock.  Together with
   InvUnbond.unbond_gain1 it accounts for the whole effect of an EndBlock on a balance
   ([end_block_gain_split]). *)
Definition fee_gain1 (a : addr) (s : state) (o : sop) : Z :=
  match o with
  | SEnd => match (end_block s).2 with Ok _ => a_bal (fee_credited s a) - bal_of (work s) a | _ => 0 end
  | _ => 0
  end.
Fixpoint fee_gain (a : addr) (s : state) (ops : list sop) : Z :=
  match ops with [] => 0 | o :: r => fee_gain1 a s o + fee_gain a (sstep s o) r end.

Lemma end_block_gain_split s a ups :
  (end_block s).2 = Ok ups →
  bal_of (work (end_block s).1) a = bal_of (work s) a + fee_gain1 a s SEnd + unbond_gain1 a s SEnd.
Proof. intros H. unfold fee_gain1, unbond_gain1. rewrite H. lia. Qed.

(* the fee credits of a run, one per EndBlock that answers in a block with a proposer:
   (height, proposer, amount credited) *)
Definition credits1 (s : state) (o : sop) : list (Z * addr * Z) :=
  match o, b_proposer (bctx s) with
  | SEnd, Some pa => match (end_block s).2 with
                     | Ok _ => [(b_height (bctx s), pa, fee_gain1 pa s SEnd)]
                     | _ => [] end
  | _, _ => []
  end.
Fixpoint credits (s : state) (ops : list sop) : list (Z * addr * Z) :=
  match ops with [] => [] | o :: r => credits1 s o ++ credits (sstep s o) r end.
Definition credit_total (cs : list (Z * addr * Z)) : Z := sumZ_with snd cs.

(* sums over the blocks of a run *)
Definition credited_to (a : addr) (bs : list fblock) : Z :=
  sumZ_with (λ b, if decide (fb_proposer b = Some a) then fee_total (fb_fees b) else 0) bs.
Definition fees_with_proposer (bs : list fblock) : Z :=
  sumZ_with (λ b, match fb_proposer b with Some _ => fee_total (fb_fees b) | None => 0 end) bs.
Definition fees_without_proposer (bs : list fblock) : Z :=
  sumZ_with (λ b, match fb_proposer b with Some _ => 0 | None => fee_total (fb_fees b) end) bs.

(* every fee of the run, in order: what the senders are charged *)
Fixpoint fees_flat (s : state) (ops : list sop) : list (addr * Z) :=
  match ops with
  | [] => []
  | o :: r => match o with SDeliver t => fee1 s t | _ => [] end ++ fees_flat (sstep s o) r
  end.

(* on a well-bracketed list every fee lands in exactly one block (or in the block still open) *)
Lemma fees_flat_blocks ops : ∀ ph n s cur,
  InvPanic.bracketed ph n ops → (ph ≠ InvPanic.InBlock → cur = []) →
  fee_total cur + fee_total (fees_flat s ops) =
  sumZ_with (λ b, fee_total (fb_fees b)) (fees_from s cur ops) + fee_total (open_fees s cur ops).
Proof.
  assert (Hnil : fee_total [] = 0) by reflexivity.
  assert (Hsn : ∀ F : fblock → Z, sumZ_with F [] = 0) by reflexivity.
  assert (Hs1 : ∀ (F : fblock → Z) b, sumZ_with F [b] = F b) by (intros F b; unfold sumZ_with; cbn; lia).
  induction ops as [|o r IH]; intros ph n s cur Hbr Hcur; cbn [fees_flat fees_from open_fees].
  - rewrite Hnil, Hsn. lia.
  - rewrite fee_total_app, InvReward.sumZ_with_app.
    destruct ph, o as [hd|t| |]; cbn [InvPanic.bracketed] in Hbr; try contradiction; cbn [open_step].
    + destruct Hbr as (_ & _ & Hbr). rewrite (Hcur ltac:(discriminate)).
      pose proof (IH _ _ (sstep s (SBegin hd)) [] Hbr ltac:(reflexivity)) as H.
      rewrite ?Hnil, ?Hsn in *. lia.
    + destruct Hbr as (_ & Hbr).
      pose proof (IH _ _ (sstep s (SDeliver t)) (cur ++ fee1 s t) Hbr ltac:(intros H; exfalso; apply H; reflexivity)) as H.
      rewrite fee_total_app in H. rewrite ?Hsn. lia.
    + pose proof (IH _ _ (sstep s SEnd) [] Hbr ltac:(reflexivity)) as H.
      rewrite Hs1. cbn [fb_fees]. rewrite ?Hnil in *. lia.
    + rewrite (Hcur ltac:(discriminate)).
      pose proof (IH _ _ (sstep s SCommit) [] Hbr ltac:(reflexivity)) as H.
      rewrite ?Hnil, ?Hsn in *. lia.
Qed.

Lemma fees_split_proposer bs :
  sumZ_with (λ b, fee_total (fb_fees b)) bs = fees_with_proposer bs + fees_without_proposer bs.
Proof.
  unfold fees_with_proposer, fees_without_proposer, sumZ_with.
  induction bs as [|b bs IH]; cbn [foldr]; [lia|]. destruct (fb_proposer b); lia.
Qed.

(* a delivery that does not succeed moves no balance.  (Like InvSupply.deliver_fail_supply, per
   account; InvClosed.deliver_fail_no_effect_small gives more -- [same_obs] -- but asks for
   [InvFail.payload_wf], a condition on the payload whatever the type of the transaction.) *)
Lemma deliver_fail_balances s t s' r :
  deliver s t = (s', r) → (∀ gas, r ≠ Ok gas) →
  tx_wf t → InvFee.payload_wf t → params_ok (gparams s) → bal_range (work s) →
  bal_of (work s) (t_from t) < two255 →
  ∀ a, bal_of (work s') a = bal_of (work s) a.
Proof.
  intros Hd Hnok Hwf Hpl Hpar Hr Hlt.
  rewrite deliver_eq in Hd.
  destruct (accts (work s) !! t_from t) as [sender|] eqn:Es; [|injection Hd as <- <-; reflexivity].
  unfold deliver_body in Hd.
  assert (H1s : ∀ a, bal_of (work (pre_state s t)) a = bal_of (work s) a).
  { intros a. rewrite pre_state_work. apply bal_of_find_or_new. }
  destruct (common_validation0 (gparams s) t) as [e|] eqn:E0; [injection Hd as <- <-; exact H1s|].
  destruct (common_validation1 sender t) as [e|] eqn:E1; [injection Hd as <- <-; exact H1s|].
  destruct (validated_of (pre_state s t) (receiver_of s t) t) as [lim'|e|pn] eqn:Ev; [|injection Hd as <- <-; exact H1s..].
  set (s2 := with_lim (pre_state s t) lim') in *.
  assert (H2s : ∀ a, bal_of (work s2) a = bal_of (work s) a) by exact H1s.
  destruct (evm_path_of t (receiver_of s t)) eqn:Ep.
  - destruct (evm_execute (work s2) t) as [[l' gas]|e|pn]; injection Hd as <- <-; [|exact H2s..].
    exfalso. apply (Hnok gas). reflexivity.
  - destruct (exec_native s2 t) as [l'|e|pn] eqn:Ee; [|injection Hd as <- <-; exact H2s..].
    unfold post_run in Hd.
    destruct (accts l' !! t_from t) as [snd'|] eqn:Esn; [|injection Hd as <- <-; exact H2s].
    destruct (sub_balance snd' (fee_of t)) as [snd''|] eqn:Esb;
      [injection Hd as <- <-; exfalso; apply (Hnok (t_gas t)); reflexivity|].
    exfalso.
    assert (Hw2 : work s2 = (find_or_new (work s) (t_to t)).1) by reflexivity.
    assert (Hr0 : bal_range (work s2)) by (rewrite Hw2; apply bal_range_find_or_new; exact Hr).
    destruct (exec_native_balances _ _ _ _ _ _ Ev Ep Ee Hwf Hpl Hr0) as (Hr' & Hbal).
    assert (Hroom2 : room_for (work s2) t (t_from t)).
    { apply (room_from_exec _ _ _ _ _ _ Ev Ep Ee Hpl Hr0). rewrite Hw2, bal_of_find_or_new. exact Hlt. }
    specialize (Hbal _ Hroom2). rewrite Hw2, bal_of_find_or_new in Hbal.
    destruct (decide (t_from t = t_from t)); [|congruence].
    rewrite (bal_of_lookup _ _ _ Esn), (bal_of_lookup _ _ _ Es) in Hbal.
    apply common_validation1_None in E1 as (Hfund & _).
    pose proof Hwf as (Hamt & _ & Hgas & _).
    pose proof (fee_lt_two255 _ _ Hpar E0 (proj1 Hgas)) as Hfee.
    apply common_validation0_None in E0 as (_ & _ & Hsa & _).
    apply sign256_nonneg_iff in Hsa; [|lia].
    pose proof (fee_of_range t) as Hfr. pose proof two255_two256 as H25.
    rewrite add256_small in Hfund by lia.
    pose proof (tx_in_nonneg t (t_from t) Hwf Hpl) as Hin.
    assert (Hout : tx_out t ≤ t_amount t) by (unfold tx_out; destruct (_ || _); lia).
    apply (sub_balance_succeeds snd' (fee_of t)); [lia|lia|exact Esb].
Qed.

(* what the successful deliveries of a run move into and out of the account [a] besides fees
   (transferred / staked amounts out, transfers / withdrawn rewards in) *)
Definition moved1 (a : addr) (s : state) (o : sop) : Z :=
  match o with
  | SDeliver t => match (deliver s t).2 with
                  | Ok _ => tx_in t a - (if decide (a = t_from t) then tx_out t else 0)
                  | _ => 0 end
  | _ => 0
  end.
Fixpoint moved (a : addr) (s : state) (ops : list sop) : Z :=
  match ops with [] => 0 | o :: r => moved1 a s o + moved a (sstep s o) r end.
(* the fees of a list charged to the sender [a] *)
Definition charged_to (a : addr) (fees : list (addr * Z)) : Z :=
  sumZ_with (λ x : addr * Z, if decide (x.1 = a) then x.2 else 0) fees.

Lemma charged_to_app a l k : charged_to a (l ++ k) = charged_to a l + charged_to a k.
Proof. apply InvReward.sumZ_with_app. Qed.

Section closed.
  Variables (g : genesis) (ops : list sop).
  Hypothesis Hg : genesis_ok g.
  Hypothesis Hbr : InvPanic.bracketed InvPanic.Idle 0 ops.
  Hypothesis Hfresh : hashes_fresh ops.
  Hypothesis Htx : txs_ok ops.
  Hypothesis Hbound : supply (work (init_chain g)) + requested ops < supply_bound.

  Lemma closed_prefix pre post : ops = pre ++ post →
    InvPanic.bracketed InvPanic.Idle 0 pre ∧ hashes_fresh pre ∧ txs_ok pre ∧
    supply (work (init_chain g)) + requested pre < supply_bound.
  Proof.
    intros E. split; [rewrite E in Hbr; eapply bracketed_app_l; exact Hbr|].
    split; [rewrite E in Hfresh; eapply hashes_fresh_app_l; exact Hfresh|].
    pose proof Htx as Htx'. rewrite E in Htx'. apply Forall_app in Htx' as [H1 H2].
    split; [exact H1|]. rewrite E, requested_app in Hbound. pose proof (requested_nonneg post H2). lia.
  Qed.

  Lemma closed_tx pre t post : ops = pre ++ SDeliver t :: post → tx_wf t ∧ InvFee.payload_wf t ∧ t_evm t = None.
  Proof.
    intros E. pose proof Htx as Htx'. rewrite E in Htx'. apply Forall_app in Htx' as [_ H2].
    apply Forall_cons in H2 as [H2 _]. exact H2.
  Qed.

  Lemma closed_answers pre o post : ops = pre ++ o :: post → InvPanic.step_answers (srun (init_chain g) pre) o.
  Proof.
    intros E. pose proof (minted_le_requested ops Htx (init_chain g)) as Hle.
    destruct (closed_run_total g ops Hg Hbr (fresh_run_reachable g ops Hfresh) Htx ltac:(lia)) as (Hans & _).
    rewrite E in Hans. apply (run_answers_at pre _ _ _ Hans).
  Qed.

  (* inside an open block the collected fees stay below the supply bound (C02 at the prefix) *)
  Lemma closed_feesum_before pre o post :
    ops = pre ++ o :: post → in_block_op o →
    0 ≤ b_feesum (bctx (srun (init_chain g) pre)) < supply_bound.
  Proof.
    intros E Ho.
    assert (E1 : ops = (pre ++ [o]) ++ post) by (rewrite <- app_assoc; exact E).
    destruct (closed_prefix _ _ E1) as (Hbr1 & Hf1 & Htx1 & Hb1).
    assert (E0 : ops = pre ++ (o :: post)) by exact E.
    destruct (closed_prefix _ _ E0) as (Hbr0 & Hf0 & Htx0 & Hb0).
    pose proof (minted_le_requested _ Htx1 (init_chain g)) as Hle1.
    destruct (closed_run_total g _ Hg Hbr1 (fresh_run_reachable g _ Hf1) Htx1 ltac:(lia)) as (_ & (s1 & p1 & gh1 & Hrun1 & _) & _).
    apply hrun_app_inv in Hrun1 as ([[s p] gh] & Hrun0 & Hst). cbn [hrun] in Hst.
    destruct (hstep (s, p, gh) o) as [y|] eqn:Ey; [|discriminate].
    pose proof (hstep_in_block _ _ _ _ _ Ey Ho) as ->.
    pose proof (hrun_minted _ _ _ _ _ _ _ Hrun0) as Hm. cbn [ghost0 gh_withdrawn] in Hm.
    pose proof (minted_le_requested _ Htx0 (init_chain g)) as Hle0.
    destruct (C02_closed g pre s POpen gh Hrun0 Hg (fresh_run_reachable g _ Hf0) Htx0 (bracketed_opts_ok _ _ _ Hbr0) ltac:(lia))
      as (-> & Heq & Hr & _ & Hw & Hsl & Hbn).
    destruct (closed_reach_ok g ops Hg Hbr Hfresh Htx Hbound pre _ E0) as (_ & _ & Hpw & _).
    pose proof (supply_nonneg _ Hr Hpw) as Hs0.
    unfold C02_equation in Heq. cbn [pending] in Heq. pose proof InvPanic.apP_pos as Hap.
    assert (Hsl' : 0 ≤ amountPerPower * gh_slashed gh) by (apply Z.mul_nonneg_nonneg; lia).
    split; [apply feesum_run; cbn; pose proof two256_pos; lia|]. lia.
  Qed.

  (* ================================================================ 4. one successful delivery of a closed run *)
  (* C16, the sender's charge.  Hypotheses on the inputs only.  A successful delivery of the run took
     the native path and used its whole gas limit; the fee is the product gas limit x price in force
     over Z; the sender could pay fee + amount; the block's fee sum grows by exactly the fee; and
     EVERY balance changes by exactly (what the transaction credits) - (fee and what the transaction
     takes, for the sender): nothing wraps, no room hypothesis is left. *)
  Theorem C16_run_sender_charge_sec pre t post s' gas :
    ops = pre ++ SDeliver t :: post →
    let s := srun (init_chain g) pre in
    deliver s t = (s', Ok gas) →
    let fee := t_gas t * g_gasPrice (gparams s) in
    native s t ∧ gas = t_gas t ∧ t_price t = g_gasPrice (gparams s) ∧
    fee1 s t = [(t_from t, fee)] ∧ fee_of t = fee ∧ 0 ≤ fee ∧
    fee + t_amount t ≤ bal_of (work s) (t_from t) ∧
    b_feesum (bctx s') = b_feesum (bctx s) + fee ∧
    (∀ a, bal_of (work s') a =
          bal_of (work s) a + tx_in t a - (if decide (a = t_from t) then fee + tx_out t else 0)).
  Proof.
    intros E s Hd fee.
    destruct (closed_tx _ _ _ E) as (Hwf & Hpl & Hevm).
    destruct (closed_state_facts_along g ops Hg Hbr Hfresh Htx Hbound pre _ E) as (Hp & Hr & _ & Hsmall).
    fold s in Hp, Hr, Hsmall.
    pose proof (bal_of_small _ _ supply_bound_pos Hsmall) as Hbal.
    pose proof (native_of_ok _ _ _ _ Hd Hevm) as Hn.
    destruct (deliver_ok_admission _ _ _ _ Hd) as (Hprice & _).
    pose proof Hwf as (Hamt & _ & Hgas & _). pose proof Hp as (Hgp & _).
    assert (Hfee : fee_of t = fee).
    { rewrite fee_of_exact by (rewrite ?Hprice; assumption). unfold fee. rewrite Hprice. lia. }
    destruct (deliver_ok_funds _ _ _ _ Hd Hp Hwf) as (Hfund & _ & _).
    pose proof (fee_of_range t) as Hfr.
    destruct (deliver_native_balances _ _ _ _ Hd Hn Hwf Hpl (ranges_ok_bal_range _ Hr)) as (Hgq & _ & Hb).
    pose proof room_numbers as Hroom. pose proof supply_bound_lt as [Hsb _]. pose proof two255_two256 as H25.
    assert (Hreq : withdrawn_of t ≤ requested ops) by (rewrite E; apply requested_elem; rewrite <- E; exact Htx).
    pose proof (withdrawn_of_nonneg _ Hpl) as Hwn.
    assert (H0 : 0 ≤ supply (work (init_chain g))).
    { apply supply_nonneg; [apply init_chain_bal_range; apply Hg|apply init_chain_powers_ok; apply Hg]. }
    assert (Hrooms : ∀ a, room_for (work s) t a).
    { intros a. apply room_for_bound; [|exact Hwn|pose proof (Hbal a); lia].
      intros _ _ _. pose proof (Hbal a). pose proof (Hbal (t_from t)). lia. }
    pose proof (closed_feesum_before pre (SDeliver t) post E I) as Hfs. fold s in Hfs.
    split; [exact Hn|]. split; [exact Hgq|]. split; [exact Hprice|].
    split; [unfold fee1; rewrite Hd; cbn [snd]; rewrite Hgq; reflexivity|].
    split; [exact Hfee|]. split; [lia|]. split; [lia|]. split.
    - rewrite (deliver_native_feesum _ _ _ _ Hd Hn), Hfee. apply add256_small.
      pose proof (Hbal (t_from t)). lia.
    - intros a. rewrite (Hb a (Hrooms a)), Hfee. reflexivity.
  Qed.

  (* a delivery of the run that does not succeed charges nothing to the block *)
  Lemma closed_deliver_fee pre t post :
    ops = pre ++ SDeliver t :: post →
    let s := srun (init_chain g) pre in
    b_feesum (bctx (deliver s t).1) = b_feesum (bctx s) + fee_total (fee1 s t) ∧
    Forall (λ x : addr * Z, x.1 = t_from t ∧ x.2 = t_gas t * g_gasPrice (gparams s) ∧ 0 ≤ x.2) (fee1 s t).
  Proof.
    intros E s. destruct (deliver s t) as [s' r] eqn:Ed. cbn [fst].
    destruct r as [gas|e|pn].
    - destruct (C16_run_sender_charge_sec pre t post s' gas E Ed) as (_ & _ & _ & Hf1 & _ & H0 & _ & Hfs & _).
      fold s in Hf1, Hfs. rewrite Hf1. unfold fee_total. cbn [sumZ_with foldr snd].
      split; [lia|]. repeat constructor. exact H0.
    - unfold fee1. rewrite Ed. cbn [snd]. rewrite (deliver_feesum _ _ _ _ Ed). unfold fee_total. cbn. split; [lia|constructor].
    - unfold fee1. rewrite Ed. cbn [snd]. rewrite (deliver_feesum _ _ _ _ Ed). unfold fee_total. cbn. split; [lia|constructor].
  Qed.

  (* the invariant of the open block: the fee sum in the block context is the sum (over Z) of the
     fees [open_fees] has collected since the BeginBlock *)
  Lemma closed_open_feesum pre : ∀ o post,
    ops = pre ++ o :: post → in_block_op o →
    b_feesum (bctx (srun (init_chain g) pre)) = fee_total (open_fees (init_chain g) [] pre).
  Proof.
    induction pre as [|o0 pre0 IH] using rev_ind; intros o post E Ho.
    - exfalso. rewrite E in Hbr. exact (bracketed_first _ _ Hbr Ho).
    - assert (E0 : ops = pre0 ++ o0 :: o :: post) by (rewrite E, <- app_assoc; reflexivity).
      pose proof Hbr as Hadj. rewrite E0 in Hadj. apply bracketed_adjacent in Hadj; [|exact Ho].
      rewrite srun_snoc, open_fees_app. cbn [open_fees].
      destruct o0 as [hd|t| |]; try contradiction; cbn [sstep open_step].
      + assert (Hh : h_height hd = last_height (srun (init_chain g) pre0) + 1).
        { rewrite E0 in Hbr. apply (bracketed_begin_height g pre0 hd _ Hbr). }
        destruct (begin_block (srun (init_chain g) pre0) hd) as [s1 r1] eqn:Eb. cbn [fst].
        destruct (begin_block_feesum _ _ _ _ Eb Hh) as (-> & _). reflexivity.
      + destruct (closed_deliver_fee pre0 t _ E0) as [Hf _]. cbv zeta in Hf.
        rewrite Hf, fee_total_app, (IH (SDeliver t) (o :: post) E0 I). reflexivity.
  Qed.

  (* ================================================================ 3b. one block of a closed run *)
  Lemma closed_fees_of_txs txs : ∀ pre1 post1,
    ops = pre1 ++ map SDeliver txs ++ post1 →
    let s := srun (init_chain g) pre1 in
    fees_of_txs s txs = concat (zip_with (fee_native (g_gasPrice (gparams s))) txs (deliver_all s txs).2) ∧
    Forall (λ x : addr * Z, 0 ≤ x.2) (fees_of_txs s txs).
  Proof.
    induction txs as [|t txs IH]; intros pre1 post1 E s; cbn [fees_of_txs deliver_all map].
    - split; [reflexivity|constructor].
    - cbn [map app] in E.
      destruct (closed_deliver_fee pre1 t _ E) as [_ Hall]. fold s in Hall.
      assert (E1 : ops = (pre1 ++ [SDeliver t]) ++ map SDeliver txs ++ post1) by (rewrite <- app_assoc; exact E).
      destruct (IH _ _ E1) as [I1 I2]. rewrite srun_snoc in I1, I2. fold s in I1, I2. cbn [sstep] in I1, I2.
      assert (Hf1 : fee1 s t = fee_native (g_gasPrice (gparams s)) t (deliver s t).2).
      { unfold fee1 in *. destruct (deliver s t) as [s1 x]. cbn [snd] in *. destruct x as [gas|e|pn]; try reflexivity.
        apply Forall_cons in Hall as [(_ & Hx & _) _]. cbn [snd] in Hx. cbn [fee_native]. rewrite Hx. reflexivity. }
      pose proof (proj1 (InvGov.deliver_params_unchanged s t)) as Hgp. cbv zeta in Hgp.
      destruct (deliver s t) as [s1 x] eqn:Ed. cbn [fst snd] in *.
      destruct (deliver_all s1 txs) as [s2 xs] eqn:Ea. cbn [snd zip_with concat] in *.
      split; [rewrite Hf1, I1, Hgp; reflexivity|].
      apply Forall_app. split; [|exact I2].
      eapply Forall_impl; [exact Hall|]. intros y (_ & _ & H). exact H.
  Qed.

  (* C16, a whole block of a closed run.  Hypotheses on the inputs only.  With s2 the state after the
     deliveries and s3 the state after EndBlock:
     - every fee of the block is gas limit x the ONE price in force when the block began, >= 0;
     - the fee sum in the block context at EndBlock is their sum over Z (below the supply bound, so
       the sign test of AcctCtrler.EndBlock passes whenever the sum is positive);
     - EndBlock answers, and EVERY balance after it = balance before + (the fee sum, for the
       header's proposer) + the unbonding refunds owed to that account (C12): nobody but the proposer
       is credited fees, nobody is credited fees when the header names no proposer.
     A proposer without ledger entry is created by the credit ([bal_of] of a missing account is 0). *)
  Theorem C16_run_block_credit_sec pre hd txs post :
    ops = pre ++ SBegin hd :: map SDeliver txs ++ SEnd :: post →
    let s0 := srun (init_chain g) pre in
    let s1 := (begin_block s0 hd).1 in
    let s2 := srun s1 (map SDeliver txs) in
    let s3 := (end_block s2).1 in
    let fees := fees_of_txs s1 txs in
    let refunds a := sumZ (payout_amount <$> owned_by a (payouts1 s2 SEnd)) in
    fees = concat (zip_with (fee_native (g_gasPrice (gparams s0))) txs (deliver_all s1 txs).2) ∧
    Forall (λ x : addr * Z, 0 ≤ x.2) fees ∧
    b_feesum (bctx s2) = fee_total fees ∧ 0 ≤ fee_total fees < supply_bound ∧
    b_proposer (bctx s2) = h_proposer hd ∧ b_height (bctx s2) = h_height hd ∧
    (∃ ups, end_block s2 = (s3, Ok ups)) ∧
    (∀ a, bal_of (work s3) a =
          bal_of (work s2) a + (if decide (h_proposer hd = Some a) then fee_total fees else 0) + refunds a) ∧
    (∀ pa, h_proposer hd = Some pa → bal_of (work s3) pa = bal_of (work s2) pa + fee_total fees + refunds pa) ∧
    (h_proposer hd = None → ∀ a, bal_of (work s3) a = bal_of (work s2) a + refunds a).
  Proof.
    intros E s0 s1 s2 s3 fees refunds.
    destruct (C16_run_block_fee_sum_mod g ops pre hd txs post Hbr E) as (Hs2 & Hh & Hpr & Hgp & _ & _ & _).
    fold s0 s1 s2 in Hs2, Hh, Hpr, Hgp.
    set (pre2 := pre ++ SBegin hd :: map SDeliver txs) in *.
    assert (E2 : ops = pre2 ++ SEnd :: post) by (unfold pre2; rewrite <- app_assoc; exact E).
    assert (E1 : ops = (pre ++ [SBegin hd]) ++ map SDeliver txs ++ SEnd :: post) by (rewrite <- app_assoc; exact E).
    destruct (closed_fees_of_txs txs _ _ E1) as [F1 F2]. rewrite srun_snoc in F1, F2. cbn [sstep] in F1, F2.
    fold s0 s1 in F1, F2. destruct (begin_block_gparams' s0 hd) as [Hg1 _]. fold s1 in Hg1. rewrite Hg1 in F1.
    assert (Hsum : b_feesum (bctx s2) = fee_total fees).
    { rewrite Hs2, (closed_open_feesum pre2 SEnd post E2 I). unfold pre2. rewrite open_fees_app. cbn [open_fees open_step sstep].
      fold s0 s1. destruct (fees_from_delivers txs s1 []) as [_ ->]. reflexivity. }
    pose proof (closed_feesum_before pre2 SEnd post E2 I) as Hfs. rewrite <- Hs2, Hsum in Hfs.
    pose proof (closed_answers pre2 SEnd post E2) as [ups Hups]. rewrite <- Hs2 in Hups.
    assert (Eend : end_block s2 = (s3, Ok ups)) by (unfold s3; destruct (end_block s2); cbn [snd] in Hups; subst; reflexivity).
    destruct (closed_state_facts_along g ops Hg Hbr Hfresh Htx Hbound pre2 _ E2) as (_ & _ & _ & Hsmall).
    rewrite <- Hs2 in Hsmall. pose proof (bal_of_small _ _ supply_bound_pos Hsmall) as Hbal.
    assert (Hall : ∀ a, bal_of (work s3) a =
              bal_of (work s2) a + (if decide (h_proposer hd = Some a) then fee_total fees else 0) + refunds a).
    { intros a. pose proof (payout_step_exact g ops Hg Hbr Hfresh Htx Hbound pre2 post a s3 ups E2) as Hex.
      cbv zeta in Hex. rewrite <- Hs2 in Hex. rewrite (Hex Eend).
      rewrite (fee_credited_bal s2 a (Hbal a)) by (rewrite Hsum; exact Hfs). rewrite Hpr, Hsum. reflexivity. }
    split; [exact F1|]. split; [exact F2|]. split; [exact Hsum|]. split; [exact Hfs|].
    split; [exact Hpr|]. split; [exact Hh|]. split; [exists ups; exact Eend|]. split; [exact Hall|]. split.
    - intros pa Hpa. rewrite (Hall pa). destruct (decide (h_proposer hd = Some pa)); [reflexivity|contradiction].
    - intros Hnone a. rewrite (Hall a). destruct (decide (h_proposer hd = Some a)); [congruence|lia].
  Qed.

  (* ================================================================ 4b. deliveries that do not succeed *)
  (* no delivery of a closed run panics *)
  Lemma closed_no_panic pre t post pn :
    ops = pre ++ SDeliver t :: post → (deliver (srun (init_chain g) pre) t).2 ≠ Panic pn.
  Proof. intros E. apply (closed_answers pre (SDeliver t) post E). Qed.

  (* a delivery that does not succeed charges nothing: no fee is recorded, the fee sum and every
     balance stay *)
  Lemma closed_failed pre t post s' r :
    ops = pre ++ SDeliver t :: post →
    let s := srun (init_chain g) pre in
    deliver s t = (s', r) → (∀ gas, r ≠ Ok gas) →
    fee1 s t = [] ∧ b_feesum (bctx s') = b_feesum (bctx s) ∧ (∀ a, bal_of (work s') a = bal_of (work s) a).
  Proof.
    intros E s Hd Hnok. destruct (closed_tx _ _ _ E) as (Hwf & Hpl & _).
    destruct (closed_state_facts_along g ops Hg Hbr Hfresh Htx Hbound pre _ E) as (Hp & Hr & _ & Hsmall).
    fold s in Hp, Hr, Hsmall. pose proof (bal_of_small _ _ supply_bound_pos Hsmall) as Hbal.
    pose proof supply_bound_lt as [Hsb _].
    split; [unfold fee1; rewrite Hd; destruct r as [gas|e|pn]; [destruct (Hnok gas); reflexivity|reflexivity..]|].
    split; [rewrite (deliver_feesum _ _ _ _ Hd); destruct r as [gas|e|pn]; [destruct (Hnok gas); reflexivity|reflexivity..]|].
    apply (deliver_fail_balances s t s' r Hd Hnok Hwf Hpl Hp (ranges_ok_bal_range _ Hr)).
    pose proof (Hbal (t_from t)). lia.
  Qed.

  (* ... and, for a delivery that fails (C05 in the states of the run; [InvFail.payload_wf]: a
     withdrawal payload carries a uint256), nothing observable changes at all *)
  Lemma closed_failed_obs pre t post s' e :
    ops = pre ++ SDeliver t :: post → InvFail.payload_wf t →
    let s := srun (init_chain g) pre in
    deliver s t = (s', Err e) → same_obs (work s) (work s') ∧ same_ctl s s'.
  Proof.
    intros E Hpw s Hd. destruct (closed_tx _ _ _ E) as (Hwf & _ & _).
    apply (C05_closed_along g ops pre (SDeliver t :: post) t s' e Hg Hbr Hfresh Htx Hbound E Hwf Hpw Hd).
  Qed.

  (* ================================================================ 5. the fees of the whole run *)
  Lemma closed_fee_gain a : ∀ post pre, ops = pre ++ post →
    let s := srun (init_chain g) pre in
    let bs := fees_from s (open_fees (init_chain g) [] pre) post in
    fee_gain a s post = credited_to a bs ∧ credit_total (credits s post) = fees_with_proposer bs.
  Proof.
    induction post as [|o r IH]; intros pre E s bs.
    { split; reflexivity. }
    assert (E' : ops = (pre ++ [o]) ++ r) by (rewrite <- app_assoc; exact E).
    destruct (IH _ E') as [I1 I2]. rewrite srun_snoc, open_fees_app in I1, I2. cbn [open_fees] in I1, I2. fold s in I1, I2.
    unfold bs. cbn [fee_gain credits fees_from]. unfold credited_to, fees_with_proposer, credit_total in *.
    rewrite !InvReward.sumZ_with_app, I1, I2.
    destruct o as [hd|t| |]; cbn [fee_gain1 credits1]; try (unfold sumZ_with; cbn; split; lia).
    destruct (closed_answers pre SEnd r E) as [ups Hups]. fold s in Hups. rewrite Hups.
    destruct (closed_state_facts_along g ops Hg Hbr Hfresh Htx Hbound pre _ E) as (_ & _ & _ & Hsmall). fold s in Hsmall.
    pose proof (bal_of_small _ _ supply_bound_pos Hsmall) as Hbal.
    pose proof (closed_feesum_before pre SEnd r E I) as Hfs. fold s in Hfs.
    pose proof (closed_open_feesum pre SEnd r E I) as Hsum. fold s in Hsum.
    assert (Hgain : ∀ x, a_bal (fee_credited s x) - bal_of (work s) x =
                         if decide (b_proposer (bctx s) = Some x) then fee_total (open_fees (init_chain g) [] pre) else 0).
    { intros x. rewrite (fee_credited_bal s x (Hbal x) Hfs), Hsum. destruct (decide _); lia. }
    split.
    - rewrite Hgain. unfold sumZ_with. cbn [foldr fb_proposer fb_fees]. lia.
    - destruct (b_proposer (bctx s)) as [pa|] eqn:Ep; unfold sumZ_with; cbn [foldr fb_proposer fb_fees snd app].
      + rewrite Hgain. destruct (decide (Some pa = Some pa)); [lia|congruence].
      + lia.
  Qed.

  (* the balance of one account along the run, step by step *)
  Lemma closed_ledger a : ∀ post pre, ops = pre ++ post →
    let s := srun (init_chain g) pre in
    bal_of (work (srun s post)) a =
      bal_of (work s) a + moved a s post - charged_to a (fees_flat s post) + fee_gain a s post + unbond_gain a s post.
  Proof.
    induction post as [|o r IH]; intros pre E s.
    { unfold srun, charged_to, sumZ_with. cbn. lia. }
    assert (E' : ops = (pre ++ [o]) ++ r) by (rewrite <- app_assoc; exact E).
    specialize (IH _ E'). cbv zeta in IH. rewrite srun_snoc in IH. fold s in IH.
    unfold srun at 1. cbn [foldl]. fold (srun (sstep s o) r). rewrite IH.
    cbn [moved fees_flat fee_gain unbond_gain]. rewrite charged_to_app.
    assert (Hstep : bal_of (work (sstep s o)) a =
              bal_of (work s) a + moved1 a s o
              - charged_to a (match o with SDeliver t => fee1 s t | _ => [] end) + fee_gain1 a s o + unbond_gain1 a s o); [|lia].
    destruct o as [hd|t| |]; cbn [sstep moved1 fee_gain1 unbond_gain1].
    - unfold bal_of, acct_of. rewrite InvNonce.begin_block_accts. unfold charged_to, sumZ_with. cbn [foldr]. lia.
    - destruct (deliver s t) as [s' x] eqn:Ed. cbn [fst snd]. destruct x as [gas|e|pn].
      + destruct (C16_run_sender_charge_sec pre t r s' gas E Ed) as (_ & _ & _ & Hf1 & _ & _ & _ & _ & Hb).
        fold s in Hf1, Hb. rewrite Hf1, (Hb a). unfold charged_to, sumZ_with. cbn [foldr fst snd].
        destruct (decide (a = t_from t)) as [->|Hne].
        * destruct (decide (t_from t = t_from t)); [lia|congruence].
        * destruct (decide (t_from t = a)); [congruence|lia].
      + destruct (closed_failed pre t r s' (Err e) E Ed ltac:(discriminate)) as (Hf1 & _ & Hb).
        fold s in Hf1, Hb. rewrite Hf1, (Hb a). unfold charged_to, sumZ_with. cbn [foldr]. lia.
      + destruct (closed_failed pre t r s' (Panic pn) E Ed ltac:(discriminate)) as (Hf1 & _ & Hb).
        fold s in Hf1, Hb. rewrite Hf1, (Hb a). unfold charged_to, sumZ_with. cbn [foldr]. lia.
    - destruct (closed_answers pre SEnd r E) as [ups Hups]. fold s in Hups.
      rewrite (end_block_gain_split s a ups Hups). unfold fee_gain1, unbond_gain1, charged_to, sumZ_with.
      rewrite Hups. cbn [foldr]. lia.
    - unfold charged_to, sumZ_with. cbn [foldr commit work]. lia.
  Qed.
End closed.

(* ================================================================== the statements, hypotheses spelled out *)
(* The hypotheses of the closed theorems are those of InvReach.C02_closed_total, all on the inputs:
     genesis_ok g                  parameters in range, at most one genesis validator (the genesis
                                   hash collision, C11_collision_refuted), powers / balances in range
     InvPanic.bracketed Idle 0 ops Begin, Deliver*, End, Commit; block n+1 follows block n; Go-typed
                                   transaction fields; parameter documents keep parameters in range
     hashes_fresh ops              staking transactions carry pairwise distinct non-zero hashes
     txs_ok ops                    withdrawal requests are uint256; no EVM execution succeeds
                                   ([t_evm t = None]: the EVM effect is an oracle, see below)
     supply + requested < bound    genesis supply plus all requested withdrawals below 2^63 RIGO
   Nothing is assumed about intermediate states, about BeginBlock / EndBlock answering, or about
   balances not wrapping: all of that is derived. *)

(* C16 for one successful delivery of a run *)
Theorem C16_run_sender_charge g ops pre t post s' gas :
  genesis_ok g → InvPanic.bracketed InvPanic.Idle 0 ops → hashes_fresh ops → txs_ok ops →
  supply (work (init_chain g)) + requested ops < supply_bound →
  ops = pre ++ SDeliver t :: post →
  let s := srun (init_chain g) pre in
  deliver s t = (s', Ok gas) →
  let fee := t_gas t * g_gasPrice (gparams s) in
  native s t ∧ gas = t_gas t ∧ t_price t = g_gasPrice (gparams s) ∧
  fee1 s t = [(t_from t, fee)] ∧ fee_of t = fee ∧ 0 ≤ fee ∧
  fee + t_amount t ≤ bal_of (work s) (t_from t) ∧
  b_feesum (bctx s') = b_feesum (bctx s) + fee ∧
  (∀ a, bal_of (work s') a =
        bal_of (work s) a + tx_in t a - (if decide (a = t_from t) then fee + tx_out t else 0)).
Proof. intros Hg Hbr Hf Htx Hb. apply C16_run_sender_charge_sec; assumption. Qed.
Print Assumptions C16_run_sender_charge.

(* the readable instances: what the sender of each transaction type pays *)
Corollary C16_run_sender_charge_types g ops pre t post s' gas :
  genesis_ok g → InvPanic.bracketed InvPanic.Idle 0 ops → hashes_fresh ops → txs_ok ops →
  supply (work (init_chain g)) + requested ops < supply_bound →
  ops = pre ++ SDeliver t :: post →
  let s := srun (init_chain g) pre in
  deliver s t = (s', Ok gas) →
  let fee := t_gas t * g_gasPrice (gparams s) in
  let from := t_from t in
  (t_type t = TRX_TRANSFER → t_from t ≠ t_to t →
     bal_of (work s') from = bal_of (work s) from - fee - t_amount t ∧
     bal_of (work s') (t_to t) = bal_of (work s) (t_to t) + t_amount t) ∧
  (t_type t = TRX_TRANSFER → t_from t = t_to t → bal_of (work s') from = bal_of (work s) from - fee) ∧
  (t_type t = TRX_STAKING → bal_of (work s') from = bal_of (work s) from - fee - t_amount t) ∧
  (∀ req, t_type t = TRX_WITHDRAW → t_payload t = PWithdraw req →
     bal_of (work s') from = bal_of (work s) from - fee + req) ∧
  (t_type t ≠ TRX_TRANSFER → t_type t ≠ TRX_STAKING → t_type t ≠ TRX_WITHDRAW →
     bal_of (work s') from = bal_of (work s) from - fee) ∧
  (∀ a, a ≠ t_from t → (t_type t = TRX_TRANSFER → a ≠ t_to t) → bal_of (work s') a = bal_of (work s) a).
Proof.
  intros Hg Hbr Hf Htx Hb E s Hd fee from.
  destruct (C16_run_sender_charge g ops pre t post s' gas Hg Hbr Hf Htx Hb E Hd) as (_ & _ & _ & _ & _ & _ & _ & _ & H).
  fold s fee in H. unfold from.
  split; [|split; [|split; [|split; [|split]]]].
  - intros Hty Hne. rewrite (H (t_from t)), (H (t_to t)). unfold tx_in, tx_out. rewrite Hty. cbn.
    destruct (decide (t_from t = t_to t)); [contradiction|]. destruct (decide (t_to t = t_to t)); [|congruence].
    destruct (decide (t_from t = t_from t)); [|congruence]. destruct (decide (t_to t = t_from t)); [congruence|]. lia.
  - intros Hty Heq. rewrite (H (t_from t)). unfold tx_in, tx_out. rewrite Hty. cbn.
    destruct (decide (t_from t = t_to t)); [|contradiction]. destruct (decide (t_from t = t_from t)); [lia|congruence].
  - intros Hty. rewrite (H (t_from t)). unfold tx_in, tx_out. rewrite Hty. cbn.
    destruct (decide (t_from t = t_from t)); [lia|congruence].
  - intros req Hty Hpl. rewrite (H (t_from t)). unfold tx_in, tx_out. rewrite Hty, Hpl. cbn.
    destruct (decide (t_from t = t_from t)); [lia|congruence].
  - intros H1 H2 H8. rewrite (H (t_from t)). apply Z.eqb_neq in H1, H2, H8. unfold tx_in, tx_out. rewrite H1, H2, H8. cbn.
    destruct (decide (t_from t = t_from t)); [lia|congruence].
  - intros a Hna Hnt. rewrite (H a). destruct (decide (a = t_from t)); [contradiction|].
    unfold tx_in. destruct (t_type t =? TRX_TRANSFER) eqn:E1.
    + apply Z.eqb_eq in E1. destruct (decide (a = t_to t)); [destruct (Hnt E1); assumption|lia].
    + destruct (t_type t =? TRX_WITHDRAW); [|lia]. destruct (t_payload t); try lia.
      destruct (decide (a = t_from t)); [contradiction|lia].
Qed.

(* a delivery of the run that does not succeed (Err or Panic) charges nothing *)
Theorem C16_run_failed_no_charge g ops pre t post s' r :
  genesis_ok g → InvPanic.bracketed InvPanic.Idle 0 ops → hashes_fresh ops → txs_ok ops →
  supply (work (init_chain g)) + requested ops < supply_bound →
  ops = pre ++ SDeliver t :: post →
  let s := srun (init_chain g) pre in
  deliver s t = (s', r) → (∀ gas, r ≠ Ok gas) →
  fee1 s t = [] ∧ b_feesum (bctx s') = b_feesum (bctx s) ∧ (∀ a, bal_of (work s') a = bal_of (work s) a).
Proof. intros Hg Hbr Hf Htx Hb. apply closed_failed; assumption. Qed.
Print Assumptions C16_run_failed_no_charge.

(* the link to C05: a FAILED delivery of the run changes nothing observable at all *)
Theorem C16_run_failed_no_effect g ops pre t post s' e :
  genesis_ok g → InvPanic.bracketed InvPanic.Idle 0 ops → hashes_fresh ops → txs_ok ops →
  supply (work (init_chain g)) + requested ops < supply_bound →
  ops = pre ++ SDeliver t :: post → InvFail.payload_wf t →
  let s := srun (init_chain g) pre in
  deliver s t = (s', Err e) → same_obs (work s) (work s') ∧ same_ctl s s'.
Proof. intros Hg Hbr Hf Htx Hb. apply closed_failed_obs; assumption. Qed.
Print Assumptions C16_run_failed_no_effect.

(* ... and no delivery of the run panics, every BeginBlock and EndBlock answers *)
Theorem C16_run_no_panic g ops pre o post :
  genesis_ok g → InvPanic.bracketed InvPanic.Idle 0 ops → hashes_fresh ops → txs_ok ops →
  supply (work (init_chain g)) + requested ops < supply_bound →
  ops = pre ++ o :: post → InvPanic.step_answers (srun (init_chain g) pre) o.
Proof. intros Hg Hbr Hf Htx Hb. apply closed_answers; assumption. Qed.
Print Assumptions C16_run_no_panic.

(* C16 for one complete block of a run *)
Theorem C16_run_block_credit g ops pre hd txs post :
  genesis_ok g → InvPanic.bracketed InvPanic.Idle 0 ops → hashes_fresh ops → txs_ok ops →
  supply (work (init_chain g)) + requested ops < supply_bound →
  ops = pre ++ SBegin hd :: map SDeliver txs ++ SEnd :: post →
  let s0 := srun (init_chain g) pre in
  let s1 := (begin_block s0 hd).1 in
  let s2 := srun s1 (map SDeliver txs) in
  let s3 := (end_block s2).1 in
  let fees := fees_of_txs s1 txs in
  let refunds a := sumZ (payout_amount <$> owned_by a (payouts1 s2 SEnd)) in
  fees = concat (zip_with (fee_native (g_gasPrice (gparams s0))) txs (deliver_all s1 txs).2) ∧
  Forall (λ x : addr * Z, 0 ≤ x.2) fees ∧
  b_feesum (bctx s2) = fee_total fees ∧ 0 ≤ fee_total fees < supply_bound ∧
  b_proposer (bctx s2) = h_proposer hd ∧ b_height (bctx s2) = h_height hd ∧
  (∃ ups, end_block s2 = (s3, Ok ups)) ∧
  (∀ a, bal_of (work s3) a =
        bal_of (work s2) a + (if decide (h_proposer hd = Some a) then fee_total fees else 0) + refunds a) ∧
  (∀ pa, h_proposer hd = Some pa → bal_of (work s3) pa = bal_of (work s2) pa + fee_total fees + refunds pa) ∧
  (h_proposer hd = None → ∀ a, bal_of (work s3) a = bal_of (work s2) a + refunds a).
Proof. intros Hg Hbr Hf Htx Hb. apply C16_run_block_credit_sec; assumption. Qed.
Print Assumptions C16_run_block_credit.

(* all fees of a closed run are non-negative *)
Lemma fees_flat_nonneg g ops :
  genesis_ok g → InvPanic.bracketed InvPanic.Idle 0 ops → hashes_fresh ops → txs_ok ops →
  supply (work (init_chain g)) + requested ops < supply_bound →
  ∀ post pre, ops = pre ++ post → Forall (λ x : addr * Z, 0 ≤ x.2) (fees_flat (srun (init_chain g) pre) post).
Proof.
  intros Hg Hbr Hf Htx Hb. induction post as [|o r IH]; intros pre E; cbn [fees_flat]; [constructor|].
  assert (E' : ops = (pre ++ [o]) ++ r) by (rewrite <- app_assoc; exact E).
  specialize (IH _ E'). rewrite srun_snoc in IH. apply Forall_app. split; [|exact IH].
  destruct o as [hd|t| |]; try constructor.
  destruct (closed_deliver_fee g ops Hg Hbr Hf Htx Hb pre t r E) as [_ H].
  eapply Forall_impl; [exact H|]. intros x (_ & _ & Hx). exact Hx.
Qed.

(* C16 over the whole run: fees are moved, never created.
   - per account, what the fee steps of the EndBlocks credit is the sum of the fee totals of the
     blocks that account proposed;
   - the credits of the run add up to the fees of the blocks that had a proposer;
   - every fee a sender was charged ([fees_flat]) is in exactly one block, so:
       charged = credited to proposers + fees of proposer-less blocks (paid to nobody: burned)
                 + fees of the block still open;
   - all of these are non-negative. *)
Theorem C16_run_total_fees g ops :
  genesis_ok g → InvPanic.bracketed InvPanic.Idle 0 ops → hashes_fresh ops → txs_ok ops →
  supply (work (init_chain g)) + requested ops < supply_bound →
  let s0 := init_chain g in
  (∀ a, fee_gain a s0 ops = credited_to a (fees_of_block g ops)) ∧
  credit_total (credits s0 ops) = fees_with_proposer (fees_of_block g ops) ∧
  fee_total (fees_flat s0 ops) =
    credit_total (credits s0 ops) + fees_without_proposer (fees_of_block g ops) + fee_total (open_fees s0 [] ops) ∧
  Forall (λ x : addr * Z, 0 ≤ x.2) (fees_flat s0 ops).
Proof.
  intros Hg Hbr Hf Htx Hb s0.
  assert (H1 : ∀ a, fee_gain a s0 ops = credited_to a (fees_of_block g ops) ∧
                    credit_total (credits s0 ops) = fees_with_proposer (fees_of_block g ops)).
  { intros a. apply (closed_fee_gain g ops Hg Hbr Hf Htx Hb a ops []). reflexivity. }
  split; [intros a; apply H1|]. split; [apply (H1 0%N)|]. split.
  - pose proof (fees_flat_blocks ops InvPanic.Idle 0 s0 [] Hbr ltac:(reflexivity)) as H.
    rewrite fees_split_proposer in H. destruct (H1 0%N) as [_ ->]. unfold fees_of_block. fold s0.
    change (fee_total []) with 0 in H. lia.
  - apply (fees_flat_nonneg g ops Hg Hbr Hf Htx Hb ops []). reflexivity.
Qed.
Print Assumptions C16_run_total_fees.

Corollary C16_run_fee_gain g ops a :
  genesis_ok g → InvPanic.bracketed InvPanic.Idle 0 ops → hashes_fresh ops → txs_ok ops →
  supply (work (init_chain g)) + requested ops < supply_bound →
  fee_gain a (init_chain g) ops = credited_to a (fees_of_block g ops).
Proof. intros Hg Hbr Hf Htx Hb. apply (C16_run_total_fees g ops Hg Hbr Hf Htx Hb). Qed.

(* C16 and C12 together, per account, over the whole run: the balance at the end is the genesis
   balance, plus what the transactions moved in and out, minus the fees the account was charged as a
   sender, plus the fees of the blocks it proposed, plus its unbonding refunds (characterised by
   InvUnbond.C12_history).  Over Z. *)
Theorem C16_run_account_ledger g ops a :
  genesis_ok g → InvPanic.bracketed InvPanic.Idle 0 ops → hashes_fresh ops → txs_ok ops →
  supply (work (init_chain g)) + requested ops < supply_bound →
  let s0 := init_chain g in
  bal_of (work (srun s0 ops)) a =
    bal_of (work s0) a + moved a s0 ops - charged_to a (fees_flat s0 ops)
    + credited_to a (fees_of_block g ops) + unbond_gain a s0 ops.
Proof.
  intros Hg Hbr Hf Htx Hb s0.
  pose proof (closed_ledger g ops Hg Hbr Hf Htx Hb a ops [] eq_refl) as H.
  destruct (closed_fee_gain g ops Hg Hbr Hf Htx Hb a ops [] eq_refl) as [Hfg _].
  subst s0. cbv zeta in H, Hfg. unfold fees_of_block.
  change (srun (init_chain g) []) with (init_chain g) in H, Hfg.
  change (open_fees (init_chain g) [] []) with (@nil (addr * Z)) in Hfg. lia.
Qed.
Print Assumptions C16_run_account_ledger.

(* ================================================================== the EVM path *)
(* [txs_ok] excludes successful EVM executions (their effect is an oracle).  What holds of them
   along runs without that hypothesis: admission and price ([C16_run_price_in_force]) and the fee
   sum of the block modulo 2^256 ([C16_run_block_fee_sum_mod]), both unconditional; and, on a
   recorded history on which the effect check passed (InvEvmClosed.v -- a verdict about the run,
   not a hypothesis on the inputs), the fee of a successful EVM-path delivery is gas USED x price
   with gas used within the limit, the touched accounts lose exactly that plus a non-negative burn,
   and no other balance moves *)
From Rigo Require AppRun EffectCheck InvEvmClosed.
Theorem C16_run_evm_charge_checked g rest senders pre t post s' gas :
  InvEvmClosed.no_init rest →
  EffectCheck.effects_hold senders AppRun.state0 (AppRun.AInit g :: rest) →
  InvEvmClosed.sops_of rest = pre ++ SDeliver t :: post →
  let s := srun (init_chain g) pre in
  deliver s t = (s', Ok gas) → ¬ native s t →
  ∃ e burn,
    t_evm t = Some e ∧ e_ok e = true ∧ gas = e_gas e ∧ 0 ≤ gas ≤ t_gas t ∧
    t_price t = g_gasPrice (gparams s) ∧
    fee1 s t = [(t_from t, gas * g_gasPrice (gparams s))] ∧
    b_feesum (bctx s') = add256 (b_feesum (bctx s)) (mul256 gas (g_gasPrice (gparams s))) ∧
    0 ≤ burn ∧ NoDup (InvEvmClosed.eff_addr <$> e_accts e) ∧
    sumZ_with (λ a, bal_of (work s) a - bal_of (work s') a) (InvEvmClosed.eff_addr <$> e_accts e)
      = gas * g_gasPrice (gparams s) + burn ∧
    (∀ a, a ∉ InvEvmClosed.eff_addr <$> e_accts e → bal_of (work s') a = bal_of (work s) a).
Proof.
  intros Hn Heff E s Hd Hnat.
  destruct (InvEvmClosed.C16_evm_cost_checked g rest senders pre t post s s' gas Hn Heff E eq_refl Hd Hnat)
    as (e & burn & H1 & H2 & H3 & H4 & H5 & H6 & H7 & H8 & H9).
  destruct (deliver_ok_admission _ _ _ _ Hd) as (Hp & _).
  exists e, burn. split; [exact H1|]. split; [exact H2|]. split; [exact H3|]. split; [exact H4|]. split; [exact Hp|].
  split; [unfold fee1; rewrite Hd; reflexivity|]. auto 10.
Qed.
Print Assumptions C16_run_evm_charge_checked.

(* ================================================================== 6. the statements are not vacuous *)
(* Eight blocks on a chain with one genesis validator (account 1, power 100) and three holders.
   Gas price 10, minimum gas 10 at genesis.
     block 1 (proposer 2)  two transfers, gas limits 100 and 250
     block 2 (no proposer) empty; its EndBlock announces the validator
     block 3 (no proposer) the validator proposes a parameter document: gas price 20, minimum gas 50
                           (voting at heights 4..5, applying height 6)
     block 4 (proposer 1)  the validator votes for it
     blocks 5-7            empty: the proposal is frozen at 6, applied by the EndBlock of 7, and the
                           Commit of 7 hands the new parameters over
     block 8 (proposer 3)  a transfer at the OLD price 10: refused (E_PRICE); a transfer at the new
                           price with gas 40 < 50: refused (E_GAS); a transfer with gas 300 and a
                           delegation with gas 60 at price 20: charged 6000 and 1200 *)
Definition fx_genesis : genesis := {|
  gen_params := InvPanic.pr1;
  gen_holders := [(1%N, 1000 * amountPerPower); (2%N, 500 * amountPerPower); (3%N, 500 * amountPerPower)];
  gen_validators := [(1%N, 100)] |}.
Definition fx_tx (ty : Z) (from to : addr) (amount price gas nonce : Z) (pl : payload) (h : hash) : tx := {|
  t_type := ty; t_from := from; t_to := to; t_from_ok := true; t_to_ok := true; t_amount := amount;
  t_price := price; t_gas := gas; t_nonce := nonce; t_payload := pl; t_hash := h; t_sigok := true; t_evm := None |}.
Definition fx_hdr (h : Z) (p : option addr) : header :=
  {| h_height := h; h_proposer := p; h_votes := []; h_evidence := [] |}.
(* a parameter document that sets the gas price to 20 and the minimum gas to 50 *)
Definition fx_doc : params := {|
  g_version := 0; g_maxValidatorCnt := 0; g_minValidatorStake := 0; g_minDelegatorStake := 0;
  g_rewardPerPower := 0; g_lazyRewardBlocks := 0; g_lazyApplyingBlocks := 0; g_gasPrice := 20;
  g_minTrxGas := 50; g_maxTrxGas := 0; g_maxBlockGas := 0; g_minVotingPeriodBlocks := 0;
  g_maxVotingPeriodBlocks := 0; g_minSelfStakeRatio := 0; g_maxUpdatableStakeRatio := 0;
  g_maxIndividualStakeRatio := 0; g_slashRatio := 0; g_signedBlocksWindow := 0; g_minSignedBlocks := 0 |}.
Definition fx_prop : tx :=
  fx_tx TRX_PROPOSAL 1%N 0%N 0 10 100 0 (PProposal 4 1 6 PROPOSAL_GOVPARAMS [(1%N, Some fx_doc)] true) 77%N.
Definition fx_vote : tx := fx_tx TRX_VOTING 1%N 0%N 0 10 100 1 (PVoting 77%N 0) 78%N.
Definition fx_t1 : tx := fx_tx TRX_TRANSFER 2%N 3%N amountPerPower 10 100 0 PNone 101%N.
Definition fx_t2 : tx := fx_tx TRX_TRANSFER 3%N 2%N (2 * amountPerPower) 10 250 0 PNone 102%N.
Definition fx_old : tx := fx_tx TRX_TRANSFER 2%N 3%N amountPerPower 10 100 1 PNone 103%N.
Definition fx_low : tx := fx_tx TRX_TRANSFER 2%N 3%N amountPerPower 20 40 1 PNone 104%N.
Definition fx_new : tx := fx_tx TRX_TRANSFER 2%N 3%N amountPerPower 20 300 1 PNone 105%N.
Definition fx_stake : tx := fx_tx TRX_STAKING 3%N 1%N (5 * amountPerPower) 20 60 1 PNone 106%N.

Definition fx_pre8 : list sop :=
  [SBegin (fx_hdr 1 (Some 2%N)); SDeliver fx_t1; SDeliver fx_t2; SEnd; SCommit;
   SBegin (fx_hdr 2 None); SEnd; SCommit;
   SBegin (fx_hdr 3 None); SDeliver fx_prop; SEnd; SCommit;
   SBegin (fx_hdr 4 (Some 1%N)); SDeliver fx_vote; SEnd; SCommit;
   SBegin (fx_hdr 5 (Some 1%N)); SEnd; SCommit;
   SBegin (fx_hdr 6 (Some 1%N)); SEnd; SCommit;
   SBegin (fx_hdr 7 (Some 1%N)); SEnd; SCommit].
Definition fx_txs8 : list tx := [fx_old; fx_low; fx_new; fx_stake].
Definition fx_ops : list sop := fx_pre8 ++ SBegin (fx_hdr 8 (Some 3%N)) :: map SDeliver fx_txs8 ++ [SEnd; SCommit].

Ltac fz := repeat split; vm_compute; congruence.

Lemma fx_genesis_ok : genesis_ok fx_genesis.
Proof.
  split; [exact InvPanic.pr1_ok|]. split; [vm_compute; lia|]. split.
  - repeat apply Forall_cons_2; try apply Forall_nil_2; fz.
  - repeat apply Forall_cons_2; try apply Forall_nil_2; fz.
Qed.

Lemma fx_doc_ok : InvPanic.opt_ok fx_doc.
Proof.
  apply doc_ok_opt_ok, doc_fields_ok_doc_ok. unfold doc_fields_ok, unset_or. cbn.
  Local Transparent two64.
  repeat split; first [left; reflexivity|right; unfold two64; lia].
  Local Opaque two64.
Qed.

Lemma fx_prop_ok : InvPanic.tx_ok fx_prop.
Proof.
  split; [fz|]. split; [intros E; vm_compute in E; discriminate|].
  unfold InvPanic.payload_consistent, InvPanic.proposal_params_ok. cbn. split.
  - intros _. repeat constructor. eexists; reflexivity.
  - constructor; [|constructor]. intros np' E. cbn in E. injection E as <-. exact fx_doc_ok.
Qed.

Lemma fx_bracketed : InvPanic.bracketed InvPanic.Idle 0 fx_ops.
Proof.
  unfold fx_ops, fx_pre8, fx_txs8. cbn [app map InvPanic.bracketed].
  repeat match goal with
  | |- _ ∧ _ => split
  | |- InvPanic.tx_ok fx_prop => exact fx_prop_ok
  | |- InvPanic.tx_ok _ => apply InvPanic.tx_ok_plain; [fz|discriminate|discriminate]
  | |- _ = _ => reflexivity
  | |- _ → _ => let H := fresh in intros H; first [lia|exfalso; apply H; reflexivity]
  | |- True => exact I
  end.
Qed.

Lemma fx_hashes_fresh : hashes_fresh fx_ops.
Proof.
  unfold hashes_fresh. replace (stake_hashes fx_ops) with [106%N] by (vm_compute; reflexivity).
  apply NoDup_cons. split; [|apply NoDup_singleton]. intros H. apply elem_of_list_singleton in H. discriminate.
Qed.

Lemma fx_txs_ok : txs_ok fx_ops.
Proof.
  unfold txs_ok, fx_ops, fx_pre8, fx_txs8. cbn [app map].
  repeat apply Forall_cons_2; try exact I; try apply Forall_nil_2;
    (split; [fz|split; [|reflexivity]]); intros req Hty Hp; discriminate Hty.
Qed.

Lemma fx_bound : supply (work (init_chain fx_genesis)) + requested fx_ops < supply_bound.
Proof. vm_compute. reflexivity. Qed.

(* the results of the deliveries of a run, in order *)
Fixpoint results (s : state) (ops : list sop) : list (res Z) :=
  match ops with
  | [] => []
  | o :: r => match o with SDeliver t => [(deliver s t).2] | _ => [] end ++ results (sstep s o) r
  end.

(* 3: block 8 through the theorem: fee sum 7200, all of it to the proposer (account 3), nothing to
   anybody else *)
Example C16_run_example_block :
  let s0 := init_chain fx_genesis in
  let s1 := (begin_block (srun s0 fx_pre8) (fx_hdr 8 (Some 3%N))).1 in
  let s2 := srun s1 (map SDeliver fx_txs8) in
  let s3 := (end_block s2).1 in
  fees_of_txs s1 fx_txs8 = [(2%N, 300 * 20); (3%N, 60 * 20)] ∧
  b_feesum (bctx s2) = 7200 ∧ bal_of (work s3) 3%N = bal_of (work s2) 3%N + 7200 ∧
  bal_of (work s3) 2%N = bal_of (work s2) 2%N ∧ bal_of (work s3) 1%N = bal_of (work s2) 1%N.
Proof.
  intros s0 s1 s2 s3.
  destruct (C16_run_block_credit fx_genesis fx_ops fx_pre8 (fx_hdr 8 (Some 3%N)) fx_txs8 [SCommit]
              fx_genesis_ok fx_bracketed fx_hashes_fresh fx_txs_ok fx_bound eq_refl)
    as (_ & _ & Hsum & _ & _ & _ & _ & Hall & _).
  fold s0 s1 s2 s3 in Hsum, Hall.
  assert (Hfees : fees_of_txs s1 fx_txs8 = [(2%N, 300 * 20); (3%N, 60 * 20)]) by (vm_compute; reflexivity).
  rewrite Hfees in Hsum, Hall.
  assert (Hno : ∀ a, sumZ (payout_amount <$> owned_by a (payouts1 s2 SEnd)) = 0).
  { intros a. replace (payouts1 s2 SEnd) with (@nil (Z * stake)) by (vm_compute; reflexivity). reflexivity. }
  split; [exact Hfees|]. split; [exact Hsum|].
  rewrite (Hall 3%N), (Hall 2%N), (Hall 1%N), !Hno.
  change (h_proposer (fx_hdr 8 (Some 3%N))) with (Some 3%N).
  change (fee_total [(2%N, 300 * 20); (3%N, 60 * 20)]) with 7200.
  rewrite decide_True by reflexivity. rewrite !decide_False by discriminate. split; [lia|split; lia].
Qed.

(* 4: the accepted transfer of block 8 through the theorem: gas limit 300 at the NEW price 20 *)
Example C16_run_example_transfer :
  let s0 := init_chain fx_genesis in
  let s := srun s0 (fx_pre8 ++ [SBegin (fx_hdr 8 (Some 3%N)); SDeliver fx_old; SDeliver fx_low]) in
  let s' := (deliver s fx_new).1 in
  (deliver s fx_new).2 = Ok 300 ∧ g_gasPrice (gparams s) = 20 ∧
  bal_of (work s') 2%N = bal_of (work s) 2%N - 300 * 20 - amountPerPower ∧
  bal_of (work s') 3%N = bal_of (work s) 3%N + amountPerPower.
Proof.
  intros s0 s s'.
  assert (E : fx_ops = (fx_pre8 ++ [SBegin (fx_hdr 8 (Some 3%N)); SDeliver fx_old; SDeliver fx_low])
                       ++ SDeliver fx_new :: [SDeliver fx_stake; SEnd; SCommit]) by reflexivity.
  assert (Hr : (deliver s fx_new).2 = Ok 300) by (vm_compute; reflexivity).
  assert (Hp : g_gasPrice (gparams s) = 20) by (vm_compute; reflexivity).
  assert (Ed : deliver s fx_new = (s', Ok 300)) by (unfold s'; rewrite <- Hr; destruct (deliver s fx_new); reflexivity).
  destruct (C16_run_sender_charge_types fx_genesis fx_ops _ fx_new _ s' 300
              fx_genesis_ok fx_bracketed fx_hashes_fresh fx_txs_ok fx_bound E Ed) as (H1 & _).
  destruct (H1 eq_refl ltac:(discriminate)) as [Ha Hc]. fold s0 s in Ha, Hc. rewrite Hp in Ha.
  split; [exact Hr|]. split; [exact Hp|]. split; [exact Ha|exact Hc].
Qed.

(* the account ledger of the whole run for account 2: two transfers out, one in, fees 1000 + 6000 as a
   sender, 3500 as the proposer of block 1 *)
Example C16_run_example_ledger :
  let s0 := init_chain fx_genesis in
  bal_of (work (srun s0 fx_ops)) 2%N =
    500 * amountPerPower + moved 2%N s0 fx_ops - charged_to 2%N (fees_flat s0 fx_ops) + 3500 + 0 ∧
  moved 2%N s0 fx_ops = - amountPerPower + 2 * amountPerPower - amountPerPower ∧
  charged_to 2%N (fees_flat s0 fx_ops) = 100 * 10 + 300 * 20 ∧
  credited_to 2%N (fees_of_block fx_genesis fx_ops) = 3500 ∧ unbond_gain 2%N s0 fx_ops = 0.
Proof.
  intros s0.
  assert (E1 : bal_of (work s0) 2%N = 500 * amountPerPower) by (vm_compute; reflexivity).
  assert (E2 : credited_to 2%N (fees_of_block fx_genesis fx_ops) = 3500) by (vm_compute; reflexivity).
  assert (E3 : unbond_gain 2%N s0 fx_ops = 0) by (vm_compute; reflexivity).
  split; [|split; [vm_compute; reflexivity|split; [vm_compute; reflexivity|split; assumption]]].
  pose proof (C16_run_account_ledger fx_genesis fx_ops 2%N fx_genesis_ok fx_bracketed fx_hashes_fresh fx_txs_ok fx_bound) as H.
  cbv zeta in H. fold s0 in H. rewrite H, E1, E2, E3. reflexivity.
Qed.

Example C16_run_example :
  let s0 := init_chain fx_genesis in
  (* the input hypotheses hold *)
  genesis_ok fx_genesis ∧ InvPanic.bracketed InvPanic.Idle 0 fx_ops ∧ hashes_fresh fx_ops ∧ txs_ok fx_ops ∧
  supply (work s0) + requested fx_ops < supply_bound ∧
  (* what happened: the old price and a gas limit below the new minimum are refused in block 8 *)
  results s0 fx_ops = [Ok 100; Ok 250; Ok 100; Ok 100; Err E_PRICE; Err E_GAS; Ok 300; Ok 60] ∧
  g_gasPrice (gparams s0) = 10 ∧ g_gasPrice (gparams (srun s0 fx_pre8)) = 20 ∧
  g_minTrxGas (gparams (srun s0 fx_pre8)) = 50 ∧
  (* 1: the blocks and their fees *)
  fees_of_block fx_genesis fx_ops =
    [ {| fb_height := 1; fb_proposer := Some 2%N; fb_fees := [(2%N, 100 * 10); (3%N, 250 * 10)] |};
      {| fb_height := 2; fb_proposer := None; fb_fees := [] |};
      {| fb_height := 3; fb_proposer := None; fb_fees := [(1%N, 100 * 10)] |};
      {| fb_height := 4; fb_proposer := Some 1%N; fb_fees := [(1%N, 100 * 10)] |};
      {| fb_height := 5; fb_proposer := Some 1%N; fb_fees := [] |};
      {| fb_height := 6; fb_proposer := Some 1%N; fb_fees := [] |};
      {| fb_height := 7; fb_proposer := Some 1%N; fb_fees := [] |};
      {| fb_height := 8; fb_proposer := Some 3%N; fb_fees := [(2%N, 300 * 20); (3%N, 60 * 20)] |} ] ∧
  (* 5: the credits, through the theorem: 3500 + 1000 + 7200 credited; the 1000 of block 3, which
     had no proposer, are paid to nobody *)
  credits s0 fx_ops = [(1, 2%N, 3500); (4, 1%N, 1000); (5, 1%N, 0); (6, 1%N, 0); (7, 1%N, 0); (8, 3%N, 7200)] ∧
  credit_total (credits s0 fx_ops) = fees_with_proposer (fees_of_block fx_genesis fx_ops) ∧
  fees_with_proposer (fees_of_block fx_genesis fx_ops) = 11700 ∧
  fees_without_proposer (fees_of_block fx_genesis fx_ops) = 1000 ∧
  fee_total (fees_flat s0 fx_ops) = 12700 ∧ open_fees s0 [] fx_ops = [].
Proof.
  intros s0.
  destruct (C16_run_total_fees fx_genesis fx_ops fx_genesis_ok fx_bracketed fx_hashes_fresh fx_txs_ok fx_bound)
    as (_ & Htot & _ & _). fold s0 in Htot.
  split; [exact fx_genesis_ok|]. split; [exact fx_bracketed|]. split; [exact fx_hashes_fresh|].
  split; [exact fx_txs_ok|]. split; [exact fx_bound|].
  split; [vm_compute; reflexivity|]. split; [reflexivity|]. split; [vm_compute; reflexivity|].
  split; [vm_compute; reflexivity|]. split; [vm_compute; reflexivity|]. split; [vm_compute; reflexivity|].
  split; [exact Htot|]. split; [vm_compute; reflexivity|]. split; [vm_compute; reflexivity|].
  split; vm_compute; reflexivity.
Qed.
Print Assumptions C16_run_example.
Print Assumptions C16_run_example_block.
Print Assumptions C16_run_example_transfer.
Print Assumptions C16_run_example_ledger.

(* a proposer without ledger entry is created by the credit: the branch "the proposer account does
   not exist" of [C16_run_block_credit], spelled out *)
Corollary C16_run_block_credit_new_proposer g ops pre hd txs post pa :
  genesis_ok g → InvPanic.bracketed InvPanic.Idle 0 ops → hashes_fresh ops → txs_ok ops →
  supply (work (init_chain g)) + requested ops < supply_bound →
  ops = pre ++ SBegin hd :: map SDeliver txs ++ SEnd :: post →
  let s1 := (begin_block (srun (init_chain g) pre) hd).1 in
  let s2 := srun s1 (map SDeliver txs) in
  let s3 := (end_block s2).1 in
  h_proposer hd = Some pa → accts (work s2) !! pa = None →
  bal_of (work s3) pa =
    fee_total (fees_of_txs s1 txs) + sumZ (payout_amount <$> owned_by pa (payouts1 s2 SEnd)).
Proof.
  intros Hg Hbr Hf Htx Hb E s1 s2 s3 Hpa Hnone.
  destruct (C16_run_block_credit g ops pre hd txs post Hg Hbr Hf Htx Hb E) as (_ & _ & _ & _ & _ & _ & _ & _ & H & _).
  cbv zeta in H. fold s1 s2 s3 in H. rewrite (H pa Hpa). unfold bal_of at 1, acct_of. rewrite Hnone. cbn. lia.
Qed.

(* ================================================================== why the list must be well bracketed *)
(* [srun] goes on after a BeginBlock that panicked (a live node halts there).  Such a BeginBlock
   leaves the state as it was, including the fee sum of the previous block in the block context, and
   the next EndBlock pays it to the proposer a second time: fees ARE created.  Every other input
   hypothesis holds on this list; only [bracketed] fails (the second header has height 5 after block 1). *)
Definition unbracketed_ops : list sop :=
  [SBegin (fx_hdr 1 (Some 2%N)); SDeliver fx_t1; SEnd; SCommit; SBegin (fx_hdr 5 (Some 2%N)); SEnd; SCommit].

Theorem C16_total_fees_needs_bracketed : ∃ g ops,
  genesis_ok g ∧ hashes_fresh ops ∧ txs_ok ops ∧
  supply (work (init_chain g)) + requested ops < supply_bound ∧
  ¬ InvPanic.bracketed InvPanic.Idle 0 ops ∧
  fees_flat (init_chain g) ops = [(2%N, 1000)] ∧
  credits (init_chain g) ops = [(1, 2%N, 1000); (1, 2%N, 1000)] ∧
  credit_total (credits (init_chain g) ops) ≠ fees_with_proposer (fees_of_block g ops).
Proof.
  exists fx_genesis, unbracketed_ops.
  split; [exact fx_genesis_ok|]. split.
  { unfold hashes_fresh. replace (stake_hashes unbracketed_ops) with (@nil hash) by reflexivity. apply NoDup_singleton. }
  split.
  { unfold txs_ok, unbracketed_ops. repeat apply Forall_cons_2; try exact I; try apply Forall_nil_2.
    split; [fz|split; [|reflexivity]]. intros req Hty Hp; discriminate Hty. }
  split; [vm_compute; reflexivity|]. split.
  { unfold unbracketed_ops. cbn [InvPanic.bracketed]. intros (_ & _ & _ & H & _). discriminate H. }
  split; [vm_compute; reflexivity|]. split; [vm_compute; reflexivity|]. vm_compute. discriminate.
Qed.
Print Assumptions C16_total_fees_needs_bracketed.
