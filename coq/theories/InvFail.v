(* InvFail.v — property C05: a failed DeliverTx has no effect. *)
From Rigo Require Import Base.
From stdpp Require Import gmap sorting.
From Rigo Require Import Spec SpecProps.
Local Open Scope Z_scope.

(* ------------------------------------------------------------------ arithmetic *)
Lemma two255_pos : 0 < two255.  Proof. reflexivity. Qed.
Lemma two256_double : two256 = 2 * two255.  Proof. reflexivity. Qed.
Lemma two64_pos : 0 < two64.  Proof. reflexivity. Qed.
Lemma fee_bound p g : 0 ≤ p < 2 ^ 192 → 0 ≤ g ≤ maxInt64 → 0 ≤ p * g < two255.
Proof.
  intros Hp Hg. split; [apply Z.mul_nonneg_nonneg; lia|].
  assert (H1 : p * g ≤ (2 ^ 192 - 1) * maxInt64) by (apply Z.mul_le_mono_nonneg; lia).
  assert (H2 : (2 ^ 192 - 1) * maxInt64 < two255) by reflexivity.
  lia.
Qed.

Local Opaque two256 two255 two64 two63.

Lemma sign256_nonneg z : (sign256 z <? 0) = false ↔ z < two255.
Proof.
  pose proof two255_pos as Hp. unfold sign256.
  destruct (z =? 0) eqn:E0.
  - apply Z.eqb_eq in E0. subst z. split; [lia|reflexivity].
  - destruct (two255 <=? z) eqn:E1.
    + apply Z.leb_le in E1. split; [discriminate|lia].
    + apply Z.leb_gt in E1. split; [lia|reflexivity].
Qed.

Lemma add256_small a b : 0 ≤ a + b < two256 → add256 a b = a + b.
Proof. intros H. unfold add256. apply wrap256_small. exact H. Qed.
Lemma sub256_small a b : 0 ≤ a - b < two256 → sub256 a b = a - b.
Proof. intros H. unfold sub256. apply wrap256_small. exact H. Qed.
Lemma mul256_small a b : 0 ≤ a * b < two256 → mul256 a b = a * b.
Proof. intros H. unfold mul256. apply wrap256_small. exact H. Qed.

(* ------------------------------------------------------------------ deliver, piece by piece *)
Definition bump (s : state) : state :=
  with_bctx s {| b_height := b_height (bctx s); b_proposer := b_proposer (bctx s);
                 b_feesum := b_feesum (bctx s); b_txs := b_txs (bctx s) + 1 |}.

(* the state validation and execution start from: tx counter bumped, receiver account present *)
Definition pre (s : state) (t : tx) : state := with_work (bump s) (find_or_new (work s) (t_to t)).1.
Definition receiver_of (s : state) (t : tx) : account := (find_or_new (work s) (t_to t)).2.

Definition evm_path (s : state) (t : tx) : bool :=
  (t_type t =? TRX_CONTRACT) || ((t_type t =? TRX_TRANSFER) && a_code (receiver_of s t)).

Definition validated (s1 : state) (receiver : account) (t : tx) : res limiter :=
  let ty := t_type t in
  if (ty =? TRX_PROPOSAL) || (ty =? TRX_VOTING) then
    match gov_validate s1 t with Some e => Err e | None => Ok (lim s1) end
  else if (ty =? TRX_TRANSFER) || (ty =? TRX_SETDOC) then
    match acct_validate t with Some e => Err e | None => Ok (lim s1) end
  else if (ty =? TRX_STAKING) || (ty =? TRX_UNSTAKING) || (ty =? TRX_WITHDRAW) then stake_validate s1 t
  else if ty =? TRX_CONTRACT then
    match evm_validate receiver t with Some e => Err e | None => Ok (lim s1) end
  else Err E_TYPE.

Definition exec_native (s2 : state) (t : tx) : res ledgers :=
  let ty := t_type t in
  if (ty =? TRX_PROPOSAL) || (ty =? TRX_VOTING) then gov_execute s2 (work s2) t
  else if (ty =? TRX_TRANSFER) || (ty =? TRX_SETDOC) then acct_execute (work s2) t
  else stake_execute s2 (work s2) t.

Definition add_fee (s2 : state) (l : ledgers) (gas price : Z) : state :=
  with_bctx (with_work s2 l) {| b_height := b_height (bctx s2); b_proposer := b_proposer (bctx s2);
     b_feesum := add256 (b_feesum (bctx s2)) (mul256 gas price); b_txs := b_txs (bctx s2) |}.

(* postRunTrx *)
Definition post_native (price : Z) (s2 : state) (t : tx) (l' : ledgers) : state * res Z :=
  match accts l' !! t_from t with
  | None => (s2, Err E_NOACCT)
  | Some snd' =>
      match sub_balance snd' (fee_of t) with
      | None => (with_work s2 l', Err E_FUND)
      | Some snd'' => (add_fee s2 (set_acct l' (t_from t) (add_nonce snd'')) (t_gas t) price, Ok (t_gas t))
      end
  end.

Definition finish (price : Z) (s2 : state) (t : tx) (evm : bool) : state * res Z :=
  if evm then
    match evm_execute (work s2) t with
    | Ok (l', gas) => (add_fee s2 l' gas price, Ok gas)
    | Err e => (s2, Err e)
    | Panic p => (s2, Panic p)
    end
  else
    match exec_native s2 t with
    | Err e => (s2, Err e)
    | Panic p => (s2, Panic p)
    | Ok l' => post_native price s2 t l'
    end.

Lemma deliver_eq s t :
  deliver s t =
  match accts (work s) !! t_from t with
  | None => (s, Err E_NOACCT)
  | Some sender =>
      let s1 := pre s t in
      match common_validation0 (gparams s) t with Some e => (s1, Err e) | None =>
      match common_validation1 sender t with Some e => (s1, Err e) | None =>
      match validated s1 (receiver_of s t) t with
      | Err e => (s1, Err e)
      | Panic p => (s1, Panic p)
      | Ok lim' => finish (g_gasPrice (gparams s)) (with_lim s1 lim') t (evm_path s t)
      end end end
  end.
Proof.
  unfold deliver, evm_path, pre, receiver_of, bump.
  destruct (accts (work s) !! t_from t) as [sender|]; [|reflexivity].
  cbn [work with_bctx].
  destruct (find_or_new (work s) (t_to t)) as [l0 receiver].
  cbn [fst snd].
  reflexivity.
Qed.

(* ------------------------------------------------------------------ observational equality *)
Lemma same_obs_refl l : same_obs l l.
Proof. unfold same_obs. repeat split. Qed.

Lemma same_obs_trans l1 l2 l3 : same_obs l1 l2 → same_obs l2 l3 → same_obs l1 l3.
Proof.
  unfold same_obs. intros (A1 & B1 & C1 & D1 & E1 & F1 & G1) (A2 & B2 & C2 & D2 & E2 & F2 & G2).
  repeat split; try congruence.
Qed.

Lemma same_ctl_refl s : same_ctl s s.
Proof. unfold same_ctl. repeat split. Qed.

(* ------------------------------------------------------------------ find_or_new *)
Lemma find_or_new_recv l a : (find_or_new l a).2 = acct_of l a.
Proof. unfold find_or_new, acct_of. destruct (accts l !! a); reflexivity. Qed.

Lemma find_or_new_lookup l a : accts (find_or_new l a).1 !! a = Some (find_or_new l a).2.
Proof.
  unfold find_or_new. destruct (accts l !! a) eqn:E; cbn; [exact E|apply lookup_insert].
Qed.

Lemma find_or_new_keeps l a b x : accts l !! b = Some x → accts (find_or_new l a).1 !! b = Some x.
Proof.
  intros H. unfold find_or_new. destruct (accts l !! a) eqn:E; cbn; [exact H|].
  rewrite lookup_insert_ne; [exact H|]. intros ->. congruence.
Qed.

Lemma find_or_new_acct_of l a b : acct_of (find_or_new l a).1 b = acct_of l b.
Proof.
  unfold find_or_new, acct_of. destruct (accts l !! a) eqn:E; cbn; [reflexivity|].
  destruct (decide (a = b)) as [->|Hne].
  - rewrite lookup_insert, E. reflexivity.
  - rewrite lookup_insert_ne by exact Hne. reflexivity.
Qed.

Lemma find_or_new_obs l a : same_obs l (find_or_new l a).1.
Proof.
  unfold same_obs. split; [intros b; symmetry; apply find_or_new_acct_of|].
  unfold find_or_new. destruct (accts l !! a); cbn; repeat split.
Qed.

Lemma find_or_new_dels l a : dels (find_or_new l a).1 = dels l.
Proof. unfold find_or_new. destruct (accts l !! a); reflexivity. Qed.
Lemma find_or_new_rewards l a : rewards (find_or_new l a).1 = rewards l.
Proof. unfold find_or_new. destruct (accts l !! a); reflexivity. Qed.

Lemma pre_obs s t : same_obs (work s) (work (pre s t)).
Proof. apply find_or_new_obs. Qed.
Lemma pre_ctl s t : same_ctl s (pre s t).
Proof. unfold same_ctl. repeat split. Qed.
Lemma pre_lim_ctl s t : same_ctl s (with_lim (pre s t) (lim (pre s t))).
Proof. unfold same_ctl. repeat split. Qed.
Lemma pre_sender s t x : accts (work s) !! t_from t = Some x → accts (work (pre s t)) !! t_from t = Some x.
Proof. apply find_or_new_keeps. Qed.

(* ------------------------------------------------------------------ what passing validation means *)
Lemma cv0_none g t :
  common_validation0 g t = None →
  t_from_ok t = true ∧ t_to_ok t = true ∧ t_amount t < two255 ∧ t_gas t ≤ maxInt64 ∧
  t_price t < two255 ∧ t_price t = g_gasPrice g ∧
  mul256 (g_minTrxGas g) (g_gasPrice g) ≤ fee_of t ∧ t_sigok t = true.
Proof.
  unfold common_validation0. intros H.
  destruct (t_from_ok t); [|discriminate]. destruct (t_to_ok t); [|discriminate]. cbn [negb] in H.
  destruct (sign256 (t_amount t) <? 0) eqn:Ea; [discriminate|].
  destruct (maxInt64 <? t_gas t) eqn:Eg; [discriminate|].
  destruct (sign256 (t_price t) <? 0) eqn:Ep; [discriminate|]. cbn [orb] in H.
  destruct (t_price t =? g_gasPrice g) eqn:Epr; [|discriminate]. cbn [negb] in H.
  destruct (fee_of t <? mul256 (g_minTrxGas g) (g_gasPrice g)) eqn:Ef; [discriminate|].
  destruct (t_sigok t); [|discriminate].
  apply sign256_nonneg in Ea, Ep. apply Z.ltb_ge in Eg, Ef. apply Z.eqb_eq in Epr.
  repeat split; assumption.
Qed.

Lemma cv1_none sender t :
  common_validation1 sender t = None →
  add256 (fee_of t) (t_amount t) ≤ a_bal sender ∧ a_nonce sender = t_nonce t.
Proof.
  unfold common_validation1. intros H.
  destruct (a_bal sender <? add256 (fee_of t) (t_amount t)) eqn:Eb; [discriminate|].
  destruct (a_nonce sender =? t_nonce t) eqn:En; [|discriminate].
  apply Z.ltb_ge in Eb. apply Z.eqb_eq in En. split; assumption.
Qed.

(* a delivery that did not fail in NewTrxContext went through both common validations *)
Lemma deliver_ok_validated s t s' g :
  deliver s t = (s', Ok g) →
  common_validation0 (gparams s) t = None ∧
  ∃ sender, accts (work s) !! t_from t = Some sender ∧ common_validation1 sender t = None.
Proof.
  rewrite deliver_eq. intros H.
  destruct (accts (work s) !! t_from t) as [sender|]; [|discriminate]. cbv zeta in H.
  destruct (common_validation0 (gparams s) t); [discriminate|].
  destruct (common_validation1 sender t) eqn:E1; [discriminate|].
  split; [reflexivity|]. exists sender. split; [reflexivity|exact E1].
Qed.

Corollary deliver_ok_sigok s t s' g : deliver s t = (s', Ok g) → t_sigok t = true.
Proof. intros H. apply deliver_ok_validated in H as [H0 _]. apply cv0_none in H0. tauto. Qed.

Corollary deliver_ok_price s t s' g : deliver s t = (s', Ok g) → t_price t = g_gasPrice (gparams s).
Proof. intros H. apply deliver_ok_validated in H as [H0 _]. apply cv0_none in H0. tauto. Qed.

Corollary deliver_ok_sender s t s' g :
  deliver s t = (s', Ok g) → ∃ sender, accts (work s) !! t_from t = Some sender.
Proof. intros H. apply deliver_ok_validated in H as (_ & x & Hx & _). exists x. exact Hx. Qed.

Corollary deliver_ok_nonce s t s' g : deliver s t = (s', Ok g) → nonce_of (work s) (t_from t) = t_nonce t.
Proof.
  intros H. apply deliver_ok_validated in H as (_ & x & Hx & H1). apply cv1_none in H1 as [_ Hn].
  unfold nonce_of, acct_of. rewrite Hx. exact Hn.
Qed.

Corollary deliver_ok_funds s t s' g :
  deliver s t = (s', Ok g) → add256 (fee_of t) (t_amount t) ≤ bal_of (work s) (t_from t).
Proof.
  intros H. apply deliver_ok_validated in H as (_ & x & Hx & H1). apply cv1_none in H1 as [Hb _].
  unfold bal_of, acct_of. rewrite Hx. exact Hb.
Qed.

Corollary deliver_ok_addrs s t s' g : deliver s t = (s', Ok g) → t_from_ok t = true ∧ t_to_ok t = true.
Proof. intros H. apply deliver_ok_validated in H as [H0 _]. apply cv0_none in H0. tauto. Qed.
