(* InvFail.v — property C05: a failed DeliverTx has no effect.
   Main results:
     deliver_eq                    deliver written with named pieces (pre, validated, finish, ...)
     deliver_ok_validated          success implies both common validations passed (+ corollaries
                                   deliver_ok_sigok / _price / _nonce / _funds / _addrs / _sender)
     deliver_fail_no_effect        Err  → same_obs ∧ same_ctl, under five named hypotheses
     deliver_fail_no_effect_wf     the same from tx_wf, payload_wf, params_ok, ranges_ok, reward_headroom
     deliver_panic_no_effect       Panic → same_obs ∧ same_ctl, no hypotheses
     deliver_fail_no_effect_refuted_{price,headroom,balance,amount,gas}
                                   each hypothesis dropped in turn: concrete counterexamples
   The structure of the argument: every validation precedes every write; once validation has
   passed, exeStaking / exeUnstaking cannot fail (so the limiter change made by CheckLimit is
   never followed by an error) and the fee debit of postRunTrx cannot fail (balance ≥ fee +
   amount was checked and the arithmetic does not wrap under the hypotheses). *)
From Rigo Require Import Base.
From stdpp Require Import gmap sorting.
From Rigo Require Import Spec SpecProps.
Local Open Scope Z_scope.

(* ------------------------------------------------------------------ arithmetic *)
Lemma two255_pos : 0 < two255.  Proof. reflexivity. Qed.
Lemma two256_double : two256 = 2 * two255.  Proof. reflexivity. Qed.
Lemma two64_pos : 0 < two64.  Proof. reflexivity. Qed.
Lemma fee_bound p g : 0 ≤ p < 2 ^ 192 → 0 ≤ g ≤ maxInt64 → 0 ≤ p * g < two255.
Proof.
  intros Hp Hg. split; [apply Z.mul_nonneg_nonneg; lia|].
  assert (H1 : p * g ≤ (2 ^ 192 - 1) * maxInt64) by (apply Z.mul_le_mono_nonneg; lia).
  assert (H2 : (2 ^ 192 - 1) * maxInt64 < two255) by reflexivity.
  lia.
Qed.

Local Opaque two256 two255 two64 two63.

Lemma sign256_nonneg z : (sign256 z <? 0) = false ↔ z < two255.
Proof.
  pose proof two255_pos as Hp. unfold sign256.
  destruct (z =? 0) eqn:E0.
  - apply Z.eqb_eq in E0. subst z. split; [lia|reflexivity].
  - destruct (two255 <=? z) eqn:E1.
    + apply Z.leb_le in E1. split; [discriminate|lia].
    + apply Z.leb_gt in E1. split; [lia|reflexivity].
Qed.

Lemma add256_small a b : 0 ≤ a + b < two256 → add256 a b = a + b.
Proof. intros H. unfold add256. apply wrap256_small. exact H. Qed.
Lemma sub256_small a b : 0 ≤ a - b < two256 → sub256 a b = a - b.
Proof. intros H. unfold sub256. apply wrap256_small. exact H. Qed.
Lemma mul256_small a b : 0 ≤ a * b < two256 → mul256 a b = a * b.
Proof. intros H. unfold mul256. apply wrap256_small. exact H. Qed.

(* ------------------------------------------------------------------ deliver, piece by piece *)
Definition bump (s : state) : state :=
  with_bctx s {| b_height := b_height (bctx s); b_proposer := b_proposer (bctx s);
                 b_feesum := b_feesum (bctx s); b_txs := b_txs (bctx s) + 1 |}.

(* the state validation and execution start from: tx counter bumped, receiver account present *)
Definition pre (s : state) (t : tx) : state := with_work (bump s) (find_or_new (work s) (t_to t)).1.
Definition receiver_of (s : state) (t : tx) : account := (find_or_new (work s) (t_to t)).2.

Definition evm_path (s : state) (t : tx) : bool :=
  (t_type t =? TRX_CONTRACT) || ((t_type t =? TRX_TRANSFER) && a_code (receiver_of s t)).

Definition validated (s1 : state) (receiver : account) (t : tx) : res limiter :=
  let ty := t_type t in
  if (ty =? TRX_PROPOSAL) || (ty =? TRX_VOTING) then
    match gov_validate s1 t with Some e => Err e | None => Ok (lim s1) end
  else if (ty =? TRX_TRANSFER) || (ty =? TRX_SETDOC) then
    match acct_validate t with Some e => Err e | None => Ok (lim s1) end
  else if (ty =? TRX_STAKING) || (ty =? TRX_UNSTAKING) || (ty =? TRX_WITHDRAW) then stake_validate s1 t
  else if ty =? TRX_CONTRACT then
    match evm_validate receiver t with Some e => Err e | None => Ok (lim s1) end
  else Err E_TYPE.

Definition exec_native (s2 : state) (t : tx) : res ledgers :=
  let ty := t_type t in
  if (ty =? TRX_PROPOSAL) || (ty =? TRX_VOTING) then gov_execute s2 (work s2) t
  else if (ty =? TRX_TRANSFER) || (ty =? TRX_SETDOC) then acct_execute (work s2) t
  else stake_execute s2 (work s2) t.

Definition add_fee (s2 : state) (l : ledgers) (gas price : Z) : state :=
  with_bctx (with_work s2 l) {| b_height := b_height (bctx s2); b_proposer := b_proposer (bctx s2);
     b_feesum := add256 (b_feesum (bctx s2)) (mul256 gas price); b_txs := b_txs (bctx s2) |}.

(* postRunTrx *)
Definition post_native (price : Z) (s2 : state) (t : tx) (l' : ledgers) : state * res Z :=
  match accts l' !! t_from t with
  | None => (s2, Err E_NOACCT)
  | Some snd' =>
      match sub_balance snd' (fee_of t) with
      | None => (with_work s2 l', Err E_FUND)
      | Some snd'' => (add_fee s2 (set_acct l' (t_from t) (add_nonce snd'')) (t_gas t) price, Ok (t_gas t))
      end
  end.

Definition finish (price : Z) (s2 : state) (t : tx) (evm : bool) : state * res Z :=
  if evm then
    match evm_execute (work s2) t with
    | Ok (l', gas) => (add_fee s2 l' gas price, Ok gas)
    | Err e => (s2, Err e)
    | Panic p => (s2, Panic p)
    end
  else
    match exec_native s2 t with
    | Err e => (s2, Err e)
    | Panic p => (s2, Panic p)
    | Ok l' => post_native price s2 t l'
    end.

Lemma deliver_eq s t :
  deliver s t =
  match accts (work s) !! t_from t with
  | None => (s, Err E_NOACCT)
  | Some sender =>
      let s1 := pre s t in
      match common_validation0 (gparams s) t with Some e => (s1, Err e) | None =>
      match common_validation1 sender t with Some e => (s1, Err e) | None =>
      match validated s1 (receiver_of s t) t with
      | Err e => (s1, Err e)
      | Panic p => (s1, Panic p)
      | Ok lim' => finish (g_gasPrice (gparams s)) (with_lim s1 lim') t (evm_path s t)
      end end end
  end.
Proof.
  unfold deliver, evm_path, pre, receiver_of, bump.
  destruct (accts (work s) !! t_from t) as [sender|]; [|reflexivity].
  cbn [work with_bctx].
  destruct (find_or_new (work s) (t_to t)) as [l0 receiver].
  cbn [fst snd].
  reflexivity.
Qed.

(* ------------------------------------------------------------------ observational equality *)
Lemma same_obs_refl l : same_obs l l.
Proof. unfold same_obs. repeat split. Qed.

Lemma same_obs_trans l1 l2 l3 : same_obs l1 l2 → same_obs l2 l3 → same_obs l1 l3.
Proof.
  unfold same_obs. intros (A1 & B1 & C1 & D1 & E1 & F1 & G1) (A2 & B2 & C2 & D2 & E2 & F2 & G2).
  repeat split; try congruence.
Qed.

Lemma same_ctl_refl s : same_ctl s s.
Proof. unfold same_ctl. repeat split. Qed.

(* ------------------------------------------------------------------ find_or_new *)
Lemma find_or_new_recv l a : (find_or_new l a).2 = acct_of l a.
Proof. unfold find_or_new, acct_of. destruct (accts l !! a); reflexivity. Qed.

Lemma find_or_new_lookup l a : accts (find_or_new l a).1 !! a = Some (find_or_new l a).2.
Proof.
  unfold find_or_new. destruct (accts l !! a) eqn:E; cbn; [exact E|apply lookup_insert].
Qed.

Lemma find_or_new_keeps l a b x : accts l !! b = Some x → accts (find_or_new l a).1 !! b = Some x.
Proof.
  intros H. unfold find_or_new. destruct (accts l !! a) eqn:E; cbn; [exact H|].
  rewrite lookup_insert_ne; [exact H|]. intros ->. congruence.
Qed.

Lemma find_or_new_acct_of l a b : acct_of (find_or_new l a).1 b = acct_of l b.
Proof.
  unfold find_or_new, acct_of. destruct (accts l !! a) eqn:E; cbn; [reflexivity|].
  destruct (decide (a = b)) as [->|Hne].
  - rewrite lookup_insert, E. reflexivity.
  - rewrite lookup_insert_ne by exact Hne. reflexivity.
Qed.

Lemma find_or_new_obs l a : same_obs l (find_or_new l a).1.
Proof.
  unfold same_obs. split; [intros b; symmetry; apply find_or_new_acct_of|].
  unfold find_or_new. destruct (accts l !! a); cbn; repeat split.
Qed.

Lemma find_or_new_dels l a : dels (find_or_new l a).1 = dels l.
Proof. unfold find_or_new. destruct (accts l !! a); reflexivity. Qed.
Lemma find_or_new_rewards l a : rewards (find_or_new l a).1 = rewards l.
Proof. unfold find_or_new. destruct (accts l !! a); reflexivity. Qed.

Lemma pre_obs s t : same_obs (work s) (work (pre s t)).
Proof. apply find_or_new_obs. Qed.
Lemma pre_ctl s t : same_ctl s (pre s t).
Proof. unfold same_ctl. repeat split. Qed.
Lemma pre_lim_ctl s t : same_ctl s (with_lim (pre s t) (lim (pre s t))).
Proof. unfold same_ctl. repeat split. Qed.
Lemma pre_sender s t x : accts (work s) !! t_from t = Some x → accts (work (pre s t)) !! t_from t = Some x.
Proof. apply find_or_new_keeps. Qed.

(* ------------------------------------------------------------------ what passing validation means *)
Lemma cv0_none g t :
  common_validation0 g t = None →
  t_from_ok t = true ∧ t_to_ok t = true ∧ t_amount t < two255 ∧ t_gas t ≤ maxInt64 ∧
  t_price t < two255 ∧ t_price t = g_gasPrice g ∧
  mul256 (g_minTrxGas g) (g_gasPrice g) ≤ fee_of t ∧ t_sigok t = true.
Proof.
  unfold common_validation0. intros H.
  destruct (t_from_ok t); [|discriminate]. destruct (t_to_ok t); [|discriminate]. cbn [negb] in H.
  destruct (sign256 (t_amount t) <? 0) eqn:Ea; [discriminate|].
  destruct (maxInt64 <? t_gas t) eqn:Eg; [discriminate|].
  destruct (sign256 (t_price t) <? 0) eqn:Ep; [discriminate|]. cbn [orb] in H.
  destruct (t_price t =? g_gasPrice g) eqn:Epr; [|discriminate]. cbn [negb] in H.
  destruct (fee_of t <? mul256 (g_minTrxGas g) (g_gasPrice g)) eqn:Ef; [discriminate|].
  destruct (t_sigok t); [|discriminate].
  apply sign256_nonneg in Ea, Ep. apply Z.ltb_ge in Eg, Ef. apply Z.eqb_eq in Epr.
  repeat split; assumption.
Qed.

Lemma cv1_none sender t :
  common_validation1 sender t = None →
  add256 (fee_of t) (t_amount t) ≤ a_bal sender ∧ a_nonce sender = t_nonce t.
Proof.
  unfold common_validation1. intros H.
  destruct (a_bal sender <? add256 (fee_of t) (t_amount t)) eqn:Eb; [discriminate|].
  destruct (a_nonce sender =? t_nonce t) eqn:En; [|discriminate].
  apply Z.ltb_ge in Eb. apply Z.eqb_eq in En. split; assumption.
Qed.

(* a delivery that did not fail in NewTrxContext went through both common validations *)
Lemma deliver_ok_validated s t s' g :
  deliver s t = (s', Ok g) →
  common_validation0 (gparams s) t = None ∧
  ∃ sender, accts (work s) !! t_from t = Some sender ∧ common_validation1 sender t = None.
Proof.
  rewrite deliver_eq. intros H.
  destruct (accts (work s) !! t_from t) as [sender|]; [|discriminate]. cbv zeta in H.
  destruct (common_validation0 (gparams s) t); [discriminate|].
  destruct (common_validation1 sender t) eqn:E1; [discriminate|].
  split; [reflexivity|]. exists sender. split; [reflexivity|exact E1].
Qed.

Corollary deliver_ok_sigok s t s' g : deliver s t = (s', Ok g) → t_sigok t = true.
Proof. intros H. apply deliver_ok_validated in H as [H0 _]. apply cv0_none in H0. tauto. Qed.

Corollary deliver_ok_price s t s' g : deliver s t = (s', Ok g) → t_price t = g_gasPrice (gparams s).
Proof. intros H. apply deliver_ok_validated in H as [H0 _]. apply cv0_none in H0. tauto. Qed.

Corollary deliver_ok_sender s t s' g :
  deliver s t = (s', Ok g) → ∃ sender, accts (work s) !! t_from t = Some sender.
Proof. intros H. apply deliver_ok_validated in H as (_ & x & Hx & _). exists x. exact Hx. Qed.

Corollary deliver_ok_nonce s t s' g : deliver s t = (s', Ok g) → nonce_of (work s) (t_from t) = t_nonce t.
Proof.
  intros H. apply deliver_ok_validated in H as (_ & x & Hx & H1). apply cv1_none in H1 as [_ Hn].
  unfold nonce_of, acct_of. rewrite Hx. exact Hn.
Qed.

Corollary deliver_ok_funds s t s' g :
  deliver s t = (s', Ok g) → add256 (fee_of t) (t_amount t) ≤ bal_of (work s) (t_from t).
Proof.
  intros H. apply deliver_ok_validated in H as (_ & x & Hx & H1). apply cv1_none in H1 as [Hb _].
  unfold bal_of, acct_of. rewrite Hx. exact Hb.
Qed.

Corollary deliver_ok_addrs s t s' g : deliver s t = (s', Ok g) → t_from_ok t = true ∧ t_to_ok t = true.
Proof. intros H. apply deliver_ok_validated in H as [H0 _]. apply cv0_none in H0. tauto. Qed.

(* ------------------------------------------------------------------ transaction types *)
Ltac unfold_ty :=
  unfold TRX_TRANSFER, TRX_STAKING, TRX_UNSTAKING, TRX_PROPOSAL, TRX_VOTING, TRX_CONTRACT,
         TRX_SETDOC, TRX_WITHDRAW in *.

(* case analysis on [t_type t =? c] that records the (dis)equality *)
Ltac ty_case t c E :=
  destruct (Z.eqb_spec (t_type t) c) as [E|E].

Lemma stake_validate_withdraw s1 t lim' :
  t_type t ≠ TRX_STAKING → t_type t ≠ TRX_UNSTAKING → stake_validate s1 t = Ok lim' →
  lim' = lim s1 ∧ t_amount t = 0 ∧
  ∃ req r, t_payload t = PWithdraw req ∧ rewards (work s1) !! t_from t = Some r ∧ req ≤ r_cumulated r.
Proof.
  intros N2 N3 H. unfold stake_validate in H.
  apply Z.eqb_neq in N2, N3. rewrite N2, N3 in H.
  destruct (t_amount t =? 0) eqn:Ea; [|discriminate]. cbn [negb] in H.
  destruct (t_payload t) as [| | req | | | |] eqn:Ep; try discriminate.
  destruct (rewards (work s1) !! t_from t) as [r|] eqn:Er; [|discriminate].
  destruct (r_cumulated r <? req) eqn:Ec; [discriminate|].
  injection H as <-. apply Z.eqb_eq in Ea. apply Z.ltb_ge in Ec.
  split; [reflexivity|]. split; [exact Ea|]. exists req, r. repeat split; assumption.
Qed.

(* only staking and unstaking can hand back a changed limiter *)
Lemma validated_lim s1 recv t lim' :
  validated s1 recv t = Ok lim' → t_type t ≠ TRX_STAKING → t_type t ≠ TRX_UNSTAKING → lim' = lim s1.
Proof.
  unfold validated. intros H N2 N3.
  destruct ((t_type t =? TRX_PROPOSAL) || (t_type t =? TRX_VOTING)).
  { destruct (gov_validate s1 t); [discriminate|]. injection H as <-. reflexivity. }
  destruct ((t_type t =? TRX_TRANSFER) || (t_type t =? TRX_SETDOC)).
  { destruct (acct_validate t); [discriminate|]. injection H as <-. reflexivity. }
  destruct ((t_type t =? TRX_STAKING) || (t_type t =? TRX_UNSTAKING) || (t_type t =? TRX_WITHDRAW)).
  { apply stake_validate_withdraw in H; tauto. }
  destruct (t_type t =? TRX_CONTRACT); [|discriminate].
  destruct (evm_validate recv t); [discriminate|]. injection H as <-. reflexivity.
Qed.

(* for the three staking types, [validated] is [stake_validate] *)
Lemma validated_stake s1 recv t :
  t_type t = TRX_STAKING ∨ t_type t = TRX_UNSTAKING ∨ t_type t = TRX_WITHDRAW →
  validated s1 recv t = stake_validate s1 t.
Proof.
  unfold validated. intros [E|[E|E]]; rewrite E; reflexivity.
Qed.

(* the seven transaction types that can reach the native execution path *)
Definition native_type (t : tx) : Prop :=
  t_type t = TRX_TRANSFER ∨ t_type t = TRX_STAKING ∨ t_type t = TRX_UNSTAKING ∨ t_type t = TRX_PROPOSAL ∨
  t_type t = TRX_VOTING ∨ t_type t = TRX_SETDOC ∨ t_type t = TRX_WITHDRAW.

(* the type of a validated transaction *)
Lemma validated_type s1 recv t lim' :
  validated s1 recv t = Ok lim' →
  t_type t = TRX_TRANSFER ∨ t_type t = TRX_STAKING ∨ t_type t = TRX_UNSTAKING ∨ t_type t = TRX_PROPOSAL ∨
  t_type t = TRX_VOTING ∨ t_type t = TRX_CONTRACT ∨ t_type t = TRX_SETDOC ∨ t_type t = TRX_WITHDRAW.
Proof.
  unfold validated. intros H.
  ty_case t TRX_PROPOSAL E4; [tauto|]. ty_case t TRX_VOTING E5; [tauto|].
  ty_case t TRX_TRANSFER E1; [tauto|]. ty_case t TRX_SETDOC E7; [tauto|].
  ty_case t TRX_STAKING E2; [tauto|]. ty_case t TRX_UNSTAKING E3; [tauto|].
  ty_case t TRX_WITHDRAW E8; [tauto|]. ty_case t TRX_CONTRACT E6; [tauto|].
  cbn in H. discriminate.
Qed.

(* ------------------------------------------------------------------ execution and the sender account *)
Section exec_sender.
  Variables (t : tx) (sender : account).
  Hypothesis HA : 0 ≤ t_amount t < two255.
  Hypothesis HF : 0 ≤ fee_of t < two255.
  Hypothesis HB : fee_of t + t_amount t ≤ a_bal sender < two256.

  Lemma acct_execute_sender l l' :
    accts l !! t_from t = Some sender → acct_execute l t = Ok l' →
    ∃ snd', accts l' !! t_from t = Some snd' ∧ fee_of t ≤ a_bal snd'.
  Proof.
    pose proof two256_double as H2.
    intros Hs H. unfold acct_execute in H. rewrite Hs in H.
    destruct (accts l !! t_to t) as [receiver|] eqn:Er; [|discriminate].
    destruct (t_type t =? TRX_TRANSFER).
    - unfold sub_balance in H.
      destruct (sign256 (t_amount t) <? 0); [discriminate|].
      destruct (a_bal sender <? t_amount t); [discriminate|].
      destruct (t_from t =? t_to t)%N eqn:Eft.
      + apply N.eqb_eq in Eft. unfold add_balance in H. cbn [a_bal a_nonce a_code a_name a_doc] in H.
        destruct (sign256 (t_amount t) <? 0); [discriminate|]. injection H as <-.
        eexists. split; [rewrite <- Eft; cbn; apply lookup_insert|]. cbn.
        rewrite sub256_small by lia. rewrite add256_small by lia. lia.
      + apply N.eqb_neq in Eft. unfold add_balance in H.
        destruct (sign256 (t_amount t) <? 0); [discriminate|]. injection H as <-.
        eexists. split; [cbn; rewrite lookup_insert_ne by congruence; apply lookup_insert|]. cbn.
        rewrite sub256_small by lia. lia.
    - destruct (t_payload t); try discriminate. injection H as <-.
      eexists. split; [cbn; apply lookup_insert|]. cbn. lia.
  Qed.

  Lemma gov_execute_accts s l l' : gov_execute s l t = Ok l' → accts l' = accts l.
  Proof.
    unfold gov_execute. intros H. destruct (t_type t =? TRX_PROPOSAL).
    - destruct (t_payload t); try discriminate. injection H as <-. reflexivity.
    - destruct (t_payload t) as [| | | |ph choice| |]; try discriminate.
      destruct (props l !! ph) as [p|]; [|discriminate].
      destruct (prop_vote p (t_from t) choice); [|discriminate]. injection H as <-. reflexivity.
  Qed.

  Lemma stake_execute_sender s l l' :
    accts l !! t_from t = Some sender →
    (∀ req, t_type t = TRX_WITHDRAW → t_payload t = PWithdraw req → 0 ≤ req ∧ a_bal sender + req < two256) →
    t_type t = TRX_STAKING ∨ t_type t = TRX_UNSTAKING ∨ t_type t = TRX_WITHDRAW →
    stake_execute s l t = Ok l' →
    ∃ snd', accts l' !! t_from t = Some snd' ∧ fee_of t ≤ a_bal snd'.
  Proof.
    intros Hs Hw Hty H. unfold stake_execute in H.
    ty_case t TRX_STAKING E2.
    { destruct (match dels l !! t_to t with Some d => Some d | None =>
                  if (t_from t =? t_to t)%N then Some (new_delegatee (t_from t)) else None end) as [d|];
        [|discriminate].
      rewrite Hs in H. unfold sub_balance in H.
      destruct (sign256 (t_amount t) <? 0); [discriminate|].
      destruct (a_bal sender <? t_amount t); [discriminate|]. injection H as <-.
      eexists. split; [cbn; apply lookup_insert|]. cbn. rewrite sub256_small by lia. lia. }
    ty_case t TRX_UNSTAKING E3.
    { destruct (dels l !! t_to t) as [d|]; [|discriminate].
      destruct (t_payload t) as [|hs lo| | | | |]; try discriminate.
      destruct (find_stake hs (d_stakes d)) as [s0|]; [|discriminate].
      destruct (negb (s_from s0 =? t_from t)%N); [discriminate|].
      destruct (if d_self (del_stake d hs) =? 0 then _ else _) as [d2 fr2].
      exists sender. split; [|lia].
      destruct (d_total d2 =? 0); injection H as <-; exact Hs. }
    destruct (t_payload t) as [| |req| | | |] eqn:Ep; try discriminate.
    destruct (rewards l !! t_from t) as [r|]; [|discriminate].
    destruct (r_height r >? b_height (bctx s)); [discriminate|].
    unfold acct_reward in H. cbn [accts set_rewards] in H. rewrite Hs in H. cbn [mbind option_bind] in H.
    unfold add_balance in H. destruct (sign256 req <? 0); [discriminate|].
    cbn [mbind option_bind] in H. injection H as <-.
    assert (E8 : t_type t = TRX_WITHDRAW) by tauto.
    destruct (Hw req E8 eq_refl) as [Hr0 Hr1].
    eexists. split; [cbn; apply lookup_insert|]. cbn. rewrite add256_small by lia. lia.
  Qed.

  Lemma exec_native_sender s2 l' :
    accts (work s2) !! t_from t = Some sender →
    (∀ req, t_type t = TRX_WITHDRAW → t_payload t = PWithdraw req → 0 ≤ req ∧ a_bal sender + req < two256) →
    native_type t →
    exec_native s2 t = Ok l' →
    ∃ snd', accts l' !! t_from t = Some snd' ∧ fee_of t ≤ a_bal snd'.
  Proof.
    intros Hs Hw Hty H. unfold exec_native in H.
    destruct ((t_type t =? TRX_PROPOSAL) || (t_type t =? TRX_VOTING)) eqn:Eg.
    { apply gov_execute_accts in H. exists sender. rewrite H. split; [exact Hs|lia]. }
    destruct ((t_type t =? TRX_TRANSFER) || (t_type t =? TRX_SETDOC)) eqn:Ea.
    { eapply acct_execute_sender; eassumption. }
    eapply stake_execute_sender; try eassumption.
    apply orb_false_iff in Eg as [Eg1 Eg2]. apply orb_false_iff in Ea as [Ea1 Ea2].
    apply Z.eqb_neq in Eg1, Eg2, Ea1, Ea2. unfold native_type in Hty. tauto.
  Qed.

  (* the fee debit of postRunTrx succeeds *)
  Lemma post_native_ok price s2 l' :
    accts (work s2) !! t_from t = Some sender →
    (∀ req, t_type t = TRX_WITHDRAW → t_payload t = PWithdraw req → 0 ≤ req ∧ a_bal sender + req < two256) →
    native_type t →
    exec_native s2 t = Ok l' →
    ∃ s', post_native price s2 t l' = (s', Ok (t_gas t)).
  Proof.
    intros Hs Hw Hty H. destruct (exec_native_sender _ _ Hs Hw Hty H) as (snd' & Hl & Hb).
    unfold post_native. rewrite Hl. unfold sub_balance.
    assert (Hsg : (sign256 (fee_of t) <? 0) = false) by (apply sign256_nonneg; lia).
    rewrite Hsg. assert (Hlt : (a_bal snd' <? fee_of t) = false) by (apply Z.ltb_ge; lia).
    rewrite Hlt. eexists. reflexivity.
  Qed.
End exec_sender.

(* ------------------------------------------------------------------ validated staking / unstaking cannot fail in execution *)
(* StakeCtrler.ValidateTrx may have changed the limiter; what it checked is exactly what
   exeStaking / exeUnstaking re-check, so no error can follow the change *)
Lemma staking_validated_exec_ok s1 t lim' sender :
  t_type t = TRX_STAKING →
  stake_validate s1 t = Ok lim' →
  accts (work s1) !! t_from t = Some sender →
  t_amount t < two255 → t_amount t ≤ a_bal sender →
  ∃ l', stake_execute (with_lim s1 lim') (work s1) t = Ok l'.
Proof.
  intros Ety Hv Hs Ha Hb.
  assert (Hsg : (sign256 (t_amount t) <? 0) = false) by (apply sign256_nonneg; exact Ha).
  assert (Hlt : (a_bal sender <? t_amount t) = false) by (apply Z.ltb_ge; exact Hb).
  unfold stake_execute. rewrite Ety. cbn [Z.eqb TRX_STAKING Pos.eqb].
  rewrite Hs. unfold sub_balance. rewrite Hsg, Hlt.
  destruct (dels (work s1) !! t_to t) as [d|] eqn:Ed; [eexists; reflexivity|].
  destruct (t_from t =? t_to t)%N eqn:Eft; [eexists; reflexivity|].
  (* a delegation to a missing delegatee was refused by validation *)
  exfalso. unfold stake_validate in Hv. rewrite Ety in Hv. cbn [Z.eqb TRX_STAKING Pos.eqb] in Hv.
  destruct (t_amount t / amountPerPower <=? 0); [discriminate|].
  destruct (negb (t_amount t mod amountPerPower =? 0)); [discriminate|].
  destruct (amount_to_power (t_amount t)) as [txp|]; [|discriminate].
  rewrite Eft, Ed in Hv. discriminate.
Qed.

Lemma unstaking_validated_exec_ok s1 t lim' :
  t_type t = TRX_UNSTAKING →
  stake_validate s1 t = Ok lim' →
  ∃ l', stake_execute (with_lim s1 lim') (work s1) t = Ok l'.
Proof.
  intros Ety Hv. unfold stake_validate in Hv. unfold stake_execute.
  rewrite Ety in *. cbn [Z.eqb TRX_STAKING TRX_UNSTAKING Pos.eqb] in *.
  destruct (dels (work s1) !! t_to t) as [d|]; [|discriminate].
  destruct (t_payload t) as [|hs lo| | | | |]; try discriminate.
  destruct (negb lo); [discriminate|].
  destruct (find_stake hs (d_stakes d)) as [s0|]; [|discriminate].
  destruct (negb (s_from s0 =? t_from t)%N); [discriminate|].
  destruct (if d_self (del_stake d hs) =? 0 then _ else _) as [d2 fr2].
  destruct (d_total d2 =? 0); eexists; reflexivity.
Qed.

Lemma validated_native s1 recv t lim' :
  validated s1 recv t = Ok lim' → t_type t ≠ TRX_CONTRACT → native_type t.
Proof. intros H N. apply validated_type in H. unfold native_type. tauto. Qed.

(* ------------------------------------------------------------------ C05 *)
(* the hypotheses, in their minimal form *)
Definition sender_bal_ok (s : state) (t : tx) : Prop :=
  ∀ x, accts (work s) !! t_from t = Some x → a_bal x < two256.
(* paying out the whole reward cannot wrap the balance *)
Definition reward_headroom (l : ledgers) (a : addr) : Prop :=
  ∀ x r, accts l !! a = Some x → rewards l !! a = Some r → a_bal x + r_cumulated r < two256.
(* the withdraw request is a uint256 *)
Definition payload_wf (t : tx) : Prop :=
  match t_payload t with PWithdraw req => 0 ≤ req < two256 | _ => True end.
Definition withdraw_ok (s : state) (t : tx) : Prop :=
  t_type t = TRX_WITHDRAW → payload_wf t ∧ reward_headroom (work s) (t_from t).

Section validated_facts.
  Variables (s : state) (t : tx) (sender : account) (lim' : limiter).
  Hypothesis Hamt : 0 ≤ t_amount t.
  Hypothesis Hgas : 0 ≤ t_gas t.
  Hypothesis Hprice : 0 ≤ g_gasPrice (gparams s) < 2 ^ 192.
  Hypothesis Hbal : sender_bal_ok s t.
  Hypothesis Hwd : withdraw_ok s t.
  Hypothesis Hs : accts (work s) !! t_from t = Some sender.
  Hypothesis Hv0 : common_validation0 (gparams s) t = None.
  Hypothesis Hv1 : common_validation1 sender t = None.
  Hypothesis Hv : validated (pre s t) (receiver_of s t) t = Ok lim'.

  Lemma vf_amount : 0 ≤ t_amount t < two255.
  Proof. apply cv0_none in Hv0. tauto. Qed.

  Lemma vf_fee : 0 ≤ fee_of t < two255.
  Proof.
    apply cv0_none in Hv0 as (_ & _ & _ & Hg & _ & Hp & _).
    pose proof two256_double. pose proof two255_pos.
    assert (Hb : 0 ≤ t_price t * t_gas t < two255) by (apply fee_bound; lia).
    unfold fee_of. rewrite mul256_small by lia. exact Hb.
  Qed.

  Lemma vf_bal : fee_of t + t_amount t ≤ a_bal sender < two256.
  Proof.
    pose proof vf_amount. pose proof vf_fee. pose proof two256_double.
    apply cv1_none in Hv1 as [Hb _]. rewrite add256_small in Hb by lia.
    split; [exact Hb|]. apply Hbal. exact Hs.
  Qed.

  Lemma vf_withdraw req :
    t_type t = TRX_WITHDRAW → t_payload t = PWithdraw req → 0 ≤ req ∧ a_bal sender + req < two256.
  Proof.
    intros E8 Ep. destruct (Hwd E8) as [Hpw Hh].
    rewrite (validated_stake _ _ _ (or_intror (or_intror E8))) in Hv.
    apply stake_validate_withdraw in Hv as (_ & _ & req' & r & Ep' & Hr & Hle);
      [|rewrite E8; discriminate|rewrite E8; discriminate].
    rewrite Ep in Ep'. injection Ep' as <-.
    unfold payload_wf in Hpw. rewrite Ep in Hpw.
    unfold pre in Hr. cbn [work with_work] in Hr. rewrite find_or_new_rewards in Hr.
    specialize (Hh _ _ Hs Hr). lia.
  Qed.

  (* once validation has passed, the native path cannot fail in postRunTrx *)
  Lemma finish_native_err price s' e :
    t_type t ≠ TRX_CONTRACT →
    finish price (with_lim (pre s t) lim') t false = (s', Err e) →
    s' = with_lim (pre s t) lim' ∧ exec_native (with_lim (pre s t) lim') t = Err e.
  Proof.
    intros Hn H. unfold finish in H.
    destruct (exec_native (with_lim (pre s t) lim') t) as [l'|e'|p] eqn:Ex.
    - exfalso.
      destruct (post_native_ok t sender vf_amount vf_fee vf_bal price (with_lim (pre s t) lim') l')
        as [s'' Hp]; [apply pre_sender; exact Hs|exact vf_withdraw|eapply validated_native; eassumption|exact Ex|].
      rewrite Hp in H. discriminate.
    - injection H as <- <-. split; reflexivity.
    - discriminate.
  Qed.

  (* ... nor in execution when the limiter has been changed *)
  Lemma validated_exec_lim e :
    exec_native (with_lim (pre s t) lim') t = Err e → lim' = lim (pre s t).
  Proof.
    intros Hx.
    ty_case t TRX_STAKING E2.
    { exfalso. rewrite (validated_stake _ _ _ (or_introl E2)) in Hv.
      pose proof vf_amount. pose proof vf_fee. pose proof vf_bal.
      destruct (staking_validated_exec_ok _ _ _ sender E2 Hv) as [l' Hl];
        [apply pre_sender; exact Hs|lia|lia|].
      unfold exec_native in Hx. rewrite E2 in Hx. cbn in Hx. cbn in Hl. rewrite Hl in Hx. discriminate. }
    ty_case t TRX_UNSTAKING E3.
    { exfalso. rewrite (validated_stake _ _ _ (or_intror (or_introl E3))) in Hv.
      destruct (unstaking_validated_exec_ok _ _ _ E3 Hv) as [l' Hl].
      unfold exec_native in Hx. rewrite E3 in Hx. cbn in Hx. cbn in Hl. rewrite Hl in Hx. discriminate. }
    eapply validated_lim; eassumption.
  Qed.
End validated_facts.

(* ------------------------------------------------------------------ the EVM path *)
(* a failed EVM execution returns before anything is written *)
Lemma finish_evm_not_ok price s2 t s' r :
  finish price s2 t true = (s', r) → (∀ g, r ≠ Ok g) → s' = s2.
Proof.
  unfold finish. intros H Hr.
  destruct (evm_execute (work s2) t) as [[l' gas]|e'|p].
  - injection H as <- <-. exfalso. eapply Hr. reflexivity.
  - injection H as <- _. reflexivity.
  - injection H as <- _. reflexivity.
Qed.

Lemma evm_execute_no_panic l t p : evm_execute l t ≠ Panic p.
Proof.
  unfold evm_execute. destruct (t_evm t) as [e|]; [|discriminate].
  destruct (negb (e_ok e)); discriminate.
Qed.

Lemma evm_path_type s t :
  evm_path s t = true → t_type t = TRX_CONTRACT ∨ t_type t = TRX_TRANSFER.
Proof.
  unfold evm_path. intros H. apply orb_true_iff in H as [H|H].
  - left. apply Z.eqb_eq. exact H.
  - right. apply andb_true_iff in H as [H _]. apply Z.eqb_eq. exact H.
Qed.

Lemma evm_path_false_type s t : evm_path s t = false → t_type t ≠ TRX_CONTRACT.
Proof.
  unfold evm_path. intros H. apply orb_false_iff in H as [H _]. apply Z.eqb_neq. exact H.
Qed.

Lemma evm_path_lim s t recv lim' :
  evm_path s t = true → validated (pre s t) recv t = Ok lim' → lim' = lim (pre s t).
Proof.
  intros Hp Hv. apply evm_path_type in Hp.
  eapply validated_lim; [exact Hv| |]; destruct Hp as [E|E]; rewrite E; discriminate.
Qed.

(* ------------------------------------------------------------------ C05, main statement *)
(* Intended statement:
     deliver s t = (s', Err e) → same_obs (work s) (work s') ∧ same_ctl s s'
   It needs the five hypotheses below; each is necessary (see the refutations further down). *)
Theorem deliver_fail_no_effect s t s' e :
  0 ≤ t_amount t →                         (* tx_wf *)
  0 ≤ t_gas t →                            (* tx_wf *)
  0 ≤ g_gasPrice (gparams s) < 2 ^ 192 →   (* params_ok *)
  sender_bal_ok s t →                      (* ranges_ok *)
  withdraw_ok s t →
  deliver s t = (s', Err e) →
  same_obs (work s) (work s') ∧ same_ctl s s'.
Proof.
  intros Hamt Hgas Hprice Hbal Hwd H. rewrite deliver_eq in H.
  destruct (accts (work s) !! t_from t) as [sender|] eqn:Hs.
  2:{ injection H as <- _. split; [apply same_obs_refl|apply same_ctl_refl]. }
  cbv zeta in H.
  destruct (common_validation0 (gparams s) t) as [e0|] eqn:Hv0.
  { injection H as <- _. split; [apply pre_obs|apply pre_ctl]. }
  destruct (common_validation1 sender t) as [e1|] eqn:Hv1.
  { injection H as <- _. split; [apply pre_obs|apply pre_ctl]. }
  destruct (validated (pre s t) (receiver_of s t) t) as [lim'|ev|pv] eqn:Hv.
  2:{ injection H as <- _. split; [apply pre_obs|apply pre_ctl]. }
  2:{ discriminate. }
  destruct (evm_path s t) eqn:Hp.
  - (* EVM path: nothing was written, and the limiter is the old one *)
    apply finish_evm_not_ok in H; [|discriminate]. subst s'.
    rewrite (evm_path_lim _ _ _ _ Hp Hv). split; [apply pre_obs|apply pre_lim_ctl].
  - (* native path *)
    apply evm_path_false_type in Hp.
    destruct (finish_native_err s t sender lim' Hamt Hgas Hprice Hbal Hwd Hs Hv0 Hv1 Hv _ _ _ Hp H)
      as [-> Hx].
    rewrite (validated_exec_lim s t sender lim' Hamt Hgas Hprice Hbal Hs Hv0 Hv1 Hv _ Hx).
    split; [apply pre_obs|apply pre_lim_ctl].
Qed.
Print Assumptions deliver_fail_no_effect.

(* the same with the shared vocabulary of SpecProps *)
Corollary deliver_fail_no_effect_wf s t s' e :
  tx_wf t → payload_wf t → params_ok (gparams s) → ranges_ok (work s) →
  reward_headroom (work s) (t_from t) →
  deliver s t = (s', Err e) →
  same_obs (work s) (work s') ∧ same_ctl s s'.
Proof.
  intros (Ha & _ & Hg & _) Hpw (Hp & _) (Hr & _) Hh H.
  eapply deliver_fail_no_effect; try eassumption; try lia.
  - intros x Hx. apply Hr in Hx. lia.
  - intros _. split; assumption.
Qed.
Print Assumptions deliver_fail_no_effect_wf.

(* "Later transactions in the same block observe the unchanged state": what the next delivery
   sees differs from what it would have seen only in the tx counter and possibly an empty
   receiver account, both outside same_obs / same_ctl. *)

(* ------------------------------------------------------------------ C05 for panics (secondary) *)
Lemma exec_native_panic_type s2 t p :
  exec_native s2 t = Panic p → t_type t ≠ TRX_STAKING ∧ t_type t ≠ TRX_UNSTAKING.
Proof.
  unfold exec_native. intros H.
  ty_case t TRX_STAKING E2.
  { exfalso. rewrite E2 in H. cbn [Z.eqb orb TRX_STAKING TRX_PROPOSAL TRX_VOTING TRX_TRANSFER TRX_SETDOC Pos.eqb] in H.
    unfold stake_execute in H. rewrite E2 in H. cbn [Z.eqb TRX_STAKING Pos.eqb] in H.
    destruct (match dels (work s2) !! t_to t with Some d => Some d | None => _ end); [|discriminate].
    destruct (accts (work s2) !! t_from t) as [x|]; [|discriminate].
    destruct (sub_balance x (t_amount t)); discriminate. }
  ty_case t TRX_UNSTAKING E3.
  { exfalso. rewrite E3 in H. cbn [Z.eqb orb TRX_UNSTAKING TRX_PROPOSAL TRX_VOTING TRX_TRANSFER TRX_SETDOC Pos.eqb] in H.
    unfold stake_execute in H. rewrite E3 in H. cbn [Z.eqb TRX_STAKING TRX_UNSTAKING Pos.eqb] in H.
    destruct (dels (work s2) !! t_to t) as [d|]; [|discriminate].
    destruct (t_payload t) as [|hs lo| | | | |]; try discriminate.
    destruct (find_stake hs (d_stakes d)) as [s0|]; [|discriminate].
    destruct (negb (s_from s0 =? t_from t)%N); [discriminate|].
    destruct (if d_self (del_stake d hs) =? 0 then _ else _) as [d2 fr2].
    destruct (d_total d2 =? 0); discriminate. }
  split; assumption.
Qed.

(* a panicking delivery (the node aborts) has written nothing either; no hypotheses *)
Theorem deliver_panic_no_effect s t s' p :
  deliver s t = (s', Panic p) → same_obs (work s) (work s') ∧ same_ctl s s'.
Proof.
  intros H. rewrite deliver_eq in H.
  destruct (accts (work s) !! t_from t) as [sender|] eqn:Hs; [|discriminate].
  cbv zeta in H.
  destruct (common_validation0 (gparams s) t) as [e0|]; [discriminate|].
  destruct (common_validation1 sender t) as [e1|]; [discriminate|].
  destruct (validated (pre s t) (receiver_of s t) t) as [lim'|ev|pv] eqn:Hv.
  2:{ discriminate. }
  2:{ injection H as <- _. split; [apply pre_obs|apply pre_ctl]. }
  destruct (evm_path s t) eqn:Hp.
  - apply finish_evm_not_ok in H; [|discriminate]. subst s'.
    rewrite (evm_path_lim _ _ _ _ Hp Hv). split; [apply pre_obs|apply pre_lim_ctl].
  - unfold finish in H.
    destruct (exec_native (with_lim (pre s t) lim') t) as [l'|e'|p'] eqn:Hx.
    + exfalso. unfold post_native in H.
      destruct (accts l' !! t_from t) as [x|]; [|discriminate].
      destruct (sub_balance x (fee_of t)); discriminate.
    + discriminate.
    + injection H as <- _. apply exec_native_panic_type in Hx as [N2 N3].
      rewrite (validated_lim _ _ _ _ Hv N2 N3). split; [apply pre_obs|apply pre_lim_ctl].
Qed.
Print Assumptions deliver_panic_no_effect.

(* ------------------------------------------------------------------ concrete states *)
Definition pr0 (price : Z) : params := {|
  g_version := 1; g_maxValidatorCnt := 21; g_minValidatorStake := 10 * amountPerPower;
  g_minDelegatorStake := 0; g_rewardPerPower := 1000; g_lazyRewardBlocks := 10; g_lazyApplyingBlocks := 10;
  g_gasPrice := price; g_minTrxGas := 10; g_maxTrxGas := 1000000; g_maxBlockGas := 10000000;
  g_minVotingPeriodBlocks := 1; g_maxVotingPeriodBlocks := 100; g_minSelfStakeRatio := 50;
  g_maxUpdatableStakeRatio := 30; g_maxIndividualStakeRatio := 100; g_slashRatio := 50;
  g_signedBlocksWindow := 100; g_minSignedBlocks := 10 |}.

Ltac zc := vm_compute; repeat split; try reflexivity; try discriminate.

Lemma pr0_ok : params_ok (pr0 10).
Proof. zc. Qed.

(* a plain transaction *)
Definition mk_tx (ty : Z) (from to : addr) (amount price gas nonce : Z) (pl : payload) : tx := {|
  t_type := ty; t_from := from; t_to := to; t_from_ok := true; t_to_ok := true; t_amount := amount;
  t_price := price; t_gas := gas; t_nonce := nonce; t_payload := pl; t_hash := 77%N; t_sigok := true;
  t_evm := None |}.

(* genesis: two holders, one validator; then the first block is begun *)
Definition gen0 : genesis := {|
  gen_params := pr0 10;
  gen_holders := [(1%N, 1000 * amountPerPower); (2%N, 500 * amountPerPower)];
  gen_validators := [(1%N, 100)] |}.
Definition st0 : state :=
  (begin_block (init_chain gen0) {| h_height := 1; h_proposer := Some 1%N; h_votes := []; h_evidence := [] |}).1.

(* three failing deliveries in st0: a replayed nonce, a delegation to a missing delegatee, a
   transfer that cannot pay amount + fee *)
Definition tx_bad_nonce := mk_tx TRX_TRANSFER 1%N 3%N 5 10 100 7 PNone.
Definition tx_bad_deleg := mk_tx TRX_STAKING 2%N 3%N amountPerPower 10 100 0 PNone.
Definition tx_bad_fund := mk_tx TRX_TRANSFER 2%N 1%N (500 * amountPerPower) 10 100 0 PNone.

Lemma st0_hyps t :
  t_from t = 1%N ∨ t_from t = 2%N → t_type t ≠ TRX_WITHDRAW →
  0 ≤ g_gasPrice (gparams st0) < 2 ^ 192 ∧ sender_bal_ok st0 t ∧ withdraw_ok st0 t.
Proof.
  intros Hf Hty. split; [zc|]. split.
  - intros x Hx. destruct Hf as [Hf|Hf]; rewrite Hf in Hx; vm_compute in Hx; injection Hx as <-; reflexivity.
  - intros E. contradiction.
Qed.

Example deliver_fail_no_effect_ex :
  (deliver st0 tx_bad_nonce).2 = Err E_NONCE ∧
  (deliver st0 tx_bad_deleg).2 = Err E_NODELEGATEE ∧
  (deliver st0 tx_bad_fund).2 = Err E_FUND ∧
  ∀ t, t ∈ [tx_bad_nonce; tx_bad_deleg; tx_bad_fund] →
       same_obs (work st0) (work (deliver st0 t).1) ∧ same_ctl st0 (deliver st0 t).1.
Proof.
  split; [vm_compute; reflexivity|]. split; [vm_compute; reflexivity|]. split; [vm_compute; reflexivity|].
  intros t Ht.
  assert (He : ∃ e, deliver st0 t = ((deliver st0 t).1, Err e)).
  { apply elem_of_cons in Ht as [->|Ht]; [eexists; vm_compute; reflexivity|].
    apply elem_of_cons in Ht as [->|Ht]; [eexists; vm_compute; reflexivity|].
    apply elem_of_list_singleton in Ht as ->. eexists; vm_compute; reflexivity. }
  destruct He as [e He].
  assert (Hh : (t_from t = 1%N ∨ t_from t = 2%N) ∧ t_type t ≠ TRX_WITHDRAW ∧ 0 ≤ t_amount t ∧ 0 ≤ t_gas t).
  { apply elem_of_cons in Ht as [->|Ht]; [zc; auto|].
    apply elem_of_cons in Ht as [->|Ht]; [zc; auto|].
    apply elem_of_list_singleton in Ht as ->. zc; auto. }
  destruct Hh as (Hf & Hty & Ha & Hg). destruct (st0_hyps t Hf Hty) as (Hp & Hb & Hw).
  exact (deliver_fail_no_effect _ _ _ _ Ha Hg Hp Hb Hw He).
Qed.

(* ------------------------------------------------------------------ every hypothesis is needed *)
(* a one-account state with a given gas price, balance and reward ledger *)
Definition mk_state (price bal : Z) (rw : gmap addr reward) : state := {|
  committed := [];
  work := {| accts := {[ 1%N := {| a_nonce := 0; a_bal := bal; a_code := false; a_name := 0%N; a_doc := 0%N |} ]};
             dels := ∅; frozen := ∅; rewards := rw; props := ∅; fprops := ∅; lparams := pr0 price |};
  gparams := pr0 price; newparams := None; alldels := []; lastvals := []; lim := limiter_reset [] (pr0 price);
  bctx := {| b_height := 1; b_proposer := None; b_feesum := 0; b_txs := 0 |}; last_height := 0 |}.

Lemma mk_state_ranges price bal rw :
  0 ≤ bal < two256 → (∀ a r, rw !! a = Some r → 0 ≤ r_cumulated r < two256) →
  ranges_ok (work (mk_state price bal rw)).
Proof.
  intros Hb Hr. pose proof two64_pos. split; [|split].
  - intros a x Hx. cbn in Hx. apply lookup_singleton_Some in Hx as [_ <-]. cbn. lia.
  - intros s Hs. unfold bonded_stakes, frozen_stakes in Hs. cbn in Hs.
    rewrite !map_to_list_empty in Hs. cbn in Hs. apply elem_of_nil in Hs. contradiction.
  - exact Hr.
Qed.

Ltac not_same_obs a :=
  let H := fresh in intros [H _]; specialize (H a); vm_compute in H; discriminate.

(* (a) gas price beyond 2^192: the fee has bit 255 set, validation lets it through, the transfer
   is carried out and the fee debit is then refused (SubBalance rejects "negative" amounts) *)
Theorem deliver_fail_no_effect_refuted_price :
  ∃ s t s' e, tx_wf t ∧ payload_wf t ∧ ranges_ok (work s) ∧ reward_headroom (work s) (t_from t) ∧
    0 ≤ g_gasPrice (gparams s) < two255 ∧
    deliver s t = (s', Err e) ∧ ¬ same_obs (work s) (work s').
Proof.
  pose (s := mk_state (2 ^ 254) (2 ^ 255 + 1) ∅).
  pose (t := mk_tx TRX_TRANSFER 1%N 2%N 1 (2 ^ 254) 2 0 PNone).
  exists s, t, (deliver s t).1, E_FUND.
  split; [zc|]. split; [exact I|]. split; [apply mk_state_ranges; [zc|intros a r Hr; rewrite lookup_empty in Hr; discriminate]|].
  split; [intros x r _ Hr; cbn in Hr; rewrite lookup_empty in Hr; discriminate|].
  split; [zc|]. split; [vm_compute; reflexivity|]. not_same_obs 1%N.
Qed.

(* (b) no head-room for the reward: the pay-out wraps the balance below the fee *)
Theorem deliver_fail_no_effect_refuted_headroom :
  ∃ s t s' e, tx_wf t ∧ payload_wf t ∧ params_ok (gparams s) ∧ ranges_ok (work s) ∧
    deliver s t = (s', Err e) ∧ ¬ same_obs (work s) (work s').
Proof.
  pose (rw := {| r_issued := 5; r_withdrawn := 0; r_slashed := 0; r_cumulated := 5; r_height := 0 |}).
  pose (s := mk_state 10 (2 ^ 256 - 1) {[ 1%N := rw ]}).
  pose (t := mk_tx TRX_WITHDRAW 1%N 0%N 0 10 10 0 (PWithdraw 5)).
  exists s, t, (deliver s t).1, E_FUND.
  split; [zc|]. split; [zc|]. split; [exact pr0_ok|].
  split; [apply mk_state_ranges; [zc|intros a r Hr; apply lookup_singleton_Some in Hr as [_ <-]; zc]|].
  split; [vm_compute; reflexivity|]. not_same_obs 1%N.
Qed.

(* (c)-(e): values outside the Go types (a balance of 2^256 or more, a negative amount, a negative
   gas) make the model's modular arithmetic misbehave in the same way; they show that the three
   range hypotheses cannot simply be dropped from the statement about the model *)
Ltac sender_ok := let x := fresh in let H := fresh in
  intros x H; vm_compute in H; injection H as <-; reflexivity.
Ltac not_withdraw := let E := fresh in intros E; vm_compute in E; discriminate.

Theorem deliver_fail_no_effect_refuted_balance :
  ∃ s t s' e, 0 ≤ t_amount t ∧ 0 ≤ t_gas t ∧ 0 ≤ g_gasPrice (gparams s) < 2 ^ 192 ∧ withdraw_ok s t ∧
    deliver s t = (s', Err e) ∧ ¬ same_obs (work s) (work s').
Proof.
  pose (s := mk_state 10 (2 ^ 256 + 5) ∅).
  pose (t := mk_tx TRX_TRANSFER 1%N 2%N 5 10 10 0 PNone).
  exists s, t, (deliver s t).1, E_FUND.
  split; [zc|]. split; [zc|]. split; [zc|]. split; [not_withdraw|].
  split; [vm_compute; reflexivity|]. not_same_obs 1%N.
Qed.

Theorem deliver_fail_no_effect_refuted_amount :
  ∃ s t s' e, 0 ≤ t_gas t ∧ 0 ≤ g_gasPrice (gparams s) < 2 ^ 192 ∧ sender_bal_ok s t ∧ withdraw_ok s t ∧
    deliver s t = (s', Err e) ∧ ¬ same_obs (work s) (work s').
Proof.
  pose (s := mk_state 10 99 ∅).
  pose (t := mk_tx TRX_SETDOC 1%N 2%N (-1) 10 10 0 (PSetDoc 5%N 6%N 1 1)).
  exists s, t, (deliver s t).1, E_FUND.
  split; [zc|]. split; [zc|]. split; [sender_ok|]. split; [not_withdraw|].
  split; [vm_compute; reflexivity|]. not_same_obs 1%N.
Qed.

Theorem deliver_fail_no_effect_refuted_gas :
  ∃ s t s' e, 0 ≤ t_amount t ∧ 0 ≤ g_gasPrice (gparams s) < 2 ^ 192 ∧ sender_bal_ok s t ∧ withdraw_ok s t ∧
    deliver s t = (s', Err e) ∧ ¬ same_obs (work s) (work s').
Proof.
  pose (s := mk_state 10 1000 ∅).
  pose (t := mk_tx TRX_TRANSFER 1%N 2%N 10 10 (-1) 0 PNone).
  exists s, t, (deliver s t).1, E_FUND.
  split; [zc|]. split; [zc|]. split; [sender_ok|]. split; [not_withdraw|].
  split; [vm_compute; reflexivity|]. not_same_obs 1%N.
Qed.

(* What a failed delivery does leave behind (deliberately outside same_obs): the receiver account
   is created, empty.  With a zero gas price this is visible to a later transaction FROM that
   address, which is answered "no such account" before and succeeds after. *)
Example failed_delivery_creates_receiver :
  ∃ s t1 t2, (deliver s t1).2 = Err E_NONCE ∧ (deliver s t2).2 = Err E_NOACCT ∧
             (deliver (deliver s t1).1 t2).2 = Ok 0.
Proof.
  exists (mk_state 0 100 ∅), (mk_tx TRX_TRANSFER 1%N 9%N 1 0 100 5 PNone),
         (mk_tx TRX_SETDOC 9%N 9%N 0 0 0 0 (PSetDoc 5%N 6%N 1 1)).
  repeat split; vm_compute; reflexivity.
Qed.

Print Assumptions deliver_ok_validated.
Print Assumptions deliver_fail_no_effect_refuted_price.
Print Assumptions deliver_fail_no_effect_refuted_headroom.
