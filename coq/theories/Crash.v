(* Crash.v — the durable side of Commit (property C08).
   Commit performs its durable writes one store after the other, in the order recorded by the verif
   hooks on every run; a crash keeps a prefix of them.  On start the application reads the height of
   the last block whose context reached the meta store — the height Info reports — and brings every
   other store back to that version (ledger.RollbackTo, evm.RollbackTo, called by NewRigoApp);
   consensus then replays the blocks above that height.

   Two layers:
   - versions only (what the version checks of BeginBlock/Commit look at): [recover] on the
     versions a start finds, with and without the roll-back;
   - contents: a store is the list of the contents it saved, a block computes the new content of
     every store from the contents of ALL stores at the previous version; a crash appends to a
     prefix of the stores.  With the roll-back, start + replay reproduce exactly the disk of a
     node that never crashed — for every block, every crash point, any number of crashes in a row. *)
From Rigo Require Import Base.
From stdpp Require Import list.
Local Open Scope Z_scope.

Inductive store :=
| SGovParams | SProposal | SFrozenProposal      (* GovCtrler.Commit: three ledgers *)
| SAccounts                                     (* AcctCtrler.Commit *)
| SDelegatees | SFrozen | SRewards              (* StakeCtrler.Commit: three ledgers *)
| SEvmRoot                                      (* EVMCtrler.Commit: height -> root record (the trie write before it changes no version) *)
| SMetaCtx.                                     (* MetaDB: last block context, which Info reports *)

(* order of the version-bearing durable writes of one Commit; the reward-hash record, the EVM trie
   nodes and the legacy block-height record carry no version that start-up looks at (a replay
   writes the same values again) *)
Definition write_order : list store :=
  [SGovParams; SProposal; SFrozenProposal; SAccounts; SDelegatees; SFrozen; SRewards; SEvmRoot; SMetaCtx].

Definition versions := store → Z.
Definition all_at (v : Z) : versions := λ _, v.
Global Instance store_eq_dec : EqDecision store. Proof. solve_decision. Defined.
Definition bump (vs : versions) (x : store) : versions :=
  λ y, if decide (x = y) then vs x + 1 else vs y.

(* the process dies after the first k version-bearing writes of the commit of block v+1 *)
Definition crash_after (v : Z) (k : nat) : versions := foldl bump (all_at v) (take k write_order).

Inductive outcome := Recovers (reported : Z) | PanicsAt (site : Z).
Definition P_BEGIN_EVM := 1.   (* EVMCtrler.BeginBlock: wrong block height *)
Definition P_COMMIT_GOV := 2.  (* GovCtrler.Commit: wrong version number *)
Definition P_COMMIT_STAKE := 3.
Definition P_COMMIT_APP := 4.  (* RigoApp.Commit: Not same versions *)

(* replay of block (meta + 1) by consensus on stores opened at the versions [vs]:
   BeginBlock checks heights (RigoApp against the meta store, the EVM controller against its own
   record), Commit saves every ledger as its version + 1 and compares the resulting versions *)
Definition recover (vs : versions) : outcome :=
  let h := vs SMetaCtx + 1 in                       (* the block consensus replays next *)
  if negb (vs SEvmRoot + 1 =? h) then PanicsAt P_BEGIN_EVM
  else if negb ((vs SGovParams =? vs SProposal) && (vs SProposal =? vs SFrozenProposal)) then PanicsAt P_COMMIT_GOV
  else if negb ((vs SDelegatees =? vs SFrozen) && (vs SFrozen =? vs SRewards)) then PanicsAt P_COMMIT_STAKE
  else if negb ((vs SGovParams =? vs SAccounts) && (vs SAccounts =? vs SDelegatees) && (vs SDelegatees =? vs SEvmRoot))
       then PanicsAt P_COMMIT_APP
  else Recovers (vs SMetaCtx).

Definition recovers (vs : versions) : bool := match recover vs with Recovers _ => true | _ => false end.

(* what NewRigoApp does before it opens the controllers: every store that is ahead of the height the
   meta store reports is brought back to it *)
Definition rollback_v (vs : versions) : versions := λ s, Z.min (vs s) (vs SMetaCtx).
Definition start (vs : versions) : outcome := recover (rollback_v vs).

(* ------------------------------------------------------------------ versions: theorems *)
Lemma crash_after_ge v k : (9 <= k)%nat → crash_after v k = crash_after v 9.
Proof.
  intros Hk. unfold crash_after. rewrite !take_ge by (unfold write_order; cbn; lia). reflexivity.
Qed.

Lemma crash_after_cases v k s :
  crash_after v k s = v ∨ crash_after v k s = v + 1.
Proof.
  destruct (le_lt_dec 9 k) as [Hk|Hk]; [rewrite (crash_after_ge v k Hk)|];
    unfold crash_after, write_order.
  - destruct s; cbn; unfold bump, all_at; cbn; auto.
  - do 9 (destruct k as [|k]; [destruct s; cbn; unfold bump, all_at; cbn; auto|]). lia.
Qed.

Lemma crash_after_meta v k :
  crash_after v k SMetaCtx = if (9 <=? k)%nat then v + 1 else v.
Proof.
  destruct (9 <=? k)%nat eqn:E.
  - apply Nat.leb_le in E. rewrite (crash_after_ge v k E). unfold crash_after, write_order. cbn; unfold bump, all_at; cbn; reflexivity.
  - apply Nat.leb_gt in E. unfold crash_after, write_order.
    do 9 (destruct k as [|k]; [cbn; unfold bump, all_at; cbn; reflexivity|]). lia.
Qed.

Lemma crash_after_full v k s : (9 <= k)%nat → crash_after v k s = v + 1.
Proof.
  intros Hk. rewrite (crash_after_ge v k Hk). unfold crash_after, write_order.
  destruct s; cbn; unfold bump, all_at; cbn; reflexivity.
Qed.

(* after the roll-back all stores are at the reported height, whatever the crash point *)
Theorem rollback_levels v k :
  rollback_v (crash_after v k) = all_at (if (9 <=? k)%nat then v + 1 else v) ∨
  ∀ s, rollback_v (crash_after v k) s = (if (9 <=? k)%nat then v + 1 else v).
Proof.
  right. intros s. unfold rollback_v. rewrite crash_after_meta.
  destruct (9 <=? k)%nat eqn:E.
  - apply Nat.leb_le in E. rewrite crash_after_full by exact E. lia.
  - destruct (crash_after_cases v k s) as [-> | ->]; lia.
Qed.

Lemma recover_level vs h : (∀ s, vs s = h) → recover vs = Recovers h.
Proof.
  intros H. unfold recover. rewrite !H, !Z.eqb_refl. cbn. reflexivity.
Qed.

(* with the roll-back EVERY crash point of EVERY block recovers: the node reports the last fully
   committed block (crash before the block context is written) or the interrupted one (after) *)
Theorem start_recovers v k :
  start (crash_after v k) = Recovers (if (9 <=? k)%nat then v + 1 else v).
Proof.
  unfold start. apply recover_level. destruct (rollback_levels v k) as [H|H]; [rewrite H; reflexivity|exact H].
Qed.

(* without the roll-back (stores opened at their own latest version, as the code did before the
   repair) every crash point strictly inside the write sequence leaves versions from which the
   replay of the interrupted block panics — for every block height *)
Theorem crash_before_commit_recovers v : recover (crash_after v 0) = Recovers v.
Proof.
  unfold recover, crash_after; simpl. unfold all_at.
  rewrite !Z.eqb_refl. reflexivity.
Qed.

Theorem crash_after_commit_recovers v : recover (crash_after v (length write_order)) = Recovers (v + 1).
Proof.
  unfold recover, crash_after, write_order; simpl. unfold bump, all_at; simpl.
  rewrite !Z.eqb_refl. reflexivity.
Qed.

Theorem crash_inside_commit_bricks_without_rollback v k :
  (0 < k < length write_order)%nat → recovers (crash_after v k) = false.
Proof.
  intros Hk. unfold write_order in Hk; simpl in Hk.
  assert (E1 : (v + 1 =? v) = false) by (apply Z.eqb_neq; lia).
  assert (E2 : (v =? v + 1) = false) by (apply Z.eqb_neq; lia).
  assert (E3 : (v + 1 + 1 =? v + 1) = false) by (apply Z.eqb_neq; lia).
  do 9 (destruct k as [|k]; [try lia; unfold recovers, recover, crash_after, write_order; simpl; unfold bump, all_at; simpl;
        rewrite ?Z.eqb_refl, ?E1, ?E2, ?E3; reflexivity|]).
  lia.
Qed.

(* ------------------------------------------------------------------ contents *)
Section Contents.
  Context {C : Type}.
  (* genesis contents, and what block h, executed on the committed contents of ALL stores, saves in
     each store (execution is deterministic: C01) *)
  Context (g : store → C) (step : Z → (store → C) → store → C).

  (* a disk: per store the contents saved so far (version n = n-th element, oldest first) *)
  Definition disk := store → list C.
  Definition ver (d : disk) (s : store) : Z := Z.of_nat (length (d s)).
  Definition cur (d : disk) : store → C := λ s, List.last (d s) (g s).
  Definition level (d : disk) (n : nat) : Prop := ∀ s, length (d s) = n.

  (* the commit of the block after the state of [d], interrupted after its first k durable writes
     (k >= 9: completed).  All new contents were computed, in memory, from the state before the commit. *)
  Definition commit_prefix (d : disk) (k : nat) : disk :=
    let h := ver d SMetaCtx + 1 in
    λ s, if bool_decide (s ∈ take k write_order) then d s ++ [step h (cur d) s] else d s.
  Definition commit (d : disk) : disk := commit_prefix d 9.

  (* start: every store is cut back to the number of versions of the meta store *)
  Definition rollback (d : disk) : disk := λ s, take (length (d SMetaCtx)) (d s).

  Lemma all_in_write_order s : s ∈ write_order.
  Proof. unfold write_order. destruct s; repeat (first [apply elem_of_list_here | apply elem_of_list_further]). Qed.

  Lemma commit_prefix_full d k s : (9 <= k)%nat → commit_prefix d k s = d s ++ [step (ver d SMetaCtx + 1) (cur d) s].
  Proof.
    intros Hk. unfold commit_prefix.
    rewrite bool_decide_eq_true_2; [reflexivity|].
    rewrite take_ge by (unfold write_order; cbn; lia). apply all_in_write_order.
  Qed.

  Lemma meta_not_in_prefix k : (k < 9)%nat → SMetaCtx ∉ take k write_order.
  Proof.
    intros Hk. unfold write_order.
    do 9 (destruct k as [|k]; [cbn; intros H; repeat (apply elem_of_cons in H as [H|H]; [discriminate|]); inversion H|]). lia.
  Qed.

  (* a crash before the block context is written, then a start: the disk is exactly what it was
     before the interrupted commit *)
  Theorem rollback_undoes_partial_commit d n k :
    level d n → (k < 9)%nat → ∀ s, rollback (commit_prefix d k) s = d s.
  Proof.
    intros Hl Hk s. unfold rollback.
    assert (Hm : commit_prefix d k SMetaCtx = d SMetaCtx).
    { unfold commit_prefix. rewrite bool_decide_eq_false_2; [reflexivity|apply meta_not_in_prefix; exact Hk]. }
    rewrite Hm, (Hl SMetaCtx). unfold commit_prefix.
    destruct (bool_decide (s ∈ take k write_order)).
    - rewrite take_app_alt by (rewrite (Hl s); reflexivity). reflexivity.
    - rewrite take_ge by (rewrite (Hl s); lia). reflexivity.
  Qed.

  (* a crash after it: the start keeps the completed commit *)
  Theorem rollback_keeps_full_commit d n k :
    level d n → (9 <= k)%nat → ∀ s, rollback (commit_prefix d k) s = commit d s.
  Proof.
    intros Hl Hk s. unfold rollback, commit.
    rewrite !commit_prefix_full by lia.
    rewrite take_ge; [reflexivity|]. rewrite !app_length, (Hl s), (Hl SMetaCtx). cbn. lia.
  Qed.

  Lemma level_commit d n : level d n → level (commit d) (S n).
  Proof.
    intros Hl s. unfold commit. rewrite commit_prefix_full by lia. rewrite app_length, (Hl s). cbn. lia.
  Qed.

  Definition disk_eq (a b : disk) : Prop := ∀ s, a s = b s.

  (* extensional equality of the computed contents needs [step] to respect pointwise equality of the
     state it reads; stated for states that are pointwise equal *)
  Definition step_ext : Prop := ∀ h f f', (∀ s, f s = f' s) → ∀ s, step h f s = step h f' s.

  Lemma commit_ext a b : step_ext → disk_eq a b → disk_eq (commit a) (commit b).
  Proof.
    intros Hx H s. unfold commit. rewrite !commit_prefix_full by lia.
    unfold ver. rewrite (H s), (H SMetaCtx). f_equal. f_equal.
    apply Hx. intros s'. unfold cur. rewrite (H s'). reflexivity.
  Qed.

  (* one block with any number of crashes in a row before its commit finally completes: each crash
     point is < 9 (a crash at or after the ninth write IS a completed commit); between two attempts
     the node starts (roll-back) and consensus replays the block *)
  Fixpoint attempts (d : disk) (crashes : list nat) : disk :=
    match crashes with
    | [] => commit d
    | k :: r => attempts (rollback (commit_prefix d k)) r
    end.

  Theorem attempts_same_as_uncrashed (Hx : step_ext) crashes : ∀ d n,
    level d n → Forall (λ k, (k < 9)%nat) crashes → disk_eq (attempts d crashes) (commit d).
  Proof.
    induction crashes as [|k r IH]; intros d n Hl Hk; cbn [attempts]; [intros s; reflexivity|].
    inversion Hk as [|? ? Hk1 Hk2]; subst.
    pose proof (rollback_undoes_partial_commit d n k Hl Hk1) as Hu.
    intros s. rewrite (IH (rollback (commit_prefix d k)) n); [|intros s'; rewrite Hu; apply Hl|exact Hk2].
    apply commit_ext; [exact Hx|exact Hu].
  Qed.

  (* a whole run: per block the list of crash points met before its commit completed *)
  Fixpoint run (d : disk) (blocks : list (list nat)) : disk :=
    match blocks with [] => d | cr :: r => run (attempts d cr) r end.
  Definition uncrashed (d : disk) (nblocks : nat) : disk := Nat.iter nblocks commit d.

  Lemma level_ext a b n : disk_eq a b → level a n → level b n.
  Proof. intros H Hl s. rewrite <- (H s). apply Hl. Qed.

  Lemma iter_commit_ext (Hx : step_ext) m : ∀ a b, disk_eq a b → disk_eq (Nat.iter m commit a) (Nat.iter m commit b).
  Proof.
    induction m as [|m IH]; intros a b H; [exact H|].
    rewrite !Nat.iter_succ. apply commit_ext; [exact Hx|apply IH; exact H].
  Qed.

  Lemma iter_commit_shift m d : Nat.iter m commit (commit d) = commit (Nat.iter m commit d).
  Proof. rewrite <- Nat.iter_succ_r. apply Nat.iter_succ. Qed.

  (* C08 on contents: whatever the crash points, after the last block the disk is the disk of a node
     that executed the same blocks and never crashed (hence the same application hashes from then on) *)
  Theorem run_same_as_uncrashed (Hx : step_ext) blocks : ∀ d n,
    level d n → Forall (Forall (λ k, (k < 9)%nat)) blocks →
    disk_eq (run d blocks) (uncrashed d (length blocks)).
  Proof.
    induction blocks as [|cr r IH]; intros d n Hl Hk; [intros s; reflexivity|].
    cbn [run length]. inversion Hk as [|? ? Hk1 Hk2]; subst.
    pose proof (attempts_same_as_uncrashed Hx cr d n Hl Hk1) as Ha.
    intros s. rewrite (IH (attempts d cr) (S n)); [|eapply level_ext; [intros s'; symmetry; apply Ha|apply level_commit; exact Hl]|exact Hk2].
    unfold uncrashed. rewrite Nat.iter_succ_r.
    apply iter_commit_ext; [exact Hx|exact Ha].
  Qed.

  (* and the versions a start finds are those of the version layer: the height Info reports after a
     crash is the number of completed commits *)
  Theorem reported_height d n k : level d n →
    ver (rollback (commit_prefix d k)) SMetaCtx = Z.of_nat n + (if (9 <=? k)%nat then 1 else 0).
  Proof.
    intros Hl. destruct (9 <=? k)%nat eqn:E.
    - apply Nat.leb_le in E. unfold ver. rewrite (rollback_keeps_full_commit d n k Hl E).
      rewrite (level_commit d n Hl). lia.
    - apply Nat.leb_gt in E. unfold ver. rewrite (rollback_undoes_partial_commit d n k Hl E), (Hl SMetaCtx). lia.
  Qed.
End Contents.

(* without the roll-back the replay starts from a mixed state: a store already holding the content of
   the interrupted block is read as if it were the previous one (here: a counter per store, a block
   adds the sum of all counters to each) *)
Definition demo_step (h : Z) (f : store → Z) (s : store) : Z := f s + h.
Definition demo_disk : disk := λ _, [10].
Example replay_without_rollback_applies_twice :
  let d := commit_prefix (λ _, 0) demo_step demo_disk 1 in       (* crash after the first store was saved *)
  cur (λ _, 0) d SGovParams = 12 ∧ cur (λ _, 0) d SAccounts = 10 ∧
  (* a replay that reads this state adds the block to the first store a second time *)
  demo_step 2 (cur (λ _, 0) d) SGovParams = 14 ∧
  cur (λ _, 0) (commit (λ _, 0) demo_step demo_disk) SGovParams = 12.
Proof. vm_compute. repeat split; reflexivity. Qed.

(* non-vacuity of the content theorems: a three-block run with crashes at several points *)
Example run_demo :
  let d := run (λ _, 0) demo_step demo_disk [[3; 8]; []; [0; 5; 1]]%nat in
  d SGovParams = [10; 12; 15; 19] ∧ d SMetaCtx = [10; 12; 15; 19] ∧
  uncrashed (λ _, 0) demo_step demo_disk 3 SRewards = [10; 12; 15; 19].
Proof. vm_compute. repeat split; reflexivity. Qed.

(* ------------------------------------------------------------------ correspondence entry point *)
(* the exact outcome per crash point (what the harness compares with the real node) *)
Definition predicted (k : nat) : outcome := start (crash_after 0 k).
Example predicted_table :
  map predicted [0; 1; 2; 3; 4; 5; 6; 7; 8; 9]%nat =
  [Recovers 0; Recovers 0; Recovers 0; Recovers 0; Recovers 0; Recovers 0; Recovers 0; Recovers 0; Recovers 0; Recovers 1].
Proof. vm_compute. reflexivity. Qed.
(* what the unrepaired start-up did (kept for the record and for the necessity theorem) *)
Definition predicted_without_rollback (k : nat) : outcome := recover (crash_after 0 k).
Example predicted_without_rollback_table :
  map predicted_without_rollback [0; 1; 2; 3; 4; 5; 6; 7; 8; 9]%nat =
  [Recovers 0; PanicsAt P_COMMIT_GOV; PanicsAt P_COMMIT_GOV; PanicsAt P_COMMIT_APP; PanicsAt P_COMMIT_APP;
   PanicsAt P_COMMIT_STAKE; PanicsAt P_COMMIT_STAKE; PanicsAt P_COMMIT_APP; PanicsAt P_BEGIN_EVM; Recovers 1].
Proof. vm_compute. reflexivity. Qed.

(* observed: (number of version-bearing writes completed, 0 = the node recovered | panic site) *)
Definition outcome_code (o : outcome) : Z := match o with Recovers _ => 0 | PanicsAt s => s end.
Definition check_crash (obs : list (nat * Z)) : list (nat * Z * Z) :=
  omap (λ x : nat * Z, let p := outcome_code (predicted x.1) in if p =? x.2 then None else Some (x.1, x.2, p)) obs.
