(* Crash.v — the durable side of Commit as a vector of store versions (property C08).
   Commit performs its durable writes one after the other, in the order recorded by the verif
   hooks on every run; a crash keeps a prefix of them.  On start each store opens at its own latest
   version, Info reports the block context of the meta store, and consensus replays the blocks above
   that height.  The model says which prefixes recover; the harness starts a real node on the data
   directory as it was after each write and compares. *)
From Rigo Require Import Base.
From stdpp Require Import list.
Local Open Scope Z_scope.

Inductive store :=
| SGovParams | SProposal | SFrozenProposal      (* GovCtrler.Commit: three ledgers *)
| SAccounts                                     (* AcctCtrler.Commit *)
| SDelegatees | SFrozen | SRewards              (* StakeCtrler.Commit: three ledgers *)
| SEvmRoot                                      (* EVMCtrler.Commit: height -> root record (the trie write before it changes no version) *)
| SMetaCtx.                                     (* MetaDB: last block context, which Info reports *)

(* order of the version-bearing durable writes of one Commit; the reward-hash record, the EVM trie
   nodes and the legacy block-height record carry no version that start-up looks at *)
Definition write_order : list store :=
  [SGovParams; SProposal; SFrozenProposal; SAccounts; SDelegatees; SFrozen; SRewards; SEvmRoot; SMetaCtx].

Definition versions := store → Z.
Definition all_at (v : Z) : versions := λ _, v.
Global Instance store_eq_dec : EqDecision store. Proof. solve_decision. Defined.
Definition bump (vs : versions) (x : store) : versions :=
  λ y, if decide (x = y) then vs x + 1 else vs y.

(* the process dies after the first k version-bearing writes of the commit of block v+1 *)
Definition crash_after (v : Z) (k : nat) : versions := foldl bump (all_at v) (take k write_order).

Inductive outcome := Recovers (reported : Z) | PanicsAt (site : Z).
Definition P_BEGIN_EVM := 1.   (* EVMCtrler.BeginBlock: wrong block height *)
Definition P_COMMIT_GOV := 2.  (* GovCtrler.Commit: wrong version number *)
Definition P_COMMIT_STAKE := 3.
Definition P_COMMIT_APP := 4.  (* RigoApp.Commit: Not same versions *)

(* start-up on these versions, then replay of block (meta + 1) by consensus:
   BeginBlock checks heights (RigoApp against the meta store, the EVM controller against its own
   record), Commit saves every ledger as its version + 1 and compares the resulting versions *)
Definition recover (vs : versions) : outcome :=
  let h := vs SMetaCtx + 1 in                       (* the block consensus replays next *)
  if negb (vs SEvmRoot + 1 =? h) then PanicsAt P_BEGIN_EVM
  else if negb ((vs SGovParams =? vs SProposal) && (vs SProposal =? vs SFrozenProposal)) then PanicsAt P_COMMIT_GOV
  else if negb ((vs SDelegatees =? vs SFrozen) && (vs SFrozen =? vs SRewards)) then PanicsAt P_COMMIT_STAKE
  else if negb ((vs SGovParams =? vs SAccounts) && (vs SAccounts =? vs SDelegatees) && (vs SDelegatees =? vs SEvmRoot))
       then PanicsAt P_COMMIT_APP
  else Recovers (vs SMetaCtx).

Definition recovers (vs : versions) : bool := match recover vs with Recovers _ => true | _ => false end.

(* ------------------------------------------------------------------ theorems *)
(* a crash before the first or after the last write recovers: Info reports the last fully
   committed block, respectively the interrupted one *)
Theorem crash_before_commit_recovers v : recover (crash_after v 0) = Recovers v.
Proof.
  unfold recover, crash_after; simpl. unfold all_at.
  rewrite !Z.eqb_refl. reflexivity.
Qed.

Theorem crash_after_commit_recovers v : recover (crash_after v (length write_order)) = Recovers (v + 1).
Proof.
  unfold recover, crash_after, write_order; simpl. unfold bump, all_at; simpl.
  rewrite !Z.eqb_refl. reflexivity.
Qed.

(* every crash point strictly inside the sequence leaves the stores at versions from which the
   replay of the interrupted block panics — for every block height *)
Theorem crash_inside_commit_bricks v k :
  (0 < k < length write_order)%nat → recovers (crash_after v k) = false.
Proof.
  intros Hk. unfold write_order in Hk; simpl in Hk.
  assert (E : ∀ a b : Z, a + 1 =? a + 1 + 1 = false) by (intros; apply Z.eqb_neq; lia).
  assert (E1 : (v + 1 =? v) = false) by (apply Z.eqb_neq; lia).
  assert (E2 : (v =? v + 1) = false) by (apply Z.eqb_neq; lia).
  assert (E3 : (v + 1 + 1 =? v + 1) = false) by (apply Z.eqb_neq; lia).
  do 9 (destruct k as [|k]; [try lia; unfold recovers, recover, crash_after, write_order; simpl; unfold bump, all_at; simpl;
        rewrite ?Z.eqb_refl, ?E1, ?E2, ?E3; reflexivity|]).
  lia.
Qed.

(* the exact panic site per crash point (what the harness compares with the real node) *)
Definition predicted (k : nat) : outcome := recover (crash_after 0 k).
Example predicted_table :
  map predicted [0; 1; 2; 3; 4; 5; 6; 7; 8; 9]%nat =
  [Recovers 0; PanicsAt P_COMMIT_GOV; PanicsAt P_COMMIT_GOV; PanicsAt P_COMMIT_APP; PanicsAt P_COMMIT_APP;
   PanicsAt P_COMMIT_STAKE; PanicsAt P_COMMIT_STAKE; PanicsAt P_COMMIT_APP; PanicsAt P_BEGIN_EVM; Recovers 1].
Proof. vm_compute. reflexivity. Qed.

(* ------------------------------------------------------------------ correspondence entry point *)
(* observed: (number of version-bearing writes completed, 0 = the node recovered | panic site) *)
Definition outcome_code (o : outcome) : Z := match o with Recovers _ => 0 | PanicsAt s => s end.
Definition check_crash (obs : list (nat * Z)) : list (nat * Z * Z) :=
  omap (λ x : nat * Z, let p := outcome_code (predicted x.1) in if p =? x.2 then None else Some (x.1, x.2, p)) obs.
