(* InvNonce.v — property C04: nonces order the transactions of an account; a signed transaction
   takes effect at most once.
   Main results:
     deliver_ok_nonce (InvFail)    success only if t_nonce = the sender's current nonce
     deliver_ok_nonce_step         native path: sender's nonce + 1 (mod 2^64), no other nonce moves
     deliver_ok_nonce_evm / deliver_ok_nonce_step_evm
                                   EVM path: the new nonces are those of the observed effect
     deliver_fail_nonce / deliver_panic_nonce
                                   a delivery that does not succeed changes no nonce (no hypotheses)
     begin_block_nonce, end_block_nonce, commit_nonce
     nonce_used_once               in any history a (sender, nonce) pair succeeds at most once
     nonce_used_once_native        the same, state-independent hypotheses for contract-free runs *)
From Rigo Require Import Base.
From stdpp Require Import gmap sorting.
From Rigo Require Import Spec SpecProps InvFail.
Local Open Scope Z_scope.

Lemma nonce_succ_gt n : n < two64 - 1 → n < (n + 1) mod two64.
Proof.
  intros H. destruct (Z_lt_le_dec n (-1)) as [Hn|Hn].
  - pose proof (Z.mod_pos_bound (n + 1) two64 eq_refl). lia.
  - rewrite Z.mod_small; lia.
Qed.

Local Opaque two256 two255 two64 two63.

(* ------------------------------------------------------------------ nonce and code marker of every address *)
(* Native operations change accounts only through AddBalance / SubBalance / SetDoc; none of them
   touches the nonce or the code marker.  Both are tracked together: the code marker decides
   whether a transfer takes the EVM path. *)
Definition nc (x : account) : Z * bool := (a_nonce x, a_code x).
Definition nc_of (l : ledgers) (a : addr) : Z * bool := nc (acct_of l a).
Definition nc_eq (l l' : ledgers) : Prop := ∀ a, nc_of l a = nc_of l' a.

Lemma nc_eq_refl l : nc_eq l l.
Proof. intros a. reflexivity. Qed.
Lemma nc_eq_trans l1 l2 l3 : nc_eq l1 l2 → nc_eq l2 l3 → nc_eq l1 l3.
Proof. intros H1 H2 a. rewrite H1. apply H2. Qed.
Lemma nc_eq_sym l1 l2 : nc_eq l1 l2 → nc_eq l2 l1.
Proof. intros H a. symmetry. apply H. Qed.

Lemma nc_eq_nonce l l' a : nc_eq l l' → nonce_of l' a = nonce_of l a.
Proof. intros H. specialize (H a). unfold nc_of, nc in H. unfold nonce_of. congruence. Qed.
Lemma nc_eq_code l l' a : nc_eq l l' → a_code (acct_of l' a) = a_code (acct_of l a).
Proof. intros H. specialize (H a). unfold nc_of, nc in H. congruence. Qed.

Lemma nc_eq_accts l l' : accts l' = accts l → nc_eq l l'.
Proof. intros H a. unfold nc_of, acct_of. rewrite H. reflexivity. Qed.

Lemma acct_of_set_acct l a x b :
  acct_of (set_acct l a x) b = if decide (a = b) then x else acct_of l b.
Proof.
  unfold acct_of. cbn. destruct (decide (a = b)) as [->|Hne].
  - rewrite lookup_insert. reflexivity.
  - rewrite lookup_insert_ne by exact Hne. reflexivity.
Qed.

Lemma acct_of_lookup l a x : accts l !! a = Some x → acct_of l a = x.
Proof. intros H. unfold acct_of. rewrite H. reflexivity. Qed.

(* overwriting an account with one that has the same nonce and code marker *)
Lemma nc_eq_set_acct l a x : nc x = nc_of l a → nc_eq l (set_acct l a x).
Proof.
  intros H b. unfold nc_of. rewrite acct_of_set_acct. destruct (decide (a = b)) as [<-|_]; [|reflexivity].
  symmetry. exact H.
Qed.

Lemma nc_add_balance x amt x' : add_balance x amt = Some x' → nc x' = nc x.
Proof. unfold add_balance. destruct (sign256 amt <? 0); [discriminate|]. intros [= <-]. reflexivity. Qed.
Lemma nc_sub_balance x amt x' : sub_balance x amt = Some x' → nc x' = nc x.
Proof.
  unfold sub_balance. destruct (sign256 amt <? 0); [discriminate|].
  destruct (a_bal x <? amt); [discriminate|]. intros [= <-]. reflexivity.
Qed.

Lemma nc_eq_find_or_new l a : nc_eq l (find_or_new l a).1.
Proof. intros b. unfold nc_of. rewrite find_or_new_acct_of. reflexivity. Qed.

Lemma nc_eq_acct_reward l a amt l' : acct_reward l a amt = Some l' → nc_eq l l'.
Proof.
  unfold acct_reward. intros H.
  destruct (accts l !! a) as [x|] eqn:Ex; [|discriminate]. cbn in H.
  destruct (add_balance x amt) as [x'|] eqn:Ea; [|discriminate]. cbn in H. injection H as <-.
  apply nc_eq_set_acct. unfold nc_of. rewrite (acct_of_lookup _ _ _ Ex). eapply nc_add_balance. exact Ea.
Qed.

(* ------------------------------------------------------------------ native execution *)
Lemma nc_eq_acct_execute l t l' : acct_execute l t = Ok l' → nc_eq l l'.
Proof.
  unfold acct_execute. intros H.
  destruct (accts l !! t_from t) as [sender|] eqn:Es; [|discriminate].
  destruct (accts l !! t_to t) as [receiver|] eqn:Er; [|discriminate].
  destruct (t_type t =? TRX_TRANSFER).
  - destruct (sub_balance sender (t_amount t)) as [sender'|] eqn:Esb; [|discriminate].
    apply nc_sub_balance in Esb.
    destruct (add_balance (if (t_from t =? t_to t)%N then sender' else receiver) (t_amount t)) as [recv'|] eqn:Eab;
      [|discriminate].
    apply nc_add_balance in Eab. injection H as <-.
    eapply nc_eq_trans; [apply (nc_eq_set_acct l (t_from t) sender')|apply nc_eq_set_acct].
    + unfold nc_of. rewrite (acct_of_lookup _ _ _ Es). exact Esb.
    + rewrite Eab. unfold nc_of. rewrite acct_of_set_acct.
      destruct (t_from t =? t_to t)%N eqn:Eft.
      * apply N.eqb_eq in Eft. rewrite decide_True by exact Eft. reflexivity.
      * apply N.eqb_neq in Eft. rewrite decide_False by exact Eft. rewrite (acct_of_lookup _ _ _ Er). reflexivity.
  - destruct (t_payload t); try discriminate. injection H as <-.
    apply nc_eq_set_acct. unfold nc_of. rewrite (acct_of_lookup _ _ _ Es). reflexivity.
Qed.

Lemma nc_eq_stake_execute s l t l' : stake_execute s l t = Ok l' → nc_eq l l'.
Proof.
  unfold stake_execute. intros H.
  destruct (t_type t =? TRX_STAKING).
  { destruct (match dels l !! t_to t with Some d => Some d | None => _ end) as [d|]; [|discriminate].
    destruct (accts l !! t_from t) as [sender|] eqn:Es; [|discriminate].
    destruct (sub_balance sender (t_amount t)) as [sender'|] eqn:Esb; [|discriminate].
    injection H as <-. apply nc_sub_balance in Esb.
    intros a. unfold nc_of, acct_of. cbn [accts set_dels].
    change (nc_of l a = nc_of (set_acct l (t_from t) sender') a). apply nc_eq_set_acct.
    unfold nc_of. rewrite (acct_of_lookup _ _ _ Es). exact Esb. }
  destruct (t_type t =? TRX_UNSTAKING).
  { destruct (dels l !! t_to t) as [d|]; [|discriminate].
    destruct (t_payload t) as [|hs lo| | | | |]; try discriminate.
    destruct (find_stake hs (d_stakes d)) as [s0|]; [|discriminate].
    destruct (negb (s_from s0 =? t_from t)%N); [discriminate|].
    destruct (if d_self (del_stake d hs) =? 0 then _ else _) as [d2 fr2].
    apply nc_eq_accts. destruct (d_total d2 =? 0); injection H as <-; reflexivity. }
  destruct (t_payload t) as [| |req| | | |]; try discriminate.
  destruct (rewards l !! t_from t) as [r|]; [|discriminate].
  destruct (r_height r >? b_height (bctx s)); [discriminate|].
  match type of H with match acct_reward ?l1 _ _ with _ => _ end = _ =>
    destruct (acct_reward l1 (t_from t) req) as [l2|] eqn:Ear; [|discriminate] end.
  injection H as <-. apply nc_eq_acct_reward in Ear.
  eapply nc_eq_trans; [|exact Ear]. apply nc_eq_accts. reflexivity.
Qed.

Lemma nc_eq_exec_native s2 t l' : exec_native s2 t = Ok l' → nc_eq (work s2) l'.
Proof.
  unfold exec_native. intros H.
  destruct ((t_type t =? TRX_PROPOSAL) || (t_type t =? TRX_VOTING)).
  { apply gov_execute_accts in H. apply nc_eq_accts. exact H. }
  destruct ((t_type t =? TRX_TRANSFER) || (t_type t =? TRX_SETDOC)).
  { eapply nc_eq_acct_execute. exact H. }
  eapply nc_eq_stake_execute. exact H.
Qed.

Lemma nc_eq_pre s t : nc_eq (work s) (work (pre s t)).
Proof. apply nc_eq_find_or_new. Qed.

(* ------------------------------------------------------------------ one delivery *)
Lemma finish_native_cases price s2 t s' r :
  finish price s2 t false = (s', r) →
  match r with
  | Ok g => ∃ l' snd' snd'', exec_native s2 t = Ok l' ∧ accts l' !! t_from t = Some snd' ∧
                             sub_balance snd' (fee_of t) = Some snd'' ∧
                             work s' = set_acct l' (t_from t) (add_nonce snd'') ∧ g = t_gas t
  | _ => nc_eq (work s2) (work s')
  end.
Proof.
  unfold finish. intros H.
  destruct (exec_native s2 t) as [l'|e'|p'] eqn:Hx.
  - unfold post_native in H.
    destruct (accts l' !! t_from t) as [snd'|] eqn:Hl.
    + destruct (sub_balance snd' (fee_of t)) as [snd''|] eqn:Hsb.
      * injection H as <- <-. exists l', snd', snd''. repeat split; assumption.
      * injection H as <- <-. cbn. apply (nc_eq_exec_native _ t). exact Hx.
    + injection H as <- <-. apply nc_eq_refl.
  - injection H as <- <-. apply nc_eq_refl.
  - injection H as <- <-. apply nc_eq_refl.
Qed.

(* a delivery that does not succeed leaves every nonce and code marker alone — no hypotheses *)
Lemma deliver_not_ok_nc s t s' r :
  deliver s t = (s', r) → (∀ g, r ≠ Ok g) → nc_eq (work s) (work s').
Proof.
  intros H Hr. rewrite deliver_eq in H.
  destruct (accts (work s) !! t_from t) as [sender|] eqn:Hs.
  2:{ injection H as <- _. apply nc_eq_refl. }
  cbv zeta in H.
  destruct (common_validation0 (gparams s) t) as [e0|]; [injection H as <- _; apply nc_eq_pre|].
  destruct (common_validation1 sender t) as [e1|]; [injection H as <- _; apply nc_eq_pre|].
  destruct (validated (pre s t) (receiver_of s t) t) as [lim'|ev|pv].
  2:{ injection H as <- _; apply nc_eq_pre. }
  2:{ injection H as <- _; apply nc_eq_pre. }
  destruct (evm_path s t).
  - apply finish_evm_not_ok in H; [|exact Hr]. subst s'. apply nc_eq_pre.
  - apply finish_native_cases in H. eapply nc_eq_trans; [apply nc_eq_pre|].
    destruct r as [g|e|p]; [exfalso; eapply Hr; reflexivity|exact H|exact H].
Qed.

(* (5) failed transactions leave every nonce unchanged.  This is stronger than the corollary of
   C05 (deliver_fail_no_effect): it needs none of the range hypotheses. *)
Theorem deliver_fail_nonce s t s' e :
  deliver s t = (s', Err e) → ∀ a, nonce_of (work s') a = nonce_of (work s) a.
Proof. intros H a. apply nc_eq_nonce. eapply deliver_not_ok_nc; [exact H|discriminate]. Qed.
Print Assumptions deliver_fail_nonce.

Theorem deliver_panic_nonce s t s' p :
  deliver s t = (s', Panic p) → ∀ a, nonce_of (work s') a = nonce_of (work s) a.
Proof. intros H a. apply nc_eq_nonce. eapply deliver_not_ok_nc; [exact H|discriminate]. Qed.

(* a successful delivery on the native path *)
Lemma deliver_native_ok_nc s t s' g :
  evm_path s t = false → deliver s t = (s', Ok g) →
  ∀ a, nc_of (work s') a =
       if decide (a = t_from t) then ((t_nonce t + 1) mod two64, (nc_of (work s) a).2) else nc_of (work s) a.
Proof.
  intros Hp H. pose proof (deliver_ok_nonce _ _ _ _ H) as Hn.
  rewrite deliver_eq in H.
  destruct (accts (work s) !! t_from t) as [sender|] eqn:Hs; [|discriminate].
  cbv zeta in H.
  destruct (common_validation0 (gparams s) t) as [e0|]; [discriminate|].
  destruct (common_validation1 sender t) as [e1|]; [discriminate|].
  destruct (validated (pre s t) (receiver_of s t) t) as [lim'|ev|pv]; [|discriminate|discriminate].
  rewrite Hp in H. apply finish_native_cases in H as (l' & snd' & snd'' & Hx & Hl & Hsb & Hw & _).
  apply nc_eq_exec_native in Hx. cbn [work with_lim] in Hx.
  assert (Hnc : nc_eq (work s) l') by (eapply nc_eq_trans; [apply nc_eq_pre|exact Hx]).
  apply nc_sub_balance in Hsb.
  intros a. rewrite Hw. unfold nc_of at 1. rewrite acct_of_set_acct.
  destruct (decide (a = t_from t)) as [->|Hne].
  - rewrite decide_True by reflexivity.
    pose proof (Hnc (t_from t)) as Hf. unfold nc_of at 2 in Hf. rewrite (acct_of_lookup _ _ _ Hl) in Hf.
    rewrite <- Hsb in Hf. rewrite Hf. unfold nc in *. cbn.
    injection Hf as Hf1 Hf2. rewrite <- Hf1.
    unfold nonce_of in Hn. unfold nc_of, nc in Hf1. cbn in Hf1. rewrite <- Hn. reflexivity.
  - rewrite decide_False by congruence. symmetry. apply Hnc.
Qed.

Lemma evm_path_spec s t :
  evm_path s t = (t_type t =? TRX_CONTRACT) || ((t_type t =? TRX_TRANSFER) && a_code (acct_of (work s) (t_to t))).
Proof. unfold evm_path, receiver_of. rewrite find_or_new_recv. reflexivity. Qed.

Lemma native_path s t :
  t_type t ≠ TRX_CONTRACT → a_code (acct_of (work s) (t_to t)) = false → evm_path s t = false.
Proof.
  intros Hty Hc. rewrite evm_path_spec, Hc. apply Z.eqb_neq in Hty. rewrite Hty.
  rewrite andb_false_r. reflexivity.
Qed.

(* (4) Intended statement, native path: success means the nonce matched, the sender's nonce goes
   up by one (modulo 2^64, as Go's uint64 does) and no other nonce moves. *)
Theorem deliver_ok_nonce_step s t s' g :
  t_type t ≠ TRX_CONTRACT → a_code (acct_of (work s) (t_to t)) = false →
  deliver s t = (s', Ok g) →
  nonce_of (work s) (t_from t) = t_nonce t ∧
  nonce_of (work s') (t_from t) = (t_nonce t + 1) mod two64 ∧
  ∀ a, a ≠ t_from t → nonce_of (work s') a = nonce_of (work s) a.
Proof.
  intros Hty Hc H. split; [eapply deliver_ok_nonce; exact H|].
  pose proof (deliver_native_ok_nc _ _ _ _ (native_path _ _ Hty Hc) H) as Hnc.
  split.
  - specialize (Hnc (t_from t)). rewrite decide_True in Hnc by reflexivity.
    unfold nc_of, nc in Hnc. unfold nonce_of. congruence.
  - intros a Ha. specialize (Hnc a). rewrite decide_False in Hnc by exact Ha.
    unfold nc_of, nc in Hnc. unfold nonce_of. congruence.
Qed.
Print Assumptions deliver_ok_nonce_step.

(* ... and no code marker appears or disappears *)
Lemma deliver_native_code s t s' r :
  evm_path s t = false → deliver s t = (s', r) →
  ∀ a, a_code (acct_of (work s') a) = a_code (acct_of (work s) a).
Proof.
  intros Hp H a. destruct r as [g|e|p].
  - pose proof (deliver_native_ok_nc _ _ _ _ Hp H a) as Hnc.
    destruct (decide (a = t_from t)); unfold nc_of, nc in Hnc; cbn in Hnc; congruence.
  - apply nc_eq_code. eapply deliver_not_ok_nc; [exact H|discriminate].
  - apply nc_eq_code. eapply deliver_not_ok_nc; [exact H|discriminate].
Qed.

(* ------------------------------------------------------------------ the EVM path *)
(* the nonce the observed effect assigns to an address: that of its last entry, if any *)
Definition eff_step (a : addr) (acc : option Z) (x : addr * Z * Z) : option Z :=
  let '(b, _, n) := x in if (b =? a)%N then Some n else acc.
Definition eff_nonce (xs : list (addr * Z * Z)) (a : addr) : option Z := foldl (eff_step a) None xs.

Definition eff_write (l : ledgers) (x : addr * Z * Z) : ledgers :=
  let '(a, bal, nonce) := x in
  let old := default acct0 (accts l !! a) in
  set_acct l a {| a_nonce := nonce; a_bal := bal; a_code := a_code old; a_name := a_name old; a_doc := a_doc old |}.

Lemma eff_write_fold a n0 xs : ∀ l acc,
  nonce_of l a = default n0 acc →
  nonce_of (foldl eff_write l xs) a = default n0 (foldl (eff_step a) acc xs).
Proof.
  induction xs as [|[[b bal] n] xs IH]; intros l acc H; [exact H|].
  cbn [foldl]. apply IH. unfold eff_write, eff_step, nonce_of. rewrite acct_of_set_acct.
  destruct (decide (b = a)) as [->|Hne].
  - rewrite N.eqb_refl. reflexivity.
  - apply N.eqb_neq in Hne. rewrite Hne. exact H.
Qed.

Lemma evm_execute_nonce l t l' gas :
  evm_execute l t = Ok (l', gas) →
  ∃ e, t_evm t = Some e ∧ e_ok e = true ∧ gas = e_gas e ∧
       ∀ a, nonce_of l' a = default (nonce_of l a) (eff_nonce (e_accts e) a).
Proof.
  unfold evm_execute. intros H. destruct (t_evm t) as [e|]; [|discriminate].
  destruct (e_ok e) eqn:Eok; [|discriminate]. cbn [negb] in H. injection H as <- <-.
  exists e. repeat split; [exact Eok|]. intros a.
  assert (Hf : nonce_of (foldl eff_write l (e_accts e)) a = default (nonce_of l a) (eff_nonce (e_accts e) a))
    by (apply eff_write_fold; reflexivity).
  change (foldl _ l (e_accts e)) with (foldl eff_write l (e_accts e)).
  destruct (e_created e) as [c|]; [|exact Hf].
  rewrite <- Hf. unfold nonce_of. rewrite acct_of_set_acct.
  destruct (decide (c = a)) as [->|_]; reflexivity.
Qed.

(* success on the EVM path: the nonce matched, and the new nonces are those of the effect *)
Theorem deliver_ok_nonce_evm s t s' g :
  evm_path s t = true → deliver s t = (s', Ok g) →
  nonce_of (work s) (t_from t) = t_nonce t ∧
  ∃ e, t_evm t = Some e ∧ e_ok e = true ∧
       ∀ a, nonce_of (work s') a = default (nonce_of (work s) a) (eff_nonce (e_accts e) a).
Proof.
  intros Hp H. split; [eapply deliver_ok_nonce; exact H|].
  rewrite deliver_eq in H.
  destruct (accts (work s) !! t_from t) as [sender|] eqn:Hs; [|discriminate].
  cbv zeta in H.
  destruct (common_validation0 (gparams s) t) as [e0|]; [discriminate|].
  destruct (common_validation1 sender t) as [e1|]; [discriminate|].
  destruct (validated (pre s t) (receiver_of s t) t) as [lim'|ev|pv]; [|discriminate|discriminate].
  rewrite Hp in H. unfold finish in H.
  destruct (evm_execute (work (with_lim (pre s t) lim')) t) as [[l' gas]|e'|p'] eqn:Hx; [|discriminate|discriminate].
  injection H as <- _. apply evm_execute_nonce in Hx as (e & He & Hok & _ & Hn).
  exists e. split; [exact He|]. split; [exact Hok|]. intros a. cbn [work add_fee with_bctx with_work].
  rewrite Hn. cbn [work with_lim]. rewrite (nc_eq_nonce _ _ a (nc_eq_pre s t)). reflexivity.
Qed.
Print Assumptions deliver_ok_nonce_evm.

(* the EVM nonce hypothesis: the effect lists the sender with its nonce raised by one
   (go-ethereum's state transition does exactly this to the message sender) *)
Definition evm_effect_nonce_ok (t : tx) : Prop :=
  ∀ e, t_evm t = Some e → eff_nonce (e_accts e) (t_from t) = Some ((t_nonce t + 1) mod two64).
(* ... and lowers no nonce (nonces of other accounts only move when a contract creates contracts) *)
Definition evm_effect_mono (s : state) (t : tx) : Prop :=
  ∀ e a n, t_evm t = Some e → eff_nonce (e_accts e) a = Some n → nonce_of (work s) a ≤ n.
(* the same for one account.  The history theorem needs it only for the sender it speaks about: the
   EVM does lower a nonce in one case, the self-destruction of a contract (its creation counter goes
   back to 0), and a contract address has no key to send transactions with *)
Definition evm_effect_mono_at (a : addr) (s : state) (t : tx) : Prop :=
  ∀ e n, t_evm t = Some e → eff_nonce (e_accts e) a = Some n → nonce_of (work s) a ≤ n.
Lemma evm_effect_mono_all s t : evm_effect_mono s t ↔ ∀ a, evm_effect_mono_at a s t.
Proof. unfold evm_effect_mono, evm_effect_mono_at. split; intros H; [intros a e n|intros e a n]; apply H. Qed.

Corollary deliver_ok_nonce_step_evm s t s' g :
  evm_path s t = true → evm_effect_nonce_ok t → deliver s t = (s', Ok g) →
  nonce_of (work s) (t_from t) = t_nonce t ∧
  nonce_of (work s') (t_from t) = (t_nonce t + 1) mod two64 ∧
  ∃ e, t_evm t = Some e ∧
       ∀ a, nonce_of (work s') a = default (nonce_of (work s) a) (eff_nonce (e_accts e) a).
Proof.
  intros Hp Hok H. destruct (deliver_ok_nonce_evm _ _ _ _ Hp H) as (Hn & e & He & _ & Ha).
  split; [exact Hn|]. split; [|exists e; split; assumption].
  rewrite Ha, (Hok e He). reflexivity.
Qed.

(* ------------------------------------------------------------------ (6) block boundaries *)
Lemma foldl_inv {A B} (P : A → Prop) (f : A → B → A) xs :
  (∀ a x, P a → P (f a x)) → ∀ a, P a → P (foldl f a xs).
Proof. intros Hf. induction xs as [|x xs IH]; intros a Ha; [exact Ha|]. cbn. apply IH, Hf, Ha. Qed.

Lemma gov_punish_accts l ratio evi : accts (gov_punish l ratio evi) = accts l.
Proof.
  unfold gov_punish. apply (foldl_inv (λ l', accts l' = accts l)); [|reflexivity].
  intros l1 a H1. apply (foldl_inv (λ l', accts l' = accts l)); [|exact H1].
  intros l2 kp H2. destruct (props l2 !! kp.1); exact H2.
Qed.

Lemma stake_punish_accts l ratio evi : accts (stake_punish l ratio evi) = accts l.
Proof.
  unfold stake_punish. apply (foldl_inv (λ l', accts l' = accts l)); [|reflexivity].
  intros l1 a H1. destruct (dels l1 !! a); exact H1.
Qed.

Lemma process_votes_accts s l h votes l' iss :
  process_votes s l h votes = Ok (l', iss) → accts l' = accts l.
Proof.
  unfold process_votes. destruct (ledgers_at s (hgt_of_power h)) as [old|]; [|discriminate].
  intros H.
  match type of H with foldl ?f ?a0 ?xs = _ =>
    assert (HP : match foldl f a0 xs with Ok (l1, _) => accts l1 = accts l | _ => True end) end.
  { apply (foldl_inv (λ r : res (ledgers * Z), match r with Ok (l1, _) => accts l1 = accts l | _ => True end));
      [|reflexivity].
    intros [[l0 iss0]|e|p] v Hacc; [|exact I|exact I].
    destruct v as [[a pw] signed]. destruct signed.
    - destruct (dels old !! a) as [d|]; [|exact Hacc].
      destruct (negb (d_total d =? pw)); [exact Hacc|].
      destruct (reward_to (gparams s) h (rewards l0) d) as [[rw iss1]|e|p]; [exact Hacc|exact I|exact I].
    - destruct (dels l0 !! a) as [d|]; [|exact Hacc].
      destruct (count_in_window _ _ _) as [cnt m2].
      destruct (g_signedBlocksWindow (gparams s) - cnt <? g_minSignedBlocks (gparams s)); exact Hacc. }
  rewrite H in HP. exact HP.
Qed.

Theorem begin_block_accts s hd : accts (work (begin_block s hd).1) = accts (work s).
Proof.
  unfold begin_block. destruct (negb (h_height hd =? last_height s + 1)); [reflexivity|].
  destruct (h_votes hd) as [|v votes]; cbn [fst work].
  { rewrite stake_punish_accts, gov_punish_accts. reflexivity. }
  destruct (process_votes _ _ _ _) as [[l3 iss]|e|p] eqn:Hpv; cbn [fst work with_work].
  - apply process_votes_accts in Hpv. rewrite Hpv, stake_punish_accts, gov_punish_accts. reflexivity.
  - rewrite stake_punish_accts, gov_punish_accts. reflexivity.
  - rewrite stake_punish_accts, gov_punish_accts. reflexivity.
Qed.

Lemma foldl_res_inv {A B} (P : A → Prop) (f : res A → B → res A) xs :
  (∀ a x, P a → match f (Ok a) x with Ok a' => P a' | _ => True end) →
  (∀ e x, f (Err e) x = Err e) → (∀ p x, f (Panic p) x = Panic p) →
  ∀ a a', P a → foldl f (Ok a) xs = Ok a' → P a'.
Proof.
  intros Hok Herr Hpan a a' Ha H.
  assert (HP : match foldl f (Ok a) xs with Ok a1 => P a1 | _ => True end).
  { apply (foldl_inv (λ r : res A, match r with Ok a1 => P a1 | _ => True end)); [|exact Ha].
    intros [a1|e|p] x H1; [apply Hok; exact H1|rewrite Herr; exact I|rewrite Hpan; exact I]. }
  rewrite H in HP. exact HP.
Qed.

Lemma freeze_proposals_accts base l h l' : freeze_proposals base l h = Ok l' → accts l' = accts l.
Proof.
  unfold freeze_proposals.
  apply (foldl_res_inv (λ l1, accts l1 = accts l)); [|reflexivity|reflexivity|reflexivity].
  intros l1 kp H1. destruct (p_end kp.2 <? h); [|exact H1].
  destruct (props l1 !! kp.1); [|exact I].
  destruct (update_major kp.2) as [p'|e|x]; [|exact I|exact I].
  destruct (p_major p'); exact H1.
Qed.

Lemma apply_proposals_accts s base l h l' np : apply_proposals s base l h = Ok (l', np) → accts l' = accts l.
Proof.
  unfold apply_proposals. intros H.
  apply (foldl_res_inv (λ x : ledgers * option params, accts x.1 = accts l)) in H; [exact H| | | |reflexivity];
    [|reflexivity|reflexivity].
  intros [l1 np1] kp H1. cbn [fst] in H1. destruct (p_apply kp.2 <=? h); [|exact H1].
  destruct (fprops l1 !! kp.1); [|exact I].
  destruct (p_major kp.2) as [o|]; [|exact H1].
  destruct (p_opttype kp.2 =? PROPOSAL_GOVPARAMS); [|exact H1].
  destruct (o_params o); [exact H1|exact I].
Qed.

Lemma unfreeze_nc base l h l' : unfreeze base l h = Ok l' → nc_eq l l'.
Proof.
  unfold unfreeze.
  apply (foldl_res_inv (λ l1, nc_eq l l1)); [|reflexivity|reflexivity|apply nc_eq_refl].
  intros l1 kp H1. destruct (s_refund kp.2 <=? h); [|exact H1].
  destruct (acct_reward l1 (s_from kp.2) (power_to_amount (s_power kp.2))) as [l2|] eqn:Ear; [|exact I].
  apply nc_eq_acct_reward in Ear. eapply nc_eq_trans; [exact H1|].
  eapply nc_eq_trans; [exact Ear|]. apply nc_eq_accts. reflexivity.
Qed.

Theorem end_block_nc s : nc_eq (work s) (work (end_block s).1).
Proof.
  unfold end_block.
  destruct (freeze_proposals (base_of s) (work s) (b_height (bctx s))) as [l1|e|p] eqn:H1;
    [|apply nc_eq_refl|apply nc_eq_refl].
  destruct (apply_proposals s (base_of s) l1 (b_height (bctx s))) as [[l2 np]|e|p] eqn:H2;
    [|apply nc_eq_refl|apply nc_eq_refl].
  apply freeze_proposals_accts in H1. apply apply_proposals_accts in H2.
  assert (H12 : nc_eq (work s) l2) by (apply nc_eq_accts; congruence).
  destruct (match b_proposer (bctx s) with Some pa => _ | None => Some l2 end) as [l3|] eqn:H3;
    [|apply nc_eq_refl].
  assert (H23 : nc_eq l2 l3).
  { destruct (b_proposer (bctx s)) as [pa|]; [|injection H3 as <-; apply nc_eq_refl].
    destruct (0 <? sign256 (b_feesum (bctx s))); [|injection H3 as <-; apply nc_eq_refl].
    destruct (add_balance (default acct0 (accts l2 !! pa)) (b_feesum (bctx s))) as [x|] eqn:Eab; [|discriminate].
    injection H3 as <-. apply nc_eq_set_acct. apply nc_add_balance in Eab. exact Eab. }
  destruct (unfreeze (base_of s) l3 (b_height (bctx s))) as [l4|e|p] eqn:H4;
    [|apply nc_eq_refl|apply nc_eq_refl].
  apply unfreeze_nc in H4.
  destruct (g_maxValidatorCnt (gparams s) <? 0); [apply nc_eq_refl|].
  cbn [fst work]. eapply nc_eq_trans; [exact H12|]. eapply nc_eq_trans; [exact H23|exact H4].
Qed.

(* BeginBlock, EndBlock and Commit change no nonce *)
Theorem begin_block_nonce s hd a : nonce_of (work (begin_block s hd).1) a = nonce_of (work s) a.
Proof. unfold nonce_of, acct_of. rewrite begin_block_accts. reflexivity. Qed.
Theorem end_block_nonce s a : nonce_of (work (end_block s).1) a = nonce_of (work s) a.
Proof. apply nc_eq_nonce, end_block_nc. Qed.
Theorem commit_nonce s a : nonce_of (work (commit s)) a = nonce_of (work s) a.
Proof. reflexivity. Qed.
Print Assumptions begin_block_nonce.
Print Assumptions end_block_nonce.
Print Assumptions commit_nonce.

Lemma block_op_nc s o : (∀ t, o ≠ SDeliver t) → nc_eq (work s) (work (sstep s o)).
Proof.
  intros Ho. destruct o as [hd|t| |]; cbn [sstep].
  - apply nc_eq_accts. apply begin_block_accts.
  - exfalso. eapply Ho. reflexivity.
  - apply end_block_nc.
  - apply nc_eq_refl.
Qed.

(* ------------------------------------------------------------------ (7) histories *)
(* a condition on every step of a run, checked in the state the step starts from *)
Fixpoint run_ok (P : state → sop → Prop) (s : state) (ops : list sop) : Prop :=
  match ops with [] => True | o :: r => P s o ∧ run_ok P (sstep s o) r end.

Lemma srun_app s l1 l2 : srun s (l1 ++ l2) = srun (srun s l1) l2.
Proof. unfold srun. apply foldl_app. Qed.

Lemma run_ok_app P s l1 l2 : run_ok P s (l1 ++ l2) ↔ run_ok P s l1 ∧ run_ok P (srun s l1) l2.
Proof.
  revert s. induction l1 as [|o l1 IH]; intros s; cbn [app run_ok].
  - unfold srun. cbn. tauto.
  - rewrite IH. unfold srun. cbn [foldl]. tauto.
Qed.

Definition delivered (s : state) (t : tx) : Prop := ∃ g, (deliver s t).2 = Ok g.

(* the hypotheses of the history theorem about account [a]:
   - deliveries that take the EVM path obey the EVM nonce hypothesis (sender's nonce + 1, the
     nonce of [a] not lowered);
   - no successful transaction of [a] carries the last nonce 2^64 - 1 (no wrap-around) *)
Definition hist_ok (a : addr) (s : state) (o : sop) : Prop :=
  match o with
  | SDeliver t =>
      (evm_path s t = true → evm_effect_nonce_ok t ∧ evm_effect_mono_at a s t) ∧
      (t_from t = a → delivered s t → t_nonce t < two64 - 1)
  | _ => True
  end.

(* one delivery: the nonce of [a] does not go down, and goes up if [a] sent it and it succeeded *)
Lemma deliver_step_nonce a s t :
  hist_ok a s (SDeliver t) →
  nonce_of (work s) a ≤ nonce_of (work (deliver s t).1) a ∧
  (t_from t = a → delivered s t →
   nonce_of (work s) a = t_nonce t ∧ t_nonce t < nonce_of (work (deliver s t).1) a).
Proof.
  intros [Hevm Hwrap]. unfold delivered in *.
  destruct (deliver s t) as [s' r] eqn:Hd. cbn [fst snd] in *.
  destruct r as [g|e|p].
  2:{ rewrite (deliver_fail_nonce _ _ _ _ Hd). split; [lia|]. intros _ [g Hg]. discriminate. }
  2:{ rewrite (deliver_panic_nonce _ _ _ _ Hd). split; [lia|]. intros _ [g Hg]. discriminate. }
  destruct (evm_path s t) eqn:Hp.
  - destruct (Hevm eq_refl) as [Hok Hmono].
    destruct (deliver_ok_nonce_step_evm _ _ _ _ Hp Hok Hd) as (Hn & Hn' & e & He & Hall).
    split.
    + rewrite Hall. destruct (eff_nonce (e_accts e) a) as [n|] eqn:En; cbn; [|lia].
      eapply Hmono; eassumption.
    + intros <- Hdel. split; [exact Hn|]. rewrite Hn'. apply nonce_succ_gt. apply Hwrap; [reflexivity|exact Hdel].
  - pose proof (deliver_ok_nonce _ _ _ _ Hd) as Hn.
    pose proof (deliver_native_ok_nc _ _ _ _ Hp Hd a) as Hnc.
    destruct (decide (a = t_from t)) as [->|Hne].
    + assert (Hn' : nonce_of (work s') (t_from t) = (t_nonce t + 1) mod two64)
        by (unfold nc_of, nc in Hnc; unfold nonce_of; congruence).
      assert (Hlt : t_nonce t < (t_nonce t + 1) mod two64)
        by (apply nonce_succ_gt, Hwrap; [reflexivity|exists g; reflexivity]).
      split; [lia|]. intros _ _. split; [exact Hn|lia].
    + assert (Hn' : nonce_of (work s') a = nonce_of (work s) a)
        by (unfold nc_of, nc in Hnc; unfold nonce_of; congruence).
      split; [lia|]. intros E. congruence.
Qed.

Lemma step_mono a s o : hist_ok a s o → nonce_of (work s) a ≤ nonce_of (work (sstep s o)) a.
Proof.
  intros H. destruct o as [hd|t| |].
  - cbn [sstep]. rewrite begin_block_nonce. lia.
  - apply deliver_step_nonce. exact H.
  - cbn [sstep]. rewrite end_block_nonce. lia.
  - cbn [sstep]. rewrite commit_nonce. lia.
Qed.

(* along a run the nonce of an account never decreases *)
Lemma run_mono a ops : ∀ s, run_ok (hist_ok a) s ops → nonce_of (work s) a ≤ nonce_of (work (srun s ops)) a.
Proof.
  induction ops as [|o ops IH]; intros s H; [unfold srun; cbn; lia|].
  destruct H as [Ho Hr]. apply step_mono in Ho. specialize (IH _ Hr).
  unfold srun in *. cbn [foldl]. lia.
Qed.

(* Intended statement: a given (sender, nonce) succeeds at most once in any history, within a
   block or across blocks.  Positions i < j of the run both hold deliveries with the same sender
   and nonce; they cannot both succeed. *)
Theorem nonce_used_once s0 ops i j t1 t2 :
  run_ok (hist_ok (t_from t1)) s0 ops →
  (i < j)%nat → ops !! i = Some (SDeliver t1) → ops !! j = Some (SDeliver t2) →
  delivered (srun s0 (take i ops)) t1 → delivered (srun s0 (take j ops)) t2 →
  t_from t2 = t_from t1 → t_nonce t2 = t_nonce t1 → False.
Proof.
  intros Hrun Hij Hi Hj Hd1 Hd2 Hfrom Hnonce.
  set (a := t_from t1) in *.
  (* split the run: before i, the delivery of t1, between, the delivery of t2, the rest *)
  assert (Hsplit : take j ops = take i ops ++ SDeliver t1 :: drop (S i) (take j ops)).
  { assert (Hl : take j ops !! i = Some (SDeliver t1)) by (rewrite lookup_take by exact Hij; exact Hi).
    rewrite <- (take_drop_middle _ _ _ Hl) at 1. rewrite take_take. rewrite Nat.min_l by lia. reflexivity. }
  set (mid := drop (S i) (take j ops)) in *.
  assert (Hops : ops = take i ops ++ SDeliver t1 :: mid ++ SDeliver t2 :: drop (S j) ops).
  { rewrite <- (take_drop_middle _ _ _ Hj) at 1. rewrite Hsplit. rewrite <- app_assoc. reflexivity. }
  rewrite Hops in Hrun.
  apply run_ok_app in Hrun as [_ Hrun]. set (si := srun s0 (take i ops)) in *.
  cbn [run_ok] in Hrun. destruct Hrun as [H1 Hrun].
  apply run_ok_app in Hrun as [Hmid Hrun]. cbn [run_ok] in Hrun. destruct Hrun as [H2 _].
  assert (Hsj : srun s0 (take j ops) = srun (sstep si (SDeliver t1)) mid).
  { rewrite Hsplit, srun_app. reflexivity. }
  rewrite Hsj in Hd2. set (sj := srun (sstep si (SDeliver t1)) mid) in *.
  destruct (deliver_step_nonce a si t1 H1) as [_ Hs1]. destruct (Hs1 eq_refl Hd1) as [Hn1 Hgt].
  apply run_mono in Hmid. fold sj in Hmid.
  destruct (deliver_step_nonce a sj t2 H2) as [_ Hs2]. destruct (Hs2 Hfrom Hd2) as [Hn2 _].
  cbn [sstep] in Hmid. lia.
Qed.
Print Assumptions nonce_used_once.

(* ------------------------------------------------------------------ histories without contracts *)
(* state-independent form: no code marker at the start and no TRX_CONTRACT in the run, so every
   delivery takes the native path *)
Definition no_code (l : ledgers) : Prop := ∀ a, a_code (acct_of l a) = false.
Definition native_op (a : addr) (o : sop) : Prop :=
  match o with
  | SDeliver t => t_type t ≠ TRX_CONTRACT ∧ (t_from t = a → t_nonce t < two64 - 1)
  | _ => True
  end.

Lemma native_run_ok a ops : ∀ s, no_code (work s) → Forall (native_op a) ops → run_ok (hist_ok a) s ops.
Proof.
  induction ops as [|o ops IH]; intros s Hc Hf; [exact I|].
  apply Forall_cons in Hf as [Ho Hf]. cbn [run_ok].
  assert (Hnat : ∀ t, o = SDeliver t → evm_path s t = false).
  { intros t ->. destruct Ho as [Hty _]. apply native_path; [exact Hty|apply Hc]. }
  split.
  - destruct o as [hd|t| |]; try exact I. destruct Ho as [Hty Hw].
    split; [rewrite (Hnat t eq_refl); intros ?; discriminate|]. intros E _. apply Hw, E.
  - apply IH; [|exact Hf]. intros b.
    destruct o as [hd|t| |].
    + rewrite (nc_eq_code _ _ b (block_op_nc s (SBegin hd) ltac:(intros ?; discriminate))). apply Hc.
    + cbn [sstep]. destruct (deliver s t) as [s' r] eqn:Hd. cbn [fst].
      rewrite (deliver_native_code _ _ _ _ (Hnat t eq_refl) Hd). apply Hc.
    + rewrite (nc_eq_code _ _ b (block_op_nc s SEnd ltac:(intros ?; discriminate))). apply Hc.
    + rewrite (nc_eq_code _ _ b (block_op_nc s SCommit ltac:(intros ?; discriminate))). apply Hc.
Qed.

Corollary nonce_used_once_native s0 ops i j t1 t2 :
  no_code (work s0) → Forall (native_op (t_from t1)) ops →
  (i < j)%nat → ops !! i = Some (SDeliver t1) → ops !! j = Some (SDeliver t2) →
  delivered (srun s0 (take i ops)) t1 → delivered (srun s0 (take j ops)) t2 →
  t_from t2 = t_from t1 → t_nonce t2 = t_nonce t1 → False.
Proof. intros Hc Hf. apply nonce_used_once. apply native_run_ok; assumption. Qed.
Print Assumptions nonce_used_once_native.

(* ------------------------------------------------------------------ examples *)
Lemma st0_no_code : no_code (work st0).
Proof.
  assert (H : map_Forall (λ _ x, a_code x = false) (accts (work st0)))
    by (apply map_Forall_to_list; vm_compute; repeat constructor).
  intros a. unfold acct_of. destruct (accts (work st0) !! a) as [x|] eqn:E; [|reflexivity].
  exact (H a x E).
Qed.

(* a transfer, a second one, and replays of the first: in the same block, and in the next one *)
Definition tx_a0 := mk_tx TRX_TRANSFER 2%N 3%N 5 10 100 0 PNone.
Definition tx_a1 := mk_tx TRX_TRANSFER 2%N 1%N 7 10 100 1 PNone.
Definition hd2 : header := {| h_height := 2; h_proposer := Some 1%N; h_votes := []; h_evidence := [] |}.
Definition ops_ex : list sop :=
  [SDeliver tx_a0; SDeliver tx_a0; SDeliver tx_a1; SDeliver tx_a0; SEnd; SCommit; SBegin hd2; SDeliver tx_a0].

Example deliver_ok_nonce_step_ex :
  t_type tx_a0 ≠ TRX_CONTRACT ∧ a_code (acct_of (work st0) (t_to tx_a0)) = false ∧
  (deliver st0 tx_a0).2 = Ok 100 ∧
  nonce_of (work st0) 2%N = 0 ∧ nonce_of (work (deliver st0 tx_a0).1) 2%N = 1.
Proof. split; [discriminate|]. repeat split; vm_compute; reflexivity. Qed.

Example nonce_used_once_ex :
  no_code (work st0) ∧ Forall (native_op 2%N) ops_ex ∧
  (deliver (srun st0 (take 0 ops_ex)) tx_a0).2 = Ok 100 ∧
  (deliver (srun st0 (take 1 ops_ex)) tx_a0).2 = Err E_NONCE ∧
  (deliver (srun st0 (take 2 ops_ex)) tx_a1).2 = Ok 100 ∧
  (deliver (srun st0 (take 3 ops_ex)) tx_a0).2 = Err E_NONCE ∧
  (begin_block (srun st0 (take 6 ops_ex)) hd2).2 = Ok 0 ∧
  (deliver (srun st0 (take 7 ops_ex)) tx_a0).2 = Err E_NONCE.
Proof.
  split; [exact st0_no_code|]. split.
  { repeat (apply Forall_cons; split; [first [exact I | split; [discriminate | intros _; reflexivity]]|]).
    apply Forall_nil. exact I. }
  repeat split; vm_compute; reflexivity.
Qed.

(* an EVM delivery whose observed effect obeys the nonce hypothesis *)
Definition tx_evm : tx := {|
  t_type := TRX_CONTRACT; t_from := 2%N; t_to := 0%N; t_from_ok := true; t_to_ok := true; t_amount := 0;
  t_price := 10; t_gas := 100000; t_nonce := 0; t_payload := PContract 53000; t_hash := 78%N; t_sigok := true;
  t_evm := Some {| e_ok := true; e_gas := 60000; e_created := Some 99%N;
                   e_accts := [(2%N, 500 * amountPerPower - 600000, 1); (99%N, 0, 1)] |} |}.

Example deliver_ok_nonce_evm_ex :
  evm_path st0 tx_evm = true ∧ evm_effect_nonce_ok tx_evm ∧ evm_effect_mono st0 tx_evm ∧
  (deliver st0 tx_evm).2 = Ok 60000 ∧ nonce_of (work (deliver st0 tx_evm).1) 2%N = 1.
Proof.
  split; [reflexivity|]. split.
  { intros e [= <-]. reflexivity. }
  split.
  { intros e a n [= <-] Hn. unfold eff_nonce in Hn. cbn [e_accts foldl] in Hn. unfold eff_step in Hn.
    destruct (99 =? a)%N eqn:E99.
    - apply N.eqb_eq in E99. subst a. injection Hn as <-. vm_compute. discriminate.
    - destruct (2 =? a)%N eqn:E2; [|discriminate Hn].
      apply N.eqb_eq in E2. subst a. injection Hn as <-. vm_compute. discriminate. }
  split; vm_compute; reflexivity.
Qed.

(* why the no-wrap hypothesis is there: at nonce 2^64 - 1 a successful delivery takes the
   nonce back to 0 (Go's uint64 increment), after which old transactions would match again *)
Example nonce_wraps :
  ∃ s t, tx_wf t ∧ delivered s t ∧
         nonce_of (work s) (t_from t) = two64 - 1 ∧ nonce_of (work (deliver s t).1) (t_from t) = 0.
Proof.
  pose (s := {|
    committed := [];
    work := {| accts := {[ 1%N := {| a_nonce := 2 ^ 64 - 1; a_bal := 100000; a_code := false; a_name := 0%N; a_doc := 0%N |} ]};
               dels := ∅; frozen := ∅; rewards := ∅; props := ∅; fprops := ∅; lparams := pr0 10 |};
    gparams := pr0 10; newparams := None; alldels := []; lastvals := []; lim := limiter_reset [] (pr0 10);
    bctx := {| b_height := 1; b_proposer := None; b_feesum := 0; b_txs := 0 |}; last_height := 0 |}).
  exists s, (mk_tx TRX_TRANSFER 1%N 2%N 5 10 100 (2 ^ 64 - 1) PNone).
  split; [vm_compute; repeat split; try reflexivity; discriminate|].
  split; [exists 100; vm_compute; reflexivity|]. split; vm_compute; reflexivity.
Qed.
