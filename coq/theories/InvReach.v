(* InvReach.v — the run-level hypotheses of the history theorems, discharged from hypotheses on the
   inputs (genesis, operation list, transactions).

   A  params_ok_reachable   the active parameters stay well formed along every run, provided the
                            parameter documents of submitted GOVPARAMS proposals keep well-formed
                            parameters well formed when merged ([opts_ok], input-only).  The
                            submission check (GovCtrler.ValidateTrx) enforces NONE of the ranges of
                            [params_ok]: [doc_ok_fields] says exactly what a document must satisfy,
                            [submission_checks_no_range] / [params_ok_needs_opts_ok] are the witnesses.
   B  run_ok_reachable      [run_ok] (unique stake hashes, delegatee totals, powers in the int64
                            range, parameters in range) at every prefix of every run from a
                            well-formed genesis with fresh staking hashes.  Powers need no supply
                            bound: a stake's power is produced by AmountToPower (range checked at
                            validation) and afterwards only cut by slashing.
   C  C02_closed            C02_history without its hypothesis about the run.
   D  C09_closed            run_never_panics without its hypothesis about the run; BeginBlock /
                            EndBlock answering Ok is proved, not presupposed ([closed_run_total]:
                            on a well-bracketed list [hrun] never returns None).  [reach_facts]:
                            delegatee_ok, ranges_ok and supply < 2^63 RIGO in every state of the run,
                            i.e. the run-level hypothesis of C09_holds itself.
   F  fresh_run_reachable   [fresh_run] from a condition on the list alone (staking transactions
                            carry pairwise distinct non-zero hashes); C02_closed_total,
                            C09_closed_inputs: every hypothesis on the inputs.
   E  examples              the hypotheses are satisfiable (InvSupply's three-block chain). *)
From Rigo Require Import Base.
From stdpp Require Import gmap sorting.
From Rigo Require Import Spec SpecProps.
From Rigo Require InvFail InvNonce InvReward InvGov InvPanic.
From Rigo Require Import InvStake InvFee InvSupply.
Local Open Scope Z_scope.

Local Opaque two256 two255 two64 two63.

(* ================================================================== A. parameters stay well formed *)

(* a parameter document that keeps well-formed parameters well formed when merged in
   (the same notion as InvPanic.opt_ok) *)
Definition doc_ok (q : params) : Prop := ∀ p, params_ok p → params_ok (merge_params p q).

Lemma doc_ok_opt_ok q : doc_ok q ↔ InvPanic.opt_ok q.
Proof. reflexivity. Qed.

(* input-only hypothesis: every option document of every submitted parameter proposal is [doc_ok].
   Only transactions of proposal type carrying options of the parameter kind are constrained. *)
Definition tx_opts_ok (t : tx) : Prop :=
  t_type t = TRX_PROPOSAL →
  match t_payload t with
  | PProposal _ _ _ opttype opts _ =>
      opttype = PROPOSAL_GOVPARAMS → ∀ o q, o ∈ opts → o.2 = Some q → doc_ok q
  | _ => True
  end.
Definition opts_ok (ops : list sop) : Prop :=
  Forall (λ o, match o with SDeliver t => tx_opts_ok t | _ => True end) ops.

(* ---- what [doc_ok] means field by field: a field is left unset (0) or inside the range *)
Definition unset_or (P : Z → Prop) (x : Z) : Prop := x = 0 ∨ P x.
Definition doc_fields_ok (q : params) : Prop :=
  unset_or (λ x, 0 ≤ x < 2 ^ 192) (g_gasPrice q) ∧ unset_or (λ x, 0 ≤ x < two64) (g_minTrxGas q) ∧
  unset_or (λ x, 0 ≤ x < 2 ^ 192) (g_rewardPerPower q) ∧ unset_or (λ x, 0 ≤ x ≤ 100) (g_slashRatio q) ∧
  unset_or (λ x, 0 < x) (g_maxValidatorCnt q) ∧
  unset_or (λ x, amountPerPower ≤ x < two63 * amountPerPower) (g_minValidatorStake q) ∧
  unset_or (λ x, 0 ≤ x < two63 * amountPerPower) (g_minDelegatorStake q) ∧
  unset_or (λ x, 0 ≤ x < two63) (g_lazyRewardBlocks q) ∧
  unset_or (λ x, 0 ≤ x) (g_signedBlocksWindow q) ∧ unset_or (λ x, 0 ≤ x) (g_minSignedBlocks q) ∧
  unset_or (λ x, 0 ≤ x ≤ 100) (g_minSelfStakeRatio q).

Lemma pick_cases new old : (new = 0 ∧ pick new old = old) ∨ (new ≠ 0 ∧ pick new old = new).
Proof. unfold pick. destruct (new =? 0) eqn:E; [left|right]; split; try reflexivity; lia. Qed.

Lemma doc_fields_ok_doc_ok q : doc_fields_ok q → doc_ok q.
Proof.
  intros (F1 & F2 & F3 & F4 & F5 & F6 & F7 & F8 & F9 & F10 & F11) p
         (P1 & P2 & P3 & P4 & P5 & P6 & P7 & P8 & P9 & P10 & P11).
  unfold params_ok. cbn [merge_params g_gasPrice g_minTrxGas g_rewardPerPower g_slashRatio g_maxValidatorCnt
    g_minValidatorStake g_minDelegatorStake g_lazyRewardBlocks g_signedBlocksWindow g_minSignedBlocks g_minSelfStakeRatio].
  unfold unset_or in *.
  split; [destruct (pick_cases (g_gasPrice q) (g_gasPrice p)) as [[E ->]|[E ->]]; lia|].
  split; [destruct (pick_cases (g_minTrxGas q) (g_minTrxGas p)) as [[E ->]|[E ->]]; lia|].
  split; [destruct (pick_cases (g_rewardPerPower q) (g_rewardPerPower p)) as [[E ->]|[E ->]]; lia|].
  split; [destruct (pick_cases (g_slashRatio q) (g_slashRatio p)) as [[E ->]|[E ->]]; lia|].
  split; [destruct (pick_cases (g_maxValidatorCnt q) (g_maxValidatorCnt p)) as [[E ->]|[E ->]]; lia|].
  split; [destruct (pick_cases (g_minValidatorStake q) (g_minValidatorStake p)) as [[E ->]|[E ->]]; lia|].
  split; [destruct (pick_cases (g_minDelegatorStake q) (g_minDelegatorStake p)) as [[E ->]|[E ->]]; lia|].
  split; [destruct (pick_cases (g_lazyRewardBlocks q) (g_lazyRewardBlocks p)) as [[E ->]|[E ->]]; lia|].
  split; [destruct (pick_cases (g_signedBlocksWindow q) (g_signedBlocksWindow p)) as [[E ->]|[E ->]]; lia|].
  split; [destruct (pick_cases (g_minSignedBlocks q) (g_minSignedBlocks p)) as [[E ->]|[E ->]]; lia|].
  destruct (pick_cases (g_minSelfStakeRatio q) (g_minSelfStakeRatio p)) as [[E ->]|[E ->]]; lia.
Qed.

(* some well-formed parameter set, to read the fields of a document off a merge *)
Definition params_witness : params := {|
  g_version := 1; g_maxValidatorCnt := 1; g_minValidatorStake := amountPerPower; g_minDelegatorStake := 0;
  g_rewardPerPower := 0; g_lazyRewardBlocks := 0; g_lazyApplyingBlocks := 0; g_gasPrice := 0;
  g_minTrxGas := 0; g_maxTrxGas := 0; g_maxBlockGas := 0; g_minVotingPeriodBlocks := 0;
  g_maxVotingPeriodBlocks := 0; g_minSelfStakeRatio := 0; g_maxUpdatableStakeRatio := 0;
  g_maxIndividualStakeRatio := 0; g_slashRatio := 0; g_signedBlocksWindow := 0; g_minSignedBlocks := 0 |}.

Lemma params_witness_ok : params_ok params_witness.
Proof.
  Local Transparent two64 two63.
  unfold params_ok, params_witness, amountPerPower, two64, two63. cbn. lia.
  Local Opaque two64 two63.
Qed.

Lemma doc_ok_doc_fields_ok q : doc_ok q → doc_fields_ok q.
Proof.
  intros H. specialize (H _ params_witness_ok).
  destruct H as (P1 & P2 & P3 & P4 & P5 & P6 & P7 & P8 & P9 & P10 & P11).
  cbn [merge_params g_gasPrice g_minTrxGas g_rewardPerPower g_slashRatio g_maxValidatorCnt
    g_minValidatorStake g_minDelegatorStake g_lazyRewardBlocks g_signedBlocksWindow g_minSignedBlocks g_minSelfStakeRatio] in *.
  unfold doc_fields_ok, unset_or.
  split; [destruct (pick_cases (g_gasPrice q) (g_gasPrice params_witness)) as [[E _]|[E R]]; [left; exact E|right; rewrite R in P1; exact P1]|].
  split; [destruct (pick_cases (g_minTrxGas q) (g_minTrxGas params_witness)) as [[E _]|[E R]]; [left; exact E|right; rewrite R in P2; exact P2]|].
  split; [destruct (pick_cases (g_rewardPerPower q) (g_rewardPerPower params_witness)) as [[E _]|[E R]]; [left; exact E|right; rewrite R in P3; exact P3]|].
  split; [destruct (pick_cases (g_slashRatio q) (g_slashRatio params_witness)) as [[E _]|[E R]]; [left; exact E|right; rewrite R in P4; exact P4]|].
  split; [destruct (pick_cases (g_maxValidatorCnt q) (g_maxValidatorCnt params_witness)) as [[E _]|[E R]]; [left; exact E|right; rewrite R in P5; exact P5]|].
  split; [destruct (pick_cases (g_minValidatorStake q) (g_minValidatorStake params_witness)) as [[E _]|[E R]]; [left; exact E|right; rewrite R in P6; exact P6]|].
  split; [destruct (pick_cases (g_minDelegatorStake q) (g_minDelegatorStake params_witness)) as [[E _]|[E R]]; [left; exact E|right; rewrite R in P7; exact P7]|].
  split; [destruct (pick_cases (g_lazyRewardBlocks q) (g_lazyRewardBlocks params_witness)) as [[E _]|[E R]]; [left; exact E|right; rewrite R in P8; exact P8]|].
  split; [destruct (pick_cases (g_signedBlocksWindow q) (g_signedBlocksWindow params_witness)) as [[E _]|[E R]]; [left; exact E|right; rewrite R in P9; exact P9]|].
  split; [destruct (pick_cases (g_minSignedBlocks q) (g_minSignedBlocks params_witness)) as [[E _]|[E R]]; [left; exact E|right; rewrite R in P10; exact P10]|].
  destruct (pick_cases (g_minSelfStakeRatio q) (g_minSelfStakeRatio params_witness)) as [[E _]|[E R]]; [left; exact E|right; rewrite R in P11; exact P11].
Qed.

(* the exact content of the hypothesis *)
Theorem doc_ok_fields q : doc_ok q ↔ doc_fields_ok q.
Proof. split; [apply doc_ok_doc_fields_ok|apply doc_fields_ok_doc_ok]. Qed.

(* ---- the invariant: every stored option document of a parameter proposal is [doc_ok] *)
Definition odoc_ok (o : voption) : Prop := ∀ q, o_params o = Some q → doc_ok q.
Definition pdocs_ok (p : proposal) : Prop :=
  p_opttype p = PROPOSAL_GOVPARAMS → Forall odoc_ok (p_options p) ∧ (∀ o, p_major p = Some o → odoc_ok o).
Definition ldocs_ok (l : ledgers) : Prop :=
  map_Forall (λ _ p, pdocs_ok p) (props l) ∧ map_Forall (λ _ p, pdocs_ok p) (fprops l).
Definition docs_inv (s : state) : Prop :=
  params_ok (gparams s) ∧ (∀ m, newparams s = Some m → params_ok m) ∧ ldocs_ok (work s) ∧ ldocs_ok (base_of s).

Lemma odoc_ok_set_votes v o : odoc_ok o → odoc_ok (set_votes v o).
Proof. intros H. exact H. Qed.

Lemma alter_votes_docs (f : voption → Z) i os :
  Forall odoc_ok os → Forall odoc_ok (alter (λ o, set_votes (f o) o) i os).
Proof. intros H. apply Forall_alter; [exact H|]. intros o _ Ho. apply odoc_ok_set_votes. exact Ho. Qed.

Lemma cancel_vote_docs os v : Forall odoc_ok os → Forall odoc_ok (cancel_vote os v).1.
Proof.
  intros H. unfold cancel_vote. destruct (0 <=? v_choice v); cbn [fst]; [|exact H].
  apply (alter_votes_docs (λ o, o_votes o - v_power v)). exact H.
Qed.
Lemma do_vote_docs os v c : Forall odoc_ok os → Forall odoc_ok (do_vote os v c).1.
Proof.
  intros H. unfold do_vote. destruct (0 <=? c); cbn [fst]; [|exact H].
  apply (alter_votes_docs (λ o, o_votes o + v_power v)). exact H.
Qed.

Lemma prop_vote_docs p a c p' : prop_vote p a c = Some p' → pdocs_ok p → pdocs_ok p'.
Proof.
  unfold prop_vote. destruct (p_voters p !! a) as [v|]; [|discriminate]. cbn.
  pose proof (cancel_vote_docs (p_options p) v) as H1.
  destruct (cancel_vote (p_options p) v) as [o1 v1]. cbn [fst] in H1.
  pose proof (do_vote_docs o1 v1 c) as H2.
  destruct (do_vote o1 v1 c) as [o2 v2]. cbn [fst] in H2.
  intros [= <-] Hp Ht. cbn in Ht. destruct (Hp Ht) as [Ho Hm]. cbn. split; [auto|exact Hm].
Qed.

Lemma prop_punish_docs p a ratio : pdocs_ok p → pdocs_ok (prop_punish p a ratio).1.
Proof.
  intros Hp. unfold prop_punish. destruct (p_voters p !! a) as [v|]; [|exact Hp].
  pose proof (cancel_vote_docs (p_options p) v) as H1.
  destruct (cancel_vote (p_options p) v) as [o1 v1]. cbn [fst] in H1.
  set (v2 := {| v_power := _; v_choice := v_choice v1 |}).
  pose proof (do_vote_docs o1 v2 (v_choice v)) as H2.
  destruct (v_power v2 <=? 0); [|destruct (0 <=? v_choice v); [destruct (do_vote o1 v2 (v_choice v)) as [o' v']|]];
    cbn [fst]; intros Ht; cbn in Ht; destruct (Hp Ht) as [Ho Hm]; cbn; (split; [auto|exact Hm]).
Qed.

Lemma new_proposal_docs vals t start period apply opttype opts pok :
  tx_opts_ok t → t_type t = TRX_PROPOSAL → t_payload t = PProposal start period apply opttype opts pok →
  pdocs_ok (InvGov.new_proposal vals (t_hash t) start period apply opttype opts).
Proof.
  intros Hok Hty Hpl Ht. cbn in Ht. specialize (Hok Hty). rewrite Hpl in Hok. specialize (Hok Ht).
  cbn. split; [|discriminate].
  apply Forall_forall. intros o Ho. apply elem_of_list_In, in_map_iff in Ho as (x & <- & Hx).
  intros q Hq. cbn in Hq. apply (Hok x q); [apply elem_of_list_In; exact Hx|exact Hq].
Qed.

Lemma update_major_docs p p' : update_major p = Ok p' → pdocs_ok p → pdocs_ok p'.
Proof.
  intros Hu Hp. destruct (InvGov.update_major_spec _ _ Hu) as (o & r & Hs & Hopts & Hmaj & _ & _ & _ & _ & _ & _ & _ & Hty).
  intros Ht. rewrite Hty in Ht. destruct (Hp Ht) as [Ho Hm].
  assert (Hsorted : Forall odoc_ok (o :: r)) by (rewrite <- Hs; apply InvPanic.sort_opts_Forall; exact Ho).
  split; [rewrite Hopts; exact Hsorted|].
  intros o' Ho'. rewrite Hmaj in Ho'. destruct (p_majority p <=? o_votes o).
  - injection Ho' as <-. apply Forall_cons in Hsorted as [H _]. exact H.
  - apply Hm. exact Ho'.
Qed.

Lemma deliver_docs s t :
  tx_opts_ok t → map_Forall (λ _ p, pdocs_ok p) (props (work s)) →
  map_Forall (λ _ p, pdocs_ok p) (props (work (deliver s t).1)).
Proof.
  intros Hok H. destruct (deliver s t) as [s' r] eqn:Hd. cbn [fst].
  destruct (InvGov.deliver_inv _ _ _ _ Hd) as (_ & _ & _ & [(Hp & _)|(Hg & sender & l0 & l' & _ & _ & _ & Hgv & (G1 & _) & _ & Hge & Hp & _)]).
  { rewrite Hp. exact H. }
  rewrite Hp. destruct (decide (t_type t = TRX_PROPOSAL)) as [Ht|Ht].
  - destruct (InvGov.gov_execute_proposal _ _ _ _ Ht Hge) as (st & pe & ap & ot & os & pk & Hpl & ->). cbn [props set_props].
    apply map_Forall_insert_2; [eapply new_proposal_docs; eassumption|]. rewrite G1. exact H.
  - destruct (InvGov.gov_execute_voting _ _ _ _ Ht Hge) as (ph & choice & p0 & p' & _ & Hpp & Hvote & ->). cbn [props set_props].
    apply map_Forall_insert_2; [|rewrite G1; exact H].
    eapply prop_vote_docs; [exact Hvote|]. rewrite G1 in Hpp. exact (H _ _ Hpp).
Qed.

Lemma end_block_docs s : docs_inv s → docs_inv (end_block s).1.
Proof.
  intros (Hg & Hnp & (Wo & Wf) & (Bo & Bf)).
  pose proof (InvGov.end_block_params s) as Hpar. cbv zeta in Hpar.
  destruct (end_block s) as [s' r] eqn:He. cbn [fst] in *.
  destruct Hpar as (GP & CM & Hnew).
  assert (Hnp' : ∀ m, newparams s' = Some m → params_ok m).
  { destruct Hnew as [(E & _)|(k & p & o & newp & Hk & _ & Hty & Hmaj & Hop & E & _)].
    - rewrite E. exact Hnp.
    - intros m Hm. rewrite E in Hm. injection Hm as <-.
      destruct (Bf _ _ Hk Hty) as [_ Hm]. apply (Hm o Hmaj newp Hop). exact Hg. }
  destruct (InvGov.end_block_inv _ _ _ He) as (A & B & _ & _ & [(-> & _)|(l1 & l2 & np & Hf & Ha & (G1 & G2 & G3) & Hn)]).
  { split; [exact Hg|]. split; [exact Hnp|]. split; split; assumption. }
  unfold docs_inv. rewrite (InvGov.base_of_same _ _ A B), GP.
  split; [exact Hg|]. split; [exact Hnp'|]. split; [|split; assumption].
  destruct (InvGov.freeze_proposals_spec _ _ _ _ Hf) as (_ & Fz).
  destruct (InvGov.apply_proposals_spec _ _ _ _ _ _ Ha) as ((_&_&_&_&Ap) & Az & _).
  split.
  - intros k p Hk. rewrite G1, Ap in Hk. specialize (Fz k).
    destruct (props (base_of s) !! k) as [q|].
    + unfold InvGov.frozen_at in Fz. destruct (p_end q <? b_height (bctx s)).
      * destruct Fz as (Fz & _). unfold hash in *. congruence.
      * destruct Fz as (Fz & _). apply (Wo k). unfold hash in *. congruence.
    + destruct Fz as (Fz & _). apply (Wo k). unfold hash in *. congruence.
  - intros k q Hk. rewrite G2 in Hk.
    assert (Hk1 : fprops l1 !! k = Some q).
    { specialize (Az k). destruct (fprops (base_of s) !! k) as [q0|].
      - unfold InvGov.applied_at in Az. destruct (p_apply q0 <=? b_height (bctx s)).
        + destruct Az as (Az & _). unfold hash in *. congruence.
        + unfold hash in *. congruence.
      - unfold hash in *. congruence. }
    specialize (Fz k). destruct (props (base_of s) !! k) as [p|] eqn:Ep.
    + unfold InvGov.frozen_at in Fz. destruct (p_end p <? b_height (bctx s)).
      * destruct Fz as (_ & _ & p' & Hu & Hfp).
        pose proof (update_major_docs p p' Hu (Bo _ _ Ep)) as Hfr.
        destruct (p_major p') as [o|].
        -- assert (q = p') by (unfold hash in *; congruence). subst q. exact Hfr.
        -- apply (Wf k). unfold hash in *. congruence.
      * destruct Fz as (_ & Fz). apply (Wf k). unfold hash in *. congruence.
    + destruct Fz as (_ & Fz). apply (Wf k). unfold hash in *. congruence.
Qed.

Lemma docs_inv_step s o :
  docs_inv s → match o with SDeliver t => tx_opts_ok t | _ => True end → docs_inv (sstep s o).
Proof.
  intros Hs Ho. destruct o as [hd|t| |]; cbn [sstep].
  - destruct Hs as (Hg & Hnp & (Wo & Wf) & Hb).
    destruct (begin_block s hd) as [s' r] eqn:Hbb. cbn [fst].
    destruct (InvGov.begin_block_inv _ _ _ _ Hbb) as (A & B & C & _ & E & _ & [->|(_ & _ & Hp)]).
    { split; [exact Hg|]. split; [exact Hnp|]. split; [split|]; assumption. }
    unfold docs_inv. rewrite (InvGov.base_of_same _ _ A B), B, C.
    split; [exact Hg|]. split; [exact Hnp|]. split; [|exact Hb]. split.
    + rewrite Hp. apply (InvGov.gov_punish_forall pdocs_ok); [|exact Wo]. intros p a. apply prop_punish_docs.
    + rewrite E. exact Wf.
  - destruct Hs as (Hg & Hnp & (Wo & Wf) & Hb).
    destruct (InvGov.deliver_params_unchanged s t) as (A & N & _ & D & E & _). cbv zeta in *.
    unfold docs_inv. rewrite (InvGov.base_of_same _ _ E A), A, N.
    split; [exact Hg|]. split; [exact Hnp|]. split; [|exact Hb]. split.
    + apply deliver_docs; assumption.
    + rewrite D. exact Wf.
  - apply end_block_docs. exact Hs.
  - destruct Hs as (Hg & Hnp & Hw & _). unfold docs_inv, base_of. cbn [commit committed work gparams newparams].
    rewrite last_snoc. cbn [default].
    split; [destruct (newparams s) as [m|]; cbn [default]; [apply Hnp; reflexivity|exact Hg]|].
    split; [discriminate|]. split; exact Hw.
Qed.

Lemma init_chain_docs_inv g : params_ok (gen_params g) → docs_inv (init_chain g).
Proof.
  intros Hg. destruct (InvGov.init_chain_props g) as (P1 & P2).
  split; [exact Hg|]. split; [cbn; discriminate|]. split.
  - split; [rewrite P1|rewrite P2]; apply map_Forall_empty.
  - unfold base_of. change (committed (init_chain g)) with (@nil ledgers). cbn.
    split; apply map_Forall_empty.
Qed.

Lemma docs_inv_run ops : ∀ s, docs_inv s → opts_ok ops → docs_inv (srun s ops).
Proof.
  unfold srun. induction ops as [|o ops IH]; intros s Hs Hok; cbn [foldl]; [exact Hs|].
  apply Forall_cons in Hok as [Ho Hok]. apply IH; [|exact Hok]. apply docs_inv_step; assumption.
Qed.

Lemma opts_ok_prefix pre ops : pre `prefix_of` ops → opts_ok ops → opts_ok pre.
Proof. intros [post ->] H. apply Forall_app in H as [H _]. exact H. Qed.

(* A.  Along every run from a genesis with well-formed parameters whose submitted parameter
   documents are [doc_ok], the active parameters are well formed after every prefix. *)
Theorem params_ok_reachable g ops :
  params_ok (gen_params g) → opts_ok ops →
  ∀ pre, pre `prefix_of` ops → params_ok (gparams (srun (init_chain g) pre)).
Proof.
  intros Hg Hok pre Hpre.
  destruct (docs_inv_run pre (init_chain g) (init_chain_docs_inv g Hg) (opts_ok_prefix _ _ Hpre Hok)) as (H & _).
  exact H.
Qed.
Print Assumptions params_ok_reachable.

(* ---- the hypothesis [opts_ok] is not implied by the submission check.
   GovCtrler.ValidateTrx looks at the option list only to see that it is not empty (and at the parse
   flag the decoder computed): two proposal transactions that differ only in their option documents
   are validated alike.  None of the eleven ranges of [doc_fields_ok] is enforced at submission,
   at voting, at freezing or at applying. *)
Definition with_opts (t : tx) (opts' : list (N * option params)) : tx :=
  match t_payload t with
  | PProposal st pe ap ot _ pk =>
      {| t_type := t_type t; t_from := t_from t; t_to := t_to t; t_from_ok := t_from_ok t; t_to_ok := t_to_ok t;
         t_amount := t_amount t; t_price := t_price t; t_gas := t_gas t; t_nonce := t_nonce t;
         t_payload := PProposal st pe ap ot opts' pk; t_hash := t_hash t; t_sigok := t_sigok t; t_evm := t_evm t |}
  | _ => t
  end.

Theorem submission_checks_no_range s t opts' :
  opts' ≠ [] →
  (∀ st pe ap ot opts pk, t_payload t = PProposal st pe ap ot opts pk → opts ≠ []) →
  gov_validate s (with_opts t opts') = gov_validate s t ∧
  common_validation0 (gparams s) (with_opts t opts') = common_validation0 (gparams s) t ∧
  (∀ sender, common_validation1 sender (with_opts t opts') = common_validation1 sender t).
Proof.
  intros Hne Hne'. unfold with_opts.
  destruct (t_payload t) as [| | |st pe ap ot opts pk| | |] eqn:Ep; try (repeat split; reflexivity).
  specialize (Hne' _ _ _ _ _ _ eq_refl).
  split; [|split; [reflexivity|intros sender; reflexivity]].
  unfold gov_validate. cbn [t_type t_to t_from t_payload t_hash]. rewrite Ep.
  destruct opts as [|o1 opts]; [contradiction|]. destruct opts' as [|o1' opts']; [contradiction|]. reflexivity.
Qed.

(* and it is needed: on InvPanic's example chain a proposal whose document sets maxValidatorCnt to
   -1 is submitted, voted, frozen and applied -- every operation answers Ok -- and the active
   parameters are no longer [params_ok] *)
Theorem params_ok_needs_opts_ok : ∃ g ops,
  params_ok (gen_params g) ∧ InvPanic.all_ok (init_chain g) ops = true ∧ ¬ opts_ok ops ∧
  ¬ params_ok (gparams (srun (init_chain g) ops)).
Proof.
  exists InvPanic.gen4, (InvPanic.run_a (Some InvPanic.opt_bad) ++ InvPanic.run_b ++ InvPanic.run_c).
  split; [exact InvPanic.pr1_ok|]. split; [vm_compute; reflexivity|]. split.
  - intros H. unfold opts_ok in H. apply Forall_app in H as [H _]. unfold InvPanic.run_a in H.
    do 7 (apply Forall_cons in H as [_ H]). apply Forall_cons in H as [H _].
    specialize (H eq_refl). cbn in H.
    specialize (H eq_refl (1%N, Some InvPanic.opt_bad) InvPanic.opt_bad (elem_of_list_here _ _) eq_refl).
    specialize (H _ params_witness_ok). destruct H as (_ & _ & _ & _ & H5 & _).
    vm_compute in H5. discriminate.
  - intros (_ & _ & _ & _ & H5 & _). vm_compute in H5. discriminate.
Qed.

(* ================================================================== B. run_ok at every prefix *)

(* ---- powers stay in the int64 range: no supply bound is needed for that *)
Lemma power_of_range a : 0 ≤ power_of a < two63.
Proof.
  unfold power_of, amount_to_power. cbv zeta.
  set (v := wrap64 _). pose proof (wrap64_range ((a / amountPerPower) mod two64)) as Hr. fold v in Hr.
  unfold in64 in Hr. pose proof InvPanic.two63_pos as H63.
  destruct (v <? 0) eqn:E; simpl; [lia|]. apply Z.ltb_ge in E. lia.
Qed.

Lemma frozen_stakes_same l l' : frozen l' = frozen l → frozen_stakes l' = frozen_stakes l.
Proof. intros H. unfold frozen_stakes. rewrite H. reflexivity. Qed.

Lemma powers_ok_evolves (Q : stake → stake → Prop) R l l' :
  (∀ x y, Q x y → 0 ≤ s_power x < two63 → 0 ≤ s_power y < two63) →
  evolves Q R l l' → powers_ok l → powers_ok l'.
Proof.
  intros HQ [A B] Hp st Hin. apply elem_of_app in Hin as [Hin|Hin].
  - apply InvStake.elem_of_bonded in Hin as (a & d' & Hd' & Hst).
    destruct (A _ _ Hd') as (d & Hd & _ & Hq). destruct (Hq _ Hst) as (s0 & Hs0 & Hqs).
    apply (HQ _ _ Hqs). apply Hp. apply elem_of_app. left. apply InvStake.elem_of_bonded. eauto.
  - apply InvStake.elem_of_frozen in Hin as (k & Hk).
    destruct (B _ _ Hk) as [Hold|(a & d & s0 & s1 & Hd & Hs0 & Hq & -> & _)].
    + apply Hp. apply elem_of_app. right. apply InvStake.elem_of_frozen. eauto.
    + cbn [with_refund s_power]. apply (HQ _ _ Hq). apply Hp. apply elem_of_app. left.
      apply InvStake.elem_of_bonded. eauto.
Qed.

Lemma powers_ok_add l l' a d st :
  powers_ok l → (dels l !! a = Some d ∨ d_stakes d = []) → 0 ≤ s_power st < two63 →
  dels l' = <[a := add_stake d st]> (dels l) → frozen l' = frozen l → powers_ok l'.
Proof.
  intros Hp Hd Hst HD HF x Hin. apply elem_of_app in Hin as [Hin|Hin].
  - apply InvStake.elem_of_bonded in Hin as (a' & d' & Hd' & Hx). rewrite HD in Hd'.
    destruct (decide (a' = a)) as [->|Hne].
    + rewrite lookup_insert in Hd'. injection Hd' as <-. cbn [add_stake d_stakes] in Hx.
      apply elem_of_app in Hx as [Hx|Hx].
      * destruct Hd as [Hd|Hd]; [|rewrite Hd in Hx; inversion Hx].
        apply Hp. apply elem_of_app. left. apply InvStake.elem_of_bonded. eauto.
      * apply elem_of_list_singleton in Hx. subst x. exact Hst.
    + rewrite lookup_insert_ne in Hd' by congruence.
      apply Hp. apply elem_of_app. left. apply InvStake.elem_of_bonded. eauto.
  - rewrite (frozen_stakes_same _ _ HF) in Hin. apply Hp. apply elem_of_app. right. exact Hin.
Qed.

Lemma eq_keeps_range (x y : stake) : x = y → 0 ≤ s_power x < two63 → 0 ≤ s_power y < two63.
Proof. intros -> H. exact H. Qed.
Lemma cut_keeps_range (x y : stake) : stake_cut x y → 0 ≤ s_power x < two63 → 0 ≤ s_power y < two63.
Proof. intros [_ H] Hx. specialize (H (proj1 Hx)). lia. Qed.

Lemma deliver_powers_ok s t : powers_ok (work s) → powers_ok (work (deliver s t).1).
Proof.
  intros Hp. destruct (deliver s t) as [s' r] eqn:E. cbn [fst].
  apply deliver_moves in E as [Hev|(_ & d & Hd & HD & HF)].
  - eapply powers_ok_evolves; [exact eq_keeps_range|exact Hev|exact Hp].
  - eapply (powers_ok_add (work s) (work s') (t_to t) d); [exact Hp| | |exact HD|exact HF].
    + destruct Hd as [Hd|(_ & _ & ->)]; [left; exact Hd|right; reflexivity].
    + cbn [stake_of_tx s_power]. apply power_of_range.
Qed.

Lemma sstep_powers_ok s o :
  0 ≤ g_slashRatio (gparams s) ≤ 100 → powers_ok (work s) → powers_ok (work (sstep s o)).
Proof.
  intros Hr Hp. destruct o as [hd|t| |]; cbn [sstep].
  - eapply powers_ok_evolves; [exact cut_keeps_range|apply (begin_block_evolves_cut s hd Hr)|exact Hp].
  - apply deliver_powers_ok. exact Hp.
  - eapply powers_ok_evolves; [exact eq_keeps_range|apply (end_block_evolves s 0)|exact Hp].
  - exact Hp.
Qed.

Lemma params_ok_slash p : params_ok p → 0 ≤ g_slashRatio p ≤ 100.
Proof. intros (_ & _ & _ & H & _). exact H. Qed.

Lemma powers_ok_run ops : ∀ s,
  docs_inv s → powers_ok (work s) → opts_ok ops → powers_ok (work (srun s ops)).
Proof.
  unfold srun. induction ops as [|o ops IH]; intros s Hs Hp Hok; cbn [foldl]; [exact Hp|].
  apply Forall_cons in Hok as [Ho Hok]. pose proof Hs as (Hg & _).
  apply IH; [apply docs_inv_step; assumption| |exact Hok].
  apply sstep_powers_ok; [apply params_ok_slash; exact Hg|exact Hp].
Qed.

(* ---- genesis *)
Lemma init_chain_powers_ok g :
  Forall (λ v : addr * Z, 0 ≤ v.2 < two63) (gen_validators g) → powers_ok (work (init_chain g)).
Proof.
  intros Hv. destruct (init_chain_pre_sf g) as (l2 & [HD HF] & ->).
  assert (H2 : powers_ok l2).
  { intros st Hin. apply elem_of_app in Hin as [Hin|Hin].
    - apply InvStake.elem_of_bonded in Hin as (a & d & Hd & _). rewrite HD in Hd. cbn in Hd.
      rewrite lookup_empty in Hd. discriminate.
    - apply InvStake.elem_of_frozen in Hin as (k & Hk). rewrite HF in Hk. cbn in Hk.
      rewrite lookup_empty in Hk. discriminate. }
  clear HD HF. revert l2 H2. induction Hv as [|v vs Hv0 Hvs IH]; intros l2 H2; cbn [foldl]; [exact H2|].
  apply IH. eapply (powers_ok_add l2 _ v.1 (new_delegatee v.1) (genesis_stake v)); [exact H2| | | |].
  - right. reflexivity.
  - exact Hv0.
  - reflexivity.
  - reflexivity.
Qed.

Lemma init_chain_accts g : ∀ a x, accts (work (init_chain g)) !! a = Some x →
  x = acct0 ∨ ∃ h, h ∈ gen_holders g ∧ a_bal x = h.2 ∧ a_nonce x = 0.
Proof.
  unfold init_chain. cbn [work].
  set (P := λ l : ledgers, ∀ a x, accts l !! a = Some x → x = acct0 ∨ ∃ h, h ∈ gen_holders g ∧ a_bal x = h.2 ∧ a_nonce x = 0).
  change (P (foldl (λ l v, set_dels l (<[v.1 := add_stake (new_delegatee v.1)
               {| s_from := v.1; s_to := v.1; s_hash := 0%N; s_start := 1; s_refund := 0; s_power := v.2 |}]> (dels l)))
            (foldl (λ l v, (find_or_new l v.1).1)
               (foldl (λ l h, set_acct l h.1 {| a_nonce := 0; a_bal := h.2; a_code := false; a_name := 0%N; a_doc := 0%N |})
                  (empty_ledgers (gen_params g)) (gen_holders g)) (gen_validators g)) (gen_validators g))).
  apply InvPanic.foldl_inv; [intros l v _ Hl; exact Hl|].
  apply InvPanic.foldl_inv.
  { intros l v _ Hl a x. unfold find_or_new. destruct (accts l !! v.1) eqn:E; cbn [fst]; [apply Hl|].
    cbn [set_acct accts]. intros Hx. apply lookup_insert_Some in Hx as [[_ <-]|[_ Hx]]; [left; reflexivity|].
    apply (Hl a x Hx). }
  apply InvPanic.foldl_inv.
  { intros l h Hh Hl a x. cbn [set_acct accts]. intros Hx.
    apply lookup_insert_Some in Hx as [[_ <-]|[_ Hx]]; [|apply (Hl a x Hx)].
    right. exists h. split; [exact Hh|split; reflexivity]. }
  intros a x Hx. cbn in Hx. rewrite lookup_empty in Hx. discriminate.
Qed.

Lemma init_chain_bal_range g :
  Forall (λ h : addr * Z, 0 ≤ h.2 < two256) (gen_holders g) → bal_range (work (init_chain g)).
Proof.
  intros Hh a x Hx. destruct (init_chain_accts g a x Hx) as [->|(h & Hin & -> & _)].
  - cbn. pose proof two256_pos. lia.
  - rewrite Forall_forall in Hh. apply (Hh h Hin).
Qed.

(* a well-formed genesis document: parameters in range, at most one validator (all genesis stakes
   carry hash 0: with two validators [hashes_unique] fails in the genesis state itself, the known
   finding C02_collision_refuted / C11_collision_refuted), validator powers in the int64 range,
   holder balances in the uint256 range *)
Definition genesis_ok (g : genesis) : Prop :=
  params_ok (gen_params g) ∧ (length (gen_validators g) ≤ 1)%nat ∧
  Forall (λ v : addr * Z, 0 ≤ v.2 < two63) (gen_validators g) ∧
  Forall (λ h : addr * Z, 0 ≤ h.2 < two256) (gen_holders g).

Lemma fresh_run_prefix pre post : ∀ s, fresh_run s (pre ++ post) → fresh_run s pre.
Proof.
  induction pre as [|o pre IH]; intros s H; cbn [fresh_run app] in *; [exact I|].
  destruct H as [H1 H2]. split; [exact H1|]. apply IH. exact H2.
Qed.

Lemma dels_ok_totals_ok l : dels_ok l → totals_ok l.
Proof. intros H a d Hd. destruct (H a d Hd) as (_ & Ht & _). exact Ht. Qed.

(* B.  [run_ok] holds after every prefix of every run from a well-formed genesis in which executed
   staking transactions carry fresh hashes and parameter documents are [doc_ok].  Neither the
   supply bound, nor [txs_ok], nor BeginBlock / EndBlock succeeding is needed. *)
Theorem run_ok_reachable g ops :
  genesis_ok g → fresh_run (init_chain g) ops → opts_ok ops →
  ∀ pre, pre `prefix_of` ops → run_ok (srun (init_chain g) pre).
Proof.
  intros (Hg & Hlen & Hpw & _) Hfresh Hok pre Hpre.
  pose proof (opts_ok_prefix _ _ Hpre Hok) as Hokp. destruct Hpre as [post ->].
  split; [|split; [|split]].
  - apply hashes_unique_reachable; [exact Hlen|]. eapply fresh_run_prefix. exact Hfresh.
  - apply dels_ok_totals_ok. apply dels_ok_reachable.
  - apply powers_ok_run; [apply init_chain_docs_inv; exact Hg|apply init_chain_powers_ok; exact Hpw|exact Hokp].
  - destruct (docs_inv_run pre (init_chain g) (init_chain_docs_inv g Hg) Hokp) as (H & _). exact H.
Qed.
Print Assumptions run_ok_reachable.

(* the form asked for (with the history and supply hypotheses of C02_history, which are not used) *)
Corollary run_ok_reachable_hist g ops s p gh :
  hrun (init_chain g, PIdle, ghost0) ops = Some (s, p, gh) →
  genesis_ok g → fresh_run (init_chain g) ops → txs_ok ops → opts_ok ops →
  supply (work (init_chain g)) + gh_withdrawn gh < supply_bound →
  ∀ pre, pre `prefix_of` ops → run_ok (srun (init_chain g) pre).
Proof. intros _ Hg Hf _ Ho _. apply run_ok_reachable; assumption. Qed.

(* ================================================================== C. C02 without run hypotheses *)
Theorem C02_closed g ops s p gh :
  hrun (init_chain g, PIdle, ghost0) ops = Some (s, p, gh) →
  genesis_ok g → fresh_run (init_chain g) ops → txs_ok ops → opts_ok ops →
  supply (work (init_chain g)) + gh_withdrawn gh < supply_bound →
  s = srun (init_chain g) ops ∧
  C02_equation g s p gh ∧
  bal_range (work s) ∧
  (∀ a, 0 ≤ bal_of (work s) a < supply_bound) ∧
  0 ≤ gh_withdrawn gh ∧ 0 ≤ gh_slashed gh ∧ 0 ≤ gh_burned gh.
Proof.
  intros Hrun Hg Hfresh Htx Hok Hbound.
  apply (C02_history g ops s p gh Hrun); [|exact Htx| |exact Hbound].
  - apply run_ok_reachable; assumption.
  - apply init_chain_bal_range. apply Hg.
Qed.
Print Assumptions C02_closed.

(* ================================================================== D. C09 without run hypotheses *)

(* rewards withdrawn by the successful deliveries of a run: the [gh_withdrawn] component of the
   ghost state, as a total function of the run (it does not presuppose that BeginBlock / EndBlock
   answer Ok) *)
Definition minted1 (s : state) (o : sop) : Z :=
  match o with
  | SDeliver t => match (deliver s t).2 with Ok _ => withdrawn_of t | _ => 0 end
  | _ => 0
  end.
Fixpoint minted (s : state) (ops : list sop) : Z :=
  match ops with [] => 0 | o :: r => minted1 s o + minted (sstep s o) r end.

Lemma hstep_minted s p gh o s' p' gh' :
  hstep (s, p, gh) o = Some (s', p', gh') → gh_withdrawn gh' = gh_withdrawn gh + minted1 s o.
Proof.
  unfold hstep, minted1. destruct p, o as [hd|t| |]; try discriminate.
  - destruct (h_height hd =? last_height s + 1); [|discriminate].
    destruct (begin_block s hd) as [s1 [x|e|pp]]; [|discriminate..]. intros [= _ _ <-]. cbn. lia.
  - destruct (deliver s t) as [s1 [x|e|pp]]; intros [= _ _ <-]; cbn; lia.
  - destruct (end_block s) as [s1 [x|e|pp]]; [|discriminate..]. intros [= _ _ <-]. cbn. lia.
  - intros [= _ _ <-]. lia.
Qed.

Lemma hrun_minted ops : ∀ s p gh s' p' gh',
  hrun (s, p, gh) ops = Some (s', p', gh') → gh_withdrawn gh' = gh_withdrawn gh + minted s ops.
Proof.
  induction ops as [|o ops IH]; intros s p gh s' p' gh'; cbn [hrun minted].
  - intros [= _ _ <-]. lia.
  - destruct (hstep (s, p, gh) o) as [[[s1 p1] gh1]|] eqn:E; [|discriminate].
    intros H. pose proof (hstep_sstep _ _ _ _ _ _ _ E) as ->.
    rewrite (IH _ _ _ _ _ _ H), (hstep_minted _ _ _ _ _ _ _ E). lia.
Qed.

Lemma minted1_nonneg s o : match o with SDeliver t => payload_wf t | _ => True end → 0 ≤ minted1 s o.
Proof.
  unfold minted1. destruct o as [hd|t| |]; try lia. intros Hp.
  destruct ((deliver s t).2); try lia. apply withdrawn_of_nonneg. exact Hp.
Qed.

Lemma minted_nonneg ops : txs_ok ops → ∀ s, 0 ≤ minted s ops.
Proof.
  induction ops as [|o ops IH]; intros Htx s; cbn [minted]; [lia|].
  apply Forall_cons in Htx as [Ho Htx]. specialize (IH Htx (sstep s o)).
  assert (0 ≤ minted1 s o); [|lia]. apply minted1_nonneg. destruct o; try exact I. apply Ho.
Qed.

(* an input-only upper bound: everything the withdrawal transactions of the list ask for *)
Definition requested (ops : list sop) : Z :=
  sumZ_with (λ o, match o with SDeliver t => withdrawn_of t | _ => 0 end) ops.

Lemma requested_cons o r :
  requested (o :: r) = match o with SDeliver t => withdrawn_of t | _ => 0 end + requested r.
Proof. reflexivity. Qed.

Lemma minted_le_requested ops : txs_ok ops → ∀ s, minted s ops ≤ requested ops.
Proof.
  induction ops as [|o ops IH]; intros Htx s; cbn [minted]; [unfold requested; cbn; lia|].
  apply Forall_cons in Htx as [Ho Htx]. specialize (IH Htx (sstep s o)).
  rewrite requested_cons.
  assert (minted1 s o ≤ match o with SDeliver t => withdrawn_of t | _ => 0 end); [|lia].
  unfold minted1. destruct o as [hd|t| |]; try lia.
  destruct Ho as (_ & Hp & _). pose proof (withdrawn_of_nonneg _ Hp). destruct ((deliver s t).2); lia.
Qed.

(* ---- the facts InvPanic takes from C02 / C11, from what sections A-C provide *)
Lemma ext_ok_from_supply s :
  dels_ok (work s) → bal_range (work s) → powers_ok (work s) →
  supply (work s) < two63 * amountPerPower → InvPanic.ext_ok s.
Proof.
  intros Hd Hra Hrs Hsup. set (l := work s) in *. pose proof InvPanic.apP_pos as Hp.
  assert (Hb : ∀ st, st ∈ bonded_stakes l → 0 ≤ s_power st).
  { intros st Hst. assert (0 ≤ s_power st < two63); [|lia]. apply (Hrs st), elem_of_app. left. exact Hst. }
  assert (Hf : 0 ≤ frozen_power l).
  { apply InvPanic.sum_power_nonneg. intros st Hst. assert (0 ≤ s_power st < two63); [|lia].
    apply (Hrs st), elem_of_app. right. exact Hst. }
  destruct (InvPanic.total_balance_ge l) as [HT0 HT]; [intros a x Hx; apply Hra in Hx; lia|].
  assert (HD : ∀ a d, dels l !! a = Some d → 0 ≤ d_self d ≤ d_total d ∧ d_total d ≤ bonded_power l).
  { intros a d Had. destruct (Hd a d Had) as (_ & Et & Es & _).
    assert (Hin : (a, d) ∈ map_to_list (dels l)) by (apply elem_of_map_to_list; exact Had).
    assert (Hn : ∀ st, st ∈ d_stakes d → 0 ≤ s_power st).
    { intros st Hst. apply Hb. exact (InvPanic.concat_elem (λ kv : addr * delegatee, d_stakes kv.2) _ (a, d) st Hin Hst). }
    pose proof (InvPanic.sum_power_of_bounds a _ Hn) as Hsb.
    pose proof (InvPanic.sum_concat_ge (λ kv : addr * delegatee, d_stakes kv.2) _ (a, d) Hin Hb) as Hge.
    cbv beta in Hge. cbn [snd] in Hge. unfold bonded_power, bonded_stakes. lia. }
  assert (HB : 0 ≤ bonded_power l) by (apply InvPanic.sum_power_nonneg; exact Hb).
  unfold supply in Hsup. fold l in Hsup.
  split; [split|split].
  - intros a x Hx. specialize (HT _ _ Hx). nia.
  - intros a d b x Had Hx. specialize (HT _ _ Hx). destruct (HD _ _ Had) as [_ Hle]. nia.
  - intros a d Had. destruct (HD _ _ Had) as [H1 _]. lia.
  - intros a d Had. destruct (HD _ _ Had) as [H1 _]. lia.
Qed.

(* the two phase vocabularies *)
Definition phase_rel (ph : InvPanic.phase) (p : phase) : Prop :=
  match ph, p with
  | InvPanic.Idle, PIdle | InvPanic.InBlock, POpen | InvPanic.Ended, PEnded => True
  | _, _ => False
  end.

(* a step that answers is a step of [hstep] *)
Lemma hstep_total ph n s p gh o r :
  InvPanic.phase_inv ph n s → InvPanic.bracketed ph n (o :: r) → phase_rel ph p →
  InvPanic.step_answers s o →
  ∃ p' gh', hstep (s, p, gh) o = Some (sstep s o, p', gh') ∧ phase_rel (InvPanic.next_phase ph n o).1 p'.
Proof.
  intros (_ & Hn & Hlast & _) Hbr Hrel Ha.
  destruct ph, o as [hd|t| |]; cbn [InvPanic.bracketed] in Hbr; try contradiction;
    destruct p; cbn [phase_rel] in Hrel; try contradiction;
    unfold hstep; cbn [sstep InvPanic.step_answers InvPanic.next_phase fst] in *.
  - destruct Hbr as (Hh & _).
    assert (Eh : (h_height hd =? last_height s + 1) = true) by (apply Z.eqb_eq; lia). rewrite Eh.
    destruct (begin_block s hd) as [s1 res]. cbn [fst snd] in *. destruct Ha as [x ->].
    eexists _, _. split; [reflexivity|exact I].
  - destruct (deliver s t) as [s1 [x|e|pp]]; cbn [fst]; eexists _, _; (split; [reflexivity|exact I]).
  - destruct (end_block s) as [s1 res]. cbn [fst snd] in *. destruct Ha as [x ->].
    eexists _, _. split; [reflexivity|exact I].
  - eexists _, _. split; [reflexivity|exact I].
Qed.

(* what holds in every state of such a run: C11 bookkeeping, balances and powers in range, and
   the supply below 2^63 RIGO -- the facts InvPanic's run theorem takes from outside *)
Definition reach_ok (s : state) : Prop :=
  dels_ok (work s) ∧ bal_range (work s) ∧ powers_ok (work s) ∧ supply (work s) < two63 * amountPerPower.

Lemma reach_ok_here S0 s p gh W :
  hist_inv S0 (s, p, gh) → run_ok s → dels_ok (work s) → gh_withdrawn gh ≤ W → S0 + W < supply_bound →
  reach_ok s.
Proof.
  intros Hh (_ & _ & Hpw & _) Hdl HW Hb.
  destruct (hist_inv_bal S0 s p gh W Hh Hpw HW) as (_ & Hpend & Hsup & _).
  split; [exact Hdl|]. split; [apply Hh|]. split; [exact Hpw|]. unfold supply_bound in Hb. lia.
Qed.

Lemma reach_ok_ext_ok s : reach_ok s → InvPanic.ext_ok s.
Proof. intros (H1 & H2 & H3 & H4). apply ext_ok_from_supply; assumption. Qed.

Lemma along_split (Q : state → Prop) ops : ∀ s, along Q s ops → ∀ pre post, ops = pre ++ post → Q (srun s pre).
Proof.
  induction ops as [|o r IH]; intros s H pre post E.
  - destruct pre; [|discriminate]. apply H.
  - destruct pre as [|o' pre]; [apply H|]. injection E as <- E. destruct H as [_ H].
    apply (IH _ H pre post E).
Qed.

Lemma closed_run ops : ∀ S0 ph n s p gh,
  InvPanic.phase_inv ph n s → InvPanic.bracketed ph n ops → phase_rel ph p →
  hist_inv S0 (s, p, gh) → along run_ok s ops → along (λ s, dels_ok (work s)) s ops →
  txs_ok ops → S0 + gh_withdrawn gh + minted s ops < supply_bound →
  InvPanic.run_answers s ops ∧ (∃ s' p' gh', hrun (s, p, gh) ops = Some (s', p', gh')) ∧ along reach_ok s ops.
Proof.
  induction ops as [|o r IH]; intros S0 ph n s p gh Hinv Hbr Hrel Hh Hok Hdl Htx Hbound.
  { split; [exact I|]. split; [eexists _, _, _; reflexivity|]. split; [|exact I].
    cbn [minted] in Hbound. apply (reach_ok_here S0 s p gh (gh_withdrawn gh) Hh); [apply Hok|apply Hdl|lia|lia]. }
  cbn [along] in Hok, Hdl. destruct Hok as [Hok Hokr]. destruct Hdl as [Hdl Hdlr].
  apply Forall_cons in Htx as [Ho Htx]. cbn [minted] in Hbound.
  pose proof (minted_nonneg r Htx (sstep s o)) as Hm0.
  assert (Hm1 : 0 ≤ minted1 s o) by (apply minted1_nonneg; destruct o; try exact I; apply Ho).
  assert (Hreach : reach_ok s).
  { apply (reach_ok_here S0 s p gh (gh_withdrawn gh) Hh); [exact Hok|exact Hdl|lia|lia]. }
  pose proof (reach_ok_ext_ok s Hreach) as Hext.
  destruct (InvPanic.step_inv ph n s o r Hinv Hbr Hext) as (Ha & Hinv' & Hbr').
  destruct (hstep_total ph n s p gh o r Hinv Hbr Hrel Ha) as (p' & gh' & Hst & Hrel').
  pose proof (hstep_minted _ _ _ _ _ _ _ Hst) as Hgw.
  assert (Hh' : hist_inv S0 (sstep s o, p', gh')).
  { apply (hist_step S0 s p gh o _ _ _ Hst Hok Ho Hh). lia. }
  destruct (IH S0 _ _ (sstep s o) p' gh' Hinv' Hbr' Hrel' Hh' Hokr Hdlr Htx ltac:(lia))
    as (Hans & (s' & p'' & gh'' & Hrun) & Hal).
  split; [split; assumption|]. split; [|split; assumption].
  exists s', p'', gh''. cbn [hrun]. rewrite Hst. exact Hrun.
Qed.

Lemma bracketed_opts_ok ops : ∀ ph n, InvPanic.bracketed ph n ops → opts_ok ops.
Proof.
  induction ops as [|o r IH]; intros ph n Hbr; [constructor|].
  destruct ph, o as [hd|t| |]; cbn [InvPanic.bracketed] in Hbr; try contradiction.
  - destruct Hbr as (_ & _ & Hbr). constructor; [exact I|eapply IH; exact Hbr].
  - destruct Hbr as ((_ & _ & _ & Hpp) & Hbr). constructor; [|eapply IH; exact Hbr].
    intros _. unfold InvPanic.proposal_params_ok in Hpp. destruct (t_payload t); try exact I.
    intros _ o q Ho Hq. rewrite Forall_forall in Hpp. apply (Hpp o Ho q Hq).
  - constructor; [exact I|eapply IH; exact Hbr].
  - constructor; [exact I|eapply IH; exact Hbr].
Qed.

Lemma init_chain_hist_inv g :
  bal_range (work (init_chain g)) → hist_inv (supply (work (init_chain g))) (init_chain g, PIdle, ghost0).
Proof.
  intros Hr0. cbn [hist_inv pending ghost0 gh_withdrawn gh_slashed gh_burned].
  split; [lia|]. split; [exact Hr0|]. split; [lia|]. split; [lia|]. split; [lia|]. split; [discriminate|].
  destruct (init_chain_frozen g) as (Hf & Hc). unfold base_of. rewrite Hc, Hf. reflexivity.
Qed.

(* D, with the bridge: on a well-bracketed list the history function [hrun] never returns None,
   every BeginBlock and EndBlock answers Ok and no DeliverTx panics.  [bracketed] carries the
   hypotheses on the transactions (Go-typed fields, payload kind, parse flag, [doc_ok] documents),
   [txs_ok] adds: withdrawal requests are uint256 and no EVM execution succeeds. *)
Theorem closed_run_total g ops :
  genesis_ok g → InvPanic.bracketed InvPanic.Idle 0 ops → fresh_run (init_chain g) ops → txs_ok ops →
  supply (work (init_chain g)) + minted (init_chain g) ops < supply_bound →
  InvPanic.run_answers (init_chain g) ops ∧
  (∃ s p gh, hrun (init_chain g, PIdle, ghost0) ops = Some (s, p, gh) ∧ gh_withdrawn gh = minted (init_chain g) ops) ∧
  (∀ pre post, ops = pre ++ post → reach_ok (srun (init_chain g) pre)).
Proof.
  intros Hg Hbr Hfresh Htx Hbound.
  pose proof (bracketed_opts_ok _ _ _ Hbr) as Hopts.
  pose proof (run_ok_reachable g ops Hg Hfresh Hopts) as Hrok.
  pose proof Hg as (Hgp & _ & _ & Hbal).
  destruct (closed_run ops (supply (work (init_chain g))) InvPanic.Idle 0 (init_chain g) PIdle ghost0)
    as (Hans & (s & p & gh & Hrun) & Hal).
  - apply InvPanic.init_chain_inv. exact Hgp.
  - exact Hbr.
  - exact I.
  - apply init_chain_hist_inv. apply init_chain_bal_range. exact Hbal.
  - apply along_prefixes. exact Hrok.
  - apply along_prefixes. intros pre _. apply dels_ok_reachable.
  - exact Htx.
  - cbn [ghost0 gh_withdrawn]. lia.
  - split; [exact Hans|]. split; [|apply along_split; exact Hal]. exists s, p, gh. split; [exact Hrun|].
    rewrite (hrun_minted _ _ _ _ _ _ _ Hrun). cbn. lia.
Qed.
Print Assumptions closed_run_total.

Theorem C09_closed g ops :
  genesis_ok g → InvPanic.bracketed InvPanic.Idle 0 ops → fresh_run (init_chain g) ops → txs_ok ops →
  supply (work (init_chain g)) + minted (init_chain g) ops < supply_bound →
  InvPanic.run_answers (init_chain g) ops.
Proof. intros Hg Hbr Hf Htx Hb. apply (closed_run_total g ops Hg Hbr Hf Htx Hb). Qed.
Print Assumptions C09_closed.

(* the bound stated on inputs only: genesis supply plus everything the list's withdrawals request *)
Corollary C09_closed_requested g ops :
  genesis_ok g → InvPanic.bracketed InvPanic.Idle 0 ops → fresh_run (init_chain g) ops → txs_ok ops →
  supply (work (init_chain g)) + requested ops < supply_bound →
  InvPanic.run_answers (init_chain g) ops.
Proof.
  intros Hg Hbr Hf Htx Hb. apply C09_closed; try assumption.
  pose proof (minted_le_requested ops Htx (init_chain g)). lia.
Qed.

(* the bound stated on the ghost of a given history, as in C02_closed *)
Corollary C09_closed_hist g ops s p gh :
  hrun (init_chain g, PIdle, ghost0) ops = Some (s, p, gh) →
  genesis_ok g → InvPanic.bracketed InvPanic.Idle 0 ops → fresh_run (init_chain g) ops → txs_ok ops →
  supply (work (init_chain g)) + gh_withdrawn gh < supply_bound →
  InvPanic.run_answers (init_chain g) ops.
Proof.
  intros Hrun Hg Hbr Hf Htx Hb. apply C09_closed; try assumption.
  pose proof (hrun_minted _ _ _ _ _ _ _ Hrun) as E. cbn [ghost0 gh_withdrawn] in E. lia.
Qed.

(* ---- the facts of every reachable state in the shared vocabulary (delegatee_ok, ranges_ok,
   supply): exactly the run-level hypothesis of InvPanic.run_never_panics_C02_C11 / C09_holds *)
Definition nonce_rng (l : ledgers) : Prop := ∀ a, 0 ≤ nonce_of l a < two64.
Definition cum_rng (l : ledgers) : Prop := ∀ a r, rewards l !! a = Some r → 0 ≤ r_cumulated r < two256.

Lemma nonce_of_nc l a : nonce_of l a = (InvNonce.nc_of l a).1.
Proof. reflexivity. Qed.

Lemma deliver_nonce_rng s t : t_evm t = None → nonce_rng (work s) → nonce_rng (work (deliver s t).1).
Proof.
  intros Hevm H. destruct (deliver s t) as [s' r] eqn:E. cbn [fst]. destruct r as [g|e|p].
  - pose proof (native_of_ok _ _ _ _ E Hevm) as Hn.
    assert (Hp : InvFail.evm_path s t = false) by (rewrite InvNonce.evm_path_spec; exact Hn).
    pose proof (InvNonce.deliver_native_ok_nc _ _ _ _ Hp E) as Hnc.
    intros a. rewrite nonce_of_nc, (Hnc a). destruct (decide (a = t_from t)); cbn [fst].
    + apply Z.mod_pos_bound. apply two64_pos.
    + rewrite <- nonce_of_nc. apply H.
  - intros a. rewrite (InvNonce.nc_eq_nonce _ _ a (InvNonce.deliver_not_ok_nc _ _ _ _ E ltac:(discriminate))). apply H.
  - intros a. rewrite (InvNonce.nc_eq_nonce _ _ a (InvNonce.deliver_not_ok_nc _ _ _ _ E ltac:(discriminate))). apply H.
Qed.

Lemma sstep_nonce_rng s o :
  match o with SDeliver t => t_evm t = None | _ => True end → nonce_rng (work s) → nonce_rng (work (sstep s o)).
Proof.
  intros Ho H. destruct o as [hd|t| |]; cbn [sstep].
  - intros a. rewrite InvNonce.begin_block_nonce. apply H.
  - apply deliver_nonce_rng; assumption.
  - intros a. rewrite InvNonce.end_block_nonce. apply H.
  - exact H.
Qed.

Lemma stake_execute_cum s l t l' : stake_execute s l t = Ok l' → cum_rng l → cum_rng l'.
Proof.
  intros H Hc. destruct ((t_type t =? TRX_STAKING) || (t_type t =? TRX_UNSTAKING)) eqn:Ety.
  - unfold cum_rng. rewrite (InvReward.stake_execute_rewards _ _ _ _ Ety H). exact Hc.
  - apply orb_false_iff in Ety as [E1 E2]. unfold stake_execute in H. rewrite E1, E2 in H.
    destruct (t_payload t) as [| |req| | | |]; try discriminate.
    destruct (rewards l !! t_from t) as [r|] eqn:Er; [|discriminate].
    destruct (r_height r >? b_height (bctx s)); [discriminate|].
    match type of H with match ?x with _ => _ end = _ => destruct x as [l2|] eqn:Ew end; [|discriminate].
    injection H as <-. apply InvReward.acct_reward_rewards in Ew. unfold cum_rng. rewrite Ew.
    cbn [rewards set_rewards]. intros a r0 Hr0.
    apply lookup_insert_Some in Hr0 as [[_ <-]|[_ Hr0]]; [cbn [r_cumulated]; apply sub256_range|apply (Hc a r0 Hr0)].
Qed.

Lemma deliver_cum_rng s t : cum_rng (work s) → cum_rng (work (deliver s t).1).
Proof.
  apply (InvGov.deliver_preserves cum_rng).
  - intros l a x H. exact H.
  - intros s0 l t0 l' H E. unfold cum_rng. rewrite (InvReward.gov_execute_rewards _ _ _ _ E). exact H.
  - intros l t0 l' H E. unfold cum_rng. rewrite (InvReward.acct_execute_rewards _ _ _ E). exact H.
  - intros s0 l t0 l' H E. eapply stake_execute_cum; eassumption.
  - intros l t0 l' g H E. unfold cum_rng. rewrite (InvReward.evm_execute_rewards _ _ _ _ E). exact H.
Qed.

Definition mcum (m : gmap addr reward) : Prop := ∀ a r, m !! a = Some r → 0 ≤ r_cumulated r < two256.

Lemma issue_fold_cum g h sts : ∀ m i m' i',
  mcum m → foldl (InvReward.issue_step g h) (Ok (m, i)) sts = Ok (m', i') → mcum m'.
Proof.
  induction sts as [|st sts IH]; intros m i m' i' Hm H; cbn [foldl] in H.
  - injection H as <- _. exact Hm.
  - unfold InvReward.issue_step at 2 in H. cbv zeta in H.
    destruct (reward_issue _ _ h) as [r1|] eqn:Ei.
    2:{ rewrite InvReward.issue_fold_stuck in H by discriminate. discriminate. }
    apply IH in H; [exact H|]. intros a r Hr.
    apply lookup_insert_Some in Hr as [[_ <-]|[_ Hr]]; [|apply (Hm a r Hr)].
    unfold reward_issue in Ei. destruct (h <? _); [discriminate|]. injection Ei as <-.
    cbn [r_cumulated]. apply add256_range.
Qed.

Lemma begin_block_cum_rng s hd : cum_rng (work s) → cum_rng (work (begin_block s hd).1).
Proof.
  intros H. unfold begin_block. destruct (negb _); [exact H|]. cbv zeta.
  set (l2 := stake_punish (gov_punish (work s) (g_slashRatio (gparams s)) (h_evidence hd))
               (g_slashRatio (gparams s)) (h_evidence hd)).
  assert (H2 : cum_rng l2).
  { unfold cum_rng, l2. rewrite InvReward.stake_punish_rewards, InvReward.gov_punish_rewards. exact H. }
  destruct (h_votes hd) as [|v votes]; [exact H2|].
  match goal with |- context [process_votes ?s1 ?l ?h ?vs] =>
    destruct (process_votes s1 l h vs) as [[l3 iss]|e|p] eqn:Ep; cbn [fst work with_work]; [|exact H2|exact H2];
    destruct (ledgers_at s1 (hgt_of_power h)) as [old|] eqn:El;
      [rewrite (InvReward.process_votes_fold _ _ _ _ _ El) in Ep
      |unfold process_votes in Ep; rewrite El in Ep; discriminate] end.
  apply InvReward.vote_fold_rewards in Ep; [|unfold in256; pose proof two256_pos; lia].
  eapply issue_fold_cum; [exact H2|exact Ep].
Qed.

Lemma sstep_cum_rng s o : cum_rng (work s) → cum_rng (work (sstep s o)).
Proof.
  intros H. destruct o as [hd|t| |]; cbn [sstep].
  - apply begin_block_cum_rng. exact H.
  - apply deliver_cum_rng. exact H.
  - unfold cum_rng. rewrite InvReward.end_block_rewards. exact H.
  - exact H.
Qed.

Lemma rng_run ops : ∀ s, txs_ok ops → nonce_rng (work s) → cum_rng (work s) →
  nonce_rng (work (srun s ops)) ∧ cum_rng (work (srun s ops)).
Proof.
  unfold srun. induction ops as [|o ops IH]; intros s Htx Hn Hc; cbn [foldl]; [split; assumption|].
  apply Forall_cons in Htx as [Ho Htx]. apply IH; [exact Htx| |apply sstep_cum_rng; exact Hc].
  apply sstep_nonce_rng; [|exact Hn]. destruct o; try exact I. apply Ho.
Qed.

Lemma init_chain_rng g : nonce_rng (work (init_chain g)) ∧ cum_rng (work (init_chain g)).
Proof.
  split.
  - intros a. unfold nonce_of, acct_of. pose proof two64_pos.
    destruct (accts (work (init_chain g)) !! a) as [x|] eqn:E; simpl; [|lia].
    destruct (init_chain_accts g a x E) as [->|(h & _ & _ & Hx)]; [simpl; lia|rewrite Hx; lia].
  - intros a r Hr. rewrite InvReward.init_chain_rewards, lookup_empty in Hr. discriminate.
Qed.

Lemma ranges_ok_intro l : bal_range l → nonce_rng l → powers_ok l → cum_rng l → ranges_ok l.
Proof.
  intros Hb Hn Hp Hc. split; [|split; [exact Hp|exact Hc]].
  intros a x Hx. split; [apply (Hb a x Hx)|].
  specialize (Hn a). unfold nonce_of, acct_of in Hn. rewrite Hx in Hn. exact Hn.
Qed.

(* every state of the run satisfies what C09_holds assumes of it *)
Theorem reach_facts g ops :
  genesis_ok g → InvPanic.bracketed InvPanic.Idle 0 ops → fresh_run (init_chain g) ops → txs_ok ops →
  supply (work (init_chain g)) + minted (init_chain g) ops < supply_bound →
  ∀ pre post, ops = pre ++ post →
    let l := work (srun (init_chain g) pre) in
    (∀ a d, dels l !! a = Some d → delegatee_ok a d) ∧ ranges_ok l ∧ supply l < two63 * amountPerPower.
Proof.
  intros Hg Hbr Hf Htx Hb pre post E. cbv zeta.
  destruct (closed_run_total g ops Hg Hbr Hf Htx Hb) as (_ & _ & Hreach).
  destruct (Hreach pre post E) as (Hd & Hbal & Hpw & Hsup).
  split; [exact Hd|]. split; [|exact Hsup].
  assert (Htxp : txs_ok pre) by (rewrite E in Htx; apply Forall_app in Htx as [H _]; exact H).
  destruct (init_chain_rng g) as [Hn0 Hc0].
  destruct (rng_run pre (init_chain g) Htxp Hn0 Hc0) as [Hn Hc].
  apply ranges_ok_intro; assumption.
Qed.
Print Assumptions reach_facts.

(* ================================================================== F. fresh_run from the transaction hashes *)
(* [fresh_run] still mentions the states of the run.  It follows from a condition on the list alone:
   the hashes of the staking-type transactions are pairwise distinct and none is 0 (the hash every
   genesis stake carries).  Transaction hashes are SHA-256 of the signed bytes, which cover sender and
   nonce, so this is collision freeness of the hash on the submitted transactions. *)
Fixpoint stake_hashes (ops : list sop) : list hash :=
  match ops with
  | [] => []
  | SDeliver t :: r => if t_type t =? TRX_STAKING then t_hash t :: stake_hashes r else stake_hashes r
  | _ :: r => stake_hashes r
  end.
Definition hashes_fresh (ops : list sop) : Prop := NoDup (0%N :: stake_hashes ops).

Definition hashes_in (H : list hash) (l : ledgers) : Prop :=
  ∀ st, st ∈ bonded_stakes l ++ frozen_stakes l → s_hash st ∈ H.

Lemma hashes_in_weaken h H l : hashes_in H l → hashes_in (h :: H) l.
Proof. intros Hl st Hst. right. apply Hl. exact Hst. Qed.

Lemma hashes_in_evolves (Q : stake → stake → Prop) R l l' H :
  Qok Q → evolves Q R l l' → hashes_in H l → hashes_in H l'.
Proof.
  intros HQ [A B] Hl st Hin. apply elem_of_app in Hin as [Hin|Hin].
  - apply InvStake.elem_of_bonded in Hin as (a & d' & Hd' & Hst).
    destruct (A _ _ Hd') as (d & Hd & _ & Hq). destruct (Hq _ Hst) as (s0 & Hs0 & Hqs).
    rewrite <- (Q_hash _ HQ _ _ Hqs). apply Hl. apply elem_of_app. left. apply InvStake.elem_of_bonded. eauto.
  - apply InvStake.elem_of_frozen in Hin as (k & Hk).
    destruct (B _ _ Hk) as [Hold|(a & d & s0 & s1 & Hd & Hs0 & Hq & -> & _)].
    + apply Hl. apply elem_of_app. right. apply InvStake.elem_of_frozen. eauto.
    + rewrite with_refund_hash, <- (Q_hash _ HQ _ _ Hq). apply Hl. apply elem_of_app. left.
      apply InvStake.elem_of_bonded. eauto.
Qed.

Lemma hashes_in_add l l' a d st H :
  hashes_in H l → (dels l !! a = Some d ∨ d_stakes d = []) →
  dels l' = <[a := add_stake d st]> (dels l) → frozen l' = frozen l → hashes_in (s_hash st :: H) l'.
Proof.
  intros Hl Hd HD HF x Hin. apply elem_of_app in Hin as [Hin|Hin].
  - apply InvStake.elem_of_bonded in Hin as (a' & d' & Hd' & Hx). rewrite HD in Hd'.
    destruct (decide (a' = a)) as [->|Hne].
    + rewrite lookup_insert in Hd'. injection Hd' as <-. cbn [add_stake d_stakes] in Hx.
      apply elem_of_app in Hx as [Hx|Hx].
      * destruct Hd as [Hd|Hd]; [|rewrite Hd in Hx; inversion Hx].
        right. apply Hl. apply elem_of_app. left. apply InvStake.elem_of_bonded. eauto.
      * apply elem_of_list_singleton in Hx. subst x. left.
    + rewrite lookup_insert_ne in Hd' by congruence.
      right. apply Hl. apply elem_of_app. left. apply InvStake.elem_of_bonded. eauto.
  - rewrite (frozen_stakes_same _ _ HF) in Hin. right. apply Hl. apply elem_of_app. right. exact Hin.
Qed.

(* the hashes after one step: those before, plus the hash of a staking-type transaction *)
Lemma sstep_hashes_in s o H :
  hashes_in H (work s) →
  hashes_in (match o with
             | SDeliver t => if t_type t =? TRX_STAKING then t_hash t :: H else H
             | _ => H end) (work (sstep s o)).
Proof.
  intros Hl. destruct o as [hd|t| |]; cbn [sstep].
  - eapply hashes_in_evolves; [apply Qok_sim|apply begin_block_evolves|exact Hl].
  - destruct (deliver s t) as [s' r] eqn:E. cbn [fst].
    apply deliver_moves in E as [Hev|(Hty & d & Hd & HD & HF)].
    + assert (H' : hashes_in H (work s')) by (eapply hashes_in_evolves; [apply Qok_eq|exact Hev|exact Hl]).
      destruct (t_type t =? TRX_STAKING); [apply hashes_in_weaken|]; exact H'.
    + rewrite Hty. change (TRX_STAKING =? TRX_STAKING) with true. cbv iota.
      apply (hashes_in_add (work s) (work s') (t_to t) d
               (stake_of_tx t (b_height (bctx s)) (power_of (t_amount t))) H Hl); [|exact HD|exact HF].
      destruct Hd as [Hd|(_ & _ & ->)]; [left; exact Hd|right; reflexivity].
  - eapply hashes_in_evolves; [apply Qok_eq|apply (end_block_evolves s 0)|exact Hl].
  - exact Hl.
Qed.

Lemma fresh_run_from_hashes ops : ∀ s H,
  hashes_in H (work s) → (∀ h, h ∈ H → h ∉ stake_hashes ops) → NoDup (stake_hashes ops) →
  fresh_run s ops.
Proof.
  induction ops as [|o r IH]; intros s H Hl Hdis Hnd; cbn [fresh_run]; [exact I|].
  pose proof (sstep_hashes_in s o H Hl) as Hl'.
  destruct o as [hd|t| |]; cbn [stake_hashes] in Hdis, Hnd.
  - split; [exact I|]. eapply IH; eassumption.
  - destruct (t_type t =? TRX_STAKING) eqn:Ety.
    + apply NoDup_cons in Hnd as [Hnotin Hnd]. split.
      * intros _ _ st Hst Heq. apply (Hdis (s_hash st)); [apply Hl; exact Hst|]. rewrite Heq. left.
      * eapply IH; [exact Hl'| |exact Hnd]. intros h Hh. apply elem_of_cons in Hh as [->|Hh]; [exact Hnotin|].
        intros Hin. apply (Hdis h Hh). right. exact Hin.
    + split; [intros Hty; apply Z.eqb_neq in Ety; contradiction|]. eapply IH; eassumption.
  - split; [exact I|]. eapply IH; eassumption.
  - split; [exact I|]. eapply IH; eassumption.
Qed.

Lemma init_chain_hashes_in g : hashes_in [0%N] (work (init_chain g)).
Proof.
  destruct (init_chain_pre_sf g) as (l2 & [HD HF] & ->).
  assert (H2 : hashes_in [0%N] l2).
  { intros st Hin. apply elem_of_app in Hin as [Hin|Hin].
    - apply InvStake.elem_of_bonded in Hin as (a & d & Hd & _). rewrite HD in Hd. cbn in Hd.
      rewrite lookup_empty in Hd. discriminate.
    - apply InvStake.elem_of_frozen in Hin as (k & Hk). rewrite HF in Hk. cbn in Hk.
      rewrite lookup_empty in Hk. discriminate. }
  clear HD HF. revert l2 H2. induction (gen_validators g) as [|v vs IH]; intros l2 H2; cbn [foldl]; [exact H2|].
  apply IH. intros st Hst.
  pose proof (hashes_in_add l2 (set_dels l2 (<[v.1 := add_stake (new_delegatee v.1) (genesis_stake v)]> (dels l2)))
                v.1 (new_delegatee v.1) (genesis_stake v) [0%N] H2 (or_intror eq_refl) eq_refl eq_refl st Hst) as Hin.
  cbn [genesis_stake s_hash] in Hin. apply elem_of_cons in Hin as [->|Hin]; [left|exact Hin].
Qed.

Theorem fresh_run_reachable g ops : hashes_fresh ops → fresh_run (init_chain g) ops.
Proof.
  intros Hnd. apply NoDup_cons in Hnd as [H0 Hnd].
  apply (fresh_run_from_hashes ops (init_chain g) [0%N] (init_chain_hashes_in g)); [|exact Hnd].
  intros h Hh. apply elem_of_list_singleton in Hh as ->. exact H0.
Qed.
Print Assumptions fresh_run_reachable.

(* C02 and C09 with every hypothesis on the inputs (for C02 the minted bound is on the history's ghost) *)
Corollary C02_closed_inputs g ops s p gh :
  hrun (init_chain g, PIdle, ghost0) ops = Some (s, p, gh) →
  genesis_ok g → hashes_fresh ops → txs_ok ops → opts_ok ops →
  supply (work (init_chain g)) + gh_withdrawn gh < supply_bound →
  s = srun (init_chain g) ops ∧
  C02_equation g s p gh ∧
  bal_range (work s) ∧
  (∀ a, 0 ≤ bal_of (work s) a < supply_bound) ∧
  0 ≤ gh_withdrawn gh ∧ 0 ≤ gh_slashed gh ∧ 0 ≤ gh_burned gh.
Proof.
  intros Hrun Hg Hh Htx Ho Hb. apply (C02_closed g ops s p gh Hrun Hg); try assumption.
  apply fresh_run_reachable. exact Hh.
Qed.

Corollary C09_closed_inputs g ops :
  genesis_ok g → InvPanic.bracketed InvPanic.Idle 0 ops → hashes_fresh ops → txs_ok ops →
  supply (work (init_chain g)) + requested ops < supply_bound →
  InvPanic.run_answers (init_chain g) ops.
Proof.
  intros Hg Hbr Hh Htx Hb. apply C09_closed_requested; try assumption.
  apply fresh_run_reachable. exact Hh.
Qed.
Print Assumptions C09_closed_inputs.

(* C02 over histories with no presupposition at all: the well-bracketed list IS a history (hrun
   answers), and its end state satisfies the C02 equation *)
Theorem C02_closed_total g ops :
  genesis_ok g → InvPanic.bracketed InvPanic.Idle 0 ops → hashes_fresh ops → txs_ok ops →
  supply (work (init_chain g)) + requested ops < supply_bound →
  ∃ s p gh,
    hrun (init_chain g, PIdle, ghost0) ops = Some (s, p, gh) ∧
    s = srun (init_chain g) ops ∧
    C02_equation g s p gh ∧
    bal_range (work s) ∧
    (∀ a, 0 ≤ bal_of (work s) a < supply_bound) ∧
    0 ≤ gh_withdrawn gh ≤ requested ops ∧ 0 ≤ gh_slashed gh ∧ 0 ≤ gh_burned gh.
Proof.
  intros Hg Hbr Hh Htx Hb.
  pose proof (fresh_run_reachable g ops Hh) as Hf.
  pose proof (minted_le_requested ops Htx (init_chain g)) as Hle.
  destruct (closed_run_total g ops Hg Hbr Hf Htx ltac:(lia)) as (_ & (s & p & gh & Hrun & Hgw) & _).
  exists s, p, gh. split; [exact Hrun|].
  destruct (C02_closed g ops s p gh Hrun Hg Hf Htx (bracketed_opts_ok _ _ _ Hbr) ltac:(lia))
    as (H1 & H2 & H3 & H4 & H5 & H6 & H7).
  repeat (split; [assumption|]). split; [lia|]. split; assumption.
Qed.
Print Assumptions C02_closed_total.

(* ================================================================== E. the hypotheses are satisfiable *)
(* InvSupply's example chain: one validator (11, power 100) and four holders; three blocks with a
   successful transfer, a delegation, a failed transfer, an unstaking in a proposer-less block, a
   signed vote that issues rewards, a reward withdrawal and the refund of the matured stake *)
Ltac zc := repeat split; vm_compute; congruence.

Lemma hx_genesis_ok : genesis_ok hx_genesis.
Proof.
  split; [zc|]. split; [vm_compute; lia|]. split.
  - repeat apply Forall_cons_2; try apply Forall_nil_2; zc.
  - repeat apply Forall_cons_2; try apply Forall_nil_2; zc.
Qed.

Lemma hx_fresh : fresh_run (init_chain hx_genesis) hx_ops.
Proof. apply fresh_runb_ok. vm_compute. reflexivity. Qed.

Lemma hx_txs_ok : txs_ok hx_ops.
Proof.
  unfold txs_ok, hx_ops. repeat apply Forall_cons_2; try exact I; try apply Forall_nil_2;
    (split; [zc|split; [|reflexivity]]); intros req Hty Hp; try discriminate Hty.
  injection Hp as <-. zc.
Qed.

Lemma hx_opts_ok : opts_ok hx_ops.
Proof.
  unfold opts_ok, hx_ops. repeat apply Forall_cons_2; try exact I; try apply Forall_nil_2;
    intros Hty; vm_compute in Hty; discriminate.
Qed.

Example C02_closed_example :
  ∃ s gh,
    gh = {| gh_withdrawn := 5000; gh_slashed := 0; gh_burned := 40000 |} ∧
    hrun (init_chain hx_genesis, PIdle, ghost0) hx_ops = Some (s, PIdle, gh) ∧
    genesis_ok hx_genesis ∧ fresh_run (init_chain hx_genesis) hx_ops ∧ txs_ok hx_ops ∧ opts_ok hx_ops ∧
    supply (work (init_chain hx_genesis)) + gh_withdrawn gh < supply_bound ∧
    (* the first transfer of block 1 succeeded *)
    (∃ gas, (deliver (srun (init_chain hx_genesis) (take 1 hx_ops))
                     (demo_tx TRX_TRANSFER 1%N 2%N (5 * amountPerPower) 4000 0 PNone 100%N)).2 = Ok gas) ∧
    (* conclusion of C02_closed *)
    C02_equation hx_genesis s PIdle gh ∧ (∀ a, 0 ≤ bal_of (work s) a < supply_bound).
Proof.
  assert (Hrun : ∃ s, hrun (init_chain hx_genesis, PIdle, ghost0) hx_ops =
            Some (s, PIdle, {| gh_withdrawn := 5000; gh_slashed := 0; gh_burned := 40000 |})).
  { eexists. vm_compute. reflexivity. }
  destruct Hrun as (s & Hrun).
  assert (Hb : supply (work (init_chain hx_genesis)) + 5000 < supply_bound) by (vm_compute; reflexivity).
  destruct (C02_closed hx_genesis hx_ops s PIdle _ Hrun hx_genesis_ok hx_fresh hx_txs_ok hx_opts_ok Hb)
    as (_ & Heq & _ & Hbal & _).
  exists s, {| gh_withdrawn := 5000; gh_slashed := 0; gh_burned := 40000 |}. split; [reflexivity|].
  split; [exact Hrun|]. split; [exact hx_genesis_ok|]. split; [exact hx_fresh|]. split; [exact hx_txs_ok|].
  split; [exact hx_opts_ok|]. split; [exact Hb|]. split; [eexists; vm_compute; reflexivity|].
  split; [exact Heq|exact Hbal].
Qed.

Lemma hx_bracketed : InvPanic.bracketed InvPanic.Idle 0 hx_ops.
Proof.
  unfold hx_ops. cbn [InvPanic.bracketed].
  repeat match goal with
  | |- _ ∧ _ => split
  | |- InvPanic.tx_ok (demo_tx TRX_UNSTAKING _ _ _ _ _ _ _) =>
      split; [zc|split; [intros _; eexists _, _; reflexivity|split; exact I]]
  | |- InvPanic.tx_ok _ => apply InvPanic.tx_ok_plain; [zc|discriminate|discriminate]
  | |- _ = _ => reflexivity
  | |- _ → _ => let H := fresh in intros H; first [lia|exfalso; apply H; reflexivity]
  | |- True => exact I
  end.
Qed.

Example C09_closed_example :
  genesis_ok hx_genesis ∧ InvPanic.bracketed InvPanic.Idle 0 hx_ops ∧ fresh_run (init_chain hx_genesis) hx_ops ∧
  txs_ok hx_ops ∧ supply (work (init_chain hx_genesis)) + minted (init_chain hx_genesis) hx_ops < supply_bound ∧
  minted (init_chain hx_genesis) hx_ops = 5000 ∧ requested hx_ops = 5000 ∧
  InvPanic.run_answers (init_chain hx_genesis) hx_ops.
Proof.
  assert (Hb : supply (work (init_chain hx_genesis)) + minted (init_chain hx_genesis) hx_ops < supply_bound)
    by (vm_compute; reflexivity).
  split; [exact hx_genesis_ok|]. split; [exact hx_bracketed|]. split; [exact hx_fresh|]. split; [exact hx_txs_ok|].
  split; [exact Hb|]. split; [vm_compute; reflexivity|]. split; [vm_compute; reflexivity|].
  exact (C09_closed _ _ hx_genesis_ok hx_bracketed hx_fresh hx_txs_ok Hb).
Qed.

Lemma hx_hashes_fresh : hashes_fresh hx_ops.
Proof.
  unfold hashes_fresh. replace (stake_hashes hx_ops) with [102%N] by (vm_compute; reflexivity).
  apply NoDup_cons. split; [|apply NoDup_singleton]. intros H. apply elem_of_list_singleton in H. discriminate.
Qed.

(* all hypotheses of the input-only forms hold on the example, and the history exists *)
Example closed_inputs_example :
  genesis_ok hx_genesis ∧ InvPanic.bracketed InvPanic.Idle 0 hx_ops ∧ hashes_fresh hx_ops ∧ txs_ok hx_ops ∧
  supply (work (init_chain hx_genesis)) + requested hx_ops < supply_bound ∧
  InvPanic.run_answers (init_chain hx_genesis) hx_ops ∧
  ∃ s p gh, hrun (init_chain hx_genesis, PIdle, ghost0) hx_ops = Some (s, p, gh) ∧ C02_equation hx_genesis s p gh.
Proof.
  assert (Hb : supply (work (init_chain hx_genesis)) + requested hx_ops < supply_bound) by (vm_compute; reflexivity).
  split; [exact hx_genesis_ok|]. split; [exact hx_bracketed|]. split; [exact hx_hashes_fresh|].
  split; [exact hx_txs_ok|]. split; [exact Hb|].
  split; [exact (C09_closed_inputs _ _ hx_genesis_ok hx_bracketed hx_hashes_fresh hx_txs_ok Hb)|].
  destruct (C02_closed_total _ _ hx_genesis_ok hx_bracketed hx_hashes_fresh hx_txs_ok Hb)
    as (s & p & gh & Hrun & _ & Heq & _).
  exists s, p, gh. split; assumption.
Qed.
