(* ValSet.v — validator selection and validator-update diff of rigo-go (component of C10).

   Go code modelled: ctrlers/stake/ctrler.go  BeginBlock (construction of allDelegatees),
   updateValidators, validatorUpdates, selectValidators;
   ctrlers/stake/delegatee.go  PowerOrderDelegatees.Less, AddressOrderDelegatees.Less.

   A delegatee is the value snapshot (address, self power, total power, number of stakes).
   The public key of a validator is determined by its address; the two are identified.
   Addresses are fixed-length byte strings; bytes.Compare on equal-length strings is the
   comparison of the big-endian numbers, so an address is an N. *)
From Coq Require Import ZArith NArith List Bool Sorted Permutation Lia Arith.
From Rigo Require Import Sorting.
Import ListNotations.
Open Scope Z_scope.

Record dg := mk_dg { d_addr : N; d_self : Z; d_total : Z; d_nstakes : nat }.

(* PowerOrderDelegatees.Less(i,j): total power descending, then number of stakes descending,
   then address descending *)
Definition power_lt (a b : dg) : bool :=
  if negb (d_total a =? d_total b) then d_total b <? d_total a
  else if negb (Nat.eqb (d_nstakes a) (d_nstakes b)) then Nat.ltb (d_nstakes b) (d_nstakes a)
  else N.ltb (d_addr b) (d_addr a).

(* AddressOrderDelegatees.Less(i,j): address ascending *)
Definition addr_lt (a b : dg) : bool := N.ltb (d_addr a) (d_addr b).

Definition sort_power : list dg -> list dg := isort dg power_lt.
Definition sort_addr : list dg -> list dg := isort dg addr_lt.

(* ---------- the two orders are strict, and total on distinct addresses ---------- *)

Ltac unb :=
  repeat match goal with
  | |- context [Z.eqb ?a ?b] => destruct (Z.eqb_spec a b)
  | |- context [Nat.eqb ?a ?b] => destruct (Nat.eqb_spec a b)
  | H : context [Z.eqb ?a ?b] |- _ => destruct (Z.eqb_spec a b)
  | H : context [Nat.eqb ?a ?b] |- _ => destruct (Nat.eqb_spec a b)
  end; simpl in *;
  repeat match goal with
  | H : Z.ltb _ _ = true |- _ => apply Z.ltb_lt in H
  | H : Nat.ltb _ _ = true |- _ => apply Nat.ltb_lt in H
  | H : N.ltb _ _ = true |- _ => apply N.ltb_lt in H
  | H : Z.ltb _ _ = false |- _ => apply Z.ltb_ge in H
  | H : Nat.ltb _ _ = false |- _ => apply Nat.ltb_ge in H
  | H : N.ltb _ _ = false |- _ => apply N.ltb_ge in H
  | |- Z.ltb _ _ = true => apply Z.ltb_lt
  | |- Nat.ltb _ _ = true => apply Nat.ltb_lt
  | |- N.ltb _ _ = true => apply N.ltb_lt
  | |- Z.ltb _ _ = false => apply Z.ltb_ge
  | |- Nat.ltb _ _ = false => apply Nat.ltb_ge
  | |- N.ltb _ _ = false => apply N.ltb_ge
  end.

Lemma power_lt_irrefl a : power_lt a a = false.
Proof. unfold power_lt. unb; lia. Qed.

Lemma power_lt_trans a b c : power_lt a b = true -> power_lt b c = true -> power_lt a c = true.
Proof. unfold power_lt. intros H1 H2. unb; lia. Qed.

Lemma power_lt_total a b : d_addr a <> d_addr b -> power_lt a b = true \/ power_lt b a = true.
Proof.
  unfold power_lt. intros Hne.
  destruct (Z.eqb_spec (d_total a) (d_total b)) as [Et|Et];
  destruct (Z.eqb_spec (d_total b) (d_total a)) as [Et'|Et']; try lia; simpl.
  - destruct (Nat.eqb_spec (d_nstakes a) (d_nstakes b)) as [En|En];
    destruct (Nat.eqb_spec (d_nstakes b) (d_nstakes a)) as [En'|En']; try lia; simpl.
    + destruct (N.ltb_spec (d_addr b) (d_addr a)); [left; reflexivity|].
      right. apply N.ltb_lt. lia.
    + destruct (Nat.ltb_spec (d_nstakes b) (d_nstakes a)); [left; reflexivity|].
      right. apply Nat.ltb_lt. lia.
  - destruct (Z.ltb_spec (d_total b) (d_total a)); [left; reflexivity|].
    right. apply Z.ltb_lt. lia.
Qed.

Lemma addr_lt_irrefl a : addr_lt a a = false.
Proof. unfold addr_lt. apply N.ltb_irrefl. Qed.

Lemma addr_lt_trans a b c : addr_lt a b = true -> addr_lt b c = true -> addr_lt a c = true.
Proof. unfold addr_lt. intros H1 H2. unb. lia. Qed.

Lemma addr_lt_total a b : d_addr a <> d_addr b -> addr_lt a b = true \/ addr_lt b a = true.
Proof.
  unfold addr_lt. intros Hne.
  destruct (N.ltb_spec (d_addr a) (d_addr b)); [left; reflexivity|].
  right. apply N.ltb_lt. lia.
Qed.

(* a list of delegatees with pairwise distinct addresses *)
Definition distinct (l : list dg) : Prop := NoDup (map d_addr l).

Lemma distinct_NoDup l : distinct l -> NoDup l.
Proof. unfold distinct. apply NoDup_map_inv. Qed.

Lemma distinct_inj l a b : distinct l -> In a l -> In b l -> d_addr a = d_addr b -> a = b.
Proof.
  unfold distinct. induction l as [|x l IH]; intros Hnd Ha Hb He; [destruct Ha|].
  simpl in Hnd. apply NoDup_cons_iff in Hnd. destruct Hnd as [Hnx Hnd].
  destruct Ha as [<-|Ha], Hb as [<-|Hb].
  - reflexivity.
  - exfalso. apply Hnx. rewrite He. apply in_map. exact Hb.
  - exfalso. apply Hnx. rewrite <- He. apply in_map. exact Ha.
  - apply IH; assumption.
Qed.

Lemma distinct_perm l l' : Permutation l l' -> distinct l -> distinct l'.
Proof.
  unfold distinct. intros Hp. apply Permutation_NoDup. apply Permutation_map. exact Hp.
Qed.

Lemma distinct_total_power l : distinct l -> total_on dg power_lt l.
Proof.
  intros Hd a b Ha Hb Hne. apply power_lt_total. intros He. apply Hne.
  eapply distinct_inj; eassumption.
Qed.

Lemma distinct_total_addr l : distinct l -> total_on dg addr_lt l.
Proof.
  intros Hd a b Ha Hb Hne. apply addr_lt_total. intros He. apply Hne.
  eapply distinct_inj; eassumption.
Qed.

Definition power_sorted (l : list dg) : Prop := StronglySorted (ltP dg power_lt) l.
(* address-sorted with distinct addresses *)
Definition addr_sorted (l : list dg) : Prop := StronglySorted N.lt (map d_addr l).

Lemma sort_power_perm l : Permutation (sort_power l) l.
Proof. apply isort_perm. Qed.

Lemma sort_addr_perm l : Permutation (sort_addr l) l.
Proof. apply isort_perm. Qed.

Theorem sort_power_sorted l : distinct l -> power_sorted (sort_power l).
Proof.
  intros Hd. apply isort_sorted.
  - apply power_lt_irrefl.
  - apply power_lt_trans.
  - apply distinct_NoDup; exact Hd.
  - apply distinct_total_power; exact Hd.
Qed.

Lemma addr_sorted_of_ltP l : StronglySorted (ltP dg addr_lt) l -> addr_sorted l.
Proof.
  unfold addr_sorted. induction 1 as [|a l Hs IH Hf]; simpl; constructor; [exact IH|].
  rewrite Forall_forall in Hf |- *. intros x Hx. apply in_map_iff in Hx.
  destruct Hx as [d [<- Hd]]. pose proof (Hf _ Hd) as H. unfold ltP, addr_lt in H.
  apply N.ltb_lt. exact H.
Qed.

Lemma ltP_of_addr_sorted l : addr_sorted l -> StronglySorted (ltP dg addr_lt) l.
Proof.
  unfold addr_sorted. induction l as [|a l IH]; simpl; intros Hs; constructor.
  - apply IH. apply StronglySorted_inv in Hs. apply Hs.
  - apply StronglySorted_inv in Hs. destruct Hs as [_ Hf].
    rewrite Forall_forall in Hf |- *. intros x Hx. unfold ltP, addr_lt. apply N.ltb_lt.
    apply Hf. apply in_map. exact Hx.
Qed.

Theorem sort_addr_sorted l : distinct l -> addr_sorted (sort_addr l).
Proof.
  intros Hd. apply addr_sorted_of_ltP. apply isort_sorted.
  - apply addr_lt_irrefl.
  - apply addr_lt_trans.
  - apply distinct_NoDup; exact Hd.
  - apply distinct_total_addr; exact Hd.
Qed.

Lemma addr_sorted_distinct l : addr_sorted l -> distinct l.
Proof.
  unfold addr_sorted, distinct. generalize (map d_addr l) as k. clear l.
  induction 1 as [|a k Hs IH Hf]; constructor; [|exact IH].
  intros Hin. rewrite Forall_forall in Hf. pose proof (Hf _ Hin). lia.
Qed.

(* Any correct sort by PowerOrderDelegatees (in particular Go's unstable sort.Sort) of a list of
   delegatees with distinct addresses returns exactly [sort_power l]. *)
Theorem select_unique (l l' : list dg) :
  distinct l -> Permutation l' l -> go_sorted dg power_lt l' -> l' = sort_power l.
Proof.
  intros Hd. apply sort_unique.
  - apply power_lt_irrefl.
  - apply power_lt_trans.
  - apply distinct_NoDup; exact Hd.
  - apply distinct_total_power; exact Hd.
Qed.

Theorem sort_addr_unique (l l' : list dg) :
  distinct l -> Permutation l' l -> go_sorted dg addr_lt l' -> l' = sort_addr l.
Proof.
  intros Hd. apply sort_unique.
  - apply addr_lt_irrefl.
  - apply addr_lt_trans.
  - apply distinct_NoDup; exact Hd.
  - apply distinct_total_addr; exact Hd.
Qed.

(* updateValidators sorts the selected prefix by address and then by power again; that gives the
   selected prefix back *)
Theorem sort_power_id l : power_sorted l -> sort_power l = l.
Proof. apply isort_id; [apply power_lt_irrefl | apply power_lt_trans]. Qed.

Theorem sort_power_sort_addr l : distinct l -> sort_power (sort_addr l) = sort_power l.
Proof.
  intros Hd. symmetry. apply select_unique.
  - eapply distinct_perm; [symmetry; apply sort_addr_perm | exact Hd].
  - eapply perm_trans; [apply sort_power_perm | symmetry; apply sort_addr_perm].
  - apply strong_go_sorted; [apply power_lt_irrefl | apply power_lt_trans |].
    apply sort_power_sorted. exact Hd.
Qed.

Print Assumptions select_unique.
