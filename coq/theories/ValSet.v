(* ValSet.v — validator selection and validator-update diff of rigo-go (component of C10).

   Go code modelled: ctrlers/stake/ctrler.go  BeginBlock (construction of allDelegatees),
   updateValidators, validatorUpdates, selectValidators;
   ctrlers/stake/delegatee.go  PowerOrderDelegatees.Less, AddressOrderDelegatees.Less.

   A delegatee is the value snapshot (address, self power, total power, number of stakes).
   The public key of a validator is determined by its address; the two are identified.
   Addresses are fixed-length byte strings; bytes.Compare on equal-length strings is the
   comparison of the big-endian numbers, so an address is an N. *)
From Coq Require Import ZArith NArith List Bool Sorted Permutation Lia Arith.
From Rigo Require Import Sorting.
Import ListNotations.
Open Scope Z_scope.

Record dg := mk_dg { d_addr : N; d_self : Z; d_total : Z; d_nstakes : nat }.

(* PowerOrderDelegatees.Less(i,j): total power descending, then number of stakes descending,
   then address descending *)
Definition power_lt (a b : dg) : bool :=
  if negb (d_total a =? d_total b) then d_total b <? d_total a
  else if negb (Nat.eqb (d_nstakes a) (d_nstakes b)) then Nat.ltb (d_nstakes b) (d_nstakes a)
  else N.ltb (d_addr b) (d_addr a).

(* AddressOrderDelegatees.Less(i,j): address ascending *)
Definition addr_lt (a b : dg) : bool := N.ltb (d_addr a) (d_addr b).

Definition sort_power : list dg -> list dg := isort dg power_lt.
Definition sort_addr : list dg -> list dg := isort dg addr_lt.

(* ---------- the two orders are strict, and total on distinct addresses ---------- *)

Ltac unb :=
  repeat match goal with
  | |- context [Z.eqb ?a ?b] => destruct (Z.eqb_spec a b)
  | |- context [Nat.eqb ?a ?b] => destruct (Nat.eqb_spec a b)
  | H : context [Z.eqb ?a ?b] |- _ => destruct (Z.eqb_spec a b)
  | H : context [Nat.eqb ?a ?b] |- _ => destruct (Nat.eqb_spec a b)
  end; simpl in *;
  repeat match goal with
  | H : Z.ltb _ _ = true |- _ => apply Z.ltb_lt in H
  | H : Nat.ltb _ _ = true |- _ => apply Nat.ltb_lt in H
  | H : N.ltb _ _ = true |- _ => apply N.ltb_lt in H
  | H : Z.ltb _ _ = false |- _ => apply Z.ltb_ge in H
  | H : Nat.ltb _ _ = false |- _ => apply Nat.ltb_ge in H
  | H : N.ltb _ _ = false |- _ => apply N.ltb_ge in H
  | |- Z.ltb _ _ = true => apply Z.ltb_lt
  | |- Nat.ltb _ _ = true => apply Nat.ltb_lt
  | |- N.ltb _ _ = true => apply N.ltb_lt
  | |- Z.ltb _ _ = false => apply Z.ltb_ge
  | |- Nat.ltb _ _ = false => apply Nat.ltb_ge
  | |- N.ltb _ _ = false => apply N.ltb_ge
  end.

Lemma power_lt_irrefl a : power_lt a a = false.
Proof. unfold power_lt. unb; lia. Qed.

Lemma power_lt_trans a b c : power_lt a b = true -> power_lt b c = true -> power_lt a c = true.
Proof. unfold power_lt. intros H1 H2. unb; lia. Qed.

Lemma power_lt_total a b : d_addr a <> d_addr b -> power_lt a b = true \/ power_lt b a = true.
Proof.
  unfold power_lt. intros Hne.
  destruct (Z.eqb_spec (d_total a) (d_total b)) as [Et|Et];
  destruct (Z.eqb_spec (d_total b) (d_total a)) as [Et'|Et']; try lia; simpl.
  - destruct (Nat.eqb_spec (d_nstakes a) (d_nstakes b)) as [En|En];
    destruct (Nat.eqb_spec (d_nstakes b) (d_nstakes a)) as [En'|En']; try lia; simpl.
    + destruct (N.ltb_spec (d_addr b) (d_addr a)); [left; reflexivity|].
      right. apply N.ltb_lt. lia.
    + destruct (Nat.ltb_spec (d_nstakes b) (d_nstakes a)); [left; reflexivity|].
      right. apply Nat.ltb_lt. lia.
  - destruct (Z.ltb_spec (d_total b) (d_total a)); [left; reflexivity|].
    right. apply Z.ltb_lt. lia.
Qed.

Lemma addr_lt_irrefl a : addr_lt a a = false.
Proof. unfold addr_lt. apply N.ltb_irrefl. Qed.

Lemma addr_lt_trans a b c : addr_lt a b = true -> addr_lt b c = true -> addr_lt a c = true.
Proof. unfold addr_lt. intros H1 H2. unb. lia. Qed.

Lemma addr_lt_total a b : d_addr a <> d_addr b -> addr_lt a b = true \/ addr_lt b a = true.
Proof.
  unfold addr_lt. intros Hne.
  destruct (N.ltb_spec (d_addr a) (d_addr b)); [left; reflexivity|].
  right. apply N.ltb_lt. lia.
Qed.

(* a list of delegatees with pairwise distinct addresses *)
Definition distinct (l : list dg) : Prop := NoDup (map d_addr l).

Lemma distinct_NoDup l : distinct l -> NoDup l.
Proof. unfold distinct. apply NoDup_map_inv. Qed.

Lemma distinct_inj l a b : distinct l -> In a l -> In b l -> d_addr a = d_addr b -> a = b.
Proof.
  unfold distinct. induction l as [|x l IH]; intros Hnd Ha Hb He; [destruct Ha|].
  simpl in Hnd. apply NoDup_cons_iff in Hnd. destruct Hnd as [Hnx Hnd].
  destruct Ha as [<-|Ha], Hb as [<-|Hb].
  - reflexivity.
  - exfalso. apply Hnx. rewrite He. apply in_map. exact Hb.
  - exfalso. apply Hnx. rewrite <- He. apply in_map. exact Ha.
  - apply IH; assumption.
Qed.

Lemma distinct_perm l l' : Permutation l l' -> distinct l -> distinct l'.
Proof.
  unfold distinct. intros Hp. apply Permutation_NoDup. apply Permutation_map. exact Hp.
Qed.

Lemma distinct_total_power l : distinct l -> total_on dg power_lt l.
Proof.
  intros Hd a b Ha Hb Hne. apply power_lt_total. intros He. apply Hne.
  eapply distinct_inj; eassumption.
Qed.

Lemma distinct_total_addr l : distinct l -> total_on dg addr_lt l.
Proof.
  intros Hd a b Ha Hb Hne. apply addr_lt_total. intros He. apply Hne.
  eapply distinct_inj; eassumption.
Qed.

Definition power_sorted (l : list dg) : Prop := StronglySorted (ltP dg power_lt) l.
(* address-sorted with distinct addresses *)
Definition addr_sorted (l : list dg) : Prop := StronglySorted N.lt (map d_addr l).

Lemma sort_power_perm l : Permutation (sort_power l) l.
Proof. apply isort_perm. Qed.

Lemma sort_addr_perm l : Permutation (sort_addr l) l.
Proof. apply isort_perm. Qed.

Theorem sort_power_sorted l : distinct l -> power_sorted (sort_power l).
Proof.
  intros Hd. apply isort_sorted.
  - apply power_lt_irrefl.
  - apply power_lt_trans.
  - apply distinct_NoDup; exact Hd.
  - apply distinct_total_power; exact Hd.
Qed.

Lemma addr_sorted_of_ltP l : StronglySorted (ltP dg addr_lt) l -> addr_sorted l.
Proof.
  unfold addr_sorted. induction 1 as [|a l Hs IH Hf]; simpl; constructor; [exact IH|].
  rewrite Forall_forall in Hf |- *. intros x Hx. apply in_map_iff in Hx.
  destruct Hx as [d [<- Hd]]. pose proof (Hf _ Hd) as H. unfold ltP, addr_lt in H.
  apply N.ltb_lt. exact H.
Qed.

Lemma ltP_of_addr_sorted l : addr_sorted l -> StronglySorted (ltP dg addr_lt) l.
Proof.
  unfold addr_sorted. induction l as [|a l IH]; simpl; intros Hs; constructor.
  - apply IH. apply StronglySorted_inv in Hs. apply Hs.
  - apply StronglySorted_inv in Hs. destruct Hs as [_ Hf].
    rewrite Forall_forall in Hf |- *. intros x Hx. unfold ltP, addr_lt. apply N.ltb_lt.
    apply Hf. apply in_map. exact Hx.
Qed.

Theorem sort_addr_sorted l : distinct l -> addr_sorted (sort_addr l).
Proof.
  intros Hd. apply addr_sorted_of_ltP. apply isort_sorted.
  - apply addr_lt_irrefl.
  - apply addr_lt_trans.
  - apply distinct_NoDup; exact Hd.
  - apply distinct_total_addr; exact Hd.
Qed.

Lemma addr_sorted_distinct l : addr_sorted l -> distinct l.
Proof.
  unfold addr_sorted, distinct. generalize (map d_addr l) as k. clear l.
  induction 1 as [|a k Hs IH Hf]; constructor; [|exact IH].
  intros Hin. rewrite Forall_forall in Hf. pose proof (Hf _ Hin). lia.
Qed.

(* Any correct sort by PowerOrderDelegatees (in particular Go's unstable sort.Sort) of a list of
   delegatees with distinct addresses returns exactly [sort_power l]. *)
Theorem select_unique (l l' : list dg) :
  distinct l -> Permutation l' l -> go_sorted dg power_lt l' -> l' = sort_power l.
Proof.
  intros Hd. apply sort_unique.
  - apply power_lt_irrefl.
  - apply power_lt_trans.
  - apply distinct_NoDup; exact Hd.
  - apply distinct_total_power; exact Hd.
Qed.

Theorem sort_addr_unique (l l' : list dg) :
  distinct l -> Permutation l' l -> go_sorted dg addr_lt l' -> l' = sort_addr l.
Proof.
  intros Hd. apply sort_unique.
  - apply addr_lt_irrefl.
  - apply addr_lt_trans.
  - apply distinct_NoDup; exact Hd.
  - apply distinct_total_addr; exact Hd.
Qed.

(* updateValidators sorts the selected prefix by address and then by power again; that gives the
   selected prefix back *)
Theorem sort_power_id l : power_sorted l -> sort_power l = l.
Proof. apply isort_id; [apply power_lt_irrefl | apply power_lt_trans]. Qed.

Theorem sort_power_sort_addr l : distinct l -> sort_power (sort_addr l) = sort_power l.
Proof.
  intros Hd. symmetry. apply select_unique.
  - eapply distinct_perm; [symmetry; apply sort_addr_perm | exact Hd].
  - eapply perm_trans; [apply sort_power_perm | symmetry; apply sort_addr_perm].
  - apply strong_go_sorted; [apply power_lt_irrefl | apply power_lt_trans |].
    apply sort_power_sorted. exact Hd.
Qed.

Print Assumptions select_unique.

(* ---------- selection ---------- *)

(* BeginBlock: the committed delegatees whose own power reaches the minimum *)
Definition eligible (minPower : Z) (all : list dg) : list dg :=
  filter (fun d => minPower <=? d_self d) all.

(* BeginBlock sort + selectValidators: delegatees[:MIN(len(delegatees), maxVals)].
   A negative maxVals makes the slice expression panic: None. *)
Definition select (maxN : Z) (ds : list dg) : option (list dg) :=
  if maxN <? 0 then None
  else Some (firstn (Z.to_nat (Z.min (Z.of_nat (length ds)) maxN)) (sort_power ds)).

Lemma select_neg maxN ds : maxN < 0 -> select maxN ds = None.
Proof. unfold select. intros H. destruct (Z.ltb_spec maxN 0); [reflexivity | lia]. Qed.

Lemma select_some maxN ds :
  0 <= maxN ->
  select maxN ds = Some (firstn (Z.to_nat (Z.min (Z.of_nat (length ds)) maxN)) (sort_power ds)).
Proof. unfold select. intros H. destruct (Z.ltb_spec maxN 0); [lia | reflexivity]. Qed.

Lemma sort_power_length ds : length (sort_power ds) = length ds.
Proof. apply Permutation_length. apply sort_power_perm. Qed.

Theorem select_length maxN ds sel :
  0 <= maxN -> select maxN ds = Some sel ->
  Z.of_nat (length sel) = Z.min (Z.of_nat (length ds)) maxN.
Proof.
  intros H0 Hs. rewrite select_some in Hs by exact H0. injection Hs as <-.
  rewrite firstn_length, sort_power_length. lia.
Qed.

(* the selection is a prefix of the sorted list *)
Lemma select_prefix maxN ds sel :
  0 <= maxN -> select maxN ds = Some sel -> exists rest, sort_power ds = sel ++ rest.
Proof.
  intros H0 Hs. rewrite select_some in Hs by exact H0. injection Hs as <-.
  eexists. symmetry. apply firstn_skipn.
Qed.

Lemma StronglySorted_app_inv {A} (R : A -> A -> Prop) l1 l2 :
  StronglySorted R (l1 ++ l2) ->
  StronglySorted R l1 /\ StronglySorted R l2 /\ (forall a b, In a l1 -> In b l2 -> R a b).
Proof.
  induction l1 as [|x l1 IH]; simpl; intros Hs.
  - split; [constructor|]. split; [exact Hs|]. intros a b [].
  - apply StronglySorted_inv in Hs. destruct Hs as [Hs Hf].
    destruct (IH Hs) as [H1 [H2 H3]]. rewrite Forall_forall in Hf.
    split; [|split; [exact H2|]].
    + constructor; [exact H1|]. rewrite Forall_forall. intros y Hy. apply Hf.
      apply in_or_app. left. exact Hy.
    + intros a b [<-|Ha] Hb.
      * apply Hf. apply in_or_app. right. exact Hb.
      * apply H3; assumption.
Qed.

Theorem select_sorted maxN ds sel :
  0 <= maxN -> distinct ds -> select maxN ds = Some sel -> power_sorted sel.
Proof.
  intros H0 Hd Hs. destruct (select_prefix _ _ _ H0 Hs) as [rest Hr].
  pose proof (sort_power_sorted ds Hd) as Hss. unfold power_sorted in Hss. rewrite Hr in Hss.
  apply StronglySorted_app_inv in Hss. apply Hss.
Qed.

Lemma select_incl maxN ds sel d :
  0 <= maxN -> select maxN ds = Some sel -> In d sel -> In d ds.
Proof.
  intros H0 Hs Hin. destruct (select_prefix _ _ _ H0 Hs) as [rest Hr].
  eapply Permutation_in; [apply sort_power_perm|]. rewrite Hr. apply in_or_app. left. exact Hin.
Qed.

Lemma NoDup_app_l {A} (l1 l2 : list A) : NoDup (l1 ++ l2) -> NoDup l1.
Proof.
  induction l1 as [|x l1 IH]; simpl; intros H; [constructor|].
  apply NoDup_cons_iff in H. destruct H as [Hx H]. constructor; [|apply IH; exact H].
  intros Hin. apply Hx. apply in_or_app. left. exact Hin.
Qed.

Lemma select_distinct maxN ds sel :
  0 <= maxN -> distinct ds -> select maxN ds = Some sel -> distinct sel.
Proof.
  intros H0 Hd Hs. destruct (select_prefix _ _ _ H0 Hs) as [rest Hr].
  assert (Hd' : distinct (sel ++ rest)).
  { rewrite <- Hr. eapply distinct_perm; [symmetry; apply sort_power_perm | exact Hd]. }
  unfold distinct in *. rewrite map_app in Hd'. eapply NoDup_app_l. exact Hd'.
Qed.

(* every selected delegatee is an eligible one *)
Theorem select_subset minPower maxN all sel d :
  0 <= maxN -> select maxN (eligible minPower all) = Some sel ->
  In d sel -> In d all /\ minPower <= d_self d.
Proof.
  intros H0 Hs Hin. pose proof (select_incl _ _ _ _ H0 Hs Hin) as He.
  unfold eligible in He. apply filter_In in He. destruct He as [Ha Hb].
  split; [exact Ha|]. apply Z.leb_le. exact Hb.
Qed.

(* no unselected candidate ranks before a selected one; with distinct addresses the selected
   one ranks strictly before *)
Theorem select_top maxN ds sel d e :
  0 <= maxN -> distinct ds -> select maxN ds = Some sel ->
  In d sel -> In e ds -> ~ In e sel ->
  power_lt d e = true /\ power_lt e d = false.
Proof.
  intros H0 Hd Hs Hdin Hein Hnot. destruct (select_prefix _ _ _ H0 Hs) as [rest Hr].
  pose proof (sort_power_sorted ds Hd) as Hss. unfold power_sorted in Hss. rewrite Hr in Hss.
  apply StronglySorted_app_inv in Hss. destruct Hss as [_ [_ H3]].
  assert (Her : In e rest).
  { assert (In e (sel ++ rest)) as Hi.
    { rewrite <- Hr. eapply Permutation_in; [symmetry; apply sort_power_perm | exact Hein]. }
    apply in_app_or in Hi. destruct Hi as [Hi|Hi]; [contradiction | exact Hi]. }
  pose proof (H3 _ _ Hdin Her) as Hlt. unfold ltP in Hlt. split; [exact Hlt|].
  apply (lt_asym dg power_lt power_lt_irrefl power_lt_trans). exact Hlt.
Qed.

(* if the candidates do not fill the set, all of them are selected *)
Theorem select_all maxN ds sel :
  Z.of_nat (length ds) <= maxN -> select maxN ds = Some sel -> sel = sort_power ds.
Proof.
  intros Hle Hs. rewrite select_some in Hs by lia. injection Hs as <-.
  rewrite Z.min_l by lia. rewrite Nat2Z.id. rewrite <- sort_power_length. apply firstn_all.
Qed.

(* the set kept as lastValidators (sorted by address, then by power again) is the selection *)
Theorem select_resort maxN ds sel :
  0 <= maxN -> distinct ds -> select maxN ds = Some sel -> sort_power (sort_addr sel) = sel.
Proof.
  intros H0 Hd Hs. rewrite sort_power_sort_addr by (eapply select_distinct; eassumption).
  apply sort_power_id. eapply select_sorted; eassumption.
Qed.

(* selectValidators with any correct sort in BeginBlock gives the model's selection *)
Corollary select_unique_prefix maxN ds l' sel :
  0 <= maxN -> distinct ds -> Permutation l' ds -> go_sorted dg power_lt l' ->
  select maxN ds = Some sel ->
  firstn (Z.to_nat (Z.min (Z.of_nat (length l')) maxN)) l' = sel.
Proof.
  intros H0 Hd Hp Hg Hs. rewrite (select_unique ds l' Hd Hp Hg).
  rewrite select_some in Hs by exact H0. injection Hs as <-.
  rewrite sort_power_length. reflexivity.
Qed.

Print Assumptions select_length.
Print Assumptions select_sorted.
Print Assumptions select_subset.
Print Assumptions select_top.
Print Assumptions select_resort.

(* ---------- validatorUpdates ---------- *)

Definition vals (l : list dg) : list (N * Z) := map (fun d => (d_addr d, d_total d)) l.
Definition removals (l : list dg) : list (N * Z) := map (fun d => (d_addr d, 0)) l.

(* The merge loop of validatorUpdates over two address-sorted slices, with its two trailing
   loops.  An update is (address, power); power 0 is a removal. *)
Fixpoint updates (old new : list dg) {struct old} : list (N * Z) :=
  match old with
  | [] => vals new
  | o :: old' =>
    (fix go (new : list dg) {struct new} : list (N * Z) :=
       match new with
       | [] => removals (o :: old')
       | n :: new' =>
         match N.compare (d_addr o) (d_addr n) with
         | Lt => (d_addr o, 0) :: updates old' (n :: new')
         | Eq => if d_total o =? d_total n then updates old' new'
                 else (d_addr n, d_total n) :: updates old' new'
         | Gt => (d_addr n, d_total n) :: go new'
         end
       end) new
  end.

Lemma updates_nil_l new : updates [] new = vals new.
Proof. reflexivity. Qed.

Lemma updates_nil_r old : updates old [] = removals old.
Proof. destruct old; reflexivity. Qed.

Lemma updates_cons o old' n new' :
  updates (o :: old') (n :: new') =
  match N.compare (d_addr o) (d_addr n) with
  | Lt => (d_addr o, 0) :: updates old' (n :: new')
  | Eq => if d_total o =? d_total n then updates old' new'
          else (d_addr n, d_total n) :: updates old' new'
  | Gt => (d_addr n, d_total n) :: updates (o :: old') new'
  end.
Proof. reflexivity. Qed.

(* induction principle following the loop *)
Lemma updates_ind (P : list dg -> list dg -> Prop) :
  (forall new, P [] new) ->
  (forall o old', P (o :: old') []) ->
  (forall o old' n new',
     (d_addr o < d_addr n)%N -> P old' (n :: new') -> P (o :: old') (n :: new')) ->
  (forall o old' n new',
     d_addr o = d_addr n -> P old' new' -> P (o :: old') (n :: new')) ->
  (forall o old' n new',
     (d_addr n < d_addr o)%N -> P (o :: old') new' -> P (o :: old') (n :: new')) ->
  forall old new, P old new.
Proof.
  intros Hnl Hnr Hlt Heq Hgt. induction old as [|o old' IHo]; [exact Hnl|].
  induction new as [|n new' IHn]; [apply Hnr|].
  destruct (N.compare_spec (d_addr o) (d_addr n)) as [E|L|G].
  - apply Heq; [exact E | apply IHo].
  - apply Hlt; [exact L | apply IHo].
  - apply Hgt; [exact G | exact IHn].
Qed.

Ltac upd_case :=
  rewrite updates_cons;
  match goal with
  | H : (d_addr ?o < d_addr ?n)%N |- context [N.compare (d_addr ?o) (d_addr ?n)] =>
      rewrite (proj2 (N.compare_lt_iff _ _) H)
  | H : (d_addr ?n < d_addr ?o)%N |- context [N.compare (d_addr ?o) (d_addr ?n)] =>
      rewrite (proj2 (N.compare_gt_iff _ _) H)
  | H : d_addr ?o = d_addr ?n |- context [N.compare (d_addr ?o) (d_addr ?n)] =>
      rewrite (proj2 (N.compare_eq_iff _ _) H)
  end.

Lemma in_vals a p l : In (a, p) (vals l) <-> exists d, In d l /\ d_addr d = a /\ d_total d = p.
Proof.
  unfold vals. rewrite in_map_iff. split.
  - intros [d [E H]]. injection E as E1 E2. exists d. auto.
  - intros [d [H [E1 E2]]]. exists d. subst. auto.
Qed.

Lemma in_removals a p l : In (a, p) (removals l) <-> p = 0 /\ In a (map d_addr l).
Proof.
  unfold removals. rewrite in_map_iff. split.
  - intros [d [E H]]. injection E as E1 E2. subst. split; [reflexivity|]. apply in_map. exact H.
  - intros [E H]. apply in_map_iff in H. destruct H as [d [E1 H]]. exists d. subst. auto.
Qed.

(* where an update comes from: a removal names a member of old, anything else is an entry of
   new with its total power *)
Lemma updates_source old new a p :
  In (a, p) (updates old new) ->
  (p = 0 /\ In a (map d_addr old)) \/ (exists d, In d new /\ d_addr d = a /\ d_total d = p).
Proof.
  revert old new.
  apply (updates_ind (fun old new => In (a, p) (updates old new) ->
    (p = 0 /\ In a (map d_addr old)) \/ (exists d, In d new /\ d_addr d = a /\ d_total d = p))).
  - intros new H. right. apply in_vals. exact H.
  - intros o old' H. rewrite updates_nil_r in H. left. apply in_removals. exact H.
  - intros o old' n new' L IH H. revert H. upd_case. intros [H|H].
    + injection H as <- <-. left. split; [reflexivity | left; reflexivity].
    + destruct (IH H) as [[E Hi]|Hx]; [left | right; exact Hx].
      split; [exact E | right; exact Hi].
  - intros o old' n new' E IH H. revert H. upd_case.
    assert (Hrec : In (a, p) (updates old' new') ->
      (p = 0 /\ In a (map d_addr (o :: old'))) \/
      (exists d, In d (n :: new') /\ d_addr d = a /\ d_total d = p)).
    { intros H. destruct (IH H) as [[E0 Hi]|[d [Hd Hx]]].
      - left. split; [exact E0 | right; exact Hi].
      - right. exists d. split; [right; exact Hd | exact Hx]. }
    destruct (d_total o =? d_total n); [exact Hrec|].
    intros [H|H]; [|exact (Hrec H)].
    injection H as <- <-. right. exists n. split; [left; reflexivity | split; reflexivity].
  - intros o old' n new' G IH H. revert H. upd_case. intros [H|H].
    + injection H as <- <-. right. exists n. split; [left; reflexivity | split; reflexivity].
    + destruct (IH H) as [Hl|[d [Hd Hx]]]; [left; exact Hl|].
      right. exists d. split; [right; exact Hd | exact Hx].
Qed.

Lemma updates_keys_in old new a :
  In a (map fst (updates old new)) -> In a (map d_addr old) \/ In a (map d_addr new).
Proof.
  intros H. apply in_map_iff in H. destruct H as [[a' p] [E H]]. simpl in E. subst a'.
  destruct (updates_source _ _ _ _ H) as [[_ Hi]|[d [Hd [E _]]]].
  - left. exact Hi.
  - right. subst a. apply in_map. exact Hd.
Qed.

(* theorem 3, precise form *)
Theorem updates_zero_source old new a :
  In (a, 0) (updates old new) ->
  In a (map d_addr old) \/ (exists d, In d new /\ d_addr d = a /\ d_total d = 0).
Proof.
  intros H. destruct (updates_source _ _ _ _ H) as [[_ Hi]|Hx]; [left; exact Hi | right; exact Hx].
Qed.

(* theorem 3, clean form: with positive new powers, a power-0 update removes a member of old *)
Theorem updates_removals_in_old old new a :
  (forall d, In d new -> 0 < d_total d) ->
  In (a, 0) (updates old new) -> In a (map d_addr old).
Proof.
  intros Hpos H. destruct (updates_zero_source _ _ _ H) as [Hi|[d [Hd [_ E]]]]; [exact Hi|].
  pose proof (Hpos _ Hd). lia.
Qed.

Theorem updates_nonneg old new :
  (forall d, In d new -> 0 <= d_total d) ->
  forall a p, In (a, p) (updates old new) -> 0 <= p.
Proof.
  intros Hnn a p H. destruct (updates_source _ _ _ _ H) as [[E _]|[d [Hd [_ E]]]]; [lia|].
  pose proof (Hnn _ Hd). lia.
Qed.

Print Assumptions updates_zero_source.
Print Assumptions updates_removals_in_old.
Print Assumptions updates_nonneg.

(* ---------- the update list is address-sorted, hence duplicate-free ---------- *)

Definition above (a : N) (l : list dg) : Prop := forall k, In k (map d_addr l) -> (a < k)%N.

Lemma addr_sorted_inv o l : addr_sorted (o :: l) -> addr_sorted l /\ above (d_addr o) l.
Proof.
  unfold addr_sorted, above. simpl. intros H. apply StronglySorted_inv in H.
  destruct H as [Hs Hf]. split; [exact Hs|]. rewrite Forall_forall in Hf. exact Hf.
Qed.

Lemma addr_sorted_cons o l : addr_sorted l -> above (d_addr o) l -> addr_sorted (o :: l).
Proof.
  unfold addr_sorted, above. simpl. intros Hs Hf. constructor; [exact Hs|].
  rewrite Forall_forall. exact Hf.
Qed.

Lemma above_cons a n l : (a < d_addr n)%N -> above (d_addr n) l -> above a (n :: l).
Proof.
  unfold above. simpl. intros H1 H2 k [<-|Hk]; [exact H1|]. pose proof (H2 _ Hk). lia.
Qed.

Lemma above_lt a b l : (a <= b)%N -> above b l -> above a l.
Proof. unfold above. intros H1 H2 k Hk. pose proof (H2 _ Hk). lia. Qed.

Lemma map_fst_vals l : map fst (vals l) = map d_addr l.
Proof. unfold vals. rewrite map_map. reflexivity. Qed.

Lemma map_fst_removals l : map fst (removals l) = map d_addr l.
Proof. unfold removals. rewrite map_map. reflexivity. Qed.

Lemma updates_keys_above a old new :
  above a old -> above a new -> forall k, In k (map fst (updates old new)) -> (a < k)%N.
Proof.
  intros Ho Hn k Hk. destruct (updates_keys_in _ _ _ Hk) as [H|H]; [apply Ho | apply Hn]; exact H.
Qed.

Lemma updates_keys_sorted old new :
  addr_sorted old -> addr_sorted new -> StronglySorted N.lt (map fst (updates old new)).
Proof.
  revert old new.
  apply (updates_ind (fun old new => addr_sorted old -> addr_sorted new ->
                                     StronglySorted N.lt (map fst (updates old new)))).
  - intros new _ Hn. rewrite updates_nil_l, map_fst_vals. exact Hn.
  - intros o old' Ho _. rewrite updates_nil_r, map_fst_removals. exact Ho.
  - intros o old' n new' L IH Ho Hn. upd_case. rewrite map_cons. cbn [fst].
    destruct (addr_sorted_inv _ _ Ho) as [Ho' Hao]. destruct (addr_sorted_inv _ _ Hn) as [Hn' Han].
    constructor; [apply IH; assumption|]. rewrite Forall_forall.
    apply updates_keys_above; [exact Hao|]. apply above_cons; assumption.
  - intros o old' n new' E IH Ho Hn. upd_case.
    destruct (addr_sorted_inv _ _ Ho) as [Ho' Hao]. destruct (addr_sorted_inv _ _ Hn) as [Hn' Han].
    destruct (d_total o =? d_total n); [apply IH; assumption|]. rewrite map_cons. cbn [fst].
    constructor; [apply IH; assumption|]. rewrite Forall_forall.
    apply updates_keys_above; [rewrite <- E; exact Hao | exact Han].
  - intros o old' n new' G IH Ho Hn. upd_case. rewrite map_cons. cbn [fst].
    destruct (addr_sorted_inv _ _ Ho) as [Ho' Hao]. destruct (addr_sorted_inv _ _ Hn) as [Hn' Han].
    constructor; [apply IH; assumption|]. rewrite Forall_forall.
    apply updates_keys_above; [|exact Han]. apply above_cons; assumption.
Qed.

Lemma sorted_N_NoDup (k : list N) : StronglySorted N.lt k -> NoDup k.
Proof.
  induction 1 as [|a k Hs IH Hf]; constructor; [|exact IH].
  intros Hin. rewrite Forall_forall in Hf. pose proof (Hf _ Hin). lia.
Qed.

(* theorem 2 *)
Theorem updates_nodup old new :
  addr_sorted old -> addr_sorted new -> NoDup (map fst (updates old new)).
Proof. intros Ho Hn. apply sorted_N_NoDup. apply updates_keys_sorted; assumption. Qed.

Print Assumptions updates_nodup.

Arguments updates : simpl never.

(* ---------- Tendermint's application of validator updates ---------- *)

(* A validator set is an address-sorted association list (address, power). *)
Fixpoint set_put (a : N) (p : Z) (s : list (N * Z)) : list (N * Z) :=
  match s with
  | [] => [(a, p)]
  | (k, v) :: r =>
    match N.compare a k with
    | Lt => (a, p) :: (k, v) :: r
    | Eq => (a, p) :: r
    | Gt => (k, v) :: set_put a p r
    end
  end.

Definition set_remove (a : N) (s : list (N * Z)) : list (N * Z) :=
  filter (fun kv => negb (N.eqb (fst kv) a)) s.

(* power 0 removes the validator, any other power inserts it or replaces its power *)
Definition apply_update (s : list (N * Z)) (u : N * Z) : list (N * Z) :=
  if snd u =? 0 then set_remove (fst u) s else set_put (fst u) (snd u) s.

Definition apply_updates (s ups : list (N * Z)) : list (N * Z) := fold_left apply_update ups s.

(* What Tendermint (types/validator_set.go, updateWithChangeSet) rejects before applying:
   duplicate addresses, negative power, removal of an address that is not in the set. *)
Definition set_mem (a : N) (s : list (N * Z)) : bool := existsb (fun kv => N.eqb (fst kv) a) s.

Fixpoint nodupb (l : list N) : bool :=
  match l with
  | [] => true
  | a :: r => negb (existsb (N.eqb a) r) && nodupb r
  end.

Definition tm_check (s ups : list (N * Z)) : bool :=
  nodupb (map fst ups)
  && forallb (fun u => 0 <=? snd u) ups
  && forallb (fun u => negb (snd u =? 0) || set_mem (fst u) s) ups.

Definition tm_apply_updates (s ups : list (N * Z)) : option (list (N * Z)) :=
  if tm_check s ups then Some (apply_updates s ups) else None.

Lemma apply_updates_cons s u ups : apply_updates s (u :: ups) = apply_updates (apply_update s u) ups.
Proof. reflexivity. Qed.

Lemma apply_updates_nil s : apply_updates s [] = s.
Proof. reflexivity. Qed.

Lemma apply_update_head k v s a p :
  (k < a)%N -> apply_update ((k, v) :: s) (a, p) = (k, v) :: apply_update s (a, p).
Proof.
  intros L. unfold apply_update. cbn [fst snd]. destruct (p =? 0).
  - unfold set_remove. cbn [filter fst]. destruct (N.eqb_spec k a); [lia | reflexivity].
  - cbn [set_put]. rewrite (proj2 (N.compare_gt_iff a k)) by exact L. reflexivity.
Qed.

Lemma apply_updates_head k v s ups :
  (forall a, In a (map fst ups) -> (k < a)%N) ->
  apply_updates ((k, v) :: s) ups = (k, v) :: apply_updates s ups.
Proof.
  revert s. induction ups as [|[a p] ups IH]; intros s Hk; [reflexivity|].
  rewrite !apply_updates_cons. rewrite apply_update_head by (apply Hk; left; reflexivity).
  apply IH. intros b Hb. apply Hk. right. exact Hb.
Qed.

Lemma set_remove_above a l : above a l -> set_remove a (vals l) = vals l.
Proof.
  unfold above, set_remove. induction l as [|d l IH]; intros Ha; [reflexivity|].
  cbn [vals map filter fst].
  destruct (N.eqb_spec (d_addr d) a) as [E|_].
  - pose proof (Ha (d_addr d) (or_introl eq_refl)). lia.
  - cbn [negb]. f_equal. apply IH. intros k Hk. apply Ha. right. exact Hk.
Qed.

Lemma apply_remove_head o l :
  above (d_addr o) l -> apply_update (vals (o :: l)) (d_addr o, 0) = vals l.
Proof.
  intros Ha. unfold apply_update. cbn [fst snd Z.eqb]. unfold set_remove.
  cbn [vals map filter fst]. rewrite N.eqb_refl. cbn [negb].
  apply (set_remove_above _ _ Ha).
Qed.

Definition nonzero (l : list dg) : Prop := forall d, In d l -> d_total d <> 0.

Lemma nonzero_tail d l : nonzero (d :: l) -> nonzero l.
Proof. intros H x Hx. apply H. right. exact Hx. Qed.

Lemma apply_put_nz s a p : p <> 0 -> apply_update s (a, p) = set_put a p s.
Proof. intros H. unfold apply_update. cbn [fst snd]. destruct (Z.eqb_spec p 0); [contradiction | reflexivity]. Qed.

Lemma apply_adds new : addr_sorted new -> nonzero new -> apply_updates [] (vals new) = vals new.
Proof.
  induction new as [|n new' IH]; intros Hs Hz; [reflexivity|].
  destruct (addr_sorted_inv _ _ Hs) as [Hs' Ha].
  change (vals (n :: new')) with ((d_addr n, d_total n) :: vals new').
  rewrite apply_updates_cons. rewrite apply_put_nz by (apply Hz; left; reflexivity).
  cbn [set_put]. rewrite apply_updates_head.
  - f_equal. apply IH; [exact Hs' | eapply nonzero_tail; exact Hz].
  - rewrite map_fst_vals. exact Ha.
Qed.

Lemma apply_removals old : addr_sorted old -> apply_updates (vals old) (removals old) = [].
Proof.
  induction old as [|o old' IH]; intros Hs; [reflexivity|].
  destruct (addr_sorted_inv _ _ Hs) as [Hs' Ha].
  change (removals (o :: old')) with ((d_addr o, 0) :: removals old').
  rewrite apply_updates_cons, (apply_remove_head _ _ Ha). apply IH. exact Hs'.
Qed.

(* theorem 1 *)
Theorem updates_apply old new :
  addr_sorted old -> addr_sorted new -> nonzero new ->
  apply_updates (vals old) (updates old new) = vals new.
Proof.
  revert old new.
  apply (updates_ind (fun old new => addr_sorted old -> addr_sorted new -> nonzero new ->
                        apply_updates (vals old) (updates old new) = vals new)).
  - intros new _ Hn Hz. rewrite ?updates_nil_l. apply apply_adds; assumption.
  - intros o old' Ho _ _. rewrite ?updates_nil_r. apply apply_removals. exact Ho.
  - intros o old' n new' L IH Ho Hn Hz. upd_case.
    destruct (addr_sorted_inv _ _ Ho) as [Ho' Hao].
    rewrite apply_updates_cons, (apply_remove_head _ _ Hao). apply IH; assumption.
  - intros o old' n new' E IH Ho Hn Hz. upd_case.
    destruct (addr_sorted_inv _ _ Ho) as [Ho' Hao]. destruct (addr_sorted_inv _ _ Hn) as [Hn' Han].
    assert (Hk : forall a, In a (map fst (updates old' new')) -> (d_addr n < a)%N).
    { apply updates_keys_above; [rewrite <- E; exact Hao | exact Han]. }
    change (vals (n :: new')) with ((d_addr n, d_total n) :: vals new').
    change (vals (o :: old')) with ((d_addr o, d_total o) :: vals old').
    destruct (Z.eqb_spec (d_total o) (d_total n)) as [Et|Et].
    + rewrite E, Et. rewrite apply_updates_head by exact Hk.
      f_equal. apply IH; [exact Ho' | exact Hn' | eapply nonzero_tail; exact Hz].
    + rewrite apply_updates_cons. rewrite apply_put_nz by (apply Hz; left; reflexivity).
      cbn [set_put]. rewrite (proj2 (N.compare_eq_iff (d_addr n) (d_addr o))) by (symmetry; exact E).
      rewrite apply_updates_head by exact Hk.
      f_equal. apply IH; [exact Ho' | exact Hn' | eapply nonzero_tail; exact Hz].
  - intros o old' n new' G IH Ho Hn Hz. upd_case.
    destruct (addr_sorted_inv _ _ Ho) as [Ho' Hao]. destruct (addr_sorted_inv _ _ Hn) as [Hn' Han].
    change (vals (n :: new')) with ((d_addr n, d_total n) :: vals new').
    rewrite apply_updates_cons. rewrite apply_put_nz by (apply Hz; left; reflexivity).
    change (vals (o :: old')) with ((d_addr o, d_total o) :: vals old') at 1.
    cbn [set_put]. rewrite (proj2 (N.compare_lt_iff (d_addr n) (d_addr o))) by exact G.
    change ((d_addr o, d_total o) :: vals old') with (vals (o :: old')).
    rewrite apply_updates_head.
    + f_equal. apply IH; [exact Ho | exact Hn' | eapply nonzero_tail; exact Hz].
    + apply updates_keys_above; [|exact Han]. apply above_cons; assumption.
Qed.

Print Assumptions updates_apply.

(* ---------- well-formedness for the consensus engine ---------- *)

Lemma nodupb_true (l : list N) : NoDup l -> nodupb l = true.
Proof.
  induction 1 as [|a l Hn Hnd IH]; [reflexivity|]. cbn [nodupb]. rewrite IH, andb_true_r.
  destruct (existsb (N.eqb a) l) eqn:E; [|reflexivity].
  apply existsb_exists in E. destruct E as [x [Hx Hax]]. apply N.eqb_eq in Hax. subst x.
  contradiction.
Qed.

Lemma set_mem_vals a l : In a (map d_addr l) -> set_mem a (vals l) = true.
Proof.
  intros H. apply in_map_iff in H. destruct H as [d [E H]]. unfold set_mem.
  apply existsb_exists. exists (d_addr d, d_total d). split.
  - unfold vals. apply in_map_iff. exists d. auto.
  - cbn [fst]. apply N.eqb_eq. exact E.
Qed.

Lemma updates_tm_check old new :
  addr_sorted old -> addr_sorted new -> (forall d, In d new -> 0 < d_total d) ->
  tm_check (vals old) (updates old new) = true.
Proof.
  intros Ho Hn Hpos. unfold tm_check. rewrite !andb_true_iff. split; [split|].
  - apply nodupb_true. apply updates_nodup; assumption.
  - apply forallb_forall. intros [a p] H. cbn [snd]. apply Z.leb_le.
    eapply updates_nonneg; [|exact H]. intros d Hd. pose proof (Hpos d Hd). lia.
  - apply forallb_forall. intros [a p] H. cbn [fst snd].
    destruct (Z.eqb_spec p 0) as [E|E]; [|reflexivity]. subst p. cbn [negb orb].
    apply set_mem_vals. eapply updates_removals_in_old; eassumption.
Qed.

(* theorems 1-3 together: Tendermint accepts the update list and ends up with the new set *)
Theorem updates_wellformed old new :
  addr_sorted old -> addr_sorted new -> (forall d, In d new -> 0 < d_total d) ->
  tm_apply_updates (vals old) (updates old new) = Some (vals new).
Proof.
  intros Ho Hn Hpos. unfold tm_apply_updates. rewrite updates_tm_check by assumption.
  f_equal. apply updates_apply; try assumption. intros d Hd. pose proof (Hpos d Hd). lia.
Qed.

(* Without the hypothesis on the new powers theorems 1 and 3 are false: a validator that is added
   (or changed) with total power 0 is emitted with power 0, which Tendermint reads as a removal. *)
Theorem updates_apply_zero_refuted :
  exists old new, addr_sorted old /\ addr_sorted new /\
                  apply_updates (vals old) (updates old new) <> vals new.
Proof.
  exists [], [mk_dg 1 0 0 0]. split; [constructor|]. split; [repeat constructor|].
  vm_compute. discriminate.
Qed.

Theorem updates_removals_zero_refuted :
  exists old new a, addr_sorted old /\ addr_sorted new /\
                    In (a, 0) (updates old new) /\ ~ In a (map d_addr old) /\
                    tm_apply_updates (vals old) (updates old new) = None.
Proof.
  exists [], [mk_dg 1 0 0 0], 1%N. split; [constructor|]. split; [repeat constructor|].
  split; [left; reflexivity|]. split; [intros []|]. reflexivity.
Qed.

Print Assumptions updates_wellformed.
Print Assumptions updates_apply_zero_refuted.
Print Assumptions updates_removals_zero_refuted.

(* ---------- minimality: exactly the differences are reported ---------- *)

Fixpoint lookup (a : N) (s : list (N * Z)) : option Z :=
  match s with
  | [] => None
  | (k, v) :: r => if N.eqb k a then Some v else lookup a r
  end.

Definition pw (o : option Z) : Z := match o with Some q => q | None => 0 end.

(* theorem 4a (and its converse); no sortedness needed *)
Theorem updates_minimal old new : vals old = vals new -> updates old new = [].
Proof.
  revert new. induction old as [|o old' IH]; intros new H.
  - rewrite updates_nil_l. symmetry. exact H.
  - destruct new as [|n new']; [discriminate H|].
    change (vals (o :: old')) with ((d_addr o, d_total o) :: vals old') in H.
    change (vals (n :: new')) with ((d_addr n, d_total n) :: vals new') in H.
    injection H as Ea Et Hr. rewrite updates_cons.
    rewrite (proj2 (N.compare_eq_iff _ _) Ea). rewrite (proj2 (Z.eqb_eq _ _) Et).
    apply IH. exact Hr.
Qed.

Theorem updates_nil_inv old new : updates old new = [] -> vals old = vals new.
Proof.
  revert old new.
  apply (updates_ind (fun old new => updates old new = [] -> vals old = vals new)).
  - intros new H. rewrite ?updates_nil_l in H. symmetry. exact H.
  - intros o old' H. rewrite ?updates_nil_r in H. discriminate H.
  - intros o old' n new' L IH. upd_case. discriminate.
  - intros o old' n new' E IH. upd_case.
    destruct (Z.eqb_spec (d_total o) (d_total n)) as [Et|Et]; [|discriminate].
    intros H. change (vals (o :: old')) with ((d_addr o, d_total o) :: vals old').
    change (vals (n :: new')) with ((d_addr n, d_total n) :: vals new').
    rewrite E, Et, (IH H). reflexivity.
  - intros o old' n new' G IH. upd_case. discriminate.
Qed.

Lemma lookup_cons a d l :
  lookup a (vals (d :: l)) = if N.eqb (d_addr d) a then Some (d_total d) else lookup a (vals l).
Proof. reflexivity. Qed.

Lemma lookup_none_iff a l : lookup a (vals l) = None <-> ~ In a (map d_addr l).
Proof.
  induction l as [|d l IH]; [simpl; tauto|]. rewrite lookup_cons. cbn [map In].
  destruct (N.eqb_spec (d_addr d) a) as [E|E].
  - split; [discriminate | intros H; exfalso; apply H; left; exact E].
  - rewrite IH. tauto.
Qed.

Lemma lookup_above a b l : (a <= b)%N -> above b l -> lookup a (vals l) = None.
Proof.
  intros Hab Ha. apply lookup_none_iff. intros Hin. pose proof (Ha _ Hin). lia.
Qed.

Lemma in_vals_lookup a p l : addr_sorted l -> (In (a, p) (vals l) <-> lookup a (vals l) = Some p).
Proof.
  induction l as [|d l IH]; intros Hs; [simpl; split; [tauto | discriminate]|].
  destruct (addr_sorted_inv _ _ Hs) as [Hs' Ha]. rewrite lookup_cons.
  change (vals (d :: l)) with ((d_addr d, d_total d) :: vals l). cbn [In].
  rewrite pair_equal_spec, (IH Hs').
  destruct (N.eqb_spec (d_addr d) a) as [E|E].
  - subst a. rewrite (lookup_above _ _ _ (N.le_refl _) Ha).
    split; [intros [[_ H]|H]; [congruence | discriminate H] | intros H; left; split; congruence].
  - split; [intros [[H _]|H]; [contradiction | exact H] | intros H; right; exact H].
Qed.

(* theorem 4b: an update (a, p) is emitted iff the entry of a differs between old and new, and
   then p is a's new power, or 0 if a is not in new *)
Theorem updates_spec old new a p :
  addr_sorted old -> addr_sorted new ->
  (In (a, p) (updates old new) <->
   lookup a (vals old) <> lookup a (vals new) /\ p = pw (lookup a (vals new))).
Proof.
  revert old new.
  apply (updates_ind (fun old new => addr_sorted old -> addr_sorted new ->
    (In (a, p) (updates old new) <->
     lookup a (vals old) <> lookup a (vals new) /\ p = pw (lookup a (vals new))))).
  - intros new _ Hn. rewrite ?updates_nil_l. rewrite (in_vals_lookup _ _ _ Hn).
    change (lookup a (vals [])) with (@None Z).
    destruct (lookup a (vals new)) as [q|]; cbn [pw].
    + split; [intros H; split; congruence | intros [_ H]; congruence].
    + split; [discriminate | intros [H _]; contradiction H; reflexivity].
  - intros o old' Ho _. rewrite ?updates_nil_r. rewrite in_removals.
    change (lookup a (vals [])) with (@None Z). cbn [pw].
    rewrite lookup_none_iff.
    split; [intros [H1 H2]; split; [tauto | exact H1]|].
    intros [H1 H2]. split; [exact H2|].
    destruct (in_dec N.eq_dec a (map d_addr (o :: old'))) as [Hi|Hi]; [exact Hi | contradiction].
  - intros o old' n new' L IH Ho Hn. upd_case.
    destruct (addr_sorted_inv _ _ Ho) as [Ho' Hao]. destruct (addr_sorted_inv _ _ Hn) as [Hn' Han].
    specialize (IH Ho' Hn). rewrite (lookup_cons a o old'). cbn [In].
    rewrite IH, pair_equal_spec.
    destruct (N.eqb_spec (d_addr o) a) as [E|E].
    + subst a. rewrite (lookup_above _ _ old' (N.le_refl _) Hao).
      rewrite (lookup_above (d_addr o) (d_addr o) (n :: new') (N.le_refl _))
        by (apply above_cons; assumption).
      cbn [pw]. split.
      * intros [[_ H]|[H _]]; [split; [discriminate | congruence] | contradiction H; reflexivity].
      * intros [_ H]. left. split; congruence.
    + split; [intros [[H _]|H]; [contradiction | exact H] | intros H; right; exact H].
  - intros o old' n new' E IH Ho Hn. upd_case.
    destruct (addr_sorted_inv _ _ Ho) as [Ho' Hao]. destruct (addr_sorted_inv _ _ Hn) as [Hn' Han].
    specialize (IH Ho' Hn'). rewrite (lookup_cons a o old'), (lookup_cons a n new').
    rewrite <- E.
    destruct (Z.eqb_spec (d_total o) (d_total n)) as [Et|Et].
    + rewrite IH. destruct (N.eqb_spec (d_addr o) a) as [Ea|Ea]; [|tauto].
      subst a. rewrite (lookup_above _ _ old' (N.le_refl _) Hao).
      rewrite (lookup_above (d_addr o) (d_addr n) new') by (try lia; exact Han).
      split; [intros [H _]; contradiction H; reflexivity | intros [H _]; congruence].
    + cbn [In]. rewrite IH, pair_equal_spec.
      destruct (N.eqb_spec (d_addr o) a) as [Ea|Ea].
      * subst a. rewrite (lookup_above _ _ old' (N.le_refl _) Hao).
        rewrite (lookup_above (d_addr o) (d_addr n) new') by (try lia; exact Han).
        cbn [pw]. split.
        -- intros [[_ H]|[H _]]; [split; congruence | contradiction H; reflexivity].
        -- intros [_ H]. left. split; congruence.
      * split; [intros [[H _]|H]; [congruence | exact H] | intros H; right; exact H].
  - intros o old' n new' G IH Ho Hn. upd_case.
    destruct (addr_sorted_inv _ _ Ho) as [Ho' Hao]. destruct (addr_sorted_inv _ _ Hn) as [Hn' Han].
    specialize (IH Ho Hn'). rewrite (lookup_cons a n new'). cbn [In].
    rewrite IH, pair_equal_spec.
    destruct (N.eqb_spec (d_addr n) a) as [Ea|Ea].
    + subst a. rewrite (lookup_above _ _ new' (N.le_refl _) Han).
      rewrite (lookup_above (d_addr n) (d_addr n) (o :: old') (N.le_refl _))
        by (apply above_cons; assumption).
      cbn [pw]. split.
      * intros [[_ H]|[H _]]; [split; congruence | contradiction H; reflexivity].
      * intros [_ H]. left. split; congruence.
    + split; [intros [[H _]|H]; [contradiction | exact H] | intros H; right; exact H].
Qed.

(* address-level form: an address appears among the updates iff its (presence, power) differs *)
Theorem updates_key_iff old new a :
  addr_sorted old -> addr_sorted new ->
  (In a (map fst (updates old new)) <-> lookup a (vals old) <> lookup a (vals new)).
Proof.
  intros Ho Hn. split.
  - intros H. apply in_map_iff in H. destruct H as [[a' p] [E H]]. cbn [fst] in E. subst a'.
    apply (updates_spec _ _ _ _ Ho Hn) in H. apply H.
  - intros H. apply in_map_iff. exists (a, pw (lookup a (vals new))). split; [reflexivity|].
    apply (updates_spec _ _ _ _ Ho Hn). split; [exact H | reflexivity].
Qed.

(* exact form of theorem 3 under positive new powers: removals are the members of old that are
   not in new *)
Theorem updates_removal_iff old new a :
  addr_sorted old -> addr_sorted new -> (forall d, In d new -> 0 < d_total d) ->
  (In (a, 0) (updates old new) <-> In a (map d_addr old) /\ ~ In a (map d_addr new)).
Proof.
  intros Ho Hn Hpos. rewrite (updates_spec _ _ _ _ Ho Hn). rewrite <- (lookup_none_iff a new).
  destruct (lookup a (vals new)) as [q|] eqn:Eq; cbn [pw].
  - apply (in_vals_lookup _ _ _ Hn) in Eq. apply in_vals in Eq. destruct Eq as [d [Hd [_ Et]]].
    pose proof (Hpos d Hd). split; [intros [_ H0]; lia | intros [_ H0]; discriminate H0].
  - split.
    + intros [H _]. split; [|reflexivity].
      destruct (in_dec N.eq_dec a (map d_addr old)) as [Hi|Hi]; [exact Hi|].
      apply lookup_none_iff in Hi. congruence.
    + intros [H _]. split; [|reflexivity]. intros Hc. apply lookup_none_iff in Hc. contradiction.
Qed.

Print Assumptions updates_minimal.
Print Assumptions updates_nil_inv.
Print Assumptions updates_spec.
Print Assumptions updates_key_iff.
Print Assumptions updates_removal_iff.

(* ---------- history: folding the per-block diffs reproduces the last selection ---------- *)

Fixpoint map2 {A B C : Type} (f : A -> B -> C) (la : list A) (lb : list B) : list C :=
  match la, lb with
  | a :: la', b :: lb' => f a b :: map2 f la' lb'
  | _, _ => []
  end.

Lemma last_cons {A} (x y : A) l : last (x :: l) y = last l x.
Proof.
  revert x y. induction l as [|z l IH]; intros x y; [reflexivity|].
  change (last (x :: z :: l) y) with (last (z :: l) y). rewrite !IH. reflexivity.
Qed.

(* theorem 5 *)
Theorem history_fold (s0 : list dg) (sets : list (list dg)) :
  addr_sorted s0 -> Forall addr_sorted sets -> Forall nonzero sets ->
  fold_left apply_updates (map2 updates (s0 :: sets) sets) (vals s0) = vals (last sets s0).
Proof.
  revert s0. induction sets as [|s1 r IH]; intros s0 H0 Hs Hz; [reflexivity|].
  apply Forall_cons_iff in Hs. destruct Hs as [H1 Hs].
  apply Forall_cons_iff in Hz. destruct Hz as [Hz1 Hz].
  cbn [map2 fold_left]. rewrite (updates_apply _ _ H0 H1 Hz1).
  rewrite last_cons. apply IH; assumption.
Qed.

(* the same with Tendermint's checks at every block *)
Fixpoint tm_run (s : list (N * Z)) (upss : list (list (N * Z))) : option (list (N * Z)) :=
  match upss with
  | [] => Some s
  | u :: r => match tm_apply_updates s u with
              | Some s' => tm_run s' r
              | None => None
              end
  end.

Definition positive (l : list dg) : Prop := forall d, In d l -> 0 < d_total d.

Theorem history_wellformed (s0 : list dg) (sets : list (list dg)) :
  addr_sorted s0 -> Forall addr_sorted sets -> Forall positive sets ->
  tm_run (vals s0) (map2 updates (s0 :: sets) sets) = Some (vals (last sets s0)).
Proof.
  revert s0. induction sets as [|s1 r IH]; intros s0 H0 Hs Hz; [reflexivity|].
  apply Forall_cons_iff in Hs. destruct Hs as [H1 Hs].
  apply Forall_cons_iff in Hz. destruct Hz as [Hz1 Hz].
  cbn [map2 tm_run]. rewrite (updates_wellformed _ _ H0 H1 Hz1).
  rewrite last_cons. apply IH; assumption.
Qed.

Print Assumptions history_fold.
Print Assumptions history_wellformed.

(* ---------- executable entry point: updateValidators ---------- *)

(* lastv = ctrler.lastValidators, all = the committed delegatees read by BeginBlock.
   Result: the validator updates handed to the consensus engine and the new lastValidators
   (sorted by power, as updateValidators leaves it).  None = the slice expression of
   selectValidators panics (maxN < 0). *)
Definition end_block_updates (minPower maxN : Z) (lastv all : list dg)
  : option (list (N * Z) * list dg) :=
  match select maxN (eligible minPower all) with
  | None => None
  | Some sel => Some (updates (sort_addr lastv) (sort_addr sel), sel)
  end.

Lemma distinct_filter f l : distinct l -> distinct (filter f l).
Proof.
  unfold distinct. induction l as [|d l IH]; intros H; [constructor|].
  cbn [map] in H. apply NoDup_cons_iff in H. destruct H as [Hd H]. cbn [filter].
  destruct (f d); [|apply IH; exact H]. cbn [map]. constructor; [|apply IH; exact H].
  intros Hin. apply Hd. apply in_map_iff in Hin. destruct Hin as [x [E Hx]].
  apply filter_In in Hx. rewrite <- E. apply in_map. apply Hx.
Qed.

Lemma eligible_distinct minPower all : distinct all -> distinct (eligible minPower all).
Proof. apply distinct_filter. Qed.

Theorem end_block_updates_neg minPower maxN lastv all :
  maxN < 0 -> end_block_updates minPower maxN lastv all = None.
Proof. intros H. unfold end_block_updates. rewrite select_neg by exact H. reflexivity. Qed.

Theorem end_block_updates_ok minPower maxN lastv all ups newlast :
  0 <= maxN -> distinct lastv -> distinct all ->
  (forall d, In d all -> minPower <= d_self d -> 0 < d_total d) ->
  end_block_updates minPower maxN lastv all = Some (ups, newlast) ->
  select maxN (eligible minPower all) = Some newlast
  /\ distinct newlast /\ power_sorted newlast
  /\ sort_power (sort_addr newlast) = newlast
  /\ tm_apply_updates (vals (sort_addr lastv)) ups = Some (vals (sort_addr newlast)).
Proof.
  intros H0 Hdl Hda Hpos He. unfold end_block_updates in He.
  destruct (select maxN (eligible minPower all)) as [sel|] eqn:Hs; [|discriminate He].
  injection He as <- <-.
  pose proof (eligible_distinct minPower all Hda) as Hde.
  pose proof (select_distinct _ _ _ H0 Hde Hs) as Hds.
  split; [reflexivity|]. split; [exact Hds|].
  split; [exact (select_sorted _ _ _ H0 Hde Hs)|].
  split; [exact (select_resort _ _ _ H0 Hde Hs)|].
  apply updates_wellformed.
  - apply sort_addr_sorted. exact Hdl.
  - apply sort_addr_sorted. exact Hds.
  - intros d Hd. assert (Hin : In d sel).
    { eapply Permutation_in; [apply sort_addr_perm | exact Hd]. }
    destruct (select_subset _ _ _ _ _ H0 Hs Hin) as [Ha Hm]. apply Hpos; assumption.
Qed.

(* several blocks: (minPower, maxN, committed delegatees) per block *)
Definition blk : Type := Z * Z * list dg.

Fixpoint run_blocks (lastv : list dg) (blks : list blk) : option (list (list (N * Z)) * list dg) :=
  match blks with
  | [] => Some ([], lastv)
  | (mp, mx, all) :: r =>
    match end_block_updates mp mx lastv all with
    | None => None
    | Some (u, l') =>
      match run_blocks l' r with
      | None => None
      | Some (us, lf) => Some (u :: us, lf)
      end
    end
  end.

Definition blk_ok (b : blk) : Prop :=
  let '(mp, mx, all) := b in
  0 <= mx /\ distinct all /\ (forall d, In d all -> mp <= d_self d -> 0 < d_total d).

Theorem run_blocks_ok (blks : list blk) :
  forall lastv upss lf,
  distinct lastv -> Forall blk_ok blks ->
  run_blocks lastv blks = Some (upss, lf) ->
  tm_run (vals (sort_addr lastv)) upss = Some (vals (sort_addr lf))
  /\ (forall pre mp mx all, blks = pre ++ [(mp, mx, all)] ->
                            select mx (eligible mp all) = Some lf).
Proof.
  induction blks as [|[[mp mx] all] r IH]; intros lastv upss lf Hd Hok Hr.
  - injection Hr as <- <-. split; [reflexivity|]. intros [|x pre] ? ? ? H; discriminate H.
  - apply Forall_cons_iff in Hok. destruct Hok as [[H0 [Hda Hpos]] Hok].
    cbn [run_blocks] in Hr.
    destruct (end_block_updates mp mx lastv all) as [[u l']|] eqn:He; [|discriminate Hr].
    destruct (run_blocks l' r) as [[us lf']|] eqn:Hr'; [|discriminate Hr].
    injection Hr as <- <-.
    destruct (end_block_updates_ok _ _ _ _ _ _ H0 Hd Hda Hpos He) as [Hs [Hdn [_ [_ Ht]]]].
    destruct (IH _ _ _ Hdn Hok Hr') as [IH1 IH2].
    split.
    + cbn [tm_run]. rewrite Ht. exact IH1.
    + intros pre mp' mx' all' E. destruct pre as [|x pre].
      * cbn [app] in E. injection E as <- <- <- Er. subst r.
        cbn [run_blocks] in Hr'. injection Hr' as _ <-. exact Hs.
      * cbn [app] in E. injection E as _ Er. eapply IH2. exact Er.
Qed.

Theorem run_blocks_total (blks : list blk) :
  forall lastv, Forall (fun b : blk => 0 <= snd (fst b)) blks -> run_blocks lastv blks <> None.
Proof.
  induction blks as [|[[mp mx] all] r IH]; intros lastv Hok; [discriminate|].
  apply Forall_cons_iff in Hok. destruct Hok as [H0 Hok]. cbn [fst snd] in H0.
  cbn [run_blocks]. unfold end_block_updates. rewrite select_some by exact H0.
  specialize (IH (firstn (Z.to_nat (Z.min (Z.of_nat (length (eligible mp all))) mx))
                         (sort_power (eligible mp all))) Hok).
  destruct (run_blocks _ r) as [[us lf]|]; [discriminate | contradiction IH; reflexivity].
Qed.

Print Assumptions end_block_updates_ok.
Print Assumptions run_blocks_ok.
Print Assumptions run_blocks_total.

(* ---------- concrete instances: the hypotheses of every theorem are inhabited ---------- *)

Module Examples.

(* committed delegatees seen by block 1: three-way tie in total power (100), broken by the
   number of stakes (d3 first) and then by address, descending (d2 before d1); d5 has the largest
   total power but its own stake is below the minimum *)
Definition d1 := mk_dg 10 50 100 2.
Definition d2 := mk_dg 20 50 100 2.
Definition d3 := mk_dg 30 50 100 3.
Definition d4 := mk_dg 40 70 70 1.
Definition d5 := mk_dg 50 5 500 4.
Definition stA : list dg := [d1; d2; d3; d4; d5].

(* seen by block 2: d2 lost power, d3 gained, d4 gained, d6 is new *)
Definition d2' := mk_dg 20 50 90 2.
Definition d3' := mk_dg 30 50 120 3.
Definition d4' := mk_dg 40 70 95 2.
Definition d6 := mk_dg 25 60 110 1.
Definition stB : list dg := [d5; d4'; d6; d1; d3'; d2'].

Definition minP : Z := 10.
Definition maxV : Z := 3.

Ltac in_cases H := cbn in H; repeat (destruct H as [<-|H]); [..|contradiction].

Lemma nodupb_sound (l : list N) : nodupb l = true -> NoDup l.
Proof.
  induction l as [|a l IH]; intros H; [constructor|]. cbn [nodupb] in H.
  apply andb_true_iff in H. destruct H as [H1 H2]. constructor; [|apply IH; exact H2].
  intros Hin. apply negb_true_iff in H1.
  assert (existsb (N.eqb a) l = true) as Hc
    by (apply existsb_exists; exists a; split; [exact Hin | apply N.eqb_refl]).
  congruence.
Qed.

Example stA_distinct : distinct stA.
Proof. apply nodupb_sound. reflexivity. Qed.
Example stB_distinct : distinct stB.
Proof. apply nodupb_sound. reflexivity. Qed.

(* selection: ties broken by stake count, then by address descending; d5 not eligible; d4 cut *)
Example ex_eligible : eligible minP stA = [d1; d2; d3; d4].
Proof. vm_compute. reflexivity. Qed.
Example ex_sort_power : sort_power (eligible minP stA) = [d3; d2; d1; d4].
Proof. vm_compute. reflexivity. Qed.
Example ex_select_A : select maxV (eligible minP stA) = Some [d3; d2; d1].
Proof. vm_compute. reflexivity. Qed.
Example ex_select_B : select maxV (eligible minP stB) = Some [d3'; d6; d1].
Proof. vm_compute. reflexivity. Qed.
Example ex_select_neg : select (-1) (eligible minP stA) = None.
Proof. vm_compute. reflexivity. Qed.
Example ex_select_zero : select 0 (eligible minP stA) = Some [].
Proof. vm_compute. reflexivity. Qed.
Example ex_select_big : select 100 (eligible minP stA) = Some [d3; d2; d1; d4].
Proof. vm_compute. reflexivity. Qed.

(* select_unique: another correct sort result (any go_sorted permutation) is sort_power *)
Example ex_go_sorted : go_sorted dg power_lt [d3; d2; d1; d4].
Proof. repeat constructor. Qed.
Example ex_select_unique : [d3; d2; d1; d4] = sort_power [d4; d1; d3; d2].
Proof.
  apply select_unique.
  - apply nodupb_sound. reflexivity.
  - apply NoDup_Permutation.
    + apply distinct_NoDup. apply nodupb_sound. reflexivity.
    + apply distinct_NoDup. apply nodupb_sound. reflexivity.
    + intros x. cbn [In]. tauto.
  - exact ex_go_sorted.
Qed.

Example ex_select_length :
  Z.of_nat (length [d3; d2; d1]) = Z.min (Z.of_nat (length (eligible minP stA))) maxV.
Proof.
  apply (select_length maxV (eligible minP stA)); [unfold maxV; lia | exact ex_select_A].
Qed.
Example ex_select_sorted : power_sorted [d3; d2; d1].
Proof.
  apply (select_sorted maxV (eligible minP stA));
    [unfold maxV; lia | apply eligible_distinct; exact stA_distinct | exact ex_select_A].
Qed.
Example ex_select_subset : In d2 stA /\ minP <= d_self d2.
Proof.
  apply (select_subset minP maxV stA [d3; d2; d1]);
    [unfold maxV; lia | exact ex_select_A | right; left; reflexivity].
Qed.
(* d4 is eligible and not selected: it ranks after the selected d1 *)
Example ex_select_top : power_lt d1 d4 = true /\ power_lt d4 d1 = false.
Proof.
  apply (select_top maxV (eligible minP stA) [d3; d2; d1]).
  - unfold maxV; lia.
  - apply eligible_distinct; exact stA_distinct.
  - exact ex_select_A.
  - right; right; left; reflexivity.
  - right; right; right; left; reflexivity.
  - intros H. cbn in H. destruct H as [H|[H|[H|[]]]]; discriminate H.
Qed.

(* the diff of block 2: d1 unchanged (omitted), d2 removed, d6 added, d3 changed *)
Definition oldA : list dg := sort_addr [d3; d2; d1].
Definition newB : list dg := sort_addr [d3'; d6; d1].

Example ex_oldA : oldA = [d1; d2; d3].
Proof. vm_compute. reflexivity. Qed.
Example ex_newB : newB = [d1; d6; d3'].
Proof. vm_compute. reflexivity. Qed.
Example ex_updates : updates oldA newB = [(20%N, 0); (25%N, 110); (30%N, 120)].
Proof. vm_compute. reflexivity. Qed.

Example oldA_sorted : addr_sorted oldA.
Proof. apply sort_addr_sorted. apply nodupb_sound. reflexivity. Qed.
Example newB_sorted : addr_sorted newB.
Proof. apply sort_addr_sorted. apply nodupb_sound. reflexivity. Qed.
Example newB_positive : positive newB.
Proof. intros d H. in_cases H; cbn; lia. Qed.
Example newB_nonzero : nonzero newB.
Proof. intros d H. pose proof (newB_positive d H). lia. Qed.

Example ex_updates_apply : apply_updates (vals oldA) (updates oldA newB) = vals newB.
Proof. exact (updates_apply _ _ oldA_sorted newB_sorted newB_nonzero). Qed.
Example ex_updates_apply_compute :
  apply_updates (vals oldA) (updates oldA newB) = [(10%N, 100); (25%N, 110); (30%N, 120)].
Proof. vm_compute. reflexivity. Qed.
Example ex_updates_wellformed :
  tm_apply_updates (vals oldA) (updates oldA newB) = Some (vals newB).
Proof. exact (updates_wellformed _ _ oldA_sorted newB_sorted newB_positive). Qed.
Example ex_updates_nodup : NoDup (map fst (updates oldA newB)).
Proof. exact (updates_nodup _ _ oldA_sorted newB_sorted). Qed.
Example ex_updates_removal : In 20%N (map d_addr oldA).
Proof.
  apply (updates_removals_in_old oldA newB 20%N newB_positive). vm_compute. left. reflexivity.
Qed.
Example ex_updates_removal_iff :
  In (20%N, 0) (updates oldA newB) <-> In 20%N (map d_addr oldA) /\ ~ In 20%N (map d_addr newB).
Proof. exact (updates_removal_iff _ _ 20%N oldA_sorted newB_sorted newB_positive). Qed.
Example ex_updates_nonneg : forall a p, In (a, p) (updates oldA newB) -> 0 <= p.
Proof.
  apply updates_nonneg. intros d H. pose proof (newB_positive d H). lia.
Qed.
Example ex_updates_minimal : updates oldA oldA = [].
Proof. exact (updates_minimal oldA oldA eq_refl). Qed.
(* d1 keeps its power: not reported; d3 changes: reported with the new power *)
Example ex_updates_key_unchanged : ~ In 10%N (map fst (updates oldA newB)).
Proof.
  rewrite (updates_key_iff _ _ 10%N oldA_sorted newB_sorted). vm_compute. intros H. apply H.
  reflexivity.
Qed.
Example ex_updates_spec_changed : In (30%N, 120) (updates oldA newB).
Proof.
  apply (updates_spec _ _ 30%N 120 oldA_sorted newB_sorted). vm_compute.
  split; [discriminate | reflexivity].
Qed.
(* Tendermint rejects a malformed list: removal of an absent validator, duplicates, negative *)
Example ex_tm_reject_absent : tm_apply_updates (vals oldA) [(99%N, 0)] = None.
Proof. vm_compute. reflexivity. Qed.
Example ex_tm_reject_dup : tm_apply_updates (vals oldA) [(10%N, 5); (10%N, 6)] = None.
Proof. vm_compute. reflexivity. Qed.
Example ex_tm_reject_neg : tm_apply_updates (vals oldA) [(10%N, -5)] = None.
Proof. vm_compute. reflexivity. Qed.

(* history from an empty genesis validator set over three blocks (the third removes d6 and d3,
   brings d2 and d4 back) *)
Definition stC : list dg := [d1; mk_dg 20 50 130 5; d4'; mk_dg 30 5 120 3; mk_dg 25 60 10 1].
Definition setC : list dg := sort_addr [mk_dg 20 50 130 5; d1; d4'].
Definition sets : list (list dg) := [oldA; newB; setC].

Example ex_select_C : select maxV (eligible minP stC) = Some [mk_dg 20 50 130 5; d1; d4'].
Proof. vm_compute. reflexivity. Qed.
Example ex_diffs :
  map2 updates ([] :: sets) sets =
  [ [(10%N, 100); (20%N, 100); (30%N, 100)];
    [(20%N, 0); (25%N, 110); (30%N, 120)];
    [(20%N, 130); (25%N, 0); (30%N, 0); (40%N, 95)] ].
Proof. vm_compute. reflexivity. Qed.

Example sets_sorted : Forall addr_sorted sets.
Proof.
  repeat constructor; apply sort_addr_sorted; apply nodupb_sound; reflexivity.
Qed.
Example sets_positive : Forall positive sets.
Proof. repeat constructor; intros d H; in_cases H; cbn; lia. Qed.
Example sets_nonzero : Forall nonzero sets.
Proof.
  eapply Forall_impl; [|exact sets_positive]. intros l Hl d Hd. pose proof (Hl d Hd). lia.
Qed.

Example ex_history_fold :
  fold_left apply_updates (map2 updates ([] :: sets) sets) (vals []) = vals setC.
Proof. exact (history_fold [] sets (SSorted_nil _) sets_sorted sets_nonzero). Qed.
Example ex_history_wellformed :
  tm_run (vals []) (map2 updates ([] :: sets) sets) = Some (vals setC).
Proof. exact (history_wellformed [] sets (SSorted_nil _) sets_sorted sets_positive). Qed.
Example ex_history_compute :
  tm_run [] (map2 updates ([] :: sets) sets) = Some [(10%N, 100); (20%N, 130); (40%N, 95)].
Proof. vm_compute. reflexivity. Qed.

(* the executable entry points *)
Example ex_end_block :
  end_block_updates minP maxV [d3; d2; d1] stB =
  Some ([(20%N, 0); (25%N, 110); (30%N, 120)], [d3'; d6; d1]).
Proof. vm_compute. reflexivity. Qed.
Example ex_end_block_neg : end_block_updates minP (-1) [d3; d2; d1] stB = None.
Proof. vm_compute. reflexivity. Qed.

Definition blocks : list blk := [(minP, maxV, stA); (minP, maxV, stB); (minP, maxV, stC)].
Example ex_run_blocks :
  run_blocks [] blocks =
  Some ([ [(10%N, 100); (20%N, 100); (30%N, 100)];
          [(20%N, 0); (25%N, 110); (30%N, 120)];
          [(20%N, 130); (25%N, 0); (30%N, 0); (40%N, 95)] ],
        [mk_dg 20 50 130 5; d1; d4']).
Proof. vm_compute. reflexivity. Qed.

Example blocks_ok : Forall blk_ok blocks.
Proof.
  constructor; [|constructor; [|constructor; [|constructor]]];
    (split; [unfold maxV; lia | split; [apply nodupb_sound; reflexivity |]]);
    intros d H Hm; in_cases H; cbn in *; lia.
Qed.
Example ex_run_blocks_ok :
  tm_run (vals (sort_addr [])) (fst (match run_blocks [] blocks with Some r => r | None => ([], []) end))
  = Some (vals (sort_addr [mk_dg 20 50 130 5; d1; d4'])).
Proof.
  destruct (run_blocks_ok blocks [] _ _ (NoDup_nil _) blocks_ok ex_run_blocks) as [H _].
  rewrite ex_run_blocks. exact H.
Qed.

End Examples.
