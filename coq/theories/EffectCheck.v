(* EffectCheck.v — the EVM "effect contract" as a decidable check.
   The interpreter is go-ethereum's; Spec.v receives what an EVM execution did to balances and
   nonces as an observed value ([t_evm]).  The EVM-path theorems (C02, C04, C16) assume that value
   obeys a contract: [evm_effect_fee_ok] (the touched accounts lose in total exactly gas used x
   price, plus what contract semantics destroy), [evm_effect_nonce_ok] (the sender's nonce + 1) and
   [evm_effect_mono_at] (a sender's nonce is never lowered).  Here the contract is a boolean
   function, proved to imply the hypotheses as the theorems state them, and the correspondence
   check evaluates it on every effect the real node exhibits. *)
From Rigo Require Import Base.
From stdpp Require Import gmap sorting.
From Rigo Require Import Spec SpecProps AppRun InvFail InvFee InvNonce.
Local Open Scope Z_scope.

Fixpoint nodupb (l : list N) : bool :=
  match l with [] => true | x :: r => negb (existsb (N.eqb x) r) && nodupb r end.

Lemma nodupb_sound l : nodupb l = true → NoDup l.
Proof.
  induction l as [|x l IH]; intros H; [constructor|]. cbn in H. apply andb_prop in H as [H1 H2].
  constructor; [|apply IH; exact H2].
  intros Hin. apply negb_true_iff in H1.
  assert (existsb (N.eqb x) l = true) as E.
  { apply existsb_exists. exists x. split; [apply elem_of_list_In; exact Hin|apply N.eqb_refl]. }
  congruence.
Qed.

Definition effect_fee_b (l : ledgers) (t : tx) (price : Z) (e : evm_effect) : bool :=
  nodupb ((λ x : addr * Z * Z, x.1.1) <$> e_accts e) &&
  ((0 <=? e_gas e) && (e_gas e <=? t_gas t)) &&
  forallb (λ x : addr * Z * Z, (0 <=? x.1.2) && (x.1.2 <? two256)) (e_accts e) &&
  (sumZ_with (λ x : addr * Z * Z, x.1.2 - bal_of l x.1.1) (e_accts e) + e_gas e * price <=? 0).

Lemma effect_fee_b_sound l t price e :
  effect_fee_b l t price e = true → ∃ burn, evm_effect_fee_ok l t price e burn.
Proof.
  unfold effect_fee_b. intros H.
  apply andb_prop in H as [H Hsum]. apply andb_prop in H as [H Hrange]. apply andb_prop in H as [Hnd Hgas].
  apply andb_prop in Hgas as [Hg1 Hg2].
  exists (- (sumZ_with (λ x : addr * Z * Z, x.1.2 - bal_of l x.1.1) (e_accts e) + e_gas e * price)).
  unfold evm_effect_fee_ok. repeat split.
  - apply nodupb_sound. exact Hnd.
  - lia.
  - lia.
  - rewrite forallb_forall in Hrange. apply elem_of_list_In in H. specialize (Hrange _ H). lia.
  - rewrite forallb_forall in Hrange. apply elem_of_list_In in H. specialize (Hrange _ H). lia.
  - lia.
  - lia.
Qed.

Definition effect_nonce_b (t : tx) : bool :=
  match t_evm t with
  | None => true
  | Some e => match eff_nonce (e_accts e) (t_from t) with
              | Some n => n =? (t_nonce t + 1) mod two64
              | None => false
              end
  end.

Lemma effect_nonce_b_sound t : effect_nonce_b t = true → evm_effect_nonce_ok t.
Proof.
  unfold effect_nonce_b, evm_effect_nonce_ok. intros H e He. rewrite He in H.
  destruct (eff_nonce (e_accts e) (t_from t)) as [n|]; [|discriminate].
  apply Z.eqb_eq in H. subst n. reflexivity.
Qed.

Definition effect_mono_at_b (a : addr) (s : state) (t : tx) : bool :=
  match t_evm t with
  | None => true
  | Some e => match eff_nonce (e_accts e) a with
              | Some n => nonce_of (work s) a <=? n
              | None => true
              end
  end.

Lemma effect_mono_at_b_sound a s t : effect_mono_at_b a s t = true → evm_effect_mono_at a s t.
Proof.
  unfold effect_mono_at_b, evm_effect_mono_at. intros H e n He Hn. rewrite He, Hn in H. lia.
Qed.

(* what the contract demands of one delivery, in the state it starts from *)
Definition is_ok {A} (r : res A) : bool := match r with Ok _ => true | _ => false end.

Definition effect_contract (senders : list addr) (s : state) (t : tx) : Prop :=
  evm_path s t = true → is_ok (deliver s t).2 = true →
  (∃ e burn, t_evm t = Some e ∧ evm_effect_fee_ok (work s) t (g_gasPrice (gparams s)) e burn) ∧
  evm_effect_nonce_ok t ∧
  ∀ a, a ∈ senders → evm_effect_mono_at a s t.

(* value that vanished: the part of the touched accounts' loss that gas does not explain.  The
   contract allows it (SELFDESTRUCT to the contract's own address destroys the balance); the
   histories of the correspondence check contain no such program and watch every address their
   programs can pay, so there it must be 0 — code 24, reported as lost value *)
Definition effect_burn (l : ledgers) (price : Z) (e : evm_effect) : Z :=
  - (sumZ_with (λ x : addr * Z * Z, x.1.2 - bal_of l x.1.1) (e_accts e) + e_gas e * price).

(* codes: 21 value/fee contract, 22 sender nonce, 23 a sender's nonce lowered, 24 value vanished *)
Definition effect_codes (senders : list addr) (s : state) (t : tx) : list Z :=
  if evm_path s t && is_ok (deliver s t).2 then
    match t_evm t with
    | None => [20]
    | Some e =>
        (if effect_fee_b (work s) t (g_gasPrice (gparams s)) e then [] else [21]) ++
        (if effect_nonce_b t then [] else [22]) ++
        (if forallb (λ a, effect_mono_at_b a s t) senders then [] else [23]) ++
        (if effect_burn (work s) (g_gasPrice (gparams s)) e =? 0 then [] else [24])
    end
  else [].

Lemma effect_codes_sound senders s t : effect_codes senders s t = [] → effect_contract senders s t.
Proof.
  unfold effect_codes, effect_contract. intros H Hp Hok. rewrite Hp, Hok in H. cbn [andb] in H.
  destruct (t_evm t) as [e|] eqn:He; [|discriminate].
  destruct (effect_fee_b _ _ _ _) eqn:Ef; [|discriminate].
  destruct (effect_nonce_b t) eqn:En; [|discriminate].
  destruct (forallb _ senders) eqn:Em; [|discriminate].
  clear H.
  split; [|split].
  - destruct (effect_fee_b_sound _ _ _ _ Ef) as [burn Hb]. exists e, burn. split; [reflexivity|exact Hb].
  - apply effect_nonce_b_sound. exact En.
  - intros a Ha. rewrite forallb_forall in Em. apply effect_mono_at_b_sound. apply Em.
    apply elem_of_list_In. exact Ha.
Qed.

(* along the model's run of a case *)
Definition astate (s : state) (o : aop) : state :=
  match o with
  | AInit g => init_chain g
  | ABegin h => (begin_block s h).1
  | ADeliver t => (deliver s t).1
  | AEnd => (end_block s).1
  | ACommit => commit s
  end.

Fixpoint effects_hold (senders : list addr) (s : state) (ops : list aop) : Prop :=
  match ops with
  | [] => True
  | o :: r => match o with ADeliver t => effect_contract senders s t | _ => True end ∧
              effects_hold senders (astate s o) r
  end.

Fixpoint check_effects_from (senders : list addr) (s : state) (i : nat) (ops : list aop) : list (nat * Z) :=
  match ops with
  | [] => []
  | o :: r =>
      (match o with ADeliver t => (λ c, (i, c)) <$> effect_codes senders s t | _ => [] end) ++
      check_effects_from senders (astate s o) (S i) r
  end.

Definition senders_of (ops : list aop) : list addr :=
  omap (λ o, match o with ADeliver t => Some (t_from t) | _ => None end) ops.

Definition check_effects (c : acase) : list (nat * Z) :=
  check_effects_from (senders_of (c_ops c)) state0 0 (c_ops c).

Theorem check_effects_from_sound senders : ∀ ops s i,
  check_effects_from senders s i ops = [] → effects_hold senders s ops.
Proof.
  induction ops as [|o ops IH]; intros s i H; [exact I|]. cbn [check_effects_from effects_hold] in *.
  apply app_eq_nil in H as [H1 H2]. split; [|exact (IH _ _ H2)].
  destruct o as [g|h|t| |]; try exact I.
  apply effect_codes_sound. destruct (effect_codes senders s t); [reflexivity|discriminate].
Qed.

(* the verdict on a case: every EVM effect the node exhibited in this history satisfies the
   hypotheses under which the EVM-path theorems are stated *)
Theorem check_effects_sound c :
  check_effects c = [] → effects_hold (senders_of (c_ops c)) state0 (c_ops c).
Proof. apply check_effects_from_sound. Qed.

(* per case list for the generated files: (case index, [(position, code)]) for the failing ones *)
Fixpoint check_effects_cases_from (i : nat) (cs : list acase) : list (nat * list (nat * Z)) :=
  match cs with
  | [] => []
  | c :: r => match check_effects c with
              | [] => check_effects_cases_from (S i) r
              | bad => (i, bad) :: check_effects_cases_from (S i) r
              end
  end.
Definition check_effects_cases := check_effects_cases_from 0.

(* how many successful EVM-path deliveries a case contains (coverage) *)
Fixpoint count_effects_from (s : state) (ops : list aop) : Z :=
  match ops with
  | [] => 0
  | o :: r => (match o with ADeliver t => if evm_path s t && is_ok (deliver s t).2 then 1 else 0 | _ => 0 end) +
              count_effects_from (astate s o) r
  end.
Definition count_effects (cs : list acase) : Z := sumZ_with (λ c, count_effects_from state0 (c_ops c)) cs.
