(* InvUnbond.v — property C12 over whole histories: "refunded exactly once, in full, never
   earlier, to nobody else".

   InvStake.v proves the per-step facts (Props/C12.v): which step may release a stake, which refund
   height it stamps, that nothing but EndBlock's scan touches an unbonding entry, and what one
   EndBlock pays.  This file puts them together along runs from a genesis, under hypotheses on the
   INPUTS only (those of InvReach.C02_closed_total):

   1. [payouts s ops]: the (height, stake) pairs the EndBlocks of a run pay, and the link to the
      balances ([payout_link], [payout_link_balance]);
   2. [payout_at_most_once]: no stake hash is paid twice in a run;
   3. [payout_never_early_and_in_full]: a paid stake has matured, and was released earlier in the run
      by a delivery or a BeginBlock at height hr with refund height hr + the period in force then;
   4. [payout_only_to_owner]: the credited account is the sender of the staking transaction that
      created the stake (or the genesis validator);
   5. [C12_history]: per account, what the unbonding ledger pays in total is the sum over the
      distinct matured stake hashes it owns, each counted once;
   6. an example on InvSupply's chain. *)
From Rigo Require Import Base.
From stdpp Require Import gmap sorting.
From Rigo Require Import Spec SpecProps.
From Rigo Require InvFail InvNonce InvReward InvGov InvPanic.
From Rigo Require Import InvFee InvSupply InvReach InvClosed InvStake.
Local Open Scope Z_scope.

Local Opaque two256 two255 two64 two63.

(* ================================================================== 1. the payouts of a run *)

(* the committed unbonding entries EndBlock in state [s] pays: those whose refund height has come,
   in the iteration order of the scan ([unfreeze] of Spec.v, [unfreeze_step] / [matured] of InvStake.v) *)
Definition paid_items (s : state) : list (hash * stake) :=
  List.filter (matured (b_height (bctx s))) (sorted_items (frozen (base_of s))).

Definition payouts1 (s : state) (o : sop) : list (Z * stake) :=
  match o with
  | SEnd => match (end_block s).2 with
            | Ok _ => (λ kp : hash * stake, (b_height (bctx s), kp.2)) <$> paid_items s
            | _ => []
            end
  | _ => []
  end.

Fixpoint payouts (s : state) (ops : list sop) : list (Z * stake) :=
  match ops with
  | [] => []
  | o :: r => payouts1 s o ++ payouts (sstep s o) r
  end.

Lemma payouts_app pre : ∀ s post, payouts s (pre ++ post) = payouts s pre ++ payouts (srun s pre) post.
Proof.
  induction pre as [|o pre IH]; intros s post; cbn [app payouts]; [reflexivity|].
  rewrite IH, app_assoc. reflexivity.
Qed.

(* the hash a payout is for, and the amounts a list of payouts credits to [a], in order *)
Definition payout_hash (p : Z * stake) : hash := s_hash p.2.
Definition owned_by (a : addr) (ps : list (Z * stake)) : list (Z * stake) :=
  List.filter (λ p : Z * stake, (s_from p.2 =? a)%N) ps.
Definition paid_to (a : addr) (ps : list (Z * stake)) : list Z :=
  (λ p : Z * stake, power_to_amount (s_power p.2)) <$> owned_by a ps.

Lemma refunds_to_paid h a items :
  refunds_to h a items = paid_to a ((λ kp : hash * stake, (h, kp.2)) <$> List.filter (matured h) items).
Proof.
  unfold refunds_to, paid_to, owned_by. induction items as [|kp items IH]; [reflexivity|].
  cbn [List.filter]. destruct (matured h kp) eqn:Em; cbn [andb].
  - cbn [fmap list_fmap List.filter snd]. destruct (s_from kp.2 =? a)%N.
    + cbn [fmap list_fmap snd]. f_equal. exact IH.
    + exact IH.
  - exact IH.
Qed.

(* what one successful EndBlock does to the account [a]: the proposer's fee credit, then the
   amounts of its payouts owned by [a], nothing else *)
Theorem payout_link s s' ups a :
  end_block s = (s', Ok ups) →
  payouts1 s SEnd = (λ kp : hash * stake, (b_height (bctx s), kp.2)) <$> paid_items s ∧
  (∀ kp, kp ∈ paid_items s ↔ frozen (base_of s) !! kp.1 = Some kp.2 ∧ s_refund kp.2 ≤ b_height (bctx s)) ∧
  acct_of (work s') a = foldl credit (fee_credited s a) (paid_to a (payouts1 s SEnd)).
Proof.
  intros E. assert (E1 : payouts1 s SEnd = (λ kp : hash * stake, (b_height (bctx s), kp.2)) <$> paid_items s).
  { unfold payouts1. rewrite E. reflexivity. }
  split; [exact E1|]. split.
  - intros [k st]. unfold paid_items. rewrite elem_of_list_In, filter_In, <- elem_of_list_In, elem_of_sorted_items.
    unfold matured. cbn [fst snd]. rewrite Z.leb_le. reflexivity.
  - destruct (unfreeze_exact _ _ _ E) as (_ & _ & HA & _). rewrite (HA a), E1. f_equal.
    unfold paid_items. apply refunds_to_paid.
Qed.

(* a failed EndBlock pays nothing and changes nothing *)
Lemma payout_none s : (∀ ups, (end_block s).2 ≠ Ok ups) → payouts1 s SEnd = [] ∧ (end_block s).1 = s.
Proof.
  intros Hno. unfold payouts1. destruct (end_block s) as [s' r] eqn:E. cbn [fst snd] in *.
  split; [destruct r as [u| |]; [destruct (Hno u); reflexivity|reflexivity|reflexivity]|].
  apply (end_block_fail_same _ _ _ E). exact Hno.
Qed.

Lemma sumZ_fmap_ext {A} (f g : A → Z) (l : list A) : (∀ x, x ∈ l → f x = g x) → sumZ (f <$> l) = sumZ (g <$> l).
Proof.
  induction l as [|x l IH]; intros H; cbn; [reflexivity|].
  rewrite (H x) by left. rewrite IH; [reflexivity|]. intros y Hy. apply H. right. exact Hy.
Qed.

Lemma owned_by_elem a ps p : p ∈ owned_by a ps ↔ p ∈ ps ∧ s_from p.2 = a.
Proof. unfold owned_by. rewrite elem_of_list_In, filter_In, <- elem_of_list_In, N.eqb_eq. reflexivity. Qed.

(* in full: the balance grows by amountPerPower x power over the payouts owned by [a] *)
Corollary payout_link_balance s s' ups a :
  end_block s = (s', Ok ups) →
  (∀ k st, frozen (base_of s) !! k = Some st → 0 ≤ s_power st < two63) →
  0 ≤ a_bal (fee_credited s a) < two256 →
  bal_of (work s') a =
    (a_bal (fee_credited s a) +
     sumZ ((λ p : Z * stake, amountPerPower * s_power p.2) <$> owned_by a (payouts1 s SEnd))) mod two256.
Proof.
  intros E Hpw Hr. destruct (payout_link s s' ups a E) as (E1 & Hel & HA).
  unfold bal_of. rewrite HA, foldl_credit_bal by exact Hr. f_equal. f_equal.
  unfold paid_to. apply sumZ_fmap_ext. intros p Hp. apply owned_by_elem in Hp as [Hp _].
  rewrite E1 in Hp. apply elem_of_list_fmap in Hp as (kp & -> & Hkp). apply Hel in Hkp as [Hk _]. cbn [snd].
  rewrite power_to_amount_exact by (eapply Hpw; exact Hk). lia.
Qed.
Print Assumptions payout_link.
Print Assumptions payout_link_balance.

(* ================================================================== 2. at most once *)

(* the hash [k] is neither bonded nor unbonding in [l] *)
Definition absent (k : hash) (l : ledgers) : Prop :=
  (∀ st, st ∈ bonded_stakes l → s_hash st ≠ k) ∧ frozen l !! k = None.

Lemma absent_evolves Q R l l' k : Qok Q → evolves Q R l l' → absent k l → absent k l'.
Proof.
  intros HQ [A B] [H1 H2]. split.
  - intros st Hst. apply InvStake.elem_of_bonded in Hst as (a & d' & Hd' & Hin).
    destruct (A _ _ Hd') as (d & Hd & _ & Hq). destruct (Hq _ Hin) as (s0 & Hs0 & Hqs).
    rewrite <- (Q_hash _ HQ _ _ Hqs). apply H1. apply InvStake.elem_of_bonded. eauto.
  - destruct (frozen l' !! k) as [x|] eqn:E; [|reflexivity]. exfalso.
    destruct (B _ _ E) as [Hold|(a & d & s0 & s1 & Hd & Hs0 & Hq & _ & Hk & _)]; [congruence|].
    apply (H1 s0); [apply InvStake.elem_of_bonded; eauto|symmetry; exact Hk].
Qed.

(* an absent hash stays absent unless a staking transaction carrying exactly that hash is executed *)
Lemma absent_step s o k : absent k (work s) →
  match o with SDeliver t => t_type t = TRX_STAKING → t_hash t ≠ k | _ => True end →
  absent k (work (sstep s o)).
Proof.
  intros Ha Ho. destruct o as [hd|t| |]; cbn [sstep].
  - eapply absent_evolves; [apply Qok_sim|apply begin_block_evolves|exact Ha].
  - destruct (deliver s t) as [s' r] eqn:E. cbn [fst].
    apply deliver_moves in E as [Hev|(Hty & d & Hd & HD & HF)].
    + eapply absent_evolves; [apply Qok_eq|exact Hev|exact Ha].
    + destruct Ha as [H1 H2]. split; [|rewrite HF; exact H2].
      intros st Hst. apply InvStake.elem_of_bonded in Hst as (a' & d' & Hd' & Hin). rewrite HD in Hd'.
      destruct (decide (a' = t_to t)) as [->|Hne].
      * rewrite lookup_insert in Hd'. injection Hd' as <-. cbn [add_stake d_stakes] in Hin.
        apply elem_of_app in Hin as [Hin|Hin].
        -- destruct Hd as [Hd|(_ & _ & ->)]; [|inversion Hin]. apply H1. apply InvStake.elem_of_bonded. eauto.
        -- apply elem_of_list_singleton in Hin. subst st. cbn [stake_of_tx s_hash]. apply Ho. exact Hty.
      * rewrite lookup_insert_ne in Hd' by congruence. apply H1. apply InvStake.elem_of_bonded. eauto.
  - eapply absent_evolves; [apply Qok_eq|apply (end_block_evolves s 0)|exact Ha].
  - exact Ha.
Qed.

(* only Commit changes the committed ledgers block processing iterates *)
Lemma sstep_base s o : o ≠ SCommit → base_of (sstep s o) = base_of s.
Proof.
  intros Ho. apply InvPanic.base_of_same.
  - destruct (sstep_committed s o) as [H|[H _]]; [exact H|contradiction].
  - destruct o as [hd|t| |]; cbn [sstep].
    + apply begin_block_ctl.
    + destruct (deliver s t) as [s' r] eqn:E. apply deliver_frame in E as (_ & H & _). exact H.
    + destruct (end_block s) as [s' r] eqn:E.
      apply end_block_inv in E as [[-> _]|(ups & l3 & _ & _ & _ & _ & _ & _ & H & _)]; [reflexivity|exact H].
    + contradiction.
Qed.

(* the invariant: [H] covers every hash present, [paid] lists hashes that are gone for good *)
Record uinv (ph : InvPanic.phase) (s : state) (H paid : list hash) : Prop := {
  ui_hu : hashes_unique (work s);
  ui_in : hashes_in H (work s);
  ui_paid : ∀ k, k ∈ paid → k ∈ H ∧ absent k (work s);
  ui_base : ph ≠ InvPanic.Ended → ∀ k x, frozen (base_of s) !! k = Some x → frozen (work s) !! k = Some x }.

Lemma NoDup_fmap_filter {A B} (f : A → B) (p : A → bool) (l : list A) :
  NoDup (f <$> l) → NoDup (f <$> List.filter p l).
Proof.
  induction l as [|x l IH]; cbn [List.filter fmap list_fmap]; [auto|].
  intros Hnd. apply NoDup_cons in Hnd as [Hx Hnd]. destruct (p x); [|apply IH; exact Hnd].
  cbn [fmap list_fmap]. apply NoDup_cons. split; [|apply IH; exact Hnd].
  intros Hin. apply Hx. apply elem_of_list_fmap in Hin as (y & Hy & Hin). apply elem_of_list_fmap. exists y.
  split; [exact Hy|]. apply elem_of_list_In in Hin. apply filter_In in Hin as [Hin _]. apply elem_of_list_In. exact Hin.
Qed.

Lemma sorted_items_keys_nodup {A} (m : gmap N A) : NoDup (sorted_items m).*1.
Proof.
  unfold sorted_items. rewrite merge_sort_Permutation. apply NoDup_fst_map_to_list.
Qed.

Lemma bonded_stakes_same l l' : dels l' = dels l → bonded_stakes l' = bonded_stakes l.
Proof. intros E. unfold bonded_stakes. rewrite E. reflexivity. Qed.

(* one EndBlock that pays: the paid hashes are pairwise distinct, none was paid before, and all of
   them are gone from the working ledgers afterwards *)
Lemma uinv_end s s' ups H paid :
  end_block s = (s', Ok ups) → uinv InvPanic.InBlock s H paid → NoDup paid →
  let new := payout_hash <$> payouts1 s SEnd in
  NoDup (paid ++ new) ∧ uinv InvPanic.Ended s' H (paid ++ new).
Proof.
  intros E [Hu Hin Hpaid Hbase] Hnd new.
  assert (Es' : s' = sstep s SEnd) by (cbn [sstep]; rewrite E; reflexivity).
  destruct (payout_link s s' ups 0%N E) as (E1 & Hel & _).
  pose proof (proj1 (hashes_unique_pt _) Hu) as (_ & _ & U3 & U4).
  assert (Hitem : ∀ kp, kp ∈ paid_items s →
            frozen (work s) !! kp.1 = Some kp.2 ∧ s_hash kp.2 = kp.1 ∧ s_refund kp.2 ≤ b_height (bctx s) ∧
            frozen (base_of s) !! kp.1 = Some kp.2).
  { intros kp Hkp. apply Hel in Hkp as [Hk Hle]. pose proof (Hbase ltac:(discriminate) _ _ Hk) as Hw.
    split; [exact Hw|]. split; [apply (U4 _ _ Hw)|]. split; [exact Hle|exact Hk]. }
  assert (Enew : new = (paid_items s).*1).
  { unfold new. rewrite E1, <- list_fmap_compose. apply Forall_fmap_ext, Forall_forall.
    intros kp Hkp. unfold payout_hash. cbn. apply (Hitem kp Hkp). }
  assert (Hnew : ∀ k, k ∈ new → ∃ st, frozen (work s) !! k = Some st ∧ s_hash st = k ∧
             s_refund st ≤ b_height (bctx s) ∧ frozen (base_of s) !! k = Some st).
  { intros k Hk. rewrite Enew in Hk. apply elem_of_list_fmap in Hk as (kp & -> & Hkp). exists kp.2. apply Hitem. exact Hkp. }
  split.
  - apply NoDup_app. split; [exact Hnd|]. split.
    + intros k Hk Hk'. destruct (Hnew k Hk') as (st & Hw & _). destruct (Hpaid k Hk) as (_ & _ & Hnone). congruence.
    + rewrite Enew. unfold paid_items. apply NoDup_fmap_filter. apply sorted_items_keys_nodup.
  - split.
    + rewrite Es'. apply sstep_hashes_unique; [exact Hu|exact I].
    + rewrite Es'. apply (sstep_hashes_in s SEnd H Hin).
    + intros k Hk. apply elem_of_app in Hk as [Hk|Hk].
      * destruct (Hpaid k Hk) as [HkH Ha]. split; [exact HkH|]. rewrite Es'. apply absent_step; [exact Ha|exact I].
      * destruct (Hnew k Hk) as (st & Hw & Hh & Hle & Hb). split.
        -- rewrite <- Hh. apply Hin. apply elem_of_app. right. apply InvStake.elem_of_frozen. eauto.
        -- split.
           ++ intros x Hx. rewrite (bonded_stakes_same (work s) (work s')) in Hx
                by (rewrite Es'; cbn [sstep]; apply end_block_dels).
              apply InvStake.elem_of_bonded in Hx as (a & d & Hd & Hx). eapply U3; eassumption.
           ++ destruct (unfreeze_exact _ _ _ E) as (Hgone & _). eapply Hgone; eassumption.
    + intros Hne. contradiction.
Qed.

Lemma uinv_step_other ph ph' s o H paid :
  uinv ph s H paid → o ≠ SEnd → o ≠ SCommit → ph' ≠ InvPanic.Ended → ph ≠ InvPanic.Ended →
  match o with SDeliver t => t_type t = TRX_STAKING → t_hash t ∉ H | _ => True end →
  uinv ph' (sstep s o) (match o with
                        | SDeliver t => if t_type t =? TRX_STAKING then t_hash t :: H else H
                        | _ => H end) paid.
Proof.
  intros [Hu Hin Hpaid Hbase] HoE HoC Hph' Hph Hfresh.
  assert (Hf : match o with SDeliver t => fresh_tx s t | _ => True end).
  { destruct o as [hd|t| |]; try exact I. intros Hty _ st Hst Heq. apply (Hfresh Hty). rewrite <- Heq. apply Hin. exact Hst. }
  split.
  - apply sstep_hashes_unique; assumption.
  - apply sstep_hashes_in. exact Hin.
  - intros k Hk. destruct (Hpaid k Hk) as [HkH Ha]. split.
    + destruct o as [hd|t| |]; try exact HkH. destruct (t_type t =? TRX_STAKING); [right|]; exact HkH.
    + apply absent_step; [exact Ha|]. destruct o as [hd|t| |]; try exact I.
      intros Hty Heq. apply (Hfresh Hty). rewrite Heq. exact HkH.
  - intros _ k x Hk. rewrite sstep_base in Hk by exact HoC.
    apply frozen_untouched; [exact Hu|exact HoE|]. apply Hbase; assumption.
Qed.

Lemma payouts_nodup ops : ∀ ph n s H paid,
  InvPanic.bracketed ph n ops → uinv ph s H paid →
  (∀ h, h ∈ H → h ∉ stake_hashes ops) → NoDup (stake_hashes ops) → NoDup paid →
  NoDup (paid ++ (payout_hash <$> payouts s ops)).
Proof.
  induction ops as [|o r IH]; intros ph n s H paid Hbr Hinv Hdis Hnds Hnd.
  { cbn. rewrite app_nil_r. exact Hnd. }
  cbn [payouts]. rewrite fmap_app, app_assoc.
  destruct ph, o as [hd|t| |]; cbn [InvPanic.bracketed] in Hbr; try contradiction.
  - (* BeginBlock *)
    destruct Hbr as (_ & _ & Hbr). cbn [payouts1 fmap list_fmap]. rewrite app_nil_r.
    apply (IH InvPanic.InBlock n _ H paid Hbr); [|exact Hdis|exact Hnds|exact Hnd].
    apply (uinv_step_other InvPanic.Idle InvPanic.InBlock s (SBegin hd) H paid Hinv); try discriminate. exact I.
  - (* DeliverTx *)
    destruct Hbr as (_ & Hbr). cbn [payouts1 fmap list_fmap]. rewrite app_nil_r.
    pose proof (uinv_step_other InvPanic.InBlock InvPanic.InBlock s (SDeliver t) H paid Hinv) as Hstep.
    cbn [stake_hashes] in Hdis, Hnds. cbv iota in Hstep.
    destruct (t_type t =? TRX_STAKING) eqn:Ety.
    + apply NoDup_cons in Hnds as [Hnotin Hnds].
      apply (IH InvPanic.InBlock n _ (t_hash t :: H) paid Hbr); [| |exact Hnds|exact Hnd].
      * apply Hstep; try discriminate. intros _ HinH. apply (Hdis _ HinH). left.
      * intros h Hh. apply elem_of_cons in Hh as [->|Hh]; [exact Hnotin|].
        intros Hin. apply (Hdis h Hh). right. exact Hin.
    + apply (IH InvPanic.InBlock n _ H paid Hbr); [|exact Hdis|exact Hnds|exact Hnd].
      apply Hstep; try discriminate. intros Hty. apply Z.eqb_neq in Ety. contradiction.
  - (* EndBlock *)
    cbn [stake_hashes] in Hdis, Hnds.
    destruct (end_block s) as [s' res] eqn:E. destruct res as [ups|e|pn].
    + destruct (uinv_end s s' ups H paid E Hinv Hnd) as [Hnd' Hinv'].
      cbn [sstep]. rewrite E. cbn [fst].
      apply (IH InvPanic.Ended n s' H _ Hbr Hinv' Hdis Hnds Hnd').
    + assert (Hno : ∀ u, (end_block s).2 ≠ Ok u) by (rewrite E; discriminate).
      destruct (payout_none s Hno) as [E1 E2]. rewrite E1. cbn [fmap list_fmap]. rewrite app_nil_r.
      cbn [sstep]. rewrite E2.
      apply (IH InvPanic.Ended n s H paid Hbr); [|exact Hdis|exact Hnds|exact Hnd].
      destruct Hinv as [A B C D]. split; [exact A|exact B|exact C|]. intros Hne. contradiction.
    + assert (Hno : ∀ u, (end_block s).2 ≠ Ok u) by (rewrite E; discriminate).
      destruct (payout_none s Hno) as [E1 E2]. rewrite E1. cbn [fmap list_fmap]. rewrite app_nil_r.
      cbn [sstep]. rewrite E2.
      apply (IH InvPanic.Ended n s H paid Hbr); [|exact Hdis|exact Hnds|exact Hnd].
      destruct Hinv as [A B C D]. split; [exact A|exact B|exact C|]. intros Hne. contradiction.
  - (* Commit *)
    cbn [payouts1 fmap list_fmap]. rewrite app_nil_r. cbn [stake_hashes] in Hdis, Hnds.
    apply (IH InvPanic.Idle (n + 1) _ H paid Hbr); [|exact Hdis|exact Hnds|exact Hnd].
    destruct Hinv as [A B C _]. cbn [sstep]. split; [exact A|exact B|exact C|].
    intros _ k x Hk. rewrite InvPanic.base_of_commit in Hk. exact Hk.
Qed.

Lemma uinv_genesis g : (length (gen_validators g) ≤ 1)%nat → uinv InvPanic.Idle (init_chain g) [0%N] [].
Proof.
  intros Hlen. split.
  - apply init_chain_hashes_unique. exact Hlen.
  - apply init_chain_hashes_in.
  - intros k Hk. inversion Hk.
  - intros _ k x Hk. unfold base_of in Hk. cbn in Hk. rewrite lookup_empty in Hk. discriminate.
Qed.

(* no stake hash is paid twice in a run from a genesis with at most one validator whose operations
   come in Begin, Deliver*, End, Commit brackets and whose staking transactions carry pairwise
   distinct non-zero hashes.  Neither the supply bound nor [txs_ok] is needed, nor that the
   EndBlocks answer Ok (one that does not pays nothing). *)
Theorem payout_at_most_once_gen g ops :
  (length (gen_validators g) ≤ 1)%nat → InvPanic.bracketed InvPanic.Idle 0 ops → hashes_fresh ops →
  NoDup (payout_hash <$> payouts (init_chain g) ops).
Proof.
  intros Hlen Hbr Hfresh. apply NoDup_cons in Hfresh as [H0 Hnds].
  apply (payouts_nodup ops InvPanic.Idle 0 (init_chain g) [0%N] [] Hbr (uinv_genesis g Hlen)); [|exact Hnds|constructor].
  intros h Hh. apply elem_of_list_singleton in Hh as ->. exact H0.
Qed.
Print Assumptions payout_at_most_once_gen.

(* the form with the hypotheses of InvReach.C02_closed_total *)
Theorem payout_at_most_once g ops :
  genesis_ok g → InvPanic.bracketed InvPanic.Idle 0 ops → hashes_fresh ops → txs_ok ops →
  supply (work (init_chain g)) + requested ops < supply_bound →
  NoDup ((λ p : Z * stake, s_hash p.2) <$> payouts (init_chain g) ops).
Proof. intros (_ & Hlen & _) Hbr Hh _ _. apply payout_at_most_once_gen; assumption. Qed.
Print Assumptions payout_at_most_once.

(* ================================================================== 3. never early, in full *)

Lemma srun_snoc s ops o : srun s (ops ++ [o]) = sstep (srun s ops) o.
Proof. unfold srun. rewrite foldl_app. reflexivity. Qed.
Lemma srun_app s pre post : srun s (pre ++ post) = srun (srun s pre) post.
Proof. unfold srun. apply foldl_app. Qed.

(* where a payout of a run is made *)
Lemma payouts_elem p ops : ∀ s, p ∈ payouts s ops →
  ∃ pre post, ops = pre ++ SEnd :: post ∧ p ∈ payouts1 (srun s pre) SEnd.
Proof.
  induction ops as [|o r IH]; intros s Hp; cbn [payouts] in Hp; [inversion Hp|].
  apply elem_of_app in Hp as [Hp|Hp].
  - destruct o as [hd|t| |]; cbn [payouts1] in Hp; try (inversion Hp; fail).
    exists [], r. split; [reflexivity|exact Hp].
  - destruct (IH _ Hp) as (pre & post & -> & Hin). exists (o :: pre), post. split; [reflexivity|exact Hin].
Qed.

Lemma payouts1_elem s p : p ∈ payouts1 s SEnd →
  (∃ ups, (end_block s).2 = Ok ups) ∧ p.1 = b_height (bctx s) ∧
  ∃ k, frozen (base_of s) !! k = Some p.2 ∧ s_refund p.2 ≤ b_height (bctx s).
Proof.
  intros Hp. destruct (end_block s) as [s' r] eqn:E. destruct r as [ups|e|pn].
  - destruct (payout_link s s' ups 0%N E) as (E1 & Hel & _). rewrite E1 in Hp.
    apply elem_of_list_fmap in Hp as (kp & -> & Hkp). apply Hel in Hkp as [Hk Hle]. cbn [fst snd].
    split; [exists ups; reflexivity|]. split; [reflexivity|]. exists kp.1. split; assumption.
  - unfold payouts1 in Hp. rewrite E in Hp. inversion Hp.
  - unfold payouts1 in Hp. rewrite E in Hp. inversion Hp.
Qed.

(* the height an operation releases at *)
Definition release_height_of (s : state) (o : sop) : Z :=
  match o with SBegin hd => h_height hd | _ => b_height (bctx s) end.

(* [x] enters the unbonding ledger by the operation [o] executed in state [s]:
   - a delivery: [x] is a bonded stake [st0] of [s], unchanged but for the refund height, which is
     the height of [s] + the period in force in [s]; the transaction is a correctly signed
     unstaking transaction whose sender owns the stake [s0] it names, and [st0] is that stake, or
     the delegatee thereby lost all its own power (forced release of everything bonded to it);
   - a BeginBlock (the validator missed too many blocks): [x] is a bonded stake [st0] of [s] with
     owner, target, hash and start height unchanged, refund height = header height + the period
     in force; its power is that of [st0], cut if the same BeginBlock slashed the validator
     (no evidence in the header: nothing is cut) *)
Definition released_by (s : state) (o : sop) (x : stake) : Prop :=
  match o with
  | SDeliver t =>
      ∃ st0, st0 ∈ bonded_stakes (work s) ∧
        x = with_refund (b_height (bctx s) + g_lazyRewardBlocks (gparams s)) st0 ∧
        t_type t = TRX_UNSTAKING ∧ t_sigok t = true ∧
        ∃ d hs b s0, dels (work s) !! t_to t = Some d ∧ t_payload t = PUnstake hs b ∧
          find_stake hs (d_stakes d) = Some s0 ∧ s_from s0 = t_from t ∧ st0 ∈ d_stakes d ∧
          (st0 = s0 ∨ d_self (del_stake d hs) = 0 ∨ d_total (del_stake d hs) = 0)
  | SBegin hd =>
      ∃ st0 s1, st0 ∈ bonded_stakes (work s) ∧ stake_sim st0 s1 ∧ (h_evidence hd = [] → s1 = st0) ∧
        (0 ≤ g_slashRatio (gparams s) ≤ 100 → 0 ≤ s_power st0 → 0 ≤ s_power s1 ≤ s_power st0) ∧
        x = with_refund (h_height hd + g_lazyRewardBlocks (gparams s)) s1
  | _ => False
  end.

Lemma released_by_refund s o x : released_by s o x →
  s_refund x = release_height_of s o + g_lazyRewardBlocks (gparams s).
Proof.
  destruct o as [hd|t| |]; cbn [released_by release_height_of]; try contradiction.
  - intros (st0 & s1 & _ & _ & _ & _ & ->). reflexivity.
  - intros (st0 & _ & -> & _). reflexivity.
Qed.

(* the stake a release takes from the bonded set: same owner, target, hash, start height *)
Definition same_id (x y : stake) : Prop :=
  s_from x = s_from y ∧ s_to x = s_to y ∧ s_hash x = s_hash y ∧ s_start x = s_start y.

Lemma released_by_source s o x : released_by s o x →
  ∃ st0, st0 ∈ bonded_stakes (work s) ∧ same_id st0 x ∧
    ((0 ≤ g_slashRatio (gparams s) ≤ 100 → 0 ≤ s_power st0 → 0 ≤ s_power x ≤ s_power st0)).
Proof.
  destruct o as [hd|t| |]; cbn [released_by]; try contradiction.
  - intros (st0 & s1 & Hin & (H1 & H2 & H3 & H4 & _) & _ & Hp & ->). exists st0.
    split; [exact Hin|]. split; [repeat split; assumption|]. exact Hp.
  - intros (st0 & Hin & -> & _). exists st0. split; [exact Hin|]. split; [repeat split|]. cbn. lia.
Qed.

(* BeginBlock as an evolution that records both what slashing may do and that it does nothing
   without evidence *)
Definition bb_rel (s : state) (hd : header) (x y : stake) : Prop :=
  stake_sim x y ∧ (h_evidence hd = [] → y = x) ∧
  (0 ≤ g_slashRatio (gparams s) ≤ 100 → 0 ≤ s_power x → 0 ≤ s_power y ≤ s_power x).

Lemma Qok_bb s hd : Qok (bb_rel s hd).
Proof.
  split.
  - intros x. split; [apply (Q_refl _ Qok_sim)|]. split; [reflexivity|lia].
  - intros x y z (H1 & H2 & H3) (H4 & H5 & H6). split; [eapply (Q_trans _ Qok_sim); eassumption|].
    split; [intros He; rewrite (H5 He); apply H2; exact He|]. intros Hr Hx. specialize (H3 Hr Hx).
    specialize (H6 Hr ltac:(lia)). lia.
  - intros x y (H & _). apply (Q_hash _ Qok_sim). exact H.
Qed.

Lemma begin_block_evolves_bb s hd :
  evolves (bb_rel s hd) (block_release_height s hd) (work s) (work (begin_block s hd).1).
Proof.
  apply (begin_block_ind (λ l, evolves (bb_rel s hd) (block_release_height s hd) (work s) l)).
  - intros l l' Hsf H. eapply evolves_sf; [apply same_sf_refl|exact Hsf|exact H].
  - apply evolves_refl, Qok_bb.
  - intros l a d Hev H Hd. eapply evolves_trans; [apply Qok_bb|exact H|].
    apply ev_slash; [apply Qok_bb| |exact Hd].
    intros x. split; [repeat split|]. split.
    + intros He. rewrite He in Hev. inversion Hev.
    + intros Hr Hx. cbn [with_power s_power]. apply slash_amount_bounds; assumption.
  - intros l a d m H Hd. eapply evolves_trans; [apply Qok_bb|exact H|apply ev_marks; [apply Qok_bb|exact Hd]].
  - intros l a d _ H Hd. eapply evolves_trans; [apply Qok_bb|exact H|apply ev_jail; [apply Qok_bb|exact Hd]].
Qed.

Lemma begin_release s hd k x : frozen (work (begin_block s hd).1) !! k = Some x →
  frozen (work s) !! k = Some x ∨ released_by s (SBegin hd) x.
Proof.
  intros Hk. destruct (begin_block_evolves_bb s hd) as [_ B].
  destruct (B _ _ Hk) as [Hold|(a & d & s0 & s1 & Hd & Hs0 & (Hq1 & Hq2 & Hq3) & -> & -> & _)]; [left; exact Hold|].
  right. cbn [released_by]. exists s0, s1. split; [apply InvStake.elem_of_bonded; eauto|].
  split; [exact Hq1|]. split; [exact Hq2|]. split; [exact Hq3|]. reflexivity.
Qed.

(* the run [ops] from [s0] contains a release of [x] *)
Definition release_point (s0 : state) (ops : list sop) (x : stake) : Prop :=
  ∃ pre o post, ops = pre ++ o :: post ∧ released_by (srun s0 pre) o x.

Lemma release_point_snoc s0 ops o x : release_point s0 ops x → release_point s0 (ops ++ [o]) x.
Proof.
  intros (pre & o' & post & -> & H). exists pre, o', (post ++ [o]). split; [|exact H].
  rewrite <- app_assoc. reflexivity.
Qed.

(* every unbonding entry, working or committed, was released by an operation of the run *)
Lemma frozen_origin s0 ops :
  frozen (work s0) = ∅ → frozen (base_of s0) = ∅ →
  (∀ pre, pre `prefix_of` ops → hashes_unique (work (srun s0 pre))) →
  ∀ k x, frozen (work (srun s0 ops)) !! k = Some x ∨ frozen (base_of (srun s0 ops)) !! k = Some x →
  release_point s0 ops x.
Proof.
  intros Hw0 Hb0. induction ops as [|o ops IH] using rev_ind; intros Hhu k x Hk.
  { cbn in Hk. rewrite Hw0, Hb0 in Hk. destruct Hk as [Hk|Hk]; rewrite lookup_empty in Hk; discriminate. }
  assert (Hhu' : ∀ pre, pre `prefix_of` ops → hashes_unique (work (srun s0 pre))).
  { intros pre Hp. apply Hhu. apply prefix_app_r. exact Hp. }
  specialize (IH Hhu').
  pose proof (Hhu (ops ++ [o]) (reflexivity _)) as Hhu1.
  rewrite srun_snoc in Hk, Hhu1. set (s := srun s0 ops) in *.
  assert (Hold : ∀ k x, frozen (work s) !! k = Some x → release_point s0 (ops ++ [o]) x).
  { intros k' x' H. apply release_point_snoc. apply (IH k' x'). left. exact H. }
  assert (Hnew : released_by s o x → release_point s0 (ops ++ [o]) x).
  { intros H. exists ops, o, []. split; [reflexivity|exact H]. }
  destruct Hk as [Hk|Hk].
  - destruct o as [hd|t| |]; cbn [sstep] in Hk, Hhu1.
    + destruct (begin_release s hd k x Hk) as [H|H]; [eapply Hold; exact H|apply Hnew; exact H].
    + destruct (deliver s t) as [s' r] eqn:E. cbn [fst] in Hk, Hhu1.
      destruct (release_stamps_refund_height _ _ _ _ _ _ E Hk) as [H|(st0 & Hst0 & -> & ->)]; [eapply Hold; exact H|].
      apply Hnew. cbn [released_by]. exists st0. split; [exact Hst0|]. split; [reflexivity|].
      assert (Hout : st0 ∉ bonded_stakes (work s')).
      { intros Hin. apply hashes_unique_pt in Hhu1 as (_ & _ & U3 & _).
        apply InvStake.elem_of_bonded in Hin as (a & d & Hd & Hin). exact (U3 a d st0 _ _ Hd Hin Hk eq_refl). }
      destruct (release_only_by_owner _ _ _ _ _ E Hst0 Hout)
        as (Hty & Hsig & d & hs & b & s1 & H1 & H2 & H3 & H4 & H5 & H6).
      split; [exact Hty|]. split; [exact Hsig|]. exists d, hs, b, s1. auto 10.
    + apply end_block_frozen_only_deletes in Hk. eapply Hold; exact Hk.
    + eapply Hold; exact Hk.
  - destruct o as [hd|t| |].
    + rewrite sstep_base in Hk by discriminate. apply release_point_snoc. apply (IH k x). right. exact Hk.
    + rewrite sstep_base in Hk by discriminate. apply release_point_snoc. apply (IH k x). right. exact Hk.
    + rewrite sstep_base in Hk by discriminate. apply release_point_snoc. apply (IH k x). right. exact Hk.
    + cbn [sstep] in Hk. rewrite InvPanic.base_of_commit in Hk. eapply Hold; exact Hk.
Qed.

Lemma init_chain_base_frozen g : frozen (base_of (init_chain g)) = ∅.
Proof. reflexivity. Qed.

(* every payout of a run from a genesis with at most one validator and fresh staking hashes has
   matured, and was released earlier in the run *)
Theorem payout_never_early_gen g ops h st :
  (length (gen_validators g) ≤ 1)%nat → hashes_fresh ops →
  (h, st) ∈ payouts (init_chain g) ops →
  s_refund st ≤ h ∧
  ∃ pre o mid post,
    ops = pre ++ o :: mid ++ SEnd :: post ∧
    released_by (srun (init_chain g) pre) o st ∧
    (h, st) ∈ payouts1 (srun (init_chain g) (pre ++ o :: mid)) SEnd ∧
    h = b_height (bctx (srun (init_chain g) (pre ++ o :: mid))) ∧
    (∃ ups, (end_block (srun (init_chain g) (pre ++ o :: mid))).2 = Ok ups).
Proof.
  intros Hlen Hfresh Hp.
  destruct (payouts_elem _ _ _ Hp) as (pre1 & post & -> & Hp1).
  destruct (payouts1_elem _ _ Hp1) as (Hok & Hh & k & Hk & Hle). cbn [fst snd] in *.
  split; [lia|].
  pose proof (fresh_run_reachable g _ Hfresh) as Hf.
  destruct (frozen_origin (init_chain g) pre1 (proj1 (init_chain_frozen g)) (init_chain_base_frozen g)) with (k := k) (x := st)
    as (pre & o & mid & -> & Hrel).
  - intros p Hpre. apply hashes_unique_reachable; [exact Hlen|].
    destruct Hpre as [q ->]. rewrite <- app_assoc in Hf. eapply fresh_run_prefix. exact Hf.
  - right. exact Hk.
  - exists pre, o, mid, post. split; [rewrite <- app_assoc; reflexivity|]. split; [exact Hrel|].
    split; [exact Hp1|]. split; assumption.
Qed.
Print Assumptions payout_never_early_gen.

(* under the hypotheses of C02_closed_total, with the ranges: the period is non-negative, so the
   release is not after the payout; the paid power is in the int64 range, so the paid amount is
   exactly amountPerPower x the power the stake had at release *)
Theorem payout_never_early_and_in_full g ops h st :
  genesis_ok g → InvPanic.bracketed InvPanic.Idle 0 ops → hashes_fresh ops → txs_ok ops →
  supply (work (init_chain g)) + requested ops < supply_bound →
  (h, st) ∈ payouts (init_chain g) ops →
  s_refund st ≤ h ∧
  ∃ pre o mid post,
    ops = pre ++ o :: mid ++ SEnd :: post ∧
    let s := srun (init_chain g) pre in
    let s1 := srun (init_chain g) (pre ++ o :: mid) in
    released_by s o st ∧
    s_refund st = release_height_of s o + g_lazyRewardBlocks (gparams s) ∧
    0 ≤ g_lazyRewardBlocks (gparams s) ∧ release_height_of s o ≤ h ∧
    h = b_height (bctx s1) ∧ (∃ ups, (end_block s1).2 = Ok ups) ∧
    0 ≤ s_power st < two63 ∧ power_to_amount (s_power st) = amountPerPower * s_power st.
Proof.
  intros Hg Hbr Hfresh Htx Hb Hp. pose proof Hg as (_ & Hlen & _).
  destruct (payout_never_early_gen g ops h st Hlen Hfresh Hp) as (Hle & pre & o & mid & post & E & Hrel & _ & Hh & Hok).
  split; [exact Hle|]. exists pre, o, mid, post. split; [exact E|]. cbv zeta.
  pose proof (run_ok_reachable g ops Hg (fresh_run_reachable g ops Hfresh) (bracketed_opts_ok _ _ _ Hbr) pre
                ltac:(exists (o :: mid ++ SEnd :: post); exact E)) as (_ & _ & Hpw & Hpar).
  pose proof (released_by_refund _ _ _ Hrel) as Hr.
  assert (Hlz : 0 ≤ g_lazyRewardBlocks (gparams (srun (init_chain g) pre))) by (destruct Hpar as (_&_&_&_&_&_&_&H&_); lia).
  destruct (released_by_source _ _ _ Hrel) as (st0 & Hin0 & _ & Hcut).
  assert (Hp0 : 0 ≤ s_power st0 < two63) by (apply Hpw; apply elem_of_app; left; exact Hin0).
  assert (Hpst : 0 ≤ s_power st < two63).
  { assert (0 ≤ s_power st ≤ s_power st0); [|lia]. apply Hcut; [|lia]. destruct Hpar as (_&_&_&H&_). exact H. }
  split; [exact Hrel|]. split; [exact Hr|]. split; [exact Hlz|]. split; [lia|]. split; [exact Hh|]. split; [exact Hok|].
  split; [exact Hpst|]. rewrite power_to_amount_exact by exact Hpst. lia.
Qed.
Print Assumptions payout_never_early_and_in_full.

(* ================================================================== 4. only to the owner *)

(* [deliver_moves] of InvStake.v, keeping what [deliver_frame] knows about the signature: a stake is
   created only by a correctly signed staking transaction *)
Lemma deliver_moves_sig s t s' r : deliver s t = (s', r) →
  evolves eq (release_height s) (work s) (work s') ∨
  (t_type t = TRX_STAKING ∧ t_sigok t = true ∧ ∃ d,
     (dels (work s) !! t_to t = Some d ∨
      (dels (work s) !! t_to t = None ∧ t_from t = t_to t ∧ d = new_delegatee (t_to t))) ∧
     dels (work s') = <[t_to t := add_stake d (stake_of_tx t (b_height (bctx s)) (power_of (t_amount t)))]> (dels (work s)) ∧
     frozen (work s') = frozen (work s)).
Proof.
  intros Hdel.
  apply deliver_frame in Hdel as (_ & _ & _ & _ & _ & [Hsf|(s2 & l & l' & Hsig & Hg & Hh & Hsf & Hex & Hsf')]).
  { left. eapply evolves_sf; [apply same_sf_refl|exact Hsf|apply evolves_refl, Qok_eq]. }
  assert (HR : release_height s2 = release_height s) by (unfold release_height; congruence).
  destruct Hsf as [HD HF]. destruct Hsf' as [HD' HF'].
  apply stake_execute_inv in Hex as [(Hty & d & Hd & HDl & HFl)|[(Hty & d & hs & b & s0 & Hd & _ & Hf & _ & HDl & HFl)|(_ & _ & Hsame)]].
  - right. split; [exact Hty|]. split; [exact Hsig|]. exists d. rewrite HD in Hd, HDl. rewrite HF in HFl. rewrite Hh in HDl.
    split; [exact Hd|]. split; congruence.
  - left. rewrite HR in HDl, HFl.
    apply (evolves_sf eq _ l (work s) l' (work s')); [split; congruence|split; assumption|].
    eapply ev_unstake; [apply Qok_eq|exact Hd|exact Hf|exact HDl|exact HFl].
  - left. eapply evolves_sf; [apply same_sf_refl| |apply evolves_refl, Qok_eq].
    eapply same_sf_trans; [split; [exact HD|exact HF]|]. eapply same_sf_trans; [exact Hsame|split; assumption].
Qed.

(* where a stake comes from: the genesis document (validator [v]: owner = target = v, hash 0, start
   height 1), or a correctly signed staking transaction of the run, whose sender is the owner, whose
   receiver is the target and whose hash is the stake's hash; the stake starts at the next height *)
Definition born (g : genesis) (ops : list sop) (x : stake) : Prop :=
  (∃ v, v ∈ gen_validators g ∧ s_from x = v.1 ∧ s_to x = v.1 ∧ s_hash x = 0%N ∧ s_start x = 1) ∨
  (∃ pre t post, ops = pre ++ SDeliver t :: post ∧ t_type t = TRX_STAKING ∧ t_sigok t = true ∧
     s_from x = t_from t ∧ s_to x = t_to t ∧ s_hash x = t_hash t ∧
     s_start x = b_height (bctx (srun (init_chain g) pre)) + 1).

Lemma born_id g ops x y : same_id x y → born g ops x → born g ops y.
Proof.
  intros (H1 & H2 & H3 & H4) [(v & Hv & A & B & C & D)|(pre & t & post & E & Hty & Hsig & A & B & C & D)].
  - left. exists v. split; [exact Hv|]. repeat split; congruence.
  - right. exists pre, t, post. split; [exact E|]. split; [exact Hty|]. split; [exact Hsig|]. repeat split; congruence.
Qed.

Lemma born_app g ops more x : born g ops x → born g (ops ++ more) x.
Proof.
  intros [H|(pre & t & post & -> & H)]; [left; exact H|].
  right. exists pre, t, (post ++ more). split; [rewrite <- app_assoc; reflexivity|exact H].
Qed.

Lemma fold_ins_lookup (f : addr * Z → delegatee) vs : ∀ (m : gmap addr delegatee) a d,
  foldl (λ m v, <[v.1 := f v]> m) m vs !! a = Some d → m !! a = Some d ∨ ∃ v, v ∈ vs ∧ a = v.1 ∧ d = f v.
Proof.
  induction vs as [|v vs IH]; intros m a d; cbn [foldl]; [auto|].
  intros H. destruct (IH _ _ _ H) as [H'|(w & Hw & -> & ->)].
  - apply lookup_insert_Some in H' as [[<- <-]|[_ H']]; [|left; exact H'].
    right. exists v. split; [left|]. split; reflexivity.
  - right. exists w. split; [right; exact Hw|]. split; reflexivity.
Qed.

Lemma init_chain_bonded g st : st ∈ bonded_stakes (work (init_chain g)) →
  ∃ v, v ∈ gen_validators g ∧ st = genesis_stake v.
Proof.
  intros Hst. apply InvStake.elem_of_bonded in Hst as (a & d & Hd & Hin). rewrite init_chain_dels in Hd.
  apply fold_ins_lookup in Hd as [Hd|(v & Hv & -> & ->)]; [rewrite lookup_empty in Hd; discriminate|].
  exists v. split; [exact Hv|]. unfold gdel in Hin. cbn in Hin. apply elem_of_list_singleton in Hin. exact Hin.
Qed.

(* every bonded stake of every state of every run from a genesis has such an origin *)
Lemma bonded_born g ops : ∀ st, st ∈ bonded_stakes (work (srun (init_chain g) ops)) → born g ops st.
Proof.
  induction ops as [|o ops IH] using rev_ind; intros st Hst.
  { cbn in Hst. apply init_chain_bonded in Hst as (v & Hv & ->). left. exists v. split; [exact Hv|]. repeat split. }
  rewrite srun_snoc in Hst. set (s := srun (init_chain g) ops) in *.
  assert (Hev : ∀ (Q : stake → stake → Prop) R l', (∀ x y, Q x y → same_id x y) → evolves Q R (work s) l' →
                  st ∈ bonded_stakes l' → born g (ops ++ [o]) st).
  { intros Q R l' HQ [A _] Hin. apply InvStake.elem_of_bonded in Hin as (a & d' & Hd' & Hin).
    destruct (A _ _ Hd') as (d & Hd & _ & Hq). destruct (Hq _ Hin) as (s0 & Hs0 & Hqs).
    apply (born_id g _ s0 st (HQ _ _ Hqs)). apply born_app. apply IH. apply InvStake.elem_of_bonded. eauto. }
  assert (Heq : ∀ x y : stake, x = y → same_id x y) by (intros x y ->; repeat split).
  destruct o as [hd|t| |]; cbn [sstep] in Hst.
  - apply (Hev stake_sim _ _ ltac:(intros x y (H1 & H2 & H3 & H4 & _); repeat split; assumption) (begin_block_evolves s hd) Hst).
  - destruct (deliver s t) as [s' r] eqn:E. cbn [fst] in Hst.
    apply deliver_moves_sig in E as [Hmv|(Hty & Hsig & d & Hd & HD & _)]; [exact (Hev eq _ _ Heq Hmv Hst)|].
    apply InvStake.elem_of_bonded in Hst as (a' & d' & Hd' & Hin). rewrite HD in Hd'.
    assert (Hold : ∀ dz, dels (work s) !! a' = Some dz → st ∈ d_stakes dz → born g (ops ++ [SDeliver t]) st).
    { intros dz Hz Hinz. apply born_app. apply IH. apply InvStake.elem_of_bonded. eauto. }
    destruct (decide (a' = t_to t)) as [->|Hne].
    + rewrite lookup_insert in Hd'. injection Hd' as <-. cbn [add_stake d_stakes] in Hin.
      apply elem_of_app in Hin as [Hin|Hin].
      * destruct Hd as [Hd|(_ & _ & ->)]; [|inversion Hin]. eapply Hold; eassumption.
      * apply elem_of_list_singleton in Hin. subst st. right. exists ops, t, [].
        split; [reflexivity|]. split; [exact Hty|]. split; [exact Hsig|]. repeat split.
    + rewrite lookup_insert_ne in Hd' by congruence. eapply Hold; eassumption.
  - exact (Hev eq 0 _ Heq (end_block_evolves s 0) Hst).
  - apply born_app. apply IH. exact Hst.
Qed.

(* the account a payout is credited to is the owner recorded in the stake, and that owner is the
   sender of the correctly signed staking transaction of the run that created the stake with this
   hash (or the genesis validator, for the genesis stake).  Creation, release and payout come in this
   order in the run. *)
Theorem payout_only_to_owner_gen g ops h st :
  (length (gen_validators g) ≤ 1)%nat → hashes_fresh ops →
  (h, st) ∈ payouts (init_chain g) ops →
  ∃ pre o mid post,
    ops = pre ++ o :: mid ++ SEnd :: post ∧
    let s0 := srun (init_chain g) pre in
    let s := srun (init_chain g) (pre ++ o :: mid) in
    (* the EndBlock that pays credits exactly the owners of its payouts *)
    (h, st) ∈ payouts1 s SEnd ∧
    (∃ ups, (end_block s).2 = Ok ups) ∧
    (∀ a, acct_of (work (end_block s).1) a = foldl credit (fee_credited s a) (paid_to a (payouts1 s SEnd))) ∧
    (∀ a, (h, st) ∈ owned_by a (payouts1 s SEnd) ↔ a = s_from st) ∧
    (* the owner is the owner at release ... *)
    released_by s0 o st ∧
    (* ... and is who created the stake, before the release *)
    born g pre st.
Proof.
  intros Hlen Hfresh Hp.
  destruct (payout_never_early_gen g ops h st Hlen Hfresh Hp)
    as (_ & pre & o & mid & post & -> & Hrel & Hin & Hh & (ups & Hok)).
  exists pre, o, mid, post. split; [reflexivity|]. cbv zeta.
  set (s := srun (init_chain g) (pre ++ o :: mid)) in *.
  split; [exact Hin|]. split; [exists ups; exact Hok|].
  destruct (end_block s) as [s' r] eqn:E. cbn [snd fst] in *. subst r.
  split; [intros a; apply (payout_link s s' ups a E)|]. split.
  - intros a. rewrite owned_by_elem. cbn [snd]. split; [intros [_ H]; symmetry; exact H|intros ->; split; [exact Hin|reflexivity]].
  - split; [exact Hrel|]. destruct (released_by_source _ _ _ Hrel) as (st0 & Hin0 & Hid & _).
    apply (born_id g pre st0 st Hid). apply bonded_born. exact Hin0.
Qed.
Print Assumptions payout_only_to_owner_gen.

Theorem payout_only_to_owner g ops h st :
  genesis_ok g → InvPanic.bracketed InvPanic.Idle 0 ops → hashes_fresh ops → txs_ok ops →
  supply (work (init_chain g)) + requested ops < supply_bound →
  (h, st) ∈ payouts (init_chain g) ops →
  ∃ pre o mid post,
    ops = pre ++ o :: mid ++ SEnd :: post ∧
    let s0 := srun (init_chain g) pre in
    let s := srun (init_chain g) (pre ++ o :: mid) in
    (h, st) ∈ payouts1 s SEnd ∧
    (∃ ups, (end_block s).2 = Ok ups) ∧
    (∀ a, acct_of (work (end_block s).1) a = foldl credit (fee_credited s a) (paid_to a (payouts1 s SEnd))) ∧
    (∀ a, (h, st) ∈ owned_by a (payouts1 s SEnd) ↔ a = s_from st) ∧
    released_by s0 o st ∧
    born g pre st.
Proof. intros (_ & Hlen & _) _ Hh _ _. apply payout_only_to_owner_gen; assumption. Qed.
Print Assumptions payout_only_to_owner.

(* ================================================================== 5. the history statement, balance side *)

(* ---- ranges: in a closed run the refund loop never wraps a balance *)
Lemma begin_block_bctx_feesum s hd :
  b_feesum (bctx (begin_block s hd).1) = 0 ∨ bctx (begin_block s hd).1 = bctx s.
Proof.
  unfold begin_block. destruct (negb _); [right; reflexivity|]. cbv zeta.
  destruct (h_votes hd); [left; reflexivity|].
  destruct (process_votes _ _ _ _) as [[l3 iss]|e|pn]; left; reflexivity.
Qed.

Lemma sstep_feesum s o : 0 ≤ b_feesum (bctx s) < two256 → 0 ≤ b_feesum (bctx (sstep s o)) < two256.
Proof.
  intros H. destruct o as [hd|t| |]; cbn [sstep].
  - destruct (begin_block_bctx_feesum s hd) as [->| ->]; [pose proof two256_pos; lia|exact H].
  - destruct (deliver s t) as [s' r] eqn:E. cbn [fst]. rewrite (deliver_feesum _ _ _ _ E).
    destruct r; [exact (wrap256_range _)|exact H|exact H].
  - destruct (end_block s) as [s' r] eqn:E. cbn [fst].
    apply end_block_inv in E as [[-> _]|(ups & l3 & _ & _ & _ & _ & _ & _ & _ & Hb & _)]; [exact H|rewrite Hb; exact H].
  - exact H.
Qed.

Lemma feesum_run ops : ∀ s, 0 ≤ b_feesum (bctx s) < two256 → 0 ≤ b_feesum (bctx (srun s ops)) < two256.
Proof.
  unfold srun. induction ops as [|o ops IH]; intros s H; cbn [foldl]; [exact H|]. apply IH, sstep_feesum, H.
Qed.

(* the committed ledgers a state iterates are the working ledgers of an earlier state of the run *)
Lemma committed_last g ops :
  last (committed (srun (init_chain g) ops)) = None ∨
  ∃ pre, pre `prefix_of` ops ∧ last (committed (srun (init_chain g) ops)) = Some (work (srun (init_chain g) pre)).
Proof.
  induction ops as [|o ops IH] using rev_ind; [left; reflexivity|].
  rewrite srun_snoc. destruct (sstep_committed (srun (init_chain g) ops) o) as [E|[_ E]]; rewrite E.
  - destruct IH as [IH|(pre & Hp & IH)]; [left; exact IH|]. right. exists pre. split; [apply prefix_app_r; exact Hp|exact IH].
  - right. exists ops. split; [apply prefix_app_r; reflexivity|]. apply last_snoc.
Qed.

Lemma sumZ_perm (l k : list Z) : l ≡ₚ k → sumZ l = sumZ k.
Proof. induction 1; cbn; lia. Qed.

Lemma sumZ_filter_le {A} (f : A → Z) (p : A → bool) (l : list A) :
  (∀ x, x ∈ l → 0 ≤ f x) → 0 ≤ sumZ (f <$> List.filter p l) ≤ sumZ (f <$> l).
Proof.
  induction l as [|x l IH]; intros H; cbn [List.filter fmap list_fmap sumZ]; [lia|].
  assert (0 ≤ f x) by (apply H; left).
  assert (0 ≤ sumZ (f <$> List.filter p l) ≤ sumZ (f <$> l)) by (apply IH; intros y Hy; apply H; right; exact Hy).
  destruct (p x); cbn [fmap list_fmap sumZ]; lia.
Qed.

Lemma sum_power_scaled (c : Z) (l : list (hash * stake)) :
  sumZ ((λ kp : hash * stake, c * s_power kp.2) <$> l) = c * sum_power ((λ kv : hash * stake, kv.2) <$> l).
Proof. induction l as [|x l IH]; cbn [fmap list_fmap sumZ sum_power foldr]; [lia|]. fold (sum_power ((λ kv : hash * stake, kv.2) <$> l)). rewrite IH. lia. Qed.

Definition payout_amount (p : Z * stake) : Z := amountPerPower * s_power p.2.

(* what one EndBlock pays to [a] is at most the whole committed unbonding ledger *)
Lemma paid_sum_le s a :
  (∀ k st, frozen (base_of s) !! k = Some st → 0 ≤ s_power st) →
  0 ≤ sumZ (payout_amount <$> owned_by a ((λ kp : hash * stake, (b_height (bctx s), kp.2)) <$> paid_items s))
    ≤ amountPerPower * frozen_power (base_of s).
Proof.
  intros Hpw. pose proof InvPanic.apP_pos as Hap.
  set (gg := λ kp : hash * stake, (b_height (bctx s), kp.2)).
  assert (Hnn : ∀ kp, kp ∈ sorted_items (frozen (base_of s)) → 0 ≤ (payout_amount ∘ gg) kp).
  { intros [k st] Hin. apply elem_of_sorted_items in Hin. unfold payout_amount, gg. cbn. specialize (Hpw _ _ Hin). nia. }
  assert (H1 : 0 ≤ sumZ (payout_amount <$> owned_by a (gg <$> paid_items s)) ≤ sumZ (payout_amount <$> (gg <$> paid_items s))).
  { unfold owned_by. apply sumZ_filter_le. intros p Hp. apply elem_of_list_fmap in Hp as (kp & -> & Hkp).
    apply Hnn. unfold paid_items in Hkp. apply elem_of_list_In, filter_In in Hkp as [Hkp _]. apply elem_of_list_In. exact Hkp. }
  rewrite <- list_fmap_compose in H1.
  assert (H2 : sumZ (payout_amount ∘ gg <$> paid_items s) ≤ sumZ (payout_amount ∘ gg <$> sorted_items (frozen (base_of s)))).
  { unfold paid_items. apply sumZ_filter_le. exact Hnn. }
  assert (H3 : sumZ (payout_amount ∘ gg <$> sorted_items (frozen (base_of s))) = amountPerPower * frozen_power (base_of s)).
  { unfold frozen_power, frozen_stakes. rewrite <- sum_power_scaled. apply sumZ_perm. apply fmap_Permutation.
    unfold sorted_items. apply merge_sort_Permutation. }
  lia.
Qed.

Lemma room_numbers : 2 * supply_bound + two255 ≤ two256.
Proof. vm_compute. congruence. Qed.

Section closed_run.
  Variables (g : genesis) (ops : list sop).
  Hypothesis Hg : genesis_ok g.
  Hypothesis Hbr : InvPanic.bracketed InvPanic.Idle 0 ops.
  Hypothesis Hfresh : hashes_fresh ops.
  Hypothesis Htx : txs_ok ops.
  Hypothesis Hbound : supply (work (init_chain g)) + requested ops < supply_bound.

  Lemma closed_reach_ok pre post : ops = pre ++ post → reach_ok (srun (init_chain g) pre).
  Proof.
    intros E. pose proof (minted_le_requested ops Htx (init_chain g)) as Hle.
    destruct (closed_run_total g ops Hg Hbr (fresh_run_reachable g ops Hfresh) Htx ltac:(lia)) as (_ & _ & H).
    exact (H pre post E).
  Qed.

  (* the committed unbonding ledger of a state of the run weighs less than the supply bound *)
  Lemma closed_base_frozen pre post : ops = pre ++ post →
    let s := srun (init_chain g) pre in
    (∀ k st, frozen (base_of s) !! k = Some st → 0 ≤ s_power st < two63) ∧
    0 ≤ amountPerPower * frozen_power (base_of s) < supply_bound.
  Proof.
    intros E s. pose proof InvPanic.apP_pos as Hap. unfold base_of.
    destruct (committed_last g pre) as [El|(pre' & [q Hq] & El)]; fold s in El; rewrite El; cbn [default from_option id].
    - split; [intros k st Hk; cbn in Hk; rewrite lookup_empty in Hk; discriminate|].
      unfold frozen_power, frozen_stakes. cbn [frozen empty_ledgers]. rewrite map_to_list_empty. cbn.
      unfold supply_bound. pose proof InvPanic.two63_apP_lt_two255. split; [lia|]. vm_compute. reflexivity.
    - assert (E' : ops = pre' ++ (q ++ post)) by (rewrite E, Hq, <- app_assoc; reflexivity).
      destruct (closed_reach_ok pre' _ E') as (_ & Hbal & Hpw & Hsup).
      set (l := work (srun (init_chain g) pre')) in *.
      assert (Hf : ∀ k st, frozen l !! k = Some st → 0 ≤ s_power st < two63).
      { intros k st Hk. apply Hpw. apply elem_of_app. right. apply InvStake.elem_of_frozen. eauto. }
      split; [exact Hf|].
      destruct (InvPanic.total_balance_ge l) as [HT _]; [intros a x Hx; apply Hbal in Hx; lia|].
      assert (0 ≤ bonded_power l).
      { apply InvPanic.sum_power_nonneg. intros st Hst. assert (0 ≤ s_power st < two63); [|lia].
        apply Hpw, elem_of_app. left. exact Hst. }
      assert (0 ≤ frozen_power l).
      { apply InvPanic.sum_power_nonneg. intros st Hst. assert (0 ≤ s_power st < two63); [|lia].
        apply Hpw, elem_of_app. right. exact Hst. }
      unfold supply in Hsup. unfold supply_bound. rewrite Z.mul_add_distr_l in Hsup.
      assert (0 ≤ amountPerPower * bonded_power l) by (apply Z.mul_nonneg_nonneg; lia).
      assert (0 ≤ amountPerPower * frozen_power l) by (apply Z.mul_nonneg_nonneg; lia).
      lia.
  Qed.

  (* one successful EndBlock of the run, exactly: balance after = balance with the proposer's fee
     credit + amountPerPower x power over the payouts owned by [a] -- over Z, nothing wraps *)
  Lemma payout_step_exact pre post a s' ups :
    ops = pre ++ SEnd :: post →
    let s := srun (init_chain g) pre in
    end_block s = (s', Ok ups) →
    bal_of (work s') a = a_bal (fee_credited s a) + sumZ (payout_amount <$> owned_by a (payouts1 s SEnd)).
  Proof.
    intros E s Eend.
    destruct (closed_base_frozen pre _ E) as [Hpw Hfp]. fold s in Hpw, Hfp.
    destruct (closed_state_facts_along g ops Hg Hbr Hfresh Htx Hbound pre _ E) as (_ & _ & _ & Hsmall). fold s in Hsmall.
    assert (Hfs : 0 ≤ b_feesum (bctx s) < two256).
    { apply feesum_run. cbn. pose proof two256_pos. lia. }
    assert (Hbal : 0 ≤ bal_of (work s) a < supply_bound).
    { unfold bal_of, acct_of. destruct (accts (work s) !! a) as [x|] eqn:Ex; cbn [default]; [apply (Hsmall a x Ex)|].
      cbn. unfold supply_bound. vm_compute. split; [discriminate|reflexivity]. }
    pose proof room_numbers as Hroom. pose proof two256_pos as H256. pose proof supply_bound_lt as [Hsb _].
    assert (Hx : 0 ≤ a_bal (fee_credited s a) < supply_bound + two255).
    { unfold fee_credited. fold (bal_of (work s) a) in *.
      destruct (b_proposer (bctx s)) as [pa|]; [|unfold bal_of in Hbal; lia].
      destruct (decide (pa = a)); [|unfold bal_of in Hbal; lia].
      destruct (0 <? sign256 (b_feesum (bctx s))) eqn:Efee; [|unfold bal_of in Hbal; lia].
      apply (sign256_pos_iff _ Hfs) in Efee. cbn [credit a_bal]. unfold add256, wrap256. unfold bal_of in Hbal.
      rewrite Z.mod_small by lia. lia. }
    destruct (payout_link s s' ups a Eend) as (E1 & _ & _).
    pose proof (paid_sum_le s a ltac:(intros k st Hk; apply (Hpw k st Hk))) as HS. rewrite <- E1 in HS.
    rewrite (payout_link_balance s s' ups a Eend Hpw) by lia.
    fold payout_amount. apply Z.mod_small. lia.
  Qed.
End closed_run.

(* what the unbonding ledger adds to the balance of [a] along a run: at every EndBlock that answers,
   the balance after it minus the balance it starts the refund loop with *)
Definition unbond_gain1 (a : addr) (s : state) (o : sop) : Z :=
  match o with
  | SEnd => match (end_block s).2 with
            | Ok _ => bal_of (work (end_block s).1) a - a_bal (fee_credited s a)
            | _ => 0
            end
  | _ => 0
  end.
Fixpoint unbond_gain (a : addr) (s : state) (ops : list sop) : Z :=
  match ops with [] => 0 | o :: r => unbond_gain1 a s o + unbond_gain a (sstep s o) r end.

Lemma owned_by_app a l k : owned_by a (l ++ k) = owned_by a l ++ owned_by a k.
Proof. unfold owned_by. apply List.filter_app. Qed.

Lemma unbond_gain_payouts g ops a :
  genesis_ok g → InvPanic.bracketed InvPanic.Idle 0 ops → hashes_fresh ops → txs_ok ops →
  supply (work (init_chain g)) + requested ops < supply_bound →
  ∀ post pre, ops = pre ++ post →
    unbond_gain a (srun (init_chain g) pre) post =
    sumZ (payout_amount <$> owned_by a (payouts (srun (init_chain g) pre) post)).
Proof.
  intros Hg Hbr Hfresh Htx Hb. induction post as [|o r IH]; intros pre E; [reflexivity|].
  cbn [unbond_gain payouts]. rewrite owned_by_app, fmap_app, sumZ_app.
  assert (E' : ops = (pre ++ [o]) ++ r) by (rewrite <- app_assoc; exact E).
  specialize (IH _ E'). rewrite srun_snoc in IH. rewrite IH. f_equal.
  destruct o as [hd|t| |]; try reflexivity.
  cbn [unbond_gain1 payouts1]. destruct (end_block (srun (init_chain g) pre)) as [s' res] eqn:Eend.
  destruct res as [ups|e|pn]; try reflexivity. cbn [fst snd].
  rewrite (payout_step_exact g ops Hg Hbr Hfresh Htx Hb pre r a s' ups E Eend).
  unfold payouts1. rewrite Eend. cbn [snd]. lia.
Qed.

(* C12 over histories, balance side.  For every account [a], along a run from a well-formed genesis
   under input-only hypotheses: the payouts owned by [a] carry pairwise distinct stake hashes, each
   has matured, and the total the unbonding ledger adds to the balance of [a] is exactly
   amountPerPower x power summed over them -- i.e. over the finite map from the DISTINCT matured
   stake hashes [a] owns to the stakes, each counted once. *)
Theorem C12_history g ops a :
  genesis_ok g → InvPanic.bracketed InvPanic.Idle 0 ops → hashes_fresh ops → txs_ok ops →
  supply (work (init_chain g)) + requested ops < supply_bound →
  let P := owned_by a (payouts (init_chain g) ops) in
  NoDup ((λ p : Z * stake, s_hash p.2) <$> P) ∧
  (∀ p, p ∈ P → s_from p.2 = a ∧ s_refund p.2 ≤ p.1) ∧
  unbond_gain a (init_chain g) ops = sumZ ((λ p : Z * stake, amountPerPower * s_power p.2) <$> P) ∧
  ∃ M : gmap hash stake,
    (∀ k st, M !! k = Some st ↔ s_hash st = k ∧ ∃ h, (h, st) ∈ P) ∧
    unbond_gain a (init_chain g) ops =
      sumZ ((λ kv : hash * stake, amountPerPower * s_power kv.2) <$> map_to_list M).
Proof.
  intros Hg Hbr Hfresh Htx Hb P.
  assert (Hnd : NoDup (payout_hash <$> P)).
  { unfold P, owned_by. apply NoDup_fmap_filter. apply (payout_at_most_once g ops Hg Hbr Hfresh Htx Hb). }
  assert (Hgain : unbond_gain a (init_chain g) ops = sumZ (payout_amount <$> P)).
  { apply (unbond_gain_payouts g ops a Hg Hbr Hfresh Htx Hb ops []). reflexivity. }
  split; [exact Hnd|]. split; [|split; [exact Hgain|]].
  - intros [h st] Hp. apply owned_by_elem in Hp as [Hp Ha]. split; [exact Ha|].
    destruct (payouts_elem _ _ _ Hp) as (pre & post & _ & Hp1).
    destruct (payouts1_elem _ _ Hp1) as (_ & Hh & k & _ & Hle). cbn [fst snd] in *. lia.
  - set (L := (λ p : Z * stake, (s_hash p.2, p.2)) <$> P).
    assert (HL1 : L.*1 = payout_hash <$> P) by (unfold L; rewrite <- list_fmap_compose; reflexivity).
    assert (HndL : NoDup L.*1) by (rewrite HL1; exact Hnd).
    exists (list_to_map L). split.
    + intros k st. rewrite <- (elem_of_list_to_map L k st HndL). unfold L. rewrite elem_of_list_fmap. split.
      * intros ([h st'] & [= -> ->] & Hin). split; [reflexivity|]. exists h. exact Hin.
      * intros (<- & h & Hin). exists (h, st). split; [reflexivity|exact Hin].
    + rewrite Hgain. rewrite (sumZ_perm _ _ (fmap_Permutation _ _ _ (map_to_list_to_map L HndL))).
      unfold L. rewrite <- list_fmap_compose. reflexivity.
Qed.
Print Assumptions C12_history.

(* ================================================================== 6. the statements are not vacuous *)
(* InvSupply's example chain: account 3 delegates power 20 to validator 11 in block 1 (transaction
   hash 102), releases it in block 2 (period 1), and is refunded by the EndBlock of block 3 *)
Definition hx_refunded : stake :=
  {| s_from := 3%N; s_to := 11%N; s_hash := 102%N; s_start := 2; s_refund := 3; s_power := 20 |}.

Example payouts_example :
  (* the input-only hypotheses hold *)
  genesis_ok hx_genesis ∧ InvPanic.bracketed InvPanic.Idle 0 hx_ops ∧ hashes_fresh hx_ops ∧ txs_ok hx_ops ∧
  supply (work (init_chain hx_genesis)) + requested hx_ops < supply_bound ∧
  (* the run pays exactly one stake, at height 3 *)
  payouts (init_chain hx_genesis) hx_ops = [(3, hx_refunded)] ∧
  (* 2: once *)
  NoDup ((λ p : Z * stake, s_hash p.2) <$> payouts (init_chain hx_genesis) hx_ops) ∧
  (* 3 and 4: matured, released earlier by an operation of the run, created by a signed staking
     transaction of its owner before that *)
  (∃ pre o mid post,
     hx_ops = pre ++ o :: mid ++ SEnd :: post ∧
     released_by (srun (init_chain hx_genesis) pre) o hx_refunded ∧
     s_refund hx_refunded =
       release_height_of (srun (init_chain hx_genesis) pre) o + g_lazyRewardBlocks (gparams (srun (init_chain hx_genesis) pre)) ∧
     release_height_of (srun (init_chain hx_genesis) pre) o ≤ 3 ∧
     born hx_genesis pre hx_refunded) ∧
  (* 5: account 3 receives 20 x 10^18 from the unbonding ledger over the run, the validator nothing *)
  unbond_gain 3%N (init_chain hx_genesis) hx_ops = 20 * amountPerPower ∧
  unbond_gain 11%N (init_chain hx_genesis) hx_ops = 0.
Proof.
  assert (Hb : supply (work (init_chain hx_genesis)) + requested hx_ops < supply_bound) by (vm_compute; reflexivity).
  assert (HP : payouts (init_chain hx_genesis) hx_ops = [(3, hx_refunded)]) by (vm_compute; reflexivity).
  assert (Hin : (3, hx_refunded) ∈ payouts (init_chain hx_genesis) hx_ops) by (rewrite HP; left).
  split; [exact hx_genesis_ok|]. split; [exact hx_bracketed|]. split; [exact hx_hashes_fresh|].
  split; [exact hx_txs_ok|]. split; [exact Hb|]. split; [exact HP|].
  split; [exact (payout_at_most_once _ _ hx_genesis_ok hx_bracketed hx_hashes_fresh hx_txs_ok Hb)|].
  split.
  - destruct (payout_never_early_and_in_full _ _ _ _ hx_genesis_ok hx_bracketed hx_hashes_fresh hx_txs_ok Hb Hin)
      as (_ & pre & o & mid & post & E & Hrel & Hr & _ & Hle & _). cbv zeta in *.
    exists pre, o, mid, post. split; [exact E|]. split; [exact Hrel|]. split; [exact Hr|]. split; [exact Hle|].
    destruct (released_by_source _ _ _ Hrel) as (st0 & Hin0 & Hid & _).
    apply (born_id _ pre st0 _ Hid). apply bonded_born. exact Hin0.
  - split; vm_compute; reflexivity.
Qed.

(* the same list computed through the theorem: C12_history's map for account 3 has the single key 102 *)
Example C12_history_example :
  ∃ M : gmap hash stake,
    (∀ k st, M !! k = Some st ↔ s_hash st = k ∧ ∃ h, (h, st) ∈ owned_by 3%N (payouts (init_chain hx_genesis) hx_ops)) ∧
    M !! 102%N = Some hx_refunded ∧
    unbond_gain 3%N (init_chain hx_genesis) hx_ops =
      sumZ ((λ kv : hash * stake, amountPerPower * s_power kv.2) <$> map_to_list M).
Proof.
  assert (Hb : supply (work (init_chain hx_genesis)) + requested hx_ops < supply_bound) by (vm_compute; reflexivity).
  destruct (C12_history hx_genesis hx_ops 3%N hx_genesis_ok hx_bracketed hx_hashes_fresh hx_txs_ok Hb)
    as (_ & _ & _ & M & HM & Hsum).
  exists M. split; [exact HM|]. split; [|exact Hsum].
  apply HM. split; [reflexivity|]. exists 3.
  replace (payouts (init_chain hx_genesis) hx_ops) with [(3, hx_refunded)] by (vm_compute; reflexivity).
  cbn. left.
Qed.

(* ================================================================== 7. why [genesis_ok] asks for at most one validator *)
(* All genesis stakes carry hash 0.  With two genesis validators that release their genesis stakes one
   after the other, both stakes are paid -- each once, each to its owner -- but under the same hash:
   "no stake HASH is paid twice" fails, for the documented reason (C11_collision_refuted), and for no
   other: every other hypothesis of [payout_at_most_once] holds on this run. *)
Definition two_val_ops : list sop :=
  [SBegin (ex_header 1); SDeliver (ex_unstake 1%N 0%N 0 101%N); SEnd; SCommit;
   SBegin (ex_header 2); SEnd; SCommit;
   SBegin (ex_header 3); SEnd; SCommit;
   SBegin (ex_header 4); SDeliver (ex_unstake 2%N 0%N 0 102%N); SEnd; SCommit;
   SBegin (ex_header 5); SEnd; SCommit;
   SBegin (ex_header 6); SEnd; SCommit].

Theorem payout_at_most_once_two_validators_refuted : ∃ g ops,
  length (gen_validators g) = 2%nat ∧ params_ok (gen_params g) ∧
  Forall (λ v : addr * Z, 0 ≤ v.2 < two63) (gen_validators g) ∧
  Forall (λ h : addr * Z, 0 ≤ h.2 < two256) (gen_holders g) ∧
  InvPanic.bracketed InvPanic.Idle 0 ops ∧ hashes_fresh ops ∧ txs_ok ops ∧
  supply (work (init_chain g)) + requested ops < supply_bound ∧
  all_ok (init_chain g) ops = true ∧
  payouts (init_chain g) ops =
    [(3, with_refund 3 (genesis_stake (1%N, 10))); (6, with_refund 6 (genesis_stake (2%N, 10)))] ∧
  ¬ NoDup ((λ p : Z * stake, s_hash p.2) <$> payouts (init_chain g) ops).
Proof.
  exists collision_genesis, two_val_ops.
  assert (HP : payouts (init_chain collision_genesis) two_val_ops =
    [(3, with_refund 3 (genesis_stake (1%N, 10))); (6, with_refund 6 (genesis_stake (2%N, 10)))]) by (vm_compute; reflexivity).
  split; [reflexivity|]. split; [zc|].
  split; [repeat apply Forall_cons_2; try apply Forall_nil_2; zc|].
  split; [repeat apply Forall_cons_2; try apply Forall_nil_2; zc|].
  split.
  { unfold two_val_ops. cbn [InvPanic.bracketed].
    repeat match goal with
    | |- _ ∧ _ => split
    | |- InvPanic.tx_ok _ => split; [zc|split; [intros _; eexists _, _; reflexivity|split; exact I]]
    | |- _ = _ => reflexivity
    | |- _ → _ => let H := fresh in intros H; first [lia|exfalso; apply H; reflexivity]
    | |- True => exact I
    end. }
  split. { unfold hashes_fresh. replace (stake_hashes two_val_ops) with (@nil hash) by reflexivity. apply NoDup_singleton. }
  split.
  { unfold txs_ok, two_val_ops. repeat apply Forall_cons_2; try exact I; try apply Forall_nil_2;
      (split; [zc|split; [|reflexivity]]); intros req Hty Hp; discriminate Hty. }
  split; [vm_compute; reflexivity|]. split; [vm_compute; reflexivity|]. split; [exact HP|].
  rewrite HP. cbn. intros Hnd. apply NoDup_cons in Hnd as [Hnin _]. apply Hnin. left.
Qed.
Print Assumptions payout_at_most_once_two_validators_refuted.
