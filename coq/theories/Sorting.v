(* Sorting.v — uniqueness of the sorted permutation under a strict total order.

   Go's sort.Sort is not stable and its algorithm (pdqsort) is not modelled.  What sort.Sort
   guarantees (for a Less that is a strict weak order) is only that the result is a permutation
   of the input on which sort.IsSorted holds, i.e. no element is Less than its predecessor
   ([go_sorted] below).  This file proves that this is enough: if Less is a strict total order on
   the elements of the list, there is exactly one such result, and it is the one computed by the
   insertion sort [isort] that the model uses. *)
From Coq Require Import List Bool Sorted Permutation Lia.
From Coq Require Import RelationClasses.
Import ListNotations.

Section StrictOrder.
  Variable A : Type.
  Variable lt : A -> A -> bool.
  Hypothesis lt_irrefl : forall a, lt a a = false.
  Hypothesis lt_trans : forall a b c, lt a b = true -> lt b c = true -> lt a c = true.

  Definition ltP (a b : A) : Prop := lt a b = true.
  (* "b is not Less than a": the relation sort.IsSorted checks between neighbours *)
  Definition geP (a b : A) : Prop := lt b a = false.

  Lemma lt_asym a b : lt a b = true -> lt b a = false.
  Proof.
    intros Hab. destruct (lt b a) eqn:Hba; [|reflexivity].
    pose proof (lt_irrefl a) as Hi.
    rewrite (lt_trans _ _ _ Hab Hba) in Hi. discriminate Hi.
  Qed.

  (* ---- uniqueness: needs only irreflexivity and transitivity ---- *)

  Theorem sorted_perm_unique (l1 l2 : list A) :
    StronglySorted ltP l1 -> StronglySorted ltP l2 -> Permutation l1 l2 -> l1 = l2.
  Proof.
    revert l2. induction l1 as [|a l1 IH]; intros l2 Hs1 Hs2 Hp.
    - apply Permutation_nil in Hp. symmetry; exact Hp.
    - destruct l2 as [|b l2].
      + symmetry in Hp. apply Permutation_nil in Hp. discriminate Hp.
      + apply StronglySorted_inv in Hs1. destruct Hs1 as [Hs1 Hf1].
        apply StronglySorted_inv in Hs2. destruct Hs2 as [Hs2 Hf2].
        assert (Hab : a = b).
        { assert (Ha : In a (b :: l2)) by (eapply Permutation_in; [exact Hp | left; reflexivity]).
          assert (Hb : In b (a :: l1))
            by (eapply Permutation_in; [symmetry; exact Hp | left; reflexivity]).
          destruct Ha as [Ha | Ha]; [symmetry; exact Ha|].
          destruct Hb as [Hb | Hb]; [exact Hb|].
          rewrite Forall_forall in Hf1, Hf2.
          pose proof (Hf1 _ Hb) as H1. pose proof (Hf2 _ Ha) as H2.
          unfold ltP in H1, H2. pose proof (lt_asym _ _ H1) as H3.
          rewrite H2 in H3. discriminate H3. }
        subst b. f_equal. apply IH; try assumption.
        eapply Permutation_cons_inv; exact Hp.
  Qed.

  Instance ltP_trans : Transitive ltP.
  Proof. intros a b c. unfold ltP. apply lt_trans. Qed.

  (* the same for the neighbour-wise ("locally sorted") notion *)
  Theorem sorted_perm_unique_local (l1 l2 : list A) :
    Sorted ltP l1 -> Sorted ltP l2 -> Permutation l1 l2 -> l1 = l2.
  Proof.
    intros H1 H2. apply sorted_perm_unique; apply Sorted_StronglySorted; auto; exact ltP_trans.
  Qed.

  Theorem sorted_perm_unique_LocallySorted (l1 l2 : list A) :
    LocallySorted ltP l1 -> LocallySorted ltP l2 -> Permutation l1 l2 -> l1 = l2.
  Proof.
    intros H1 H2. apply sorted_perm_unique_local; apply Sorted_LocallySorted_iff; assumption.
  Qed.

  (* ---- what Go's sort.Sort guarantees, and why that is the same under totality ---- *)

  Definition go_sorted (l : list A) : Prop := Sorted geP l.

  (* totality on the elements of a list (the orders of ValSet.v are total only on lists of
     delegatees with pairwise distinct addresses) *)
  Definition total_on (l : list A) : Prop :=
    forall a b, In a l -> In b l -> a <> b -> lt a b = true \/ lt b a = true.

  Lemma total_on_perm l l' : Permutation l l' -> total_on l -> total_on l'.
  Proof.
    intros Hp Ht a b Ha Hb. apply Ht; eapply Permutation_in; try (symmetry; exact Hp); assumption.
  Qed.

  Lemma total_on_tail a l : total_on (a :: l) -> total_on l.
  Proof. intros Ht x y Hx Hy. apply Ht; right; assumption. Qed.

  Lemma go_sorted_strong (l : list A) :
    NoDup l -> total_on l -> go_sorted l -> StronglySorted ltP l.
  Proof.
    unfold go_sorted. induction l as [|a l IH]; intros Hnd Ht Hs.
    - constructor.
    - apply Sorted_inv in Hs. destruct Hs as [Hs Hhd].
      pose proof (NoDup_cons_iff a l) as Hnc. apply Hnc in Hnd. destruct Hnd as [Hna Hnd].
      pose proof (IH Hnd (total_on_tail _ _ Ht) Hs) as Hss.
      constructor; [exact Hss|].
      destruct l as [|b l]; [constructor|].
      apply HdRel_inv in Hhd. unfold geP in Hhd.
      assert (Hab : lt a b = true).
      { destruct (Ht a b) as [H|H].
        - left; reflexivity.
        - right; left; reflexivity.
        - intros ->. apply Hna. left; reflexivity.
        - exact H.
        - rewrite H in Hhd. discriminate Hhd. }
      constructor; [exact Hab|].
      apply StronglySorted_inv in Hss. destruct Hss as [_ Hfb].
      rewrite Forall_forall in Hfb |- *. intros x Hx.
      unfold ltP in *. eapply lt_trans; [exact Hab | apply Hfb; exact Hx].
  Qed.

  Lemma strong_go_sorted (l : list A) : StronglySorted ltP l -> go_sorted l.
  Proof.
    intros Hs. apply StronglySorted_Sorted in Hs. unfold go_sorted.
    induction Hs as [|a l Hs IH Hhd]; constructor; [exact IH|].
    destruct Hhd as [|b l Hab]; constructor. unfold geP. apply lt_asym. exact Hab.
  Qed.

  Theorem go_sorted_perm_unique (l1 l2 : list A) :
    NoDup l1 -> total_on l1 ->
    go_sorted l1 -> go_sorted l2 -> Permutation l1 l2 -> l1 = l2.
  Proof.
    intros Hnd Ht H1 H2 Hp. apply sorted_perm_unique; [| |exact Hp].
    - apply go_sorted_strong; assumption.
    - apply go_sorted_strong; [|eapply total_on_perm; eassumption|assumption].
      eapply Permutation_NoDup; eassumption.
  Qed.

  (* ---- the sort used by the model: insertion sort ---- *)

  Fixpoint insert (x : A) (l : list A) : list A :=
    match l with
    | [] => [x]
    | y :: r => if lt y x then y :: insert x r else x :: y :: r
    end.

  Fixpoint isort (l : list A) : list A :=
    match l with
    | [] => []
    | x :: r => insert x (isort r)
    end.

  Lemma insert_perm x l : Permutation (insert x l) (x :: l).
  Proof.
    induction l as [|y r IH]; simpl.
    - apply Permutation_refl.
    - destruct (lt y x).
      + eapply perm_trans; [apply perm_skip; exact IH | apply perm_swap].
      + apply Permutation_refl.
  Qed.

  Theorem isort_perm l : Permutation (isort l) l.
  Proof.
    induction l as [|x r IH]; simpl.
    - constructor.
    - eapply perm_trans; [apply insert_perm | apply perm_skip; exact IH].
  Qed.

  Lemma insert_go_sorted x l : go_sorted l -> go_sorted (insert x l).
  Proof.
    unfold go_sorted. induction l as [|y r IH]; intros Hs; simpl.
    - repeat constructor.
    - apply Sorted_inv in Hs. destruct Hs as [Hs Hhd].
      destruct (lt y x) eqn:Hyx.
      + constructor; [apply IH; exact Hs|].
        destruct r as [|z r]; simpl.
        * constructor. unfold geP. apply lt_asym. exact Hyx.
        * apply HdRel_inv in Hhd.
          destruct (lt z x); constructor; [exact Hhd|].
          unfold geP. apply lt_asym. exact Hyx.
      + constructor; [constructor; assumption|]. constructor. exact Hyx.
  Qed.

  Theorem isort_go_sorted l : go_sorted (isort l).
  Proof.
    induction l as [|x r IH]; simpl.
    - constructor.
    - apply insert_go_sorted. exact IH.
  Qed.

  Theorem isort_sorted l : NoDup l -> total_on l -> StronglySorted ltP (isort l).
  Proof.
    intros Hnd Ht. apply go_sorted_strong.
    - eapply Permutation_NoDup; [symmetry; apply isort_perm | exact Hnd].
    - eapply total_on_perm; [symmetry; apply isort_perm | exact Ht].
    - apply isort_go_sorted.
  Qed.

  (* Any correct sort (a permutation of the input on which sort.IsSorted holds) returns isort l. *)
  Theorem sort_unique (l l' : list A) :
    NoDup l -> total_on l -> Permutation l' l -> go_sorted l' -> l' = isort l.
  Proof.
    intros Hnd Ht Hp Hs. symmetry. apply go_sorted_perm_unique.
    - eapply Permutation_NoDup; [symmetry; apply isort_perm | exact Hnd].
    - eapply total_on_perm; [symmetry; apply isort_perm | exact Ht].
    - apply isort_go_sorted.
    - exact Hs.
    - eapply perm_trans; [apply isort_perm | symmetry; exact Hp].
  Qed.

  Corollary isort_id l : StronglySorted ltP l -> isort l = l.
  Proof.
    intros Hs.
    apply sorted_perm_unique_local.
    - (* isort l is sorted: it is a go_sorted permutation of a strongly sorted list *)
      assert (Hnd : NoDup l).
      { clear -Hs lt_irrefl. induction Hs as [|a l Hs IH Hf]; constructor; [|exact IH].
        intros Hin. rewrite Forall_forall in Hf. pose proof (Hf _ Hin) as H.
        unfold ltP in H. rewrite lt_irrefl in H. discriminate H. }
      assert (Ht : total_on l).
      { clear -Hs. induction Hs as [|a l Hs IH Hf]; intros x y Hx Hy Hxy.
        - destruct Hx.
        - rewrite Forall_forall in Hf. destruct Hx as [<-|Hx], Hy as [<-|Hy].
          + contradiction Hxy; reflexivity.
          + left. apply Hf. exact Hy.
          + right. apply Hf. exact Hx.
          + apply IH; assumption. }
      apply StronglySorted_Sorted. apply isort_sorted; assumption.
    - apply StronglySorted_Sorted. exact Hs.
    - apply isort_perm.
  Qed.

  (* ---- the statement for an order that is total on the whole type ---- *)
  Section Total.
    Hypothesis lt_total : forall a b, a <> b -> lt a b = true \/ lt b a = true.

    Lemma total_on_all l : total_on l.
    Proof. intros a b _ _. apply lt_total. Qed.

    Theorem isort_sorted_total l : NoDup l -> StronglySorted ltP (isort l).
    Proof. intros Hnd. apply isort_sorted; [exact Hnd | apply total_on_all]. Qed.

    Theorem sort_unique_total (l l' : list A) :
      NoDup l -> Permutation l' l -> go_sorted l' -> l' = isort l.
    Proof. intros Hnd. apply sort_unique; [exact Hnd | apply total_on_all]. Qed.
  End Total.
End StrictOrder.

Print Assumptions sorted_perm_unique.
Print Assumptions sorted_perm_unique_local.
Print Assumptions go_sorted_perm_unique.
Print Assumptions isort_perm.
Print Assumptions isort_sorted.
Print Assumptions sort_unique.
Print Assumptions sort_unique_total.
