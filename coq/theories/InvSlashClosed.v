(* InvSlashClosed.v — property C14 (slashing for misbehaviour evidence, downtime jailing) stated over
   WHOLE RUNS with hypotheses on the INPUTS only.

   Props/C14.v states the property per step, with hypotheses about the state the step starts from
   (distinct stake hashes inside a delegatee, slash ratio in 0..100, strictly increasing miss marks,
   non-negative window parameter, non-negative stake powers, voter powers in the int64 range).  Here
   every one of them is discharged from the reachability theorems of InvReach / InvClosed / InvStake /
   InvSlash, so that the statements quantify over a genesis document [g], a list of operations [pre]
   and the header [hd] of the next BeginBlock, and assume only

     genesis_ok g, hashes_fresh pre, opts_ok pre, blocks Idle 0 (pre ++ [SBegin hd])

   plus, for the jailing theorem, two conditions on the header: the reported non-signers are pairwise
   distinct, and votes are carried only from height 2 on.  Neither the supply bound, nor [txs_ok]
   (so successful EVM executions are allowed), nor any hypothesis on intermediate states is needed:
     C14_run_slash_exact       every stake of a named validator cut once per evidence item
     C14_run_others_untouched  the frame
     C14_run_jail_iff          a delegatee leaves iff non-signer with too few signed blocks; unbonding ledger
     C14_run_voters            voting weights in open proposals (voter powers are int64 in every state:
                               [vp_inv_run_open], from the overflow check of staking, [totals_run])
   [C14_closed_*] restate them under the hypotheses of the closed-run theorems of InvReach / InvClosed
   (genesis_ok, InvPanic.bracketed, hashes_fresh, txs_ok, supply + requested < supply_bound).

   [blocks] is the bracketing Begin Deliver* End Commit with consecutive heights and nothing else: it
   is what makes "the height of the header is the next one" a statement about the list.
   C14_run_example: the hypotheses are satisfiable and the conclusions are the computed values.
   C14_jailed_same_block_set_refuted: "leaves the validator set" is not immediate. *)
From Coq Require Import ZifyBool ZifyNat ZifyN.
From Rigo Require Import Base.
From stdpp Require Import gmap sorting.
From Rigo Require Import Spec SpecProps.
From Rigo Require InvFail InvNonce InvReward InvGov InvPanic InvValSet.
From Rigo Require Import InvStake InvFee InvSupply InvReach InvClosed InvSlash.
Local Open Scope Z_scope.

Local Opaque two256 two255 two64 two63.

(* ================================================================== 0. the height of the next block, from the list *)
(* Begin, Deliver*, End, Commit; block n+1 follows block n.  Nothing is asked of the transactions
   or of the headers beyond their height (InvPanic.bracketed asks more and implies this). *)
Fixpoint blocks (ph : InvPanic.phase) (n : Z) (ops : list sop) : Prop :=
  match ops with
  | [] => True
  | o :: r =>
      match ph, o with
      | InvPanic.Idle, SBegin hd => h_height hd = n + 1 ∧ blocks InvPanic.InBlock n r
      | InvPanic.InBlock, SDeliver _ => blocks InvPanic.InBlock n r
      | InvPanic.InBlock, SEnd => blocks InvPanic.Ended n r
      | InvPanic.Ended, SCommit => blocks InvPanic.Idle (n + 1) r
      | _, _ => False
      end
  end.

Lemma bracketed_blocks ops : ∀ ph n, InvPanic.bracketed ph n ops → blocks ph n ops.
Proof.
  induction ops as [|o r IH]; intros ph n H; [exact I|].
  destruct ph, o as [hd|t| |]; cbn [InvPanic.bracketed blocks] in *; try contradiction.
  - destruct H as (H1 & _ & H2). split; [exact H1|apply IH; exact H2].
  - destruct H as (_ & H2). apply IH; exact H2.
  - apply IH; exact H.
  - apply IH; exact H.
Qed.

Lemma blocks_prefix l k : ∀ ph n, blocks ph n (l ++ k) → blocks ph n l.
Proof.
  induction l as [|o r IH]; intros ph n H; [exact I|].
  destruct ph, o as [hd|t| |]; cbn [app blocks] in *; try contradiction.
  - destruct H as (H1 & H2). split; [exact H1|eapply IH; exact H2].
  - eapply IH; exact H.
  - eapply IH; exact H.
  - eapply IH; exact H.
Qed.

(* what the bracketing keeps about the two heights of the state *)
Definition hinv (ph : InvPanic.phase) (n : Z) (s : state) : Prop :=
  last_height s = n ∧ (ph ≠ InvPanic.Idle → b_height (bctx s) = n + 1).

Lemma blocks_next_height ops : ∀ ph n s hd,
  hinv ph n s → blocks ph n (ops ++ [SBegin hd]) → h_height hd = last_height (srun s ops) + 1.
Proof.
  induction ops as [|o r IH]; intros ph n s hd [Hl Hb] H.
  - destruct ph; cbn [app blocks] in H; try contradiction. destruct H as [H _]. cbn. lia.
  - change (srun s (o :: r)) with (srun (sstep s o) r).
    destruct ph, o as [hd0|t| |]; cbn [app blocks] in H; try contradiction; cbn [sstep].
    + destruct H as (Hh & H). apply (IH InvPanic.InBlock n); [|exact H].
      destruct (begin_block s hd0) as [s' r0] eqn:E. cbn [fst].
      destruct (begin_block_frame _ _ _ _ E) as [_ Heq].
      destruct (Heq ltac:(lia)) as (_ & _ & _ & _ & L & B & _). split; [lia|]. intros _. rewrite B. cbn. lia.
    + apply (IH InvPanic.InBlock n); [|exact H].
      destruct (deliver s t) as [s' r0] eqn:E. cbn [fst].
      destruct (InvGov.deliver_inv _ _ _ _ E) as ((_ & _ & _ & _ & _ & B & _ & L) & _).
      split; [lia|]. intros _. rewrite B. apply Hb. discriminate.
    + apply (IH InvPanic.Ended n); [|exact H].
      destruct (end_block s) as [s' r0] eqn:E. cbn [fst].
      destruct (InvGov.end_block_inv _ _ _ E) as (_ & _ & B & L & _).
      split; [lia|]. intros _. rewrite B. apply Hb. discriminate.
    + apply (IH InvPanic.Idle (n + 1)); [|exact H].
      split; [|intros C; contradiction]. cbn. apply Hb. discriminate.
Qed.

Lemma init_chain_hinv g : hinv InvPanic.Idle 0 (init_chain g).
Proof. split; [reflexivity|intros C; contradiction]. Qed.

(* the header of a BeginBlock that continues a bracketed list carries the next height *)
Lemma blocks_height g pre hd :
  blocks InvPanic.Idle 0 (pre ++ [SBegin hd]) → h_height hd = last_height (srun (init_chain g) pre) + 1.
Proof. apply blocks_next_height, init_chain_hinv. Qed.

Lemma blocks_height_pos pre hd : blocks InvPanic.Idle 0 (pre ++ [SBegin hd]) → 1 ≤ h_height hd.
Proof.
  intros H.
  assert (G : ∀ ops ph n, 0 ≤ n → blocks ph n (ops ++ [SBegin hd]) → 1 ≤ h_height hd).
  { induction ops as [|o r IH]; intros ph n Hn Hb.
    - destruct ph; cbn [app blocks] in Hb; try contradiction. lia.
    - destruct ph, o as [hd0|t| |]; cbn [app blocks] in Hb; try contradiction.
      + destruct Hb as [_ Hb]. eapply IH; [|exact Hb]. lia.
      + eapply IH; [|exact Hb]. lia.
      + eapply IH; [|exact Hb]. lia.
      + eapply IH; [|exact Hb]. lia. }
  apply (G pre InvPanic.Idle 0); [lia|exact H].
Qed.

(* ... and as many ledger versions have been committed as blocks were completed *)
Lemma blocks_committed ops : ∀ ph n s hd,
  Z.of_nat (length (committed s)) = n → blocks ph n (ops ++ [SBegin hd]) →
  Z.of_nat (length (committed (srun s ops))) = h_height hd - 1.
Proof.
  induction ops as [|o r IH]; intros ph n s hd Hc H.
  - destruct ph; cbn [app blocks] in H; try contradiction. destruct H as [H _]. cbn. lia.
  - change (srun s (o :: r)) with (srun (sstep s o) r).
    destruct ph, o as [hd0|t| |]; cbn [app blocks] in H; try contradiction; cbn [sstep].
    + destruct H as (_ & H). apply (IH InvPanic.InBlock n); [|exact H].
      destruct (begin_block s hd0) as [s' r0] eqn:E. cbn [fst].
      destruct (InvGov.begin_block_inv _ _ _ _ E) as (A & _). rewrite A. exact Hc.
    + apply (IH InvPanic.InBlock n); [|exact H].
      destruct (deliver s t) as [s' r0] eqn:E. cbn [fst].
      destruct (InvGov.deliver_inv _ _ _ _ E) as ((A & _) & _). rewrite A. exact Hc.
    + apply (IH InvPanic.Ended n); [|exact H].
      destruct (end_block s) as [s' r0] eqn:E. cbn [fst].
      destruct (InvGov.end_block_inv _ _ _ E) as (A & _). rewrite A. exact Hc.
    + apply (IH InvPanic.Idle (n + 1)); [|exact H]. cbn [commit committed]. rewrite app_length. cbn. lia.
Qed.

(* BeginBlock answers Ok in every state of every bracketed run when its header carries votes only
   from height 2 on (consensus has no LastCommitInfo at height 1): the height is the next one, the
   ledger version the voting power refers to has been committed, and the reward-height panic is
   unreachable (InvReward.begin_block_total).  No hypothesis on genesis or transactions. *)
Lemma blocks_begin_ok g pre hd :
  blocks InvPanic.Idle 0 (pre ++ [SBegin hd]) → (h_votes hd = [] ∨ 2 ≤ h_height hd) →
  ∃ iss, (begin_block (srun (init_chain g) pre) hd).2 = Ok iss.
Proof.
  intros Hb Hv. set (s := srun (init_chain g) pre).
  pose proof (blocks_height g pre hd Hb) as Hh. fold s in Hh.
  pose proof (blocks_committed pre InvPanic.Idle 0 (init_chain g) hd eq_refl Hb) as Hc. fold s in Hc.
  apply InvReward.begin_block_total; [apply InvReward.rewards_height_ok_run|exact Hh|].
  destruct Hv as [Hv|Hv]; [left; exact Hv|right].
  unfold ledgers_at, hgt_of_power.
  destruct (h_height hd - 4 <=? 0) eqn:E4.
  - destruct (Z.of_nat (length (committed s)) <? 1) eqn:E1; [lia|]. cbn.
    destruct (committed s) as [|x c]; [cbn in Hc; lia|]. discriminate.
  - destruct (Z.of_nat (length (committed s)) <? h_height hd - 4) eqn:E1; [lia|].
    destruct (h_height hd - 4 <=? 0) eqn:E0; [lia|].
    intros Hn. apply lookup_ge_None in Hn. lia.
Qed.

(* ================================================================== 1. what holds in every reachable state *)
(* the per-step hypotheses of Props/C14.v, from hypotheses on genesis and list *)
Lemma reach_A g pre :
  genesis_ok g → hashes_fresh pre → opts_ok pre →
  let s := srun (init_chain g) pre in
  hu_pt (work s) ∧ dels_ok (work s) ∧ powers_ok (work s) ∧ params_ok (gparams s) ∧ marks_incr (work s).
Proof.
  intros Hg Hh Ho s.
  destruct (run_ok_reachable g pre Hg (fresh_run_reachable g pre Hh) Ho pre (reflexivity _)) as (Hu & _ & Hp & Hpar).
  split; [apply hashes_unique_pt; exact Hu|]. split; [apply (dels_ok_reachable g pre)|].
  split; [exact Hp|]. split; [exact Hpar|apply marks_incr_run].
Qed.

Lemma powers_ok_delegatee l a d :
  powers_ok l → dels l !! a = Some d → Forall (λ st, 0 ≤ s_power st < two63) (d_stakes d).
Proof.
  intros Hp Hd. apply Forall_forall. intros st Hst. apply Hp, elem_of_app. left.
  apply InvStake.elem_of_bonded. eauto.
Qed.

(* ================================================================== 2. n evidence items against one delegatee *)
(* the delegatee [d] stored under [a] after [n] evidence items: each item passes the stake list
   through [slash_kept] (every stake loses floor(power*ratio/100); a stake that would lose less than
   1 is forfeited), self and total power are the sums over what is left, the miss marks stay *)
Definition slashed_n (ratio : Z) (n : nat) (a : addr) (d : delegatee) : delegatee :=
  let kept := Nat.iter n (slash_kept ratio) (d_stakes d) in
  {| d_addr := a; d_self := sum_power_of a kept; d_total := sum_power kept; d_stakes := kept; d_marks := d_marks d |}.

Lemma slash_kept_iter_ok ratio n l :
  0 ≤ ratio ≤ 100 → Forall (λ st, 0 ≤ s_power st < two63) l → NoDup (s_hash <$> l) →
  Forall (λ st, 0 ≤ s_power st < two63) (Nat.iter n (slash_kept ratio) l) ∧
  NoDup (s_hash <$> Nat.iter n (slash_kept ratio) l).
Proof.
  intros Hr Hp Hn. induction n as [|n [IH1 IH2]]; [split; assumption|]. cbn [Nat.iter].
  split; [apply slash_kept_powers; assumption|apply slash_kept_NoDup; assumption].
Qed.

(* every stake left after n cuts descends from a stake of the original list with the same hash *)
Lemma slash_kept_iter_hash ratio n l st :
  st ∈ Nat.iter n (slash_kept ratio) l → ∃ st0, st0 ∈ l ∧ s_hash st0 = s_hash st.
Proof.
  revert st. induction n as [|n IH]; intros st Hst; [eauto|]. cbn [Nat.iter] in Hst.
  apply elem_of_list_In, slash_kept_elem in Hst as (st1 & H1 & _ & ->).
  apply elem_of_list_In, IH in H1 as (st0 & H0 & E). exists st0. split; [exact H0|]. rewrite E. reflexivity.
Qed.

Lemma slashed_n_0 ratio a d : delegatee_ok a d → slashed_n ratio 0 a d = d.
Proof.
  intros (Ha & Ht & Hs & _). destruct d as [da ds dt dst dm]. cbn in *. subst. reflexivity.
Qed.

Lemma slash1_iter ratio n a d :
  0 ≤ ratio ≤ 100 → delegatee_ok a d → Forall (λ st, 0 ≤ s_power st < two63) (d_stakes d) →
  NoDup (s_hash <$> d_stakes d) →
  Nat.iter n (slash1 ratio) d = slashed_n ratio n a d.
Proof.
  intros Hr Hok Hp Hn. induction n as [|n IH]; [symmetry; apply slashed_n_0; exact Hok|].
  rewrite Nat.iter_succ, IH. unfold slash1.
  destruct (slash_kept_iter_ok ratio n (d_stakes d) Hr Hp Hn) as [K1 K2].
  rewrite slash_all_spec; [reflexivity|lia| |exact K2].
  cbn [slashed_n d_stakes]. eapply Forall_impl; [exact K1|]. intros st Hst. cbn in Hst. lia.
Qed.

(* the ledgers BeginBlock hands to the vote loop: proposals punished, then stakes punished *)
Definition punished (s : state) (hd : header) : ledgers :=
  stake_punish (gov_punish (work s) (g_slashRatio (gparams s)) (h_evidence hd)) (g_slashRatio (gparams s)) (h_evidence hd).

(* the delegatee stored under [a] after the evidence of header [hd] has been applied in state [s] *)
Definition after_evidence (s : state) (hd : header) (a : addr) (d : delegatee) : delegatee :=
  slashed_n (g_slashRatio (gparams s)) (times a (h_evidence hd)) a d.

Lemma punished_dels s hd a :
  0 ≤ g_slashRatio (gparams s) ≤ 100 → hu_pt (work s) → dels_ok (work s) → powers_ok (work s) →
  dels (punished s hd) !! a = after_evidence s hd a <$> dels (work s) !! a.
Proof.
  intros Hr (U1 & _) Hok Hp. unfold punished.
  destruct (stake_punish_spec (gov_punish (work s) (g_slashRatio (gparams s)) (h_evidence hd))
              (g_slashRatio (gparams s)) (h_evidence hd)) as (H & _).
  rewrite H. destruct (gov_punish_spec (work s) (g_slashRatio (gparams s)) (h_evidence hd)) as (_ & _ & -> & _).
  destruct (dels (work s) !! a) as [d|] eqn:Ed; [|reflexivity]. cbn [fmap option_fmap option_map]. f_equal.
  apply slash1_iter; [exact Hr|apply (Hok a d Ed)|eapply powers_ok_delegatee; eassumption|apply (U1 a d Ed)].
Qed.

Lemma punished_frame s hd :
  accts (punished s hd) = accts (work s) ∧ frozen (punished s hd) = frozen (work s) ∧
  rewards (punished s hd) = rewards (work s) ∧ fprops (punished s hd) = fprops (work s) ∧
  lparams (punished s hd) = lparams (work s) ∧
  props (punished s hd) = punish_props (g_slashRatio (gparams s)) (props (work s)) (h_evidence hd).
Proof. unfold punished. rewrite stake_punish_eq, gov_punish_eq. cbn. repeat split. Qed.

(* an address that is not among the votes marked "did not sign" *)
Definition nonsigners (votes : list (addr * Z * bool)) : list addr :=
  (λ v : addr * Z * bool, v.1.1) <$> List.filter (λ v : addr * Z * bool, negb v.2) votes.

Lemma elem_of_nonsigners a votes : a ∈ nonsigners votes ↔ ∃ pw, (a, pw, false) ∈ votes.
Proof.
  unfold nonsigners. rewrite elem_of_list_fmap. split.
  - intros ([[b pw] sg] & -> & Hin). apply elem_of_list_In, filter_In in Hin as [Hin Hs]. cbn in Hs.
    destruct sg; [discriminate|]. exists pw. apply elem_of_list_In. exact Hin.
  - intros (pw & Hin). exists (a, pw, false). split; [reflexivity|].
    apply elem_of_list_In, filter_In. split; [apply elem_of_list_In; exact Hin|reflexivity].
Qed.

Lemma jail_votes_nonsigners g h votes : ∀ l, jail_votes g h l votes = foldl (λ l a, jail_step g h l a) l (nonsigners votes).
Proof.
  unfold jail_votes, nonsigners. induction votes as [|[[a pw] sg] votes IH]; intros l; [reflexivity|].
  destruct sg; cbn; apply IH.
Qed.

(* ------------------------------------------------------------------ the vote loop never adds a delegatee, and changes only marks *)
Definition same_but_marks (d d' : delegatee) : Prop :=
  d_addr d' = d_addr d ∧ d_self d' = d_self d ∧ d_total d' = d_total d ∧ d_stakes d' = d_stakes d.

Lemma jail_step_marks_only g h l b a d1 :
  dels (jail_step g h l b) !! a = Some d1 → ∃ d0, dels l !! a = Some d0 ∧ same_but_marks d0 d1.
Proof.
  unfold jail_step. destruct (dels l !! b) as [d|] eqn:Ed.
  2:{ intros H. exists d1. split; [exact H|repeat split]. }
  cbv zeta. destruct (count_in_window _ _ _) as [cnt m2].
  destruct (_ <? g_minSignedBlocks g); cbn [dels set_dels set_frozen]; intros H.
  - apply lookup_delete_Some in H as [_ H]. exists d1. split; [exact H|repeat split].
  - apply lookup_insert_Some in H as [[<- <-]|[_ H]].
    + exists d. split; [exact Ed|repeat split].
    + exists d1. split; [exact H|repeat split].
Qed.

Lemma jail_fold_marks_only g h L : ∀ l a d',
  dels (foldl (λ l a, jail_step g h l a) l L) !! a = Some d' → ∃ d0, dels l !! a = Some d0 ∧ same_but_marks d0 d'.
Proof.
  induction L as [|b L IH]; intros l a d' H; cbn [foldl] in H.
  - exists d'. split; [exact H|repeat split].
  - apply IH in H as (d1 & H1 & (A1 & A2 & A3 & A4)).
    apply jail_step_marks_only in H1 as (d0 & H0 & (B1 & B2 & B3 & B4)).
    exists d0. split; [exact H0|]. repeat split; congruence.
Qed.

(* the vote loop when no vote is marked as signed: nothing is issued, rewards are untouched *)
Lemma vote_fold_unsigned s old h votes : ∀ l i,
  Forall (λ v : addr * Z * bool, v.2 = false) votes →
  foldl (InvReward.vote_step s old h) (Ok (l, i)) votes = Ok (jail_votes (gparams s) h l votes, i).
Proof.
  induction votes as [|[[a pw] sg] votes IH]; intros l i H; [reflexivity|].
  apply Forall_cons in H as [Hs H]. cbn in Hs. subst sg. cbn [foldl].
  rewrite vote_step_unsigned. rewrite IH by exact H. reflexivity.
Qed.

(* ------------------------------------------------------------------ BeginBlock with the next height, in terms of [punished] *)
Lemma begin_block_cases s hd :
  h_height hd = last_height s + 1 →
  let s' := (begin_block s hd).1 in
  committed s' = committed s ∧ gparams s' = gparams s ∧ newparams s' = newparams s ∧
  lastvals s' = lastvals s ∧ last_height s' = last_height s ∧
  bctx s' = {| b_height := h_height hd; b_proposer := h_proposer hd; b_feesum := 0; b_txs := 0 |} ∧
  accts (work s') = accts (work s) ∧ fprops (work s') = fprops (work s) ∧ lparams (work s') = lparams (work s) ∧
  props (work s') = punish_props (g_slashRatio (gparams s)) (props (work s)) (h_evidence hd) ∧
  match (begin_block s hd).2 with
  | Ok _ => dels (work s') = dels (jail_votes (gparams s) (h_height hd) (punished s hd) (h_votes hd)) ∧
            frozen (work s') = frozen (jail_votes (gparams s) (h_height hd) (punished s hd) (h_votes hd))
  | _ => dels (work s') = dels (punished s hd) ∧ frozen (work s') = frozen (work s) ∧
         rewards (work s') = rewards (work s)
  end.
Proof.
  intros Hh. destruct (begin_block s hd) as [s' r] eqn:E. cbn [fst snd].
  destruct (begin_block_frame _ _ _ _ E) as [_ H]. specialize (H Hh).
  destruct H as (A1 & A2 & A3 & A4 & A5 & A6 & A7 & A8 & A9 & A10 & _ & A12 & A13).
  repeat (split; [assumption|]). unfold punished.
  destruct r as [i|e|p]; [exact A13| |]; destruct A13 as (B1 & B2 & B3); (split; [exact B1|split; [congruence|exact B3]]).
Qed.

Lemma begin_block_rewards_unsigned s hd :
  h_height hd = last_height s + 1 → Forall (λ v : addr * Z * bool, v.2 = false) (h_votes hd) →
  rewards (work (begin_block s hd).1) = rewards (work s).
Proof.
  intros Hh Hv. pose proof (begin_block_cases s hd Hh) as C. cbv zeta in C.
  destruct (begin_block s hd) as [s' r] eqn:E. cbn [fst snd] in *.
  destruct C as (_ & _ & _ & _ & _ & _ & _ & _ & _ & _ & C).
  destruct r as [i|e|p]; [|apply C|apply C].
  destruct (punished_frame s hd) as (_ & _ & R & _).
  destruct (InvReward.begin_block_ok_inv _ _ _ _ E) as (_ & _ & _ & _ & _ & [(_ & W & _)|(_ & s1 & _ & G & P)]).
  - rewrite W. exact R.
  - fold (punished s hd) in P. unfold process_votes in P.
    destruct (ledgers_at s1 (hgt_of_power (h_height hd))) as [old|]; [|discriminate].
    change (foldl (InvReward.vote_step s1 old (h_height hd)) (Ok (punished s hd, 0)) (h_votes hd) = Ok (work s', i)) in P.
    rewrite vote_fold_unsigned in P by exact Hv. injection P as <- _.
    destruct (jail_votes_frame (gparams s1) (h_height hd) (h_votes hd) (punished s hd)) as (_ & J & _).
    rewrite J. exact R.
Qed.

(* ================================================================== 3. C14, evidence: exact effect on the stakes *)
(* For each piece of evidence in a block, every stake bonded to the named validator loses the
   governance slash percentage of its power, rounded down; a stake too small to be reduced is
   forfeited; repeated evidence cuts repeatedly; unknown addresses change nothing.
   In every state [s] reachable by a list [pre], for the BeginBlock that continues the list:
   - the slash percentage in force is between 0 and 100;
   - after the punishment phase (the ledgers the vote loop starts from) the entry of EVERY address [a]
     is its old entry with the stake list passed [times a evi] times through [slash_kept], self and
     total power recomputed as sums over the remaining stakes, miss marks untouched;
   - the same is true of the state BeginBlock leaves behind for every delegatee that is not
     reported as a non-signer (those are the subject of C14_run_jail_iff), whatever BeginBlock answers;
   - no delegatee is created. *)
Theorem C14_run_slash_exact g pre hd :
  genesis_ok g → hashes_fresh pre → opts_ok pre → blocks InvPanic.Idle 0 (pre ++ [SBegin hd]) →
  let s := srun (init_chain g) pre in
  let s' := sstep s (SBegin hd) in
  let ratio := g_slashRatio (gparams s) in
  let evi := h_evidence hd in
  0 ≤ ratio ≤ 100 ∧
  (∀ a, dels (punished s hd) !! a = slashed_n ratio (times a evi) a <$> dels (work s) !! a) ∧
  (∀ a d, dels (work s) !! a = Some d → a ∉ nonsigners (h_votes hd) →
     dels (work s') !! a = Some (slashed_n ratio (times a evi) a d)) ∧
  (∀ a, dels (work s) !! a = None → dels (work s') !! a = None).
Proof.
  intros Hg Hh Ho Hb s s' ratio evi.
  destruct (reach_A g pre Hg Hh Ho) as (Hu & Hok & Hp & Hpar & _). fold s in Hu, Hok, Hp, Hpar.
  pose proof (params_ok_slash _ Hpar) as Hr. fold ratio in Hr.
  pose proof (blocks_height g pre hd Hb) as Hhd. fold s in Hhd.
  pose proof (λ a, punished_dels s hd a Hr Hu Hok Hp) as HP.
  split; [exact Hr|]. split; [exact HP|].
  pose proof (begin_block_cases s hd Hhd) as C. cbv zeta in C.
  destruct C as (_ & _ & _ & _ & _ & _ & _ & _ & _ & _ & C). subst s'. cbn [sstep].
  assert (HD : ∀ a, a ∉ nonsigners (h_votes hd) ∨ dels (punished s hd) !! a = None →
               dels (work (begin_block s hd).1) !! a = dels (punished s hd) !! a).
  { intros a Ha. destruct ((begin_block s hd).2) as [i|e|p]; [|destruct C as [-> _]; reflexivity..].
    destruct C as [-> _]. destruct Ha as [Ha|Ha].
    - destruct (jail_votes_frame (gparams s) (h_height hd) (h_votes hd) (punished s hd)) as (_ & _ & _ & _ & _ & F).
      apply F. intros pw Hin. apply Ha, elem_of_nonsigners. eauto.
    - rewrite Ha, jail_votes_nonsigners.
      destruct (dels (foldl _ (punished s hd) (nonsigners (h_votes hd))) !! a) as [d'|] eqn:E; [|reflexivity].
      apply jail_fold_marks_only in E as (d0 & E0 & _). congruence. }
  split.
  - intros a d Hd Ha. rewrite HD by (left; exact Ha). rewrite HP, Hd. reflexivity.
  - intros a Hd. rewrite HD; rewrite HP, Hd; [reflexivity|right; reflexivity].
Qed.
Print Assumptions C14_run_slash_exact.

(* one evidence item, spelled out stake by stake: a stake of the named validator with
   floor(power*ratio/100) >= 1 keeps its owner, target, hash, start and refund height and has
   power - floor(power*ratio/100); the others are gone; the order is kept *)
Corollary C14_run_slash_once g pre hd a d :
  genesis_ok g → hashes_fresh pre → opts_ok pre → blocks InvPanic.Idle 0 (pre ++ [SBegin hd]) →
  let s := srun (init_chain g) pre in
  let ratio := g_slashRatio (gparams s) in
  dels (work s) !! a = Some d → times a (h_evidence hd) = 1%nat →
  ∃ d', dels (punished s hd) !! a = Some d' ∧ d_addr d' = a ∧ d_marks d' = d_marks d ∧
        d_stakes d' = slash_kept ratio (d_stakes d) ∧
        d_total d' = sum_power (d_stakes d') ∧ d_self d' = sum_power_of a (d_stakes d') ∧
        (∀ st', st' ∈ d_stakes d' ↔
           ∃ st, st ∈ d_stakes d ∧ 1 ≤ s_power st * ratio / 100 ∧
                 st' = with_power (s_power st - s_power st * ratio / 100) st) ∧
        (∀ st, st ∈ d_stakes d → s_power st * ratio / 100 < 1 → s_hash st ∉ s_hash <$> d_stakes d') ∧
        sublist (s_hash <$> d_stakes d') (s_hash <$> d_stakes d).
Proof.
  intros Hg Hh Ho Hb s ratio Hd Ht.
  destruct (C14_run_slash_exact g pre hd Hg Hh Ho Hb) as (_ & HP & _). cbv zeta in HP. fold s ratio in HP.
  destruct (reach_A g pre Hg Hh Ho) as ((U1 & _) & _). fold s in U1.
  eexists. split; [rewrite HP, Hd, Ht; reflexivity|]. cbn.
  repeat split.
  - intros Hin. apply elem_of_list_In, slash_kept_elem in Hin as (st & H1 & H2 & ->).
    exists st. split; [apply elem_of_list_In; exact H1|]. split; [exact H2|reflexivity].
  - intros (st & H1 & H2 & ->). apply elem_of_list_In, slash_kept_elem. exists st.
    split; [apply elem_of_list_In; exact H1|]. split; [exact H2|reflexivity].
  - intros st Hst Hc Hin. apply elem_of_list_In in Hin.
    eapply (slash_kept_forfeited ratio (d_stakes d) st); [apply (U1 a d Hd)|apply elem_of_list_In; exact Hst|exact Hc|exact Hin].
  - apply slash_kept_order.
Qed.
Print Assumptions C14_run_slash_once.

Lemma times_notin a evi : a ∉ evi → times a evi = 0%nat.
Proof.
  intros Ha. unfold times. induction evi as [|b evi IH]; [reflexivity|]. cbn.
  apply not_elem_of_cons in Ha as [Hne Ha]. destruct (b =? a)%N eqn:E; [apply N.eqb_eq in E; congruence|]. apply IH, Ha.
Qed.

(* ================================================================== 4. C14, frame: nothing else changes *)
(* ... while no other validator, stake or account changes.  In every reachable state, for the
   BeginBlock that continues the list, whatever it answers:
   - a delegatee that is neither named by the evidence nor reported as a non-signer keeps its entry
     (and no entry appears for an address that had none);
   - a delegatee that is not named keeps address, self power, total power and stake list as long as it
     has an entry: only its miss marks may differ;
   - accounts, frozen proposals, the parameter ledger, the committed versions, the active and the
     pending parameters, the validator set and the last height are unchanged;
   - an open proposal in which no named address is a voter is unchanged, and no proposal appears;
   - the unbonding ledger is unchanged when no vote is marked "did not sign" (otherwise see C14_run_jail_iff);
   - the reward ledger is unchanged when no vote is marked "signed" (otherwise see C13). *)
Theorem C14_run_others_untouched g pre hd :
  genesis_ok g → hashes_fresh pre → opts_ok pre → blocks InvPanic.Idle 0 (pre ++ [SBegin hd]) →
  let s := srun (init_chain g) pre in
  let s' := sstep s (SBegin hd) in
  let evi := h_evidence hd in
  (∀ a, a ∉ evi → a ∉ nonsigners (h_votes hd) → dels (work s') !! a = dels (work s) !! a) ∧
  (∀ a d d', a ∉ evi → dels (work s) !! a = Some d → dels (work s') !! a = Some d' → same_but_marks d d') ∧
  accts (work s') = accts (work s) ∧ fprops (work s') = fprops (work s) ∧ lparams (work s') = lparams (work s) ∧
  committed s' = committed s ∧ gparams s' = gparams s ∧ newparams s' = newparams s ∧
  lastvals s' = lastvals s ∧ last_height s' = last_height s ∧
  (∀ k p, props (work s) !! k = Some p → (∀ a, a ∈ evi → p_voters p !! a = None) → props (work s') !! k = Some p) ∧
  (∀ k, props (work s) !! k = None → props (work s') !! k = None) ∧
  (nonsigners (h_votes hd) = [] → frozen (work s') = frozen (work s)) ∧
  (Forall (λ v : addr * Z * bool, v.2 = false) (h_votes hd) → rewards (work s') = rewards (work s)).
Proof.
  intros Hg Hh Ho Hb s s' evi.
  destruct (reach_A g pre Hg Hh Ho) as (Hu & Hok & Hp & Hpar & _). fold s in Hu, Hok, Hp, Hpar.
  pose proof (params_ok_slash _ Hpar) as Hr.
  pose proof (blocks_height g pre hd Hb) as Hhd. fold s in Hhd.
  destruct (C14_run_slash_exact g pre hd Hg Hh Ho Hb) as (_ & HP & HS & HN). cbv zeta in HP, HS, HN. fold s in HP, HS, HN.
  subst s'. cbn [sstep] in *.
  subst evi. pose proof (λ a, times_notin a (h_evidence hd)) as T0.
  pose proof (begin_block_cases s hd Hhd) as C. cbv zeta in C.
  destruct C as (C1 & C2 & C3 & C4 & C5 & _ & C7 & C8 & C9 & C10 & C).
  split.
  { intros a Ha Hns. destruct (dels (work s) !! a) as [d|] eqn:Ed.
    - rewrite (HS a d Ed Hns), (T0 a Ha), slashed_n_0; [reflexivity|apply (Hok a d Ed)].
    - apply HN, Ed. }
  split.
  { intros a d d' Ha Hd Hd'.
    assert (H2 : dels (punished s hd) !! a = Some d).
    { rewrite HP, Hd, (T0 a Ha). cbn. rewrite slashed_n_0; [reflexivity|apply (Hok a d Hd)]. }
    destruct ((begin_block s hd).2) as [i|e|p].
    - destruct C as [Cd _]. rewrite Cd, jail_votes_nonsigners in Hd'.
      apply jail_fold_marks_only in Hd' as (d0 & E0 & M). congruence.
    - destruct C as [Cd _]. rewrite Cd in Hd'. assert (d' = d) by congruence. subst d'. repeat split.
    - destruct C as [Cd _]. rewrite Cd in Hd'. assert (d' = d) by congruence. subst d'. repeat split. }
  repeat (split; [assumption|]).
  split.
  { intros k p Hk Hno. rewrite C10.
    pose proof (gov_punish_other (work s) (g_slashRatio (gparams s)) (h_evidence hd) k p Hk Hno) as G.
    rewrite gov_punish_eq in G. exact G. }
  split.
  { intros k Hk. rewrite C10, punish_props_lookup, Hk. reflexivity. }
  split.
  { intros Hns. destruct (punished_frame s hd) as (_ & F & _).
    destruct ((begin_block s hd).2) as [i|e|p]; [|apply C|apply C].
    destruct C as [_ ->]. rewrite jail_votes_nonsigners, Hns. exact F. }
  intros Hv. apply begin_block_rewards_unsigned; assumption.
Qed.
Print Assumptions C14_run_others_untouched.

(* ================================================================== 5. C14, downtime *)
(* the miss record of [d] once block h-1 has been recorded as missed, the window
   [max(0, h-1-window), h-1], the misses inside it, and the signed blocks the code derives *)
Definition win_start (g : params) (h : Z) : Z := Z.max 0 (h - 1 - g_signedBlocksWindow g).
Definition missed_marks (h : Z) (d : delegatee) : list Z := mark (d_marks d) (h - 1).
Definition missed_in_window (g : params) (h : Z) (d : delegatee) : Z :=
  Z.of_nat (length (List.filter (in_window (win_start g h) (h - 1)) (missed_marks h d))).
Definition signed_in_window (g : params) (h : Z) (d : delegatee) : Z :=
  g_signedBlocksWindow g - missed_in_window g h d.
(* the jail test: signed blocks inside the window below the required minimum *)
Definition jailed (g : params) (h : Z) (d : delegatee) : bool := signed_in_window g h d <? g_minSignedBlocks g.
(* the miss record a non-jailed non-signer is left with: misses below the window are dropped when
   there are at least two of them *)
Definition marks_after (g : params) (h : Z) (d : delegatee) : list Z :=
  if (2 <=? length (List.filter (before_window (win_start g h)) (missed_marks h d)))%nat
  then List.filter (λ x, negb (before_window (win_start g h) x)) (missed_marks h d) else missed_marks h d.

Lemma jail_step_present g h l a d :
  dels l !! a = Some d → incr (d_marks d) → 0 ≤ g_signedBlocksWindow g → 1 ≤ h →
  jail_step g h l a =
    if jailed g h d
    then set_frozen (set_dels l (delete a (dels l))) (freeze_all (frozen l) (h + g_lazyRewardBlocks g) (d_stakes d))
    else set_dels l (<[a := with_marks d (marks_after g h d)]> (dels l)).
Proof. intros Hd Hi Hw Hh. apply (jail_step_spec g h l a d Hd Hi Hw Hh). Qed.

Lemma foldl_ext_in {A B} (f f' : A → B → A) (L : list B) : ∀ x,
  (∀ y b, b ∈ L → f y b = f' y b) → foldl f x L = foldl f' x L.
Proof.
  induction L as [|b L IH]; intros x H; [reflexivity|]. cbn [foldl].
  rewrite (H x b) by left. apply IH. intros y b' Hb'. apply H. right. exact Hb'.
Qed.

(* what one pass of the vote loop freezes, read off the ledgers it starts from *)
Definition freeze_jailed (g : params) (h : Z) (l : ledgers) (fr : gmap hash stake) (a : addr) : gmap hash stake :=
  match dels l !! a with
  | Some d => if jailed g h d then freeze_all fr (h + g_lazyRewardBlocks g) (d_stakes d) else fr
  | None => fr
  end.

(* the jailing pass over pairwise distinct non-signers: each is judged on the entry it had when
   the pass started *)
Lemma jail_fold g h : 0 ≤ g_signedBlocksWindow g → 1 ≤ h → ∀ L l, NoDup L → marks_incr l →
  (∀ a, dels (foldl (λ l a, jail_step g h l a) l L) !! a =
        if decide (a ∈ L)
        then d ← dels l !! a; if jailed g h d then None else Some (with_marks d (marks_after g h d))
        else dels l !! a) ∧
  frozen (foldl (λ l a, jail_step g h l a) l L) = foldl (freeze_jailed g h l) (frozen l) L.
Proof.
  intros Hw Hh. induction L as [|a0 L IH]; intros l Hnd Hm.
  { split; [intros a; rewrite decide_False by apply not_elem_of_nil; reflexivity|reflexivity]. }
  apply NoDup_cons in Hnd as [Hni Hnd]. cbn [foldl].
  set (l1 := jail_step g h l a0).
  assert (Hm1 : marks_incr l1) by (apply jail_step_marks; exact Hm).
  destruct (IH l1 Hnd Hm1) as [ID IF].
  destruct (jail_step_frame g h l a0) as (_ & _ & _ & _ & _ & Fr). fold l1 in Fr.
  assert (H1 : dels l1 !! a0 = (d ← dels l !! a0; if jailed g h d then None else Some (with_marks d (marks_after g h d))) ∧
               frozen l1 = freeze_jailed g h l (frozen l) a0).
  { unfold l1, freeze_jailed. destruct (dels l !! a0) as [d|] eqn:Ed.
    - rewrite (jail_step_present g h l a0 d Ed (Hm a0 d Ed) Hw Hh). cbn [mbind option_bind].
      destruct (jailed g h d); cbn [dels frozen set_dels set_frozen];
        [rewrite lookup_delete|rewrite lookup_insert]; split; reflexivity.
    - rewrite jail_step_absent by exact Ed. rewrite Ed. split; reflexivity. }
  destruct H1 as [H1d H1f]. split.
  - intros a. rewrite ID. destruct (decide (a = a0)) as [->|Hne].
    + rewrite decide_False by exact Hni. rewrite decide_True by left. exact H1d.
    + rewrite (Fr a Hne). destruct (decide (a ∈ L)) as [Hin|Hin].
      * rewrite decide_True by (right; exact Hin). reflexivity.
      * rewrite decide_False; [reflexivity|]. intros Hc. apply elem_of_cons in Hc as [?|?]; contradiction.
  - rewrite IF, H1f. apply foldl_ext_in. intros fr b Hb. unfold freeze_jailed.
    rewrite Fr; [reflexivity|]. intros ->. contradiction.
Qed.

(* keys the pass does not freeze keep their entry *)
Lemma freeze_fold_other g h l L k : ∀ fr,
  (∀ a d st, a ∈ L → dels l !! a = Some d → jailed g h d = true → st ∈ d_stakes d → s_hash st ≠ k) →
  foldl (freeze_jailed g h l) fr L !! k = fr !! k.
Proof.
  induction L as [|a0 L IH]; intros fr H; [reflexivity|]. cbn [foldl].
  rewrite IH by (intros a d st Ha; apply H; right; exact Ha).
  unfold freeze_jailed. destruct (dels l !! a0) as [d|] eqn:Ed; [|reflexivity].
  destruct (jailed g h d) eqn:Ej; [|reflexivity].
  apply freeze_all_lookup_other. intros st Hst. apply (H a0 d st); [left|exact Ed|exact Ej|apply elem_of_list_In; exact Hst].
Qed.

(* every stake of a jailed non-signer is in the unbonding ledger afterwards, with the refund height *)
Lemma freeze_fold_jailed g h l L a d st : ∀ fr,
  (∀ a d, dels l !! a = Some d → NoDup (s_hash <$> d_stakes d)) →
  (∀ a1 a2 d1 d2 s1 s2, dels l !! a1 = Some d1 → dels l !! a2 = Some d2 →
     s1 ∈ d_stakes d1 → s2 ∈ d_stakes d2 → s_hash s1 = s_hash s2 → a1 = a2) →
  NoDup L → a ∈ L → dels l !! a = Some d → jailed g h d = true → st ∈ d_stakes d →
  foldl (freeze_jailed g h l) fr L !! s_hash st = Some (with_refund (h + g_lazyRewardBlocks g) st).
Proof.
  intros fr U1 U2. revert fr. induction L as [|a0 L IH]; intros fr Hnd Ha Hd Hj Hst; [inversion Ha|].
  apply NoDup_cons in Hnd as [Hni Hnd]. cbn [foldl].
  apply elem_of_cons in Ha as [->|Ha]; [|apply IH; assumption].
  rewrite freeze_fold_other.
  - unfold freeze_jailed. rewrite Hd, Hj. apply freeze_all_lookup; [apply (U1 a0 d Hd)|apply elem_of_list_In; exact Hst].
  - intros b db sb Hb Hdb _ Hsb Heq. apply Hni.
    rewrite (U2 a0 b d db st sb Hd Hdb Hst Hsb (eq_sym Heq)). exact Hb.
Qed.

(* hashes stay distinct through the punishment phase: what is left descends from the old stakes *)
Lemma punished_inv s hd a d2 :
  0 ≤ g_slashRatio (gparams s) ≤ 100 → hu_pt (work s) → dels_ok (work s) → powers_ok (work s) →
  dels (punished s hd) !! a = Some d2 →
  ∃ d, dels (work s) !! a = Some d ∧ d2 = after_evidence s hd a d.
Proof.
  intros Hr Hu Hok Hp H. rewrite punished_dels in H by assumption.
  destruct (dels (work s) !! a) as [d|]; [|discriminate]. injection H as <-. eauto.
Qed.

Lemma punished_hu s hd :
  0 ≤ g_slashRatio (gparams s) ≤ 100 → hu_pt (work s) → dels_ok (work s) → powers_ok (work s) →
  (∀ a d, dels (punished s hd) !! a = Some d → NoDup (s_hash <$> d_stakes d)) ∧
  (∀ a1 a2 d1 d2 s1 s2, dels (punished s hd) !! a1 = Some d1 → dels (punished s hd) !! a2 = Some d2 →
     s1 ∈ d_stakes d1 → s2 ∈ d_stakes d2 → s_hash s1 = s_hash s2 → a1 = a2) ∧
  (∀ a d st k x, dels (punished s hd) !! a = Some d → st ∈ d_stakes d → frozen (work s) !! k = Some x → s_hash st ≠ k).
Proof.
  intros Hr Hu Hok Hp. pose proof Hu as (U1 & U2 & U3 & _).
  split; [|split].
  - intros a d2 H. destruct (punished_inv s hd a d2 Hr Hu Hok Hp H) as (d & Hd & ->).
    apply (slash_kept_iter_ok _ _ _ Hr (powers_ok_delegatee _ _ _ Hp Hd) (U1 a d Hd)).
  - intros a1 a2 e1 e2 s1 s2 H1 H2 Hs1 Hs2 Heq.
    destruct (punished_inv s hd a1 e1 Hr Hu Hok Hp H1) as (d1 & Hd1 & ->).
    destruct (punished_inv s hd a2 e2 Hr Hu Hok Hp H2) as (d2 & Hd2 & ->).
    apply slash_kept_iter_hash in Hs1 as (t1 & Ht1 & E1). apply slash_kept_iter_hash in Hs2 as (t2 & Ht2 & E2).
    apply (U2 a1 a2 d1 d2 t1 t2 Hd1 Hd2 Ht1 Ht2). congruence.
  - intros a e st k x H Hst Hk. destruct (punished_inv s hd a e Hr Hu Hok Hp H) as (d & Hd & ->).
    apply slash_kept_iter_hash in Hst as (t & Ht & E). rewrite <- E. apply (U3 a d t k x Hd Ht Hk).
Qed.

Lemma params_ok_window p : params_ok p → 0 ≤ g_signedBlocksWindow p.
Proof. intros (_ & _ & _ & _ & _ & _ & _ & _ & H & _). exact H. Qed.

(* A validator whose signed blocks within the signing window fall below the required minimum has
   all stake bonded to it moved to unbonding and leaves the validator set; validators above the
   threshold are untouched.
   In every reachable state, for the BeginBlock that continues the list and answers Ok, with the
   reported non-signers pairwise distinct (LastCommitInfo lists a validator once):
   - the entry of every delegatee afterwards is determined: not reported -> the entry the evidence left;
     reported and [jailed] -> no entry; reported and not jailed -> the entry the evidence left with the
     miss of block h-1 recorded (and misses below the window dropped);
   - so a delegatee leaves in this block IFF it is reported as a non-signer and its signed blocks in the
     window [max(0,h-1-window), h-1] are fewer than the minimum;
   - every stake it then had is in the unbonding ledger under its hash, with refund height
     h + lazyRewardBlocks and otherwise unchanged; every other key of the unbonding ledger, and every
     entry that was there, is as before; if nobody leaves the unbonding ledger is unchanged. *)
Definition jailing_exact (s : state) (hd : header) : Prop :=
  let s' := sstep s (SBegin hd) in
  let gp := gparams s in
  let h := h_height hd in
  let leaves (a : addr) (d : delegatee) : Prop :=
    a ∈ nonsigners (h_votes hd) ∧ jailed gp h (after_evidence s hd a d) = true in
  0 ≤ g_signedBlocksWindow gp ∧ 1 ≤ h ∧
  (∀ a d, dels (work s) !! a = Some d →
     let d2 := after_evidence s hd a d in
     dels (work s') !! a =
       if decide (a ∈ nonsigners (h_votes hd))
       then if jailed gp h d2 then None else Some (with_marks d2 (marks_after gp h d2))
       else Some d2) ∧
  (∀ a d, dels (work s) !! a = Some d → (dels (work s') !! a = None ↔ leaves a d)) ∧
  (∀ a d st, dels (work s) !! a = Some d → leaves a d → st ∈ d_stakes (after_evidence s hd a d) →
     frozen (work s') !! s_hash st = Some (with_refund (h + g_lazyRewardBlocks gp) st)) ∧
  (∀ k, (∀ a d st, dels (work s) !! a = Some d → leaves a d → st ∈ d_stakes (after_evidence s hd a d) → s_hash st ≠ k) →
     frozen (work s') !! k = frozen (work s) !! k) ∧
  (∀ k x, frozen (work s) !! k = Some x → frozen (work s') !! k = Some x) ∧
  ((∀ a d, dels (work s) !! a = Some d → ¬ leaves a d) → frozen (work s') = frozen (work s)).

Theorem C14_run_jail_iff_answered g pre hd iss :
  genesis_ok g → hashes_fresh pre → opts_ok pre → blocks InvPanic.Idle 0 (pre ++ [SBegin hd]) →
  NoDup (nonsigners (h_votes hd)) →
  (begin_block (srun (init_chain g) pre) hd).2 = Ok iss →
  jailing_exact (srun (init_chain g) pre) hd.
Proof.
  intros Hg Hh Ho Hb Hnd Hans. cbv beta delta [jailing_exact]. set (s := srun (init_chain g) pre) in *.
  intros s' gp h leaves.
  destruct (reach_A g pre Hg Hh Ho) as (Hu & Hok & Hp & Hpar & Hmk). fold s in Hu, Hok, Hp, Hpar, Hmk.
  pose proof (params_ok_slash _ Hpar) as Hr. pose proof (params_ok_window _ Hpar) as Hw. fold gp in Hw.
  pose proof (blocks_height g pre hd Hb) as Hhd. fold s in Hhd.
  pose proof (blocks_height_pos pre hd Hb) as Hh1. fold h in Hh1.
  pose proof (λ a, punished_dels s hd a Hr Hu Hok Hp) as HP.
  destruct (punished_hu s hd Hr Hu Hok Hp) as (V1 & V2 & V3).
  destruct (punished_frame s hd) as (_ & FF & _).
  assert (Hm2 : marks_incr (punished s hd)).
  { intros a d2 H. destruct (punished_inv s hd a d2 Hr Hu Hok Hp H) as (d & Hd & ->). apply (Hmk a d Hd). }
  pose proof (begin_block_cases s hd Hhd) as C. cbv zeta in C.
  destruct C as (_ & _ & _ & _ & _ & _ & _ & _ & _ & _ & C). rewrite Hans in C. destruct C as [CD CF].
  rewrite jail_votes_nonsigners in CD, CF. fold gp h in CD, CF.
  destruct (jail_fold gp h Hw Hh1 (nonsigners (h_votes hd)) (punished s hd) Hnd Hm2) as [JD JF].
  rewrite FF in JF. subst s'. cbn [sstep].
  assert (P1 : ∀ a d, dels (work s) !! a = Some d →
     dels (work (begin_block s hd).1) !! a =
       if decide (a ∈ nonsigners (h_votes hd))
       then if jailed gp h (after_evidence s hd a d) then None
            else Some (with_marks (after_evidence s hd a d) (marks_after gp h (after_evidence s hd a d)))
       else Some (after_evidence s hd a d)).
  { intros a d Hd. rewrite CD, JD, HP, Hd. cbn [fmap option_fmap option_map mbind option_bind]. reflexivity. }
  assert (P4 : ∀ k, (∀ a d st, dels (work s) !! a = Some d → leaves a d → st ∈ d_stakes (after_evidence s hd a d) → s_hash st ≠ k) →
     frozen (work (begin_block s hd).1) !! k = frozen (work s) !! k).
  { intros k H. rewrite CF, JF. apply freeze_fold_other. intros a d2 st Ha Hd2 Hj Hst.
    destruct (punished_inv s hd a d2 Hr Hu Hok Hp Hd2) as (d & Hd & ->).
    apply (H a d st Hd); [split; assumption|exact Hst]. }
  split; [exact Hw|]. split; [exact Hh1|]. split; [exact P1|]. split.
  { intros a d Hd. rewrite (P1 a d Hd). unfold leaves.
    destruct (decide (a ∈ nonsigners (h_votes hd))) as [Hin|Hin].
    - destruct (jailed gp h (after_evidence s hd a d)); split; try tauto; try discriminate. intros [_ ?]. discriminate.
    - split; [discriminate|tauto]. }
  split.
  { intros a d st Hd [Hin Hj] Hst. rewrite CF, JF.
    apply (freeze_fold_jailed gp h (punished s hd) (nonsigners (h_votes hd)) a (after_evidence s hd a d) st _ V1 V2 Hnd Hin);
      [rewrite HP, Hd; reflexivity|exact Hj|exact Hst]. }
  split; [exact P4|]. split.
  { intros k x Hk. rewrite P4; [exact Hk|]. intros a d st Hd _ Hst.
    apply (V3 a (after_evidence s hd a d) st k x); [rewrite HP, Hd; reflexivity|exact Hst|exact Hk]. }
  intros Hno. apply map_eq. intros k. apply P4. intros a d st Hd Hl. exfalso. apply (Hno a d Hd Hl).
Qed.
Print Assumptions C14_run_jail_iff_answered.

(* the same with the answer Ok derived: votes are carried only from height 2 on *)
Theorem C14_run_jail_iff g pre hd :
  genesis_ok g → hashes_fresh pre → opts_ok pre → blocks InvPanic.Idle 0 (pre ++ [SBegin hd]) →
  NoDup (nonsigners (h_votes hd)) → (h_votes hd = [] ∨ 2 ≤ h_height hd) →
  (∃ iss, (begin_block (srun (init_chain g) pre) hd).2 = Ok iss) ∧
  jailing_exact (srun (init_chain g) pre) hd.
Proof.
  intros Hg Hh Ho Hb Hnd Hv. destruct (blocks_begin_ok g pre hd Hb Hv) as (iss & Hans).
  split; [exists iss; exact Hans|]. eapply C14_run_jail_iff_answered; eassumption.
Qed.
Print Assumptions C14_run_jail_iff.

(* ================================================================== 6. closed runs; voter powers are int64 in every state *)
(* from the hypotheses of the closed-run theorems (InvReach / InvClosed) to those used above *)
Lemma stake_hashes_app l k : stake_hashes (l ++ k) = stake_hashes l ++ stake_hashes k.
Proof.
  induction l as [|o r IH]; [reflexivity|]. destruct o as [hd|t| |]; cbn [app stake_hashes]; try exact IH.
  destruct (t_type t =? TRX_STAKING); [cbn [app]; f_equal|]; exact IH.
Qed.

Lemma hashes_fresh_prefix l k : hashes_fresh (l ++ k) → hashes_fresh l.
Proof.
  unfold hashes_fresh. rewrite stake_hashes_app, app_comm_cons. intros H. apply NoDup_app in H as (H & _). exact H.
Qed.

Lemma run_answers_at pre o post : ∀ s,
  InvPanic.run_answers s (pre ++ o :: post) → InvPanic.step_answers (srun s pre) o.
Proof.
  induction pre as [|o' pre IH]; intros s H; cbn [app InvPanic.run_answers] in H.
  - destruct H as [H _]. exact H.
  - destruct H as [_ H]. apply (IH (sstep s o') H).
Qed.

Lemma closed_to_open g ops pre hd post :
  genesis_ok g → InvPanic.bracketed InvPanic.Idle 0 ops → hashes_fresh ops → txs_ok ops →
  supply (work (init_chain g)) + requested ops < supply_bound →
  ops = pre ++ SBegin hd :: post →
  hashes_fresh pre ∧ opts_ok pre ∧ blocks InvPanic.Idle 0 (pre ++ [SBegin hd]) ∧
  (∃ iss, (begin_block (srun (init_chain g) pre) hd).2 = Ok iss) ∧
  (∀ pre' post', ops = pre' ++ post' → reach_ok (srun (init_chain g) pre') ∧ params_ok (gparams (srun (init_chain g) pre'))).
Proof.
  intros Hg Hbr Hh Htx Hb E.
  pose proof (fresh_run_reachable g ops Hh) as Hf.
  pose proof (minted_le_requested ops Htx (init_chain g)) as Hle.
  assert (Hb' : supply (work (init_chain g)) + minted (init_chain g) ops < supply_bound) by lia.
  pose proof (bracketed_opts_ok _ _ _ Hbr) as Hopts.
  destruct (closed_run_total g ops Hg Hbr Hf Htx Hb') as (Hans & _ & Hreach).
  split; [rewrite E in Hh; eapply hashes_fresh_prefix; exact Hh|].
  split; [rewrite E in Hopts; apply opts_ok_app in Hopts as [H _]; exact H|].
  split.
  { apply bracketed_blocks in Hbr. rewrite E in Hbr.
    change (pre ++ SBegin hd :: post) with (pre ++ [SBegin hd] ++ post) in Hbr. rewrite app_assoc in Hbr.
    eapply blocks_prefix. exact Hbr. }
  split.
  { rewrite E in Hans. apply run_answers_at in Hans. exact Hans. }
  intros pre' post' E'. split; [apply (Hreach pre' post' E')|].
  apply (params_ok_reachable g ops); [apply Hg|exact Hopts|exists post'; exact E'].
Qed.

(* C14_run_jail_iff on closed runs: that BeginBlock answers Ok is a consequence (C09), not a hypothesis *)
Theorem C14_closed_jail_iff g ops pre hd post :
  genesis_ok g → InvPanic.bracketed InvPanic.Idle 0 ops → hashes_fresh ops → txs_ok ops →
  supply (work (init_chain g)) + requested ops < supply_bound →
  ops = pre ++ SBegin hd :: post →
  NoDup (nonsigners (h_votes hd)) →
  (∃ iss, (begin_block (srun (init_chain g) pre) hd).2 = Ok iss) ∧
  jailing_exact (srun (init_chain g) pre) hd.
Proof.
  intros Hg Hbr Hh Htx Hb E Hnd.
  destruct (closed_to_open g ops pre hd post Hg Hbr Hh Htx Hb E) as (Hh' & Ho' & Hb' & (iss & Hans) & _).
  split; [exists iss; exact Hans|].
  apply (C14_run_jail_iff_answered g pre hd iss Hg Hh' Ho' Hb' Hnd Hans).
Qed.
Print Assumptions C14_closed_jail_iff.

(* ------------------------------------------------------------------ voter powers are int64 *)
(* the power recorded for a voter is the total power a delegatee had in a committed ledger; the
   invariant [vp_inv] carries that bound from the delegatee ledger through the eligible set and the
   announced validator set into the voter tables *)
Definition total_rng (d : delegatee) : Prop := 0 ≤ d_total d < two63.

Definition vp_inv (s : state) : Prop :=
  map_Forall (λ _ p, voters_ok p) (props (work s)) ∧
  Forall (λ v : addr * Z, 0 ≤ v.2 < two63) (lastvals s) ∧
  Forall total_rng (alldels s) ∧
  (∀ a d, dels (base_of s) !! a = Some d → total_rng d).

Lemma begin_block_alldels s hd :
  alldels (begin_block s hd).1 = alldels s ∨
  alldels (begin_block s hd).1 = InvValSet.ranked (gparams s) (base_of s).
Proof.
  unfold begin_block. destruct (negb _); [left; reflexivity|]. right. cbv zeta.
  destruct (h_votes hd) as [|v votes]; [reflexivity|].
  match goal with |- context [process_votes ?s1 ?l2 ?h ?vs] => destruct (process_votes s1 l2 h vs) as [[l3 iss]|e|pn] end; reflexivity.
Qed.

Lemma prop_vote_voters_ok p a c p' : prop_vote p a c = Some p' → voters_ok p → voters_ok p'.
Proof.
  unfold prop_vote. destruct (p_voters p !! a) as [v|] eqn:Ev; [|discriminate]. cbn [mbind option_bind].
  assert (H1 : v_power (cancel_vote (p_options p) v).2 = v_power v).
  { unfold cancel_vote. destruct (0 <=? v_choice v); reflexivity. }
  destruct (cancel_vote (p_options p) v) as [o1 v1]. cbn [snd] in H1.
  assert (H2 : v_power (do_vote o1 v1 c).2 = v_power v1).
  { unfold do_vote. destruct (0 <=? c); reflexivity. }
  destruct (do_vote o1 v1 c) as [o2 v2]. cbn [snd] in H2.
  intros [= <-] Hok b w Hw. cbn [p_voters with_voters_opts] in Hw.
  apply lookup_insert_Some in Hw as [[_ <-]|[_ Hw]]; [|apply (Hok b w Hw)].
  rewrite H2, H1. apply (Hok a v Ev).
Qed.

Lemma vp_inv_step s o :
  0 ≤ g_slashRatio (gparams s) ≤ 100 → (∀ a d, dels (work s) !! a = Some d → total_rng d) →
  vp_inv s → vp_inv (sstep s o).
Proof.
  intros Hr Hw (Vp & Vl & Va & Vb). destruct o as [hd|t| |]; cbn [sstep].
  - (* BeginBlock *)
    pose proof (begin_block_alldels s hd) as Hal.
    destruct (begin_block s hd) as [s' r] eqn:E. cbn [fst] in *.
    destruct (InvGov.begin_block_inv _ _ _ _ E) as (A & B & _ & D & _ & _ & Hcase).
    assert (Eb : base_of s' = base_of s) by (apply InvGov.base_of_same; assumption).
    split; [|split; [rewrite D; exact Vl|split; [|rewrite Eb; exact Vb]]].
    + destruct Hcase as [->|(_ & _ & ->)]; [exact Vp|].
      apply (InvGov.gov_punish_forall voters_ok); [|exact Vp]. intros p a Hp. apply (punish1_voters_ok _ a p Hr Hp).
    + destruct Hal as [->| ->]; [exact Va|]. apply Forall_forall. intros d Hd.
      unfold InvValSet.ranked in Hd. rewrite InvValSet.sort_power_perm in Hd.
      apply InvValSet.elem_of_eligible in Hd as [(a & Ha) _]. apply (Vb a d Ha).
  - (* DeliverTx *)
    destruct (deliver s t) as [s' r] eqn:E. cbn [fst].
    destruct (InvGov.deliver_inv _ _ _ _ E) as ((C1 & C2 & _ & C4 & C5 & _) & _ & _ & Hcase).
    assert (Eb : base_of s' = base_of s) by (apply InvGov.base_of_same; assumption).
    split; [|split; [rewrite C5; exact Vl|split; [rewrite C4; exact Va|rewrite Eb; exact Vb]]].
    destruct Hcase as [(Hp & _)|(_ & sender & l0 & l' & _ & _ & _ & _ & (G1 & _) & _ & Hge & Hp & _)]; rewrite Hp; [exact Vp|].
    destruct (decide (t_type t = TRX_PROPOSAL)) as [Ht|Ht].
    + destruct (InvGov.gov_execute_proposal _ _ _ _ Ht Hge) as (st & pe & ap & ot & os & pk & _ & ->). cbn [props set_props].
      apply map_Forall_insert_2; [|rewrite G1; exact Vp].
      exact (InvGov.new_proposal_powers (lastvals s) (t_hash t) st pe ap ot os Vl).
    + destruct (InvGov.gov_execute_voting _ _ _ _ Ht Hge) as (ph & choice & p0 & p' & _ & Hpp & Hvote & ->). cbn [props set_props].
      apply map_Forall_insert_2; [|rewrite G1; exact Vp].
      eapply prop_vote_voters_ok; [exact Hvote|]. rewrite G1 in Hpp. exact (Vp _ _ Hpp).
  - (* EndBlock *)
    destruct (end_block s) as [s' r] eqn:E. cbn [fst].
    destruct (InvGov.end_block_inv _ _ _ E) as (A & B & _ & _ & Hcase).
    assert (Eb : base_of s' = base_of s) by (apply InvGov.base_of_same; assumption).
    destruct Hcase as [(-> & _)|(l1 & l2 & np & Hf & Ha & (G1 & _) & _)]; [split; [exact Vp|split; [exact Vl|split; [exact Va|exact Vb]]]|].
    assert (Hl : Forall (λ v : addr * Z, 0 ≤ v.2 < two63) (lastvals s') ∧ alldels s' = alldels s).
    { destruct r as [ups|e|pn].
      - destruct (InvValSet.end_block_ok _ _ _ E) as (_ & _ & AD & _ & _ & _ & _ & _ & LV & _). split; [|exact AD].
        rewrite LV. apply Forall_forall. intros v Hv. apply elem_of_list_In, in_map_iff in Hv as (d & <- & Hd).
        apply elem_of_list_In, elem_of_take in Hd as (i & Hd & _). apply elem_of_list_lookup_2 in Hd.
        rewrite Forall_forall in Va. apply (Va d Hd).
      - rewrite (InvValSet.end_block_fail _ _ _ E) by discriminate. split; [exact Vl|reflexivity].
      - rewrite (InvValSet.end_block_fail _ _ _ E) by discriminate. split; [exact Vl|reflexivity]. }
    destruct Hl as [Hl Had].
    split; [|split; [exact Hl|split; [rewrite Had; exact Va|rewrite Eb; exact Vb]]].
    destruct (InvGov.freeze_proposals_spec _ _ _ _ Hf) as (_ & Fz).
    destruct (InvGov.apply_proposals_spec _ _ _ _ _ _ Ha) as ((_&_&_&_&Ap) & _).
    intros k p Hk. rewrite G1, Ap in Hk. specialize (Fz k).
    destruct (props (base_of s) !! k) as [q|].
    + unfold InvGov.frozen_at in Fz. destruct (p_end q <? b_height (bctx s)).
      * destruct Fz as (Fz & _). unfold hash in *. congruence.
      * destruct Fz as (Fz & _). apply (Vp k). unfold hash in *. congruence.
    + destruct Fz as (Fz & _). apply (Vp k). unfold hash in *. congruence.
  - (* Commit *)
    split; [exact Vp|]. split; [exact Vl|]. split; [exact Va|]. rewrite InvPanic.base_of_commit. exact Hw.
Qed.

Lemma init_chain_vp_inv g : vp_inv (init_chain g).
Proof.
  destruct (InvGov.init_chain_props g) as (P1 & _).
  split; [rewrite P1; apply map_Forall_empty|]. split; [constructor|]. split; [constructor|].
  intros a d H. unfold base_of in H. change (committed (init_chain g)) with (@nil ledgers) in H. cbn in H.
  rewrite lookup_empty in H. discriminate.
Qed.

(* ------------------------------------------------------------------ total powers are int64 in every state of every run *)
(* The supply bound is not needed for that: a delegation whose addition would take the total power to
   2^63 or beyond is refused by the overflow check of StakeCtrler.ValidateTrx (it panics), and every
   other operation only removes or cuts stakes. *)
Lemma deliver_staking_checked s t :
  t_type t = TRX_STAKING →
  dels (work (deliver s t).1) = dels (work s) ∨
  ∃ txp, amount_to_power (t_amount t) = Some txp ∧
         0 < wrap64 (match dels (work s) !! t_to t with Some d => d_total d | None => 0 end + txp).
Proof.
  intros Hty. destruct (deliver s t) as [s' r] eqn:Hd. cbn [fst]. unfold deliver in Hd.
  destruct (accts (work s) !! t_from t) as [sender|] eqn:Es; [|injection Hd as <- _; left; reflexivity].
  cbv zeta in Hd. cbn [work with_bctx] in Hd.
  destruct (find_or_new (work s) (t_to t)) as [l0 receiver] eqn:Ef.
  pose proof (find_or_new_dels (work s) (t_to t)) as Hl0. rewrite Ef in Hl0. cbn [fst] in Hl0.
  InvReward.step_in Hd Ecv0; [injection Hd as <- _; left; exact Hl0|].
  InvReward.step_in Hd Ecv1; [injection Hd as <- _; left; exact Hl0|].
  InvReward.step_in Hd Eval; [|injection Hd as <- _; left; exact Hl0|injection Hd as <- _; left; exact Hl0].
  right. clear Hd. rewrite Hty in Eval.
  match type of Eval with context [stake_validate ?x t] => change (stake_validate x t = Ok a) in Eval end.
  unfold stake_validate in Eval. rewrite Hty in Eval. change (TRX_STAKING =? TRX_STAKING) with true in Eval. cbv iota zeta in Eval.
  destruct (t_amount t / amountPerPower <=? 0); [discriminate|].
  destruct (t_amount t mod amountPerPower =? 0); [|discriminate]. cbn [negb] in Eval.
  destruct (amount_to_power (t_amount t)) as [txp|]; [|discriminate].
  exists txp. split; [reflexivity|].
  cbn [work with_work with_bctx gparams lastvals lim] in Eval. rewrite Hl0 in Eval.
  destruct (dels (work s) !! t_to t) as [d|] eqn:Ed.
  - assert (Hw : (wrap64 (d_total d + txp) <=? 0) = false).
    { destruct (wrap64 (d_total d + txp) <=? 0) eqn:Ew; [|reflexivity]. exfalso.
      repeat (match type of Eval with
              | (match (match ?x with _ => _ end) with _ => _ end) = _ => destruct x
              | (match (if ?x then _ else _) with _ => _ end) = _ => destruct x
              end; try discriminate); rewrite Ew in Eval; discriminate. }
    apply Z.leb_gt in Hw. exact Hw.
  - assert (Hw : (wrap64 (0 + txp) <=? 0) = false).
    { destruct (wrap64 (0 + txp) <=? 0) eqn:Ew; [|reflexivity]. exfalso.
      repeat (match type of Eval with
              | (match (match ?x with _ => _ end) with _ => _ end) = _ => destruct x
              | (match (if ?x then _ else _) with _ => _ end) = _ => destruct x
              end; try discriminate); rewrite Ew in Eval; discriminate. }
    apply Z.leb_gt in Hw. exact Hw.
Qed.

Lemma sublist_elem {A} (l1 l2 : list A) x : l1 `sublist_of` l2 → x ∈ l1 → x ∈ l2.
Proof.
  induction 1 as [|y l1 l2 _ IH|y l1 l2 _ IH]; intros Hx; [inversion Hx| |right; auto].
  apply elem_of_cons in Hx as [->|Hx]; [left|right; auto].
Qed.

Lemma sum_power_cons x l : sum_power (x :: l) = s_power x + sum_power l.
Proof. reflexivity. Qed.

Lemma sum_power_hash_sublist l : ∀ l',
  NoDup (s_hash <$> l) → (s_hash <$> l') `sublist_of` (s_hash <$> l) →
  (∀ s', s' ∈ l' → ∃ s, s ∈ l ∧ s_hash s = s_hash s' ∧ s_power s' ≤ s_power s) →
  (∀ s, s ∈ l → 0 ≤ s_power s) → sum_power l' ≤ sum_power l.
Proof.
  induction l as [|x l IH]; intros l' Hnd Hsub Hm Hp.
  - apply sublist_nil_r in Hsub. destruct l'; [cbn; lia|discriminate].
  - rewrite fmap_cons in Hnd, Hsub. apply NoDup_cons in Hnd as [Hx Hnd].
    assert (Hpx : 0 ≤ s_power x) by (apply Hp; left).
    assert (Hpl : ∀ s, s ∈ l → 0 ≤ s_power s) by (intros; apply Hp; right; assumption).
    rewrite sum_power_cons.
    apply sublist_cons_r in Hsub as [Hsub|(h' & Eh & Hsub)].
    + assert (sum_power l' ≤ sum_power l); [|lia]. apply IH; auto.
      intros s' Hs'. destruct (Hm s' Hs') as (s & Hs & Ehs & Hle). apply elem_of_cons in Hs as [->|Hs]; [|eauto].
      exfalso. apply Hx. rewrite Ehs. eapply sublist_elem; [exact Hsub|]. apply elem_of_list_fmap_1. exact Hs'.
    + destruct l' as [|y l']; [discriminate|]. rewrite fmap_cons in Eh. injection Eh as Ey Eh. subst h'.
      rewrite sum_power_cons.
      assert (Hy : s_power y ≤ s_power x).
      { destruct (Hm y ltac:(left)) as (s & Hs & Ehs & Hle). apply elem_of_cons in Hs as [->|Hs]; [exact Hle|].
        exfalso. apply Hx. rewrite <- Ey, <- Ehs. apply elem_of_list_fmap_1. exact Hs. }
      assert (sum_power l' ≤ sum_power l); [|lia]. apply IH; auto.
      intros s' Hs'. destruct (Hm s' ltac:(right; exact Hs')) as (s & Hs & Ehs & Hle).
      apply elem_of_cons in Hs as [->|Hs]; [|eauto].
      exfalso. apply Hx. rewrite Ehs. eapply sublist_elem; [exact Hsub|]. apply elem_of_list_fmap_1. exact Hs'.
Qed.

Lemma totals_evolves (Q : stake → stake → Prop) R l l' :
  (∀ x y, Q x y → s_hash x = s_hash y ∧ (0 ≤ s_power x → 0 ≤ s_power y ≤ s_power x)) →
  evolves Q R l l' → dels_ok l → dels_ok l' → powers_ok l → hu_pt l →
  (∀ a d, dels l !! a = Some d → total_rng d) → (∀ a d, dels l' !! a = Some d → total_rng d).
Proof.
  intros HQ [A _] Hok Hok' Hp (U1 & _) Ht a d' Hd'.
  destruct (A a d' Hd') as (d & Hd & Hsub & Hq).
  destruct (Hok a d Hd) as (_ & Et & _). destruct (Hok' a d' Hd') as (_ & Et' & _).
  pose proof (Ht a d Hd) as Hr. unfold total_rng in *. rewrite Et in Hr. rewrite Et'.
  assert (Hpd : ∀ s, s ∈ d_stakes d → 0 ≤ s_power s).
  { intros s Hs. assert (0 ≤ s_power s < two63); [|lia]. apply Hp, elem_of_app. left. apply InvStake.elem_of_bonded. eauto. }
  split.
  - apply InvPanic.sum_power_nonneg. intros s' Hs'. destruct (Hq s' Hs') as (s0 & Hs0 & Hqs).
    destruct (HQ _ _ Hqs) as [_ H]. specialize (H (Hpd s0 Hs0)). lia.
  - assert (sum_power (d_stakes d') ≤ sum_power (d_stakes d)); [|lia].
    apply sum_power_hash_sublist; [apply (U1 a d Hd)|exact Hsub| |exact Hpd].
    intros s' Hs'. destruct (Hq s' Hs') as (s0 & Hs0 & Hqs). destruct (HQ _ _ Hqs) as [Hh H].
    specialize (H (Hpd s0 Hs0)). exists s0. split; [exact Hs0|]. split; [exact Hh|lia].
Qed.

Lemma wrap64_pos_small x : 0 ≤ x < two63 + two63 → 0 < wrap64 x → x < two63.
Proof.
  intros Hx Hw. destruct (Z_lt_le_dec x two63) as [H|H]; [exact H|]. exfalso.
  assert (E64 : two64 = two63 + two63) by reflexivity.
  unfold wrap64 in Hw. replace (x + two63) with ((x - two63) + 1 * two64) in Hw by lia.
  rewrite Z.mod_add, Z.mod_small in Hw by lia. lia.
Qed.

Lemma totals_step s o :
  0 ≤ g_slashRatio (gparams s) ≤ 100 → dels_ok (work s) → dels_ok (work (sstep s o)) → powers_ok (work s) → hu_pt (work s) →
  (∀ a d, dels (work s) !! a = Some d → total_rng d) → (∀ a d, dels (work (sstep s o)) !! a = Some d → total_rng d).
Proof.
  intros Hr Hok Hok' Hp Hu Ht.
  assert (Hcut : ∀ x y, stake_cut x y → s_hash x = s_hash y ∧ (0 ≤ s_power x → 0 ≤ s_power y ≤ s_power x)).
  { intros x y Hc. split; [apply (Q_hash _ Qok_cut _ _ Hc)|apply Hc]. }
  assert (Heq : ∀ x y : stake, x = y → s_hash x = s_hash y ∧ (0 ≤ s_power x → 0 ≤ s_power y ≤ s_power x)).
  { intros x y ->. split; [reflexivity|lia]. }
  destruct o as [hd|t| |]; cbn [sstep] in *.
  - eapply totals_evolves; [exact Hcut|apply (begin_block_evolves_cut s hd Hr)|assumption..].
  - pose proof (deliver_staking_checked s t) as Hchk.
    destruct (deliver s t) as [s' r] eqn:E. cbn [fst] in *.
    apply deliver_moves in E as [Hev|(Hty & d & Hd & HD & _)].
    + eapply totals_evolves; [exact Heq|exact Hev|assumption..].
    + intros a d' Hd'. rewrite HD in Hd'. destruct (decide (a = t_to t)) as [->|Hne].
      2:{ rewrite lookup_insert_ne in Hd' by congruence. apply (Ht a d' Hd'). }
      rewrite lookup_insert in Hd'. injection Hd' as <-.
      destruct (Hchk Hty) as [Hsame|(txp & Htxp & Hw)].
      { exfalso. rewrite HD in Hsame.
        assert (H1 : <[t_to t := add_stake d (stake_of_tx t (b_height (bctx s)) (power_of (t_amount t)))]> (dels (work s)) !! t_to t
                     = dels (work s) !! t_to t) by (rewrite Hsame; reflexivity).
        rewrite lookup_insert in H1. destruct Hd as [Hd|(Hd & _)]; rewrite Hd in H1; [|discriminate].
        injection H1 as H1. apply (f_equal (λ x, length (d_stakes x))) in H1. cbn [add_stake d_stakes] in H1.
        rewrite app_length in H1. cbn in H1. lia. }
      assert (Hpo : power_of (t_amount t) = txp) by (unfold power_of; rewrite Htxp; reflexivity).
      pose proof (power_of_range (t_amount t)) as Hpr. rewrite Hpo in Hpr.
      unfold total_rng. cbn [add_stake d_total stake_of_tx s_power]. rewrite Hpo.
      destruct Hd as [Hd|(Hd & _ & ->)].
      * rewrite Hd in Hw. pose proof (Ht _ _ Hd) as Hdr. unfold total_rng in Hdr.
        pose proof (wrap64_pos_small (d_total d + txp) ltac:(lia) Hw). lia.
      * rewrite Hd in Hw. cbn [new_delegatee d_total].
        pose proof (wrap64_pos_small (0 + txp) ltac:(lia) Hw). lia.
  - eapply totals_evolves; [exact Heq|apply (end_block_evolves s 0)|assumption..].
  - exact Ht.
Qed.

Lemma init_chain_totals g :
  Forall (λ v : addr * Z, 0 ≤ v.2 < two63) (gen_validators g) →
  ∀ a d, dels (work (init_chain g)) !! a = Some d → total_rng d.
Proof.
  intros Hv. rewrite init_chain_dels.
  assert (G : ∀ vs (m : gmap addr delegatee), Forall (λ v : addr * Z, 0 ≤ v.2 < two63) vs →
              (∀ a d, m !! a = Some d → total_rng d) →
              ∀ a d, foldl (λ m v, <[v.1 := gdel v]> m) m vs !! a = Some d → total_rng d).
  { induction vs as [|v vs IH]; intros m Hvs Hm; [exact Hm|]. cbn [foldl].
    apply Forall_cons in Hvs as [Hv0 Hvs]. apply IH; [exact Hvs|].
    intros a d Hd. apply lookup_insert_Some in Hd as [[_ <-]|[_ Hd]]; [|apply (Hm a d Hd)].
    unfold total_rng, gdel, add_stake, new_delegatee, genesis_stake. cbn. lia. }
  apply G; [exact Hv|]. intros a d Hd. rewrite lookup_empty in Hd. discriminate.
Qed.

Lemma opts_ok_prefix_app l k : opts_ok (l ++ k) → opts_ok l.
Proof. intros H. apply opts_ok_app in H as [H _]. exact H. Qed.

Lemma totals_run g pre :
  genesis_ok g → hashes_fresh pre → opts_ok pre →
  ∀ a d, dels (work (srun (init_chain g) pre)) !! a = Some d → total_rng d.
Proof.
  intros Hg. induction pre as [|o pre IH] using rev_ind; intros Hh Ho.
  { apply init_chain_totals. apply Hg. }
  pose proof (hashes_fresh_prefix _ _ Hh) as Hh'. pose proof (opts_ok_prefix_app _ _ Ho) as Ho'.
  destruct (reach_A g pre Hg Hh' Ho') as (Hu & Hok & Hp & Hpar & _).
  unfold srun. rewrite foldl_app. cbn [foldl]. fold (srun (init_chain g) pre).
  apply totals_step; [apply params_ok_slash; exact Hpar|exact Hok| |exact Hp|exact Hu|apply IH; assumption].
  pose proof (dels_ok_reachable g (pre ++ [o])) as [H _]. unfold srun in H. rewrite foldl_app in H. exact H.
Qed.

(* [vp_inv] in every state of every run from a well-formed genesis with fresh staking hashes and
   [doc_ok] parameter documents *)
Lemma vp_inv_run_open g pre :
  genesis_ok g → hashes_fresh pre → opts_ok pre → vp_inv (srun (init_chain g) pre).
Proof.
  intros Hg. induction pre as [|o pre IH] using rev_ind; intros Hh Ho; [apply init_chain_vp_inv|].
  pose proof (hashes_fresh_prefix _ _ Hh) as Hh'. pose proof (opts_ok_prefix_app _ _ Ho) as Ho'.
  destruct (reach_A g pre Hg Hh' Ho') as (_ & _ & _ & Hpar & _).
  unfold srun. rewrite foldl_app. cbn [foldl]. fold (srun (init_chain g) pre).
  apply vp_inv_step; [apply params_ok_slash; exact Hpar|apply totals_run; assumption|apply IH; assumption].
Qed.

(* ================================================================== 7. C14, evidence: the voting weight in open proposals *)
(* one evidence item against a recorded voter: its weight shrinks by floor(power*ratio/100); it is
   removed when nothing is left *)
Definition punish_voter (ratio : Z) (v : voter) : option voter :=
  let sl := v_power v * ratio / 100 in
  if v_power v - sl <=? 0 then None else Some {| v_power := v_power v - sl; v_choice := v_choice v |}.

Lemma punish1_voter_lookup ratio a p b :
  0 ≤ ratio ≤ 100 → voters_ok p →
  p_voters (punish1 ratio a p) !! b = if decide (b = a) then p_voters p !! b ≫= punish_voter ratio else p_voters p !! b.
Proof.
  intros Hr Hok. unfold punish1. destruct (p_voters p !! a) as [v|] eqn:Ev.
  - destruct (decide (b = a)) as [->|Hne].
    + rewrite (prop_punish_voter p a ratio v Ev (Hok a v Ev) Hr), Ev. reflexivity.
    + apply (prop_punish_voters p a ratio v b Ev (Hok a v Ev) Hr Hne).
  - rewrite prop_punish_absent by exact Ev. cbn [fst]. destruct (decide (b = a)) as [->|Hne]; [rewrite Ev|]; reflexivity.
Qed.

Lemma punish_fold_voters_ok ratio evi : 0 ≤ ratio ≤ 100 → ∀ p, voters_ok p → voters_ok (foldl (λ p a, punish1 ratio a p) p evi).
Proof.
  intros Hr. induction evi as [|a evi IH]; intros p Hp; [exact Hp|]. cbn [foldl]. apply IH, punish1_voters_ok; assumption.
Qed.

Lemma punish_fold_voters ratio evi b : 0 ≤ ratio ≤ 100 → ∀ p, voters_ok p →
  p_voters (foldl (λ p a, punish1 ratio a p) p evi) !! b
  = Nat.iter (times b evi) (λ o, o ≫= punish_voter ratio) (p_voters p !! b).
Proof.
  intros Hr. induction evi as [|a evi IH]; intros p Hp; [reflexivity|]. cbn [foldl].
  rewrite IH by (apply punish1_voters_ok; assumption). rewrite punish1_voter_lookup by assumption.
  unfold times. cbn [List.filter]. destruct (a =? b)%N eqn:E.
  - apply N.eqb_eq in E. subst a. rewrite decide_True by reflexivity. cbn [length]. rewrite Nat.iter_succ_r. reflexivity.
  - apply N.eqb_neq in E. rewrite decide_False by congruence. reflexivity.
Qed.

Lemma punish1_frame ratio a p :
  p_hash (punish1 ratio a p) = p_hash p ∧ p_start (punish1 ratio a p) = p_start p ∧
  p_end (punish1 ratio a p) = p_end p ∧ p_apply (punish1 ratio a p) = p_apply p ∧
  p_opttype (punish1 ratio a p) = p_opttype p ∧ p_major (punish1 ratio a p) = p_major p ∧
  length (p_options (punish1 ratio a p)) = length (p_options p).
Proof.
  unfold punish1, prop_punish. destruct (p_voters p !! a) as [v|]; [|repeat split].
  unfold cancel_vote, do_vote.
  destruct (0 <=? v_choice v); cbn [v_power v_choice];
    (match goal with |- context [if ?c <=? 0 then _ else _] => destruct (c <=? 0) end);
    cbn; repeat split; rewrite ?alter_length; reflexivity.
Qed.

Lemma punish_fold_frame ratio evi : ∀ p,
  let p' := foldl (λ p a, punish1 ratio a p) p evi in
  p_hash p' = p_hash p ∧ p_start p' = p_start p ∧ p_end p' = p_end p ∧ p_apply p' = p_apply p ∧
  p_opttype p' = p_opttype p ∧ p_major p' = p_major p ∧ length (p_options p') = length (p_options p).
Proof.
  induction evi as [|a evi IH]; intros p; [repeat split|]. cbn [foldl]. cbv zeta in *.
  destruct (IH (punish1 ratio a p)) as (A1 & A2 & A3 & A4 & A5 & A6 & A7).
  destruct (punish1_frame ratio a p) as (B1 & B2 & B3 & B4 & B5 & B6 & B7).
  repeat split; congruence.
Qed.

(* the conclusion of the voter theorems, for the BeginBlock [hd] in state [s] *)
Definition voters_punished (s : state) (hd : header) : Prop :=
  let s' := sstep s (SBegin hd) in
  let ratio := g_slashRatio (gparams s) in
  let evi := h_evidence hd in
  0 ≤ ratio ≤ 100 ∧
  (∀ k, props (work s) !! k = None → props (work s') !! k = None) ∧
  (∀ k p, props (work s) !! k = Some p →
     (∀ a v, p_voters p !! a = Some v → 0 ≤ v_power v < two63) ∧
     props (work s') !! k = Some (foldl (λ p a, punish1 ratio a p) p evi) ∧
     (∀ e1 a e2, evi = e1 ++ a :: e2 →
        let q := foldl (λ p a, punish1 ratio a p) p e1 in
        (∀ b w, p_voters q !! b = Some w → 0 ≤ v_power w < two63) ∧
        foldl (λ p a, punish1 ratio a p) p (e1 ++ [a]) = (prop_punish q a ratio).1 ∧
        match p_voters q !! a with
        | Some v => prop_punish q a ratio = (punished_prop q a v (v_power v * ratio / 100), v_power v * ratio / 100)
        | None => prop_punish q a ratio = (q, 0)
        end) ∧
     (let p' := foldl (λ p a, punish1 ratio a p) p evi in
      (∀ a, p_voters p' !! a = Nat.iter (times a evi) (λ o, o ≫= punish_voter ratio) (p_voters p !! a)) ∧
      (∀ a, a ∉ evi → p_voters p' !! a = p_voters p !! a) ∧
      p_hash p' = p_hash p ∧ p_start p' = p_start p ∧ p_end p' = p_end p ∧ p_apply p' = p_apply p ∧
      p_opttype p' = p_opttype p ∧ p_major p' = p_major p ∧ length (p_options p') = length (p_options p))).

Lemma voters_core s hd :
  vp_inv s → 0 ≤ g_slashRatio (gparams s) ≤ 100 → h_height hd = last_height s + 1 → voters_punished s hd.
Proof.
  intros (Vp & _) Hr Hhd. unfold voters_punished.
  set (ratio := g_slashRatio (gparams s)) in *. set (evi := h_evidence hd).
  pose proof (begin_block_cases s hd Hhd) as C. cbv zeta in C.
  destruct C as (_ & _ & _ & _ & _ & _ & _ & _ & _ & C10 & _). fold ratio evi in C10.
  cbn [sstep].
  split; [exact Hr|]. split.
  { intros k Hk. rewrite C10, punish_props_lookup, Hk. reflexivity. }
  intros k p Hk. pose proof (Vp k p Hk) as Hok.
  split; [exact Hok|]. split; [rewrite C10, punish_props_lookup, Hk; reflexivity|]. split.
  { intros e1 a e2 _. set (q := foldl (λ p a, punish1 ratio a p) p e1).
    assert (Hq : voters_ok q) by (apply punish_fold_voters_ok; assumption).
    split; [exact Hq|]. split; [rewrite foldl_app; reflexivity|].
    destruct (p_voters q !! a) as [v|] eqn:Ev.
    - apply (prop_punish_spec q a ratio v Ev (Hq a v Ev) Hr).
    - apply prop_punish_absent, Ev. }
  split; [intros a; apply punish_fold_voters; assumption|]. split.
  { intros a Ha. rewrite punish_fold_voters by assumption. rewrite (times_notin a evi Ha). reflexivity. }
  apply punish_fold_frame.
Qed.

(* ... and the validator's voting weight in open proposals shrinks by the same percentage.
   In every state [s] reachable by a list [pre], for the BeginBlock that continues the list
   ([voters_punished], written out above):
   - every recorded voter of every open proposal has a power in [0, 2^63) and the slash percentage is in
     0..100: the hypotheses of C14_voter hold, and keep holding item after item;
   - every open proposal [p] is replaced by [p] punished for each evidence item in order; no proposal
     appears or disappears;
   - item by item: with [q] the proposal as the items before left it, an item naming a recorded voter
     [v] of [q] turns [q] into [punished_prop q a v (floor(power*ratio/100))] (the voter's weight, the
     option it had chosen and the total lose exactly that amount, the majority threshold is recomputed,
     the voter is removed when nothing is left); an item naming nobody recorded leaves [q] as it is;
   - overall a voter named n times has its weight cut n times ([punish_voter] iterated), voters not named
     keep their record; hash, voting window, apply height, option type, number of options and major
     option of the proposal are unchanged. *)
Theorem C14_run_voters g pre hd :
  genesis_ok g → hashes_fresh pre → opts_ok pre → blocks InvPanic.Idle 0 (pre ++ [SBegin hd]) →
  voters_punished (srun (init_chain g) pre) hd.
Proof.
  intros Hg Hh Ho Hb.
  destruct (reach_A g pre Hg Hh Ho) as (_ & _ & _ & Hpar & _).
  apply voters_core; [apply vp_inv_run_open; assumption|apply params_ok_slash; exact Hpar|apply blocks_height; exact Hb].
Qed.
Print Assumptions C14_run_voters.

(* the same on closed runs *)
Corollary C14_closed_voters g ops pre hd post :
  genesis_ok g → InvPanic.bracketed InvPanic.Idle 0 ops → hashes_fresh ops → txs_ok ops →
  supply (work (init_chain g)) + requested ops < supply_bound →
  ops = pre ++ SBegin hd :: post →
  voters_punished (srun (init_chain g) pre) hd.
Proof.
  intros Hg Hbr Hh Htx Hb E.
  destruct (closed_to_open g ops pre hd post Hg Hbr Hh Htx Hb E) as (F1 & F2 & F3 & _).
  apply C14_run_voters; assumption.
Qed.
Print Assumptions C14_closed_voters.

(* a voter named by exactly one evidence item: floor(power*ratio/100) less, removed at <= 0 *)
Corollary C14_run_voter_once g pre hd k p a v :
  genesis_ok g → hashes_fresh pre → opts_ok pre → blocks InvPanic.Idle 0 (pre ++ [SBegin hd]) →
  let s := srun (init_chain g) pre in
  let ratio := g_slashRatio (gparams s) in
  props (work s) !! k = Some p → p_voters p !! a = Some v → times a (h_evidence hd) = 1%nat →
  0 ≤ v_power v < two63 ∧ 0 ≤ ratio ≤ 100 ∧
  ∃ p', props (work (sstep s (SBegin hd))) !! k = Some p' ∧
        p_voters p' !! a =
          if v_power v - v_power v * ratio / 100 <=? 0 then None
          else Some {| v_power := v_power v - v_power v * ratio / 100; v_choice := v_choice v |}.
Proof.
  intros Hg Hh Ho Hb s ratio Hk Hv Ht.
  destruct (C14_run_voters g pre hd Hg Hh Ho Hb) as (Hr & _ & H). fold s ratio in Hr, H.
  destruct (H k p Hk) as (Hpw & Hp' & _ & Hvs & _).
  split; [apply (Hpw a v Hv)|]. split; [exact Hr|].
  eexists. split; [exact Hp'|]. rewrite Hvs, Ht, Hv. reflexivity.
Qed.
Print Assumptions C14_run_voter_once.

(* ================================================================== 8. the hypotheses are satisfiable: a concrete run *)
(* one validator (11, power 100, also a holder), a delegator (3).  Block 1: 3 delegates 20 to 11.
   Block 2: empty (the validator set is announced from the ledger block 1 committed).  Block 3:
   validator 11 opens a proposal; the voter table records 11 with power 120.  Slash ratio 50 %,
   signing window 2 with at least 2 signed blocks required, unbonding period 1.
   Block 4 carries evidence against 11; in [cx_hd4] validator 11 signed, in [cx_hd4j] it did not. *)
Definition cx_params : params := {|
  g_version := 1; g_maxValidatorCnt := 21; g_minValidatorStake := 7 * amountPerPower;
  g_minDelegatorStake := 0; g_rewardPerPower := 1000; g_lazyRewardBlocks := 1; g_lazyApplyingBlocks := 10;
  g_gasPrice := 10; g_minTrxGas := 4000; g_maxTrxGas := 25000000; g_maxBlockGas := 100000000;
  g_minVotingPeriodBlocks := 1; g_maxVotingPeriodBlocks := 100; g_minSelfStakeRatio := 50;
  g_maxUpdatableStakeRatio := 30; g_maxIndividualStakeRatio := 10000000; g_slashRatio := 50;
  g_signedBlocksWindow := 2; g_minSignedBlocks := 2 |}.
Definition cx_genesis : genesis := {|
  gen_params := cx_params;
  gen_holders := [(3%N, 1000 * amountPerPower); (11%N, 1000 * amountPerPower)];
  gen_validators := [(11%N, 100)] |}.
Definition cx_stake_tx : tx := demo_tx TRX_STAKING 3%N 11%N (20 * amountPerPower) 4000 0 PNone 102%N.
Definition cx_prop_tx : tx :=
  demo_tx TRX_PROPOSAL 11%N 0%N 0 4000 0 (PProposal 5 10 30 0 [(1%N, None); (2%N, None)] false) 55%N.
Definition cx_pre : list sop :=
  [SBegin (demo_hdr 1 (Some 11%N)); SDeliver cx_stake_tx; SEnd; SCommit;
   SBegin (demo_hdr 2 (Some 11%N)); SEnd; SCommit;
   SBegin (demo_hdr 3 (Some 11%N)); SDeliver cx_prop_tx; SEnd; SCommit].
Definition cx_hd4 : header :=
  {| h_height := 4; h_proposer := Some 11%N; h_votes := [(11%N, 120, true)]; h_evidence := [11%N] |}.
Definition cx_hd4j : header :=
  {| h_height := 4; h_proposer := Some 11%N; h_votes := [(11%N, 120, false)]; h_evidence := [11%N] |}.
Definition cx_s : state := srun (init_chain cx_genesis) cx_pre.

Definition cx_val_stake (p : Z) : stake :=
  {| s_from := 11%N; s_to := 11%N; s_hash := 0%N; s_start := 1; s_refund := 0; s_power := p |}.
Definition cx_del_stake (p : Z) : stake :=
  {| s_from := 3%N; s_to := 11%N; s_hash := 102%N; s_start := 2; s_refund := 0; s_power := p |}.

Lemma cx_genesis_ok : genesis_ok cx_genesis.
Proof.
  split; [repeat split; vm_compute; congruence|]. split; [vm_compute; lia|]. split.
  - repeat apply Forall_cons_2; try apply Forall_nil_2; split; vm_compute; congruence.
  - repeat apply Forall_cons_2; try apply Forall_nil_2; split; vm_compute; congruence.
Qed.

Lemma cx_hashes_fresh hd : hashes_fresh (cx_pre ++ [SBegin hd]).
Proof.
  unfold hashes_fresh. replace (stake_hashes (cx_pre ++ [SBegin hd])) with [102%N] by reflexivity.
  apply NoDup_cons. split; [|apply NoDup_singleton]. intros H. apply elem_of_list_singleton in H. discriminate.
Qed.

Lemma cx_tx_wf : tx_wf cx_stake_tx ∧ tx_wf cx_prop_tx.
Proof. split; repeat split; vm_compute; congruence. Qed.

Lemma cx_txs_ok hd : txs_ok (cx_pre ++ [SBegin hd]).
Proof.
  destruct cx_tx_wf as [W1 W2].
  unfold txs_ok, cx_pre. cbn [app]. repeat apply Forall_cons_2; try exact I; try apply Forall_nil_2.
  - split; [exact W1|]. split; [|reflexivity]. intros req Hty. discriminate Hty.
  - split; [exact W2|]. split; [|reflexivity]. intros req Hty. discriminate Hty.
Qed.

Lemma cx_bracketed hd :
  h_height hd = 4 → InvPanic.bracketed InvPanic.Idle 0 (cx_pre ++ [SBegin hd]).
Proof.
  intros H4. destruct cx_tx_wf as [W1 W2]. unfold cx_pre. cbn [app InvPanic.bracketed].
  split; [reflexivity|]. split; [intros H; exfalso; apply H; reflexivity|].
  split; [apply InvPanic.tx_ok_plain; [exact W1|discriminate|discriminate]|].
  split; [reflexivity|]. split; [intros H; exfalso; apply H; reflexivity|].
  split; [reflexivity|]. split; [intros H; exfalso; apply H; reflexivity|].
  split.
  { split; [exact W2|]. split; [intros Hty; discriminate Hty|]. split; [intros Hp; discriminate Hp|].
    unfold InvPanic.proposal_params_ok. cbn. repeat apply Forall_cons_2; try apply Forall_nil_2; intros np Hnp; discriminate Hnp. }
  split; [rewrite H4; reflexivity|]. split; [intros _; lia|exact I].
Qed.

Lemma cx_supply hd : supply (work (init_chain cx_genesis)) + requested (cx_pre ++ [SBegin hd]) < supply_bound.
Proof.
  replace (requested (cx_pre ++ [SBegin hd])) with 0 by reflexivity. vm_compute. reflexivity.
Qed.

(* all input hypotheses of the theorems above hold for both continuations of the run, the delegation
   and the proposal were executed, and block 4 does what the theorems say:
   signed  -> 11 keeps its entry with both stakes halved (100 -> 50, 20 -> 10), self 50, total 60;
   missed  -> the halved stakes are unbonding with refund height 4 + 1 and 11 has left the ledger
              (1 signed block in the window [1,3] where 2 are required);
   in both -> the recorded voting weight of 11 in the open proposal is halved (120 -> 60) *)
Example C14_run_example :
  genesis_ok cx_genesis ∧
  (∀ hd, h_height hd = 4 →
     InvPanic.bracketed InvPanic.Idle 0 (cx_pre ++ [SBegin hd]) ∧ hashes_fresh (cx_pre ++ [SBegin hd]) ∧
     txs_ok (cx_pre ++ [SBegin hd]) ∧ opts_ok (cx_pre ++ [SBegin hd]) ∧
     blocks InvPanic.Idle 0 (cx_pre ++ [SBegin hd]) ∧
     supply (work (init_chain cx_genesis)) + requested (cx_pre ++ [SBegin hd]) < supply_bound) ∧
  (* the state before block 4 *)
  dels (work cx_s) !! 11%N
    = Some {| d_addr := 11%N; d_self := 100; d_total := 120; d_stakes := [cx_val_stake 100; cx_del_stake 20]; d_marks := [] |} ∧
  ((λ p, (p_voters p !! 11%N, p_total p, p_majority p)) <$> props (work cx_s) !! 55%N) = Some (Some {| v_power := 120; v_choice := -1 |}, 120, 80) ∧
  g_slashRatio (gparams cx_s) = 50 ∧
  (* block 4, validator signed *)
  (begin_block cx_s cx_hd4).2 = Ok 120000 ∧
  dels (work (sstep cx_s (SBegin cx_hd4))) !! 11%N
    = Some {| d_addr := 11%N; d_self := 50; d_total := 60; d_stakes := [cx_val_stake 50; cx_del_stake 10]; d_marks := [] |} ∧
  frozen (work (sstep cx_s (SBegin cx_hd4))) = frozen (work cx_s) ∧
  ((λ p, (p_voters p !! 11%N, p_total p, p_majority p)) <$> props (work (sstep cx_s (SBegin cx_hd4))) !! 55%N) = Some (Some {| v_power := 60; v_choice := -1 |}, 60, 40) ∧
  (* block 4, validator did not sign *)
  (begin_block cx_s cx_hd4j).2 = Ok 0 ∧
  jailed (gparams cx_s) 4 (after_evidence cx_s cx_hd4j 11%N
     {| d_addr := 11%N; d_self := 100; d_total := 120; d_stakes := [cx_val_stake 100; cx_del_stake 20]; d_marks := [] |}) = true ∧
  dels (work (sstep cx_s (SBegin cx_hd4j))) !! 11%N = None ∧
  frozen (work (sstep cx_s (SBegin cx_hd4j))) !! 0%N = Some (with_refund 5 (cx_val_stake 50)) ∧
  frozen (work (sstep cx_s (SBegin cx_hd4j))) !! 102%N = Some (with_refund 5 (cx_del_stake 10)) ∧
  accts (work (sstep cx_s (SBegin cx_hd4j))) = accts (work cx_s).
Proof.
  split; [exact cx_genesis_ok|]. split.
  { intros hd H4. pose proof (cx_bracketed hd H4) as Hbr.
    split; [exact Hbr|]. split; [apply cx_hashes_fresh|]. split; [apply cx_txs_ok|].
    split; [eapply bracketed_opts_ok; exact Hbr|]. split; [apply bracketed_blocks; exact Hbr|apply cx_supply]. }
  split; [vm_compute; reflexivity|]. split; [vm_compute; reflexivity|]. split; [vm_compute; reflexivity|].
  split; [vm_compute; reflexivity|]. split; [vm_compute; reflexivity|]. split; [vm_compute; reflexivity|].
  split; [vm_compute; reflexivity|]. split; [vm_compute; reflexivity|]. split; [vm_compute; reflexivity|].
  split; [vm_compute; reflexivity|]. split; [vm_compute; reflexivity|]. split; vm_compute; reflexivity.
Qed.

(* the theorems applied to this run: their conclusions are the computed values *)
Example C14_run_example_applied :
  let d := {| d_addr := 11%N; d_self := 100; d_total := 120; d_stakes := [cx_val_stake 100; cx_del_stake 20]; d_marks := [] |} in
  dels (work (sstep cx_s (SBegin cx_hd4))) !! 11%N = Some (slashed_n 50 1 11%N d) ∧
  slashed_n 50 1 11%N d
    = {| d_addr := 11%N; d_self := 50; d_total := 60; d_stakes := [cx_val_stake 50; cx_del_stake 10]; d_marks := [] |} ∧
  (dels (work (sstep cx_s (SBegin cx_hd4j))) !! 11%N = None ↔
     11%N ∈ nonsigners (h_votes cx_hd4j) ∧ jailed (gparams cx_s) 4 (after_evidence cx_s cx_hd4j 11%N d) = true) ∧
  (∃ p', props (work (sstep cx_s (SBegin cx_hd4))) !! 55%N = Some p' ∧
         p_voters p' !! 11%N = Some {| v_power := 60; v_choice := -1 |}).
Proof.
  intros d.
  assert (Hd : dels (work cx_s) !! 11%N = Some d) by (vm_compute; reflexivity).
  assert (Hr : g_slashRatio (gparams cx_s) = 50) by (vm_compute; reflexivity).
  assert (H4 : h_height cx_hd4 = 4) by reflexivity. assert (H4j : h_height cx_hd4j = 4) by reflexivity.
  pose proof (cx_bracketed cx_hd4 H4) as Hbr. pose proof (cx_bracketed cx_hd4j H4j) as Hbrj.
  destruct (closed_to_open cx_genesis _ cx_pre cx_hd4 [] cx_genesis_ok Hbr (cx_hashes_fresh _) (cx_txs_ok _) (cx_supply _) eq_refl)
    as (F1 & F2 & F3 & _).
  destruct (closed_to_open cx_genesis _ cx_pre cx_hd4j [] cx_genesis_ok Hbrj (cx_hashes_fresh _) (cx_txs_ok _) (cx_supply _) eq_refl)
    as (_ & _ & F3j & _).
  split.
  { destruct (C14_run_slash_exact cx_genesis cx_pre cx_hd4 cx_genesis_ok F1 F2 F3) as (_ & _ & HS & _).
    cbv zeta in HS. fold cx_s in HS. rewrite Hr in HS.
    apply (HS 11%N d Hd). intros Hin. apply elem_of_nonsigners in Hin as (pw & Hin).
    apply elem_of_list_singleton in Hin. discriminate. }
  split; [vm_compute; reflexivity|]. split.
  { destruct (C14_closed_jail_iff cx_genesis _ cx_pre cx_hd4j [] cx_genesis_ok Hbrj (cx_hashes_fresh _) (cx_txs_ok _) (cx_supply _) eq_refl)
      as (_ & _ & _ & _ & Hiff & _); [apply NoDup_singleton|]. apply (Hiff 11%N d Hd). }
  assert (Hk : ∃ p, props (work cx_s) !! 55%N = Some p ∧ p_voters p !! 11%N = Some {| v_power := 120; v_choice := -1 |}).
  { destruct (props (work cx_s) !! 55%N) as [p|] eqn:Ep; [|vm_compute in Ep; discriminate].
    exists p. split; [reflexivity|].
    assert (E : (λ p, p_voters p !! 11%N) <$> props (work cx_s) !! 55%N = Some (Some {| v_power := 120; v_choice := -1 |})) by (vm_compute; reflexivity).
    rewrite Ep in E. injection E as E. exact E. }
  destruct Hk as (p & Hp & Hv).
  destruct (C14_run_voter_once cx_genesis cx_pre cx_hd4 55%N p 11%N _ cx_genesis_ok F1 F2 F3 Hp Hv eq_refl)
    as (_ & _ & p' & Hp' & Hv'). fold cx_s in Hp', Hv'. rewrite Hr in Hv'.
  exists p'. split; [exact Hp'|exact Hv'].
Qed.

(* ================================================================== 9. remarks on the model *)
(* with a slash percentage of 0 every stake "would lose less than 1": one evidence item forfeits
   every stake bonded to the named validator (the delegatee stays, with no stake and power 0) *)
Lemma slash_kept_ratio0 l : slash_kept 0 l = [].
Proof.
  unfold slash_kept. replace (List.filter (survives 0) l) with (@nil stake); [reflexivity|].
  symmetry. induction l as [|st l IH]; [reflexivity|]. cbn [List.filter].
  unfold survives at 1, cut. rewrite Z.mul_0_r. cbn. exact IH.
Qed.

(* "leaves the validator set" is not immediate: the eligible set of a block is built from the
   COMMITTED tree before stakes are punished and non-signers jailed, so the validator jailed (and
   slashed) in BeginBlock of block 4 is still announced, with its old power 120, by EndBlock of
   block 4; it is dropped by EndBlock of block 5 *)
Theorem C14_jailed_same_block_set_refuted :
  ∃ g pre hd,
    genesis_ok g ∧ InvPanic.bracketed InvPanic.Idle 0 (pre ++ [SBegin hd]) ∧ hashes_fresh (pre ++ [SBegin hd]) ∧
    txs_ok (pre ++ [SBegin hd]) ∧ supply (work (init_chain g)) + requested (pre ++ [SBegin hd]) < supply_bound ∧
    let s' := srun (init_chain g) (pre ++ [SBegin hd]) in
    dels (work s') !! 11%N = None ∧
    lastvals (srun s' [SEnd]) = [(11%N, 120)] ∧
    (end_block s').2 = Ok [] ∧
    lastvals (srun s' [SEnd; SCommit; SBegin (demo_hdr 5 (Some 11%N)); SEnd]) = [].
Proof.
  exists cx_genesis, cx_pre, cx_hd4j.
  split; [exact cx_genesis_ok|]. split; [apply cx_bracketed; reflexivity|]. split; [apply cx_hashes_fresh|].
  split; [apply cx_txs_ok|]. split; [apply cx_supply|]. cbv zeta.
  split; [vm_compute; reflexivity|]. split; [vm_compute; reflexivity|]. split; vm_compute; reflexivity.
Qed.
Print Assumptions C14_jailed_same_block_set_refuted.

(* ================================================================== 10. the evidence theorems on closed runs *)
Corollary C14_closed_slash_exact g ops pre hd post :
  genesis_ok g → InvPanic.bracketed InvPanic.Idle 0 ops → hashes_fresh ops → txs_ok ops →
  supply (work (init_chain g)) + requested ops < supply_bound →
  ops = pre ++ SBegin hd :: post →
  let s := srun (init_chain g) pre in
  let s' := sstep s (SBegin hd) in
  let ratio := g_slashRatio (gparams s) in
  let evi := h_evidence hd in
  0 ≤ ratio ≤ 100 ∧
  (∀ a, dels (punished s hd) !! a = slashed_n ratio (times a evi) a <$> dels (work s) !! a) ∧
  (∀ a d, dels (work s) !! a = Some d → a ∉ nonsigners (h_votes hd) →
     dels (work s') !! a = Some (slashed_n ratio (times a evi) a d)) ∧
  (∀ a, dels (work s) !! a = None → dels (work s') !! a = None).
Proof.
  intros Hg Hbr Hh Htx Hb E.
  destruct (closed_to_open g ops pre hd post Hg Hbr Hh Htx Hb E) as (F1 & F2 & F3 & _).
  apply C14_run_slash_exact; assumption.
Qed.
Print Assumptions C14_closed_slash_exact.
