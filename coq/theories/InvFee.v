(* InvFee.v — property C16: admission by gas price / minimum fee, exact cost of a successful
   transaction, fee sum of a block and its payment to the proposer.
   Also holds the shared infrastructure (decomposition of [deliver], balance arithmetic) that
   InvSupply.v reuses. *)
From Rigo Require Import Base.
From stdpp Require Import gmap sorting.
From Rigo Require Import Spec SpecProps.
Local Open Scope Z_scope.

Local Opaque two256 two255 two64 two63.
Local Arguments Z.pow : simpl never.

(* ================================================================== ranges *)
Lemma two256_pos : 0 < two256.            Proof. Local Transparent two256. unfold two256. lia. Qed.
Lemma two255_two256 : two256 = 2 * two255. Proof. Local Transparent two256 two255. unfold two256, two255. lia. Qed.
Lemma two64_pos : 0 < two64.              Proof. Local Transparent two64. unfold two64. lia. Qed.
Lemma two63_two64 : two64 = 2 * two63.    Proof. Local Transparent two64 two63. unfold two64, two63. lia. Qed.
Lemma two64_two256 : two64 * 2 ^ 192 = two256.
Proof. unfold two64, two256. rewrite <- Z.pow_add_r by lia. reflexivity. Qed.
Lemma two63_val : two63 = 9223372036854775808. Proof. reflexivity. Qed.
Local Opaque two256 two255 two64 two63.

Lemma add256_small a b : 0 <= a + b < two256 -> add256 a b = a + b.
Proof. intros H. unfold add256. apply wrap256_small. exact H. Qed.
Lemma sub256_small a b : 0 <= a - b < two256 -> sub256 a b = a - b.
Proof. intros H. unfold sub256. apply wrap256_small. exact H. Qed.
Lemma mul256_small a b : 0 <= a * b < two256 -> mul256 a b = a * b.
Proof. intros H. unfold mul256. apply wrap256_small. exact H. Qed.
Lemma add256_range a b : 0 <= add256 a b < two256. Proof. apply wrap256_range. Qed.
Lemma sub256_range a b : 0 <= sub256 a b < two256. Proof. apply wrap256_range. Qed.
Lemma mul256_range a b : 0 <= mul256 a b < two256. Proof. apply wrap256_range. Qed.

Lemma sign256_nonneg_iff z : 0 <= z -> (sign256 z <? 0) = false <-> z < two255.
Proof.
  intros Hz. unfold sign256.
  destruct (z =? 0) eqn:E0.
  - apply Z.eqb_eq in E0. subst z. split; [intros _|reflexivity].
    pose proof two256_pos. pose proof two255_two256. lia.
  - destruct (two255 <=? z) eqn:E1.
    + apply Z.leb_le in E1. split; [discriminate|lia].
    + apply Z.leb_gt in E1. split; [intros _; exact E1|reflexivity].
Qed.

Lemma sign256_pos_iff z : 0 <= z < two256 -> (0 <? sign256 z) = true <-> 0 < z < two255.
Proof.
  intros Hz. unfold sign256.
  destruct (z =? 0) eqn:E0.
  - apply Z.eqb_eq in E0. subst z. split; [discriminate|lia].
  - apply Z.eqb_neq in E0. destruct (two255 <=? z) eqn:E1.
    + apply Z.leb_le in E1. split; [discriminate|lia].
    + apply Z.leb_gt in E1. split; [intros _; lia|reflexivity].
Qed.

(* ================================================================== fees *)
Lemma fee_of_range t : 0 <= fee_of t < two256.
Proof. apply mul256_range. Qed.

Lemma mul_lt_two256 p g : 0 <= p < 2 ^ 192 -> 0 <= g < two64 -> 0 <= p * g < two256.
Proof.
  intros Hp Hg. rewrite <- two64_two256. split; [apply Z.mul_nonneg_nonneg; lia|].
  rewrite (Z.mul_comm two64). destruct (Z.eq_dec p 0) as [->|Hne]; [pose proof two64_pos; lia|].
  apply Z.le_lt_trans with (p * two64); [apply Z.mul_le_mono_nonneg_l; lia|].
  apply Z.mul_lt_mono_pos_r; [apply two64_pos|lia].
Qed.

(* with a price below 2^192 and a 64-bit gas limit the fee is the exact product *)
Lemma fee_of_exact t : 0 <= t_price t < 2 ^ 192 -> 0 <= t_gas t < two64 -> fee_of t = t_price t * t_gas t.
Proof. intros Hp Hg. unfold fee_of. apply mul256_small. apply mul_lt_two256; assumption. Qed.

(* ================================================================== projections *)
Lemma accts_set_acct l a x : accts (set_acct l a x) = <[a := x]> (accts l).   Proof. reflexivity. Qed.
Lemma dels_set_acct l a x : dels (set_acct l a x) = dels l.                   Proof. reflexivity. Qed.
Lemma frozen_set_acct l a x : frozen (set_acct l a x) = frozen l.             Proof. reflexivity. Qed.
Lemma rewards_set_acct l a x : rewards (set_acct l a x) = rewards l.          Proof. reflexivity. Qed.
Lemma accts_set_dels l m : accts (set_dels l m) = accts l.                    Proof. reflexivity. Qed.
Lemma dels_set_dels l m : dels (set_dels l m) = m.                            Proof. reflexivity. Qed.
Lemma frozen_set_dels l m : frozen (set_dels l m) = frozen l.                 Proof. reflexivity. Qed.
Lemma rewards_set_dels l m : rewards (set_dels l m) = rewards l.              Proof. reflexivity. Qed.
Lemma accts_set_frozen l m : accts (set_frozen l m) = accts l.                Proof. reflexivity. Qed.
Lemma dels_set_frozen l m : dels (set_frozen l m) = dels l.                   Proof. reflexivity. Qed.
Lemma frozen_set_frozen l m : frozen (set_frozen l m) = m.                    Proof. reflexivity. Qed.
Lemma rewards_set_frozen l m : rewards (set_frozen l m) = rewards l.          Proof. reflexivity. Qed.
Lemma accts_set_rewards l m : accts (set_rewards l m) = accts l.              Proof. reflexivity. Qed.
Lemma dels_set_rewards l m : dels (set_rewards l m) = dels l.                 Proof. reflexivity. Qed.
Lemma frozen_set_rewards l m : frozen (set_rewards l m) = frozen l.           Proof. reflexivity. Qed.
Lemma rewards_set_rewards l m : rewards (set_rewards l m) = m.                Proof. reflexivity. Qed.
Lemma accts_set_props l m : accts (set_props l m) = accts l.                  Proof. reflexivity. Qed.
Lemma dels_set_props l m : dels (set_props l m) = dels l.                     Proof. reflexivity. Qed.
Lemma frozen_set_props l m : frozen (set_props l m) = frozen l.               Proof. reflexivity. Qed.
Lemma rewards_set_props l m : rewards (set_props l m) = rewards l.            Proof. reflexivity. Qed.
Lemma accts_set_fprops l m : accts (set_fprops l m) = accts l.                Proof. reflexivity. Qed.
Lemma dels_set_fprops l m : dels (set_fprops l m) = dels l.                   Proof. reflexivity. Qed.
Lemma frozen_set_fprops l m : frozen (set_fprops l m) = frozen l.             Proof. reflexivity. Qed.
Lemma rewards_set_fprops l m : rewards (set_fprops l m) = rewards l.          Proof. reflexivity. Qed.
Lemma accts_set_lparams l p : accts (set_lparams l p) = accts l.              Proof. reflexivity. Qed.
Lemma dels_set_lparams l p : dels (set_lparams l p) = dels l.                 Proof. reflexivity. Qed.
Lemma frozen_set_lparams l p : frozen (set_lparams l p) = frozen l.           Proof. reflexivity. Qed.
Lemma rewards_set_lparams l p : rewards (set_lparams l p) = rewards l.        Proof. reflexivity. Qed.

Create HintDb proj discriminated.
Global Hint Rewrite accts_set_acct dels_set_acct frozen_set_acct rewards_set_acct
  accts_set_dels dels_set_dels frozen_set_dels rewards_set_dels
  accts_set_frozen dels_set_frozen frozen_set_frozen rewards_set_frozen
  accts_set_rewards dels_set_rewards frozen_set_rewards rewards_set_rewards
  accts_set_props dels_set_props frozen_set_props rewards_set_props
  accts_set_fprops dels_set_fprops frozen_set_fprops rewards_set_fprops
  accts_set_lparams dels_set_lparams frozen_set_lparams rewards_set_lparams : proj.

(* ================================================================== balances of single accounts *)
Lemma acct_of_set_acct l a x b : acct_of (set_acct l a x) b = if decide (a = b) then x else acct_of l b.
Proof.
  unfold acct_of. rewrite accts_set_acct. destruct (decide (a = b)) as [->|Hne].
  - rewrite lookup_insert. reflexivity.
  - rewrite lookup_insert_ne by exact Hne. reflexivity.
Qed.

Lemma bal_of_set_acct l a x b : bal_of (set_acct l a x) b = if decide (a = b) then a_bal x else bal_of l b.
Proof. unfold bal_of. rewrite acct_of_set_acct. destruct (decide (a = b)); reflexivity. Qed.

Lemma bal_of_set_dels l m a : bal_of (set_dels l m) a = bal_of l a.       Proof. reflexivity. Qed.
Lemma bal_of_set_frozen l m a : bal_of (set_frozen l m) a = bal_of l a.   Proof. reflexivity. Qed.
Lemma bal_of_set_rewards l m a : bal_of (set_rewards l m) a = bal_of l a. Proof. reflexivity. Qed.
Lemma bal_of_set_props l m a : bal_of (set_props l m) a = bal_of l a.     Proof. reflexivity. Qed.
Lemma bal_of_set_fprops l m a : bal_of (set_fprops l m) a = bal_of l a.   Proof. reflexivity. Qed.
Lemma bal_of_set_lparams l m a : bal_of (set_lparams l m) a = bal_of l a. Proof. reflexivity. Qed.

Lemma bal_of_lookup l a x : accts l !! a = Some x -> bal_of l a = a_bal x.
Proof. intros H. unfold bal_of, acct_of. rewrite H. reflexivity. Qed.

Lemma bal_of_same_accts l l' a : accts l' = accts l -> bal_of l' a = bal_of l a.
Proof. intros H. unfold bal_of, acct_of. rewrite H. reflexivity. Qed.

(* sub_balance / add_balance, exact *)
Lemma sub_balance_Some x amt x' :
  0 <= amt -> 0 <= a_bal x < two256 -> sub_balance x amt = Some x' ->
  amt <= a_bal x /\ a_bal x' = a_bal x - amt /\ a_nonce x' = a_nonce x /\ a_code x' = a_code x.
Proof.
  intros Ha Hb. unfold sub_balance.
  destruct (sign256 amt <? 0) eqn:Es; [discriminate|].
  destruct (a_bal x <? amt) eqn:El; [discriminate|].
  apply Z.ltb_ge in El. intros [= <-]. simpl.
  rewrite sub256_small by lia. auto.
Qed.

Lemma add_balance_Some x amt x' :
  0 <= amt -> add_balance x amt = Some x' ->
  amt < two255 /\ a_bal x' = add256 (a_bal x) amt /\ a_nonce x' = a_nonce x /\ a_code x' = a_code x.
Proof.
  intros Ha. unfold add_balance.
  destruct (sign256 amt <? 0) eqn:Es; [discriminate|].
  apply sign256_nonneg_iff in Es; [|exact Ha].
  intros [= <-]. simpl. auto.
Qed.

Lemma add_nonce_bal x : a_bal (add_nonce x) = a_bal x.   Proof. reflexivity. Qed.
Lemma add_nonce_code x : a_code (add_nonce x) = a_code x. Proof. reflexivity. Qed.

(* find_or_new: only an empty account may appear *)
Lemma find_or_new_spec l a :
  (find_or_new l a).2 = acct_of l a /\
  accts (find_or_new l a).1 !! a = Some (acct_of l a) /\
  (forall b, acct_of (find_or_new l a).1 b = acct_of l b) /\
  (forall b x, accts l !! b = Some x -> accts (find_or_new l a).1 !! b = Some x) /\
  (forall b x, accts (find_or_new l a).1 !! b = Some x -> accts l !! b = Some x \/ (b = a /\ x = acct0 /\ accts l !! a = None)) /\
  dels (find_or_new l a).1 = dels l /\ frozen (find_or_new l a).1 = frozen l /\
  rewards (find_or_new l a).1 = rewards l /\ props (find_or_new l a).1 = props l /\
  fprops (find_or_new l a).1 = fprops l /\ lparams (find_or_new l a).1 = lparams l.
Proof.
  unfold find_or_new, acct_of. destruct (accts l !! a) as [x|] eqn:E; simpl.
  - rewrite E. repeat split; auto.
  - repeat split; auto.
    + apply lookup_insert.
    + intros b. destruct (decide (a = b)) as [->|Hne].
      * rewrite lookup_insert, E. reflexivity.
      * rewrite lookup_insert_ne by exact Hne. reflexivity.
    + intros b x Hb. rewrite lookup_insert_ne; [exact Hb|]. intros ->. congruence.
    + intros b x Hb. destruct (decide (a = b)) as [->|Hne].
      * rewrite lookup_insert in Hb. injection Hb as <-. right. auto.
      * rewrite lookup_insert_ne in Hb by exact Hne. left. exact Hb.
Qed.

(* ================================================================== decomposition of [deliver] *)
Definition bump_txs (b : blockctx) : blockctx :=
  {| b_height := b_height b; b_proposer := b_proposer b; b_feesum := b_feesum b; b_txs := b_txs b + 1 |}.
Definition add_fee (b : blockctx) (f : Z) : blockctx :=
  {| b_height := b_height b; b_proposer := b_proposer b; b_feesum := add256 (b_feesum b) f; b_txs := b_txs b |}.

(* state in which validation runs: tx counter bumped, receiver account present *)
Definition pre_state (s : state) (t : tx) : state :=
  with_work (with_bctx s (bump_txs (bctx s))) (find_or_new (work s) (t_to t)).1.
Definition receiver_of (s : state) (t : tx) : account := (find_or_new (work s) (t_to t)).2.

Definition evm_path_of (t : tx) (receiver : account) : bool :=
  (t_type t =? TRX_CONTRACT) || ((t_type t =? TRX_TRANSFER) && a_code receiver).

Definition validated_of (s1 : state) (receiver : account) (t : tx) : res limiter :=
  let ty := t_type t in
  if (ty =? TRX_PROPOSAL) || (ty =? TRX_VOTING) then
    match gov_validate s1 t with Some e => Err e | None => Ok (lim s1) end
  else if (ty =? TRX_TRANSFER) || (ty =? TRX_SETDOC) then
    match acct_validate t with Some e => Err e | None => Ok (lim s1) end
  else if (ty =? TRX_STAKING) || (ty =? TRX_UNSTAKING) || (ty =? TRX_WITHDRAW) then stake_validate s1 t
  else if ty =? TRX_CONTRACT then
    match evm_validate receiver t with Some e => Err e | None => Ok (lim s1) end
  else Err E_TYPE.

Definition exec_native (s2 : state) (t : tx) : res ledgers :=
  let ty := t_type t in
  if (ty =? TRX_PROPOSAL) || (ty =? TRX_VOTING) then gov_execute s2 (work s2) t
  else if (ty =? TRX_TRANSFER) || (ty =? TRX_SETDOC) then acct_execute (work s2) t
  else stake_execute s2 (work s2) t.

(* postRunTrx *)
Definition post_run (s2 : state) (gp : Z) (t : tx) (l' : ledgers) : state * res Z :=
  match accts l' !! t_from t with
  | None => (s2, Err E_NOACCT)
  | Some snd' =>
      match sub_balance snd' (fee_of t) with
      | None => (with_work s2 l', Err E_FUND)
      | Some snd'' =>
          (with_bctx (with_work s2 (set_acct l' (t_from t) (add_nonce snd'')))
             (add_fee (bctx s2) (mul256 (t_gas t) gp)), Ok (t_gas t))
      end
  end.

Definition deliver_body (s : state) (t : tx) (sender : account) : state * res Z :=
  let s1 := pre_state s t in
  let receiver := receiver_of s t in
  match common_validation0 (gparams s) t with Some e => (s1, Err e) | None =>
  match common_validation1 sender t with Some e => (s1, Err e) | None =>
  match validated_of s1 receiver t with
  | Err e => (s1, Err e)
  | Panic p => (s1, Panic p)
  | Ok lim' =>
      let s2 := with_lim s1 lim' in
      if evm_path_of t receiver then
        match evm_execute (work s2) t with
        | Ok (l', gas) => (with_bctx (with_work s2 l') (add_fee (bctx s2) (mul256 gas (g_gasPrice (gparams s)))), Ok gas)
        | Err e => (s2, Err e)
        | Panic p => (s2, Panic p)
        end
      else
        match exec_native s2 t with
        | Err e => (s2, Err e)
        | Panic p => (s2, Panic p)
        | Ok l' => post_run s2 (g_gasPrice (gparams s)) t l'
        end
  end end end.

Lemma deliver_eq s t :
  deliver s t = match accts (work s) !! t_from t with
                | None => (s, Err E_NOACCT)
                | Some sender => deliver_body s t sender
                end.
Proof.
  unfold deliver, deliver_body, pre_state, receiver_of, validated_of, exec_native, post_run, evm_path_of.
  destruct (accts (work s) !! t_from t) as [sender|]; [|reflexivity].
  cbn [work with_bctx].
  destruct (find_or_new (work s) (t_to t)) as [l0 receiver]. cbn [fst snd].
  reflexivity.
Qed.

(* projections of the intermediate states *)
Lemma pre_state_work s t : work (pre_state s t) = (find_or_new (work s) (t_to t)).1.  Proof. reflexivity. Qed.
Lemma pre_state_gparams s t : gparams (pre_state s t) = gparams s.                    Proof. reflexivity. Qed.
Lemma pre_state_bctx s t : bctx (pre_state s t) = bump_txs (bctx s).                  Proof. reflexivity. Qed.
Lemma pre_state_lastvals s t : lastvals (pre_state s t) = lastvals s.                 Proof. reflexivity. Qed.
Lemma pre_state_lim s t : lim (pre_state s t) = lim s.                                Proof. reflexivity. Qed.

Lemma receiver_of_eq s t : receiver_of s t = acct_of (work s) (t_to t).
Proof. unfold receiver_of. apply find_or_new_spec. Qed.

(* a transaction takes the native path: not a contract transaction, receiver without code *)
Definition native (s : state) (t : tx) : Prop := evm_path_of t (acct_of (work s) (t_to t)) = false.

(* ================================================================== F1: admission *)
Lemma common_validation0_None g t :
  common_validation0 g t = None ->
  t_from_ok t = true /\ t_to_ok t = true /\ (sign256 (t_amount t) <? 0) = false /\ t_gas t <= maxInt64 /\
  (sign256 (t_price t) <? 0) = false /\ t_price t = g_gasPrice g /\
  mul256 (g_minTrxGas g) (g_gasPrice g) <= fee_of t /\ t_sigok t = true.
Proof.
  unfold common_validation0.
  destruct (t_from_ok t); [|discriminate]. destruct (t_to_ok t); [|discriminate]. cbn [negb].
  destruct (sign256 (t_amount t) <? 0) eqn:Ea; [discriminate|].
  destruct (maxInt64 <? t_gas t) eqn:Eg; [discriminate|].
  destruct (sign256 (t_price t) <? 0) eqn:Ep; [discriminate|]. cbn [orb].
  destruct (t_price t =? g_gasPrice g) eqn:Epp; [|discriminate]. cbn [negb].
  destruct (fee_of t <? mul256 (g_minTrxGas g) (g_gasPrice g)) eqn:Ef; [discriminate|].
  destruct (t_sigok t); [|discriminate]. intros _.
  apply Z.ltb_ge in Eg, Ef. apply Z.eqb_eq in Epp. auto 10.
Qed.

(* intrinsic gas EVMCtrler.ValidateTrx compares the gas limit with *)
Definition intrinsic_of (t : tx) : Z := match t_payload t with PContract i => i | _ => 21000 end.

Lemma deliver_ok_inv s t s' g :
  deliver s t = (s', Ok g) ->
  exists sender lim',
    accts (work s) !! t_from t = Some sender /\
    common_validation0 (gparams s) t = None /\
    common_validation1 sender t = None /\
    validated_of (pre_state s t) (receiver_of s t) t = Ok lim' /\
    let s2 := with_lim (pre_state s t) lim' in
    if evm_path_of t (receiver_of s t) then
      exists l', evm_execute (work s2) t = Ok (l', g) /\
        s' = with_bctx (with_work s2 l') (add_fee (bctx s2) (mul256 g (g_gasPrice (gparams s))))
    else
      exists l' snd' snd'', exec_native s2 t = Ok l' /\ accts l' !! t_from t = Some snd' /\
        sub_balance snd' (fee_of t) = Some snd'' /\ g = t_gas t /\
        s' = with_bctx (with_work s2 (set_acct l' (t_from t) (add_nonce snd'')))
               (add_fee (bctx s2) (mul256 (t_gas t) (g_gasPrice (gparams s)))).
Proof.
  rewrite deliver_eq. destruct (accts (work s) !! t_from t) as [sender|] eqn:Es; [|discriminate].
  unfold deliver_body.
  destruct (common_validation0 (gparams s) t) as [e|] eqn:E0; [discriminate|].
  destruct (common_validation1 sender t) as [e|] eqn:E1; [discriminate|].
  destruct (validated_of (pre_state s t) (receiver_of s t) t) as [lim'|e|p] eqn:Ev; [|discriminate|discriminate].
  intros H. exists sender, lim'. repeat (split; [first [assumption|reflexivity]|]). cbv zeta.
  destruct (evm_path_of t (receiver_of s t)) eqn:Ep; cbv iota.
  - destruct (evm_execute _ t) as [[l' gas]|e|p] eqn:Ee; [|discriminate|discriminate].
    injection H as <- <-. exists l'. split; reflexivity.
  - destruct (exec_native _ t) as [l'|e|p] eqn:Ee; [|discriminate|discriminate].
    unfold post_run in H.
    destruct (accts l' !! t_from t) as [snd'|] eqn:Esn; [|discriminate].
    destruct (sub_balance snd' (fee_of t)) as [snd''|] eqn:Esb; [|discriminate].
    injection H as <- <-. exists l', snd', snd''. auto 10.
Qed.

(* C16, admission.  The intended statement asked, for contract transactions, for
   [exists i, t_payload t = PContract i /\ i <= t_gas t]; the model (as EVMCtrler.ValidateTrx
   does for a nil payload) charges 21000 when the payload is not a contract payload, so the
   statement is given with [intrinsic_of]; see [deliver_ok_admission_literal_refuted] below.
   A TRX_TRANSFER to a contract account also runs the EVM but is validated by the account
   controller only: no intrinsic-gas check applies to it
   (see [transfer_to_contract_no_intrinsic_check]). *)
Theorem deliver_ok_admission s t s' g :
  deliver s t = (s', Ok g) ->
  t_price t = g_gasPrice (gparams s) /\
  mul256 (g_minTrxGas (gparams s)) (g_gasPrice (gparams s)) <= fee_of t /\
  (t_type t = TRX_CONTRACT -> intrinsic_of t <= t_gas t).
Proof.
  intros Hd. apply deliver_ok_inv in Hd as (sender & lim' & Hs & H0 & H1 & Hv & _).
  apply common_validation0_None in H0 as (_ & _ & _ & _ & _ & Hp & Hf & _).
  split; [exact Hp|]. split; [exact Hf|].
  intros Hty. unfold validated_of in Hv. rewrite Hty in Hv. cbn in Hv.
  unfold evm_validate in Hv. rewrite Hty in Hv. cbn in Hv. fold (intrinsic_of t) in Hv.
  destruct (t_gas t <? intrinsic_of t) eqn:Eg; [discriminate|]. apply Z.ltb_ge in Eg. exact Eg.
Qed.
Print Assumptions deliver_ok_admission.

(* with in-range parameters the two fee bounds are products *)
Corollary deliver_ok_admission_exact s t s' g :
  deliver s t = (s', Ok g) -> params_ok (gparams s) -> 0 <= t_gas t < two64 ->
  t_price t = g_gasPrice (gparams s) /\ g_minTrxGas (gparams s) * g_gasPrice (gparams s) <= t_gas t * t_price t.
Proof.
  intros Hd Hp Hg. destruct (deliver_ok_admission _ _ _ _ Hd) as (Hpr & Hfee & _).
  destruct Hp as (Hgp & Hmin & _). split; [exact Hpr|].
  rewrite fee_of_exact in Hfee by (rewrite ?Hpr; assumption).
  rewrite mul256_small in Hfee; [lia|].
  rewrite Z.mul_comm. apply mul_lt_two256; assumption.
Qed.

(* the literal intended statement fails in the model: a contract transaction whose payload is not
   a contract payload is admitted against the default intrinsic gas 21000 (a modelling artefact:
   the decoder of the real node only produces contract payloads for TRX_CONTRACT) *)
Definition demo_params : params := {|
  g_version := 1; g_maxValidatorCnt := 21; g_minValidatorStake := 7 * amountPerPower;
  g_minDelegatorStake := 0; g_rewardPerPower := 1000; g_lazyRewardBlocks := 10; g_lazyApplyingBlocks := 10;
  g_gasPrice := 10; g_minTrxGas := 4000; g_maxTrxGas := 25000000; g_maxBlockGas := 100000000;
  g_minVotingPeriodBlocks := 1; g_maxVotingPeriodBlocks := 100; g_minSelfStakeRatio := 50;
  g_maxUpdatableStakeRatio := 30; g_maxIndividualStakeRatio := 10000000; g_slashRatio := 50;
  g_signedBlocksWindow := 10000; g_minSignedBlocks := 500 |}.

Definition demo_tx (ty : Z) (from to : addr) (amount gas nonce : Z) (pl : payload) (h : hash) : tx :=
  {| t_type := ty; t_from := from; t_to := to; t_from_ok := true; t_to_ok := true; t_amount := amount;
     t_price := 10; t_gas := gas; t_nonce := nonce; t_payload := pl; t_hash := h; t_sigok := true; t_evm := None |}.

Definition demo_hdr (h : Z) (p : option addr) : header :=
  {| h_height := h; h_proposer := p; h_votes := []; h_evidence := [] |}.

(* holders 1,2,3 with 10^21 each; validators 11 and 12 with power 100 and 50 *)
Definition demo_genesis : genesis := {|
  gen_params := demo_params;
  gen_holders := [(1%N, 1000 * amountPerPower); (2%N, 1000 * amountPerPower); (3%N, 1000 * amountPerPower);
                  (11%N, 1000 * amountPerPower); (12%N, 1000 * amountPerPower)];
  gen_validators := [(11%N, 100); (12%N, 50)] |}.

Definition demo_s1 : state := (begin_block (init_chain demo_genesis) (demo_hdr 1 (Some 11%N))).1.

Lemma deliver_ok_admission_literal_refuted :
  exists s t s' g, deliver s t = (s', Ok g) /\ t_type t = TRX_CONTRACT /\
    ~ (exists i, t_payload t = PContract i /\ i <= t_gas t).
Proof.
  exists demo_s1.
  exists {| t_type := TRX_CONTRACT; t_from := 1%N; t_to := 2%N; t_from_ok := true; t_to_ok := true; t_amount := 0;
            t_price := 10; t_gas := 30000; t_nonce := 0; t_payload := PNone; t_hash := 77%N; t_sigok := true;
            t_evm := Some {| e_ok := true; e_gas := 21000; e_created := None; e_accts := [] |} |}.
  eexists. eexists. split; [vm_compute; reflexivity|]. split; [reflexivity|].
  intros (i & Hp & _). discriminate Hp.
Qed.

(* a plain transfer to a contract account runs the EVM but is admitted with any gas limit that
   covers the minimum fee: 21000 intrinsic gas is NOT required of it *)
Lemma transfer_to_contract_no_intrinsic_check :
  exists s t s' g, deliver s t = (s', Ok g) /\ t_type t = TRX_TRANSFER /\
    a_code (acct_of (work s) (t_to t)) = true /\ t_gas t < 21000.
Proof.
  set (s0 := demo_s1).
  set (s := with_work s0 (set_acct (work s0) 2%N {| a_nonce := 0; a_bal := 5; a_code := true; a_name := 0%N; a_doc := 0%N |})).
  exists s.
  exists {| t_type := TRX_TRANSFER; t_from := 1%N; t_to := 2%N; t_from_ok := true; t_to_ok := true; t_amount := 1;
            t_price := 10; t_gas := 4000; t_nonce := 0; t_payload := PNone; t_hash := 78%N; t_sigok := true;
            t_evm := Some {| e_ok := true; e_gas := 4000; e_created := None; e_accts := [] |} |}.
  eexists. eexists. split; [vm_compute; reflexivity|]. split; [reflexivity|]. split; [reflexivity|].
  vm_compute. reflexivity.
Qed.

(* ================================================================== F2: exact cost, native path *)
(* the requested amount of a withdrawal is a uint256 *)
Definition payload_wf (t : tx) : Prop :=
  forall req, t_type t = TRX_WITHDRAW -> t_payload t = PWithdraw req -> 0 <= req < two256.

Definition bal_range (l : ledgers) : Prop := forall a x, accts l !! a = Some x -> 0 <= a_bal x < two256.

Lemma ranges_ok_bal_range l : ranges_ok l -> bal_range l.
Proof. intros (H & _) a x Hx. apply (H a x Hx). Qed.

Lemma bal_range_bal_of l a : bal_range l -> 0 <= bal_of l a < two256.
Proof.
  intros H. unfold bal_of, acct_of. destruct (accts l !! a) as [x|] eqn:E; simpl.
  - apply (H a x E).
  - pose proof two256_pos. lia.
Qed.

Lemma bal_range_find_or_new l a : bal_range l -> bal_range (find_or_new l a).1.
Proof.
  intros H b x Hb. destruct (find_or_new_spec l a) as (_ & _ & _ & _ & Hinv & _).
  destruct (Hinv b x Hb) as [Hl|(_ & -> & _)]; [apply (H b x Hl)|].
  simpl. pose proof two256_pos. lia.
Qed.

Lemma bal_range_set_acct l a x : bal_range l -> 0 <= a_bal x < two256 -> bal_range (set_acct l a x).
Proof.
  intros H Hx b y. rewrite accts_set_acct. destruct (decide (a = b)) as [->|Hne].
  - rewrite lookup_insert. intros [= <-]. exact Hx.
  - rewrite lookup_insert_ne by exact Hne. apply H.
Qed.

Lemma bal_of_find_or_new l a b : bal_of (find_or_new l a).1 b = bal_of l b.
Proof. unfold bal_of. destruct (find_or_new_spec l a) as (_ & _ & H & _). rewrite H. reflexivity. Qed.

(* which transaction types reach the native executors *)
Lemma validated_native_types s1 r t lim' :
  validated_of s1 r t = Ok lim' -> evm_path_of t r = false ->
  t_type t = TRX_TRANSFER \/ t_type t = TRX_STAKING \/ t_type t = TRX_UNSTAKING \/ t_type t = TRX_PROPOSAL \/
  t_type t = TRX_VOTING \/ t_type t = TRX_SETDOC \/ t_type t = TRX_WITHDRAW.
Proof.
  unfold validated_of, evm_path_of. intros Hv Hp.
  destruct (t_type t =? TRX_PROPOSAL) eqn:E4; [apply Z.eqb_eq in E4; auto 10|].
  destruct (t_type t =? TRX_VOTING) eqn:E5; [apply Z.eqb_eq in E5; auto 10|].
  destruct (t_type t =? TRX_TRANSFER) eqn:E1; [apply Z.eqb_eq in E1; auto 10|].
  destruct (t_type t =? TRX_SETDOC) eqn:E7; [apply Z.eqb_eq in E7; auto 10|].
  destruct (t_type t =? TRX_STAKING) eqn:E2; [apply Z.eqb_eq in E2; auto 10|].
  destruct (t_type t =? TRX_UNSTAKING) eqn:E3; [apply Z.eqb_eq in E3; auto 10|].
  destruct (t_type t =? TRX_WITHDRAW) eqn:E8; [apply Z.eqb_eq in E8; auto 10|].
  cbn [orb] in Hv. destruct (t_type t =? TRX_CONTRACT) eqn:E6; [|discriminate]. discriminate Hp.
Qed.

Lemma exec_native_transfer s2 t : t_type t = TRX_TRANSFER -> exec_native s2 t = acct_execute (work s2) t.
Proof. unfold exec_native. intros ->. reflexivity. Qed.
Lemma exec_native_setdoc s2 t : t_type t = TRX_SETDOC -> exec_native s2 t = acct_execute (work s2) t.
Proof. unfold exec_native. intros ->. reflexivity. Qed.
Lemma exec_native_proposal s2 t : t_type t = TRX_PROPOSAL -> exec_native s2 t = gov_execute s2 (work s2) t.
Proof. unfold exec_native. intros ->. reflexivity. Qed.
Lemma exec_native_voting s2 t : t_type t = TRX_VOTING -> exec_native s2 t = gov_execute s2 (work s2) t.
Proof. unfold exec_native. intros ->. reflexivity. Qed.
Lemma exec_native_staking s2 t : t_type t = TRX_STAKING -> exec_native s2 t = stake_execute s2 (work s2) t.
Proof. unfold exec_native. intros ->. reflexivity. Qed.
Lemma exec_native_unstaking s2 t : t_type t = TRX_UNSTAKING -> exec_native s2 t = stake_execute s2 (work s2) t.
Proof. unfold exec_native. intros ->. reflexivity. Qed.
Lemma exec_native_withdraw s2 t : t_type t = TRX_WITHDRAW -> exec_native s2 t = stake_execute s2 (work s2) t.
Proof. unfold exec_native. intros ->. reflexivity. Qed.

(* ---- inversion of the executors *)
Lemma acct_execute_transfer_inv l t l' :
  t_type t = TRX_TRANSFER -> acct_execute l t = Ok l' ->
  exists sender receiver sender' recv',
    accts l !! t_from t = Some sender /\ accts l !! t_to t = Some receiver /\
    sub_balance sender (t_amount t) = Some sender' /\
    add_balance (if (t_from t =? t_to t)%N then sender' else receiver) (t_amount t) = Some recv' /\
    l' = set_acct (set_acct l (t_from t) sender') (t_to t) recv'.
Proof.
  intros Hty. unfold acct_execute. rewrite Hty.
  destruct (accts l !! t_from t) as [sender|]; [|discriminate].
  destruct (accts l !! t_to t) as [receiver|]; [|discriminate].
  change (TRX_TRANSFER =? TRX_TRANSFER) with true. cbv iota.
  destruct (sub_balance sender (t_amount t)) as [sender'|] eqn:Es; [|discriminate].
  destruct (add_balance _ (t_amount t)) as [recv'|] eqn:Ea; [|discriminate].
  intros [= <-]. exists sender, receiver, sender', recv'. auto.
Qed.

Lemma acct_execute_setdoc_inv l t l' :
  t_type t = TRX_SETDOC -> acct_execute l t = Ok l' ->
  exists sender x, accts l !! t_from t = Some sender /\ a_bal x = a_bal sender /\ a_nonce x = a_nonce sender /\
                   a_code x = a_code sender /\ l' = set_acct l (t_from t) x.
Proof.
  intros Hty. unfold acct_execute. rewrite Hty.
  destruct (accts l !! t_from t) as [sender|]; [|discriminate].
  destruct (accts l !! t_to t) as [receiver|]; [|discriminate].
  change (TRX_SETDOC =? TRX_TRANSFER) with false. cbv iota.
  destruct (t_payload t) as [| | | | |name url nl ul|]; try discriminate.
  intros [= <-].
  exists sender, {| a_nonce := a_nonce sender; a_bal := a_bal sender; a_code := a_code sender; a_name := name; a_doc := url |}.
  repeat split.
Qed.

Lemma gov_execute_accts s2 l t l' :
  gov_execute s2 l t = Ok l' ->
  accts l' = accts l /\ dels l' = dels l /\ frozen l' = frozen l /\ rewards l' = rewards l.
Proof.
  unfold gov_execute.
  destruct (t_type t =? TRX_PROPOSAL).
  - destruct (t_payload t); try discriminate. intros [= <-]. auto.
  - destruct (t_payload t) as [| | | |ph choice| |]; try discriminate.
    destruct (props l !! ph) as [p|]; [|discriminate].
    destruct (prop_vote p (t_from t) choice); [|discriminate]. intros [= <-]. auto.
Qed.

Lemma stake_execute_staking_inv s2 l t l' :
  t_type t = TRX_STAKING -> stake_execute s2 l t = Ok l' ->
  exists d sender sender',
    (dels l !! t_to t = Some d \/ (dels l !! t_to t = None /\ t_from t = t_to t /\ d = new_delegatee (t_from t))) /\
    accts l !! t_from t = Some sender /\ sub_balance sender (t_amount t) = Some sender' /\
    l' = set_dels (set_acct l (t_from t) sender')
           (<[t_to t := add_stake d (stake_of_tx t (b_height (bctx s2)) (power_of (t_amount t)))]> (dels l)).
Proof.
  intros Hty. unfold stake_execute. rewrite Hty. change (TRX_STAKING =? TRX_STAKING) with true. cbv iota zeta.
  destruct (dels l !! t_to t) as [d|] eqn:Ed.
  - destruct (accts l !! t_from t) as [sender|]; [|discriminate].
    destruct (sub_balance sender (t_amount t)) as [sender'|] eqn:Es; [|discriminate].
    intros [= <-]. exists d, sender, sender'. auto.
  - destruct (t_from t =? t_to t)%N eqn:Eft; [|discriminate]. apply N.eqb_eq in Eft.
    destruct (accts l !! t_from t) as [sender|]; [|discriminate].
    destruct (sub_balance sender (t_amount t)) as [sender'|] eqn:Es; [|discriminate].
    intros [= <-]. exists (new_delegatee (t_from t)), sender, sender'. auto 10.
Qed.

Lemma stake_execute_unstaking_accts s2 l t l' :
  t_type t = TRX_UNSTAKING -> stake_execute s2 l t = Ok l' -> accts l' = accts l /\ rewards l' = rewards l.
Proof.
  intros Hty. unfold stake_execute. rewrite Hty.
  change (TRX_UNSTAKING =? TRX_STAKING) with false. change (TRX_UNSTAKING =? TRX_UNSTAKING) with true. cbv iota zeta.
  destruct (dels l !! t_to t) as [d|]; [|discriminate].
  destruct (t_payload t) as [|hs lenok| | | | |]; try discriminate.
  destruct (find_stake hs (d_stakes d)) as [s0|]; [|discriminate].
  destruct (negb (s_from s0 =? t_from t)%N); [discriminate|].
  destruct (d_self (del_stake d hs) =? 0).
  - destruct (del_all_stakes (del_stake d hs)) as [dx ss].
    destruct (d_total dx =? 0); intros [= <-]; auto.
  - destruct (d_total (del_stake d hs) =? 0); intros [= <-]; auto.
Qed.

Lemma stake_execute_withdraw_inv s2 l t l' :
  t_type t = TRX_WITHDRAW -> stake_execute s2 l t = Ok l' ->
  exists req r r' x x',
    t_payload t = PWithdraw req /\ rewards l !! t_from t = Some r /\ accts l !! t_from t = Some x /\
    add_balance x req = Some x' /\
    l' = set_acct (set_rewards l (<[t_from t := r']> (rewards l))) (t_from t) x'.
Proof.
  intros Hty. unfold stake_execute. rewrite Hty.
  change (TRX_WITHDRAW =? TRX_STAKING) with false. change (TRX_WITHDRAW =? TRX_UNSTAKING) with false. cbv iota zeta.
  destruct (t_payload t) as [| |req| | | |]; try discriminate.
  destruct (rewards l !! t_from t) as [r|]; [|discriminate].
  destruct (r_height r >? b_height (bctx s2)); [discriminate|].
  unfold acct_reward. rewrite accts_set_rewards.
  destruct (accts l !! t_from t) as [x|]; [|discriminate]. cbn [mbind option_bind].
  destruct (add_balance x req) as [x'|] eqn:Ea; [|discriminate]. cbn [mbind option_bind].
  intros [= <-]. eexists req, r, _, x, x'. repeat (split; [first [reflexivity|exact Ea]|]). reflexivity.
Qed.

(* ---- what a native transaction itself moves *)
(* taken from the sender besides the fee: the transferred / staked amount *)
Definition tx_out (t : tx) : Z :=
  if (t_type t =? TRX_TRANSFER) || (t_type t =? TRX_STAKING) then t_amount t else 0.
(* credited to account [a]: a transfer credits the receiver, a withdrawal the sender *)
Definition tx_in (t : tx) (a : addr) : Z :=
  if t_type t =? TRX_TRANSFER then (if decide (a = t_to t) then t_amount t else 0)
  else if t_type t =? TRX_WITHDRAW then
    match t_payload t with PWithdraw req => if decide (a = t_from t) then req else 0 | _ => 0 end
  else 0.
(* the credit fits: needed for every credited account except the sender of a self-transfer *)
Definition room_for (l : ledgers) (t : tx) (a : addr) : Prop :=
  (t_type t = TRX_TRANSFER /\ a = t_from t) \/ bal_of l a + tx_in t a < two256.

Lemma tx_in_nonneg t a : tx_wf t -> payload_wf t -> 0 <= tx_in t a.
Proof.
  intros (Ha & _) Hp. unfold tx_in, payload_wf in *.
  destruct (t_type t =? TRX_TRANSFER); [destruct (decide (a = t_to t)); lia|].
  destruct (t_type t =? TRX_WITHDRAW) eqn:E; [|lia]. apply Z.eqb_eq in E.
  destruct (t_payload t) as [| |req| | | |]; try lia. specialize (Hp req E eq_refl).
  destruct (decide (a = t_from t)); lia.
Qed.

Lemma exec_native_balances s1 s2 t l' lim' r :
  validated_of s1 r t = Ok lim' -> evm_path_of t r = false ->
  exec_native s2 t = Ok l' -> tx_wf t -> payload_wf t -> bal_range (work s2) ->
  bal_range l' /\
  forall a, room_for (work s2) t a ->
    bal_of l' a = bal_of (work s2) a + tx_in t a - (if decide (a = t_from t) then tx_out t else 0).
Proof.
  intros Hv Hp He (Hamt & _) Hpl Hr.
  pose proof two256_pos as H256.
  destruct (validated_native_types _ _ _ _ Hv Hp) as [Hty|[Hty|[Hty|[Hty|[Hty|[Hty|Hty]]]]]];
    unfold tx_in, tx_out, room_for; rewrite Hty; cbn [Z.eqb Pos.eqb orb TRX_TRANSFER TRX_STAKING TRX_UNSTAKING
      TRX_PROPOSAL TRX_VOTING TRX_SETDOC TRX_WITHDRAW].
  - (* transfer *)
    rewrite exec_native_transfer in He by exact Hty.
    apply acct_execute_transfer_inv in He as (sender & receiver & sender' & recv' & Hs & Hrc & Hsub & Hadd & ->);
      [|exact Hty].
    pose proof (Hr _ _ Hs) as Hsr. pose proof (Hr _ _ Hrc) as Hrr.
    apply sub_balance_Some in Hsub as (Hle & Hb' & _); [|lia|exact Hsr].
    apply add_balance_Some in Hadd as (_ & Hrb & _); [|lia].
    split.
    + apply bal_range_set_acct; [apply bal_range_set_acct; [exact Hr|lia]|]. rewrite Hrb. apply add256_range.
    + intros a Hroom. rewrite !bal_of_set_acct.
      pose proof (bal_of_lookup _ _ _ Hs) as Hbs. pose proof (bal_of_lookup _ _ _ Hrc) as Hbr.
      destruct (t_from t =? t_to t)%N eqn:Eft.
      * apply N.eqb_eq in Eft. rewrite <- Eft in *.
        rewrite Hb', add256_small in Hrb by lia.
        destruct (decide (t_from t = a)) as [<-|Hne].
        -- destruct (decide (t_from t = t_from t)); [lia|congruence].
        -- destruct (decide (a = t_from t)); [congruence|]. lia.
      * apply N.eqb_neq in Eft.
        destruct (decide (t_to t = a)) as [<-|Hne].
        -- destruct (decide (t_to t = t_to t)); [|congruence]. destruct (decide (t_to t = t_from t)); [congruence|].
           destruct Hroom as [(_ & Hx)|Hroom]; [congruence|].
           unfold tx_in in Hroom. rewrite Hty in Hroom. cbn in Hroom.
           destruct (decide (t_to t = t_to t)); [|congruence].
           rewrite Hrb, add256_small by lia. lia.
        -- destruct (decide (a = t_to t)); [congruence|].
           destruct (decide (t_from t = a)) as [<-|Hne2].
           ++ destruct (decide (t_from t = t_from t)); [|congruence]. lia.
           ++ destruct (decide (a = t_from t)); [congruence|]. lia.
  - (* staking *)
    rewrite exec_native_staking in He by exact Hty.
    apply stake_execute_staking_inv in He as (d & sender & sender' & _ & Hs & Hsub & ->); [|exact Hty].
    pose proof (Hr _ _ Hs) as Hsr.
    apply sub_balance_Some in Hsub as (Hle & Hb' & _); [|lia|exact Hsr].
    split.
    + intros a x. rewrite accts_set_dels. apply bal_range_set_acct; [exact Hr|lia].
    + intros a _. rewrite bal_of_set_dels, bal_of_set_acct.
      pose proof (bal_of_lookup _ _ _ Hs) as Hbs.
      destruct (decide (t_from t = a)) as [<-|Hne].
      * destruct (decide (t_from t = t_from t)); [|congruence]. lia.
      * destruct (decide (a = t_from t)); [congruence|]. lia.
  - (* unstaking *)
    rewrite exec_native_unstaking in He by exact Hty.
    apply stake_execute_unstaking_accts in He as (Ha & _); [|exact Hty].
    split; [intros a x; rewrite Ha; apply Hr|].
    intros a _. rewrite (bal_of_same_accts _ _ a Ha). destruct (decide (a = t_from t)); lia.
  - (* proposal *)
    rewrite exec_native_proposal in He by exact Hty. apply gov_execute_accts in He as (Ha & _).
    split; [intros a x; rewrite Ha; apply Hr|].
    intros a _. rewrite (bal_of_same_accts _ _ a Ha). destruct (decide (a = t_from t)); lia.
  - (* voting *)
    rewrite exec_native_voting in He by exact Hty. apply gov_execute_accts in He as (Ha & _).
    split; [intros a x; rewrite Ha; apply Hr|].
    intros a _. rewrite (bal_of_same_accts _ _ a Ha). destruct (decide (a = t_from t)); lia.
  - (* setdoc *)
    rewrite exec_native_setdoc in He by exact Hty.
    apply acct_execute_setdoc_inv in He as (sender & x & Hs & Hb & _ & _ & ->); [|exact Hty].
    pose proof (Hr _ _ Hs) as Hsr.
    split; [apply bal_range_set_acct; [exact Hr|lia]|].
    intros a _. rewrite bal_of_set_acct. pose proof (bal_of_lookup _ _ _ Hs) as Hbs.
    destruct (decide (t_from t = a)) as [<-|Hne].
    + destruct (decide (t_from t = t_from t)); lia.
    + destruct (decide (a = t_from t)); lia.
  - (* withdraw *)
    rewrite exec_native_withdraw in He by exact Hty.
    apply stake_execute_withdraw_inv in He as (req & r0 & r' & x & x' & Hpay & _ & Hx & Hadd & ->); [|exact Hty].
    specialize (Hpl req Hty Hpay). rewrite Hpay in *.
    apply add_balance_Some in Hadd as (_ & Hb' & _); [|lia].
    pose proof (Hr _ _ Hx) as Hxr.
    split; [apply bal_range_set_acct; [exact Hr|rewrite Hb'; apply add256_range]|].
    intros a Hroom. rewrite bal_of_set_acct, bal_of_set_rewards.
    pose proof (bal_of_lookup _ _ _ Hx) as Hbx.
    destruct (decide (t_from t = a)) as [<-|Hne].
    + destruct (decide (t_from t = t_from t)); [|congruence].
      destruct Hroom as [(Hx1 & _)|Hroom]; [discriminate Hx1|].
      unfold tx_in in Hroom. rewrite Hty, Hpay in Hroom. cbn in Hroom.
      destruct (decide (t_from t = t_from t)); [|congruence].
      rewrite Hb', add256_small by lia. lia.
    + destruct (decide (a = t_from t)); [congruence|]. lia.
Qed.

(* C16, exact cost on the native path: gas used is the whole gas limit; every balance changes by
   exactly (what the transaction credits) - (fee and what the transaction takes, for the sender);
   in particular all accounts other than sender / receiver keep their balance.  Equations are
   over Z: nothing wraps. *)
Theorem deliver_native_balances s t s' g :
  deliver s t = (s', Ok g) -> native s t -> tx_wf t -> payload_wf t -> bal_range (work s) ->
  g = t_gas t /\ bal_range (work s') /\
  forall a, room_for (work s) t a ->
    bal_of (work s') a = bal_of (work s) a + tx_in t a - (if decide (a = t_from t) then fee_of t + tx_out t else 0).
Proof.
  intros Hd Hn Hwf Hpl Hr.
  apply deliver_ok_inv in Hd as (sender & lim' & Hs & H0 & H1 & Hv & Hd). cbv zeta in Hd.
  rewrite receiver_of_eq in Hv, Hd. unfold native in Hn. rewrite Hn in Hd.
  destruct Hd as (l' & snd' & snd'' & He & Hsn & Hsub & -> & ->).
  split; [reflexivity|].
  assert (Hr0 : bal_range (work (with_lim (pre_state s t) lim'))).
  { cbn [work with_lim]. rewrite pre_state_work. apply bal_range_find_or_new. exact Hr. }
  destruct (exec_native_balances _ _ _ _ _ _ Hv Hn He Hwf Hpl Hr0) as (Hr' & Hbal).
  pose proof (Hr' _ _ Hsn) as Hsr. pose proof (fee_of_range t) as Hfr.
  apply sub_balance_Some in Hsub as (Hle & Hb'' & _); [|lia|exact Hsr].
  cbn [work with_bctx with_work].
  split; [apply bal_range_set_acct; [exact Hr'|rewrite add_nonce_bal; lia]|].
  intros a Hroom. rewrite bal_of_set_acct.
  assert (Hroom' : room_for (work (with_lim (pre_state s t) lim')) t a).
  { unfold room_for in *. cbn [work with_lim]. rewrite pre_state_work, bal_of_find_or_new. exact Hroom. }
  specialize (Hbal a Hroom'). cbn [work with_lim] in Hbal. rewrite pre_state_work, bal_of_find_or_new in Hbal.
  destruct (decide (t_from t = a)) as [<-|Hne].
  - destruct (decide (t_from t = t_from t)); [|congruence].
    rewrite add_nonce_bal, Hb''. rewrite (bal_of_lookup _ _ _ Hsn) in Hbal. lia.
  - destruct (decide (a = t_from t)); [congruence|]. lia.
Qed.
Print Assumptions deliver_native_balances.

(* readable instances *)
Lemma payload_wf_other t : t_type t <> TRX_WITHDRAW -> payload_wf t.
Proof. intros H req Hty. contradiction. Qed.

Corollary deliver_transfer_cost s t s' g :
  deliver s t = (s', Ok g) -> native s t -> t_type t = TRX_TRANSFER -> tx_wf t -> ranges_ok (work s) ->
  g = t_gas t /\
  (t_from t <> t_to t ->
     bal_of (work s') (t_from t) = bal_of (work s) (t_from t) - fee_of t - t_amount t /\
     (bal_of (work s) (t_to t) + t_amount t < two256 ->
      bal_of (work s') (t_to t) = bal_of (work s) (t_to t) + t_amount t)) /\
  (t_from t = t_to t -> bal_of (work s') (t_from t) = bal_of (work s) (t_from t) - fee_of t) /\
  (forall a, a <> t_from t -> a <> t_to t -> bal_of (work s') a = bal_of (work s) a).
Proof.
  intros Hd Hn Hty Hwf Hr.
  assert (Hpl : payload_wf t) by (apply payload_wf_other; rewrite Hty; discriminate).
  destruct (deliver_native_balances _ _ _ _ Hd Hn Hwf Hpl (ranges_ok_bal_range _ Hr)) as (Hg & _ & Hb).
  split; [exact Hg|].
  assert (Hin : forall a, tx_in t a = if decide (a = t_to t) then t_amount t else 0).
  { intros a. unfold tx_in. rewrite Hty. reflexivity. }
  assert (Hout : tx_out t = t_amount t) by (unfold tx_out; rewrite Hty; reflexivity).
  split; [|split].
  - intros Hne. split.
    + rewrite (Hb (t_from t)) by (left; auto). rewrite Hin, Hout.
      destruct (decide (t_from t = t_to t)); [contradiction|]. destruct (decide (t_from t = t_from t)); [lia|congruence].
    + intros Hroom. rewrite (Hb (t_to t)).
      * rewrite Hin. destruct (decide (t_to t = t_to t)); [|congruence].
        destruct (decide (t_to t = t_from t)); [congruence|]. lia.
      * right. rewrite Hin. destruct (decide (t_to t = t_to t)); [exact Hroom|congruence].
  - intros Heq. rewrite (Hb (t_from t)) by (left; auto). rewrite Hin, Hout.
    destruct (decide (t_from t = t_to t)); [|contradiction]. destruct (decide (t_from t = t_from t)); [lia|congruence].
  - intros a Hna Hnb. rewrite (Hb a).
    + rewrite Hin. destruct (decide (a = t_to t)); [contradiction|]. destruct (decide (a = t_from t)); [contradiction|]. lia.
    + right. rewrite Hin. destruct (decide (a = t_to t)); [contradiction|].
      pose proof (bal_range_bal_of _ a (ranges_ok_bal_range _ Hr)). lia.
Qed.

Corollary deliver_staking_cost s t s' g :
  deliver s t = (s', Ok g) -> native s t -> t_type t = TRX_STAKING -> tx_wf t -> ranges_ok (work s) ->
  g = t_gas t /\
  bal_of (work s') (t_from t) = bal_of (work s) (t_from t) - fee_of t - t_amount t /\
  (forall a, a <> t_from t -> bal_of (work s') a = bal_of (work s) a).
Proof.
  intros Hd Hn Hty Hwf Hr.
  assert (Hpl : payload_wf t) by (apply payload_wf_other; rewrite Hty; discriminate).
  destruct (deliver_native_balances _ _ _ _ Hd Hn Hwf Hpl (ranges_ok_bal_range _ Hr)) as (Hg & _ & Hb).
  split; [exact Hg|].
  assert (Hin : forall a, tx_in t a = 0) by (intros a; unfold tx_in; rewrite Hty; reflexivity).
  assert (Hout : tx_out t = t_amount t) by (unfold tx_out; rewrite Hty; reflexivity).
  assert (Hroom : forall a, room_for (work s) t a).
  { intros a. right. rewrite Hin. pose proof (bal_range_bal_of _ a (ranges_ok_bal_range _ Hr)). lia. }
  split.
  - rewrite (Hb _ (Hroom _)), Hin, Hout. destruct (decide (t_from t = t_from t)); [lia|congruence].
  - intros a Hne. rewrite (Hb _ (Hroom _)), Hin. destruct (decide (a = t_from t)); [contradiction|lia].
Qed.

Corollary deliver_withdraw_cost s t s' g req :
  deliver s t = (s', Ok g) -> native s t -> t_type t = TRX_WITHDRAW -> t_payload t = PWithdraw req ->
  tx_wf t -> 0 <= req < two256 -> ranges_ok (work s) ->
  bal_of (work s) (t_from t) + req < two256 ->
  g = t_gas t /\
  bal_of (work s') (t_from t) = bal_of (work s) (t_from t) + req - fee_of t /\
  (forall a, a <> t_from t -> bal_of (work s') a = bal_of (work s) a).
Proof.
  intros Hd Hn Hty Hpay Hwf Hreq Hr Hfit.
  assert (Hpl : payload_wf t).
  { intros req' _ Hp'. rewrite Hpay in Hp'. injection Hp' as <-. exact Hreq. }
  destruct (deliver_native_balances _ _ _ _ Hd Hn Hwf Hpl (ranges_ok_bal_range _ Hr)) as (Hg & _ & Hb).
  split; [exact Hg|].
  assert (Hin : forall a, tx_in t a = if decide (a = t_from t) then req else 0).
  { intros a. unfold tx_in. rewrite Hty, Hpay. reflexivity. }
  assert (Hout : tx_out t = 0) by (unfold tx_out; rewrite Hty; reflexivity).
  split.
  - rewrite (Hb (t_from t)).
    + rewrite Hin, Hout. destruct (decide (t_from t = t_from t)); [lia|congruence].
    + right. rewrite Hin. destruct (decide (t_from t = t_from t)); [exact Hfit|congruence].
  - intros a Hne. rewrite (Hb a).
    + rewrite Hin. destruct (decide (a = t_from t)); [contradiction|lia].
    + right. rewrite Hin. destruct (decide (a = t_from t)); [contradiction|].
      pose proof (bal_range_bal_of _ a (ranges_ok_bal_range _ Hr)). lia.
Qed.

(* unstaking, proposal, voting, setdoc: the fee and nothing else *)
Corollary deliver_other_cost s t s' g :
  deliver s t = (s', Ok g) -> native s t ->
  t_type t <> TRX_TRANSFER -> t_type t <> TRX_STAKING -> t_type t <> TRX_WITHDRAW ->
  tx_wf t -> ranges_ok (work s) ->
  g = t_gas t /\
  bal_of (work s') (t_from t) = bal_of (work s) (t_from t) - fee_of t /\
  (forall a, a <> t_from t -> bal_of (work s') a = bal_of (work s) a).
Proof.
  intros Hd Hn H1 H2 H8 Hwf Hr.
  assert (Hpl : payload_wf t) by (apply payload_wf_other; exact H8).
  destruct (deliver_native_balances _ _ _ _ Hd Hn Hwf Hpl (ranges_ok_bal_range _ Hr)) as (Hg & _ & Hb).
  split; [exact Hg|].
  apply Z.eqb_neq in H1, H2, H8.
  assert (Hin : forall a, tx_in t a = 0) by (intros a; unfold tx_in; rewrite H1, H8; reflexivity).
  assert (Hout : tx_out t = 0) by (unfold tx_out; rewrite H1, H2; reflexivity).
  assert (Hroom : forall a, room_for (work s) t a).
  { intros a. right. rewrite Hin. pose proof (bal_range_bal_of _ a (ranges_ok_bal_range _ Hr)). lia. }
  split.
  - rewrite (Hb _ (Hroom _)), Hin, Hout. destruct (decide (t_from t = t_from t)); [lia|congruence].
  - intros a Hne. rewrite (Hb _ (Hroom _)), Hin. destruct (decide (a = t_from t)); [contradiction|lia].
Qed.

(* ================================================================== F3: the fee sum of the block *)
Lemma post_run_bctx s2 gp t l' s' r :
  post_run s2 gp t l' = (s', r) ->
  bctx s' = match r with Ok g => add_fee (bctx s2) (mul256 g gp) | _ => bctx s2 end /\
  gparams s' = gparams s2 /\ committed s' = committed s2 /\ last_height s' = last_height s2.
Proof.
  unfold post_run. destruct (accts l' !! t_from t) as [snd'|]; [|intros [= <- <-]; auto].
  destruct (sub_balance snd' (fee_of t)) as [snd''|]; intros [= <- <-]; auto.
Qed.

(* what [deliver] does to the block context and the control part, whatever the outcome *)
Lemma deliver_bctx s t s' r :
  deliver s t = (s', r) ->
  b_height (bctx s') = b_height (bctx s) /\ b_proposer (bctx s') = b_proposer (bctx s) /\
  b_feesum (bctx s') = match r with
                       | Ok g => add256 (b_feesum (bctx s)) (mul256 g (g_gasPrice (gparams s)))
                       | _ => b_feesum (bctx s) end /\
  gparams s' = gparams s /\ committed s' = committed s /\ last_height s' = last_height s.
Proof.
  rewrite deliver_eq. destruct (accts (work s) !! t_from t) as [sender|]; [|intros [= <- <-]; auto 10].
  unfold deliver_body.
  destruct (common_validation0 (gparams s) t) as [e|]; [intros [= <- <-]; auto 10|].
  destruct (common_validation1 sender t) as [e|]; [intros [= <- <-]; auto 10|].
  destruct (validated_of (pre_state s t) (receiver_of s t) t) as [lim'|e|p]; [|intros [= <- <-]; auto 10..].
  destruct (evm_path_of t (receiver_of s t)).
  - destruct (evm_execute _ t) as [[l' gas]|e|p]; intros [= <- <-]; auto 10.
  - destruct (exec_native _ t) as [l'|e|p]; [|intros [= <- <-]; auto 10..].
    intros H. apply post_run_bctx in H as (Hb & Hg & Hc & Hl). rewrite Hb, Hg, Hc, Hl.
    destruct r; auto 10.
Qed.

(* C16: on success (either path) the fee sum grows by gas used x governance price, on failure or
   panic it does not change *)
Theorem deliver_feesum s t s' r :
  deliver s t = (s', r) ->
  b_feesum (bctx s') = match r with
                       | Ok g => add256 (b_feesum (bctx s)) (mul256 g (g_gasPrice (gparams s)))
                       | _ => b_feesum (bctx s) end.
Proof. intros H. apply deliver_bctx in H. tauto. Qed.
Print Assumptions deliver_feesum.

(* on the native path that increment is exactly what the sender paid as fee *)
Corollary deliver_native_feesum s t s' g :
  deliver s t = (s', Ok g) -> native s t ->
  b_feesum (bctx s') = add256 (b_feesum (bctx s)) (fee_of t).
Proof.
  intros Hd Hn. rewrite (deliver_feesum _ _ _ _ Hd).
  pose proof (deliver_ok_admission _ _ _ _ Hd) as (Hp & _).
  apply deliver_ok_inv in Hd as (sender & lim' & _ & _ & _ & _ & Hd). cbv zeta in Hd.
  rewrite receiver_of_eq in Hd. unfold native in Hn. rewrite Hn in Hd.
  destruct Hd as (l' & snd' & snd'' & _ & _ & _ & -> & _).
  unfold fee_of, mul256. rewrite Hp, Z.mul_comm. reflexivity.
Qed.

(* ================================================================== F5: end of block *)
(* folds over [res]: once failed, a fold stays failed *)
Definition res_stuck {A B} (f : res A -> B -> res A) : Prop :=
  (forall e b, f (Err e) b = Err e) /\ (forall p b, f (Panic p) b = Panic p).

Lemma foldl_stuck_Err {A B} (f : res A -> B -> res A) e items : res_stuck f -> foldl f (Err e) items = Err e.
Proof. intros (He & _). induction items as [|b items IH]; simpl; [reflexivity|]. rewrite He. exact IH. Qed.
Lemma foldl_stuck_Panic {A B} (f : res A -> B -> res A) p items : res_stuck f -> foldl f (Panic p) items = Panic p.
Proof. intros (_ & Hp). induction items as [|b items IH]; simpl; [reflexivity|]. rewrite Hp. exact IH. Qed.

(* invariant-style induction for such folds *)
Lemma foldl_res_ind {A B} (f : res A -> B -> res A) (P : A -> A -> Prop) :
  res_stuck f -> (forall a, P a a) -> (forall a b c, P a b -> P b c -> P a c) ->
  (forall a b a', f (Ok a) b = Ok a' -> P a a') ->
  forall items a a', foldl f (Ok a) items = Ok a' -> P a a'.
Proof.
  intros Hst Hrefl Htrans Hstep. induction items as [|b items IH]; simpl; intros a a' H.
  - injection H as <-. apply Hrefl.
  - destruct (f (Ok a) b) as [a1|e|p] eqn:E.
    + apply Htrans with a1; [apply (Hstep _ _ _ E)|apply IH; exact H].
    + rewrite foldl_stuck_Err in H by exact Hst. discriminate.
    + rewrite foldl_stuck_Panic in H by exact Hst. discriminate.
Qed.

(* the part of a ledger state that carries value *)
Definition same_money (l l' : ledgers) : Prop :=
  accts l' = accts l /\ dels l' = dels l /\ frozen l' = frozen l /\ rewards l' = rewards l.
Lemma same_money_refl l : same_money l l. Proof. repeat split. Qed.
Lemma same_money_trans a b c : same_money a b -> same_money b c -> same_money a c.
Proof. intros (H1 & H2 & H3 & H4) (G1 & G2 & G3 & G4). repeat split; congruence. Qed.

Definition freeze_step (h : Z) (acc : res ledgers) (kp : hash * proposal) : res ledgers :=
  match acc with
  | Ok l =>
      let p := kp.2 in
      if p_end p <? h then
        match props l !! kp.1 with
        | None => Panic P_ENDBLOCK
        | Some _ =>
            let l1 := set_props l (delete kp.1 (props l)) in
            match update_major p with
            | Ok p' => match p_major p' with
                       | Some _ => Ok (set_fprops l1 (<[kp.1 := p']> (fprops l1)))
                       | None => Ok l1 end
            | Err e => Err e | Panic x => Panic x
            end
        end
      else Ok l
  | x => x end.

Lemma freeze_proposals_eq base l h : freeze_proposals base l h = foldl (freeze_step h) (Ok l) (sorted_items (props base)).
Proof. reflexivity. Qed.

Lemma freeze_proposals_money base l h l1 : freeze_proposals base l h = Ok l1 -> same_money l l1.
Proof.
  rewrite freeze_proposals_eq. apply foldl_res_ind.
  - split; reflexivity.
  - apply same_money_refl.
  - apply same_money_trans.
  - intros a kp a'. unfold freeze_step.
    destruct (p_end kp.2 <? h); [|intros [= <-]; apply same_money_refl].
    destruct (props a !! kp.1); [|discriminate].
    destruct (update_major kp.2) as [p'|e|x]; [|discriminate..].
    destruct (p_major p'); intros [= <-]; repeat split.
Qed.

Definition apply_step (s : state) (h : Z) (acc : res (ledgers * option params)) (kp : hash * proposal)
  : res (ledgers * option params) :=
  match acc with
  | Ok (l, np) =>
      let p := kp.2 in
      if p_apply p <=? h then
        match fprops l !! kp.1 with
        | None => Panic P_ENDBLOCK
        | Some _ =>
            let l1 := set_fprops l (delete kp.1 (fprops l)) in
            match p_major p with
            | Some o =>
                if p_opttype p =? PROPOSAL_GOVPARAMS then
                  match o_params o with
                  | Some newp => let m := merge_params (gparams s) newp in Ok (set_lparams l1 m, Some m)
                  | None => Panic P_ENDBLOCK
                  end
                else Ok (l1, np)
            | None => Ok (l1, np)
            end
        end
      else Ok (l, np)
  | x => x end.

Lemma apply_proposals_eq s base l h :
  apply_proposals s base l h = foldl (apply_step s h) (Ok (l, newparams s)) (sorted_items (fprops base)).
Proof. reflexivity. Qed.

Lemma apply_proposals_money s base l h l2 np : apply_proposals s base l h = Ok (l2, np) -> same_money l l2.
Proof.
  rewrite apply_proposals_eq.
  apply (foldl_res_ind (apply_step s h) (fun x y => same_money x.1 y.1)).
  - split; reflexivity.
  - intros a. apply same_money_refl.
  - intros a b c. apply same_money_trans.
  - intros [a np0] kp [a' np']. unfold apply_step. cbn [fst].
    destruct (p_apply kp.2 <=? h); [|intros [= <- <-]; apply same_money_refl].
    destruct (fprops a !! kp.1); [|discriminate].
    destruct (p_major kp.2) as [o|]; [|intros [= <- <-]; repeat split].
    destruct (p_opttype kp.2 =? PROPOSAL_GOVPARAMS); [|intros [= <- <-]; repeat split].
    destruct (o_params o); [|discriminate]. intros [= <- <-]; repeat split.
Qed.

(* AcctCtrler.EndBlock: the block's fee sum goes to the proposer *)
Definition pay_proposer (l2 : ledgers) (b : blockctx) : option ledgers :=
  match b_proposer b with
  | Some pa => if 0 <? sign256 (b_feesum b) then
                 match add_balance (default acct0 (accts l2 !! pa)) (b_feesum b) with
                 | Some x => Some (set_acct l2 pa x) | None => None end
               else Some l2
  | None => Some l2 end.

Definition unfreeze_step (h : Z) (acc : res ledgers) (kp : hash * stake) : res ledgers :=
  match acc with
  | Ok l =>
      let s0 := kp.2 in
      if s_refund s0 <=? h then
        match acct_reward l (s_from s0) (power_to_amount (s_power s0)) with
        | None => Panic P_ENDBLOCK
        | Some l1 => Ok (set_frozen l1 (delete kp.1 (frozen l1)))
        end
      else Ok l
  | x => x end.

Lemma unfreeze_eq base l h : unfreeze base l h = foldl (unfreeze_step h) (Ok l) (sorted_items (frozen base)).
Proof. reflexivity. Qed.

Lemma end_block_inv s s' r :
  end_block s = (s', r) ->
  match r with
  | Ok ups =>
      exists l1 l2 np l3,
        freeze_proposals (base_of s) (work s) (b_height (bctx s)) = Ok l1 /\
        apply_proposals s (base_of s) l1 (b_height (bctx s)) = Ok (l2, np) /\
        pay_proposer l2 (bctx s) = Some l3 /\
        unfreeze (base_of s) l3 (b_height (bctx s)) = Ok (work s') /\
        bctx s' = bctx s /\ committed s' = committed s /\ gparams s' = gparams s /\ newparams s' = np /\
        last_height s' = last_height s
  | _ => s' = s
  end.
Proof.
  unfold end_block. fold (pay_proposer).
  destruct (freeze_proposals (base_of s) (work s) (b_height (bctx s))) as [l1|e|p]; [|intros [= <- <-]; reflexivity..].
  destruct (apply_proposals s (base_of s) l1 (b_height (bctx s))) as [[l2 np]|e|p] eqn:Ea; [|intros [= <- <-]; reflexivity..].
  change (match b_proposer (bctx s) with
          | Some pa => if 0 <? sign256 (b_feesum (bctx s)) then
                 match add_balance (default acct0 (accts l2 !! pa)) (b_feesum (bctx s)) with
                 | Some x => Some (set_acct l2 pa x) | None => None end
               else Some l2
          | None => Some l2 end) with (pay_proposer l2 (bctx s)).
  destruct (pay_proposer l2 (bctx s)) as [l3|] eqn:Ep; [|intros [= <- <-]; reflexivity].
  destruct (unfreeze (base_of s) l3 (b_height (bctx s))) as [l4|e|p] eqn:Eu; [|intros [= <- <-]; reflexivity..].
  destruct (g_maxValidatorCnt (gparams s) <? 0); intros [= <- <-]; [reflexivity|].
  exists l1, l2, np, l3. cbn. repeat split; assumption.
Qed.

Lemma unfreeze_step_stuck h : res_stuck (unfreeze_step h).
Proof. split; reflexivity. Qed.

Lemma acct_reward_inv l a amt l' :
  acct_reward l a amt = Some l' ->
  exists x x', accts l !! a = Some x /\ add_balance x amt = Some x' /\ l' = set_acct l a x'.
Proof.
  unfold acct_reward. destruct (accts l !! a) as [x|]; [|discriminate]. cbn [mbind option_bind].
  destruct (add_balance x amt) as [x'|] eqn:E; [|discriminate]. cbn [mbind option_bind].
  intros [= <-]. exists x, x'. auto.
Qed.

Lemma unfreeze_step_inv h l kp l' :
  unfreeze_step h (Ok l) kp = Ok l' ->
  ((s_refund kp.2 <=? h) = false /\ l' = l) \/
  ((s_refund kp.2 <=? h) = true /\
   exists x x', accts l !! s_from kp.2 = Some x /\ add_balance x (power_to_amount (s_power kp.2)) = Some x' /\
     l' = set_frozen (set_acct l (s_from kp.2) x') (delete kp.1 (frozen l))).
Proof.
  unfold unfreeze_step. destruct (s_refund kp.2 <=? h); [|intros [= <-]; left; auto].
  destruct (acct_reward l (s_from kp.2) (power_to_amount (s_power kp.2))) as [l1|] eqn:E; [|discriminate].
  apply acct_reward_inv in E as (x & x' & Hx & Ha & ->). intros [= <-]. right. split; [reflexivity|].
  exists x, x'. auto.
Qed.

(* what one matured stake pays to account [a] *)
Definition refund_of (h : Z) (a : addr) (kp : hash * stake) : Z :=
  if (s_refund kp.2 <=? h) && (s_from kp.2 =? a)%N then power_to_amount (s_power kp.2) else 0.
Definition refunds_to (items : list (hash * stake)) (h : Z) (a : addr) : Z := sumZ_with (refund_of h a) items.

Lemma power_to_amount_range p : 0 <= power_to_amount p < two256.
Proof. apply mul256_range. Qed.

Lemma refund_of_nonneg h a kp : 0 <= refund_of h a kp.
Proof. unfold refund_of. destruct (_ && _); [apply power_to_amount_range|lia]. Qed.

Lemma sumZ_with_nonneg {A} (f : A -> Z) l : (forall x, 0 <= f x) -> 0 <= sumZ_with f l.
Proof. intros H. induction l as [|x l IH]; simpl; [lia|]. specialize (H x). lia. Qed.

Lemma refunds_to_nonneg items h a : 0 <= refunds_to items h a.
Proof. apply sumZ_with_nonneg. intros kp. apply refund_of_nonneg. Qed.

Lemma unfreeze_fold_balances h items : forall l l4,
  foldl (unfreeze_step h) (Ok l) items = Ok l4 -> bal_range l ->
  bal_range l4 /\
  forall a, bal_of l a + refunds_to items h a < two256 -> bal_of l4 a = bal_of l a + refunds_to items h a.
Proof.
  induction items as [|kp items IH]; intros l l4 Hf Hr.
  - simpl in Hf. injection Hf as <-. split; [exact Hr|]. intros a _. unfold refunds_to. simpl. lia.
  - cbn [foldl] in Hf. destruct (unfreeze_step h (Ok l) kp) as [l1|e|p] eqn:E.
    2:{ rewrite foldl_stuck_Err in Hf by apply unfreeze_step_stuck. discriminate. }
    2:{ rewrite foldl_stuck_Panic in Hf by apply unfreeze_step_stuck. discriminate. }
    apply unfreeze_step_inv in E as [(Em & ->)|(Em & x & x' & Hx & Ha & ->)].
    + destruct (IH _ _ Hf Hr) as (Hr4 & Hb). split; [exact Hr4|].
      intros a Hroom. unfold refunds_to in *. simpl in *. unfold refund_of at 1 in Hroom. unfold refund_of at 1.
      rewrite Em in *. cbn [andb] in *. rewrite Hb by lia. lia.
    + pose proof (power_to_amount_range (s_power kp.2)) as Hamt.
      apply add_balance_Some in Ha as (_ & Hb' & _); [|lia].
      assert (Hr1 : bal_range (set_frozen (set_acct l (s_from kp.2) x') (delete kp.1 (frozen l)))).
      { intros a y. rewrite accts_set_frozen. apply bal_range_set_acct; [exact Hr|]. rewrite Hb'. apply add256_range. }
      destruct (IH _ _ Hf Hr1) as (Hr4 & Hb). split; [exact Hr4|].
      intros a Hroom. unfold refunds_to in *. simpl in *. unfold refund_of at 1 in Hroom. unfold refund_of at 1.
      rewrite Em in *. cbn [andb] in *.
      pose proof (sumZ_with_nonneg (refund_of h a) items (refund_of_nonneg h a)) as Hnn.
      pose proof (bal_of_lookup _ _ _ Hx) as Hbx. pose proof (Hr _ _ Hx) as Hxr.
      specialize (Hb a). rewrite bal_of_set_frozen, bal_of_set_acct in Hb.
      destruct (s_from kp.2 =? a)%N eqn:Ea.
      * apply N.eqb_eq in Ea. subst a. destruct (decide (s_from kp.2 = s_from kp.2)); [|congruence].
        rewrite Hb', add256_small in Hb by lia. rewrite Hb by lia. lia.
      * apply N.eqb_neq in Ea. destruct (decide (s_from kp.2 = a)); [contradiction|]. rewrite Hb by lia. lia.
Qed.

Lemma pay_proposer_balances l2 b l3 :
  pay_proposer l2 b = Some l3 -> bal_range l2 -> 0 <= b_feesum b < two256 ->
  let fee := if 0 <? sign256 (b_feesum b) then b_feesum b else 0 in
  dels l3 = dels l2 /\ frozen l3 = frozen l2 /\ rewards l3 = rewards l2 /\ bal_range l3 /\
  forall a, (b_proposer b = Some a -> bal_of l2 a + fee < two256) ->
    bal_of l3 a = bal_of l2 a + (if decide (b_proposer b = Some a) then fee else 0).
Proof.
  unfold pay_proposer. intros Hp Hr Hf. cbv zeta.
  destruct (b_proposer b) as [pa|].
  2:{ injection Hp as <-. refine (conj eq_refl (conj eq_refl (conj eq_refl (conj Hr _)))).
      intros a _. destruct (decide (None = Some a)); [discriminate|lia]. }
  destruct (0 <? sign256 (b_feesum b)) eqn:Es.
  2:{ injection Hp as <-. refine (conj eq_refl (conj eq_refl (conj eq_refl (conj Hr _)))).
      intros a _. destruct (decide (Some pa = Some a)); lia. }
  destruct (add_balance (default acct0 (accts l2 !! pa)) (b_feesum b)) as [x|] eqn:Ea; [|discriminate].
  injection Hp as <-. apply add_balance_Some in Ea as (_ & Hb & _); [|lia].
  refine (conj eq_refl (conj eq_refl (conj eq_refl (conj _ _)))).
  - apply bal_range_set_acct; [exact Hr|]. rewrite Hb. apply add256_range.
  - intros a Hroom. rewrite bal_of_set_acct.
    pose proof (bal_range_bal_of _ pa Hr) as Hpr. change (a_bal (default acct0 (accts l2 !! pa))) with (bal_of l2 pa) in Hb.
    destruct (decide (pa = a)) as [<-|Hne].
    + destruct (decide (Some pa = Some pa)); [|congruence]. specialize (Hroom eq_refl).
      rewrite Hb, add256_small by lia. reflexivity.
    + destruct (decide (Some pa = Some a)) as [Heq|_]; [congruence|]. lia.
Qed.

(* C16, end of block: every balance grows by exactly the block's fee sum (for the proposer, when
   the sum is positive as the code tests it: 0 < sum < 2^255) plus the refunds of the matured
   unbonding stakes of the committed tree; nobody receives fees when there is no proposer.
   Exact over Z under the stated room hypothesis (InvSupply derives it from the supply bound). *)
Definition end_fee (b : blockctx) (a : addr) : Z :=
  if decide (b_proposer b = Some a) then (if 0 <? sign256 (b_feesum b) then b_feesum b else 0) else 0.

Theorem end_block_balances s s' ups :
  end_block s = (s', Ok ups) -> bal_range (work s) -> 0 <= b_feesum (bctx s) < two256 ->
  let h := b_height (bctx s) in
  let items := sorted_items (frozen (base_of s)) in
  bal_range (work s') /\
  forall a, bal_of (work s) a + end_fee (bctx s) a + refunds_to items h a < two256 ->
    bal_of (work s') a = bal_of (work s) a + end_fee (bctx s) a + refunds_to items h a.
Proof.
  intros He Hr Hf. cbv zeta.
  apply end_block_inv in He as (l1 & l2 & np & l3 & H1 & H2 & H3 & H4 & _).
  apply freeze_proposals_money in H1 as (Ha1 & _). apply apply_proposals_money in H2 as (Ha2 & _).
  assert (Hr2 : bal_range l2) by (intros a x; rewrite Ha2, Ha1; apply Hr).
  destruct (pay_proposer_balances _ _ _ H3 Hr2 Hf) as (_ & _ & _ & Hr3 & Hb3).
  rewrite unfreeze_eq in H4. destruct (unfreeze_fold_balances _ _ _ _ H4 Hr3) as (Hr4 & Hb4).
  split; [exact Hr4|]. intros a Hroom.
  pose proof (refunds_to_nonneg (sorted_items (frozen (base_of s))) (b_height (bctx s)) a) as Hnn.
  assert (Hl2 : bal_of l2 a = bal_of (work s) a).
  { rewrite (bal_of_same_accts _ _ a Ha2). apply bal_of_same_accts. exact Ha1. }
  unfold end_fee in *.
  assert (Hb3a : bal_of l3 a = bal_of (work s) a +
            (if decide (b_proposer (bctx s) = Some a) then if 0 <? sign256 (b_feesum (bctx s)) then b_feesum (bctx s) else 0 else 0)).
  { rewrite Hb3, Hl2; [reflexivity|]. intros Hpa. rewrite Hl2.
    destruct (decide (b_proposer (bctx s) = Some a)); [|contradiction]. lia. }
  rewrite Hb4; rewrite Hb3a; lia.
Qed.
Print Assumptions end_block_balances.

(* the two readings asked for *)
Corollary end_block_proposer_credit s s' ups pa :
  end_block s = (s', Ok ups) -> bal_range (work s) -> b_proposer (bctx s) = Some pa ->
  0 < b_feesum (bctx s) < two255 ->
  let refunds := refunds_to (sorted_items (frozen (base_of s))) (b_height (bctx s)) pa in
  bal_of (work s) pa + b_feesum (bctx s) + refunds < two256 ->
  bal_of (work s') pa = bal_of (work s) pa + b_feesum (bctx s) + refunds.
Proof.
  intros He Hr Hp Hf. cbv zeta. intros Hroom.
  assert (Hf' : 0 <= b_feesum (bctx s) < two256) by (pose proof two255_two256; lia).
  destruct (end_block_balances _ _ _ He Hr Hf') as (_ & Hb). cbv zeta in Hb.
  assert (Hfee : end_fee (bctx s) pa = b_feesum (bctx s)).
  { unfold end_fee. destruct (decide (b_proposer (bctx s) = Some pa)); [|contradiction].
    assert (Hs : (0 <? sign256 (b_feesum (bctx s))) = true) by (apply sign256_pos_iff; lia). rewrite Hs. reflexivity. }
  rewrite Hb; rewrite Hfee; [reflexivity|exact Hroom].
Qed.

Corollary end_block_no_proposer s s' ups :
  end_block s = (s', Ok ups) -> bal_range (work s) -> b_proposer (bctx s) = None ->
  0 <= b_feesum (bctx s) < two256 ->
  forall a, let refunds := refunds_to (sorted_items (frozen (base_of s))) (b_height (bctx s)) a in
  bal_of (work s) a + refunds < two256 -> bal_of (work s') a = bal_of (work s) a + refunds.
Proof.
  intros He Hr Hp Hf a. cbv zeta. intros Hroom.
  destruct (end_block_balances _ _ _ He Hr Hf) as (_ & Hb). cbv zeta in Hb.
  assert (Hfee : end_fee (bctx s) a = 0).
  { unfold end_fee. rewrite Hp. destruct (decide (None = Some a)); [discriminate|reflexivity]. }
  rewrite Hb; rewrite Hfee; lia.
Qed.

(* [begin_block] opens every block with an empty fee sum *)
Lemma begin_block_feesum s hd s' r :
  begin_block s hd = (s', r) -> h_height hd = last_height s + 1 ->
  b_feesum (bctx s') = 0 /\ b_proposer (bctx s') = h_proposer hd /\ b_height (bctx s') = h_height hd.
Proof.
  unfold begin_block. intros H Hh. rewrite Hh, Z.eqb_refl in H. cbn [negb] in H. cbv zeta in H.
  destruct (h_votes hd) as [|v vs]; [injection H as <- <-; auto|].
  destruct (process_votes _ _ _ _) as [[l3 issued]|e|p]; injection H as <- <-; auto.
Qed.

(* ================================================================== F4: the EVM path *)
(* Oracle hypothesis on an observed effect (the interpreter is trusted, see DESIGN C17): the
   touched accounts are listed once with in-range balances, gas used does not exceed the limit,
   and what the touched accounts lose in total is exactly gas used x price plus a non-negative
   amount [burn] destroyed by the contract semantics (SELFDESTRUCT to self and the like). *)
Definition evm_effect_fee_ok (l : ledgers) (t : tx) (price : Z) (e : evm_effect) (burn : Z) : Prop :=
  NoDup ((fun x : addr * Z * Z => x.1.1) <$> e_accts e) /\
  0 <= e_gas e <= t_gas t /\
  (forall x, x ∈ e_accts e -> 0 <= x.1.2 < two256) /\
  0 <= burn /\
  sumZ_with (fun x : addr * Z * Z => x.1.2 - bal_of l x.1.1) (e_accts e) = - (e_gas e * price) - burn.

(* C16 on the EVM path: gas used is what the interpreter reports (never above the limit under the
   oracle hypothesis) and the fee sum grows by gas used x price; the balance side is
   [deliver_evm_supply] in InvSupply.v *)
Theorem deliver_evm_gas s t s' g :
  deliver s t = (s', Ok g) -> ~ native s t ->
  exists e, t_evm t = Some e /\ e_ok e = true /\ g = e_gas e /\
    b_feesum (bctx s') = add256 (b_feesum (bctx s)) (mul256 (e_gas e) (g_gasPrice (gparams s))) /\
    (forall burn, evm_effect_fee_ok (work s) t (g_gasPrice (gparams s)) e burn -> 0 <= g <= t_gas t).
Proof.
  intros Hd Hn. pose proof (deliver_feesum _ _ _ _ Hd) as Hfs. cbv iota in Hfs.
  apply deliver_ok_inv in Hd as (sender & lim' & _ & _ & _ & _ & Hd). cbv zeta in Hd.
  rewrite receiver_of_eq in Hd. unfold native in Hn.
  destruct (evm_path_of t (acct_of (work s) (t_to t))); [|contradiction Hn; reflexivity].
  destruct Hd as (l' & He & _). unfold evm_execute in He.
  destruct (t_evm t) as [e|]; [|discriminate].
  destruct (e_ok e) eqn:Eok; [|discriminate]. cbn [negb] in He. injection He as _ <-.
  exists e. repeat split; try assumption; try reflexivity; destruct H as (_ & Hg & _); lia.
Qed.
Print Assumptions deliver_evm_gas.

(* ================================================================== F6: the fee sum of a whole block *)
Fixpoint deliver_all (s : state) (txs : list tx) : state * list (res Z) :=
  match txs with
  | [] => (s, [])
  | t :: r => let '(s1, x) := deliver s t in let '(s2, xs) := deliver_all s1 r in (s2, x :: xs)
  end.

(* fee of one delivery result at a given price: gas used x price for a success, nothing otherwise *)
Definition fee_of_result (price : Z) (r : res Z) : Z := match r with Ok g => mul256 g price | _ => 0 end.
Definition block_fees (price : Z) (rs : list (res Z)) : Z := sumZ_with (fee_of_result price) rs.

Lemma deliver_all_srun s txs : (deliver_all s txs).1 = srun s (map SDeliver txs).
Proof.
  revert s. induction txs as [|t txs IH]; intros s; [reflexivity|].
  cbn [deliver_all map]. unfold srun in *. cbn [foldl sstep].
  destruct (deliver s t) as [s1 x]. cbn [fst]. rewrite <- IH. destruct (deliver_all s1 txs). reflexivity.
Qed.

Lemma deliver_all_feesum txs : forall s acc,
  b_feesum (bctx s) = wrap256 acc ->
  let '(s2, rs) := deliver_all s txs in
  b_feesum (bctx s2) = wrap256 (acc + block_fees (g_gasPrice (gparams s)) rs) /\
  gparams s2 = gparams s /\ b_proposer (bctx s2) = b_proposer (bctx s) /\ b_height (bctx s2) = b_height (bctx s).
Proof.
  induction txs as [|t txs IH]; intros s acc Hacc; cbn [deliver_all].
  - unfold block_fees. cbn. rewrite Z.add_0_r. auto.
  - destruct (deliver s t) as [s1 x] eqn:Ed.
    destruct (deliver_bctx _ _ _ _ Ed) as (Hh & Hp & Hf & Hg & _).
    assert (Hacc1 : b_feesum (bctx s1) = wrap256 (acc + fee_of_result (g_gasPrice (gparams s)) x)).
    { rewrite Hf, Hacc. destruct x as [g|e|p]; cbn [fee_of_result].
      - unfold add256, wrap256. rewrite Z.add_mod_idemp_l by (pose proof two256_pos; lia). reflexivity.
      - rewrite Z.add_0_r. reflexivity.
      - rewrite Z.add_0_r. reflexivity. }
    specialize (IH s1 _ Hacc1). destruct (deliver_all s1 txs) as [s2 xs].
    destruct IH as (I1 & I2 & I3 & I4). rewrite Hg in I1.
    unfold block_fees in *. rewrite I1.
    change (sumZ_with ?f (x :: xs)) with (f x + sumZ_with f xs).
    split; [f_equal; lia|]. split; [congruence|]. split; congruence.
Qed.

Lemma begin_block_gparams s hd : gparams (begin_block s hd).1 = gparams s.
Proof.
  unfold begin_block. destruct (negb (h_height hd =? last_height s + 1)); [reflexivity|]. cbv zeta.
  destruct (h_votes hd); [reflexivity|]. destruct (process_votes _ _ _ _) as [[l3 i]|e|pp]; reflexivity.
Qed.

(* C16, a whole block: after BeginBlock and the deliveries the fee sum EndBlock will pay out is
   the sum of gas used x governance price over the successful deliveries (modulo 2^256, and
   exactly when that sum is below 2^256) *)
Theorem block_feesum s hd txs :
  h_height hd = last_height s + 1 ->
  let s1 := (begin_block s hd).1 in
  let '(s2, rs) := deliver_all s1 txs in
  s2 = srun s ([SBegin hd] ++ map SDeliver txs) /\
  b_proposer (bctx s2) = h_proposer hd /\
  b_feesum (bctx s2) = wrap256 (block_fees (g_gasPrice (gparams s)) rs) /\
  (block_fees (g_gasPrice (gparams s)) rs < two256 -> b_feesum (bctx s2) = block_fees (g_gasPrice (gparams s)) rs).
Proof.
  intros Hh. cbv zeta.
  destruct (begin_block s hd) as [s1 r1] eqn:Eb. cbn [fst].
  destruct (begin_block_feesum _ _ _ _ Eb Hh) as (Hf0 & Hp0 & _).
  assert (Hg1 : gparams s1 = gparams s) by (pose proof (begin_block_gparams s hd) as H; rewrite Eb in H; exact H).
  assert (Hacc : b_feesum (bctx s1) = wrap256 0) by (rewrite Hf0; reflexivity).
  pose proof (deliver_all_feesum txs s1 0 Hacc) as Hall. pose proof (deliver_all_srun s1 txs) as Hrun.
  destruct (deliver_all s1 txs) as [s2 rs]. destruct Hall as (I1 & _ & I3 & _). cbn [fst] in Hrun.
  rewrite Hg1, Z.add_0_l in I1.
  split; [|split; [congruence|split; [exact I1|]]].
  - rewrite Hrun. unfold srun. cbn [app foldl sstep]. rewrite Eb. reflexivity.
  - intros Hlt. rewrite I1. apply wrap256_small. split; [|exact Hlt].
    apply sumZ_with_nonneg. intros [g|e|p]; cbn; [apply mul256_range|lia|lia].
Qed.
Print Assumptions block_feesum.

(* ================================================================== examples: the hypotheses are satisfiable *)
Lemma bal_range_decide l :
  bool_decide (map_Forall (fun (_ : addr) (x : account) => 0 <= a_bal x < two256) (accts l)) = true -> bal_range l.
Proof. intros H. apply bool_decide_eq_true in H. intros a x Hx. apply (H a x Hx). Qed.

Lemma ranges_ok_decide l :
  bool_decide (map_Forall (fun (_ : addr) (x : account) => 0 <= a_bal x < two256 /\ 0 <= a_nonce x < two64) (accts l)) = true ->
  bool_decide (Forall (fun s => 0 <= s_power s < two63) (bonded_stakes l ++ frozen_stakes l)) = true ->
  bool_decide (map_Forall (fun (_ : addr) (r : reward) => 0 <= r_cumulated r < two256) (rewards l)) = true ->
  ranges_ok l.
Proof.
  intros H1 H2 H3. apply bool_decide_eq_true in H1, H2, H3. split; [|split].
  - intros a x Hx. apply (H1 a x Hx).
  - intros s Hs. rewrite Forall_forall in H2. apply (H2 s Hs).
  - intros a r Hr. apply (H3 a r Hr).
Qed.

Ltac zclosed := repeat split; vm_compute; congruence.

Definition ex_transfer : tx := demo_tx TRX_TRANSFER 1%N 2%N (5 * amountPerPower) 4000 0 PNone 100%N.
Definition ex_transfer2 : tx := demo_tx TRX_TRANSFER 2%N 3%N amountPerPower 5000 0 PNone 101%N.
Definition ex_staking : tx := demo_tx TRX_STAKING 3%N 11%N (20 * amountPerPower) 4000 0 PNone 102%N.
Definition ex_bad : tx := demo_tx TRX_TRANSFER 1%N 2%N amountPerPower 4000 7 PNone 103%N.   (* wrong nonce *)

(* a transfer on the demo chain: all hypotheses of [deliver_native_balances] hold, and the
   theorem yields the concrete numbers *)
Example ex_transfer_cost :
  let s := demo_s1 in let t := ex_transfer in
  exists s', deliver s t = (s', Ok 4000) /\ native s t /\ tx_wf t /\ payload_wf t /\ ranges_ok (work s) /\
    t_price t = g_gasPrice (gparams s) /\
    bal_of (work s') 1%N = 1000 * amountPerPower - 40000 - 5 * amountPerPower /\
    bal_of (work s') 2%N = 1000 * amountPerPower + 5 * amountPerPower /\
    b_feesum (bctx s') = 40000.
Proof.
  cbv zeta. eexists. split; [vm_compute; reflexivity|].
  split; [vm_compute; reflexivity|]. split; [zclosed|]. split; [intros req H; discriminate H|].
  split; [apply ranges_ok_decide; vm_compute; reflexivity|].
  split; [reflexivity|]. split; [vm_compute; reflexivity|]. split; vm_compute; reflexivity.
Qed.

(* a block with three successful deliveries and a failed one: the fee sum of [block_feesum],
   and the proposer's credit of [end_block_proposer_credit] *)
Example ex_block :
  let s0 := init_chain demo_genesis in
  let hd := demo_hdr 1 (Some 11%N) in
  let txs := [ex_transfer; ex_bad; ex_transfer2; ex_staking] in
  let s2 := srun s0 ([SBegin hd] ++ map SDeliver txs) in
  h_height hd = last_height s0 + 1 /\
  (deliver_all (begin_block s0 hd).1 txs).2 = [Ok 4000; Err E_NONCE; Ok 5000; Ok 4000] /\
  b_feesum (bctx s2) = (4000 + 5000 + 4000) * 10 /\
  bal_range (work s2) /\ b_proposer (bctx s2) = Some 11%N /\ 0 < b_feesum (bctx s2) < two255 /\
  exists s3 ups, end_block s2 = (s3, Ok ups) /\
    bal_of (work s3) 11%N = bal_of (work s2) 11%N + 130000.
Proof.
  cbv zeta. split; [reflexivity|]. split; [vm_compute; reflexivity|]. split; [vm_compute; reflexivity|].
  split; [apply bal_range_decide; vm_compute; reflexivity|]. split; [vm_compute; reflexivity|].
  split; [zclosed|]. eexists. eexists. split; [vm_compute; reflexivity|]. vm_compute. reflexivity.
Qed.

(* ================================================================== what fails without the bounds *)
(* INTENDED (C16 literally): "at the end of the block the proposer is credited with exactly the sum
   of the fees".  AcctCtrler.EndBlock tests [SumFee().Sign() > 0] on a uint256 whose Sign() is -1
   from 2^255 on: a fee sum of 2^255 or more is not paid at all.  Reachable under [params_ok] and
   [tx_wf] from a genesis whose supply is of that size (price 2^191, three transactions with the
   maximal gas limit): hence the hypothesis [b_feesum < two255] of [end_block_proposer_credit],
   which InvSupply derives from the supply bound. *)
Definition big_params : params := {|
  g_version := 1; g_maxValidatorCnt := 21; g_minValidatorStake := 7 * amountPerPower;
  g_minDelegatorStake := 0; g_rewardPerPower := 1000; g_lazyRewardBlocks := 10; g_lazyApplyingBlocks := 10;
  g_gasPrice := 2 ^ 191; g_minTrxGas := 4000; g_maxTrxGas := 25000000; g_maxBlockGas := 100000000;
  g_minVotingPeriodBlocks := 1; g_maxVotingPeriodBlocks := 100; g_minSelfStakeRatio := 50;
  g_maxUpdatableStakeRatio := 30; g_maxIndividualStakeRatio := 10000000; g_slashRatio := 50;
  g_signedBlocksWindow := 10000; g_minSignedBlocks := 500 |}.
Definition big_genesis : genesis := {|
  gen_params := big_params; gen_holders := [(1%N, 2 ^ 256 - 1); (2%N, 0)]; gen_validators := [(11%N, 100)] |}.
Definition big_tx (n : Z) : tx :=
  {| t_type := TRX_TRANSFER; t_from := 1%N; t_to := 2%N; t_from_ok := true; t_to_ok := true; t_amount := 0;
     t_price := 2 ^ 191; t_gas := maxInt64; t_nonce := n; t_payload := PNone; t_hash := 0%N; t_sigok := true;
     t_evm := None |}.

Theorem C16_fee_sum_dropped_refuted :
  exists g txs pa,
    let s0 := init_chain g in
    let hd := demo_hdr 1 (Some pa) in
    let s2 := srun s0 ([SBegin hd] ++ map SDeliver txs) in
    params_ok (gen_params g) /\ Forall tx_wf txs /\ bal_range (work s0) /\
    (deliver_all (begin_block s0 hd).1 txs).2 = [Ok maxInt64; Ok maxInt64; Ok maxInt64] /\
    b_proposer (bctx s2) = Some pa /\ two255 <= b_feesum (bctx s2) < two256 /\
    exists s3 ups, end_block s2 = (s3, Ok ups) /\ bal_of (work s3) pa = bal_of (work s2) pa.
Proof.
  exists big_genesis, [big_tx 0; big_tx 1; big_tx 2], 11%N. cbv zeta.
  split; [zclosed|]. split; [repeat apply Forall_cons_2; try apply Forall_nil_2; zclosed|].
  split; [apply bal_range_decide; vm_compute; reflexivity|].
  split; [vm_compute; reflexivity|]. split; [vm_compute; reflexivity|]. split; [zclosed|].
  eexists. eexists. split; vm_compute; reflexivity.
Qed.

(* INTENDED (C16/C02 literally): "no balance ever wraps".  AddBalance is addition modulo 2^256: a
   transfer to an account whose balance + amount reaches 2^256 wraps.  Hence the explicit room
   hypotheses of [deliver_native_balances]; InvSupply discharges them from the supply bound. *)
Theorem transfer_wrap_refuted :
  exists s t s' g,
    deliver s t = (s', Ok g) /\ native s t /\ tx_wf t /\ bal_range (work s) /\ params_ok (gparams s) /\
    0 < t_amount t /\ bal_of (work s') (t_to t) < bal_of (work s) (t_to t).
Proof.
  set (g := {| gen_params := demo_params; gen_holders := [(1%N, 1000 * amountPerPower); (2%N, 2 ^ 256 - 1)];
               gen_validators := [(11%N, 100)] |}).
  exists (begin_block (init_chain g) (demo_hdr 1 (Some 11%N))).1.
  exists (demo_tx TRX_TRANSFER 1%N 2%N 1 4000 0 PNone 300%N).
  eexists. eexists. split; [vm_compute; reflexivity|]. split; [vm_compute; reflexivity|].
  split; [zclosed|]. split; [apply bal_range_decide; vm_compute; reflexivity|]. split; [zclosed|].
  split; vm_compute; reflexivity.
Qed.

(* ================================================================== assumptions of the main results *)
Print Assumptions deliver_ok_admission.
Print Assumptions deliver_ok_admission_literal_refuted.
Print Assumptions deliver_native_balances.
Print Assumptions deliver_transfer_cost.
Print Assumptions deliver_feesum.
Print Assumptions end_block_balances.
Print Assumptions end_block_proposer_credit.
Print Assumptions deliver_evm_gas.
Print Assumptions block_feesum.
Print Assumptions C16_fee_sum_dropped_refuted.
Print Assumptions transfer_wrap_refuted.
