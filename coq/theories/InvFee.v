(* InvFee.v — property C16: admission by gas price / minimum fee, exact cost of a successful
   transaction, fee sum of a block and its payment to the proposer.
   Also holds the shared infrastructure (decomposition of [deliver], balance arithmetic) that
   InvSupply.v reuses. *)
From Rigo Require Import Base.
From stdpp Require Import gmap sorting.
From Rigo Require Import Spec SpecProps.
Local Open Scope Z_scope.

Local Opaque two256 two255 two64 two63.
Arguments Z.pow : simpl never.

(* ================================================================== ranges *)
Lemma two256_pos : 0 < two256.            Proof. Local Transparent two256. unfold two256. lia. Qed.
Lemma two255_two256 : two256 = 2 * two255. Proof. Local Transparent two256 two255. unfold two256, two255. lia. Qed.
Lemma two64_pos : 0 < two64.              Proof. Local Transparent two64. unfold two64. lia. Qed.
Lemma two63_two64 : two64 = 2 * two63.    Proof. Local Transparent two64 two63. unfold two64, two63. lia. Qed.
Lemma two64_two256 : two64 * 2 ^ 192 = two256.
Proof. unfold two64, two256. rewrite <- Z.pow_add_r by lia. reflexivity. Qed.
Lemma two63_val : two63 = 9223372036854775808. Proof. reflexivity. Qed.
Local Opaque two256 two255 two64 two63.

Lemma add256_small a b : 0 <= a + b < two256 -> add256 a b = a + b.
Proof. intros H. unfold add256. apply wrap256_small. exact H. Qed.
Lemma sub256_small a b : 0 <= a - b < two256 -> sub256 a b = a - b.
Proof. intros H. unfold sub256. apply wrap256_small. exact H. Qed.
Lemma mul256_small a b : 0 <= a * b < two256 -> mul256 a b = a * b.
Proof. intros H. unfold mul256. apply wrap256_small. exact H. Qed.
Lemma add256_range a b : 0 <= add256 a b < two256. Proof. apply wrap256_range. Qed.
Lemma sub256_range a b : 0 <= sub256 a b < two256. Proof. apply wrap256_range. Qed.
Lemma mul256_range a b : 0 <= mul256 a b < two256. Proof. apply wrap256_range. Qed.

Lemma sign256_nonneg_iff z : 0 <= z -> (sign256 z <? 0) = false <-> z < two255.
Proof.
  intros Hz. unfold sign256.
  destruct (z =? 0) eqn:E0.
  - apply Z.eqb_eq in E0. subst z. split; [intros _|reflexivity].
    pose proof two256_pos. pose proof two255_two256. lia.
  - destruct (two255 <=? z) eqn:E1.
    + apply Z.leb_le in E1. split; [discriminate|lia].
    + apply Z.leb_gt in E1. split; [intros _; exact E1|reflexivity].
Qed.

Lemma sign256_pos_iff z : 0 <= z < two256 -> (0 <? sign256 z) = true <-> 0 < z < two255.
Proof.
  intros Hz. unfold sign256.
  destruct (z =? 0) eqn:E0.
  - apply Z.eqb_eq in E0. subst z. split; [discriminate|lia].
  - apply Z.eqb_neq in E0. destruct (two255 <=? z) eqn:E1.
    + apply Z.leb_le in E1. split; [discriminate|lia].
    + apply Z.leb_gt in E1. split; [intros _; lia|reflexivity].
Qed.

(* ================================================================== fees *)
Lemma fee_of_range t : 0 <= fee_of t < two256.
Proof. apply mul256_range. Qed.

Lemma mul_lt_two256 p g : 0 <= p < 2 ^ 192 -> 0 <= g < two64 -> 0 <= p * g < two256.
Proof.
  intros Hp Hg. rewrite <- two64_two256. split; [apply Z.mul_nonneg_nonneg; lia|].
  rewrite (Z.mul_comm two64). destruct (Z.eq_dec p 0) as [->|Hne]; [pose proof two64_pos; lia|].
  apply Z.le_lt_trans with (p * two64); [apply Z.mul_le_mono_nonneg_l; lia|].
  apply Z.mul_lt_mono_pos_r; [apply two64_pos|lia].
Qed.

(* with a price below 2^192 and a 64-bit gas limit the fee is the exact product *)
Lemma fee_of_exact t : 0 <= t_price t < 2 ^ 192 -> 0 <= t_gas t < two64 -> fee_of t = t_price t * t_gas t.
Proof. intros Hp Hg. unfold fee_of. apply mul256_small. apply mul_lt_two256; assumption. Qed.

(* ================================================================== projections *)
Lemma accts_set_acct l a x : accts (set_acct l a x) = <[a := x]> (accts l).   Proof. reflexivity. Qed.
Lemma dels_set_acct l a x : dels (set_acct l a x) = dels l.                   Proof. reflexivity. Qed.
Lemma frozen_set_acct l a x : frozen (set_acct l a x) = frozen l.             Proof. reflexivity. Qed.
Lemma rewards_set_acct l a x : rewards (set_acct l a x) = rewards l.          Proof. reflexivity. Qed.
Lemma accts_set_dels l m : accts (set_dels l m) = accts l.                    Proof. reflexivity. Qed.
Lemma dels_set_dels l m : dels (set_dels l m) = m.                            Proof. reflexivity. Qed.
Lemma frozen_set_dels l m : frozen (set_dels l m) = frozen l.                 Proof. reflexivity. Qed.
Lemma rewards_set_dels l m : rewards (set_dels l m) = rewards l.              Proof. reflexivity. Qed.
Lemma accts_set_frozen l m : accts (set_frozen l m) = accts l.                Proof. reflexivity. Qed.
Lemma dels_set_frozen l m : dels (set_frozen l m) = dels l.                   Proof. reflexivity. Qed.
Lemma frozen_set_frozen l m : frozen (set_frozen l m) = m.                    Proof. reflexivity. Qed.
Lemma rewards_set_frozen l m : rewards (set_frozen l m) = rewards l.          Proof. reflexivity. Qed.
Lemma accts_set_rewards l m : accts (set_rewards l m) = accts l.              Proof. reflexivity. Qed.
Lemma dels_set_rewards l m : dels (set_rewards l m) = dels l.                 Proof. reflexivity. Qed.
Lemma frozen_set_rewards l m : frozen (set_rewards l m) = frozen l.           Proof. reflexivity. Qed.
Lemma rewards_set_rewards l m : rewards (set_rewards l m) = m.                Proof. reflexivity. Qed.
Lemma accts_set_props l m : accts (set_props l m) = accts l.                  Proof. reflexivity. Qed.
Lemma dels_set_props l m : dels (set_props l m) = dels l.                     Proof. reflexivity. Qed.
Lemma frozen_set_props l m : frozen (set_props l m) = frozen l.               Proof. reflexivity. Qed.
Lemma rewards_set_props l m : rewards (set_props l m) = rewards l.            Proof. reflexivity. Qed.
Lemma accts_set_fprops l m : accts (set_fprops l m) = accts l.                Proof. reflexivity. Qed.
Lemma dels_set_fprops l m : dels (set_fprops l m) = dels l.                   Proof. reflexivity. Qed.
Lemma frozen_set_fprops l m : frozen (set_fprops l m) = frozen l.             Proof. reflexivity. Qed.
Lemma rewards_set_fprops l m : rewards (set_fprops l m) = rewards l.          Proof. reflexivity. Qed.
Lemma accts_set_lparams l p : accts (set_lparams l p) = accts l.              Proof. reflexivity. Qed.
Lemma dels_set_lparams l p : dels (set_lparams l p) = dels l.                 Proof. reflexivity. Qed.
Lemma frozen_set_lparams l p : frozen (set_lparams l p) = frozen l.           Proof. reflexivity. Qed.
Lemma rewards_set_lparams l p : rewards (set_lparams l p) = rewards l.        Proof. reflexivity. Qed.

Create HintDb proj discriminated.
Global Hint Rewrite accts_set_acct dels_set_acct frozen_set_acct rewards_set_acct
  accts_set_dels dels_set_dels frozen_set_dels rewards_set_dels
  accts_set_frozen dels_set_frozen frozen_set_frozen rewards_set_frozen
  accts_set_rewards dels_set_rewards frozen_set_rewards rewards_set_rewards
  accts_set_props dels_set_props frozen_set_props rewards_set_props
  accts_set_fprops dels_set_fprops frozen_set_fprops rewards_set_fprops
  accts_set_lparams dels_set_lparams frozen_set_lparams rewards_set_lparams : proj.

(* ================================================================== balances of single accounts *)
Lemma acct_of_set_acct l a x b : acct_of (set_acct l a x) b = if decide (a = b) then x else acct_of l b.
Proof.
  unfold acct_of. rewrite accts_set_acct. destruct (decide (a = b)) as [->|Hne].
  - rewrite lookup_insert. reflexivity.
  - rewrite lookup_insert_ne by exact Hne. reflexivity.
Qed.

Lemma bal_of_set_acct l a x b : bal_of (set_acct l a x) b = if decide (a = b) then a_bal x else bal_of l b.
Proof. unfold bal_of. rewrite acct_of_set_acct. destruct (decide (a = b)); reflexivity. Qed.

Lemma bal_of_lookup l a x : accts l !! a = Some x -> bal_of l a = a_bal x.
Proof. intros H. unfold bal_of, acct_of. rewrite H. reflexivity. Qed.

Lemma bal_of_same_accts l l' a : accts l' = accts l -> bal_of l' a = bal_of l a.
Proof. intros H. unfold bal_of, acct_of. rewrite H. reflexivity. Qed.

(* sub_balance / add_balance, exact *)
Lemma sub_balance_Some x amt x' :
  0 <= amt -> 0 <= a_bal x < two256 -> sub_balance x amt = Some x' ->
  amt <= a_bal x /\ a_bal x' = a_bal x - amt /\ a_nonce x' = a_nonce x /\ a_code x' = a_code x.
Proof.
  intros Ha Hb. unfold sub_balance.
  destruct (sign256 amt <? 0) eqn:Es; [discriminate|].
  destruct (a_bal x <? amt) eqn:El; [discriminate|].
  apply Z.ltb_ge in El. intros [= <-]. simpl.
  rewrite sub256_small by lia. auto.
Qed.

Lemma add_balance_Some x amt x' :
  0 <= amt -> add_balance x amt = Some x' ->
  amt < two255 /\ a_bal x' = add256 (a_bal x) amt /\ a_nonce x' = a_nonce x /\ a_code x' = a_code x.
Proof.
  intros Ha. unfold add_balance.
  destruct (sign256 amt <? 0) eqn:Es; [discriminate|].
  apply sign256_nonneg_iff in Es; [|exact Ha].
  intros [= <-]. simpl. auto.
Qed.

Lemma add_nonce_bal x : a_bal (add_nonce x) = a_bal x.   Proof. reflexivity. Qed.
Lemma add_nonce_code x : a_code (add_nonce x) = a_code x. Proof. reflexivity. Qed.

(* find_or_new: only an empty account may appear *)
Lemma find_or_new_spec l a :
  (find_or_new l a).2 = acct_of l a /\
  accts (find_or_new l a).1 !! a = Some (acct_of l a) /\
  (forall b, acct_of (find_or_new l a).1 b = acct_of l b) /\
  (forall b x, accts l !! b = Some x -> accts (find_or_new l a).1 !! b = Some x) /\
  (forall b x, accts (find_or_new l a).1 !! b = Some x -> accts l !! b = Some x \/ (b = a /\ x = acct0 /\ accts l !! a = None)) /\
  dels (find_or_new l a).1 = dels l /\ frozen (find_or_new l a).1 = frozen l /\
  rewards (find_or_new l a).1 = rewards l /\ props (find_or_new l a).1 = props l /\
  fprops (find_or_new l a).1 = fprops l /\ lparams (find_or_new l a).1 = lparams l.
Proof.
  unfold find_or_new, acct_of. destruct (accts l !! a) as [x|] eqn:E; simpl.
  - rewrite E. repeat split; auto.
  - repeat split; auto.
    + apply lookup_insert.
    + intros b. destruct (decide (a = b)) as [->|Hne].
      * rewrite lookup_insert, E. reflexivity.
      * rewrite lookup_insert_ne by exact Hne. reflexivity.
    + intros b x Hb. rewrite lookup_insert_ne; [exact Hb|]. intros ->. congruence.
    + intros b x Hb. destruct (decide (a = b)) as [->|Hne].
      * rewrite lookup_insert in Hb. injection Hb as <-. right. auto.
      * rewrite lookup_insert_ne in Hb by exact Hne. left. exact Hb.
Qed.

(* ================================================================== decomposition of [deliver] *)
Definition bump_txs (b : blockctx) : blockctx :=
  {| b_height := b_height b; b_proposer := b_proposer b; b_feesum := b_feesum b; b_txs := b_txs b + 1 |}.
Definition add_fee (b : blockctx) (f : Z) : blockctx :=
  {| b_height := b_height b; b_proposer := b_proposer b; b_feesum := add256 (b_feesum b) f; b_txs := b_txs b |}.

(* state in which validation runs: tx counter bumped, receiver account present *)
Definition pre_state (s : state) (t : tx) : state :=
  with_work (with_bctx s (bump_txs (bctx s))) (find_or_new (work s) (t_to t)).1.
Definition receiver_of (s : state) (t : tx) : account := (find_or_new (work s) (t_to t)).2.

Definition evm_path_of (t : tx) (receiver : account) : bool :=
  (t_type t =? TRX_CONTRACT) || ((t_type t =? TRX_TRANSFER) && a_code receiver).

Definition validated_of (s1 : state) (receiver : account) (t : tx) : res limiter :=
  let ty := t_type t in
  if (ty =? TRX_PROPOSAL) || (ty =? TRX_VOTING) then
    match gov_validate s1 t with Some e => Err e | None => Ok (lim s1) end
  else if (ty =? TRX_TRANSFER) || (ty =? TRX_SETDOC) then
    match acct_validate t with Some e => Err e | None => Ok (lim s1) end
  else if (ty =? TRX_STAKING) || (ty =? TRX_UNSTAKING) || (ty =? TRX_WITHDRAW) then stake_validate s1 t
  else if ty =? TRX_CONTRACT then
    match evm_validate receiver t with Some e => Err e | None => Ok (lim s1) end
  else Err E_TYPE.

Definition exec_native (s2 : state) (t : tx) : res ledgers :=
  let ty := t_type t in
  if (ty =? TRX_PROPOSAL) || (ty =? TRX_VOTING) then gov_execute s2 (work s2) t
  else if (ty =? TRX_TRANSFER) || (ty =? TRX_SETDOC) then acct_execute (work s2) t
  else stake_execute s2 (work s2) t.

(* postRunTrx *)
Definition post_run (s2 : state) (gp : Z) (t : tx) (l' : ledgers) : state * res Z :=
  match accts l' !! t_from t with
  | None => (s2, Err E_NOACCT)
  | Some snd' =>
      match sub_balance snd' (fee_of t) with
      | None => (with_work s2 l', Err E_FUND)
      | Some snd'' =>
          (with_bctx (with_work s2 (set_acct l' (t_from t) (add_nonce snd'')))
             (add_fee (bctx s2) (mul256 (t_gas t) gp)), Ok (t_gas t))
      end
  end.

Definition deliver_body (s : state) (t : tx) (sender : account) : state * res Z :=
  let s1 := pre_state s t in
  let receiver := receiver_of s t in
  match common_validation0 (gparams s) t with Some e => (s1, Err e) | None =>
  match common_validation1 sender t with Some e => (s1, Err e) | None =>
  match validated_of s1 receiver t with
  | Err e => (s1, Err e)
  | Panic p => (s1, Panic p)
  | Ok lim' =>
      let s2 := with_lim s1 lim' in
      if evm_path_of t receiver then
        match evm_execute (work s2) t with
        | Ok (l', gas) => (with_bctx (with_work s2 l') (add_fee (bctx s2) (mul256 gas (g_gasPrice (gparams s)))), Ok gas)
        | Err e => (s2, Err e)
        | Panic p => (s2, Panic p)
        end
      else
        match exec_native s2 t with
        | Err e => (s2, Err e)
        | Panic p => (s2, Panic p)
        | Ok l' => post_run s2 (g_gasPrice (gparams s)) t l'
        end
  end end end.

Lemma deliver_eq s t :
  deliver s t = match accts (work s) !! t_from t with
                | None => (s, Err E_NOACCT)
                | Some sender => deliver_body s t sender
                end.
Proof.
  unfold deliver, deliver_body, pre_state, receiver_of, validated_of, exec_native, post_run, evm_path_of.
  destruct (accts (work s) !! t_from t) as [sender|]; [|reflexivity].
  cbn [work with_bctx].
  destruct (find_or_new (work s) (t_to t)) as [l0 receiver]. cbn [fst snd].
  reflexivity.
Qed.

(* projections of the intermediate states *)
Lemma pre_state_work s t : work (pre_state s t) = (find_or_new (work s) (t_to t)).1.  Proof. reflexivity. Qed.
Lemma pre_state_gparams s t : gparams (pre_state s t) = gparams s.                    Proof. reflexivity. Qed.
Lemma pre_state_bctx s t : bctx (pre_state s t) = bump_txs (bctx s).                  Proof. reflexivity. Qed.
Lemma pre_state_lastvals s t : lastvals (pre_state s t) = lastvals s.                 Proof. reflexivity. Qed.
Lemma pre_state_lim s t : lim (pre_state s t) = lim s.                                Proof. reflexivity. Qed.

Lemma receiver_of_eq s t : receiver_of s t = acct_of (work s) (t_to t).
Proof. unfold receiver_of. apply find_or_new_spec. Qed.

(* a transaction takes the native path: not a contract transaction, receiver without code *)
Definition native (s : state) (t : tx) : Prop := evm_path_of t (acct_of (work s) (t_to t)) = false.

(* ================================================================== F1: admission *)
Lemma common_validation0_None g t :
  common_validation0 g t = None ->
  t_from_ok t = true /\ t_to_ok t = true /\ (sign256 (t_amount t) <? 0) = false /\ t_gas t <= maxInt64 /\
  (sign256 (t_price t) <? 0) = false /\ t_price t = g_gasPrice g /\
  mul256 (g_minTrxGas g) (g_gasPrice g) <= fee_of t /\ t_sigok t = true.
Proof.
  unfold common_validation0.
  destruct (t_from_ok t); [|discriminate]. destruct (t_to_ok t); [|discriminate]. cbn [negb].
  destruct (sign256 (t_amount t) <? 0) eqn:Ea; [discriminate|].
  destruct (maxInt64 <? t_gas t) eqn:Eg; [discriminate|].
  destruct (sign256 (t_price t) <? 0) eqn:Ep; [discriminate|]. cbn [orb].
  destruct (t_price t =? g_gasPrice g) eqn:Epp; [|discriminate]. cbn [negb].
  destruct (fee_of t <? mul256 (g_minTrxGas g) (g_gasPrice g)) eqn:Ef; [discriminate|].
  destruct (t_sigok t); [|discriminate]. intros _.
  apply Z.ltb_ge in Eg, Ef. apply Z.eqb_eq in Epp. auto 10.
Qed.

(* intrinsic gas EVMCtrler.ValidateTrx compares the gas limit with *)
Definition intrinsic_of (t : tx) : Z := match t_payload t with PContract i => i | _ => 21000 end.

Lemma deliver_ok_inv s t s' g :
  deliver s t = (s', Ok g) ->
  exists sender lim',
    accts (work s) !! t_from t = Some sender /\
    common_validation0 (gparams s) t = None /\
    common_validation1 sender t = None /\
    validated_of (pre_state s t) (receiver_of s t) t = Ok lim' /\
    let s2 := with_lim (pre_state s t) lim' in
    if evm_path_of t (receiver_of s t) then
      exists l', evm_execute (work s2) t = Ok (l', g) /\
        s' = with_bctx (with_work s2 l') (add_fee (bctx s2) (mul256 g (g_gasPrice (gparams s))))
    else
      exists l' snd' snd'', exec_native s2 t = Ok l' /\ accts l' !! t_from t = Some snd' /\
        sub_balance snd' (fee_of t) = Some snd'' /\ g = t_gas t /\
        s' = with_bctx (with_work s2 (set_acct l' (t_from t) (add_nonce snd'')))
               (add_fee (bctx s2) (mul256 (t_gas t) (g_gasPrice (gparams s)))).
Proof.
  rewrite deliver_eq. destruct (accts (work s) !! t_from t) as [sender|] eqn:Es; [|discriminate].
  unfold deliver_body.
  destruct (common_validation0 (gparams s) t) as [e|] eqn:E0; [discriminate|].
  destruct (common_validation1 sender t) as [e|] eqn:E1; [discriminate|].
  destruct (validated_of (pre_state s t) (receiver_of s t) t) as [lim'|e|p] eqn:Ev; [|discriminate|discriminate].
  intros H. exists sender, lim'. repeat (split; [reflexivity|]). cbv zeta.
  destruct (evm_path_of t (receiver_of s t)) eqn:Ep; cbv iota.
  - destruct (evm_execute _ t) as [[l' gas]|e|p] eqn:Ee; [|discriminate|discriminate].
    injection H as <- <-. Show. exists l'. split; reflexivity.
  - destruct (exec_native _ t) as [l'|e|p] eqn:Ee; [|discriminate|discriminate].
    unfold post_run in H.
    destruct (accts l' !! t_from t) as [snd'|] eqn:Esn; [|discriminate].
    destruct (sub_balance snd' (fee_of t)) as [snd''|] eqn:Esb; [|discriminate].
    injection H as <- <-. exists l', snd', snd''. auto 10.
Qed.

(* C16, admission.  The intended statement asked, for contract transactions, for
   [exists i, t_payload t = PContract i /\ i <= t_gas t]; the model (as EVMCtrler.ValidateTrx
   does for a nil payload) charges 21000 when the payload is not a contract payload, so the
   statement is given with [intrinsic_of]; see [deliver_ok_admission_literal_refuted] below.
   A TRX_TRANSFER to a contract account also runs the EVM but is validated by the account
   controller only: no intrinsic-gas check applies to it
   (see [transfer_to_contract_no_intrinsic_check]). *)
Theorem deliver_ok_admission s t s' g :
  deliver s t = (s', Ok g) ->
  t_price t = g_gasPrice (gparams s) /\
  mul256 (g_minTrxGas (gparams s)) (g_gasPrice (gparams s)) <= fee_of t /\
  (t_type t = TRX_CONTRACT -> intrinsic_of t <= t_gas t).
Proof.
  intros Hd. apply deliver_ok_inv in Hd as (sender & lim' & Hs & H0 & H1 & Hv & _).
  apply common_validation0_None in H0 as (_ & _ & _ & _ & _ & Hp & Hf & _).
  split; [exact Hp|]. split; [exact Hf|].
  intros Hty. unfold validated_of in Hv. rewrite Hty in Hv. cbn in Hv.
  unfold evm_validate in Hv. rewrite Hty in Hv. cbn in Hv. fold (intrinsic_of t) in Hv.
  destruct (t_gas t <? intrinsic_of t) eqn:Eg; [discriminate|]. apply Z.ltb_ge in Eg. exact Eg.
Qed.
Print Assumptions deliver_ok_admission.

(* with in-range parameters the two fee bounds are products *)
Corollary deliver_ok_admission_exact s t s' g :
  deliver s t = (s', Ok g) -> params_ok (gparams s) -> 0 <= t_gas t < two64 ->
  t_price t = g_gasPrice (gparams s) /\ g_minTrxGas (gparams s) * g_gasPrice (gparams s) <= t_gas t * t_price t.
Proof.
  intros Hd Hp Hg. destruct (deliver_ok_admission _ _ _ _ Hd) as (Hpr & Hfee & _).
  destruct Hp as (Hgp & Hmin & _). split; [exact Hpr|].
  rewrite fee_of_exact in Hfee by (rewrite ?Hpr; assumption).
  rewrite mul256_small in Hfee; [lia|].
  rewrite Z.mul_comm. apply mul_lt_two256; assumption.
Qed.
